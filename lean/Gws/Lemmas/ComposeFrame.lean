import Gws.Lemmas.WriterCall
import Gws.Lemmas.ReaderLoop
/-!
# One frame of the writer, read by the reader (helpers for Props/C01)

`parse_genHeader`: `Frame.parse` reads back `GenerateHeader`'s bytes (through `Reader.parse_spec`
and `Writer.genHeader_decodes_eq`: both sides agree with the RFC decoder).  `step_dataFrame` /
`step_controlFrame`: one `readMessage` on the bytes `Writer.wireFrame` of a peer of the opposite
role.  `afterPayload_*`: the four reassembly cases (single frame, first / middle / last fragment).
`Runs`: a sequence of completed `readMessage` calls, and how it unfolds `readLoop`.
-/

namespace Compose

/-- `Frame.parse` on the bytes `GenerateHeader` wrote, for lengths that fit a Go `int` -/
theorem parse_genHeader (isServer fin rsv1 : Bool) (opcode n : Nat) (key rest : Bytes)
    (hop : opcode < 16) (hn : n < 2 ^ 63) (hk : key.length = 4) :
    ∃ h, Frame.parse (Frame.genHeader isServer fin rsv1 opcode n key ++ rest) = .ok h rest ∧
      Frame.getFIN h.b0 = fin ∧ Frame.getRSV1 h.b0 = rsv1 ∧ Frame.getRSV2 h.b0 = false ∧
      Frame.getRSV3 h.b0 = false ∧ Frame.getOpcode h.b0 = opcode ∧ Frame.getMask h.b1 = (!isServer) ∧
      h.key = (if isServer then [] else key) ∧ h.len = (n : Int) ∧
      (n ≤ 125 → Frame.getLengthCode h.b1 = n) := by
  have hd := Writer.genHeader_decodes_eq isServer fin rsv1 opcode n key rest hop (by omega) hk
  have hp := Reader.parse_spec (Frame.genHeader isServer fin rsv1 opcode n key ++ rest)
  rw [hd] at hp
  generalize Frame.parse _ = x at hp
  cases hp with
  | ok h sh rest' hrel =>
    refine ⟨h, rfl, hrel.fin.symm, hrel.rsv1.symm, hrel.rsv2.symm, hrel.rsv3.symm, hrel.opcode.symm,
      hrel.masked.symm, hrel.key.symm, ?_, ?_⟩
    · have := hrel.len
      simp only [Writer.sentHdr] at this
      rw [this]
      have hg : Frame.toGoInt n = (n : Int) := by
        unfold Frame.toGoInt
        have : ¬ n ≥ 2 ^ 63 := by omega
        simp only [this, ↓reduceIte]
      rw [hg]
      exact ite_self _
    · intro h125
      have := hrel.form
      simp only [Writer.sentHdr, h125, ↓reduceIte] at this
      omega

/-! ## the header checks -/

theorem headerCheck_sent (cfg : Reader.Cfg) (h : Frame.Hdr) (senderIsServer rsv1 : Bool) (opcode n : Nat)
    (hrole : cfg.isServer = !senderIsServer)
    (hlen : h.len = (n : Int)) (hfit : (n : Int) ≤ cfg.readMax)
    (h1 : Frame.getRSV1 h.b0 = rsv1) (h2 : Frame.getRSV2 h.b0 = false) (h3 : Frame.getRSV3 h.b0 = false)
    (hop : Frame.getOpcode h.b0 = opcode) (hm : Frame.getMask h.b1 = !senderIsServer)
    (hrsv : rsv1 = true → cfg.pdEnabled = true ∧ (opcode = Facts.opText ∨ opcode = Facts.opBinary)) :
    Reader.headerCheck cfg h = none := by
  unfold Reader.headerCheck
  have hl : ¬ (h.len < 0 ∨ h.len > cfg.readMax) := by omega
  rw [if_neg hl]
  simp only [h1, h2, h3, hop, hm, hrole]
  cases rsv1 <;> cases senderIsServer <;> simp_all

/-! ## one `readMessage` on a frame of the writer -/

/-- a data frame (opcode 0, 1 or 2) of a peer of the opposite role, within the receiver's frame
limit: the header checks pass, the payload is read and unmasked to `body`, and `afterPayload` runs
with a header that shows exactly the flags and opcode the sender wrote -/
theorem step_dataFrame (cfg : Reader.Cfg) (codec : Codec) (st : Reader.State) (senderIsServer fin rsv1 : Bool)
    (opcode : Nat) (body key rest : Bytes)
    (hrole : cfg.isServer = !senderIsServer) (hop : opcode ≤ 2) (hk : key.length = 4)
    (hfit : (body.length : Int) ≤ cfg.readMax) (hR : cfg.readMax < 2 ^ 63)
    (hrsv : rsv1 = true → cfg.pdEnabled = true ∧ (opcode = Facts.opText ∨ opcode = Facts.opBinary)) :
    ∃ h, Frame.getFIN h.b0 = fin ∧ Frame.getRSV1 h.b0 = rsv1 ∧ Frame.getOpcode h.b0 = opcode ∧
      Reader.step cfg codec st (Writer.wireFrame senderIsServer fin rsv1 opcode body key ++ rest) =
        Reader.afterPayload cfg codec st h body rest := by
  unfold Writer.wireFrame
  rw [List.append_assoc]
  obtain ⟨h, hp, hfin, h1, h2, h3, hopc, hm, hkey, hlen, _⟩ :=
    parse_genHeader senderIsServer fin rsv1 opcode body.length key
      ((if senderIsServer then body else Reader.unmask key body) ++ rest) (by omega) (by omega) hk
  refine ⟨h, hfin, h1, hopc, ?_⟩
  unfold Reader.step
  rw [hp]
  simp only
  rw [headerCheck_sent cfg h senderIsServer rsv1 opcode body.length hrole hlen hfit h1 h2 h3 hopc hm hrsv]
  simp only
  have hnc : ¬ Frame.getOpcode h.b0 > Facts.dataFrameMaxOpcode := by
    rw [hopc]; simp [Facts.dataFrameMaxOpcode]; omega
  rw [if_neg hnc, Reader.dataFrame_eq]
  have hn : h.len.toNat = body.length := by rw [hlen]; simp
  have hbl : (if senderIsServer then body else Reader.unmask key body).length = body.length := by
    cases senderIsServer <;> simp
  have hnl : ¬ ((if senderIsServer then body else Reader.unmask key body) ++ rest).length < h.len.toNat := by
    rw [hn, List.length_append, hbl]; omega
  rw [if_neg hnl, hn, ← hbl, List.take_left, List.drop_left, hm, hkey]
  cases senderIsServer
  · simp only [Bool.not_false, ↓reduceIte, Bool.false_eq_true, Writer.unmask_involutive]
  · simp only [Bool.not_true, Bool.false_eq_true, ↓reduceIte]

/-- a Ping or Pong of a peer of the opposite role with at most 125 bytes of payload is delivered
with that payload; the reader's state (reassembly buffer, window) is returned unchanged -/
theorem step_controlFrame (cfg : Reader.Cfg) (codec : Codec) (st : Reader.State) (senderIsServer : Bool)
    (opcode : Nat) (body key rest : Bytes)
    (hrole : cfg.isServer = !senderIsServer) (hop : opcode = Facts.opPing ∨ opcode = Facts.opPong)
    (hk : key.length = 4) (h125 : body.length ≤ 125) (hfit : (body.length : Int) ≤ cfg.readMax) :
    Reader.step cfg codec st (Writer.wireFrame senderIsServer true false opcode body key ++ rest) =
      .ok st [if opcode = Facts.opPing then .ping body else .pong body] rest := by
  unfold Writer.wireFrame
  rw [List.append_assoc]
  have hop16 : opcode < 16 := by rcases hop with rfl | rfl <;> simp [Facts.opPing, Facts.opPong]
  obtain ⟨h, hp, hfin, h1, h2, h3, hopc, hm, hkey, hlen, hcode⟩ :=
    parse_genHeader senderIsServer true false opcode body.length key
      ((if senderIsServer then body else Reader.unmask key body) ++ rest) hop16 (by omega) hk
  unfold Reader.step
  rw [hp]
  simp only
  rw [headerCheck_sent cfg h senderIsServer false opcode body.length hrole hlen hfit h1 h2 h3 hopc hm (by simp)]
  simp only
  have hc : Frame.getOpcode h.b0 > Facts.dataFrameMaxOpcode := by
    rw [hopc]; rcases hop with rfl | rfl <;> simp [Facts.opPing, Facts.opPong, Facts.dataFrameMaxOpcode]
  rw [if_pos hc]
  unfold Reader.readControl
  have hcode' := hcode h125
  have hbl : (if senderIsServer then body else Reader.unmask key body).length = body.length := by
    cases senderIsServer <;> simp
  have e1 : ¬ (!Frame.getFIN h.b0) = true := by simp [hfin]
  have e2 : ¬ Frame.getLengthCode h.b1 > Facts.thresholdV1 := by rw [hcode']; simp [Facts.thresholdV1]; omega
  have e3 : ¬ ((if senderIsServer then body else Reader.unmask key body) ++ rest).length < Frame.getLengthCode h.b1 := by
    rw [hcode', List.length_append, hbl]; omega
  simp only [e1, e2, e3, ↓reduceIte]
  rw [hcode', ← hbl, List.take_left, List.drop_left, hm, hkey, hopc]
  have hpay : (if (if senderIsServer then body else Reader.unmask key body).length > 0 ∧ (!senderIsServer) = true then
      Reader.unmask (if senderIsServer then [] else key) (if senderIsServer then body else Reader.unmask key body)
      else (if senderIsServer then body else Reader.unmask key body)) = body := by
    cases senderIsServer
    · simp only [Bool.not_false, and_true, Bool.false_eq_true, ↓reduceIte]
      split
      · exact Writer.unmask_involutive key body
      · rename_i hz
        have hz' : body.length = 0 := by
          have := Writer.unmask_length key body
          omega
        have hb : body = [] := List.eq_nil_of_length_eq_zero hz'
        subst hb
        exact Reader.unmask_nil key
    · simp
  rw [hpay]
  rcases hop with rfl | rfl
  · simp [Facts.opPing]
  · simp [Facts.opPing, Facts.opPong]

/-! ## `emitMessage` -/

theorem emitMessage_plain (cfg : Reader.Cfg) (codec : Codec) (st : Reader.State) (opcode : Nat) (data : Bytes)
    (hv : Utf8.checkEncoding cfg.checkUtf8 opcode data = true) :
    Reader.emitMessage cfg codec st opcode data false = .inl (st, some (.msg opcode data)) := by
  unfold Reader.emitMessage
  simp [hv]

theorem emitMessage_inflated (cfg : Reader.Cfg) (codec : Codec) (st : Reader.State) (opcode : Nat) (data out : Bytes)
    (hd : codec.decompress cfg.readMax st.dps.dict data = .ok out)
    (hv : Utf8.checkEncoding cfg.checkUtf8 opcode out = true) :
    Reader.emitMessage cfg codec st opcode data true =
      .inl ({ st with dps := st.dps.write out }, some (.msg opcode out)) := by
  unfold Reader.emitMessage
  simp [hd, hv]

/-! ## the reassembly cases of `afterPayload` -/

/-- an unfragmented message on an idle reader -/
theorem afterPayload_single (cfg : Reader.Cfg) (codec : Codec) (st : Reader.State) (h : Frame.Hdr) (p rest : Bytes)
    (hfin : Frame.getFIN h.b0 = true) (hop : Frame.getOpcode h.b0 ≠ Facts.opContinuation)
    (hidle : st.cont.initialized = false) (st' : Reader.State) (ev : Option Reader.Ev)
    (he : Reader.emitMessage cfg codec st (Frame.getOpcode h.b0) p (cfg.pdEnabled && Frame.getRSV1 h.b0) = .inl (st', ev)) :
    Reader.afterPayload cfg codec st h p rest = .ok st' ev.toList rest := by
  unfold Reader.afterPayload
  simp [hfin, hop, hidle, he]

/-- the first fragment of a message on an idle reader -/
theorem afterPayload_first (cfg : Reader.Cfg) (codec : Codec) (st : Reader.State) (h : Frame.Hdr) (p rest : Bytes)
    (hfin : Frame.getFIN h.b0 = false) (hop : Frame.getOpcode h.b0 ≠ Facts.opContinuation)
    (hidle : st.cont.initialized = false) (hfit : (p.length : Int) ≤ cfg.readMax) :
    Reader.afterPayload cfg codec st h p rest =
      .ok { st with cont := { initialized := true, compressed := cfg.pdEnabled && Frame.getRSV1 h.b0,
                              opcode := Frame.getOpcode h.b0, buffer := p } } [] rest := by
  unfold Reader.afterPayload
  have : ¬ (p.length : Int) > cfg.readMax := by omega
  simp [hfin, hop, hidle, this]

/-- a middle fragment -/
theorem afterPayload_middle (cfg : Reader.Cfg) (codec : Codec) (st : Reader.State) (h : Frame.Hdr) (p rest : Bytes)
    (hfin : Frame.getFIN h.b0 = false) (hop : Frame.getOpcode h.b0 = Facts.opContinuation)
    (hinit : st.cont.initialized = true) (hfit : ((st.cont.buffer.length + p.length : Nat) : Int) ≤ cfg.readMax) :
    Reader.afterPayload cfg codec st h p rest =
      .ok { st with cont := { st.cont with buffer := st.cont.buffer ++ p } } [] rest := by
  unfold Reader.afterPayload
  have : ¬ cfg.readMax < (st.cont.buffer.length : Int) + (p.length : Int) := by omega
  simp [hfin, hop, hinit, this]

/-- the last fragment -/
theorem afterPayload_last (cfg : Reader.Cfg) (codec : Codec) (st : Reader.State) (h : Frame.Hdr) (p rest : Bytes)
    (hfin : Frame.getFIN h.b0 = true) (hop : Frame.getOpcode h.b0 = Facts.opContinuation)
    (hinit : st.cont.initialized = true) (hfit : ((st.cont.buffer.length + p.length : Nat) : Int) ≤ cfg.readMax)
    (st' : Reader.State) (ev : Option Reader.Ev)
    (he : Reader.emitMessage cfg codec { st with cont := {} } st.cont.opcode (st.cont.buffer ++ p) st.cont.compressed =
      .inl (st', ev)) :
    Reader.afterPayload cfg codec st h p rest = .ok st' ev.toList rest := by
  unfold Reader.afterPayload
  have : ¬ cfg.readMax < (st.cont.buffer.length : Int) + (p.length : Int) := by omega
  simp [hfin, hop, hinit, this, he]

/-! ## sequences of completed `readMessage` calls -/

/-- `Runs cfg codec st b st' evs rest`: starting in `st` on input `b`, some number of consecutive
`readMessage` calls complete, deliver `evs` in this order, and leave the reader in `st'` with `rest`
unread -/
inductive Runs (cfg : Reader.Cfg) (codec : Codec) : Reader.State → Bytes → Reader.State → List Reader.Ev → Bytes → Prop
  | nil (st : Reader.State) (b : Bytes) : Runs cfg codec st b st [] b
  | cons {st st1 st2 : Reader.State} {b b1 b2 : Bytes} {evs1 evs2 : List Reader.Ev} :
      Reader.step cfg codec st b = .ok st1 evs1 b1 → Runs cfg codec st1 b1 st2 evs2 b2 →
      Runs cfg codec st b st2 (evs1 ++ evs2) b2

theorem Runs.one {cfg : Reader.Cfg} {codec : Codec} {st st1 : Reader.State} {b b1 : Bytes} {evs : List Reader.Ev}
    (h : Reader.step cfg codec st b = .ok st1 evs b1) : Runs cfg codec st b st1 evs b1 := by
  have := Runs.cons h (Runs.nil st1 b1)
  simpa using this

theorem Runs.trans {cfg : Reader.Cfg} {codec : Codec} {st st1 st2 : Reader.State} {b b1 b2 : Bytes}
    {evs1 evs2 : List Reader.Ev} (h1 : Runs cfg codec st b st1 evs1 b1) (h2 : Runs cfg codec st1 b1 st2 evs2 b2) :
    Runs cfg codec st b st2 (evs1 ++ evs2) b2 := by
  induction h1 with
  | nil => simpa using h2
  | cons hs _ ih => rw [List.append_assoc]; exact Runs.cons hs (ih h2)

/-- the read loop after a run: the run's events first, then whatever the loop does from the state
and input the run left -/
theorem Runs.readLoop {cfg : Reader.Cfg} {codec : Codec} {st st' : Reader.State} {b rest : Bytes} {evs : List Reader.Ev}
    (h : Runs cfg codec st b st' evs rest) :
    Reader.readLoop cfg codec st b =
      { evs := evs ++ (Reader.readLoop cfg codec st' rest).evs, ending := (Reader.readLoop cfg codec st' rest).ending } := by
  induction h with
  | nil => simp
  | cons hs _ ih => rw [Reader.readLoop_ok hs, ih, List.append_assoc]

/-- the loop on exhausted input: nothing delivered, end-of-stream -/
theorem readLoop_nil (cfg : Reader.Cfg) (codec : Codec) (st : Reader.State) :
    Reader.readLoop cfg codec st [] = { evs := [], ending := .err .other } :=
  Reader.readLoop_stop (by simp [Reader.step, Frame.parse, Reader.ioErr])

end Compose
