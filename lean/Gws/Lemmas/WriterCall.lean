import Gws.Lemmas.WriterAggregate
/-!
# Whole calls as equations (helpers for Props/C05)

`genFrame_ok_inv` (success means neither gate fired), the `WriteFile` callback as a total function
on an open connection, `writeFile_plain_eq` / `writeFile_compressed_eq` (the call's result written
out with `framesOf`), and the toy configuration used by the non-vacuity examples.
-/

namespace Writer
open Spec

/-- `genFrame` succeeds only if neither gate fired -/
theorem genFrame_ok_inv {cfg : Cfg} {codec : Codec} {cps : Win} {opcode : Nat} {payload : List Bytes} {fc : FrameCfg}
    {key wire : Bytes} (h : genFrame cfg codec cps opcode payload fc key = .ok wire) :
    ¬ (opcode = Facts.opText ∧ Utf8.buffersCheck fc.checkEncoding opcode payload = false) ∧
    payload.flatten.length ≤ cfg.writeMax := by
  unfold genFrame at h
  simp only at h
  split at h
  · exact absurd h (by simp)
  · rename_i h1
    split at h
    · exact absurd h (by simp)
    · rename_i h2
      exact ⟨h1, by omega⟩

/-- the callback's result on an open connection, as a total function -/
theorem fileCb_ok (cfg : Cfg) (codec : Codec) (opcode : Nat) (keys : Nat → Bytes) (hop : opcode < 16)
    (hkeys : ∀ i, (keys i).length = 4) :
    ∀ i e p, p.length ≤ cfg.writeMax →
      (fun index eof p => fileFrame cfg codec false opcode index eof p (keys index)) i e p =
        .ok ((fun i e p => fileWire cfg opcode i e p (keys i)) i e p) :=
  fun i e p hp => fileFrame_ok cfg codec opcode i e p (keys i) hop (hkeys i) hp

/-- the whole call on the plain path, as an equation -/
theorem writeFile_plain_eq (cfg : Cfg) (codec : Codec) (st : Conn) (opcode : Nat) (reads : ReaderScript)
    (outs : List Bytes) (keys : Nat → Bytes)
    (hop : opcode < 16) (hkeys : ∀ i, (keys i).length = 4) (hopen : st.closed = false)
    (hpd : cfg.pdEnabled = false) (heof : (readChunks reads).2 = true)
    (hfit : ∀ c ∈ (readChunks reads).1, c.length ≤ cfg.writeMax) :
    writeFile cfg codec st opcode reads outs keys =
      { wire := (framesOf (fun i e p => fileWire cfg opcode i e p (keys i)) 0 reads).flatten, err := none, st := st } := by
  obtain ⟨cps0, closed0⟩ := st
  simp only at hopen
  subst hopen
  have hsplit := splitReader_eq _ _ cfg.writeMax (fileCb_ok cfg codec opcode keys hop hkeys) reads 0 hfit heof
  simp only [writeFile, writeFileFrames, hpd, Bool.false_eq_true, ↓reduceIte, hsplit, emitError]

/-- the whole call on the compressed path, as an equation -/
theorem writeFile_compressed_eq (cfg : Cfg) (codec : Codec) (st : Conn) (opcode : Nat) (reads : ReaderScript)
    (outs : List Bytes) (keys : Nat → Bytes)
    (hop : opcode < 16) (hkeys : ∀ i, (keys i).length = 4) (hopen : st.closed = false)
    (hpd : cfg.pdEnabled = true) (heof : (readChunks reads).2 = true)
    (hne : outs ≠ []) (hfit : outs.flatten.length ≤ cfg.writeMax) :
    writeFile cfg codec st opcode reads outs keys =
      { wire := (framesOf (fun i e p => fileWire cfg opcode i e p (keys i)) 0
                  ((plan {} outs).2.map (·, false) ++ [(stripTail (held (plan {} outs).1), true)])).flatten,
        err := none, st := { st with cps := (readChunks reads).1.foldl Win.write st.cps } } := by
  obtain ⟨cps0, closed0⟩ := st
  simp only at hopen
  subst hopen
  have hc1 := (compressFile_eq _ _ cfg.writeMax (fileCb_ok cfg codec opcode keys hop hkeys) outs hne hfit).1
  simp only [writeFile, writeFileFrames, hpd, ↓reduceIte, heof, hc1, emitError]

/-- a stand-in for the DEFLATE library that emits its input as stored blocks would satisfy the
hypotheses' shapes; for the examples a constant output is enough -/
def demoCodec : Codec where
  inflate _ _ := none
  compress _ _ _ := [0x4a, 0xcc, 0x04, 0x00, 0x00, 0x00, 0xff, 0xff]

def demoCfg (isServer pd : Bool) : Cfg :=
  { isServer := isServer, pdEnabled := pd, threshold := 0, bits := 12, writeMax := 1000, checkUtf8 := true }

end Writer
