import Gws.Model.ReaderRel
import Gws.Props.C18
/-! # Header and unmasking correspondence between the model (`Frame.parse`, `Reader.unmask`) and
the RFC receiver spec (`Spec.decodeHdr`, `Spec.unmask`) -/

namespace Reader

/-- the model's header `h` and the spec's header `sh` describe the same frame header -/
structure HdrRel (h : Frame.Hdr) (sh : Spec.Hdr) : Prop where
  fin : sh.fin = Frame.getFIN h.b0
  rsv1 : sh.rsv1 = Frame.getRSV1 h.b0
  rsv2 : sh.rsv2 = Frame.getRSV2 h.b0
  rsv3 : sh.rsv3 = Frame.getRSV3 h.b0
  opcode : sh.opcode = Frame.getOpcode h.b0
  opcode_lt : sh.opcode < 16
  masked : sh.masked = Frame.getMask h.b1
  key : sh.key = h.key
  keyLen : sh.masked = true → sh.key.length = 4
  b0_lt : h.b0 < 256
  b1_lt : h.b1 < 256
  len_lt : sh.len < 2 ^ 64
  form : (sh.lenForm = 7 ∧ Frame.getLengthCode h.b1 = sh.len ∧ sh.len < 126) ∨
         (sh.lenForm = 16 ∧ Frame.getLengthCode h.b1 = 126 ∧ sh.len < 65536) ∨
         (sh.lenForm = 64 ∧ Frame.getLengthCode h.b1 = 127)
  len : h.len = if sh.lenForm = 64 then Frame.toGoInt sh.len else (sh.len : Int)

theorem beNat2 (a b : UInt8) : Spec.beNat [a, b] = Frame.be16 a b := by
  simp [Spec.beNat, Frame.be16]

theorem beNat8 (a b c d e f g h : UInt8) : Spec.beNat [a, b, c, d, e, f, g, h] = Frame.be64 a b c d e f g h := by
  simp [Spec.beNat, Frame.be64]

theorem be64_lt (a b c d e f g h : UInt8) : Frame.be64 a b c d e f g h < 2 ^ 64 := by
  unfold Frame.be64
  have := a.toNat_lt; have := b.toNat_lt; have := c.toNat_lt; have := d.toNat_lt
  have := e.toNat_lt; have := f.toNat_lt; have := g.toNat_lt; have := h.toNat_lt
  omega

theorem be16_lt (a b : UInt8) : Frame.be16 a b < 65536 := by
  unfold Frame.be16
  have := a.toNat_lt; have := b.toNat_lt
  omega

theorem getLengthCode_eq (b1 : Nat) : Frame.getLengthCode b1 = b1 % 128 := by
  unfold Frame.getLengthCode Frame.shr8 Frame.shl8; omega

theorem getOpcode_eq (b0 : Nat) : Frame.getOpcode b0 = b0 % 16 := by
  unfold Frame.getOpcode Frame.shr8 Frame.shl8; omega

theorem beq_one_eq_decide (a : Nat) (p : Prop) [Decidable p] (h : a = 1 ↔ p) : (a == 1) = decide p := by
  by_cases hp : p
  · simp [hp, h.mpr hp]
  · have : a ≠ 1 := fun e => hp (h.mp e)
    simp [hp, this]

theorem getFIN_eq (b0 : Nat) : Frame.getFIN b0 = decide (b0 / 128 = 1) := by
  unfold Frame.getFIN Frame.shr8; exact beq_one_eq_decide _ _ (by omega)

theorem getMask_eq (b1 : Nat) : Frame.getMask b1 = decide (b1 / 128 = 1) := by
  unfold Frame.getMask Frame.shr8; exact beq_one_eq_decide _ _ (by omega)

theorem getRSV1_eq (b0 : Nat) : Frame.getRSV1 b0 = decide (b0 / 64 % 2 = 1) := by
  unfold Frame.getRSV1 Frame.shr8 Frame.shl8; exact beq_one_eq_decide _ _ (by omega)

theorem getRSV2_eq (b0 : Nat) : Frame.getRSV2 b0 = decide (b0 / 32 % 2 = 1) := by
  unfold Frame.getRSV2 Frame.shr8 Frame.shl8; exact beq_one_eq_decide _ _ (by omega)

theorem getRSV3_eq (b0 : Nat) : Frame.getRSV3 b0 = decide (b0 / 16 % 2 = 1) := by
  unfold Frame.getRSV3 Frame.shr8 Frame.shl8; exact beq_one_eq_decide _ _ (by omega)

inductive ParseRel : Frame.ParseRes → Option (Spec.Hdr × Bytes) → Prop
  | needMore : ParseRel .needMore none
  | ok (h : Frame.Hdr) (sh : Spec.Hdr) (rest : Bytes) : HdrRel h sh → ParseRel (.ok h rest) (some (sh, rest))

private theorem lt2 (r : Bytes) (h : ∀ a b r', r = a :: b :: r' → False) : r.length < 2 := by
  match r with
  | [] | [_] => simp
  | a :: b :: r' => exact (h a b r' rfl).elim

private theorem lt4 (r : Bytes) (h : ∀ a b c d r', r = a :: b :: c :: d :: r' → False) : r.length < 4 := by
  match r with
  | [] | [_] | [_, _] | [_, _, _] => simp
  | a :: b :: c :: d :: r' => exact (h a b c d r' rfl).elim

private theorem lt8 (r : Bytes) (h : ∀ a b c d e f g i r', r = a :: b :: c :: d :: e :: f :: g :: i :: r' → False) : r.length < 8 := by
  match r with
  | [] | [_] | [_, _] | [_, _, _] | [_, _, _, _] | [_, _, _, _, _] | [_, _, _, _, _, _] | [_, _, _, _, _, _, _] => simp
  | a :: b :: c :: d :: e :: f :: g :: i :: r' => exact (h a b c d e f g i r' rfl).elim

theorem keyPart (x0 x1 : UInt8) (len : Int) (form slen : Nat) (r1 : Bytes) :
    slen < 2 ^ 64 →
    ((form = 7 ∧ x1.toNat % 128 = slen ∧ slen < 126) ∨ (form = 16 ∧ x1.toNat % 128 = 126 ∧ slen < 65536) ∨
      (form = 64 ∧ x1.toNat % 128 = 127)) →
    (len = if form = 64 then Frame.toGoInt slen else (slen : Int)) →
    ParseRel
      (if Frame.getMask x1.toNat = true then
        match r1 with
        | k0 :: k1 :: k2 :: k3 :: r2 =>
          Frame.ParseRes.ok { b0 := x0.toNat, b1 := x1.toNat, len := len, key := [k0, k1, k2, k3] } r2
        | _ => Frame.ParseRes.needMore
      else Frame.ParseRes.ok { b0 := x0.toNat, b1 := x1.toNat, len := len, key := [] } r1)
      (if x1.toNat / 128 = 1 then
        if List.length r1 < 4 then none
        else
          some
            ({ fin := decide (x0.toNat / 128 = 1), rsv1 := decide (x0.toNat / 64 % 2 = 1),
                rsv2 := decide (x0.toNat / 32 % 2 = 1), rsv3 := decide (x0.toNat / 16 % 2 = 1), opcode := x0.toNat % 16,
                masked := true, lenForm := form, len := slen, key := List.take 4 r1 },
              List.drop 4 r1)
      else
        some
          ({ fin := decide (x0.toNat / 128 = 1), rsv1 := decide (x0.toNat / 64 % 2 = 1),
              rsv2 := decide (x0.toNat / 32 % 2 = 1), rsv3 := decide (x0.toNat / 16 % 2 = 1), opcode := x0.toNat % 16,
              masked := false, lenForm := form, len := slen, key := [] },
            r1)) := by
  intro hlt hform hlen
  have hb0 := x0.toNat_lt
  have hb1 := x1.toNat_lt
  rw [getMask_eq]
  by_cases hm : x1.toNat / 128 = 1
  · simp only [hm, decide_true, if_true]
    split
    · rename_i k0 k1 k2 k3 r2
      simp only [List.length_cons, List.take_succ_cons, List.take_zero, List.drop_succ_cons, List.drop_zero]
      rw [if_neg (by omega)]
      refine ParseRel.ok _ _ _ ⟨?_, ?_, ?_, ?_, ?_, ?_, ?_, ?_, ?_, ?_, ?_, ?_, ?_, ?_⟩ <;>
        simp [getFIN_eq, getRSV1_eq, getRSV2_eq, getRSV3_eq, getOpcode_eq, getMask_eq, getLengthCode_eq, hm, hlen, hform] <;> omega
    · rename_i hno
      rw [if_pos (lt4 r1 hno)]
      exact ParseRel.needMore
  · simp only [hm, decide_false, if_false]
    refine ParseRel.ok _ _ _ ⟨?_, ?_, ?_, ?_, ?_, ?_, ?_, ?_, ?_, ?_, ?_, ?_, ?_, ?_⟩ <;>
      simp [getFIN_eq, getRSV1_eq, getRSV2_eq, getRSV3_eq, getOpcode_eq, getMask_eq, getLengthCode_eq, hm, hlen, hform] <;> omega

theorem parse_spec (b : Bytes) : ParseRel (Frame.parse b) (Spec.decodeHdr b) := by
  unfold Frame.parse Spec.decodeHdr
  split
  · rename_i x0 x1 r
    simp only [getLengthCode_eq]
    by_cases h126 : x1.toNat % 128 = 126
    · simp only [h126, if_true]
      match r with
      | [] | [_] => simp [ParseRel.needMore]
      | a :: b :: r' =>
        simp only [List.length_cons, List.take_succ_cons, List.take_zero, List.drop_succ_cons, List.drop_zero]
        have hl : ¬ (r'.length + 1 + 1 < 2) := by omega
        simp only [hl, if_false, beNat2]
        exact keyPart x0 x1 (Frame.be16 a b : Nat) 16 (Frame.be16 a b) r' (by have := be16_lt a b; omega)
          (Or.inr (Or.inl ⟨rfl, h126, be16_lt a b⟩)) (by simp)
    · simp only [h126, if_false]
      by_cases h127 : x1.toNat % 128 = 127
      · simp only [h127, if_true]
        match r with
        | [] | [_] | [_, _] | [_, _, _] | [_, _, _, _] | [_, _, _, _, _] | [_, _, _, _, _, _] | [_, _, _, _, _, _, _] =>
          simp [ParseRel.needMore]
        | a :: b :: c :: d :: e :: f :: g :: i :: r' =>
          simp only [List.length_cons, List.take_succ_cons, List.take_zero, List.drop_succ_cons, List.drop_zero]
          have hl : ¬ (r'.length + 1 + 1 + 1 + 1 + 1 + 1 + 1 + 1 < 8) := by omega
          simp only [hl, if_false, beNat8]
          exact keyPart x0 x1 (Frame.toGoInt (Frame.be64 a b c d e f g i)) 64 (Frame.be64 a b c d e f g i) r'
            (be64_lt ..) (Or.inr (Or.inr ⟨rfl, h127⟩)) (by simp)
      · simp only [h127, if_false]
        have := x1.toNat_lt
        exact keyPart x0 x1 ((x1.toNat % 128 : Nat) : Int) 7 (x1.toNat % 128) r (by omega) (Or.inl ⟨rfl, rfl, by omega⟩) (by simp)
  · rename_i hno
    split
    · rename_i x0 x1 r
      exact (hno x0 x1 r rfl).elim
    · exact ParseRel.needMore


theorem ParseRel.needMore_iff {x : Frame.ParseRes} {y : Option (Spec.Hdr × Bytes)} (h : ParseRel x y) :
    x = .needMore ↔ y = none := by
  cases h <;> simp

theorem ParseRel.ok_inv {h : Frame.Hdr} {rest : Bytes} {y : Option (Spec.Hdr × Bytes)}
    (hr : ParseRel (.ok h rest) y) : ∃ sh, y = some (sh, rest) ∧ HdrRel h sh := by
  cases hr with
  | ok _ sh _ hrel => exact ⟨sh, rfl, hrel⟩

/-- the model's header parser runs out of input exactly when the RFC decoder does -/
theorem parse_needMore_iff (b : Bytes) : Frame.parse b = .needMore ↔ Spec.decodeHdr b = none :=
  (parse_spec b).needMore_iff

/-- a header the model parses is the header the RFC decoder reads, field by field -/
theorem parse_ok {b : Bytes} {h : Frame.Hdr} {rest : Bytes} (hp : Frame.parse b = .ok h rest) :
    ∃ sh, Spec.decodeHdr b = some (sh, rest) ∧ HdrRel h sh := by
  have := parse_spec b
  rw [hp] at this
  exact this.ok_inv

/-! ## unmasking -/

theorem ofBitVec_xor (a b : UInt8) : UInt8.ofBitVec (a.toBitVec ^^^ b.toBitVec) = a ^^^ b := rfl

theorem unmask_eq (key p : Bytes) (hk : key.length = 4) : Reader.unmask key p = Spec.unmask key p := by
  match key, hk with
  | [a, b, c, d], _ =>
    unfold Reader.unmask Spec.unmask
    rw [Mask.maskXOR_eq]
    apply List.ext_getElem
    · simp
    · intro i h1 h2
      simp only [List.getElem_map, List.getElem_mapIdx]
      have h4 : i % 4 = 0 ∨ i % 4 = 1 ∨ i % 4 = 2 ∨ i % 4 = 3 := by omega
      rcases h4 with h | h | h | h <;> simp [Mask.Key.get, toKey, h]

theorem unmask_length (key p : Bytes) : (Reader.unmask key p).length = p.length := by
  unfold Reader.unmask; simp [Mask.maskXOR_length]

theorem unmask_nil (key : Bytes) : Reader.unmask key [] = [] := by
  have := unmask_length key []
  simpa using this

end Reader
