import Gws.Model.ReaderStep
import Gws.Props.C18
import Gws.Spec.Rfc6455
/-!
# `internal.MaskXOR` at the `UInt8` boundary is RFC 6455 §5.3 masking

`Reader.unmask key p` runs the three-loop word model (`Mask.maskXOR`); by C18 (`Mask.maskXOR_eq`)
it is the byte-wise XOR `Writer.xorKey`, which for a 4-byte key is `Spec.unmask`.  The `csimp`
equation lets compiled code (the driver) run the byte-wise form; it is a proved equality, so the
model's meaning is unchanged.
-/

namespace Writer

/-- byte-wise form of `Reader.unmask`: `p[i] ^ key[i mod 4]` for a 4-byte key (any other key
is read by `Reader.toKey` as four zero bytes) -/
def xorKey (key p : Bytes) : Bytes :=
  match key with
  | [a, b, c, d] => p.mapIdx fun i x => x ^^^ (match i % 4 with | 0 => a | 1 => b | 2 => c | _ => d)
  | _ => p

theorem ofBitVec_xor (x : UInt8) (y : BitVec 8) : UInt8.ofBitVec (x.toBitVec ^^^ y) = x ^^^ UInt8.ofBitVec y := by
  rfl

theorem unmask_eq_xorKey (key p : Bytes) : Reader.unmask key p = xorKey key p := by
  unfold Reader.unmask xorKey
  rw [Mask.maskXOR_eq]
  split
  · rename_i a b c d
    apply List.ext_getElem
    · simp
    · intro i h1 h2
      simp only [Reader.toKey, List.getElem_map, List.getElem_mapIdx]
      rw [ofBitVec_xor]
      congr 1
      unfold Mask.Key.get
      split <;> simp_all
  · rename_i hk
    have : Reader.toKey key = ⟨0, 0, 0, 0⟩ := by
      unfold Reader.toKey
      split
      · rename_i a b c d; exact absurd rfl (hk a b c d)
      · rfl
    rw [this]
    apply List.ext_getElem
    · simp
    · intro i h1 h2
      simp only [List.getElem_map, List.getElem_mapIdx]
      rw [ofBitVec_xor]
      have : (Mask.Key.get ⟨0, 0, 0, 0⟩ i) = 0 := by unfold Mask.Key.get; split <;> rfl
      rw [this]; simp

@[csimp] theorem unmask_eq_xorKey_fun : @Reader.unmask = @xorKey := by
  funext key p; exact unmask_eq_xorKey key p

theorem xorKey_eq_spec (key p : Bytes) (hk : key.length = 4) : xorKey key p = Spec.unmask key p := by
  match key, hk with
  | [a, b, c, d], _ =>
    unfold xorKey Spec.unmask
    apply List.ext_getElem
    · simp
    · intro i h1 h2
      simp only [List.getElem_mapIdx]
      congr 1
      have : i % 4 < 4 := Nat.mod_lt _ (by omega)
      generalize i % 4 = j at this
      match j, this with
      | 0, _ => rfl
      | 1, _ => rfl
      | 2, _ => rfl
      | 3, _ => rfl

/-- the code's masking routine is the RFC's transform -/
theorem unmask_eq_spec (key p : Bytes) (hk : key.length = 4) : Reader.unmask key p = Spec.unmask key p := by
  rw [unmask_eq_xorKey, xorKey_eq_spec key p hk]

@[simp] theorem unmask_length (key p : Bytes) : (Reader.unmask key p).length = p.length := by
  unfold Reader.unmask; simp [Mask.maskXOR_length]

/-- masking twice with the same key restores the payload (C18 `maskXOR_involutive` at the `UInt8` boundary) -/
theorem unmask_involutive (key p : Bytes) : Reader.unmask key (Reader.unmask key p) = p := by
  unfold Reader.unmask
  have h : (List.map (fun x : UInt8 => x.toBitVec) (List.map UInt8.ofBitVec (Mask.maskXOR (Reader.toKey key) (List.map (fun x => x.toBitVec) p))))
      = Mask.maskXOR (Reader.toKey key) (List.map (fun x => x.toBitVec) p) := by
    rw [List.map_map]
    have : ((fun x : UInt8 => x.toBitVec) ∘ UInt8.ofBitVec) = id := by funext x; rfl
    rw [this, List.map_id]
  rw [h, Mask.maskXOR_involutive, List.map_map]
  have : (UInt8.ofBitVec ∘ fun x : UInt8 => x.toBitVec) = id := by funext x; rfl
  rw [this, List.map_id]

/-- **what a receiver sees**: RFC 6455 unmasking of a client-masked payload yields the payload -/
theorem spec_unmask_masked (key p : Bytes) (hk : key.length = 4) : Spec.unmask key (Reader.unmask key p) = p := by
  rw [← unmask_eq_spec key _ hk, unmask_involutive]

end Writer
