import Gws.Model.Writer
import Gws.Spec.Frames
/-!
# `GenerateHeader`'s bytes read back by the RFC 6455 decoder

`Spec.decodeHdr` on each of the six header layouts (three length forms × masked or not), the
big-endian reconstruction of 16- and 64-bit lengths, and `genHeader_decodes_eq`: for every opcode
below 16, every length below 2^64 and every 4-byte key the decoder returns exactly `sentHdr`.
-/

open Frame Spec

namespace Writer

def hdrOf (b0 : Nat) (masked : Bool) (form len : Nat) (key : Bytes) : Spec.Hdr :=
  { fin := b0 / 128 = 1, rsv1 := b0 / 64 % 2 = 1, rsv2 := b0 / 32 % 2 = 1, rsv3 := b0 / 16 % 2 = 1,
    opcode := b0 % 16, masked := masked, lenForm := form, len := len, key := key }

theorem decodeHdr_7u (x0 x1 : UInt8) (r : Bytes) (h : x1.toNat < 126) :
    decodeHdr (x0 :: x1 :: r) = some (hdrOf x0.toNat false 7 x1.toNat [], r) := by
  unfold decodeHdr hdrOf
  have e1 : x1.toNat % 128 = x1.toNat := by omega
  have e2 : ¬ x1.toNat / 128 = 1 := by omega
  have e3 : ¬ x1.toNat = 126 := by omega
  have e4 : ¬ x1.toNat = 127 := by omega
  simp only [e1, e2, e3, e4, ↓reduceIte]

theorem decodeHdr_7m (x0 x1 k0 k1 k2 k3 : UInt8) (r : Bytes) (h1 : 128 ≤ x1.toNat) (h : x1.toNat < 128 + 126) :
    decodeHdr (x0 :: x1 :: k0 :: k1 :: k2 :: k3 :: r) = some (hdrOf x0.toNat true 7 (x1.toNat - 128) [k0, k1, k2, k3], r) := by
  unfold decodeHdr hdrOf
  have e1 : x1.toNat % 128 = x1.toNat - 128 := by omega
  have e2 : x1.toNat / 128 = 1 := by omega
  have e3 : ¬ x1.toNat - 128 = 126 := by omega
  have e4 : ¬ x1.toNat - 128 = 127 := by omega
  have e5 : ¬ (r.length + 1 + 1 + 1 + 1 < 4) := by omega
  simp only [e1, e2, e3, e4, e5, ↓reduceIte, List.length_cons, List.take_succ_cons, List.take_zero, List.drop_succ_cons, List.drop_zero]

theorem decodeHdr_16u (x0 x1 a b : UInt8) (r : Bytes) (h : x1.toNat = 126) :
    decodeHdr (x0 :: x1 :: a :: b :: r) = some (hdrOf x0.toNat false 16 (a.toNat * 256 + b.toNat) [], r) := by
  unfold decodeHdr hdrOf
  have e1 : x1.toNat % 128 = 126 := by omega
  have e2 : ¬ x1.toNat / 128 = 1 := by omega
  have e5 : ¬ (r.length + 1 + 1 < 2) := by omega
  simp only [e1, e2, e5, ↓reduceIte, List.length_cons, List.drop_succ_cons, List.drop_zero]
  simp [beNat]

theorem decodeHdr_16m (x0 x1 a b k0 k1 k2 k3 : UInt8) (r : Bytes) (h : x1.toNat = 254) :
    decodeHdr (x0 :: x1 :: a :: b :: k0 :: k1 :: k2 :: k3 :: r) = some (hdrOf x0.toNat true 16 (a.toNat * 256 + b.toNat) [k0, k1, k2, k3], r) := by
  unfold decodeHdr hdrOf
  have e1 : x1.toNat % 128 = 126 := by omega
  have e2 : x1.toNat / 128 = 1 := by omega
  have e5 : ¬ (r.length + 1 + 1 + 1 + 1 + 1 + 1 < 2) := by omega
  have e6 : ¬ (r.length + 1 + 1 + 1 + 1 < 4) := by omega
  simp only [e1, e2, e5, e6, ↓reduceIte, List.length_cons, List.drop_succ_cons, List.drop_zero, List.take_succ_cons, List.take_zero]
  simp [beNat]

def be8 (a b c d e f g h : UInt8) : Nat :=
  ((((((a.toNat * 256 + b.toNat) * 256 + c.toNat) * 256 + d.toNat) * 256 + e.toNat) * 256 + f.toNat) * 256 + g.toNat) * 256 + h.toNat

theorem decodeHdr_64u (x0 x1 a b c d e f g h : UInt8) (r : Bytes) (hx : x1.toNat = 127) :
    decodeHdr (x0 :: x1 :: a :: b :: c :: d :: e :: f :: g :: h :: r) = some (hdrOf x0.toNat false 64 (be8 a b c d e f g h) [], r) := by
  unfold decodeHdr hdrOf be8
  have e1 : x1.toNat % 128 = 127 := by omega
  have e2 : ¬ x1.toNat / 128 = 1 := by omega
  have e5 : ¬ (r.length + 1 + 1 + 1 + 1 + 1 + 1 + 1 + 1 < 8) := by omega
  simp only [e1, e2, e5, ↓reduceIte, List.length_cons, List.drop_succ_cons, List.drop_zero]
  simp [beNat]

theorem decodeHdr_64m (x0 x1 a b c d e f g h k0 k1 k2 k3 : UInt8) (r : Bytes) (hx : x1.toNat = 255) :
    decodeHdr (x0 :: x1 :: a :: b :: c :: d :: e :: f :: g :: h :: k0 :: k1 :: k2 :: k3 :: r) =
      some (hdrOf x0.toNat true 64 (be8 a b c d e f g h) [k0, k1, k2, k3], r) := by
  unfold decodeHdr hdrOf be8
  have e1 : x1.toNat % 128 = 127 := by omega
  have e2 : x1.toNat / 128 = 1 := by omega
  have e5 : ¬ (r.length + 1 + 1 + 1 + 1 + 1 + 1 + 1 + 1 + 1 + 1 + 1 + 1 < 8) := by omega
  simp only [e1, e2, e5, ↓reduceIte, List.length_cons, List.drop_succ_cons, List.drop_zero, List.take_succ_cons, List.take_zero]
  simp [beNat]

theorem be8_chain (q0 q1 q2 q3 q4 q5 q6 q7 r0 r1 r2 r3 r4 r5 r6 r7 : Nat)
    (h0 : q0 = q1 * 256 + r0) (h1 : q1 = q2 * 256 + r1) (h2 : q2 = q3 * 256 + r2) (h3 : q3 = q4 * 256 + r3)
    (h4 : q4 = q5 * 256 + r4) (h5 : q5 = q6 * 256 + r5) (h6 : q6 = q7 * 256 + r6) (h7 : q7 = r7) :
    ((((((r7 * 256 + r6) * 256 + r5) * 256 + r4) * 256 + r3) * 256 + r2) * 256 + r1) * 256 + r0 = q0 := by
  subst h7 h6 h5 h4 h3 h2 h1 h0
  rfl

theorem div_step (n a b : Nat) (hb : b = a * 256) : n / a = n / b * 256 + n / a % 256 := by
  subst hb
  rw [← Nat.div_div_eq_div_mul]; exact (Nat.div_add_mod' (n / a) 256).symm

theorem be8_of_lt (n : Nat) (hn : n < 2 ^ 64) :
    ((((((n / 2 ^ 56 % 256 * 256 + n / 2 ^ 48 % 256) * 256 + n / 2 ^ 40 % 256) * 256 + n / 2 ^ 32 % 256) * 256 +
      n / 2 ^ 24 % 256) * 256 + n / 2 ^ 16 % 256) * 256 + n / 2 ^ 8 % 256) * 256 + n % 256 = n := by
  simp only [Nat.reducePow] at hn ⊢
  have s0 : n = n / 256 * 256 + n % 256 := (Nat.div_add_mod' n 256).symm
  have s1 : n / 256 = n / 65536 * 256 + n / 256 % 256 := div_step n 256 65536 rfl
  have s2 : n / 65536 = n / 16777216 * 256 + n / 65536 % 256 := div_step n 65536 16777216 rfl
  have s3 : n / 16777216 = n / 4294967296 * 256 + n / 16777216 % 256 := div_step n 16777216 4294967296 rfl
  have s4 : n / 4294967296 = n / 1099511627776 * 256 + n / 4294967296 % 256 := div_step n 4294967296 1099511627776 rfl
  have s5 : n / 1099511627776 = n / 281474976710656 * 256 + n / 1099511627776 % 256 := div_step n 1099511627776 281474976710656 rfl
  have s6 : n / 281474976710656 = n / 72057594037927936 * 256 + n / 281474976710656 % 256 :=
    div_step n 281474976710656 72057594037927936 rfl
  have s7 : n / 72057594037927936 = n / 72057594037927936 % 256 := by
    have : n / 72057594037927936 < 256 := Nat.div_lt_of_lt_mul hn
    exact (Nat.mod_eq_of_lt this).symm
  exact be8_chain _ _ _ _ _ _ _ _ _ _ _ _ _ _ _ _ s0 s1 s2 s3 s4 s5 s6 s7

/-- the header an RFC 6455 decoder must read back from `GenerateHeader`'s bytes -/
def sentHdr (isServer fin compress : Bool) (opcode n : Nat) (key : Bytes) : Spec.Hdr :=
  { fin := fin, rsv1 := compress, rsv2 := false, rsv3 := false, opcode := opcode, masked := !isServer,
    lenForm := if n ≤ 125 then 7 else if n ≤ 65535 then 16 else 64,
    len := n, key := if isServer then [] else key }

theorem or128 (b : Nat) (h : b < 128) : b ||| 128 = b + 128 := by
  have := Nat.two_pow_add_eq_or_of_lt (i := 7) (b := b) (by simpa using h) 1
  simp only [Nat.reducePow, Nat.mul_one] at this
  rw [Nat.or_comm, ← this]; omega

theorem hdrOf_b0 (fin compress : Bool) (opcode : Nat) (hop : opcode < 16) (masked : Bool) (form len : Nat) (key : Bytes) :
    hdrOf (UInt8.ofNat ((opcode + (if fin then 128 else 0) + (if compress then 64 else 0)) % 256)).toNat masked form len key =
      { fin := fin, rsv1 := compress, rsv2 := false, rsv3 := false, opcode := opcode, masked := masked,
        lenForm := form, len := len, key := key } := by
  unfold hdrOf
  rw [UInt8.toNat_ofNat']
  cases fin <;> cases compress <;> simp <;> omega

theorem genHeader_decodes_eq (isServer fin compress : Bool) (opcode n : Nat) (key rest : Bytes)
    (hop : opcode < 16) (hn : n < 2 ^ 64) (hk : key.length = 4) :
    Spec.decodeHdr (Frame.genHeader isServer fin compress opcode n key ++ rest) =
      some (sentHdr isServer fin compress opcode n key, rest) := by
  match key, hk with
  | [k0, k1, k2, k3], _ =>
  unfold Frame.genHeader sentHdr
  simp only [Facts.thresholdV1, Facts.thresholdV2]
  by_cases h1 : n ≤ 125
  · simp only [h1, ↓reduceIte]
    cases isServer
    · simp only [Bool.false_eq_true, ↓reduceIte, List.cons_append, List.nil_append, Bool.not_false]
      have hx : (UInt8.ofNat (n ||| 128)).toNat = n + 128 := by rw [UInt8.toNat_ofNat', or128 n (by omega)]; omega
      rw [decodeHdr_7m _ _ _ _ _ _ _ (by omega) (by omega), hdrOf_b0 _ _ _ hop, hx]
      simp
    · simp only [↓reduceIte, List.cons_append, List.nil_append, Bool.not_true]
      have hx : (UInt8.ofNat n).toNat = n := by rw [UInt8.toNat_ofNat']; omega
      rw [decodeHdr_7u _ _ _ (by omega), hdrOf_b0 _ _ _ hop, hx]
  · by_cases h2 : n ≤ 65535
    · simp only [h1, h2, ↓reduceIte, Frame.u16be]
      have e5 : (UInt8.ofNat (n / 256 % 256)).toNat * 256 + (UInt8.ofNat (n % 256)).toNat = n := by
        simp only [UInt8.toNat_ofNat']; omega
      cases isServer
      · simp only [Bool.false_eq_true, ↓reduceIte, List.cons_append, List.nil_append, Bool.not_false]
        have hx : (UInt8.ofNat (126 ||| 128)).toNat = 254 := by decide
        rw [decodeHdr_16m _ _ _ _ _ _ _ _ _ hx, hdrOf_b0 _ _ _ hop, e5]
      · simp only [↓reduceIte, List.cons_append, List.nil_append, Bool.not_true]
        have hx : (UInt8.ofNat 126).toNat = 126 := by decide
        rw [decodeHdr_16u _ _ _ _ _ hx, hdrOf_b0 _ _ _ hop, e5]
    · simp only [h1, h2, ↓reduceIte, Frame.u64be]
      have e5 : be8 (UInt8.ofNat (n / 2 ^ 56 % 256)) (UInt8.ofNat (n / 2 ^ 48 % 256)) (UInt8.ofNat (n / 2 ^ 40 % 256))
          (UInt8.ofNat (n / 2 ^ 32 % 256)) (UInt8.ofNat (n / 2 ^ 24 % 256)) (UInt8.ofNat (n / 2 ^ 16 % 256))
          (UInt8.ofNat (n / 2 ^ 8 % 256)) (UInt8.ofNat (n % 256)) = n := by
        unfold be8
        have m (x : Nat) : (UInt8.ofNat (x % 256)).toNat = x % 256 := by rw [UInt8.toNat_ofNat']; omega
        rw [m, m, m, m, m, m, m, m]
        exact be8_of_lt n hn
      cases isServer
      · simp only [Bool.false_eq_true, ↓reduceIte, List.cons_append, List.nil_append, Bool.not_false]
        have hx : (UInt8.ofNat (127 ||| 128)).toNat = 255 := by decide
        rw [decodeHdr_64m _ _ _ _ _ _ _ _ _ _ _ _ _ _ _ hx, hdrOf_b0 _ _ _ hop, e5]
      · simp only [↓reduceIte, List.cons_append, List.nil_append, Bool.not_true]
        have hx : (UInt8.ofNat 127).toNat = 127 := by decide
        rw [decodeHdr_64u _ _ _ _ _ _ _ _ _ _ _ hx, hdrOf_b0 _ _ _ hop, e5]

end Writer
