import Gws.Model.Mask

namespace Mask

theorem byteOf_place (b : B8) (i j : Nat) (hi : i < 8) (hj : j < 8) :
    byteOf (place b i) j = if i = j then b else 0 := by
  unfold byteOf place
  ext k hk
  simp only [BitVec.getElem_setWidth, BitVec.getLsbD_ushiftRight, BitVec.getLsbD_shiftLeft, BitVec.getLsbD_setWidth]
  split
  · subst_vars
    have h1 : 8 * j + k < 64 := by omega
    have h2 : ¬ (8 * j + k < 8 * j) := by omega
    have h3 : 8 * j + k - 8 * j = k := by omega
    have h4 : k < 64 := by omega
    simp [h1, h2, h3, h4, BitVec.getLsbD_eq_getElem hk]
  · rename_i hne
    by_cases hlt : 8 * j + k < 8 * i
    · simp [hlt]
    · have : 8 ≤ 8 * j + k - 8 * i := by omega
      simp [BitVec.getLsbD_of_ge b _ this]

theorem byteOf_or (x y : BitVec 64) (j : Nat) : byteOf (x ||| y) j = byteOf x j ||| byteOf y j := by
  unfold byteOf; ext k hk; simp

theorem byteOf_xor (x y : BitVec 64) (j : Nat) : byteOf (x ^^^ y) j = byteOf x j ^^^ byteOf y j := by
  unfold byteOf; ext k hk; simp

/-- the modular sum in `key64` never carries: it is the key repeated twice -/
theorem key64_eq (k : Key) : key64 k = le64 k.k0 k.k1 k.k2 k.k3 k.k0 k.k1 k.k2 k.k3 := by
  unfold key64
  rw [BitVec.add_eq_or_of_and_eq_zero]
  · unfold le64 le32 place
    ext i hi
    simp only [BitVec.getElem_or, BitVec.getElem_shiftLeft, BitVec.getElem_setWidth, BitVec.getLsbD_or,
      BitVec.getLsbD_shiftLeft, BitVec.getLsbD_setWidth]
    have c : i < 8 ∨ (8 ≤ i ∧ i < 16) ∨ (16 ≤ i ∧ i < 24) ∨ (24 ≤ i ∧ i < 32) ∨ (32 ≤ i ∧ i < 40) ∨
        (40 ≤ i ∧ i < 48) ∨ (48 ≤ i ∧ i < 56) ∨ (56 ≤ i ∧ i < 64) := by omega
    rcases c with c | c | c | c | c | c | c | c <;>
      (simp (disch := omega) [BitVec.getLsbD_of_ge, decide_eq_true, decide_eq_false, Nat.sub_sub])
  · ext i hi
    simp only [BitVec.getElem_and, BitVec.getElem_shiftLeft, BitVec.getElem_setWidth, BitVec.getElem_zero]
    by_cases h : i < 32
    · simp [h]
    · have : 32 ≤ i := by omega
      simp [BitVec.getLsbD_of_ge _ _ this]

theorem word_xor (b0 b1 b2 b3 b4 b5 b6 b7 k0 k1 k2 k3 : B8) :
    let v := le64 b0 b1 b2 b3 b4 b5 b6 b7 ^^^ le64 k0 k1 k2 k3 k0 k1 k2 k3
    byteOf v 0 = b0 ^^^ k0 ∧ byteOf v 1 = b1 ^^^ k1 ∧ byteOf v 2 = b2 ^^^ k2 ∧ byteOf v 3 = b3 ^^^ k3 ∧
    byteOf v 4 = b4 ^^^ k0 ∧ byteOf v 5 = b5 ^^^ k1 ∧ byteOf v 6 = b6 ^^^ k2 ∧ byteOf v 7 = b7 ^^^ k3 := by
  intro v
  simp [v, le64, byteOf_xor, byteOf_or, byteOf_place]

theorem Key.get_add_four (k : Key) (i : Nat) : k.get (i + 4) = k.get i := by
  unfold Key.get; simp

theorem Key.get_add_mul_four (k : Key) (i n : Nat) : k.get (i + 4 * n) = k.get i := by
  unfold Key.get; simp

/-- one word operation on exactly eight bytes is the byte-wise XOR with the key, key phase 0 -/
theorem word8_spec (k : Key) (l : List B8) (h : l.length = 8) : word8 k l = spec k l := by
  match l, h with
  | [b0, b1, b2, b3, b4, b5, b6, b7], _ =>
    have := word_xor b0 b1 b2 b3 b4 b5 b6 b7 k.k0 k.k1 k.k2 k.k3
    simp only at this
    obtain ⟨h0, h1, h2, h3, h4, h5, h6, h7⟩ := this
    simp [word8, spec, key64_eq, h0, h1, h2, h3, h4, h5, h6, h7, Key.get, List.mapIdx_cons]

theorem tailLoop_spec (k : Key) (i : Nat) (l : List B8) :
    tailLoop k i l = l.mapIdx fun j x => x ^^^ k.get (i + j) := by
  induction l generalizing i with
  | nil => simp [tailLoop]
  | cons x xs ih =>
    simp only [tailLoop, List.mapIdx_cons, ih, Nat.add_zero]
    have : i &&& 3 = i % 4 := Nat.and_two_pow_sub_one_eq_mod i 2
    have hk : k.get (i &&& 3) = k.get i := by rw [this]; unfold Key.get; simp
    rw [hk]
    congr 1
    apply List.mapIdx_eq_mapIdx_iff.mpr ?_ |>.symm
    intro j hj
    congr 2; omega

/-- the spec of a concatenation whose first part has length ≡ 0 (mod 4) splits -/
theorem spec_append (k : Key) (a b : List B8) (h : a.length % 4 = 0) :
    spec k (a ++ b) = spec k a ++ spec k b := by
  unfold spec
  rw [List.mapIdx_append]
  congr 1
  apply List.mapIdx_eq_mapIdx_iff.mpr
  intro i hi
  have : a.length = 4 * (a.length / 4) := by omega
  rw [this, Key.get_add_mul_four]

theorem sl_length (b : List B8) (i j : Nat) (h : j ≤ b.length) : (sl b i j).length = j - i := by
  unfold sl; simp; omega

theorem loop8_spec (k : Key) (b : List B8) : loop8 k b = spec k b := by
  fun_induction loop8 k b with
  | case1 b h ih =>
    rw [ih, word8_spec k _ (sl_length b 0 8 h)]
    rw [← spec_append k _ _ (by rw [sl_length b 0 8 h])]
    unfold sl; simp
  | case2 b h =>
    rw [tailLoop_spec]
    unfold spec; simp

theorem sl_append_drop (b : List B8) (i j : Nat) (hij : i ≤ j) :
    sl b i j ++ b.drop j = b.drop i := by
  unfold sl
  have : b.drop j = (b.drop i).drop (j - i) := by rw [List.drop_drop]; congr 1; omega
  rw [this, List.take_append_drop]

theorem split64 (b : List B8) :
    b = sl b 0 8 ++ (sl b 8 16 ++ (sl b 16 24 ++ (sl b 24 32 ++ (sl b 32 40 ++ (sl b 40 48 ++
        (sl b 48 56 ++ (sl b 56 64 ++ b.drop 64))))))) := by
  rw [sl_append_drop b 56 64 (by omega), sl_append_drop b 48 56 (by omega), sl_append_drop b 40 48 (by omega),
    sl_append_drop b 32 40 (by omega), sl_append_drop b 24 32 (by omega), sl_append_drop b 16 24 (by omega),
    sl_append_drop b 8 16 (by omega), sl_append_drop b 0 8 (by omega)]
  simp

theorem maskXOR_spec (k : Key) (b : List B8) : maskXOR k b = spec k b := by
  fun_induction maskXOR k b with
  | case1 b h ih =>
    have l (i j : Nat) (hj : j ≤ 64) (hd : j - i = 8) : (sl b i j).length = 8 := by
      rw [sl_length b i j (by omega)]; exact hd
    rw [ih]
    rw [word8_spec k _ (l 0 8 (by omega) rfl), word8_spec k _ (l 8 16 (by omega) rfl),
      word8_spec k _ (l 16 24 (by omega) rfl), word8_spec k _ (l 24 32 (by omega) rfl),
      word8_spec k _ (l 32 40 (by omega) rfl), word8_spec k _ (l 40 48 (by omega) rfl),
      word8_spec k _ (l 48 56 (by omega) rfl), word8_spec k _ (l 56 64 (by omega) rfl)]
    conv => rhs; rw [split64 b]
    simp only [List.append_assoc]
    rw [spec_append k _ _ (by rw [l 0 8 (by omega) rfl]), spec_append k _ _ (by rw [l 8 16 (by omega) rfl]),
      spec_append k _ _ (by rw [l 16 24 (by omega) rfl]), spec_append k _ _ (by rw [l 24 32 (by omega) rfl]),
      spec_append k _ _ (by rw [l 32 40 (by omega) rfl]), spec_append k _ _ (by rw [l 40 48 (by omega) rfl]),
      spec_append k _ _ (by rw [l 48 56 (by omega) rfl]), spec_append k _ _ (by rw [l 56 64 (by omega) rfl])]
  | case2 b h => exact loop8_spec k b

end Mask
