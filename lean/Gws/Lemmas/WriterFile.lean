import Gws.Lemmas.WriterFrame
/-!
# A streamed message (`WriteFile`): the frames of a script and how they decode

`fileFrame_ok` identifies the bytes of the callback's frame (`fileWire`, including the RSV1 bit
OR-ed into the first frame); `framesOf`/`expFrames` describe the frames of a whole script and what
the RFC decoder returns for them; `splitReader_eq` ties the plain path to `framesOf`; the
`expFrames_*` lemmas give payloads, message shape and per-frame well-formedness.
-/

open Frame Spec

namespace Writer

theorem b0_or64 : ∀ (op : Fin 16) (fin : Bool),
    UInt8.ofNat ((op.val + (if fin then 128 else 0) + (if false then 64 else 0)) % 256) ||| 64 =
      UInt8.ofNat ((op.val + (if fin then 128 else 0) + (if true then 64 else 0)) % 256) := by decide

/-- the first header byte is the only one that depends on the RSV1 argument -/
theorem genHeader_cons (isServer fin : Bool) (opcode n : Nat) (key : Bytes) :
    ∃ t, ∀ c, Frame.genHeader isServer fin c opcode n key =
      UInt8.ofNat ((opcode + (if fin then 128 else 0) + (if c then 64 else 0)) % 256) :: t := by
  unfold Frame.genHeader
  by_cases h1 : n ≤ Facts.thresholdV1
  · cases isServer <;> simp only [h1, ↓reduceIte, Bool.false_eq_true, List.cons_append] <;> exact ⟨_, fun _ => rfl⟩
  · by_cases h2 : n ≤ Facts.thresholdV2
    · cases isServer <;> simp only [h1, h2, ↓reduceIte, Bool.false_eq_true, List.cons_append] <;> exact ⟨_, fun _ => rfl⟩
    · cases isServer <;> simp only [h1, h2, ↓reduceIte, Bool.false_eq_true, List.cons_append] <;> exact ⟨_, fun _ => rfl⟩

/-- `frame.Bytes()[0] |= 64` turns the frame into the one generated with RSV1 -/
theorem setRsv1_wireFrame (isServer fin : Bool) (opcode : Nat) (body key : Bytes) (hop : opcode < 16) :
    setRsv1 (wireFrame isServer fin false opcode body key) = wireFrame isServer fin true opcode body key := by
  unfold wireFrame
  obtain ⟨t, ht⟩ := genHeader_cons isServer fin opcode body.length key
  rw [ht false, ht true]
  simp only [List.cons_append, setRsv1]
  have := b0_or64 ⟨opcode, hop⟩ fin
  simp only at this
  rw [this]

/-- the bytes `fileFrame` returns for frame `index` of a streamed message on an open connection -/
def fileWire (cfg : Cfg) (opcode index : Nat) (eof : Bool) (p key : Bytes) : Bytes :=
  wireFrame cfg.isServer eof (cfg.pdEnabled && index == 0) (if index > 0 then Facts.opContinuation else opcode) p key

theorem fileFrame_ok (cfg : Cfg) (codec : Codec) (opcode index : Nat) (eof : Bool) (p key : Bytes)
    (hop : opcode < 16) (hk : key.length = 4) (hmax : p.length ≤ cfg.writeMax) :
    fileFrame cfg codec false opcode index eof p key = .ok (fileWire cfg opcode index eof p key) := by
  unfold fileFrame fileWire
  have hop' : (if index > 0 then Facts.opContinuation else opcode) < 16 := by
    split
    · simp [Facts.opContinuation]
    · exact hop
  simp only []
  rw [genFrame_plain _ _ _ _ _ _ _ hk (by simp [buffersCheck_false]) (by simpa using hmax) (by simp [willCompress])]
  simp only [List.flatten_cons, List.flatten_nil, List.append_nil, Bool.false_eq_true, ↓reduceIte]
  by_cases h : cfg.pdEnabled = true ∧ index = 0
  · simp only [h, and_self, ↓reduceIte, beq_self_eq_true, Bool.and_self]
    rw [setRsv1_wireFrame _ _ _ _ _ (by simpa [h.2] using hop)]
  · simp only [h, ↓reduceIte]
    have : (cfg.pdEnabled && index == 0) = false := by
      cases hp : cfg.pdEnabled <;> simp_all
    rw [this]

/-! ### a whole streamed message -/

/-- frames produced for a script by a callback that always succeeds with `g` -/
def framesOf (g : Nat → Bool → Bytes → Bytes) : Nat → ReaderScript → List Bytes
  | _, [] => []
  | i, (p, eof) :: rest => g i eof p :: (if eof then [] else framesOf g (i + 1) rest)

/-- what the RFC decoder must return for them: header and payload of every frame -/
def expFrames (cfg : Cfg) (opcode : Nat) (keys : Nat → Bytes) : Nat → ReaderScript → List (Spec.Hdr × Bytes)
  | _, [] => []
  | i, (p, eof) :: rest =>
    (sentHdr cfg.isServer eof (cfg.pdEnabled && i == 0) (if i > 0 then Facts.opContinuation else opcode) p.length (keys i), p)
      :: (if eof then [] else expFrames cfg opcode keys (i + 1) rest)

theorem readChunks_cons (p : Bytes) (eof : Bool) (rest : ReaderScript) :
    readChunks ((p, eof) :: rest) = if eof then ([p], true) else (p :: (readChunks rest).1, (readChunks rest).2) := by
  simp [readChunks]

theorem splitReader_eq (cb : Nat → Bool → Bytes → Except WErr Bytes) (g : Nat → Bool → Bytes → Bytes) (L : Nat)
    (hcb : ∀ i e p, p.length ≤ L → cb i e p = .ok (g i e p)) :
    ∀ (reads : ReaderScript) (i : Nat), (∀ c ∈ (readChunks reads).1, c.length ≤ L) → (readChunks reads).2 = true →
      splitReader cb reads i = (framesOf g i reads, none) := by
  intro reads
  induction reads with
  | nil => intro i _ h; simp [readChunks] at h
  | cons hd tl ih =>
    intro i hL heof
    obtain ⟨p, eof⟩ := hd
    rw [readChunks_cons] at hL heof
    unfold splitReader framesOf
    cases eof
    · simp only [Bool.false_eq_true, ↓reduceIte] at hL heof ⊢
      rw [hcb i false p (hL p (by simp))]
      simp only
      rw [ih (i + 1) (fun c hc => hL c (by simp [hc])) heof]
    · simp only [↓reduceIte] at hL ⊢
      rw [hcb i true p (hL p (by simp))]

theorem framesOf_decodes (cfg : Cfg) (opcode : Nat) (keys : Nat → Bytes) (hop : opcode < 16) (hkeys : ∀ i, (keys i).length = 4) :
    ∀ (s : ReaderScript) (i : Nat) (rest : Bytes), (∀ c ∈ (readChunks s).1, c.length < 2 ^ 64) →
      Spec.decodeFrames ((framesOf (fun i e p => fileWire cfg opcode i e p (keys i)) i s).flatten ++ rest) =
        (Spec.decodeFrames rest).map (fun fs => expFrames cfg opcode keys i s ++ fs) := by
  intro s
  induction s with
  | nil => intro i rest _; simp [framesOf, expFrames]
  | cons hd tl ih =>
    intro i rest hL
    obtain ⟨p, eof⟩ := hd
    rw [readChunks_cons] at hL
    have hop' : (if i > 0 then Facts.opContinuation else opcode) < 16 := by
      split
      · simp [Facts.opContinuation]
      · exact hop
    unfold framesOf expFrames
    simp only [List.flatten_cons, List.append_assoc]
    rw [fileWire]
    cases eof
    · simp only [Bool.false_eq_true, ↓reduceIte] at hL ⊢
      rw [wireFrame_decodes _ _ _ _ _ _ _ hop' (hL p (by simp)) (hkeys i)]
      rw [ih (i + 1) rest (fun c hc => hL c (by simp [hc]))]
      simp [Option.map_map, Function.comp_def]
    · simp only [↓reduceIte] at hL ⊢
      rw [wireFrame_decodes _ _ _ _ _ _ _ hop' (hL p (by simp)) (hkeys i)]
      simp

/-! ### properties of the expected frames -/

theorem sentHdr_wf (isServer fin c : Bool) (op n : Nat) (key : Bytes) (hn : n < 2 ^ 63) (hk : key.length = 4) :
    Spec.wellFormedSent (!isServer) (sentHdr isServer fin c op n key) := by
  unfold Spec.wellFormedSent Spec.shortestForm sentHdr
  refine ⟨?_, rfl, ?_, rfl, rfl, hn⟩
  · show (n ≤ 125 ∧ _) ∨ (126 ≤ n ∧ n ≤ 65535 ∧ _) ∨ (65536 ≤ n ∧ _)
    by_cases h1 : n ≤ 125
    · left; exact ⟨h1, by simp [h1]⟩
    · by_cases h2 : n ≤ 65535
      · right; left; exact ⟨by omega, h2, by simp [h1, h2]⟩
      · right; right; exact ⟨by omega, by simp [h1, h2]⟩
  · cases isServer <;> simp [hk]

theorem expFrames_payloads (cfg : Cfg) (opcode : Nat) (keys : Nat → Bytes) :
    ∀ (s : ReaderScript) (i : Nat), (expFrames cfg opcode keys i s).map (·.2) = (readChunks s).1 := by
  intro s
  induction s with
  | nil => intro i; simp [expFrames, readChunks]
  | cons hd tl ih =>
    intro i
    obtain ⟨p, eof⟩ := hd
    rw [readChunks_cons]
    unfold expFrames
    cases eof
    · simp [ih (i + 1)]
    · simp

theorem expFrames_length (cfg : Cfg) (opcode : Nat) (keys : Nat → Bytes) (s : ReaderScript) (i : Nat) :
    (expFrames cfg opcode keys i s).length = (readChunks s).1.length := by
  rw [← expFrames_payloads cfg opcode keys s i, List.length_map]

theorem expFrames_wf (cfg : Cfg) (opcode : Nat) (keys : Nat → Bytes) (hkeys : ∀ i, (keys i).length = 4) :
    ∀ (s : ReaderScript) (i : Nat), (∀ c ∈ (readChunks s).1, c.length < 2 ^ 63) →
      ∀ f ∈ expFrames cfg opcode keys i s, Spec.wellFormedSent (!cfg.isServer) f.1 := by
  intro s
  induction s with
  | nil => intro i _ f hf; simp [expFrames] at hf
  | cons hd tl ih =>
    intro i hL f hf
    obtain ⟨p, eof⟩ := hd
    rw [readChunks_cons] at hL
    unfold expFrames at hf
    cases eof
    · simp only [Bool.false_eq_true, ↓reduceIte, List.mem_cons] at hL hf
      rcases hf with rfl | hf
      · exact sentHdr_wf _ _ _ _ _ _ (hL p (by simp)) (hkeys i)
      · exact ih (i + 1) (fun c hc => hL c (by simp [hc])) f hf
    · simp only [↓reduceIte, List.mem_cons, List.not_mem_nil, or_false] at hL hf
      subst hf
      exact sentHdr_wf _ _ _ _ _ _ (hL p (by simp)) (hkeys i)

/-- continuation part: opcode 0 and RSV1 clear on every frame after the first -/
theorem expFrames_tail (cfg : Cfg) (opcode : Nat) (keys : Nat → Bytes) :
    ∀ (s : ReaderScript) (i : Nat), 1 ≤ i →
      (expFrames cfg opcode keys i s).map (·.1.opcode) = List.replicate (expFrames cfg opcode keys i s).length 0 ∧
      (expFrames cfg opcode keys i s).map (·.1.rsv1) = List.replicate (expFrames cfg opcode keys i s).length false := by
  intro s
  induction s with
  | nil => intro i _; simp [expFrames]
  | cons hd tl ih =>
    intro i hi
    obtain ⟨p, eof⟩ := hd
    have h0 : (i == 0) = false := by simp; omega
    have h1 : i > 0 := hi
    unfold expFrames
    cases eof
    · have := ih (i + 1) (by omega)
      simp only [Bool.false_eq_true, ↓reduceIte, List.map_cons, List.length_cons, List.replicate_succ, this.1, this.2,
        sentHdr, h0, h1, Bool.and_false, Facts.opContinuation]
      exact ⟨trivial, trivial⟩
    · simp [sentHdr, h0, h1, Facts.opContinuation]

/-- FIN on the last frame and only there -/
theorem expFrames_fin (cfg : Cfg) (opcode : Nat) (keys : Nat → Bytes) :
    ∀ (s : ReaderScript) (i : Nat), (readChunks s).2 = true →
      (expFrames cfg opcode keys i s).map (·.1.fin) =
        List.replicate ((expFrames cfg opcode keys i s).length - 1) false ++ [true] := by
  intro s
  induction s with
  | nil => intro i h; simp [readChunks] at h
  | cons hd tl ih =>
    intro i heof
    obtain ⟨p, eof⟩ := hd
    rw [readChunks_cons] at heof
    unfold expFrames
    cases eof
    · simp only [Bool.false_eq_true, ↓reduceIte] at heof ⊢
      have h := ih (i + 1) heof
      have hpos : 1 ≤ (expFrames cfg opcode keys (i + 1) tl).length := by
        have := congrArg List.length h
        simp only [List.length_map, List.length_append, List.length_replicate, List.length_cons, List.length_nil] at this
        omega
      simp only [List.map_cons, h, List.length_cons, Nat.add_sub_cancel, sentHdr]
      obtain ⟨k, hk⟩ : ∃ k, (expFrames cfg opcode keys (i + 1) tl).length = k + 1 := ⟨_, (Nat.sub_add_cancel hpos).symm⟩
      rw [hk]
      simp [List.replicate_succ]
    · simp [sentHdr]

theorem expFrames_shape (cfg : Cfg) (opcode : Nat) (keys : Nat → Bytes) (s : ReaderScript) (heof : (readChunks s).2 = true) :
    Spec.messageShape opcode cfg.pdEnabled ((expFrames cfg opcode keys 0 s).map (·.1)) := by
  have hfin := expFrames_fin cfg opcode keys s 0 heof
  match s, heof, hfin with
  | [], heof, _ => simp [readChunks] at heof
  | (p, eof) :: tl, _, hfin =>
    unfold Spec.messageShape
    simp only [List.map_map, Function.comp_def, List.length_map]
    refine ⟨by simp [expFrames], ?_, hfin, ?_⟩
    · unfold expFrames
      cases eof
      · have := (expFrames_tail cfg opcode keys tl 1 (by omega)).1
        simp [sentHdr, this]
      · simp [sentHdr]
    · unfold expFrames
      cases eof
      · have := (expFrames_tail cfg opcode keys tl 1 (by omega)).2
        simp [sentHdr, this]
      · simp [sentHdr]

end Writer
