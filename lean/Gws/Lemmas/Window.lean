import Gws.Model.Window

theorem goCopy_zero_of_le (dst src : Bytes) (h : src.length ≤ dst.length) :
    goCopy dst 0 src = src ++ dst.drop src.length := by
  unfold goCopy
  simp [Nat.min_eq_left h]

theorem goCopy_tail (dst src : Bytes) (off : Nat) (h : off + src.length = dst.length) :
    goCopy dst off src = dst.take off ++ src := by
  unfold goCopy
  have : min src.length (dst.length - off) = src.length := by omega
  simp [this, h]

/-- core of the overflow branches, on a full window -/
theorem Win.full_case (d p : Bytes) (S : Nat) (hd : d.length = S) :
    (if p.length ≥ S then goCopy d 0 (p.drop (p.length - S))
     else goCopy (goCopy d 0 (d.drop p.length)) (S - p.length) p) = lastN S (d ++ p) := by
  unfold lastN
  split
  · rename_i h
    rw [goCopy_zero_of_le _ _ (by simp; omega)]
    simp only [List.length_drop, List.length_append]
    have e1 : p.length - (p.length - S) = S := by omega
    rw [e1, List.drop_append]
    have : d.length + p.length - S - d.length = p.length - S := by omega
    simp [this]
    have : List.drop S d = [] := by simp [← hd]
    have h2 : List.drop (d.length + p.length - S) d = [] := by apply List.drop_eq_nil_of_le; omega
    simp [this, h2]
  · rename_i h
    have h' : p.length < S := by omega
    rw [goCopy_zero_of_le _ _ (by simp)]
    rw [goCopy_tail _ _ _ (by simp; omega)]
    simp only [List.length_drop, List.length_append]
    rw [List.take_append_of_le_length (by simp; omega)]
    rw [List.take_of_length_le (by simp; omega)]
    rw [List.drop_append_of_le_length (by omega)]
    congr 2
    omega
