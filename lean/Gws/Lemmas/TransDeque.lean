import Gws.Generated.TransDeque
/-!
# Helper lemmas for the equivalence between the translated internal/deque.go (`TransDeque.*`) and the model (`Deque.*`)

The translation checks every pointer indirection for nil (`GoDeque.deref`/`assign`); the model leaves the check out where
the pointer provably is not nil. The lemmas here discharge those checks: a pointer obtained from `Get` for a non-zero address
is that address, hence not nil.
-/
set_option linter.unusedSimpArgs false

namespace TransEquiv.Dq
open GoDeque TransDeque

@[simp] theorem deref_ne {d : Deque} {p : Nat} (h : p ≠ 0) : deref d p = some (d.load p) := by simp [deref, h]
@[simp] theorem assign_ne {d : Deque} {p : Nat} (e : Elem) (h : p ≠ 0) : assign d p e = some (d.store p e) := by simp [assign, h]
@[simp] theorem deref_zero (d : Deque) : deref d 0 = none := by simp [deref]
@[simp] theorem assign_zero (d : Deque) (e : Elem) : assign d 0 e = none := by simp [assign]

@[simp] theorem IsNil_eq (c : Nat) : (Pointer_IsNil c = true) = (c = 0) := by simp [Pointer_IsNil]

/-- `Get` = the model's `get` -/
@[simp] theorem Get_eq (d : Deque) (a : Nat) : Deque_Get d a = d.get a := by
  unfold Deque_Get Deque.get elemAddr
  by_cases h : a > 0 <;> simp [h]

/-- `get` looks at the slot array only -/
theorem get_congr {d d' : Deque} (h : d'.elements.length = d.elements.length) (a : Nat) : d'.get a = d.get a := by
  simp [Deque.get, h]

theorem get_some {d : Deque} {a v : Nat} (h : d.get a = some v) : v = a ∧ (a ≠ 0 → a < d.elements.length) := by
  unfold Deque.get at h
  split at h
  · split at h <;> simp_all
  · simp_all

theorem get_nonzero {d : Deque} {a v : Nat} (h : d.get a = some v) (ha : a ≠ 0) : v ≠ 0 := by
  have := (get_some h).1; omega

@[simp] theorem store_length (d : Deque) (p : Nat) (e : Elem) : (d.store p e).elements.length = d.elements.length := by
  simp [Deque.store]

theorem load_store_same {d : Deque} {p : Nat} (e : Elem) (h : p < d.elements.length) : (d.store p e).load p = e := by
  simp [Deque.load, Deque.store, h]

theorem load_store_other {d : Deque} {p q : Nat} (e : Elem) (h : p ≠ q) : (d.store p e).load q = d.load q := by
  simp [Deque.load, Deque.store, List.getElem?_set, h]

/-- reading a slot after a store, in general: the stored element if it is that slot (and the slot exists), the old content otherwise -/
theorem load_store (d : Deque) (p q : Nat) (e : Elem) :
    (d.store p e).load q = if p = q ∧ p < d.elements.length then e else d.load q := by
  by_cases h : p = q
  · subst h
    by_cases hl : p < d.elements.length
    · simp [hl, load_store_same _ hl]
    · simp [hl, Deque.store, List.set_eq_of_length_le (Nat.le_of_not_lt hl)]
  · simp [h, load_store_other _ h]

theorem store_store_same (d : Deque) (p : Nat) (e e' : Elem) : (d.store p e).store p e' = d.store p e' := by
  simp [Deque.store, List.set_set]

end TransEquiv.Dq
