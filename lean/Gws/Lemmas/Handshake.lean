import Gws.Model.Handshake
/-!
# Lemmas about the handshake model: string functions, header maps, the two decision procedures
-/

namespace Hs

open Sha1 (asc)

/-! ## substrings, splitting, trimming -/

theorem trimAux_suffix (tbl : List Str) (n : Nat) (s : Str) : trimAux tbl n s <:+ s := by
  induction n generalizing s with
  | zero => exact List.suffix_refl s
  | succ n ih =>
    unfold trimAux
    split
    · exact List.suffix_refl s
    · exact (ih _).trans (List.drop_suffix _ _)

theorem trimLeft_suffix (s : Str) : trimLeft s <:+ s := trimAux_suffix _ _ _

theorem trimRight_prefix (s : Str) : trimRight s <+: s := by
  unfold trimRight
  have := trimAux_suffix (spaceRunes.map List.reverse) s.length s.reverse
  rw [← List.reverse_suffix, List.reverse_reverse]
  exact this

theorem trimSpace_infix (s : Str) : trimSpace s <:+: s :=
  (trimRight_prefix _).isInfix.trans (trimLeft_suffix s).isInfix

/-- the first piece of a split is a prefix, the others are infixes -/
theorem splitOn_spec (sep : UInt8) (s : Str) :
    ∃ q qs, splitOn sep s = q :: qs ∧ q <+: s ∧ ∀ p ∈ qs, p <:+: s := by
  induction s with
  | nil => exact ⟨[], [], rfl, List.nil_prefix, by simp⟩
  | cons c r ih =>
    obtain ⟨q, qs, hq, hpre, hin⟩ := ih
    unfold splitOn
    split
    · refine ⟨[], q :: qs, by rw [hq], List.nil_prefix, ?_⟩
      intro p hp
      rcases List.mem_cons.1 hp with rfl | hp
      · exact List.infix_cons hpre.isInfix
      · exact List.infix_cons (hin p hp)
    · refine ⟨c :: q, qs, by rw [hq]; rfl, List.cons_prefix_cons.2 ⟨rfl, hpre⟩, ?_⟩
      intro p hp
      exact List.infix_cons (hin p hp)

theorem mem_splitOn_infix {sep : UInt8} {s p : Str} (h : p ∈ splitOn sep s) : p <:+: s := by
  obtain ⟨q, qs, hq, hpre, hin⟩ := splitOn_spec sep s
  rw [hq] at h
  rcases List.mem_cons.1 h with rfl | h
  · exact hpre.isInfix
  · exact hin p h

/-- every element `internal.Split` returns is a contiguous part of the header value … -/
theorem mem_split_infix {v e : Str} (h : e ∈ split v) : e <:+: v := by
  unfold split at h
  obtain ⟨h1, -⟩ := List.mem_filter.1 h
  obtain ⟨p, hp, rfl⟩ := List.mem_map.1 h1
  exact (trimSpace_infix p).trans (mem_splitOn_infix hp)

/-- … and is not empty -/
theorem mem_split_ne_nil {v e : Str} (h : e ∈ split v) : e ≠ [] := by
  unfold split at h
  simpa using (List.mem_filter.1 h).2

theorem splitOn_ne_nil (sep : UInt8) (s : Str) : splitOn sep s ≠ [] := by
  obtain ⟨q, qs, hq, -, -⟩ := splitOn_spec sep s
  rw [hq]; simp

theorem consHead_append (c : UInt8) {l : List Str} (hl : l ≠ []) (m : List Str) :
    consHead c (l ++ m) = consHead c l ++ m := by
  cases l with
  | nil => exact absurd rfl hl
  | cons p ps => rfl

/-- splitting at a separator splits the list of pieces -/
theorem splitOn_append_sep (sep : UInt8) (a b : Str) :
    splitOn sep (a ++ sep :: b) = splitOn sep a ++ splitOn sep b := by
  induction a with
  | nil => simp [splitOn]
  | cons c r ih =>
    simp only [List.cons_append, splitOn]
    split
    · rw [ih]; rfl
    · rw [ih, consHead_append c (splitOn_ne_nil sep r)]

theorem split_nil : split [] = [] := by decide

theorem split_append_comma (a b : Str) : split (a ++ 44 :: b) = split a ++ split b := by
  unfold split
  rw [splitOn_append_sep, List.map_append, List.filter_append]

/-- reading all the lines joined by commas is reading every line: `Split(Join(lines, ","), ",")`
yields the elements of the lines, line after line -/
theorem split_joinComma (lines : List Str) : split (joinComma lines) = offered lines := by
  unfold offered
  induction lines with
  | nil => simp [joinComma, split_nil]
  | cons l ls ih =>
    cases ls with
    | nil => simp [joinComma]
    | cons l' ls' =>
      rw [joinComma, split_append_comma, ih]
      simp

theorem mem_offered {lines : List Str} {e : Str} : e ∈ offered lines ↔ ∃ line, line ∈ lines ∧ e ∈ split line := by
  simp [offered, List.mem_flatMap]

theorem mem_offered_ne_nil {lines : List Str} {e : Str} (h : e ∈ offered lines) : e ≠ [] := by
  obtain ⟨line, -, he⟩ := mem_offered.1 h
  exact mem_split_ne_nil he

/-! ## case folding -/

/-- when the ASCII target contains neither `k` nor `s`, `EqualFold` is equality up to ASCII case -/
theorem foldEq_lower {t : Str} (ht : ∀ x ∈ t, lowerB x ≠ 107 ∧ lowerB x ≠ 115) {s : Str}
    (h : foldEq s t = true) : lower s = lower t := by
  induction t generalizing s with
  | nil =>
    cases s with
    | nil => rfl
    | cons c s => simp [foldEq] at h
  | cons x t ih =>
    cases s with
    | nil => simp [foldEq] at h
    | cons c s =>
      have hx := ht x (List.mem_cons_self)
      have ht' : ∀ y ∈ t, lowerB y ≠ 107 ∧ lowerB y ≠ 115 := fun y hy => ht y (List.mem_cons_of_mem _ hy)
      unfold foldEq at h
      split at h
      · simp only [Bool.and_eq_true, beq_iff_eq] at h
        simp only [lower, List.map_cons, h.1, List.cons.injEq, true_and]
        exact ih ht' h.2
      · split at h
        · simp [hx.1] at h
        · split at h
          · simp [hx.2] at h
          · exact absurd h (by simp)

/-- lower-casing never produces a byte below `A` from another byte -/
theorem lowerB_eq_of_lt {a d : UInt8} (hd : d < 65) (h : lowerB a = d) : a = d := by
  unfold lowerB at h
  split at h
  · rename_i hr
    exfalso
    have h1 := UInt8.le_iff_toNat_le.1 hr.1
    have h2 := UInt8.le_iff_toNat_le.1 hr.2
    have h3 := UInt8.lt_iff_toNat_lt.1 hd
    have h4 := congrArg UInt8.toNat h
    rw [UInt8.toNat_add] at h4
    simp at h1 h2 h3 h4
    omega
  · exact h

/-- for the version number `EqualFold` is plain equality -/
theorem foldEq_13 (s : Str) : foldEq s (asc "13") = true ↔ s = asc "13" := by
  constructor
  · intro h
    have hl := foldEq_lower (t := asc "13") (by decide) h
    have h13 : asc "13" = [49, 51] := by decide
    rw [h13] at hl ⊢
    have h2 : lower [49, 51] = ([49, 51] : Str) := by decide
    rw [h2] at hl
    match s, hl with
    | [a, b], hab =>
      simp only [lower, List.map_cons, List.map_nil, List.cons.injEq, and_true] at hab
      rw [lowerB_eq_of_lt (by decide) hab.1, lowerB_eq_of_lt (by decide) hab.2]
    | [], hab => simp [lower] at hab
    | [_], hab => simp [lower] at hab
    | _ :: _ :: _ :: _, hab => simp [lower] at hab
  · rintro rfl; decide

/-- a byte whose lower-casing is that of an ASCII byte is ASCII -/
theorem lt_128_of_lowerB_eq {c x : UInt8} (hx : x < 128) (h : lowerB c = lowerB x) : c < 128 := by
  rw [UInt8.lt_iff_toNat_lt] at hx ⊢
  have h4 := congrArg UInt8.toNat h
  unfold lowerB at h4
  split at h4 <;> split at h4 <;> rename_i hc hxr
  all_goals
    first
    | (have h1 := UInt8.le_iff_toNat_le.1 hc.2; simp at h1 ⊢; omega)
    | (have h1 := UInt8.le_iff_toNat_le.1 hxr.1
       have h2 := UInt8.le_iff_toNat_le.1 hxr.2
       rw [UInt8.toNat_add] at h4
       simp at h1 h2 h4 hx ⊢; omega)
    | (simp at h4 hx ⊢; omega)

/-- for an ASCII target, equality up to ASCII case implies `EqualFold` -/
theorem foldEq_of_lower_eq {t : Str} (ht : ∀ x ∈ t, x < 128) {s : Str} (h : lower s = lower t) :
    foldEq s t = true := by
  induction t generalizing s with
  | nil =>
    cases s with
    | nil => rfl
    | cons c s => simp [lower] at h
  | cons x t ih =>
    cases s with
    | nil => simp [lower] at h
    | cons c s =>
      simp only [lower, List.map_cons, List.cons.injEq] at h
      have hc : c < 128 := lt_128_of_lowerB_eq (ht x List.mem_cons_self) h.1
      unfold foldEq
      simp only [hc, ↓reduceIte, Bool.and_eq_true, beq_iff_eq]
      exact ⟨h.1, ih (fun y hy => ht y (List.mem_cons_of_mem _ hy)) h.2⟩

/-- when the ASCII target contains neither `k` nor `s`, `EqualFold` IS equality up to ASCII case -/
theorem foldEq_iff_lower {t : Str} (hks : ∀ x ∈ t, lowerB x ≠ 107 ∧ lowerB x ≠ 115)
    (ht : ∀ x ∈ t, x < 128) (s : Str) : foldEq s t = true ↔ lower s = lower t :=
  ⟨foldEq_lower hks, foldEq_of_lower_eq ht⟩

theorem lower_Upgrade : lower (asc "Upgrade") = lower (asc "upgrade") := by decide

/-- `HttpHeaderContainsToken(lines, "Upgrade")` is the token condition of the properties -/
theorem containsToken_iff (lines : List Str) :
    httpHeaderContainsToken lines (asc "Upgrade") = true ↔ HasToken lines (asc "upgrade") := by
  unfold httpHeaderContainsToken HasToken
  simp only [List.any_eq_true]
  constructor
  · rintro ⟨line, hl, e, he, hf⟩
    exact ⟨line, hl, e, he, by rw [← lower_Upgrade]; exact (foldEq_iff_lower (by decide) (by decide) e).1 hf⟩
  · rintro ⟨line, hl, e, he, hf⟩
    exact ⟨line, hl, e, he, (foldEq_iff_lower (by decide) (by decide) e).2 (by rw [lower_Upgrade]; exact hf)⟩

/-! ## first common element -/

theorem intersectionElem_spec (a b : List Str) (hb : ∀ x ∈ b, x ≠ []) :
    (intersectionElem a b = [] ∧ ∀ p ∈ a, p ∉ b) ∨
    (intersectionElem a b ≠ [] ∧ FirstCommon a b (intersectionElem a b)) := by
  unfold intersectionElem
  cases hf : a.find? (fun x => decide (x ∈ b)) with
  | none =>
    left
    refine ⟨rfl, ?_⟩
    intro p hp
    simpa using (List.find?_eq_none.1 hf) p hp
  | some x =>
    right
    obtain ⟨hx, pre, post, hsplit, hpre⟩ := List.find?_eq_some_iff_append.1 hf
    have hx' : x ∈ b := by simpa using hx
    refine ⟨hb x hx', pre, post, hsplit, hx', ?_⟩
    intro q hq
    simpa using hpre q hq

theorem intersectionElem_ne_nil_iff (a b : List Str) (hb : ∀ x ∈ b, x ≠ []) :
    intersectionElem a b ≠ [] ↔ ∃ p, p ∈ a ∧ p ∈ b := by
  rcases intersectionElem_spec a b hb with ⟨h0, hn⟩ | ⟨h1, pre, post, hs, hx, -⟩
  · constructor
    · intro h; exact absurd h0 h
    · rintro ⟨p, hp, hpb⟩; exact absurd hpb (hn p hp)
  · constructor
    · intro _
      generalize intersectionElem a b = x at hs hx
      exact ⟨x, by rw [hs]; simp, hx⟩
    · intro _; exact h1

/-! ## header maps -/

theorem find?_filter_of_imp {α : Type} (p q : α → Bool) (l : List α) (h : ∀ x, p x = true → q x = true) :
    (l.filter q).find? p = l.find? p := by
  induction l with
  | nil => rfl
  | cons x xs ih =>
    by_cases hq : q x = true
    · simp only [List.filter_cons, hq, ↓reduceIte, List.find?_cons, ih]
    · have hp : p x = false := by
        cases hpx : p x with
        | false => rfl
        | true => exact absurd (h x hpx) hq
      simp only [List.filter_cons, hq, Bool.false_eq_true, ↓reduceIte, List.find?_cons, hp, ih]

theorem values_del_other (h : Header) (k k' : Str) (hne : k' ≠ canon k) : values (del h k) k' = values h k' := by
  unfold values del
  rw [find?_filter_of_imp]
  intro x hx
  have : x.1 = k' := by simpa using hx
  simp [this, hne]

theorem values_del_self (h : Header) (k : Str) : values (del h k) (canon k) = [] := by
  unfold values del
  have : (h.filter (fun e => decide (e.1 ≠ canon k))).find? (fun e => e.1 == canon k) = none := by
    rw [List.find?_eq_none]
    intro x hx
    have := (List.mem_filter.1 hx).2
    simpa using this
  rw [this]

theorem values_set_self (h : Header) (k v : Str) : values (set h k v) (canon k) = [v] := by
  have hd := values_del_self h k
  unfold values at hd ⊢
  unfold set
  rw [List.find?_append]
  cases hf : (del h k).find? (fun e => e.1 == canon k) with
  | none => simp
  | some e =>
    have := List.find?_some hf
    have hmem := List.mem_of_find?_eq_some hf
    unfold del at hmem
    have := (List.mem_filter.1 hmem).2
    simp_all

theorem values_set_other (h : Header) (k v k' : Str) (hne : k' ≠ canon k) :
    values (set h k v) k' = values h k' := by
  have hd := values_del_other h k k' hne
  unfold values at hd ⊢
  unfold set
  rw [List.find?_append]
  cases hf : (del h k).find? (fun e => e.1 == k') with
  | none =>
    rw [hf] at hd
    have : (canon k == k') = false := by simpa using fun h => hne h.symm
    simp [this, ← hd]
  | some e => rw [hf] at hd; simpa using hd

theorem get_set_self (h : Header) (k v : Str) (hk : canon (canon k) = canon k) : get (set h k v) (canon k) = v := by
  unfold get vals; rw [hk, values_set_self]; rfl

theorem mem_deleteProtected {h : Header} {e : Str × List Str} :
    e ∈ deleteProtectedHeaders h ↔ e ∈ h ∧ e.1 ∉ protectedNames := by
  simp only [deleteProtectedHeaders, del, List.mem_filter, protectedNames, decide_eq_true_eq,
    List.mem_cons, List.not_mem_nil, or_false, not_or]
  constructor
  · rintro ⟨⟨⟨⟨⟨h0, h1⟩, h2⟩, h3⟩, h4⟩, h5⟩; exact ⟨h0, h1, h2, h3, h4, h5⟩
  · rintro ⟨h0, h1, h2, h3, h4, h5⟩; exact ⟨⟨⟨⟨⟨h0, h1⟩, h2⟩, h3⟩, h4⟩, h5⟩

theorem values_deleteProtected (h : Header) (k : Str) (hk : k ∉ protectedNames) :
    values (deleteProtectedHeaders h) k = values h k := by
  simp only [protectedNames, List.mem_cons, List.not_mem_nil, or_false, not_or] at hk
  obtain ⟨h1, h2, h3, h4, h5⟩ := hk
  unfold deleteProtectedHeaders
  rw [values_del_other _ _ _ h5, values_del_other _ _ _ h4, values_del_other _ _ _ h3,
    values_del_other _ _ _ h2, values_del_other _ _ _ h1]

/-! ## the server decision in closed form -/

/-- the lines `WithExtraHeader` appends for the configured response header -/
def extraLines (o : ServerOpt) : List (Str × Str) :=
  (deleteProtectedHeaders o.responseHeader).map (fun e => (e.1, get (deleteProtectedHeaders o.responseHeader) e.1))

/-- the lines written before the sub-protocol line -/
def baseLines (key : Str) (ext : Option Str) : List (Str × Str) :=
  [(kUpgrade, asc "websocket"), (kConnection, asc "Upgrade")] ++
  optLine kExtensions ext ++ [(kAccept, acceptKey key)]

/-- the request passes the request checks of `doUpgradeFromConn` -/
def ChecksPass (r : Request) (auth : Bool) : Prop :=
  auth = true ∧ r.method = asc "GET" ∧ foldEq (get r.header kVersion) (asc "13") = true ∧
  httpHeaderContainsToken (vals r.header kConnection) (asc "Upgrade") = true ∧
  foldEq (get r.header kUpgrade) (asc "websocket") = true ∧ get r.header kKey ≠ []

theorem serverDecide_of_not_pass {o : ServerOpt} {r : Request} {auth : Bool} {ext : Option Str}
    (h : ¬ ChecksPass r auth) : ∃ e, serverDecide o r auth ext = .reject e := by
  unfold serverDecide
  unfold ChecksPass at h
  by_cases h1 : auth = false
  · exact ⟨.unauthorized, by simp [h1]⟩
  by_cases h2 : r.method ≠ asc "GET"
  · exact ⟨.handshake, by simp [h1, h2]⟩
  by_cases h3 : foldEq (get r.header kVersion) (asc "13") = false
  · exact ⟨.version, by simp [h1, h2, h3]⟩
  by_cases h4 : httpHeaderContainsToken (vals r.header kConnection) (asc "Upgrade") = false
  · exact ⟨.handshake, by simp [h1, h2, h3, h4]⟩
  by_cases h5 : foldEq (get r.header kUpgrade) (asc "websocket") = false
  · exact ⟨.handshake, by simp [h1, h2, h3, h4, h5]⟩
  by_cases h6 : get r.header kKey = []
  · exact ⟨.handshake, by simp [h1, h2, h3, h4, h5, h6]⟩
  exfalso
  apply h
  simp only [Bool.not_eq_false, ne_eq, Decidable.not_not] at h1 h2 h3 h4 h5
  exact ⟨h1, h2, h3, h4, h5, h6⟩

/-- what the client offered: the elements of ALL its `Sec-WebSocket-Protocol` lines -/
def offer (r : Request) : List Str := offered (vals r.header kProtocol)

theorem serverDecide_of_pass {o : ServerOpt} {r : Request} {auth : Bool} {ext : Option Str}
    (h : ChecksPass r auth) :
    serverDecide o r auth ext =
      if o.subProtocols = [] then .accept (baseLines (get r.header kKey) ext ++ extraLines o) []
      else if intersectionElem o.subProtocols (offer r) = [] then .reject .subprotocol
      else .accept (baseLines (get r.header kKey) ext ++
              [(kProtocol, intersectionElem o.subProtocols (offer r))] ++ extraLines o)
            (intersectionElem o.subProtocols (offer r)) := by
  obtain ⟨h1, h2, h3, h4, h5, h6⟩ := h
  unfold serverDecide offer
  simp only [h1, h2, h3, h4, h5, h6, Bool.true_eq_false, ↓reduceIte, ne_eq, not_true_eq_false]
  unfold RW.withSubProtocol
  rw [split_joinComma]
  by_cases hs : o.subProtocols = []
  · cases ext <;> simp [hs, RW.withExtraHeader, RW.withHeader, RW.init, baseLines, extraLines, optLine]
  · by_cases hi : intersectionElem o.subProtocols (offered (vals r.header kProtocol)) = []
    · cases ext <;> simp [hs, hi, RW.withExtraHeader, RW.withHeader, RW.init]
    · cases ext <;> simp [hs, hi, RW.withExtraHeader, RW.withHeader, RW.init, baseLines, extraLines, optLine]

/-! ## the client check in closed form -/

def RespChecksPass (key : Str) (resp : Resp) : Prop :=
  resp.status = 101 ∧ httpHeaderContainsToken (vals resp.header kConnection) (asc "Upgrade") = true ∧
  foldEq (get resp.header kUpgrade) (asc "websocket") = true ∧ get resp.header kAccept = acceptKey key

theorem checkHeaders_eq_none_iff (key : Str) (resp : Resp) :
    checkHeaders key resp = none ↔ RespChecksPass key resp := by
  unfold checkHeaders RespChecksPass
  by_cases h1 : resp.status ≠ 101
  · simp [h1]
  by_cases h2 : httpHeaderContainsToken (vals resp.header kConnection) (asc "Upgrade") = false
  · simp [h1, h2]
  by_cases h3 : foldEq (get resp.header kUpgrade) (asc "websocket") = false
  · simp [h1, h2, h3]
  by_cases h4 : get resp.header kAccept ≠ acceptKey key
  · simp [h1, h2, h3, h4]
  simp only [ne_eq, Decidable.not_not, Bool.not_eq_false] at h1 h2 h3 h4
  simp [h1, h2, h3, h4]

theorem clientHandshake_ok_iff (o : ClientOpt) (key : Str) (resp : Resp) (sp : Str) :
    clientHandshake o key resp = .ok sp ↔
      RespChecksPass key resp ∧
      sp = intersectionElem (split (get o.requestHeader kProtocol)) (split (get resp.header kProtocol)) ∧
      (split (get o.requestHeader kProtocol) = [] ∨ sp ≠ []) := by
  unfold clientHandshake
  cases hc : checkHeaders key resp with
  | some e =>
    have : ¬ RespChecksPass key resp := by rw [← checkHeaders_eq_none_iff, hc]; simp
    simp [this]
  | none =>
    have hp : RespChecksPass key resp := (checkHeaders_eq_none_iff key resp).1 hc
    simp only [hp, true_and]
    unfold getSubProtocol
    simp only
    split
    · rename_i h
      constructor
      · intro h'; cases h'
      · rintro ⟨rfl, h' | h'⟩
        · exact absurd h' h.1
        · exact absurd h.2 h'
    · rename_i h
      constructor
      · intro h'
        injection h' with h'
        subst h'
        refine ⟨rfl, ?_⟩
        by_cases ha : split (get o.requestHeader kProtocol) = []
        · exact Or.inl ha
        · right; intro hsp; exact h ⟨ha, hsp⟩
      · rintro ⟨rfl, -⟩; rfl

/-! ## the checks in the vocabulary of the properties -/

theorem checksPass_iff (r : Request) (auth : Bool) :
    ChecksPass r auth ↔
      (auth = true ∧ r.method = asc "GET" ∧ get r.header kVersion = asc "13" ∧
       HasToken (vals r.header kConnection) (asc "upgrade") ∧
       foldEq (get r.header kUpgrade) (asc "websocket") = true ∧ get r.header kKey ≠ []) := by
  unfold ChecksPass
  rw [foldEq_13, containsToken_iff]

theorem respChecksPass_iff (key : Str) (resp : Resp) :
    RespChecksPass key resp ↔
      (resp.status = 101 ∧ HasToken (vals resp.header kConnection) (asc "upgrade") ∧
       foldEq (get resp.header kUpgrade) (asc "websocket") = true ∧
       get resp.header kAccept = Base64.encode (Sha1.sha1 (key ++ asc Facts.magicNumber))) := by
  unfold RespChecksPass
  rw [containsToken_iff]
  rfl

/-- sub-protocol selection succeeds: the chooser lists none, or one of its entries is among the
elements the peer listed -/
def SubprotocolOk (mine peer : List Str) : Prop :=
  mine = [] ∨ ∃ p, p ∈ mine ∧ p ∈ peer

theorem subprotocolOk_iff (mine peer : List Str) (hp : ∀ x ∈ peer, x ≠ []) :
    SubprotocolOk mine peer ↔ (mine = [] ∨ intersectionElem mine peer ≠ []) := by
  unfold SubprotocolOk
  rw [intersectionElem_ne_nil_iff _ _ hp]

theorem isAccept_iff (o : ServerOpt) (r : Request) (auth : Bool) (ext : Option Str) :
    (serverDecide o r auth ext).isAccept = true ↔
      ChecksPass r auth ∧ SubprotocolOk o.subProtocols (offer r) := by
  have hne : ∀ x ∈ offer r, x ≠ [] := fun x hx => mem_offered_ne_nil hx
  by_cases hp : ChecksPass r auth
  · rw [serverDecide_of_pass hp, subprotocolOk_iff _ _ hne]
    by_cases hs : o.subProtocols = []
    · simp [hs, hp, Decision.isAccept]
    · by_cases hi : intersectionElem o.subProtocols (offer r) = []
      · simp [hs, hi, hp, Decision.isAccept]
      · simp [hs, hi, hp, Decision.isAccept]
  · obtain ⟨e, he⟩ := serverDecide_of_not_pass (o := o) (ext := ext) hp
    simp [he, hp, Decision.isAccept]

/-! ## sample messages for witnesses and non-vacuity -/

/-- `GET` with the RFC 6455 sample key and the given `Connection` / `Upgrade` value lists (one entry
per header line) and sub-protocol lines -/
def sampleRequest (conn upg proto : List Str) : Request :=
  { method := asc "GET",
    header := [(canon kVersion, [asc "13"]), (canon kConnection, conn), (canon kUpgrade, upg),
               (canon kKey, [asc "dGhlIHNhbXBsZSBub25jZQ=="]), (canon kProtocol, proto)] }

def sampleResponse (conn : List Str) (accept : Str) (proto : List Str) : Resp :=
  { status := 101,
    header := [(canon kConnection, conn), (canon kUpgrade, [asc "WebSocket"]),
               (canon kAccept, [accept]), (canon kProtocol, proto)] }

end Hs
