import Gws.Trans.Prelude
/-!
# Helper lemmas for the equivalence proofs between the generated translation and the model
-/
namespace TransEquiv

/-- a statement about every `uint8` follows from the 256 instances (decided by the kernel) -/
theorem u8_forall (P : UInt8 → Prop) (h : ∀ n, n < 256 → P (UInt8.ofNat n)) (b : UInt8) : P b := by
  have := h b.toNat (by have := b.toNat_lt; omega)
  simpa using this

theorem u8_eq_lit (x : UInt8) (n : Nat) (hn : n < 256) : (x == UInt8.ofNat n) = decide (x.toNat = n) := by
  rw [Bool.eq_iff_iff]; simp only [beq_iff_eq, decide_eq_true_eq]
  constructor
  · intro h; subst h; simp; omega
  · intro h; subst h; simp

theorem u8_eq_1 (x : UInt8) : (x == (1 : UInt8)) = decide (x.toNat = 1) := u8_eq_lit x 1 (by decide)
theorem u8_eq_2 (x : UInt8) : (x == (2 : UInt8)) = decide (x.toNat = 2) := u8_eq_lit x 2 (by decide)

theorem u8_beq (x k : UInt8) : (x == k) = decide (x.toNat = k.toNat) := by
  rw [Bool.eq_iff_iff]; simp only [beq_iff_eq, decide_eq_true_eq]
  exact UInt8.toNat_inj.symm

theorem u16_beq (x k : UInt16) : (x == k) = decide (x.toNat = k.toNat) := by
  rw [Bool.eq_iff_iff]; simp only [beq_iff_eq, decide_eq_true_eq]
  exact UInt16.toNat_inj.symm

theorem int_sub_toNat (a b : Nat) : ((a : Int) - (b : Int)).toNat = a - b := by omega

end TransEquiv
