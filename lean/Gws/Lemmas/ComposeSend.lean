import Gws.Model.Compose
import Gws.Lemmas.ComposeFrame
import Gws.Props.C02
/-!
# One write call, read by the peer (helpers for Props/C01)

Reader side: `step_msg_plain`, `step_msg_compressed` (one data frame), `runs_fileFrames` (the frames
of a streamed message, any number of fragments).  Sender side: the write calls as equations
(`writeMessage_plain_eq`, `writeMessage_compressed_eq`, `broadcast_*_eq`).  Window bookkeeping:
`foldl_write_eq` (chunk-wise and whole-payload updates agree under the C17 invariant).
-/

namespace Compose

/-! ## small facts -/

theorem isData_le {op : Nat} (h : isData op) : op ≤ 2 := by
  rcases h with rfl | rfl <;> simp [Facts.opText, Facts.opBinary]

theorem isData_ne {op : Nat} (h : isData op) : op ≠ Facts.opContinuation := by
  rcases h with rfl | rfl <;> simp [Facts.opText, Facts.opBinary, Facts.opContinuation]

/-- the receiver's gate `internal.CheckEncoding` on a data message -/
theorem checkEncoding_of_textOk {check : Bool} {op : Nat} {data : Bytes} (hop : isData op)
    (h : textOk check op data) : Utf8.checkEncoding check op data = true := by
  unfold Utf8.checkEncoding
  cases check
  · simp
  · rcases hop with rfl | rfl
    · simpa [Facts.opText] using h rfl rfl
    · simp [Facts.opBinary]

/-- the sender's gate `payload.CheckEncoding` on a data message -/
theorem buffersCheck_of_textOk {check : Bool} {op : Nat} {p : List Bytes} (hop : isData op)
    (h : textOk check op p.flatten) :
    ¬ (op = Facts.opText ∧ Utf8.buffersCheck check op p = false) := by
  rintro ⟨rfl, hb⟩
  unfold Utf8.buffersCheck at hb
  cases check
  · simp at hb
  · have := h rfl rfl
    simp [Utf8.validJoined_eq, this] at hb

/-- writing the slices one by one leaves the same window as writing the whole payload -/
theorem foldl_write_eq (w : Win) (cs : List Bytes) (hw : WinOk w) : cs.foldl Win.write w = w.write cs.flatten := by
  cases he : w.enabled
  · have h1 : ∀ p, w.write p = w := fun p => by simp [Win.write, he]
    rw [h1]
    induction cs with
    | nil => rfl
    | cons c cs ih => rw [List.foldl_cons, h1]; exact ih
  · exact Session.foldl_write_eq w cs he (hw he)

theorem winOk_write (w : Win) (p : Bytes) (hw : WinOk w) : WinOk (w.write p) := by
  intro he
  have hf := Win.write_frame w p
  rw [hf.1] at he
  exact Win.write_length_le w p he (hw he)

theorem winOk_init (bits : Nat) : WinOk (Win.init bits) := by intro _; simp [Win.init]
theorem winOk_disabled : WinOk Win.disabled := by intro h; simp [Win.disabled] at h

/-! ## reader side: one data frame -/

/-- an uncompressed, unfragmented Text/Binary frame of the peer on an idle reader: delivered once,
payload byte-identical, state unchanged, input consumed exactly -/
theorem step_msg_plain (r : Reader.Cfg) (codec : Codec) (st : Reader.State) (senderIsServer : Bool)
    (op : Nat) (body key rest : Bytes)
    (hrole : r.isServer = !senderIsServer) (hR : r.readMax < 2 ^ 63) (hop : isData op) (hk : key.length = 4)
    (hfit : (body.length : Int) ≤ r.readMax) (htext : textOk r.checkUtf8 op body)
    (hidle : st.cont.initialized = false) :
    Reader.step r codec st (Writer.wireFrame senderIsServer true false op body key ++ rest) =
      .ok st [.msg op body] rest := by
  obtain ⟨h, hfin, h1, hopc, hs⟩ := step_dataFrame r codec st senderIsServer true false op body key rest
    hrole (isData_le hop) hk hfit hR (by simp)
  rw [hs]
  have := afterPayload_single r codec st h body rest hfin (by rw [hopc]; exact isData_ne hop) hidle st
    (some (.msg op body)) (by
      rw [h1, hopc, Bool.and_false]
      exact emitMessage_plain r codec st op body (checkEncoding_of_textOk hop htext))
  simpa using this

/-- a compressed, unfragmented Text/Binary frame whose payload inflates (against the reader's
current window) to `out`: `out` is delivered once and enters the window -/
theorem step_msg_compressed (r : Reader.Cfg) (codec : Codec) (st : Reader.State) (senderIsServer : Bool)
    (op : Nat) (body out key rest : Bytes)
    (hrole : r.isServer = !senderIsServer) (hR : r.readMax < 2 ^ 63) (hpd : r.pdEnabled = true)
    (hop : isData op) (hk : key.length = 4)
    (hfit : (body.length : Int) ≤ r.readMax)
    (hinf : codec.decompress r.readMax st.dps.dict body = .ok out)
    (htext : textOk r.checkUtf8 op out)
    (hidle : st.cont.initialized = false) :
    Reader.step r codec st (Writer.wireFrame senderIsServer true true op body key ++ rest) =
      .ok { st with dps := st.dps.write out } [.msg op out] rest := by
  obtain ⟨h, hfin, h1, hopc, hs⟩ := step_dataFrame r codec st senderIsServer true true op body key rest
    hrole (isData_le hop) hk hfit hR (fun _ => ⟨hpd, hop⟩)
  rw [hs]
  have := afterPayload_single r codec st h body rest hfin (by rw [hopc]; exact isData_ne hop) hidle
    { st with dps := st.dps.write out } (some (.msg op out)) (by
      rw [h1, hopc, hpd, Bool.and_true]
      exact emitMessage_inflated r codec st op body out hinf (checkEncoding_of_textOk hop htext))
  simpa using this

/-! ## reader side: the frames of a streamed message -/

/-- the continuation frames (`index ≥ 1`) of a streamed message on a reader that holds the earlier
fragments: they are appended in order, and the last one hands the whole buffer to `emitMessage` -/
theorem runs_contFrames (w : Writer.Cfg) (r : Reader.Cfg) (codec : Codec) (opcode : Nat) (keys : Nat → Bytes)
    (hrole : r.isServer = !w.isServer) (hR : r.readMax < 2 ^ 63) (hkeys : ∀ i, (keys i).length = 4) :
    ∀ (s : Writer.ReaderScript) (i : Nat) (st : Reader.State) (rest : Bytes), 1 ≤ i →
      (Writer.readChunks s).2 = true → st.cont.initialized = true →
      ((st.cont.buffer.length + (Writer.readChunks s).1.flatten.length : Nat) : Int) ≤ r.readMax →
      ∀ (st' : Reader.State) (ev : Option Reader.Ev),
        Reader.emitMessage r codec { st with cont := {} } st.cont.opcode
          (st.cont.buffer ++ (Writer.readChunks s).1.flatten) st.cont.compressed = .inl (st', ev) →
        Runs r codec st
          ((Writer.framesOf (fun i e p => Writer.fileWire w opcode i e p (keys i)) i s).flatten ++ rest)
          st' ev.toList rest := by
  intro s
  induction s with
  | nil => intro i st rest _ heof; simp [Writer.readChunks] at heof
  | cons hd tl ih =>
    intro i st rest hi heof hinit hfit st' ev he
    obtain ⟨p, eof⟩ := hd
    have hi0 : (i == 0) = false := by simp; omega
    have hipos : i > 0 := hi
    rw [Writer.readChunks_cons] at heof hfit he
    unfold Writer.framesOf
    simp only [List.flatten_cons, List.append_assoc]
    have hfw : Writer.fileWire w opcode i eof p (keys i) =
        Writer.wireFrame w.isServer eof false Facts.opContinuation p (keys i) := by
      simp only [Writer.fileWire, hi0, Bool.and_false, hipos, ↓reduceIte]
    rw [hfw]
    cases eof
    · -- a middle fragment
      simp only [Bool.false_eq_true, ↓reduceIte, List.flatten_cons, List.length_append] at heof hfit he ⊢
      obtain ⟨h, hfin, h1, hopc, hs⟩ := step_dataFrame r codec st w.isServer false false Facts.opContinuation p (keys i)
        ((Writer.framesOf (fun i e p => Writer.fileWire w opcode i e p (keys i)) (i + 1) tl).flatten ++ rest)
        hrole (by simp [Facts.opContinuation]) (hkeys i) (by omega) hR (by simp)
      rw [afterPayload_middle r codec st h p _ hfin hopc hinit (by omega)] at hs
      have hrun := ih (i + 1) { st with cont := { st.cont with buffer := st.cont.buffer ++ p } } rest (by omega) heof hinit
        (by simp only [List.length_append]; omega) st' ev (by simpa [List.append_assoc] using he)
      have := Runs.trans (Runs.one hs) hrun
      simpa using this
    · -- the last fragment
      simp only [↓reduceIte, List.flatten_cons, List.flatten_nil, List.append_nil, List.nil_append] at hfit he ⊢
      obtain ⟨h, hfin, h1, hopc, hs⟩ := step_dataFrame r codec st w.isServer true false Facts.opContinuation p (keys i)
        rest hrole (by simp [Facts.opContinuation]) (hkeys i) (by omega) hR (by simp)
      rw [afterPayload_last r codec st h p rest hfin hopc hinit hfit st' ev he] at hs
      exact Runs.one hs

/-- **a streamed message, any fragmentation.**  The frames `Writer.framesOf … 0 s` of a script that
reaches EOF, read by an idle reader of the opposite role: every fragment is accepted, and the
concatenation of the chunks is handed to `emitMessage` exactly once, with the message's opcode and
`compressed` = "the extension is negotiated" (the RSV1 bit of the first frame).  `hemit` says what
`emitMessage` does with it (whatever the reassembly state). -/
theorem runs_fileFrames (w : Writer.Cfg) (r : Reader.Cfg) (codec : Codec) (opcode : Nat) (keys : Nat → Bytes)
    (hrole : r.isServer = !w.isServer) (hext : r.pdEnabled = w.pdEnabled) (hR : r.readMax < 2 ^ 63)
    (hkeys : ∀ i, (keys i).length = 4) (hop : isData opcode)
    (s : Writer.ReaderScript) (st : Reader.State) (dps' : Win) (ev : Reader.Ev)
    (heof : (Writer.readChunks s).2 = true) (hidle : st.cont.initialized = false)
    (hfit : ((Writer.readChunks s).1.flatten.length : Int) ≤ r.readMax)
    (hemit : ∀ c : Reader.Cont, Reader.emitMessage r codec { st with cont := c } opcode
      (Writer.readChunks s).1.flatten w.pdEnabled = .inl ({ cont := c, dps := dps' }, some ev)) :
    ∃ c' : Reader.Cont, c'.initialized = false ∧ ∀ rest : Bytes,
      Runs r codec st
        ((Writer.framesOf (fun i e p => Writer.fileWire w opcode i e p (keys i)) 0 s).flatten ++ rest)
        { cont := c', dps := dps' } [ev] rest := by
  match s, heof with
  | [], heof => simp [Writer.readChunks] at heof
  | (p, eof) :: tl, heof =>
    rw [Writer.readChunks_cons] at heof hfit hemit
    unfold Writer.framesOf
    simp only [List.flatten_cons, List.append_assoc]
    have hfw : Writer.fileWire w opcode 0 eof p (keys 0) =
        Writer.wireFrame w.isServer eof w.pdEnabled opcode p (keys 0) := by
      have hz : ¬ (0 : Nat) > 0 := by omega
      simp only [Writer.fileWire, beq_self_eq_true, Bool.and_true, hz, ↓reduceIte]
    rw [hfw]
    have hrsv : w.pdEnabled = true → r.pdEnabled = true ∧ (opcode = Facts.opText ∨ opcode = Facts.opBinary) :=
      fun h => ⟨by rw [hext, h], hop⟩
    cases eof
    · -- first fragment of several
      simp only [Bool.false_eq_true, ↓reduceIte, List.flatten_cons, List.length_append] at heof hfit hemit ⊢
      refine ⟨{}, rfl, fun rest => ?_⟩
      obtain ⟨h, hfin, h1, hopc, hs⟩ := step_dataFrame r codec st w.isServer false w.pdEnabled opcode p (keys 0)
        ((Writer.framesOf (fun i e p => Writer.fileWire w opcode i e p (keys i)) (0 + 1) tl).flatten ++ rest)
        hrole (isData_le hop) (hkeys 0) (by omega) hR hrsv
      rw [afterPayload_first r codec st h p _ hfin (by rw [hopc]; exact isData_ne hop) hidle (by omega)] at hs
      have hrun := runs_contFrames w r codec opcode keys hrole hR hkeys tl (0 + 1)
        { st with cont := { initialized := true, compressed := r.pdEnabled && Frame.getRSV1 h.b0,
                            opcode := Frame.getOpcode h.b0, buffer := p } }
        rest (by omega) heof rfl (by simp only []; omega) { cont := {}, dps := dps' } (some ev)
        (by
          simp only [h1, hopc, hext, Bool.and_self]
          exact hemit {})
      have := Runs.trans (Runs.one hs) hrun
      simpa using this
    · -- a single frame
      simp only [↓reduceIte, List.flatten_cons, List.flatten_nil, List.append_nil, List.nil_append] at hfit hemit ⊢
      refine ⟨st.cont, hidle, fun rest => ?_⟩
      obtain ⟨h, hfin, h1, hopc, hs⟩ := step_dataFrame r codec st w.isServer true w.pdEnabled opcode p (keys 0)
        rest hrole (isData_le hop) (hkeys 0) hfit hR hrsv
      rw [afterPayload_single r codec st h p rest hfin (by rw [hopc]; exact isData_ne hop) hidle
        { cont := st.cont, dps := dps' } (some ev) (by
          rw [h1, hopc, hext, Bool.and_self]
          exact hemit st.cont)] at hs
      exact Runs.one hs

/-! ## sender side: the calls as equations -/

theorem writeMessage_eq (w : Writer.Cfg) (codec : Codec) (st : Writer.Conn) (op : Nat) (p : List Bytes)
    (keys : Nat → Bytes) (frame : Bytes) (hopen : st.closed = false)
    (hg : Writer.genFrame w codec st.cps op p (Writer.msgCfg w) (keys 0) = .ok frame) :
    Writer.writeMessage w codec st op p keys =
      { wire := frame, err := none,
        st := { st with cps := if Writer.willCompress w (Writer.msgCfg w) op p.flatten.length
                               then p.foldl Win.write st.cps else st.cps } } := by
  simp [Writer.writeMessage, Writer.doWrite, hopen, hg, Writer.emitError]

theorem broadcast_eq (w : Writer.Cfg) (codec : Codec) (st : Writer.Conn) (frame p closeKey : Bytes) (z : Bool)
    (hopen : st.closed = false) :
    Writer.broadcast w codec st (.ok (frame, z)) p closeKey =
      { wire := frame, err := none, st := { st with cps := if z then st.cps.write p else st.cps } } := by
  simp [Writer.broadcast, Writer.writeBroadcast, hopen, Writer.emitError]

end Compose
