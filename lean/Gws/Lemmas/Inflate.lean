import Gws.Spec.Inflate
/-!
# The RFC 1951 inflater only looks `maxDist` bytes back into the preset history

A simulation between `Spec.Inflate.run (pre ++ h) data` and `Spec.Inflate.run h data`: the bit reader
and all Huffman decoding never look at the output (`Out`), so both runs decode the same item sequence;
the two `Out.hist` arrays differ exactly by the prefix `pre`, `start` differs by `pre.size`, `maxDist`
is equal.  A back-reference of distance `dist ≤ o₂.hist.size` reads the same bytes in both.  Because
`maxDist` is a running maximum, the FINAL `maxDist ≤ h.size` bounds every individual distance, and
the output array only grows, so every copy of the run on `pre ++ h` is also legal in the run on `h`.

`Gws/Spec/Inflate.lean` is unchanged; `nextItem` / `blockBody` below are proof-side views of
`codes` / `blocks` (equations `codes_succ`, `blocks_succ`).
-/
namespace Spec.Inflate

/-! ## `Out.copy` -/

theorem copy_go_size (dist n : Nat) (h : Array UInt8) : (Out.copy.go dist n h).size = h.size + n := by
  induction n generalizing h with
  | zero => rfl
  | succ n ih =>
    show (Out.copy.go dist n (h.push h[h.size - dist]!)).size = _
    rw [ih]; simp; omega

/-- a copy whose distance stays inside `h` does not see what is in front of `h` -/
theorem copy_go_append (pre : Array UInt8) (dist n : Nat) (h : Array UInt8) (hd : dist ≤ h.size) :
    Out.copy.go dist n (pre ++ h) = pre ++ Out.copy.go dist n h := by
  induction n generalizing h with
  | zero => rfl
  | succ n ih =>
    show Out.copy.go dist n ((pre ++ h).push (pre ++ h)[(pre ++ h).size - dist]!) =
      pre ++ Out.copy.go dist n (h.push h[h.size - dist]!)
    have e : (pre ++ h)[(pre ++ h).size - dist]! = h[h.size - dist]! := by
      have h1 : (pre ++ h).size - dist = pre.size + (h.size - dist) := by simp; omega
      rw [h1, getElem!_def, getElem!_def, Array.getElem?_append_right (by omega)]
      simp
    rw [e, ← Array.append_push]
    exact ih _ (by simp; omega)

theorem copy_some {o o' : Out} {len dist : Nat} (h : o.copy len dist = some o') :
    dist ≠ 0 ∧ dist ≤ o.hist.size ∧
      o' = { o with hist := Out.copy.go dist len o.hist, maxDist := max o.maxDist dist } := by
  unfold Out.copy at h
  split at h
  · simp at h
  · rename_i hc
    simp only [Option.some.injEq] at h
    exact ⟨by omega, by omega, h.symm⟩

/-! ## the simulation relation -/

/-- `o₁` is `o₂` with `pre` in front of the history -/
structure Sim (pre : Array UInt8) (o₁ o₂ : Out) : Prop where
  hist : o₁.hist = pre ++ o₂.hist
  start : o₁.start = pre.size + o₂.start
  maxDist : o₁.maxDist = o₂.maxDist

theorem copy_sim {pre : Array UInt8} {o₁ o₂ o₁' : Out} {len dist : Nat} (s : Sim pre o₁ o₂)
    (h : o₁.copy len dist = some o₁') (hd : dist ≤ o₂.hist.size) :
    ∃ o₂', o₂.copy len dist = some o₂' ∧ Sim pre o₁' o₂' ∧ o₂.hist.size ≤ o₂'.hist.size := by
  obtain ⟨h0, _, rfl⟩ := copy_some h
  refine ⟨{ o₂ with hist := Out.copy.go dist len o₂.hist, maxDist := max o₂.maxDist dist }, ?_, ?_, ?_⟩
  · unfold Out.copy
    rw [if_neg (by omega)]
  · exact ⟨by simp only [s.hist]; exact copy_go_append pre dist len o₂.hist hd, s.start,
      by simp only [s.maxDist]⟩
  · simp only [copy_go_size]; omega

/-! ## `codes` -/

/-- one decoded element of a Huffman block -/
inductive Item where
  | lit (b : UInt8)
  | eob
  | copy (len d : Nat)

/-- decode the next element; does not involve the output -/
def nextItem (lit dist : Huff) (r : BitReader) : Option (Item × BitReader) := do
  let (sym, r) ← lit.decode r
  if sym < 256 then pure (.lit sym.toUInt8, r)
  else if sym == 256 then pure (.eob, r)
  else
    let i := sym - 257
    if i ≥ 29 then none else
    let (e, r) ← r.readBits lenExtra[i]!
    let len := lenBase[i]! + e
    let (ds, r) ← dist.decode r
    if ds ≥ 30 then none else
    let (e, r) ← r.readBits distExtra[ds]!
    pure (.copy len (distBase[ds]! + e), r)

theorem codes_succ (lit dist : Huff) (r : BitReader) (o : Out) (fuel : Nat) :
    codes lit dist r o (fuel + 1) =
      match nextItem lit dist r with
      | none => none
      | some (.lit b, r1) => codes lit dist r1 { o with hist := o.hist.push b } fuel
      | some (.eob, r1) => some (r1, o)
      | some (.copy len d, r1) => (o.copy len d).bind fun o => codes lit dist r1 o fuel := by
  rw [codes]; unfold nextItem
  cases hdec : lit.decode r with
  | none => simp
  | some p =>
    obtain ⟨sym, r1⟩ := p
    simp only [Option.bind_eq_bind, Option.bind_some]
    split
    · simp
    · split
      · simp
      · split
        · simp
        · cases h1 : r1.readBits lenExtra[sym - 257]! with
          | none => simp
          | some p1 =>
            simp only [Option.bind_some]
            cases h2 : dist.decode p1.snd with
            | none => simp
            | some p2 =>
              simp only [Option.bind_some]
              split
              · simp
              · cases h3 : p2.snd.readBits distExtra[p2.fst]! with
                | none => simp
                | some p3 => simp

/-- `maxDist` is a running maximum and the output array only grows -/
theorem codes_mono (lit dist : Huff) (fuel : Nat) : ∀ (r : BitReader) (o : Out) (r' : BitReader) (o' : Out),
    codes lit dist r o fuel = some (r', o') → o.maxDist ≤ o'.maxDist ∧ o.hist.size ≤ o'.hist.size := by
  induction fuel with
  | zero => intro r o r' o' h; simp [codes] at h
  | succ fuel ih =>
    intro r o r' o' h
    rw [codes_succ] at h
    split at h
    · simp at h
    · have := ih _ _ _ _ h
      simp only [Array.size_push] at this
      exact ⟨this.1, by omega⟩
    · simp only [Option.some.injEq, Prod.mk.injEq] at h
      obtain ⟨_, rfl⟩ := h
      exact ⟨Nat.le_refl _, Nat.le_refl _⟩
    · rename_i len d r1 _
      cases hc : o.copy len d with
      | none => simp [hc] at h
      | some oc =>
        simp only [hc, Option.bind_some] at h
        have := ih _ _ _ _ h
        obtain ⟨_, _, rfl⟩ := copy_some hc
        simp only [copy_go_size] at this
        exact ⟨by have := Nat.le_max_left o.maxDist d; omega, by omega⟩

theorem codes_sim (pre : Array UInt8) (lit dist : Huff) (B : Nat) (fuel : Nat) :
    ∀ (r : BitReader) (o₁ o₂ : Out) (r' : BitReader) (o₁' : Out), Sim pre o₁ o₂ →
      codes lit dist r o₁ fuel = some (r', o₁') → o₁'.maxDist ≤ B → B ≤ o₂.hist.size →
      ∃ o₂', codes lit dist r o₂ fuel = some (r', o₂') ∧ Sim pre o₁' o₂' ∧
        o₂.hist.size ≤ o₂'.hist.size := by
  induction fuel with
  | zero => intro r o₁ o₂ r' o₁' _ h; simp [codes] at h
  | succ fuel ih =>
    intro r o₁ o₂ r' o₁' s h hB hsz
    rw [codes_succ] at h ⊢
    split at h
    · simp at h
    · rename_i b r1 hi
      have s' : Sim pre { o₁ with hist := o₁.hist.push b } { o₂ with hist := o₂.hist.push b } :=
        ⟨by simp only [s.hist, Array.append_push], s.start, s.maxDist⟩
      obtain ⟨o₂', h1, h2, h3⟩ := ih _ _ _ _ _ s' h hB (by simp only [Array.size_push]; omega)
      simp only [Array.size_push] at h3
      exact ⟨o₂', h1, h2, by omega⟩
    · rename_i r1 hi
      simp only [Option.some.injEq, Prod.mk.injEq] at h
      obtain ⟨rfl, rfl⟩ := h
      exact ⟨o₂, rfl, s, Nat.le_refl _⟩
    · rename_i len d r1 hi
      cases hc : o₁.copy len d with
      | none => simp [hc] at h
      | some oc =>
        simp only [hc, Option.bind_some] at h
        have hm := (codes_mono _ _ _ _ _ _ _ h).1
        have hoc := (copy_some hc).2.2
        have hd : d ≤ o₂.hist.size := by
          have : d ≤ oc.maxDist := by rw [hoc]; exact Nat.le_max_right _ _
          omega
        obtain ⟨oc₂, hc₂, s', hg⟩ := copy_sim s hc hd
        obtain ⟨o₂', h1, h2, h3⟩ := ih _ _ _ _ _ s' h hB (by omega)
        exact ⟨o₂', by simp only [hc₂, Option.bind_some]; exact h1, h2, by omega⟩

/-! ## `blocks` -/

/-- the body of one block of type `typ` (after the 3 header bits) -/
def blockBody (typ : Nat) (r : BitReader) (o : Out) : Option (BitReader × Out) :=
  match typ with
  | 0 => do
    let r := r.align
    let (len, r) ← r.readBits 16
    let (nlen, r) ← r.readBits 16
    if len + nlen != 0xffff then none else
    if r.bitsLeft < len * 8 then none else
    let bytes := r.data.extract (r.pos / 8) (r.pos / 8 + len)
    pure ({ r with pos := r.pos + 8 * len }, { o with hist := o.hist ++ bytes })
  | 1 => codes fixedLit fixedDist r o (r.bitsLeft + 1)
  | 2 => do
    let (l, d, r) ← dynamic r
    codes l d r o (r.bitsLeft + 1)
  | _ => none

theorem blocks_succ (r : BitReader) (o : Out) (fuel : Nat) :
    blocks r o (fuel + 1) =
      if r.bitsLeft < 3 then some o else
        (r.readBits 1).bind fun x => (x.2.readBits 2).bind fun y =>
          (blockBody y.1 y.2 o).bind fun z => if x.1 == 1 then some z.2 else blocks z.1 z.2 fuel := by
  rw [blocks]; rfl

theorem blockBody_mono (typ : Nat) (r : BitReader) (o : Out) (r' : BitReader) (o' : Out)
    (h : blockBody typ r o = some (r', o')) : o.maxDist ≤ o'.maxDist ∧ o.hist.size ≤ o'.hist.size := by
  unfold blockBody at h
  split at h
  · simp only [Option.bind_eq_bind] at h
    cases h1 : r.align.readBits 16 with
    | none => simp [h1] at h
    | some p1 =>
      simp only [h1, Option.bind_some] at h
      cases h2 : p1.snd.readBits 16 with
      | none => simp [h2] at h
      | some p2 =>
        simp only [h2, Option.bind_some] at h
        split at h
        · simp at h
        · split at h
          · simp at h
          · simp only [pure, Option.some.injEq, Prod.mk.injEq] at h
            obtain ⟨_, rfl⟩ := h
            exact ⟨Nat.le_refl _, by simp⟩
  · exact codes_mono _ _ _ _ _ _ _ h
  · simp only [Option.bind_eq_bind] at h
    cases h1 : dynamic r with
    | none => simp [h1] at h
    | some p1 =>
      simp only [h1, Option.bind_some] at h
      exact codes_mono _ _ _ _ _ _ _ h
  · simp at h

theorem blockBody_sim (pre : Array UInt8) (B : Nat) (typ : Nat) (r : BitReader) (o₁ o₂ : Out)
    (r' : BitReader) (o₁' : Out) (s : Sim pre o₁ o₂)
    (h : blockBody typ r o₁ = some (r', o₁')) (hB : o₁'.maxDist ≤ B) (hsz : B ≤ o₂.hist.size) :
    ∃ o₂', blockBody typ r o₂ = some (r', o₂') ∧ Sim pre o₁' o₂' ∧ o₂.hist.size ≤ o₂'.hist.size := by
  unfold blockBody at h ⊢
  split at h
  · simp only [Option.bind_eq_bind] at h ⊢
    cases h1 : r.align.readBits 16 with
    | none => simp [h1] at h
    | some p1 =>
      simp only [h1, Option.bind_some] at h ⊢
      cases h2 : p1.snd.readBits 16 with
      | none => simp [h2] at h
      | some p2 =>
        simp only [h2, Option.bind_some] at h ⊢
        split at h
        · simp at h
        · rename_i hc1
          rw [if_neg hc1]
          split at h
          · simp at h
          · rename_i hc2
            rw [if_neg hc2]
            simp only [pure, Option.some.injEq, Prod.mk.injEq] at h
            obtain ⟨rfl, rfl⟩ := h
            exact ⟨_, rfl, ⟨by simp only [s.hist, Array.append_assoc], s.start, s.maxDist⟩, by simp⟩
  · exact codes_sim pre _ _ B _ _ _ _ _ _ s h hB hsz
  · simp only [Option.bind_eq_bind] at h ⊢
    cases h1 : dynamic r with
    | none => simp [h1] at h
    | some p1 =>
      simp only [h1, Option.bind_some] at h ⊢
      exact codes_sim pre _ _ B _ _ _ _ _ _ s h hB hsz
  · simp at h

theorem blocks_mono (fuel : Nat) : ∀ (r : BitReader) (o o' : Out),
    blocks r o fuel = some o' → o.maxDist ≤ o'.maxDist ∧ o.hist.size ≤ o'.hist.size := by
  induction fuel with
  | zero => intro r o o' h; simp [blocks] at h
  | succ fuel ih =>
    intro r o o' h
    rw [blocks_succ] at h
    split at h
    · simp only [Option.some.injEq] at h; subst h; exact ⟨Nat.le_refl _, Nat.le_refl _⟩
    · cases h1 : r.readBits 1 with
      | none => simp [h1] at h
      | some x =>
        simp only [h1, Option.bind_some] at h
        cases h2 : x.2.readBits 2 with
        | none => simp [h2] at h
        | some y =>
          simp only [h2, Option.bind_some] at h
          cases h3 : blockBody y.1 y.2 o with
          | none => simp [h3] at h
          | some z =>
            obtain ⟨rz, oz⟩ := z
            simp only [h3, Option.bind_some] at h
            have hb := blockBody_mono _ _ _ _ _ h3
            split at h
            · simp only [Option.some.injEq] at h; subst h; exact hb
            · have := ih _ _ _ h
              exact ⟨by omega, by omega⟩

theorem blocks_sim (pre : Array UInt8) (B : Nat) (fuel : Nat) : ∀ (r : BitReader) (o₁ o₂ o₁' : Out),
    Sim pre o₁ o₂ → blocks r o₁ fuel = some o₁' → o₁'.maxDist ≤ B → B ≤ o₂.hist.size →
    ∃ o₂', blocks r o₂ fuel = some o₂' ∧ Sim pre o₁' o₂' := by
  induction fuel with
  | zero => intro r o₁ o₂ o₁' _ h; simp [blocks] at h
  | succ fuel ih =>
    intro r o₁ o₂ o₁' s h hB hsz
    rw [blocks_succ] at h ⊢
    split at h
    · rename_i hc
      rw [if_pos hc]
      simp only [Option.some.injEq] at h; subst h
      exact ⟨o₂, rfl, s⟩
    · rename_i hc
      rw [if_neg hc]
      cases h1 : r.readBits 1 with
      | none => simp [h1] at h
      | some x =>
        simp only [h1, Option.bind_some] at h ⊢
        cases h2 : x.2.readBits 2 with
        | none => simp [h2] at h
        | some y =>
          simp only [h2, Option.bind_some] at h ⊢
          cases h3 : blockBody y.1 y.2 o₁ with
          | none => simp [h3] at h
          | some z =>
            obtain ⟨rz, oz⟩ := z
            simp only [h3, Option.bind_some] at h
            split at h
            · rename_i hf
              simp only [Option.some.injEq] at h; subst h
              obtain ⟨oz₂, hb, s', _⟩ := blockBody_sim pre B _ _ _ _ _ _ s h3 hB hsz
              exact ⟨oz₂, by simp only [hb, Option.bind_some, hf, if_true], s'⟩
            · rename_i hf
              have hm := (blocks_mono _ _ _ _ h).1
              obtain ⟨oz₂, hb, s', hg⟩ := blockBody_sim pre B _ _ _ _ _ _ s h3 (by omega) hsz
              obtain ⟨o₂', hr, s''⟩ := ih _ _ _ _ s' h hB (by omega)
              exact ⟨o₂', by simp only [hb, Option.bind_some, if_neg hf]; exact hr, s''⟩

/-! ## the other direction: a longer history never hurts -/

theorem copy_sim_ext {pre : Array UInt8} {o₁ o₂ o₂' : Out} {len dist : Nat} (s : Sim pre o₁ o₂)
    (h : o₂.copy len dist = some o₂') : ∃ o₁', o₁.copy len dist = some o₁' ∧ Sim pre o₁' o₂' := by
  obtain ⟨h0, hd, rfl⟩ := copy_some h
  refine ⟨{ o₁ with hist := Out.copy.go dist len o₁.hist, maxDist := max o₁.maxDist dist }, ?_, ?_⟩
  · unfold Out.copy
    rw [if_neg (by rw [s.hist, Array.size_append]; omega)]
  · exact ⟨by simp only [s.hist]; exact copy_go_append pre dist len o₂.hist hd, s.start,
      by simp only [s.maxDist]⟩

theorem codes_sim_ext (pre : Array UInt8) (lit dist : Huff) (fuel : Nat) :
    ∀ (r : BitReader) (o₁ o₂ : Out) (r' : BitReader) (o₂' : Out), Sim pre o₁ o₂ →
      codes lit dist r o₂ fuel = some (r', o₂') →
      ∃ o₁', codes lit dist r o₁ fuel = some (r', o₁') ∧ Sim pre o₁' o₂' := by
  induction fuel with
  | zero => intro r o₁ o₂ r' o₂' _ h; simp [codes] at h
  | succ fuel ih =>
    intro r o₁ o₂ r' o₂' s h
    rw [codes_succ] at h ⊢
    split at h
    · simp at h
    · rename_i b r1 hi
      have s' : Sim pre { o₁ with hist := o₁.hist.push b } { o₂ with hist := o₂.hist.push b } :=
        ⟨by simp only [s.hist, Array.append_push], s.start, s.maxDist⟩
      exact ih _ _ _ _ _ s' h
    · rename_i r1 hi
      simp only [Option.some.injEq, Prod.mk.injEq] at h
      obtain ⟨rfl, rfl⟩ := h
      exact ⟨o₁, rfl, s⟩
    · rename_i len d r1 hi
      cases hc : o₂.copy len d with
      | none => simp [hc] at h
      | some oc =>
        simp only [hc, Option.bind_some] at h
        obtain ⟨oc₁, hc₁, s'⟩ := copy_sim_ext s hc
        obtain ⟨o₁', h1, h2⟩ := ih _ _ _ _ _ s' h
        exact ⟨o₁', by simp only [hc₁, Option.bind_some]; exact h1, h2⟩

theorem blockBody_sim_ext (pre : Array UInt8) (typ : Nat) (r : BitReader) (o₁ o₂ : Out)
    (r' : BitReader) (o₂' : Out) (s : Sim pre o₁ o₂) (h : blockBody typ r o₂ = some (r', o₂')) :
    ∃ o₁', blockBody typ r o₁ = some (r', o₁') ∧ Sim pre o₁' o₂' := by
  unfold blockBody at h ⊢
  split at h
  · simp only [Option.bind_eq_bind] at h ⊢
    cases h1 : r.align.readBits 16 with
    | none => simp [h1] at h
    | some p1 =>
      simp only [h1, Option.bind_some] at h ⊢
      cases h2 : p1.snd.readBits 16 with
      | none => simp [h2] at h
      | some p2 =>
        simp only [h2, Option.bind_some] at h ⊢
        split at h
        · simp at h
        · rename_i hc1
          rw [if_neg hc1]
          split at h
          · simp at h
          · rename_i hc2
            rw [if_neg hc2]
            simp only [pure, Option.some.injEq, Prod.mk.injEq] at h
            obtain ⟨rfl, rfl⟩ := h
            exact ⟨_, rfl, ⟨by simp only [s.hist, Array.append_assoc], s.start, s.maxDist⟩⟩
  · exact codes_sim_ext pre _ _ _ _ _ _ _ _ s h
  · simp only [Option.bind_eq_bind] at h ⊢
    cases h1 : dynamic r with
    | none => simp [h1] at h
    | some p1 =>
      simp only [h1, Option.bind_some] at h ⊢
      exact codes_sim_ext pre _ _ _ _ _ _ _ _ s h
  · simp at h

theorem blocks_sim_ext (pre : Array UInt8) (fuel : Nat) : ∀ (r : BitReader) (o₁ o₂ o₂' : Out),
    Sim pre o₁ o₂ → blocks r o₂ fuel = some o₂' → ∃ o₁', blocks r o₁ fuel = some o₁' ∧ Sim pre o₁' o₂' := by
  induction fuel with
  | zero => intro r o₁ o₂ o₂' _ h; simp [blocks] at h
  | succ fuel ih =>
    intro r o₁ o₂ o₂' s h
    rw [blocks_succ] at h ⊢
    split at h
    · rename_i hc
      rw [if_pos hc]
      simp only [Option.some.injEq] at h; subst h
      exact ⟨o₁, rfl, s⟩
    · rename_i hc
      rw [if_neg hc]
      cases h1 : r.readBits 1 with
      | none => simp [h1] at h
      | some x =>
        simp only [h1, Option.bind_some] at h ⊢
        cases h2 : x.2.readBits 2 with
        | none => simp [h2] at h
        | some y =>
          simp only [h2, Option.bind_some] at h ⊢
          cases h3 : blockBody y.1 y.2 o₂ with
          | none => simp [h3] at h
          | some z =>
            obtain ⟨rz, oz⟩ := z
            simp only [h3, Option.bind_some] at h
            obtain ⟨oz₁, hb, s'⟩ := blockBody_sim_ext pre _ _ _ _ _ _ s h3
            split at h
            · rename_i hf
              simp only [Option.some.injEq] at h; subst h
              exact ⟨oz₁, by simp only [hb, Option.bind_some, hf, if_true], s'⟩
            · rename_i hf
              obtain ⟨o₁', hr, s''⟩ := ih _ _ _ _ s' h
              exact ⟨o₁', by simp only [hb, Option.bind_some, if_neg hf]; exact hr, s''⟩

/-! ## `run` -/

/-- **A history prefix beyond the largest distance is irrelevant.**  If the stream inflates against
`pre ++ h` and never reaches further back than `h.size`, it inflates against `h` alone, to the same
output with the same largest distance. -/
theorem run_drop_prefix (pre h data out : Array UInt8) (d : Nat)
    (hr : run (pre ++ h) data = some (out, d)) (hd : d ≤ h.size) : run h data = some (out, d) := by
  unfold run at hr ⊢
  cases hb : blocks { data := data, pos := 0 } { hist := pre ++ h, start := (pre ++ h).size, maxDist := 0 }
      (data.size + 2) with
  | none => rw [hb] at hr; simp at hr
  | some o₁ =>
    rw [hb] at hr
    simp only [Option.bind_eq_bind, Option.bind_some, pure, Option.some.injEq, Prod.mk.injEq] at hr
    obtain ⟨ho, hm⟩ := hr
    have s : Sim pre { hist := pre ++ h, start := (pre ++ h).size, maxDist := 0 }
        { hist := h, start := h.size, maxDist := 0 } := ⟨rfl, by simp, rfl⟩
    obtain ⟨o₂, hb₂, s'⟩ := blocks_sim pre h.size _ _ _ _ _ s hb (by omega) (Nat.le_refl _)
    rw [hb₂]
    simp only [Option.bind_eq_bind, Option.bind_some, pure, Option.some.injEq, Prod.mk.injEq]
    refine ⟨?_, by rw [← s'.maxDist]; exact hm⟩
    rw [← ho, s'.hist, s'.start, Array.extract_append]
    simp

/-- **More history never hurts.**  A stream that inflates against `h` inflates against any longer
history `pre ++ h`, to the same output with the same largest distance. -/
theorem run_add_prefix (pre h data out : Array UInt8) (d : Nat)
    (hr : run h data = some (out, d)) : run (pre ++ h) data = some (out, d) := by
  unfold run at hr ⊢
  cases hb : blocks { data := data, pos := 0 } { hist := h, start := h.size, maxDist := 0 }
      (data.size + 2) with
  | none => rw [hb] at hr; simp at hr
  | some o₂ =>
    rw [hb] at hr
    simp only [Option.bind_eq_bind, Option.bind_some, pure, Option.some.injEq, Prod.mk.injEq] at hr
    obtain ⟨ho, hm⟩ := hr
    have s : Sim pre { hist := pre ++ h, start := (pre ++ h).size, maxDist := 0 }
        { hist := h, start := h.size, maxDist := 0 } := ⟨rfl, by simp, rfl⟩
    obtain ⟨o₁, hb₁, s'⟩ := blocks_sim_ext pre _ _ _ _ _ s hb
    rw [hb₁]
    simp only [Option.bind_eq_bind, Option.bind_some, pure, Option.some.injEq, Prod.mk.injEq]
    refine ⟨?_, by rw [s'.maxDist]; exact hm⟩
    rw [← ho, s'.hist, s'.start, Array.extract_append]
    simp

end Spec.Inflate
