import Gws.Lemmas.Deque.Exec
/-!
# Deque: the internal steps preserve the invariant `Inv`
-/

namespace Deque

theorem firstOr_congr {l : List Nat} (h : l ≠ []) (x y : Nat) : firstOr l x = firstOr l y := by
  cases l with
  | nil => exact absurd rfl h
  | cons a l => simp

theorem lastOr_congr {l : List Nat} (h : l ≠ []) (x y : Nat) : lastOr l x = lastOr l y := by
  cases l with
  | nil => exact absurd rfl h
  | cons a l => simp

theorem firstOr_mem_or (l : List Nat) (n : Nat) : firstOr l n = n ∧ l = [] ∨ firstOr l n ∈ l := by
  cases l <;> simp

/-- redirect the `next` of the last slot of a segment -/
theorem chain_set_last {ld ld' : Nat → Elem} {p n n' : Nat} {l : List Nat} (hnd : l.Nodup)
    (hc : Chain ld p l n)
    (hsame : ∀ b ∈ l, b ≠ lastOr l p → ld' b = ld b)
    (hlast : l ≠ [] → (ld' (lastOr l p)).addr = (ld (lastOr l p)).addr ∧
      (ld' (lastOr l p)).prev = (ld (lastOr l p)).prev ∧ (ld' (lastOr l p)).next = n') :
    Chain ld' p l n' := by
  by_cases hl : l = []
  · subst hl; simp
  · obtain ⟨l', x, rfl⟩ := eq_snoc_of_ne_nil hl
    simp only [lastOr_append, lastOr_cons, lastOr_nil] at hsame hlast
    have hl2 := hlast (by simp)
    rw [chain_snoc] at hc ⊢
    refine ⟨?_, by rw [hl2.1, hc.2.1], by rw [hl2.2.1, hc.2.2.1], hl2.2.2⟩
    refine (chain_congr_eq ?_).mpr hc.1
    intro b hb
    exact hsame b (by simp [hb]) (by grind)

/-- redirect the `prev` of the first slot of a segment -/
theorem chain_set_first {ld ld' : Nat → Elem} {p p' n : Nat} {l : List Nat} (hnd : l.Nodup)
    (hc : Chain ld p l n)
    (hsame : ∀ b ∈ l, b ≠ firstOr l n → ld' b = ld b)
    (hfirst : l ≠ [] → (ld' (firstOr l n)).addr = (ld (firstOr l n)).addr ∧
      (ld' (firstOr l n)).next = (ld (firstOr l n)).next ∧ (ld' (firstOr l n)).prev = p') :
    Chain ld' p' l n := by
  cases l with
  | nil => simp
  | cons y r =>
    simp only [firstOr_cons] at hsame hfirst
    have hf := hfirst (by simp)
    simp only [chain_cons] at hc ⊢
    refine ⟨by rw [hf.1, hc.1], hf.2.2, by rw [hf.2.1, hc.2.2.1], ?_⟩
    refine (chain_congr_eq ?_).mpr hc.2.2.2
    intro b hb
    exact hsame b (by simp [hb]) (by grind)

namespace Inv

variable {d : Deque} {det as : List Nat}

theorem addr_eq (h : Inv d det as) {a : Nat} (ha : a ∈ as) : (d.load a).addr = a :=
  chain_addr h.links a ha

theorem elements_ne_nil (h : Inv d det as) {a : Nat} (ha : a ∈ det ++ as ++ d.stack) : d.elements ≠ [] := by
  have := (h.range a ha).2
  intro he; simp [he] at this

/-- scalar fields other than head/tail do not matter -/
theorem of_eq {d' : Deque} (h : Inv d det as) (he : d'.elements = d.elements) (ht : d'.template = d.template)
    (hs : d'.stack = d.stack) (hh : d'.head = d.head) (htl : d'.tail = d.tail) : Inv d' det as := by
  have hl : d'.load = d.load := by funext b; simp [load, he, ht]
  exact ⟨ht ▸ h.tmpl, hs ▸ h.nodup, by rw [hs, he]; exact h.range, by rw [hs, he]; exact h.cover,
    hh ▸ h.head_eq, htl ▸ h.tail_eq, hl ▸ h.links, by rw [hs, hl]; exact h.free⟩

end Inv

/-! ### getElement -/

theorem getElement_inv {d : Deque} {det as : List Nat} (h : Inv d det as) :
    ∃ d' a, d.getElement = some (d', a) ∧ Inv d' (a :: det) as ∧ d'.length = d.length ∧
      d'.load a = { addr := a } ∧ (∀ b, b ≠ a → d'.load b = d.load b) := by
  by_cases he : d.elements = []
  · have hnil : det ++ as ++ d.stack = [] := by
      apply List.eq_nil_iff_forall_not_mem.mpr
      intro a ha
      have := (h.range a ha).2
      simp [he] at this
    simp only [List.append_eq_nil_iff] at hnil
    obtain ⟨⟨hdet, has⟩, hs⟩ := hnil
    subst hdet has
    obtain ⟨d', hg, hh, ht, hl, htm, hst, hsz, hld⟩ := getElement_zero he hs
    have h1 : d.load 1 = {} := by rw [load_of_ge (by simp [he]), h.tmpl]
    refine ⟨d', 1, hg, ?_, hl, by simp [hld, h1], fun b hb => by simp [hld, hb]⟩
    exact ⟨htm ▸ h.tmpl, by simp [hst], by simp [hst, hsz], by simp [hst, hsz],
      by simpa [hh] using h.head_eq, by simpa [ht] using h.tail_eq, by simp, by simp [hst]⟩
  · cases hs : d.stack with
    | nil =>
      obtain ⟨d', hg, hh, ht, hl, htm, hst, hsz, hld⟩ := getElement_grow he hs
      have hlen : 0 < d.elements.length := List.length_pos_iff.mpr he
      have h1 : d.load d.elements.length = {} := by rw [load_of_ge (Nat.le_refl _), h.tmpl]
      have hfresh : d.elements.length ∉ det ++ as := by
        intro hm
        have := (h.range d.elements.length (List.mem_append_left _ hm)).2
        omega
      have hr := h.range; have hc := h.cover; have hn := h.nodup
      simp only [hs, List.append_nil] at hr hc hn
      refine ⟨d', _, hg, ?_, hl, by simp [hld, h1], fun b hb => by simp [hld, hb]⟩
      refine ⟨htm ▸ h.tmpl, ?_, ?_, ?_, hh ▸ h.head_eq, ht ▸ h.tail_eq, ?_, by simp [hst]⟩
      · simp only [hst, List.append_nil, List.cons_append]
        exact List.nodup_cons.mpr ⟨hfresh, hn⟩
      · simp only [hst, List.append_nil, List.cons_append, hsz, List.mem_cons]
        rintro a (rfl | ha)
        · omega
        · have := hr a ha; omega
      · simp only [hst, List.append_nil, List.cons_append, hsz, List.length_cons]
        omega
      · refine (chain_congr_eq ?_).mpr h.links
        intro b hb
        have : b ≠ d.elements.length := by rintro rfl; exact hfresh (by simp [hb])
        simp [hld, this]
    | cons x rest =>
      have hx := h.range x (by simp [hs])
      obtain ⟨d', hg, hh, ht, hl, htm, hst, hsz, hld⟩ := getElement_pop hs hx.1 hx.2
      have h1 : d.load x = {} := h.free x (by simp [hs])
      have hn := h.nodup; have hr := h.range; have hc := h.cover; have hf := h.free
      rw [hs] at hn hr hc hf
      refine ⟨d', _, hg, ?_, hl, by simp [hld, h1], fun b hb => by simp [hld, hb]⟩
      have hperm : ((x :: det) ++ as ++ rest).Perm (det ++ as ++ x :: rest) := by
        simpa using (List.perm_middle (l₁ := det ++ as) (l₂ := rest) (a := x)).symm
      refine ⟨htm ▸ h.tmpl, ?_, ?_, ?_, hh ▸ h.head_eq, ht ▸ h.tail_eq, ?_, ?_⟩
      · rw [hst]; exact hperm.nodup_iff.mpr hn
      · rw [hst, hsz]; intro a ha; exact hr a (hperm.mem_iff.mp ha)
      · rw [hst, hsz, hperm.length_eq]; exact hc
      · refine (chain_congr_eq ?_).mpr h.links
        intro b hb
        have : b ≠ x := by grind
        simp [hld, this]
      · rw [hst]
        intro b hb
        have : b ≠ x := by grind
        simp [hld, this, hf b (by simp [hb])]

/-! ### bookkeeping of the slot partition -/

theorem perm_detach (det l r st : List Nat) (a : Nat) :
    ((a :: det) ++ (l ++ r) ++ st).Perm (det ++ (l ++ a :: r) ++ st) := by
  simpa [List.append_assoc] using (List.perm_middle (l₁ := det ++ l) (l₂ := r ++ st) (a := a)).symm

theorem perm_free (det as st : List Nat) (a : Nat) :
    (det ++ as ++ a :: st).Perm ((a :: det) ++ as ++ st) := by
  simpa [List.append_assoc] using (List.perm_middle (l₁ := det ++ as) (l₂ := st) (a := a))

theorem slots_of_perm {d d' : Deque} {L L' : List Nat} (hp : L'.Perm L)
    (hsz : d'.elements.length = d.elements.length)
    (hn : L.Nodup) (hr : ∀ a ∈ L, 0 < a ∧ a < d.elements.length) (hc : L.length = d.elements.length - 1) :
    L'.Nodup ∧ (∀ a ∈ L', 0 < a ∧ a < d'.elements.length) ∧ L'.length = d'.elements.length - 1 :=
  ⟨hp.nodup_iff.mpr hn, fun a ha => hsz ▸ hr a (hp.mem_iff.mp ha), by rw [hp.length_eq, hsz]; exact hc⟩

/-! ### writes to a detached slot, putElement, autoReset -/

theorem store_det_inv {d : Deque} {det as : List Nat} {a : Nat} (h : Inv d det as) (ha : a ∈ det) (e : Elem) :
    Inv (d.store a e) det as := by
  have hn := h.nodup
  refine ⟨by simpa using h.tmpl, by simpa using h.nodup, by simpa using h.range, by simpa using h.cover,
    by simpa using h.head_eq, by simpa using h.tail_eq, ?_, ?_⟩
  · refine (chain_congr_eq ?_).mpr h.links
    intro b hb
    exact load_store_ne (by grind)
  · intro b hb
    simp only [store_stack] at hb
    rw [load_store_ne (by grind)]
    exact h.free b hb

theorem putElement_inv {d : Deque} {det as : List Nat} {a : Nat} (h : Inv d (a :: det) as)
    (haddr : (d.load a).addr = a) :
    Inv (d.putElement a) det as ∧ (d.putElement a).length = d.length ∧
      (∀ b, b ≠ a → (d.putElement a).load b = d.load b) ∧ a ∈ (d.putElement a).stack := by
  have hal := h.range a (by simp)
  obtain ⟨hh, ht, hl, htm, hst, hsz, hld⟩ := putElement_spec hal.2
  rw [haddr] at hst
  have hn := h.nodup
  obtain ⟨s1, s2, s3⟩ := slots_of_perm (d' := d.putElement a) (perm_free det as d.stack a) hsz
    h.nodup h.range h.cover
  refine ⟨⟨htm ▸ h.tmpl, hst ▸ s1, hst ▸ s2, hst ▸ s3, hh ▸ h.head_eq, ht ▸ h.tail_eq, ?_, ?_⟩, hl,
    fun b hb => by simp [hld, hb], by simp [hst]⟩
  · refine (chain_congr_eq ?_).mpr h.links
    intro b hb
    have : b ≠ a := by grind
    simp [hld, this]
  · rw [hst]
    intro b hb
    by_cases hba : b = a
    · simp [hld, hba, h.tmpl]
    · simp only [hld, hba, if_false]
      exact h.free b (by grind)

theorem autoReset_inv {d : Deque} (htm : d.template = {}) :
    Inv d.autoReset [] [] ∧ d.autoReset.length = 0 := by
  obtain ⟨hh, ht, hl, htm', hst, hsz⟩ := autoReset_spec d
  refine ⟨⟨htm' ▸ htm, by simp [hst], by simp [hst], ?_, by simp [hh], by simp [ht], by simp, by simp [hst]⟩, hl⟩
  simp only [hst, hsz, List.append_nil, List.length_nil]
  omega

/-! ### doPushBack / doPushFront -/

theorem doPushBack_inv {d : Deque} {det as : List Nat} {a : Nat} (h : Inv d (a :: det) as)
    (h1 : (d.load a).addr = a) (h2 : (d.load a).prev = 0) (h3 : (d.load a).next = 0) :
    ∃ d', d.doPushBack a = some d' ∧ Inv d' det (as ++ [a]) ∧ d'.length = d.length + 1 ∧
      ∀ b, (d'.load b).value = (d.load b).value := by
  have hn := h.nodup
  have hal := h.range a (by simp)
  have hp : ((a :: det) ++ (as ++ []) ++ d.stack).Perm (det ++ (as ++ a :: []) ++ d.stack) :=
    perm_detach det as [] d.stack a
  rw [List.append_nil] at hp
  by_cases has : as = []
  · subst has
    have ht : d.tail = 0 := by simpa using h.tail_eq
    obtain ⟨d', hpb, hh', ht', hl', ⟨hst, htm, hsz⟩, hld⟩ := doPushBack_empty (a := a) ht
    obtain ⟨s1, s2, s3⟩ := slots_of_perm (d' := d') hp.symm hsz h.nodup h.range h.cover
    refine ⟨d', hpb, ⟨htm ▸ h.tmpl, hst ▸ s1, hst ▸ s2, hst ▸ s3, by simp [hh', h1], by simp [ht', h1], ?_, ?_⟩,
      hl', fun b => by rw [hld]⟩
    · simp [hld, h1, h2, h3]
    · rw [hst]; intro b hb; rw [hld]; exact h.free b hb
  · have htm := lastOr_mem (p := 0) has
    have htr := h.range (lastOr as 0) (by simp [htm])
    have hta : lastOr as 0 ≠ a := by grind
    obtain ⟨d', hpb, hh', ht', hl', ⟨hst, htm', hsz⟩, hld⟩ :=
      doPushBack_nonempty (a := a) h.tail_eq (by omega) htr.2 hal.2 hta
    obtain ⟨s1, s2, s3⟩ := slots_of_perm (d' := d') hp.symm hsz h.nodup h.range h.cover
    have hvals : ∀ b, (d'.load b).value = (d.load b).value := by
      intro b
      by_cases hb1 : b = a
      · simp [hld, hb1]
      · by_cases hb2 : b = lastOr as 0
        · simp [hld, hb2, hta]
        · simp [hld, hb1, hb2]
    refine ⟨d', hpb, ⟨htm' ▸ h.tmpl, hst ▸ s1, hst ▸ s2, hst ▸ s3, ?_, by simp [ht', h1], ?_, ?_⟩, hl', hvals⟩
    · rw [hh', h.head_eq]; simp only [firstOr_append]; exact firstOr_congr has _ _
    · rw [chain_snoc]
      refine ⟨?_, by simp [hld, h1], by simp [hld, h.addr_eq htm], by simp [hld, h3]⟩
      refine chain_set_last (by grind) h.links ?_ ?_
      · intro b hb hbt
        have : b ≠ a := by grind
        simp [hld, this, hbt]
      · intro _
        simp [hld, hta, h1]
    · rw [hst]; intro b hb
      have hb1 : b ≠ a := by grind
      have hb2 : b ≠ lastOr as 0 := by grind
      simp only [hld, hb1, hb2, if_false]
      exact h.free b hb

theorem doPushFront_inv {d : Deque} {det as : List Nat} {a : Nat} (h : Inv d (a :: det) as)
    (h1 : (d.load a).addr = a) (h2 : (d.load a).prev = 0) (h3 : (d.load a).next = 0) :
    ∃ d', d.doPushFront a = some d' ∧ Inv d' det (a :: as) ∧ d'.length = d.length + 1 ∧
      ∀ b, (d'.load b).value = (d.load b).value := by
  have hn := h.nodup
  have hal := h.range a (by simp)
  have hp : ((a :: det) ++ ([] ++ as) ++ d.stack).Perm (det ++ ([] ++ a :: as) ++ d.stack) :=
    perm_detach det [] as d.stack a
  rw [List.nil_append, List.nil_append] at hp
  by_cases has : as = []
  · subst has
    have ht : d.head = 0 := by simpa using h.head_eq
    obtain ⟨d', hpb, hh', ht', hl', ⟨hst, htm, hsz⟩, hld⟩ := doPushFront_empty (a := a) ht
    obtain ⟨s1, s2, s3⟩ := slots_of_perm (d' := d') hp.symm hsz h.nodup h.range h.cover
    refine ⟨d', hpb, ⟨htm ▸ h.tmpl, hst ▸ s1, hst ▸ s2, hst ▸ s3, by simp [hh', h1], by simp [ht', h1], ?_, ?_⟩,
      hl', fun b => by rw [hld]⟩
    · simp [hld, h1, h2, h3]
    · rw [hst]; intro b hb; rw [hld]; exact h.free b hb
  · have htm := firstOr_mem (n := 0) has
    have htr := h.range (firstOr as 0) (by simp [htm])
    have hta : firstOr as 0 ≠ a := by grind
    obtain ⟨d', hpb, hh', ht', hl', ⟨hst, htm', hsz⟩, hld⟩ :=
      doPushFront_nonempty (a := a) h.head_eq (by omega) htr.2 hal.2 hta
    obtain ⟨s1, s2, s3⟩ := slots_of_perm (d' := d') hp.symm hsz h.nodup h.range h.cover
    have hvals : ∀ b, (d'.load b).value = (d.load b).value := by
      intro b
      by_cases hb1 : b = a
      · simp [hld, hb1]
      · by_cases hb2 : b = firstOr as 0
        · simp [hld, hb2, hta]
        · simp [hld, hb1, hb2]
    refine ⟨d', hpb, ⟨htm' ▸ h.tmpl, hst ▸ s1, hst ▸ s2, hst ▸ s3, by simp [hh', h1], ?_, ?_, ?_⟩, hl', hvals⟩
    · rw [ht', h.tail_eq]; simp only [lastOr_cons]; exact lastOr_congr has _ _
    · rw [chain_cons]
      refine ⟨by simp [hld, h1], by simp [hld, h2], by simp [hld, h.addr_eq htm], ?_⟩
      refine chain_set_first (by grind) h.links ?_ ?_
      · intro b hb hbt
        have : b ≠ a := by grind
        simp [hld, this, hbt]
      · intro _
        simp [hld, hta, h1]
    · rw [hst]; intro b hb
      have hb1 : b ≠ a := by grind
      have hb2 : b ≠ firstOr as 0 := by grind
      simp only [hld, hb1, hb2, if_false]
      exact h.free b hb

/-! ### doRemove -/

theorem doRemove_inv {d : Deque} {det l r : List Nat} {a : Nat} (h : Inv d det (l ++ a :: r)) :
    ∃ d', d.doRemove a = some d' ∧ Inv d' (a :: det) (l ++ r) ∧ d'.length = d.length - 1 ∧
      d'.load a = d.load a ∧ ∀ b, (d'.load b).value = (d.load b).value := by
  obtain ⟨hcl, haddr, hprev, hnext, hcr⟩ := (chain_mid _ _ _ _ _ _).mp h.links
  have hn := h.nodup
  have hal := h.range a (by simp)
  have hP := lastOr_mem_or l 0
  have hN := firstOr_mem_or r 0
  have hPr : lastOr l 0 ≠ 0 → lastOr l 0 ∈ l := by
    intro h0; rcases hP with ⟨h0', _⟩ | hm
    · exact absurd h0' h0
    · exact hm
  have hNr : firstOr r 0 ≠ 0 → firstOr r 0 ∈ r := by
    intro h0; rcases hN with ⟨h0', _⟩ | hm
    · exact absurd h0' h0
    · exact hm
  have hPl : lastOr l 0 < d.elements.length := by
    rcases hP with ⟨h0, _⟩ | hm
    · rw [h0]; omega
    · exact (h.range _ (by simp [hm])).2
  have hNl : firstOr r 0 < d.elements.length := by
    rcases hN with ⟨h0, _⟩ | hm
    · rw [h0]; omega
    · exact (h.range _ (by simp [hm])).2
  have hPN : lastOr l 0 ≠ 0 → lastOr l 0 ≠ firstOr r 0 := by
    intro h0 heq
    have h1 := hPr h0
    have h2 := hNr (heq ▸ h0)
    rw [← heq] at h2
    grind
  have hPa : lastOr l 0 ≠ a := by
    intro heq
    rcases hP with ⟨h0, _⟩ | hm
    · omega
    · grind
  have hNa : firstOr r 0 ≠ a := by
    intro heq
    rcases hN with ⟨h0, _⟩ | hm
    · omega
    · grind
  have hPaddr : lastOr l 0 ≠ 0 → (d.load (lastOr l 0)).addr = lastOr l 0 := fun h0 =>
    h.addr_eq (by simp [hPr h0])
  have hNaddr : firstOr r 0 ≠ 0 → (d.load (firstOr r 0)).addr = firstOr r 0 := fun h0 =>
    h.addr_eq (by simp [hNr h0])
  have hlpos : l ≠ [] → lastOr l 0 ≠ 0 := fun hl => by
    have := h.range _ (by simp [lastOr_mem (p := 0) hl] : lastOr l 0 ∈ det ++ (l ++ a :: r) ++ d.stack); omega
  have hrpos : r ≠ [] → firstOr r 0 ≠ 0 := fun hr => by
    have := h.range _ (by simp [firstOr_mem (n := 0) hr] : firstOr r 0 ∈ det ++ (l ++ a :: r) ++ d.stack); omega
  obtain ⟨d', hrm, hlen, ⟨hst, htm, hsz⟩, hhead, htail, hld⟩ := doRemove_spec hprev hnext hPl hNl hPN
  obtain ⟨s1, s2, s3⟩ := slots_of_perm (d' := d') (perm_detach det l r d.stack a) hsz h.nodup h.range h.cover
  have hlda : d'.load a = d.load a := by
    rw [hld]
    have e1 : ¬ (a = firstOr r 0 ∧ firstOr r 0 ≠ 0) := fun hh => hNa hh.1.symm
    have e2 : ¬ (a = lastOr l 0 ∧ lastOr l 0 ≠ 0) := fun hh => hPa hh.1.symm
    simp only [e1, e2, if_false]
  have hvals : ∀ b, (d'.load b).value = (d.load b).value := by
    intro b
    rw [hld]
    split
    · rename_i hb; rw [hb.1]
    · split
      · rename_i hb; rw [hb.1]
      · rfl
  -- slots away from both neighbours are untouched
  have hsame : ∀ b, b ≠ firstOr r 0 → b ≠ lastOr l 0 → d'.load b = d.load b := by
    intro b hb1 hb2
    rw [hld]; simp [hb1, hb2]
  refine ⟨d', hrm, ⟨htm ▸ h.tmpl, hst ▸ s1, hst ▸ s2, hst ▸ s3, ?_, ?_, ?_, ?_⟩, hlen, hlda, hvals⟩
  · -- head
    rw [hhead, firstOr_append]
    by_cases hl : l = []
    · subst hl
      by_cases hN0 : firstOr r 0 = 0
      · simp [hN0]
      · simp [hN0, hNaddr hN0]
    · simp only [hlpos hl, if_false, h.head_eq, firstOr_append]
      exact firstOr_congr hl _ _
  · -- tail
    rw [htail, lastOr_append]
    by_cases hr : r = []
    · subst hr
      by_cases hP0 : lastOr l 0 = 0
      · simp [hP0]
      · simp [hP0, hPaddr hP0]
    · simp only [hrpos hr, if_false, h.tail_eq, lastOr_append, lastOr_cons]
      exact lastOr_congr hr _ _
  · -- links
    rw [chain_append]
    constructor
    · refine chain_set_last (by grind) hcl ?_ ?_
      · intro b hb hbt
        refine hsame b ?_ hbt
        intro heq
        have := hNr (by have := h.range b (by simp [hb]); omega)
        grind
      · intro hl
        have h0 := hlpos hl
        have e1 : ¬ (lastOr l 0 = firstOr r 0 ∧ firstOr r 0 ≠ 0) := fun hh => hPN h0 hh.1
        rw [hld]
        simp only [e1, if_false, h0, ne_eq, not_false_eq_true, and_self, if_true]
        by_cases hN0 : firstOr r 0 = 0
        · simp [hN0]
        · simp [hN0, hNaddr hN0]
    · refine chain_set_first (by grind) hcr ?_ ?_
      · intro b hb hbt
        refine hsame b hbt ?_
        intro heq
        have := hPr (by have := h.range b (by simp [hb]); omega)
        grind
      · intro hr
        have h0 := hrpos hr
        rw [hld]
        simp only [h0, ne_eq, not_false_eq_true, and_self, if_true]
        by_cases hP0 : lastOr l 0 = 0
        · simp [hP0]
        · simp [hP0, hPaddr hP0]
  · -- free slots
    rw [hst]
    intro b hb
    have hbr := h.range b (by simp [hb])
    rw [hsame b ?_ ?_]
    · exact h.free b hb
    · intro heq
      have := hNr (by omega)
      grind
    · intro heq
      have := hPr (by omega)
      grind

/-! ### linking a fresh slot next to a live one -/

theorem linkAfter_inv {d : Deque} {det l r : List Nat} {e1 m v : Nat} (h : Inv d (e1 :: det) (l ++ m :: r))
    (he : d.load e1 = { addr := e1 }) :
    ∃ d', d.linkAfter e1 v m = some (d', e1) ∧ Inv d' det (l ++ m :: e1 :: r) ∧ d'.length = d.length ∧
      (d'.load e1).value = v ∧ ∀ b, b ≠ e1 → (d'.load b).value = (d.load b).value := by
  obtain ⟨hcl, haddr, hprev, hnext, hcr⟩ := (chain_mid _ _ _ _ _ _).mp h.links
  have hn := h.nodup
  have hml := h.range m (by simp)
  have hel := h.range e1 (by simp)
  have hem : e1 ≠ m := by grind
  have hN := firstOr_mem_or r 0
  have hNr : firstOr r 0 ≠ 0 → firstOr r 0 ∈ r := by
    intro h0; rcases hN with ⟨h0', _⟩ | hm
    · exact absurd h0' h0
    · exact hm
  have hNl : firstOr r 0 < d.elements.length := by
    rcases hN with ⟨h0, _⟩ | hm
    · rw [h0]; omega
    · exact (h.range _ (by simp [hm])).2
  have hNe : firstOr r 0 ≠ e1 := by
    intro heq
    rcases hN with ⟨h0, _⟩ | hm
    · omega
    · grind
  have hNm : firstOr r 0 ≠ m := by
    intro heq
    rcases hN with ⟨h0, _⟩ | hm
    · omega
    · grind
  have hrpos : r ≠ [] → firstOr r 0 ≠ 0 := fun hr => by
    have := h.range _ (by simp [firstOr_mem (n := 0) hr] : firstOr r 0 ∈ (e1 :: det) ++ (l ++ m :: r) ++ d.stack)
    omega
  obtain ⟨d', hlk, hlen, ⟨hst, htm, hsz⟩, hhead, htail, hld⟩ :=
    linkAfter_spec (v := v) (by omega) hml.2 hel.2 hem hnext hNl hNe hNm
  have hp : ((e1 :: det) ++ (l ++ m :: r) ++ d.stack).Perm (det ++ (l ++ m :: e1 :: r) ++ d.stack) := by
    simpa [List.append_assoc] using perm_detach det (l ++ [m]) r d.stack e1
  obtain ⟨s1, s2, s3⟩ := slots_of_perm (d' := d') hp.symm hsz h.nodup h.range h.cover
  have hsame : ∀ b, b ≠ m → b ≠ firstOr r 0 → b ≠ e1 → d'.load b = d.load b := by
    intro b hb1 hb2 hb3
    rw [hld]; simp [hb1, hb2, hb3]
  have hvals : ∀ b, b ≠ e1 → (d'.load b).value = (d.load b).value := by
    intro b hb
    rw [hld]
    split
    · rename_i hb; rw [hb]
    · split
      · rename_i hb; rw [hb.1]
      · simp
  have hlde : d'.load e1 = { prev := m, addr := e1, next := firstOr r 0, value := v } := by
    have e2 : ¬ (e1 = firstOr r 0 ∧ firstOr r 0 ≠ 0) := fun hh => hNe hh.1.symm
    rw [hld]; simp only [hem, e2, if_false, if_true, he, haddr]
  refine ⟨d', hlk, ⟨htm ▸ h.tmpl, hst ▸ s1, hst ▸ s2, hst ▸ s3, ?_, ?_, ?_, ?_⟩, hlen, by rw [hlde], hvals⟩
  · rw [hhead, h.head_eq]; simp
  · rw [htail, he]
    simp only [lastOr_append, lastOr_cons]
    by_cases hr : r = []
    · subst hr; simp
    · simp only [hrpos hr, if_false, h.tail_eq, lastOr_append, lastOr_cons]
      exact lastOr_congr hr _ _
  · rw [chain_mid, chain_cons]
    refine ⟨?_, ?_, ?_, ?_, by rw [hlde], by rw [hlde], by rw [hlde], ?_⟩
    · refine (chain_congr_eq ?_).mpr hcl
      intro b hb
      refine hsame b (by grind) ?_ (by grind)
      intro heq
      have := hNr (by have := h.range b (by simp [hb]); omega)
      grind
    · rw [hld]; simp [haddr]
    · rw [hld]; simp [hprev]
    · rw [hld]; simp [he]
    · refine chain_set_first (by grind) hcr ?_ ?_
      · intro b hb hbt
        exact hsame b (by grind) hbt (by grind)
      · intro hr
        have h0 := hrpos hr
        rw [hld]
        simp [h0, hNm, he]
  · rw [hst]
    intro b hb
    have hbr := h.range b (by simp [hb])
    rw [hsame b (by grind) ?_ (by grind)]
    · exact h.free b hb
    · intro heq
      have := hNr (by omega)
      grind

theorem linkBefore_inv {d : Deque} {det l r : List Nat} {e1 m v : Nat} (h : Inv d (e1 :: det) (l ++ m :: r))
    (he : d.load e1 = { addr := e1 }) :
    ∃ d', d.linkBefore e1 v m = some (d', e1) ∧ Inv d' det (l ++ e1 :: m :: r) ∧ d'.length = d.length ∧
      (d'.load e1).value = v ∧ ∀ b, b ≠ e1 → (d'.load b).value = (d.load b).value := by
  obtain ⟨hcl, haddr, hprev, hnext, hcr⟩ := (chain_mid _ _ _ _ _ _).mp h.links
  have hn := h.nodup
  have hml := h.range m (by simp)
  have hel := h.range e1 (by simp)
  have hem : e1 ≠ m := by grind
  have hP := lastOr_mem_or l 0
  have hPr : lastOr l 0 ≠ 0 → lastOr l 0 ∈ l := by
    intro h0; rcases hP with ⟨h0', _⟩ | hm
    · exact absurd h0' h0
    · exact hm
  have hPl : lastOr l 0 < d.elements.length := by
    rcases hP with ⟨h0, _⟩ | hm
    · rw [h0]; omega
    · exact (h.range _ (by simp [hm])).2
  have hPe : lastOr l 0 ≠ e1 := by
    intro heq
    rcases hP with ⟨h0, _⟩ | hm
    · omega
    · grind
  have hPm : lastOr l 0 ≠ m := by
    intro heq
    rcases hP with ⟨h0, _⟩ | hm
    · omega
    · grind
  have hlpos : l ≠ [] → lastOr l 0 ≠ 0 := fun hl => by
    have := h.range _ (by simp [lastOr_mem (p := 0) hl] : lastOr l 0 ∈ (e1 :: det) ++ (l ++ m :: r) ++ d.stack)
    omega
  obtain ⟨d', hlk, hlen, ⟨hst, htm, hsz⟩, htail, hhead, hld⟩ :=
    linkBefore_spec (v := v) (by omega) hml.2 hel.2 hem hprev hPl hPe hPm
  have hp : ((e1 :: det) ++ (l ++ m :: r) ++ d.stack).Perm (det ++ (l ++ e1 :: m :: r) ++ d.stack) :=
    perm_detach det l (m :: r) d.stack e1
  obtain ⟨s1, s2, s3⟩ := slots_of_perm (d' := d') hp.symm hsz h.nodup h.range h.cover
  have hsame : ∀ b, b ≠ m → b ≠ lastOr l 0 → b ≠ e1 → d'.load b = d.load b := by
    intro b hb1 hb2 hb3
    rw [hld]; simp [hb1, hb2, hb3]
  have hvals : ∀ b, b ≠ e1 → (d'.load b).value = (d.load b).value := by
    intro b hb
    rw [hld]
    split
    · rename_i hb; rw [hb]
    · split
      · rename_i hb; rw [hb.1]
      · simp
  have hlde : d'.load e1 = { prev := lastOr l 0, addr := e1, next := m, value := v } := by
    have e2 : ¬ (e1 = lastOr l 0 ∧ lastOr l 0 ≠ 0) := fun hh => hPe hh.1.symm
    rw [hld]; simp only [hem, e2, if_false, if_true, he, haddr]
  refine ⟨d', hlk, ⟨htm ▸ h.tmpl, hst ▸ s1, hst ▸ s2, hst ▸ s3, ?_, ?_, ?_, ?_⟩, hlen, by rw [hlde], hvals⟩
  · rw [hhead, he]
    simp only [firstOr_append, firstOr_cons]
    by_cases hl : l = []
    · subst hl; simp
    · simp only [hlpos hl, if_false, h.head_eq, firstOr_append, firstOr_cons]
      exact firstOr_congr hl _ _
  · rw [htail, h.tail_eq]; simp
  · rw [chain_mid, chain_cons]
    refine ⟨?_, by rw [hlde], by rw [hlde], by rw [hlde]; simp, ?_, ?_, ?_, ?_⟩
    · refine chain_set_last (by grind) hcl ?_ ?_
      · intro b hb hbt
        exact hsame b (by grind) hbt (by grind)
      · intro hl
        have h0 := hlpos hl
        rw [hld]
        simp [h0, hPm, he]
    · rw [hld]; simp [haddr]
    · rw [hld]; simp [he]
    · rw [hld]; simp [hnext]
    · refine (chain_congr_eq ?_).mpr hcr
      intro b hb
      refine hsame b (by grind) ?_ (by grind)
      intro heq
      have := hPr (by have := h.range b (by simp [hb]); omega)
      grind
  · rw [hst]
    intro b hb
    have hbr := h.range b (by simp [hb])
    rw [hsame b (by grind) ?_ (by grind)]
    · exact h.free b hb
    · intro heq
      have := hPr (by omega)
      grind

end Deque
