import Gws.Lemmas.Deque.Ops
/-!
# Deque: operation sequences over abstract element ids, on the model and on plain lists

An *id* is the ordinal (0-based, over the whole run) of the push/insert operation that created an
element.  `SState`/`SInst.step` is the reference: every instance is a plain list of `(id, value)`
pairs.  `MState`/`MInst.step` runs the same operations on the model, keeping for every instance a
map from ids to handles (the address the push/insert returned).  `clone` appends a copy of the current
instance (with its id map) as a new instance, `use k` switches the current instance.

The reference rejects (`none`) only an operation that names an id that is not live in the current
instance and a `use` of an instance that does not exist; `run_refines` is about the accepted
sequences.
-/

namespace Deque

inductive Op where
  | pushBack (v : Nat)
  | pushFront (v : Nat)
  | popFront
  | popBack
  | insertAfter (v id : Nat)
  | insertBefore (v id : Nat)
  | moveToFront (id : Nat)
  | moveToBack (id : Nat)
  | update (id v : Nat)
  | remove (id : Nat)
  | reset
  /-- `Range` with a callback that records up to `k` values and then stops the iteration -/
  | range (k : Nat)
  | clone
  | use (k : Nat)
deriving Repr, DecidableEq

/-- operations that create an element (and so consume an id) -/
def Op.creates : Op → Bool
  | .pushBack _ | .pushFront _ | .insertAfter _ _ | .insertBefore _ _ => true
  | _ => false

/-- what is observed after every operation, on the instance it was applied to: the operation's own
result (`[value]` read through the returned element for push/insert, `[popped value]` for pop, the
recorded values for `range`), then `Len`, the values seen by a full `Range`, and the values of
`Front`/`Back` (`none` for nil). -/
structure Obs where
  ret : List Nat
  len : Int
  seq : List Nat
  front : Option Nat
  back : Option Nat
deriving Repr, DecidableEq

/-! ### reference: plain lists -/

abbrev Seq := List (Nat × Nat)

/-- split a sequence around the (first) element with the given id -/
def splitId (id : Nat) : Seq → Option (Seq × Nat × Seq)
  | [] => none
  | e :: s =>
    if e.1 = id then some ([], e.2, s)
    else (splitId id s).map fun r => (e :: r.1, r.2.1, r.2.2)

structure SInst where
  s : Seq

def SInst.step (y : SInst) (n : Nat) : Op → Option (SInst × List Nat)
  | .pushBack v => some ({ s := y.s ++ [(n, v)] }, [v])
  | .pushFront v => some ({ s := (n, v) :: y.s }, [v])
  | .popFront => some ({ y with s := y.s.tail }, [(y.s.head?.map (·.2)).getD 0])
  | .popBack => some ({ y with s := y.s.dropLast }, [(y.s.getLast?.map (·.2)).getD 0])
  | .insertAfter v id =>
    (splitId id y.s).map fun r => ({ y with s := r.1 ++ (id, r.2.1) :: (n, v) :: r.2.2 }, [v])
  | .insertBefore v id =>
    (splitId id y.s).map fun r => ({ y with s := r.1 ++ (n, v) :: (id, r.2.1) :: r.2.2 }, [v])
  | .moveToFront id => (splitId id y.s).map fun r => ({ y with s := (id, r.2.1) :: (r.1 ++ r.2.2) }, [])
  | .moveToBack id => (splitId id y.s).map fun r => ({ y with s := r.1 ++ r.2.2 ++ [(id, r.2.1)] }, [])
  | .update id v => (splitId id y.s).map fun r => ({ y with s := r.1 ++ (id, v) :: r.2.2 }, [])
  | .remove id => (splitId id y.s).map fun r => ({ y with s := r.1 ++ r.2.2 }, [])
  | .reset => some ({ y with s := [] }, [])
  | .range k => some (y, (y.s.map (·.2)).take k)
  | .clone => none
  | .use _ => none

def sobserve (s : Seq) (ret : List Nat) : Obs :=
  { ret := ret, len := s.length, seq := s.map (·.2), front := s.head?.map (·.2),
    back := s.getLast?.map (·.2) }

structure SState where
  insts : List SInst
  cur : Nat
  next : Nat

def SState.stepCur (st : SState) (op : Op) : Option (SState × Obs) :=
  match st.insts[st.cur]? with
  | none => none
  | some y =>
    match y.step st.next op with
    | none => none
    | some (y', ret) =>
      some ({ insts := st.insts.set st.cur y', cur := st.cur,
              next := st.next + (if op.creates then 1 else 0) }, sobserve y'.s ret)

def SState.step (st : SState) : Op → Option (SState × Obs)
  | .clone =>
    match st.insts[st.cur]? with
    | none => none
    | some y => some ({ st with insts := st.insts ++ [y] }, sobserve y.s [])
  | .use k =>
    match st.insts[k]? with
    | none => none
    | some y => some ({ st with cur := k }, sobserve y.s [])
  | op => st.stepCur op

def SState.run : SState → List Op → Option (List Obs)
  | _, [] => some []
  | st, op :: ops =>
    match st.step op with
    | none => none
    | some (st', o) => (st'.run ops).map (o :: ·)

/-! ### the same on the model -/

structure MInst where
  d : Deque
  /-- id ↦ handle; only consulted for live ids -/
  m : Nat → Nat

/-- record the handle `Addr()` of the element returned by a push/insert under id `n`; calling
`Addr()`/`Value()` on a nil result would be a nil dereference -/
def MInst.created (x : MInst) (n : Nat) (r : Deque × Nat) : Option (MInst × List Nat) :=
  if r.2 = 0 then none
  else some ({ d := r.1, m := fun i => if i = n then (r.1.load r.2).addr else x.m i }, [(r.1.load r.2).value])

def MInst.step (x : MInst) (n : Nat) : Op → Option (MInst × List Nat)
  | .pushBack v => (x.d.pushBack v).bind (x.created n)
  | .pushFront v => (x.d.pushFront v).bind (x.created n)
  | .popFront => (x.d.popFront).map fun r => ({ x with d := r.1 }, [r.2])
  | .popBack => (x.d.popBack).map fun r => ({ x with d := r.1 }, [r.2])
  | .insertAfter v id => (x.d.insertAfter v (x.m id)).bind (x.created n)
  | .insertBefore v id => (x.d.insertBefore v (x.m id)).bind (x.created n)
  | .moveToFront id => (x.d.moveToFront (x.m id)).map fun d => ({ x with d := d }, [])
  | .moveToBack id => (x.d.moveToBack (x.m id)).map fun d => ({ x with d := d }, [])
  | .update id v => (x.d.update (x.m id) v).map fun d => ({ x with d := d }, [])
  | .remove id => (x.d.remove (x.m id)).map fun d => ({ x with d := d }, [])
  | .reset => some ({ x with d := x.d.reset }, [])
  | .range k => (x.d.range (takeCb k) ([], 0)).map fun r => (x, r.1)
  | .clone => none
  | .use _ => none

def observe (d : Deque) (ret : List Nat) : Option Obs :=
  (d.range (fun (acc : List Nat) e => (acc ++ [e.value], true)) []).bind fun seq =>
  d.front.bind fun f =>
  d.back.bind fun b =>
  some { ret := ret, len := d.len, seq := seq,
         front := if f = 0 then none else some (d.load f).value,
         back := if b = 0 then none else some (d.load b).value }

structure MState where
  insts : List MInst
  cur : Nat
  next : Nat

def MState.stepCur (st : MState) (op : Op) : Option (MState × Obs) :=
  match st.insts[st.cur]? with
  | none => none
  | some x =>
    match x.step st.next op with
    | none => none
    | some (x', ret) =>
      (observe x'.d ret).map fun o =>
        ({ insts := st.insts.set st.cur x', cur := st.cur,
           next := st.next + (if op.creates then 1 else 0) }, o)

def MState.step (st : MState) : Op → Option (MState × Obs)
  | .clone =>
    match st.insts[st.cur]? with
    | none => none
    | some x =>
      (observe x.d []).map fun o => ({ st with insts := st.insts ++ [{ d := x.d.clone, m := x.m }] }, o)
  | .use k =>
    match st.insts[k]? with
    | none => none
    | some x => (observe x.d []).map fun o => ({ st with cur := k }, o)
  | op => st.stepCur op

def MState.run : MState → List Op → Option (List Obs)
  | _, [] => some []
  | st, op :: ops =>
    match st.step op with
    | none => none
    | some (st', o) => (st'.run ops).map (o :: ·)

/-- a run starts with one instance (number 0), no ids handed out -/
def MState.init (d : Deque) : MState := { insts := [{ d := d, m := fun _ => 0 }], cur := 0, next := 0 }

def SState.init : SState := { insts := [{ s := [] }], cur := 0, next := 0 }

/-! ### the refinement relation -/

/-- the handles behind a sequence of ids -/
def handles (m : Nat → Nat) (s : Seq) : List Nat := s.map fun e => m e.1

@[simp] theorem handles_nil (m : Nat → Nat) : handles m [] = [] := rfl
@[simp] theorem handles_cons (m : Nat → Nat) (e : Nat × Nat) (s : Seq) :
    handles m (e :: s) = m e.1 :: handles m s := rfl
@[simp] theorem handles_append (m : Nat → Nat) (s t : Seq) :
    handles m (s ++ t) = handles m s ++ handles m t := by simp [handles]
@[simp] theorem handles_length (m : Nat → Nat) (s : Seq) : (handles m s).length = s.length := by
  simp [handles]

theorem mem_handles {m : Nat → Nat} {s : Seq} {e : Nat × Nat} (h : e ∈ s) : m e.1 ∈ handles m s :=
  List.mem_map.mpr ⟨e, h, rfl⟩

theorem handles_fresh {m : Nat → Nat} {s : Seq} {n a : Nat} (h : ∀ e ∈ s, e.1 < n) :
    handles (fun i => if i = n then a else m i) s = handles m s := by
  apply List.map_congr_left
  intro e he
  have := h e he
  simp [Nat.ne_of_lt this]

theorem splitId_some {id : Nat} {s sl sr : Seq} {w : Nat} (h : splitId id s = some (sl, w, sr)) :
    s = sl ++ (id, w) :: sr := by
  induction s generalizing sl with
  | nil => simp [splitId] at h
  | cons e s ih =>
    simp only [splitId] at h
    split at h
    · rename_i he
      simp only [Option.some.injEq, Prod.mk.injEq] at h
      obtain ⟨rfl, rfl, rfl⟩ := h
      simp [← he]
    · cases hsp : splitId id s with
      | none => simp [hsp] at h
      | some r =>
        obtain ⟨sl', w', sr'⟩ := r
        simp only [hsp, Option.map_some, Option.some.injEq, Prod.mk.injEq] at h
        obtain ⟨rfl, rfl, rfl⟩ := h
        rw [ih hsp]; rfl

/-- instance `x` of the model represents the reference sequence `y.s`: the handles recorded for its
ids form the live sequence of a well-formed deque, in order, with the same values; all ids are below
the id counter `n` -/
structure RI (n : Nat) (x : MInst) (y : SInst) : Prop where
  inv : Inv x.d [] (handles x.m y.s)
  len : x.d.length = (y.s.length : Nat)
  vals : ∀ e ∈ y.s, (x.d.load (x.m e.1)).value = e.2
  ids : ∀ e ∈ y.s, e.1 < n

theorem RI.mono {n n' : Nat} {x : MInst} {y : SInst} (h : RI n x y) (hn : n ≤ n') : RI n' x y :=
  ⟨h.inv, h.len, h.vals, fun e he => Nat.lt_of_lt_of_le (h.ids e he) hn⟩

theorem RI.of_s_eq {n : Nat} {x : MInst} {y : SInst} {s' : Seq} (h : RI n x y) (hs : y.s = s') :
    RI n x { s := s' } := by
  subst hs; exact h

theorem RI.split_inv {n : Nat} {x : MInst} {y : SInst} {sl sr : Seq} {id w : Nat} (h : RI n x y)
    (hys : y.s = sl ++ (id, w) :: sr) :
    Inv x.d [] (handles x.m sl ++ x.m id :: handles x.m sr) ∧
    x.d.length = ((handles x.m sl ++ x.m id :: handles x.m sr).length : Nat) := by
  have h1 := h.inv; have h2 := h.len
  rw [hys] at h1 h2
  exact ⟨by simpa using h1, by simpa using h2⟩

theorem RI.abs_eq {n : Nat} {x : MInst} {y : SInst} (h : RI n x y) :
    abs x.d (handles x.m y.s) = y.s.map (·.2) := by
  simp only [abs, handles, List.map_map]
  exact List.map_congr_left h.vals

theorem observe_refines {n : Nat} {x : MInst} {y : SInst} (h : RI n x y) (ret : List Nat) :
    observe x.d ret = some (sobserve y.s ret) := by
  have hf := front_core h.inv
  have hb := back_core h.inv
  simp only [observe, range_all_core h.inv, hf, hb, Option.bind_some, sobserve, h.abs_eq, len, h.len]
  congr 2
  · cases hs : y.s with
    | nil => simp
    | cons e s =>
      have := h.inv.range (x.m e.1) (by simp [hs])
      have hv := h.vals e (by simp [hs])
      simp [Nat.ne_of_gt this.1, hv]
  · rcases List.eq_nil_or_concat y.s with hs | ⟨s, e, hs⟩
    · simp [hs]
    · have := h.inv.range (x.m e.1) (by simp [hs])
      have hv := h.vals e (by simp [hs])
      simp [hs, Nat.ne_of_gt this.1, hv]

/-! ### one operation on one instance -/

/-- common part of the four creating operations: the new element `(n, v)` goes between `p` and `q` -/
theorem created_refines {n : Nat} {x : MInst} {y : SInst} (h : RI n x y) {p q : Seq} (hs : y.s = p ++ q)
    {d' : Deque} {a v : Nat} (hi : Inv d' [] (handles x.m p ++ a :: handles x.m q))
    (hl : d'.length = x.d.length + 1) (hv : (d'.load a).value = v)
    (hvo : ∀ b, b ≠ a → (d'.load b).value = (x.d.load b).value) :
    ∃ x', x.created n (d', a) = some (x', [v]) ∧ RI (n + 1) x' { s := p ++ (n, v) :: q } := by
  have ha := hi.range a (by simp)
  have haddr := hi.addr_eq (a := a) (by simp)
  have hidp : ∀ e ∈ p, e.1 < n := fun e he => h.ids e (by simp [hs, he])
  have hidq : ∀ e ∈ q, e.1 < n := fun e he => h.ids e (by simp [hs, he])
  have hn := hi.nodup
  refine ⟨{ d := d', m := fun i => if i = n then a else x.m i }, ?_, ?_⟩
  · simp [MInst.created, Nat.ne_of_gt ha.1, haddr, hv]
  · refine ⟨?_, ?_, ?_, ?_⟩
    · simpa [handles_fresh hidp, handles_fresh hidq] using hi
    · simp only [hl, h.len, hs, List.length_append, List.length_cons]; omega
    · intro e he
      simp only [List.mem_append, List.mem_cons] at he
      have hold : e ∈ p ∨ e ∈ q → ((d'.load (if e.1 = n then a else x.m e.1)).value = e.2) := by
        intro hpq
        have hlt : e.1 < n := hpq.elim (hidp e) (hidq e)
        have hmem : x.m e.1 ∈ handles x.m p ∨ x.m e.1 ∈ handles x.m q := hpq.imp mem_handles mem_handles
        have hne : x.m e.1 ≠ a := by grind
        simp only [Nat.ne_of_lt hlt, if_false]
        rw [hvo _ hne]
        exact h.vals e (by rw [hs]; exact List.mem_append.mpr hpq)
      rcases he with he | rfl | he
      · exact hold (Or.inl he)
      · simp [hv]
      · exact hold (Or.inr he)
    · intro e he
      simp only [List.mem_append, List.mem_cons] at he
      rcases he with he | rfl | he
      · exact Nat.lt_succ_of_lt (hidp e he)
      · exact Nat.lt_succ_self _
      · exact Nat.lt_succ_of_lt (hidq e he)

theorem popFront_nil_core {d : Deque} {det : List Nat} (h : Inv d det []) : d.popFront = some (d, 0) := by
  simp [popFront, front_core h]

theorem popBack_nil_core {d : Deque} {det : List Nat} (h : Inv d det []) : d.popBack = some (d, 0) := by
  simp [popBack, back_core h]

theorem inst_step_refines {n : Nat} {x : MInst} {y y' : SInst} {op : Op} {ret : List Nat} (h : RI n x y)
    (hs : y.step n op = some (y', ret)) :
    ∃ x', x.step n op = some (x', ret) ∧ RI (n + (if op.creates then 1 else 0)) x' y' := by
  cases op with
  | pushBack v =>
    simp only [SInst.step, Option.some.injEq, Prod.mk.injEq] at hs
    obtain ⟨rfl, rfl⟩ := hs
    obtain ⟨d', a, hp, hi', hl', hv, hvo⟩ := pushBack_core h.inv v
    obtain ⟨x', hc, hr⟩ := created_refines h (p := y.s) (q := []) (by simp) (by simpa using hi') hl' hv hvo
    exact ⟨x', by simp [MInst.step, hp, hc], by simpa [Op.creates] using hr⟩
  | pushFront v =>
    simp only [SInst.step, Option.some.injEq, Prod.mk.injEq] at hs
    obtain ⟨rfl, rfl⟩ := hs
    obtain ⟨d', a, hp, hi', hl', hv, hvo⟩ := pushFront_core h.inv v
    obtain ⟨x', hc, hr⟩ := created_refines h (p := []) (q := y.s) (by simp) (by simpa using hi') hl' hv hvo
    exact ⟨x', by simp [MInst.step, hp, hc], by simpa [Op.creates] using hr⟩
  | popFront =>
    simp only [SInst.step, Option.some.injEq, Prod.mk.injEq] at hs
    obtain ⟨rfl, rfl⟩ := hs
    cases hys : y.s with
    | nil =>
      have hi := h.inv; rw [hys] at hi
      refine ⟨x, by simp [MInst.step, popFront_nil_core hi], ?_⟩
      simpa [Op.creates] using h.of_s_eq hys
    | cons e s =>
      have hi := h.inv; have hl := h.len; rw [hys] at hi hl
      simp only [handles_cons] at hi
      have ha := hi.range (x.m e.1) (by simp)
      obtain ⟨d', hu, hi', hl', hv⟩ := unlink_inv (l := []) hi (by simpa using hl)
      simp only [List.nil_append] at hu hi' hl' hv
      have hpf := popFront_eq_unlink (d := x.d) (a := x.m e.1) (by simpa using hi.head_eq) (by omega) ha.2
      refine ⟨{ x with d := d' }, ?_, ?_⟩
      · simp [MInst.step, hpf, hu, h.vals e (by simp [hys])]
      · refine ⟨by simpa using hi', by simpa using hl', ?_, ?_⟩
        · intro e' he'
          simp only [List.tail_cons] at he'
          rw [hv _ (mem_handles he')]
          exact h.vals e' (by simp [hys, he'])
        · intro e' he'
          simp only [List.tail_cons] at he'
          exact h.ids e' (by simp [hys, he'])
  | popBack =>
    simp only [SInst.step, Option.some.injEq, Prod.mk.injEq] at hs
    obtain ⟨rfl, rfl⟩ := hs
    rcases List.eq_nil_or_concat y.s with hys | ⟨s, e, hys⟩
    · have hi := h.inv; rw [hys] at hi
      refine ⟨x, by simp [MInst.step, popBack_nil_core hi, hys], ?_⟩
      simpa [Op.creates, hys] using h.of_s_eq hys
    · have hys : y.s = s ++ [e] := by simpa using hys
      have hi := h.inv; have hl := h.len; rw [hys] at hi hl
      simp only [handles_append, handles_cons, handles_nil] at hi
      have ha := hi.range (x.m e.1) (by simp)
      obtain ⟨d', hu, hi', hl', hv⟩ := unlink_inv (r := []) hi (by simpa using hl)
      simp only [List.append_nil] at hu hi' hl' hv
      have hpf := popBack_eq_unlink (d := x.d) (a := x.m e.1) (by simpa using hi.tail_eq) (by omega) ha.2
      refine ⟨{ x with d := d' }, ?_, ?_⟩
      · simp [MInst.step, hpf, hu, hys, h.vals e (by simp [hys])]
      · refine ⟨by simpa [hys] using hi', by simpa [hys] using hl', ?_, ?_⟩
        · intro e' he'
          simp only [hys, List.dropLast_concat] at he'
          rw [hv _ (mem_handles he')]
          exact h.vals e' (by simp [hys, he'])
        · intro e' he'
          simp only [hys, List.dropLast_concat] at he'
          exact h.ids e' (by simp [hys, he'])
  | insertAfter v id =>
    cases hsp : splitId id y.s with
    | none => simp [SInst.step, hsp] at hs
    | some r =>
      obtain ⟨sl, w, sr⟩ := r
      simp only [SInst.step, hsp, Option.map_some, Option.some.injEq, Prod.mk.injEq] at hs
      obtain ⟨rfl, rfl⟩ := hs
      have hys := splitId_some hsp
      obtain ⟨hi, hl⟩ := h.split_inv hys
      obtain ⟨d', a, hp, hi', hl', hv, hvo⟩ := insertAfter_core hi v
      obtain ⟨x', hc, hr⟩ := created_refines h (p := sl ++ [(id, w)]) (q := sr) (by simp [hys])
        (by simpa using hi') hl' hv hvo
      exact ⟨x', by simp [MInst.step, hp, hc], by simpa [Op.creates] using hr⟩
  | insertBefore v id =>
    cases hsp : splitId id y.s with
    | none => simp [SInst.step, hsp] at hs
    | some r =>
      obtain ⟨sl, w, sr⟩ := r
      simp only [SInst.step, hsp, Option.map_some, Option.some.injEq, Prod.mk.injEq] at hs
      obtain ⟨rfl, rfl⟩ := hs
      have hys := splitId_some hsp
      obtain ⟨hi, hl⟩ := h.split_inv hys
      obtain ⟨d', a, hp, hi', hl', hv, hvo⟩ := insertBefore_core hi v
      obtain ⟨x', hc, hr⟩ := created_refines h (p := sl) (q := (id, w) :: sr) (by simp [hys])
        (by simpa using hi') hl' hv hvo
      exact ⟨x', by simp [MInst.step, hp, hc], by simpa [Op.creates] using hr⟩
  | moveToFront id =>
    cases hsp : splitId id y.s with
    | none => simp [SInst.step, hsp] at hs
    | some r =>
      obtain ⟨sl, w, sr⟩ := r
      simp only [SInst.step, hsp, Option.map_some, Option.some.injEq, Prod.mk.injEq] at hs
      obtain ⟨rfl, rfl⟩ := hs
      have hys := splitId_some hsp
      obtain ⟨hi, hl⟩ := h.split_inv hys
      obtain ⟨d', hp, hi', hl', hv⟩ := moveToFront_core hi
      have hmem : ∀ e, e ∈ (id, w) :: (sl ++ sr) → e ∈ y.s := by
        intro e he; rw [hys]; simp only [List.mem_cons, List.mem_append] at he ⊢; grind
      refine ⟨{ x with d := d' }, by simp [MInst.step, hp], ?_⟩
      refine ⟨by simpa using hi', ?_, ?_, fun e he => h.ids e (hmem e he)⟩
      · simp only [hl', h.len, hys, List.length_append, List.length_cons]; omega
      · intro e he; rw [hv]; exact h.vals e (hmem e he)
  | moveToBack id =>
    cases hsp : splitId id y.s with
    | none => simp [SInst.step, hsp] at hs
    | some r =>
      obtain ⟨sl, w, sr⟩ := r
      simp only [SInst.step, hsp, Option.map_some, Option.some.injEq, Prod.mk.injEq] at hs
      obtain ⟨rfl, rfl⟩ := hs
      have hys := splitId_some hsp
      obtain ⟨hi, hl⟩ := h.split_inv hys
      obtain ⟨d', hp, hi', hl', hv⟩ := moveToBack_core hi
      have hmem : ∀ e, e ∈ sl ++ sr ++ [(id, w)] → e ∈ y.s := by
        intro e he; rw [hys]; simp only [List.mem_cons, List.mem_append] at he ⊢; grind
      refine ⟨{ x with d := d' }, by simp [MInst.step, hp], ?_⟩
      refine ⟨by simpa using hi', ?_, ?_, fun e he => h.ids e (hmem e he)⟩
      · simp only [hl', h.len, hys, List.length_append, List.length_cons, List.length_nil]; omega
      · intro e he; rw [hv]; exact h.vals e (hmem e he)
  | update id v =>
    cases hsp : splitId id y.s with
    | none => simp [SInst.step, hsp] at hs
    | some r =>
      obtain ⟨sl, w, sr⟩ := r
      simp only [SInst.step, hsp, Option.map_some, Option.some.injEq, Prod.mk.injEq] at hs
      obtain ⟨rfl, rfl⟩ := hs
      have hys := splitId_some hsp
      obtain ⟨hi, hl⟩ := h.split_inv hys
      obtain ⟨hu, hi', hv, hvo⟩ := update_core hi (a := x.m id) (by simp) v
      have hn := hi.nodup
      refine ⟨{ x with d := x.d.setValue (x.m id) v }, by simp [MInst.step, hu], ?_⟩
      refine ⟨by simpa using hi', by simpa using hl, ?_, ?_⟩
      · intro e he
        simp only [List.mem_append, List.mem_cons] at he
        rcases he with he | rfl | he
        · have hm := mem_handles (m := x.m) he
          rw [hvo _ (by grind)]
          exact h.vals e (by simp [hys, he])
        · exact hv
        · have hm := mem_handles (m := x.m) he
          rw [hvo _ (by grind)]
          exact h.vals e (by simp [hys, he])
      · intro e he
        simp only [List.mem_append, List.mem_cons] at he
        rcases he with he | rfl | he
        · exact h.ids e (by simp [hys, he])
        · exact h.ids (id, w) (by simp [hys])
        · exact h.ids e (by simp [hys, he])
  | remove id =>
    cases hsp : splitId id y.s with
    | none => simp [SInst.step, hsp] at hs
    | some r =>
      obtain ⟨sl, w, sr⟩ := r
      simp only [SInst.step, hsp, Option.map_some, Option.some.injEq, Prod.mk.injEq] at hs
      obtain ⟨rfl, rfl⟩ := hs
      have hys := splitId_some hsp
      obtain ⟨hi, hl⟩ := h.split_inv hys
      have ha := hi.range (x.m id) (by simp)
      obtain ⟨d', hu, hi', hl', hv⟩ := unlink_inv hi hl
      have hmem : ∀ e, e ∈ sl ++ sr → e ∈ y.s := by
        intro e he; rw [hys]; simp only [List.mem_cons, List.mem_append] at he ⊢; grind
      refine ⟨{ x with d := d' }, by simp [MInst.step, remove_eq_unlink (Nat.ne_of_gt ha.1) ha.2, hu], ?_⟩
      refine ⟨by simpa using hi', by simpa using hl', ?_, fun e he => h.ids e (hmem e he)⟩
      intro e he
      rw [hv _ (by simpa using mem_handles (m := x.m) he)]
      exact h.vals e (hmem e he)
  | reset =>
    simp only [SInst.step, Option.some.injEq, Prod.mk.injEq] at hs
    obtain ⟨rfl, rfl⟩ := hs
    obtain ⟨hi', hl'⟩ := autoReset_inv (d := x.d) h.inv.tmpl
    refine ⟨{ x with d := x.d.reset }, by simp [MInst.step], ?_⟩
    exact ⟨by simpa [reset] using hi', by simpa [reset] using hl', by simp, by simp⟩
  | range k =>
    simp only [SInst.step, Option.some.injEq, Prod.mk.injEq] at hs
    obtain ⟨rfl, rfl⟩ := hs
    have hvals : ((handles x.m y.s).map x.d.load).map (·.value) = y.s.map (·.2) := by
      rw [← h.abs_eq]; simp [abs]
    refine ⟨x, ?_, by simpa [Op.creates] using h⟩
    simp [MInst.step, range_core h.inv, foldUntil_takeCb, hvals]
  | clone => simp [SInst.step] at hs
  | use k => simp [SInst.step] at hs

/-! ### whole states and runs -/

/-- the model state represents the reference state: same current instance, same id counter, and
instance by instance `RI` -/
structure R (st : MState) (sst : SState) : Prop where
  cur : st.cur = sst.cur
  next : st.next = sst.next
  len : st.insts.length = sst.insts.length
  inst : ∀ k (h1 : k < st.insts.length) (h2 : k < sst.insts.length), RI st.next st.insts[k] sst.insts[k]

theorem stepCur_refines {st : MState} {sst sst' : SState} {op : Op} {o : Obs} (h : R st sst)
    (hs : sst.stepCur op = some (sst', o)) : ∃ st', st.stepCur op = some (st', o) ∧ R st' sst' := by
  unfold SState.stepCur at hs
  cases hy : sst.insts[sst.cur]? with
  | none => simp [hy] at hs
  | some y =>
    cases hstep : y.step sst.next op with
    | none => simp [hy, hstep] at hs
    | some r =>
      obtain ⟨y', ret⟩ := r
      simp only [hy, hstep, Option.some.injEq, Prod.mk.injEq] at hs
      obtain ⟨rfl, rfl⟩ := hs
      obtain ⟨hc2, hyv⟩ := List.getElem?_eq_some_iff.mp hy
      have hc1 : st.cur < st.insts.length := by rw [h.len, h.cur]; exact hc2
      have hri : RI st.next st.insts[st.cur] y := by
        have := h.inst st.cur hc1 (by rw [h.cur]; exact hc2)
        simpa [h.cur, hyv] using this
      rw [← h.next] at hstep
      obtain ⟨x', hx, hr⟩ := inst_step_refines hri hstep
      refine ⟨{ insts := st.insts.set st.cur x', cur := st.cur,
                next := st.next + (if op.creates then 1 else 0) },
        by simp [MState.stepCur, List.getElem?_eq_getElem hc1, hx, observe_refines hr], ?_⟩
      refine ⟨h.cur, by simp [h.next], by simp [h.len], ?_⟩
      intro k h1 h2
      simp only [List.getElem_set]
      simp only [List.length_set] at h1 h2
      by_cases hk : st.cur = k
      · simp only [hk, h.cur ▸ hk, if_true]
        exact hr
      · have hk' : ¬ sst.cur = k := by rw [← h.cur]; exact hk
        simp only [hk, hk', if_false]
        exact (h.inst k h1 h2).mono (Nat.le_add_right _ _)

theorem step_refines {st : MState} {sst sst' : SState} {op : Op} {o : Obs} (h : R st sst)
    (hs : sst.step op = some (sst', o)) : ∃ st', st.step op = some (st', o) ∧ R st' sst' := by
  cases op with
  | clone =>
    simp only [SState.step] at hs
    cases hy : sst.insts[sst.cur]? with
    | none => simp [hy] at hs
    | some y =>
      simp only [hy, Option.some.injEq, Prod.mk.injEq] at hs
      obtain ⟨rfl, rfl⟩ := hs
      obtain ⟨hc2, hyv⟩ := List.getElem?_eq_some_iff.mp hy
      have hc1 : st.cur < st.insts.length := by rw [h.len, h.cur]; exact hc2
      have hri : RI st.next st.insts[st.cur] y := by
        have := h.inst st.cur hc1 (by rw [h.cur]; exact hc2)
        simpa [h.cur, hyv] using this
      refine ⟨{ st with insts := st.insts ++ [{ d := st.insts[st.cur].d.clone, m := st.insts[st.cur].m }] },
        by simp [MState.step, List.getElem?_eq_getElem hc1, observe_refines hri], ?_⟩
      refine ⟨h.cur, h.next, by simp [h.len], ?_⟩
      intro k h1 h2
      simp only [List.length_append, List.length_singleton] at h1 h2
      by_cases hk : k < st.insts.length
      · have hk2 : k < sst.insts.length := h.len ▸ hk
        simp only [List.getElem_append_left hk, List.getElem_append_left hk2]
        exact h.inst k hk hk2
      · have hk1 : st.insts.length ≤ k := by omega
        have hk2 : sst.insts.length ≤ k := h.len ▸ hk1
        simp only [List.getElem_append_right hk1, List.getElem_append_right hk2, List.getElem_singleton]
        refine ⟨?_, ?_, ?_, hri.ids⟩
        · simpa [clone_eq] using hri.inv
        · simpa [clone_eq] using hri.len
        · simpa [clone_eq] using hri.vals
  | use k =>
    simp only [SState.step] at hs
    cases hy : sst.insts[k]? with
    | none => simp [hy] at hs
    | some y =>
      simp only [hy, Option.some.injEq, Prod.mk.injEq] at hs
      obtain ⟨rfl, rfl⟩ := hs
      obtain ⟨hc2, hyv⟩ := List.getElem?_eq_some_iff.mp hy
      have hc1 : k < st.insts.length := by rw [h.len]; exact hc2
      have hri : RI st.next st.insts[k] y := by
        have := h.inst k hc1 hc2
        simpa [hyv] using this
      refine ⟨{ st with cur := k },
        by simp [MState.step, List.getElem?_eq_getElem hc1, observe_refines hri], ?_⟩
      exact ⟨rfl, h.next, h.len, h.inst⟩
  | pushBack v => exact stepCur_refines h hs
  | pushFront v => exact stepCur_refines h hs
  | popFront => exact stepCur_refines h hs
  | popBack => exact stepCur_refines h hs
  | insertAfter v id => exact stepCur_refines h hs
  | insertBefore v id => exact stepCur_refines h hs
  | moveToFront id => exact stepCur_refines h hs
  | moveToBack id => exact stepCur_refines h hs
  | update id v => exact stepCur_refines h hs
  | remove id => exact stepCur_refines h hs
  | reset => exact stepCur_refines (op := .reset) h hs
  | range k => exact stepCur_refines h hs

/-- every operation sequence the reference accepts runs on the model without a panic and with the
same observations -/
theorem run_refines {st : MState} {sst : SState} (h : R st sst) (ops : List Op) (obs : List Obs)
    (hs : sst.run ops = some obs) : st.run ops = some obs := by
  induction ops generalizing st sst obs with
  | nil => simpa [SState.run, MState.run] using hs
  | cons op ops ih =>
    simp only [SState.run] at hs
    cases hstep : sst.step op with
    | none => simp [hstep] at hs
    | some r =>
      obtain ⟨sst', o⟩ := r
      simp only [hstep] at hs
      cases hrun : sst'.run ops with
      | none => simp [hrun] at hs
      | some os =>
        simp only [hrun, Option.map_some, Option.some.injEq] at hs
        obtain ⟨st', hst, hr⟩ := step_refines h hstep
        simp [MState.run, hst, ih hr os hrun, hs]

theorem init_related {d : Deque} (h : Inv d [] []) (hl : d.length = 0) :
    R (MState.init d) SState.init := by
  refine ⟨rfl, rfl, rfl, ?_⟩
  intro k h1 h2
  simp only [MState.init, List.length_singleton] at h1
  have hk : k = 0 := by omega
  subst hk
  exact ⟨by simpa [MState.init, SState.init] using h, by simpa [MState.init, SState.init] using hl,
    by simp [SState.init], by simp [SState.init]⟩

end Deque
