import Gws.Lemmas.Deque.Inv
/-!
# Deque: the invariant `WF` of C20 and the public operations on well-formed states

`WF d as` is the invariant in the form stated by the property (ghost list `as` of live addresses in
sequence order); `wf_iff_inv` relates it to the working form `Inv d [] as` plus the length equation.
The `*_core` lemmas run each public operation on an `Inv` state.
-/

namespace Deque

/-- **The C20 invariant.** `as` lists the addresses of the live elements in sequence order. -/
structure WF (d : Deque) (as : List Nat) : Prop where
  /-- the template is the zero element (it is never assigned) -/
  tmpl : d.template = {}
  /-- live addresses and free stack are distinct and disjoint -/
  nodup : (as ++ d.stack).Nodup
  /-- all of them are non-nil and inside the slot array -/
  range : ∀ a ∈ as ++ d.stack, 0 < a ∧ a < d.elements.length
  /-- together they are as many as there are slots besides the sentinel, i.e. they cover exactly the
  slots `1 .. len(elements)-1` (both are empty for the zero value, whose slot array is empty) -/
  cover : as.length + d.stack.length = d.elements.length - 1
  head_eq : d.head = as.head?.getD 0
  tail_eq : d.tail = as.getLast?.getD 0
  len_eq : d.length = as.length
  /-- the element at `as[i]` carries its own address and points to its neighbours (or nil) -/
  links : ∀ i (hi : i < as.length),
    (d.load as[i]).addr = as[i] ∧
    (d.load as[i]).prev = (if i = 0 then 0 else as[i - 1]?.getD 0) ∧
    (d.load as[i]).next = as[i + 1]?.getD 0
  /-- free slots are zeroed (equal to the template) -/
  free : ∀ a ∈ d.stack, d.load a = d.template

theorem firstOr_eq_getElem? (l : List Nat) (n : Nat) : firstOr l n = l[0]?.getD n := by
  cases l <;> simp

theorem chain_iff_index (ld : Nat → Elem) (p n : Nat) (as : List Nat) :
    Chain ld p as n ↔ ∀ i (hi : i < as.length),
      (ld as[i]).addr = as[i] ∧ (ld as[i]).prev = (p :: as)[i]?.getD 0 ∧
      (ld as[i]).next = as[i + 1]?.getD n := by
  induction as generalizing p with
  | nil => simp
  | cons a as ih =>
    rw [chain_cons, ih]
    constructor
    · rintro ⟨h1, h2, h3, h4⟩ i hi
      cases i with
      | zero => simp [h1, h2, h3, firstOr_eq_getElem?]
      | succ j =>
        have := h4 j (by simpa using hi)
        simpa using this
    · intro h
      have h0 := h 0 (by simp)
      refine ⟨h0.1, by simpa using h0.2.1, by simpa [firstOr_eq_getElem?] using h0.2.2, ?_⟩
      intro j hj
      have := h (j + 1) (by simpa using hj)
      simpa using this

theorem prev_index_form (as : List Nat) (i : Nat) :
    (0 :: as)[i]?.getD 0 = (if i = 0 then 0 else as[i - 1]?.getD 0) := by
  cases i <;> simp

theorem wf_iff_inv (d : Deque) (as : List Nat) : WF d as ↔ Inv d [] as ∧ d.length = as.length := by
  constructor
  · intro h
    refine ⟨⟨h.tmpl, by simpa using h.nodup, by simpa using h.range, by simpa using h.cover,
      by rw [h.head_eq, firstOr_eq_head?], by rw [h.tail_eq, lastOr_eq_getLast?], ?_, ?_⟩, h.len_eq⟩
    · rw [chain_iff_index]
      intro i hi
      rw [prev_index_form]
      exact h.links i hi
    · intro a ha; rw [h.free a ha, h.tmpl]
  · rintro ⟨h, hl⟩
    refine ⟨h.tmpl, by simpa using h.nodup, by simpa using h.range, by simpa using h.cover,
      by rw [h.head_eq, firstOr_eq_head?], by rw [h.tail_eq, lastOr_eq_getLast?], hl, ?_, ?_⟩
    · have := (chain_iff_index _ _ _ _).mp h.links
      intro i hi
      rw [← prev_index_form]
      exact this i hi
    · intro a ha; rw [h.free a ha, h.tmpl]

theorem abs_congr {d d' : Deque} {as : List Nat}
    (h : ∀ b ∈ as, (d'.load b).value = (d.load b).value) : abs d' as = abs d as := by
  unfold abs
  exact List.map_congr_left h

@[simp] theorem abs_nil (d : Deque) : abs d [] = [] := rfl
@[simp] theorem abs_cons (d : Deque) (a : Nat) (as : List Nat) :
    abs d (a :: as) = (d.load a).value :: abs d as := rfl
@[simp] theorem abs_append (d : Deque) (l r : List Nat) : abs d (l ++ r) = abs d l ++ abs d r := by
  simp [abs]
@[simp] theorem abs_length (d : Deque) (as : List Nat) : (abs d as).length = as.length := by
  simp [abs]

/-! ### push -/

theorem pushBack_core {d : Deque} {as : List Nat} (h : Inv d [] as) (v : Nat) :
    ∃ d' a, d.pushBack v = some (d', a) ∧ Inv d' [] (as ++ [a]) ∧ d'.length = d.length + 1 ∧
      (d'.load a).value = v ∧ ∀ b, b ≠ a → (d'.load b).value = (d.load b).value := by
  obtain ⟨d1, a, hg, hi1, hl1, hla, hlo⟩ := getElement_inv h
  have hi2 : Inv (d1.setValue a v) [a] as := store_det_inv hi1 (by simp) _
  have hal := hi1.range a (by simp)
  have hld2 : (d1.setValue a v).load a = ⟨0, a, 0, v⟩ := by rw [load_store_self hal.2, hla]
  obtain ⟨d3, hp, hi3, hl3, hv3⟩ := doPushBack_inv hi2 (by rw [hld2]) (by rw [hld2]) (by rw [hld2])
  refine ⟨d3, a, by simp [pushBack, hg, hp], hi3, by rw [hl3, store_length, hl1], ?_, ?_⟩
  · rw [hv3, hld2]
  · intro b hb; rw [hv3, load_store_ne hb, hlo b hb]

theorem pushFront_core {d : Deque} {as : List Nat} (h : Inv d [] as) (v : Nat) :
    ∃ d' a, d.pushFront v = some (d', a) ∧ Inv d' [] (a :: as) ∧ d'.length = d.length + 1 ∧
      (d'.load a).value = v ∧ ∀ b, b ≠ a → (d'.load b).value = (d.load b).value := by
  obtain ⟨d1, a, hg, hi1, hl1, hla, hlo⟩ := getElement_inv h
  have hi2 : Inv (d1.setValue a v) [a] as := store_det_inv hi1 (by simp) _
  have hal := hi1.range a (by simp)
  have hld2 : (d1.setValue a v).load a = ⟨0, a, 0, v⟩ := by rw [load_store_self hal.2, hla]
  obtain ⟨d3, hp, hi3, hl3, hv3⟩ := doPushFront_inv hi2 (by rw [hld2]) (by rw [hld2]) (by rw [hld2])
  refine ⟨d3, a, by simp [pushFront, hg, hp], hi3, by rw [hl3, store_length, hl1], ?_, ?_⟩
  · rw [hv3, hld2]
  · intro b hb; rw [hv3, load_store_ne hb, hlo b hb]

/-! ### unlink-and-recycle: the common part of PopFront, PopBack and Remove -/

def unlink (d : Deque) (ele : Nat) : Option Deque := do
  let d ← d.doRemove ele
  let d := d.putElement ele
  return if d.length = 0 then d.autoReset else d

theorem unlink_inv {d : Deque} {l r : List Nat} {a : Nat} (h : Inv d [] (l ++ a :: r))
    (hlen : d.length = ((l ++ a :: r).length : Nat)) :
    ∃ d', d.unlink a = some d' ∧ Inv d' [] (l ++ r) ∧ d'.length = ((l ++ r).length : Nat) ∧
      ∀ b ∈ l ++ r, (d'.load b).value = (d.load b).value := by
  obtain ⟨d1, hrm, hi1, hl1, hla, hv1⟩ := doRemove_inv h
  have haddr : (d1.load a).addr = a := by rw [hla]; exact h.addr_eq (by simp)
  obtain ⟨hi2, hl2, hlo2, hmem⟩ := putElement_inv hi1 haddr
  have hn := h.nodup
  have hlen2 : (d1.putElement a).length = ((l ++ r).length : Nat) := by
    rw [hl2, hl1, hlen]; simp only [List.length_append, List.length_cons]; omega
  by_cases hz : (d1.putElement a).length = 0
  · have hnil : l ++ r = [] := by
      rw [hlen2] at hz
      exact List.eq_nil_of_length_eq_zero (by omega)
    obtain ⟨hi3, hl3⟩ := autoReset_inv (d := d1.putElement a) hi2.tmpl
    refine ⟨(d1.putElement a).autoReset, by simp [unlink, hrm, hz], by rw [hnil]; exact hi3,
      by rw [hl3, hnil]; rfl, ?_⟩
    rw [hnil]; simp
  · refine ⟨d1.putElement a, by simp [unlink, hrm, hz], hi2, hlen2, ?_⟩
    intro b hb
    have : b ≠ a := by grind
    rw [hlo2 b this, hv1]

theorem remove_eq_unlink {d : Deque} {a : Nat} (h0 : a ≠ 0) (hl : a < d.elements.length) :
    d.remove a = d.unlink a := by
  simp [remove, unlink, get_of_lt hl, h0]

theorem popFront_eq_unlink {d : Deque} {a : Nat} (hh : d.head = a) (h0 : a ≠ 0)
    (hl : a < d.elements.length) :
    d.popFront = (d.unlink a).map fun d' => (d', (d.load a).value) := by
  simp [popFront, front, unlink, hh, get_of_lt hl, h0]
  cases d.doRemove a <;> simp

theorem popBack_eq_unlink {d : Deque} {a : Nat} (hh : d.tail = a) (h0 : a ≠ 0)
    (hl : a < d.elements.length) :
    d.popBack = (d.unlink a).map fun d' => (d', (d.load a).value) := by
  simp [popBack, back, unlink, hh, get_of_lt hl, h0]
  cases d.doRemove a <;> simp

/-! ### insert -/

theorem insertAfter_core {d : Deque} {l r : List Nat} {m : Nat} (h : Inv d [] (l ++ m :: r)) (v : Nat) :
    ∃ d' a, d.insertAfter v m = some (d', a) ∧ Inv d' [] (l ++ m :: a :: r) ∧ d'.length = d.length + 1 ∧
      (d'.load a).value = v ∧ ∀ b, b ≠ a → (d'.load b).value = (d.load b).value := by
  have hm := h.range m (by simp)
  have h0 : Inv { d with length := d.length + 1 } [] (l ++ m :: r) := h.of_eq rfl rfl rfl rfl rfl
  obtain ⟨d1, e1, hg, hi1, hl1, hla, hlo⟩ := getElement_inv h0
  obtain ⟨d2, hlk, hi2, hl2, hv, hvo⟩ := linkAfter_inv (v := v) hi1 hla
  refine ⟨d2, e1, by rw [insertAfter_eq (by omega) hg, hlk], hi2, by rw [hl2, hl1], hv, ?_⟩
  intro b hb
  rw [hvo b hb, hlo b hb]; rfl

theorem insertBefore_core {d : Deque} {l r : List Nat} {m : Nat} (h : Inv d [] (l ++ m :: r)) (v : Nat) :
    ∃ d' a, d.insertBefore v m = some (d', a) ∧ Inv d' [] (l ++ a :: m :: r) ∧ d'.length = d.length + 1 ∧
      (d'.load a).value = v ∧ ∀ b, b ≠ a → (d'.load b).value = (d.load b).value := by
  have hm := h.range m (by simp)
  have h0 : Inv { d with length := d.length + 1 } [] (l ++ m :: r) := h.of_eq rfl rfl rfl rfl rfl
  obtain ⟨d1, e1, hg, hi1, hl1, hla, hlo⟩ := getElement_inv h0
  obtain ⟨d2, hlk, hi2, hl2, hv, hvo⟩ := linkBefore_inv (v := v) hi1 hla
  refine ⟨d2, e1, by rw [insertBefore_eq (by omega) hg, hlk], hi2, by rw [hl2, hl1], hv, ?_⟩
  intro b hb
  rw [hvo b hb, hlo b hb]; rfl

/-! ### move -/

theorem moveToBack_core {d : Deque} {l r : List Nat} {a : Nat} (h : Inv d [] (l ++ a :: r)) :
    ∃ d', d.moveToBack a = some d' ∧ Inv d' [] (l ++ r ++ [a]) ∧ d'.length = d.length ∧
      ∀ b, (d'.load b).value = (d.load b).value := by
  have ha := h.range a (by simp)
  obtain ⟨d1, hrm, hi1, hl1, hla, hv1⟩ := doRemove_inv h
  have ha1 := hi1.range a (by simp)
  have hi2 : Inv (d1.store a { d1.load a with prev := 0, next := 0 }) [a] (l ++ r) :=
    store_det_inv hi1 (by simp) _
  have hld2 : (d1.store a { d1.load a with prev := 0, next := 0 }).load a =
      { d.load a with prev := 0, next := 0 } := by rw [load_store_self ha1.2, hla]
  obtain ⟨d3, hp, hi3, hl3, hv3⟩ := doPushBack_inv hi2 (by rw [hld2]; exact h.addr_eq (by simp))
    (by rw [hld2]) (by rw [hld2])
  refine ⟨d3, by simp [moveToBack, get_of_lt ha.2, Nat.ne_of_gt ha.1, hrm, hp], hi3, ?_, ?_⟩
  · rw [hl3, store_length, hl1]; omega
  · intro b
    rw [hv3]
    by_cases hb : b = a
    · rw [hb, hld2]
    · rw [load_store_ne hb, hv1]

theorem moveToFront_core {d : Deque} {l r : List Nat} {a : Nat} (h : Inv d [] (l ++ a :: r)) :
    ∃ d', d.moveToFront a = some d' ∧ Inv d' [] (a :: (l ++ r)) ∧ d'.length = d.length ∧
      ∀ b, (d'.load b).value = (d.load b).value := by
  have ha := h.range a (by simp)
  obtain ⟨d1, hrm, hi1, hl1, hla, hv1⟩ := doRemove_inv h
  have ha1 := hi1.range a (by simp)
  have hi2 : Inv (d1.store a { d1.load a with prev := 0, next := 0 }) [a] (l ++ r) :=
    store_det_inv hi1 (by simp) _
  have hld2 : (d1.store a { d1.load a with prev := 0, next := 0 }).load a =
      { d.load a with prev := 0, next := 0 } := by rw [load_store_self ha1.2, hla]
  obtain ⟨d3, hp, hi3, hl3, hv3⟩ := doPushFront_inv hi2 (by rw [hld2]; exact h.addr_eq (by simp))
    (by rw [hld2]) (by rw [hld2])
  refine ⟨d3, by simp [moveToFront, get_of_lt ha.2, Nat.ne_of_gt ha.1, hrm, hp], hi3, ?_, ?_⟩
  · rw [hl3, store_length, hl1]; omega
  · intro b
    rw [hv3]
    by_cases hb : b = a
    · rw [hb, hld2]
    · rw [load_store_ne hb, hv1]

/-! ### update, reset -/

theorem store_value_inv {d : Deque} {det as : List Nat} {a : Nat} (h : Inv d det as) (ha : a ∈ as) (v : Nat) :
    Inv (d.setValue a v) det as := by
  have hn := h.nodup
  have hal := h.range a (by simp [ha])
  refine ⟨by simpa using h.tmpl, by simpa using h.nodup, by simpa using h.range, by simpa using h.cover,
    by simpa using h.head_eq, by simpa using h.tail_eq, ?_, ?_⟩
  · refine (chain_congr ?_).mpr h.links
    intro b hb
    by_cases hba : b = a
    · subst hba; rw [load_store_self hal.2]; simp
    · rw [load_store_ne hba]; simp
  · intro b hb
    simp only [store_stack] at hb
    rw [load_store_ne (by grind)]
    exact h.free b hb

theorem update_core {d : Deque} {det as : List Nat} {a : Nat} (h : Inv d det as) (ha : a ∈ as) (v : Nat) :
    d.update a v = some (d.setValue a v) ∧ Inv (d.setValue a v) det as ∧
      ((d.setValue a v).load a).value = v ∧ ∀ b, b ≠ a → (d.setValue a v).load b = d.load b := by
  have hal := h.range a (by simp [ha])
  refine ⟨by simp [update, get_of_lt hal.2, Nat.ne_of_gt hal.1], store_value_inv h ha v, ?_, ?_⟩
  · rw [load_store_self hal.2]
  · intro b hb; exact load_store_ne hb

/-! ### Range -/

/-- the specification of `Range` on a list of elements: fold the callback, stop after the first
element on which it answers `false` -/
def foldUntil {σ : Type} (f : σ → Elem → σ × Bool) : σ → List Elem → σ
  | s, [] => s
  | s, e :: es => if (f s e).2 = false then (f s e).1 else foldUntil f (f s e).1 es

theorem rangeLoop_chain {σ : Type} {d : Deque} (f : σ → Elem → σ × Bool) {p : Nat} {as : List Nat}
    (hc : Chain d.load p as 0) (hr : ∀ a ∈ as, 0 < a ∧ a < d.elements.length) {fuel : Nat}
    (hf : as.length ≤ fuel) (s : σ) :
    rangeLoop d f fuel (firstOr as 0) s = some (foldUntil f s (as.map d.load)) := by
  induction as generalizing p fuel s with
  | nil => cases fuel <;> simp [rangeLoop, foldUntil]
  | cons a rest ih =>
    cases fuel with
    | zero => simp at hf
    | succ fuel =>
      have ha := hr a (by simp)
      simp only [chain_cons] at hc
      have hnext : d.get (d.load a).next = some (firstOr rest 0) := by
        rw [hc.2.2.1]
        apply get_of_zero_or_lt
        rcases firstOr_mem_or rest 0 with ⟨h0, _⟩ | hm
        · exact Or.inl h0
        · exact Or.inr (hr _ (by simp [hm])).2
      simp only [firstOr_cons, rangeLoop, Nat.ne_of_gt ha.1, if_false, List.map_cons, foldUntil, hnext]
      split
      · rfl
      · exact ih hc.2.2.2 (fun b hb => hr b (by simp [hb])) (by simpa using hf) _

theorem range_core {σ : Type} {d : Deque} {det as : List Nat} (h : Inv d det as) (f : σ → Elem → σ × Bool)
    (s : σ) : d.range f s = some (foldUntil f s (as.map d.load)) := by
  have hget : d.get d.head = some (firstOr as 0) := by
    rw [h.head_eq]
    apply get_of_zero_or_lt
    rcases firstOr_mem_or as 0 with ⟨h0, _⟩ | hm
    · exact Or.inl h0
    · exact Or.inr (h.range _ (by simp [hm])).2
  have hfuel : as.length ≤ d.elements.length := by
    have := h.cover
    simp only [List.length_append] at this
    omega
  simp only [range, hget, Option.bind_eq_bind, Option.bind_some]
  exact rangeLoop_chain f h.links (fun a ha => h.range a (by simp [ha])) hfuel s

theorem foldUntil_collect (es : List Elem) (acc : List Nat) :
    foldUntil (fun (acc : List Nat) e => (acc ++ [e.value], true)) acc es = acc ++ es.map (·.value) := by
  induction es generalizing acc with
  | nil => simp [foldUntil]
  | cons e es ih => simp [foldUntil, ih]

theorem range_all_core {d : Deque} {det as : List Nat} (h : Inv d det as) :
    d.range (fun (acc : List Nat) e => (acc ++ [e.value], true)) [] = some (abs d as) := by
  rw [range_core h, foldUntil_collect]; simp [abs]

/-- the callback used by the `range k` observation: record up to `k` values, then ask to stop -/
def takeCb (k : Nat) : List Nat × Nat → Elem → (List Nat × Nat) × Bool :=
  fun s e => if s.2 ≥ k then (s, false) else ((s.1 ++ [e.value], s.2 + 1), true)

theorem foldUntil_takeCb (k : Nat) (es : List Elem) (acc : List Nat) (c : Nat) :
    (foldUntil (takeCb k) (acc, c) es).1 = acc ++ (es.map (·.value)).take (k - c) := by
  induction es generalizing acc c with
  | nil => simp [foldUntil]
  | cons e es ih =>
    by_cases hc : c ≥ k
    · have : k - c = 0 := by omega
      simp [foldUntil, takeCb, hc, this]
    · have : k - c = (k - (c + 1)) + 1 := by omega
      simp [foldUntil, takeCb, hc, ih, this]

theorem front_core {d : Deque} {det as : List Nat} (h : Inv d det as) : d.front = some (firstOr as 0) := by
  rw [front, h.head_eq]
  apply get_of_zero_or_lt
  rcases firstOr_mem_or as 0 with ⟨h0, _⟩ | hm
  · exact Or.inl h0
  · exact Or.inr (h.range _ (by simp [hm])).2

theorem back_core {d : Deque} {det as : List Nat} (h : Inv d det as) : d.back = some (lastOr as 0) := by
  rw [back, h.tail_eq]
  apply get_of_zero_or_lt
  rcases lastOr_mem_or as 0 with ⟨h0, _⟩ | hm
  · exact Or.inl h0
  · exact Or.inr (h.range _ (by simp [hm])).2

theorem clone_eq (d : Deque) : d.clone = d := by
  simp [clone]

/-! ### pigeonhole: distinct slots, all in range, as many as there are slots, are all the slots -/

theorem length_le_of_nodup_lt {L : List Nat} {N : Nat} (hn : L.Nodup) (hr : ∀ a ∈ L, a < N) :
    L.length ≤ N := by
  induction N generalizing L with
  | zero =>
    cases L with
    | nil => simp
    | cons a _ => exact absurd (hr a (by simp)) (by omega)
  | succ N ih =>
    have h1 : (L.erase N).Nodup := hn.erase N
    have h2 : ∀ a ∈ L.erase N, a < N := by
      intro a ha
      have := (List.Nodup.mem_erase_iff hn).mp ha
      have := hr a this.2
      omega
    have := ih h1 h2
    have := List.length_erase (a := N) (l := L)
    grind

theorem mem_of_nodup_lt_full {L : List Nat} {N : Nat} (hn : L.Nodup) (hr : ∀ a ∈ L, a < N)
    (hl : L.length = N) : ∀ i, i < N → i ∈ L := by
  induction N generalizing L with
  | zero => intro i hi; omega
  | succ N ih =>
    have h1 : (L.erase N).Nodup := hn.erase N
    have h2 : ∀ a ∈ L.erase N, a < N := by
      intro a ha
      have := (List.Nodup.mem_erase_iff hn).mp ha
      have := hr a this.2
      omega
    have hle := length_le_of_nodup_lt h1 h2
    have hlen := List.length_erase (a := N) (l := L)
    have hN : N ∈ L := by
      by_cases h : N ∈ L
      · exact h
      · rw [if_neg h] at hlen; omega
    intro i hi
    by_cases hiN : i = N
    · exact hiN ▸ hN
    · have : (L.erase N).length = N := by rw [if_pos hN] at hlen; omega
      exact List.mem_of_mem_erase (ih h1 h2 this i (by omega))

theorem slots_cover {L : List Nat} {N : Nat} (hn : L.Nodup) (hr : ∀ a ∈ L, 0 < a ∧ a < N)
    (hl : L.length = N - 1) : ∀ i, 0 < i → i < N → i ∈ L := by
  intro i hi0 hiN
  have h0 : 0 ∉ L := fun h => by have := (hr 0 h).1; omega
  have := mem_of_nodup_lt_full (L := 0 :: L) (N := N) (List.nodup_cons.mpr ⟨h0, hn⟩)
    (by intro a ha; rcases List.mem_cons.mp ha with rfl | ha
        · omega
        · exact (hr a ha).2)
    (by simp [hl]; omega) i hiN
  rcases List.mem_cons.mp this with rfl | h
  · omega
  · exact h

end Deque
