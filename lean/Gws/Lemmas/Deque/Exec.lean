import Gws.Lemmas.Deque.Basic
/-!
# Deque: symbolic execution of the internal steps

Each lemma runs one internal function of the model on a state about which only what the function
reads is assumed (addresses in range, the few distinctness facts it relies on) and describes the
result through its scalar fields and through `load`.  No invariant is involved here.
-/

namespace Deque

/-- `d'` has the same stack, template and number of slots as `d` -/
def SameShape (d d' : Deque) : Prop :=
  d'.stack = d.stack ∧ d'.template = d.template ∧ d'.elements.length = d.elements.length

/-! ### getElement -/

/-- zero value: the sentinel slot is created first, the new slot is 1 -/
theorem getElement_zero {d : Deque} (he : d.elements = []) (hs : d.stack = []) :
    ∃ d', d.getElement = some (d', 1) ∧ d'.head = d.head ∧ d'.tail = d.tail ∧ d'.length = d.length ∧
      d'.template = d.template ∧ d'.stack = [] ∧ d'.elements.length = 2 ∧
      ∀ b, d'.load b = if b = 1 then { d.load 1 with addr := 1 } else d.load b := by
  obtain ⟨h, t, l, s, els, tm⟩ := d
  simp only at he hs
  subst he hs
  simp [getElement, get, store, load]
  intro b
  match b with
  | 0 => simp
  | 1 => simp
  | b + 2 => simp

/-- a recycled slot is popped from the stack -/
theorem getElement_pop {d : Deque} {x : Nat} {rest : List Nat} (hs : d.stack = x :: rest)
    (hx0 : 0 < x) (hx : x < d.elements.length) :
    ∃ d', d.getElement = some (d', x) ∧ d'.head = d.head ∧ d'.tail = d.tail ∧ d'.length = d.length ∧
      d'.template = d.template ∧ d'.stack = rest ∧ d'.elements.length = d.elements.length ∧
      ∀ b, d'.load b = if b = x then { d.load x with addr := x } else d.load b := by
  obtain ⟨h, t, l, s, els, tm⟩ := d
  simp only at hs hx
  subst hs
  have hne : els.length ≠ 0 := by omega
  have hx0' : x ≠ 0 := by omega
  simp [getElement, get, store, load, getD_set, hne, hx0, hx, hx0']

/-- no recycled slot: a copy of the template is appended -/
theorem getElement_grow {d : Deque} (he : d.elements ≠ []) (hs : d.stack = []) :
    ∃ d', d.getElement = some (d', d.elements.length) ∧ d'.head = d.head ∧ d'.tail = d.tail ∧
      d'.length = d.length ∧ d'.template = d.template ∧ d'.stack = [] ∧
      d'.elements.length = d.elements.length + 1 ∧
      ∀ b, d'.load b = if b = d.elements.length then { d.load d.elements.length with addr := d.elements.length }
        else d.load b := by
  obtain ⟨h, t, l, s, els, tm⟩ := d
  simp only at he hs
  subst hs
  have hne : els.length ≠ 0 := by simpa using he
  have hpos : 0 < els.length := by omega
  simp [getElement, get, store, load, hne, hpos]
  intro b
  by_cases hb : b = els.length
  · simp [hb]
  · simp only [hb, ↓reduceIte]
    by_cases hb2 : b < els.length
    · simp [List.getElem?_append_left hb2]
    · have : els.length + 1 ≤ b := by omega
      rw [List.getElem?_eq_none (by simpa using this), List.getElem?_eq_none (by omega)]

/-! ### putElement, autoReset -/

theorem putElement_spec {d : Deque} {a : Nat} (ha : a < d.elements.length) :
    (d.putElement a).head = d.head ∧ (d.putElement a).tail = d.tail ∧ (d.putElement a).length = d.length ∧
      (d.putElement a).template = d.template ∧ (d.putElement a).stack = (d.load a).addr :: d.stack ∧
      (d.putElement a).elements.length = d.elements.length ∧
      ∀ b, (d.putElement a).load b = if b = a then d.template else d.load b := by
  obtain ⟨h, t, l, s, els, tm⟩ := d
  simp only at ha
  simp [putElement, store, load, getD_set, ha]

theorem autoReset_spec (d : Deque) :
    d.autoReset.head = 0 ∧ d.autoReset.tail = 0 ∧ d.autoReset.length = 0 ∧
      d.autoReset.template = d.template ∧ d.autoReset.stack = [] ∧
      d.autoReset.elements.length = min 1 d.elements.length := by
  obtain ⟨h, t, l, s, els, tm⟩ := d
  cases els with
  | nil => simp [autoReset]
  | cons e els => simp [autoReset]

/-! ### doPushBack / doPushFront -/

theorem doPushBack_empty {d : Deque} {a : Nat} (ht : d.tail = 0) :
    ∃ d', d.doPushBack a = some d' ∧ d'.head = (d.load a).addr ∧ d'.tail = (d.load a).addr ∧
      d'.length = d.length + 1 ∧ SameShape d d' ∧ ∀ b, d'.load b = d.load b := by
  obtain ⟨h, t, l, s, els, tm⟩ := d
  simp only at ht
  subst ht
  simp [doPushBack, load, SameShape]

theorem doPushBack_nonempty {d : Deque} {a t : Nat} (ht : d.tail = t) (ht0 : t ≠ 0)
    (htl : t < d.elements.length) (hal : a < d.elements.length) (hne : t ≠ a) :
    ∃ d', d.doPushBack a = some d' ∧ d'.head = d.head ∧ d'.tail = (d.load a).addr ∧
      d'.length = d.length + 1 ∧ SameShape d d' ∧
      ∀ b, d'.load b = if b = a then { d.load a with prev := (d.load t).addr }
        else if b = t then { d.load t with next := (d.load a).addr } else d.load b := by
  obtain ⟨h, t', l, s, els, tm⟩ := d
  simp only at ht htl hal
  subst ht
  simp [doPushBack, get, load, store, getD_set, ht0, hne, hal, htl, Nat.pos_of_ne_zero ht0, SameShape]

theorem doPushFront_empty {d : Deque} {a : Nat} (ht : d.head = 0) :
    ∃ d', d.doPushFront a = some d' ∧ d'.head = (d.load a).addr ∧ d'.tail = (d.load a).addr ∧
      d'.length = d.length + 1 ∧ SameShape d d' ∧ ∀ b, d'.load b = d.load b := by
  obtain ⟨h, t, l, s, els, tm⟩ := d
  simp only at ht
  subst ht
  simp [doPushFront, load, SameShape]

theorem doPushFront_nonempty {d : Deque} {a t : Nat} (ht : d.head = t) (ht0 : t ≠ 0)
    (htl : t < d.elements.length) (hal : a < d.elements.length) (hne : t ≠ a) :
    ∃ d', d.doPushFront a = some d' ∧ d'.head = (d.load a).addr ∧ d'.tail = d.tail ∧
      d'.length = d.length + 1 ∧ SameShape d d' ∧
      ∀ b, d'.load b = if b = a then { d.load a with next := (d.load t).addr }
        else if b = t then { d.load t with prev := (d.load a).addr } else d.load b := by
  obtain ⟨h, t', l, s, els, tm⟩ := d
  simp only at ht htl hal
  subst ht
  simp [doPushFront, get, load, store, getD_set, ht0, hne, hal, htl, Nat.pos_of_ne_zero ht0, SameShape]

/-! ### doRemove -/

/-- `doRemove a` where `P`/`N` are the neighbours recorded in slot `a` (0 = none) -/
theorem doRemove_spec {d : Deque} {a P N : Nat} (hP : (d.load a).prev = P) (hN : (d.load a).next = N)
    (hPl : P < d.elements.length) (hNl : N < d.elements.length) (hPN : P ≠ 0 → P ≠ N) :
    ∃ d', d.doRemove a = some d' ∧ d'.length = d.length - 1 ∧ SameShape d d' ∧
      d'.head = (if P = 0 then (if N = 0 then 0 else (d.load N).addr) else d.head) ∧
      d'.tail = (if N = 0 then (if P = 0 then 0 else (d.load P).addr) else d.tail) ∧
      ∀ b, d'.load b =
        if b = N ∧ N ≠ 0 then { d.load N with prev := if P = 0 then 0 else (d.load P).addr }
        else if b = P ∧ P ≠ 0 then { d.load P with next := if N = 0 then 0 else (d.load N).addr }
        else d.load b := by
  obtain ⟨h, t, l, s, els, tm⟩ := d
  simp only at hPl hNl
  simp only [load_mk] at hP hN
  by_cases hP0 : P = 0 <;> by_cases hN0 : N = 0
  · subst hP0 hN0
    simp [doRemove, load, store, getD_set, hP, hN, SameShape]
  · subst hP0
    simp [doRemove, get, load, store, getD_set, hP, hN, SameShape, hN0, hNl, Nat.pos_of_ne_zero hN0]
  · subst hN0
    simp [doRemove, get, load, store, getD_set, hP, hN, SameShape, hP0, hPl, Nat.pos_of_ne_zero hP0]
  · have hPN' := hPN hP0
    simp [doRemove, get, load, store, getD_set, hP, hN, SameShape, hP0, hPl, Nat.pos_of_ne_zero hP0,
      hN0, hNl, Nat.pos_of_ne_zero hN0, Ne.symm hPN']

/-! ### the linking halves of InsertAfter / InsertBefore -/

/-- `InsertAfter` from the statement after `getElement` on -/
def linkAfter (d : Deque) (e1 value mark : Nat) : Option (Deque × Nat) := do
  let e0 ← d.get mark
  let e2 ← d.get (d.load e0).next
  let d := d.store e1 { d.load e1 with prev := (d.load e0).addr, next := (d.load e0).next, value := value }
  let d := if e2 ≠ 0 then d.setPrev e2 (d.load e1).addr else d
  let d := d.setNext e0 (d.load e1).addr
  let d := if (d.load e1).next = 0 then { d with tail := (d.load e1).addr } else d
  return (d, e1)

theorem insertAfter_eq {d d1 : Deque} {value mark e1 : Nat} (hm : mark ≠ 0)
    (hge : getElement { d with length := d.length + 1 } = some (d1, e1)) :
    d.insertAfter value mark = linkAfter d1 e1 value mark := by
  simp [insertAfter, hm, hge, linkAfter]

theorem linkAfter_spec {d : Deque} {e1 v m N : Nat} (hm0 : m ≠ 0) (hml : m < d.elements.length)
    (hel : e1 < d.elements.length) (hem : e1 ≠ m) (hN : (d.load m).next = N)
    (hNl : N < d.elements.length) (hNe : N ≠ e1) (hNm : N ≠ m) :
    ∃ d', d.linkAfter e1 v m = some (d', e1) ∧ d'.length = d.length ∧ SameShape d d' ∧
      d'.head = d.head ∧ d'.tail = (if N = 0 then (d.load e1).addr else d.tail) ∧
      ∀ b, d'.load b =
        if b = m then { d.load m with next := (d.load e1).addr }
        else if b = N ∧ N ≠ 0 then { d.load N with prev := (d.load e1).addr }
        else if b = e1 then { d.load e1 with prev := (d.load m).addr, next := N, value := v }
        else d.load b := by
  obtain ⟨h, t, l, s, els, tm⟩ := d
  simp only at hml hel hNl
  simp [hml] at hN
  by_cases hN0 : N = 0
  · subst hN0
    simp [linkAfter, get, load, store, getD_set, hN, SameShape, hml, hel, hem,
      Nat.pos_of_ne_zero hm0]
  · simp [linkAfter, get, load, store, getD_set, hN, SameShape, hml, hel, hem,
      Nat.pos_of_ne_zero hm0, hN0, hNl, hNe, hNm, Nat.pos_of_ne_zero hN0]

/-- `InsertBefore` from the statement after `getElement` on -/
def linkBefore (d : Deque) (e1 value mark : Nat) : Option (Deque × Nat) := do
  let e2 ← d.get mark
  let e0 ← d.get (d.load e2).prev
  let d := d.store e1 { d.load e1 with prev := (d.load e2).prev, next := (d.load e2).addr, value := value }
  let d := if e0 ≠ 0 then d.setNext e0 (d.load e1).addr else d
  let d := d.setPrev e2 (d.load e1).addr
  let d := if (d.load e1).prev = 0 then { d with head := (d.load e1).addr } else d
  return (d, e1)

theorem insertBefore_eq {d d1 : Deque} {value mark e1 : Nat} (hm : mark ≠ 0)
    (hge : getElement { d with length := d.length + 1 } = some (d1, e1)) :
    d.insertBefore value mark = linkBefore d1 e1 value mark := by
  simp [insertBefore, hm, hge, linkBefore]

theorem linkBefore_spec {d : Deque} {e1 v m P : Nat} (hm0 : m ≠ 0) (hml : m < d.elements.length)
    (hel : e1 < d.elements.length) (hem : e1 ≠ m) (hP : (d.load m).prev = P)
    (hPl : P < d.elements.length) (hPe : P ≠ e1) (hPm : P ≠ m) :
    ∃ d', d.linkBefore e1 v m = some (d', e1) ∧ d'.length = d.length ∧ SameShape d d' ∧
      d'.tail = d.tail ∧ d'.head = (if P = 0 then (d.load e1).addr else d.head) ∧
      ∀ b, d'.load b =
        if b = m then { d.load m with prev := (d.load e1).addr }
        else if b = P ∧ P ≠ 0 then { d.load P with next := (d.load e1).addr }
        else if b = e1 then { d.load e1 with prev := P, next := (d.load m).addr, value := v }
        else d.load b := by
  obtain ⟨h, t, l, s, els, tm⟩ := d
  simp only at hml hel hPl
  simp [hml] at hP
  by_cases hP0 : P = 0
  · subst hP0
    simp [linkBefore, get, load, store, getD_set, hP, SameShape, hml, hel, hem,
      Nat.pos_of_ne_zero hm0]
  · simp [linkBefore, get, load, store, getD_set, hP, SameShape, hml, hel, hem,
      Nat.pos_of_ne_zero hm0, hP0, hPl, hPe, hPm, Nat.pos_of_ne_zero hP0]

end Deque
