import Gws.Model.Deque
/-!
# Deque: `load`/`store` algebra and symbolic execution helpers

Normal form used by the proofs: scalar fields and `load` of the *initial* state stay folded, modified
slot arrays are `List.set`s read back through `getD_set`.
-/

namespace Deque

@[simp] theorem load_mk (h t : Nat) (l : Int) (s : List Nat) (els : List Elem) (tm : Elem) (p : Nat) :
    load ⟨h, t, l, s, els, tm⟩ p = els[p]?.getD tm := rfl

@[simp] theorem store_head (d : Deque) (p : Nat) (e : Elem) : (d.store p e).head = d.head := rfl
@[simp] theorem store_tail (d : Deque) (p : Nat) (e : Elem) : (d.store p e).tail = d.tail := rfl
@[simp] theorem store_length (d : Deque) (p : Nat) (e : Elem) : (d.store p e).length = d.length := rfl
@[simp] theorem store_stack (d : Deque) (p : Nat) (e : Elem) : (d.store p e).stack = d.stack := rfl
@[simp] theorem store_template (d : Deque) (p : Nat) (e : Elem) : (d.store p e).template = d.template := rfl
@[simp] theorem store_elements (d : Deque) (p : Nat) (e : Elem) :
    (d.store p e).elements = d.elements.set p e := rfl

theorem getD_set {α : Type} (l : List α) (p q : Nat) (e tm : α) :
    (l.set p e)[q]?.getD tm = if q = p ∧ p < l.length then e else l[q]?.getD tm := by
  simp only [List.getElem?_set]
  by_cases h : p = q
  · subst h; by_cases h2 : p < l.length <;> simp [h2]
  · have : ¬ q = p := fun e => h e.symm
    simp [h, this]

theorem load_def (d : Deque) (p : Nat) : d.elements[p]?.getD d.template = d.load p := rfl

theorem load_store (d : Deque) (p q : Nat) (e : Elem) :
    (d.store p e).load q = if q = p ∧ p < d.elements.length then e else d.load q := by
  simp [load, store, getD_set]

theorem load_store_self {d : Deque} {p : Nat} {e : Elem} (h : p < d.elements.length) :
    (d.store p e).load p = e := by simp [load_store, h]

theorem load_store_ne {d : Deque} {p q : Nat} {e : Elem} (h : q ≠ p) :
    (d.store p e).load q = d.load q := by simp [load_store, h]

theorem load_of_ge {d : Deque} {p : Nat} (h : d.elements.length ≤ p) : d.load p = d.template := by
  simp [load, List.getElem?_eq_none h]

theorem get_zero (d : Deque) : d.get 0 = some 0 := by simp [get]

theorem get_of_lt {d : Deque} {a : Nat} (h : a < d.elements.length) : d.get a = some a := by
  unfold get; split
  · simp
  · have : a = 0 := by omega
    subst this; rfl

/-- `get` on a pointer field that is either nil or in range -/
theorem get_of_zero_or_lt {d : Deque} {a : Nat} (h : a = 0 ∨ a < d.elements.length) : d.get a = some a := by
  rcases h with rfl | h
  · exact get_zero d
  · exact get_of_lt h

/-! ### first / last of a list of addresses with a default (the nil pointer or a neighbour) -/

/-- first element of `l`, or `n` -/
def firstOr : List Nat → Nat → Nat
  | [], n => n
  | a :: _, _ => a

/-- last element of `l`, or `p` -/
def lastOr : List Nat → Nat → Nat
  | [], p => p
  | a :: r, _ => lastOr r a

@[simp] theorem firstOr_nil (n : Nat) : firstOr [] n = n := rfl
@[simp] theorem firstOr_cons (a : Nat) (l : List Nat) (n : Nat) : firstOr (a :: l) n = a := rfl
@[simp] theorem lastOr_nil (p : Nat) : lastOr [] p = p := rfl
@[simp] theorem lastOr_cons (a : Nat) (l : List Nat) (p : Nat) : lastOr (a :: l) p = lastOr l a := rfl

@[simp] theorem firstOr_append (l r : List Nat) (n : Nat) : firstOr (l ++ r) n = firstOr l (firstOr r n) := by
  cases l <;> simp

@[simp] theorem lastOr_append (l r : List Nat) (p : Nat) : lastOr (l ++ r) p = lastOr r (lastOr l p) := by
  induction l generalizing p with
  | nil => simp
  | cons a l ih => simp [ih]

theorem firstOr_eq_head? (l : List Nat) (n : Nat) : firstOr l n = l.head?.getD n := by
  cases l <;> simp

theorem lastOr_eq_getLast? (l : List Nat) (p : Nat) : lastOr l p = l.getLast?.getD p := by
  induction l generalizing p with
  | nil => simp
  | cons a l ih => simp [ih, List.getLast?_cons]

theorem firstOr_mem {l : List Nat} {n : Nat} (h : l ≠ []) : firstOr l n ∈ l := by
  cases l with
  | nil => exact absurd rfl h
  | cons a l => simp

theorem lastOr_mem_or (l : List Nat) (p : Nat) : lastOr l p = p ∧ l = [] ∨ lastOr l p ∈ l := by
  induction l generalizing p with
  | nil => simp
  | cons a l ih =>
    rcases ih a with ⟨h, _⟩ | h
    · simp [h]
    · simp [h]

theorem lastOr_mem {l : List Nat} {p : Nat} (h : l ≠ []) : lastOr l p ∈ l := by
  rcases lastOr_mem_or l p with ⟨_, h'⟩ | h'
  · exact absurd h' h
  · exact h'

/-- a non-empty list ends in its `lastOr` -/
theorem eq_snoc_of_ne_nil {l : List Nat} (h : l ≠ []) : ∃ l' x, l = l' ++ [x] := by
  induction l with
  | nil => exact absurd rfl h
  | cons a l ih =>
    cases l with
    | nil => exact ⟨[], a, rfl⟩
    | cons b l =>
      obtain ⟨l', x, hx⟩ := ih (by simp)
      exact ⟨a :: l', x, by rw [hx]; rfl⟩

/-! ### doubly linked segments -/

/-- `Chain ld p as n`: read through `ld`, the slots `as` form a doubly linked segment in this order,
whose first element has predecessor `p` and whose last element has successor `n`; every element
carries its own address. -/
def Chain (ld : Nat → Elem) : Nat → List Nat → Nat → Prop
  | _, [], _ => True
  | p, a :: rest, n =>
    (ld a).addr = a ∧ (ld a).prev = p ∧ (ld a).next = firstOr rest n ∧ Chain ld a rest n

@[simp] theorem chain_nil (ld : Nat → Elem) (p n : Nat) : Chain ld p [] n := trivial

@[simp] theorem chain_cons (ld : Nat → Elem) (p a n : Nat) (rest : List Nat) :
    Chain ld p (a :: rest) n ↔
      (ld a).addr = a ∧ (ld a).prev = p ∧ (ld a).next = firstOr rest n ∧ Chain ld a rest n := Iff.rfl

theorem chain_append (ld : Nat → Elem) (p n : Nat) (l r : List Nat) :
    Chain ld p (l ++ r) n ↔ Chain ld p l (firstOr r n) ∧ Chain ld (lastOr l p) r n := by
  induction l generalizing p with
  | nil => simp
  | cons a l ih => simp [ih, and_assoc]

theorem chain_snoc (ld : Nat → Elem) (p n x : Nat) (l : List Nat) :
    Chain ld p (l ++ [x]) n ↔
      Chain ld p l x ∧ (ld x).addr = x ∧ (ld x).prev = lastOr l p ∧ (ld x).next = n := by
  simp [chain_append]

theorem chain_mid (ld : Nat → Elem) (p n a : Nat) (l r : List Nat) :
    Chain ld p (l ++ a :: r) n ↔
      Chain ld p l a ∧ (ld a).addr = a ∧ (ld a).prev = lastOr l p ∧ (ld a).next = firstOr r n ∧
        Chain ld a r n := by
  simp [chain_append]

/-- a segment only depends on the link fields of its own slots -/
theorem chain_congr {ld ld' : Nat → Elem} {p n : Nat} {as : List Nat}
    (h : ∀ b ∈ as, (ld' b).addr = (ld b).addr ∧ (ld' b).prev = (ld b).prev ∧ (ld' b).next = (ld b).next) :
    Chain ld' p as n ↔ Chain ld p as n := by
  induction as generalizing p with
  | nil => simp
  | cons a as ih =>
    have ha := h a (by simp)
    have := @ih a (fun b hb => h b (by simp [hb]))
    simp [ha.1, ha.2.1, ha.2.2, this]

theorem chain_congr_eq {ld ld' : Nat → Elem} {p n : Nat} {as : List Nat}
    (h : ∀ b ∈ as, ld' b = ld b) : Chain ld' p as n ↔ Chain ld p as n :=
  chain_congr (fun b hb => by simp [h b hb])

/-- the successor argument is irrelevant for an empty segment and is the `next` of the last slot
otherwise; likewise the predecessor -/
theorem chain_addr {ld : Nat → Elem} {p n : Nat} {as : List Nat} (h : Chain ld p as n) :
    ∀ b ∈ as, (ld b).addr = b := by
  induction as generalizing p with
  | nil => simp
  | cons a as ih =>
    intro b hb
    simp only [chain_cons] at h
    rcases List.mem_cons.mp hb with rfl | hb
    · exact h.1
    · exact ih h.2.2.2 b hb

/-! ### the invariant -/

/-- Invariant of the intermediate states: `as` is the live sequence, `det` are slots that are
currently neither linked nor free (taken by `getElement` and not linked yet, or unlinked by `doRemove`
and not recycled or relinked yet).  `length` is left out: `InsertAfter`/`InsertBefore` bump it early. -/
structure Inv (d : Deque) (det as : List Nat) : Prop where
  tmpl : d.template = {}
  nodup : (det ++ as ++ d.stack).Nodup
  range : ∀ a ∈ det ++ as ++ d.stack, 0 < a ∧ a < d.elements.length
  cover : (det ++ as ++ d.stack).length = d.elements.length - 1
  head_eq : d.head = firstOr as 0
  tail_eq : d.tail = lastOr as 0
  links : Chain d.load 0 as 0
  free : ∀ a ∈ d.stack, d.load a = {}

/-- the sequence of values behind the live handles `as` -/
def abs (d : Deque) (as : List Nat) : List Nat := as.map fun a => (d.load a).value

end Deque
