/-!
# Basic vocabulary shared by the model, the specs and the driver

`Bytes` is the model's view of a Go `[]byte` that is only read; slices that are written through are
threaded explicitly.  `goCopy` is the Go builtin `copy(dst[off:], src)`; `lastN` is the
"suffix of what was written" spec used by C17 and C02.
-/

abbrev Bytes := List UInt8

/-- Go's builtin `copy(dst[off:], src)` on a slice of fixed length (memmove semantics: the source is
read before the destination is written, so overlapping copies within one slice are modelled by
passing the old value as `src`). -/
def goCopy (dst : Bytes) (off : Nat) (src : Bytes) : Bytes :=
  let k := min src.length (dst.length - off)
  dst.take off ++ src.take k ++ dst.drop (off + k)

/-- the last `k` elements of `l` (all of `l` if it is shorter) -/
def lastN {α : Type} (k : Nat) (l : List α) : List α := l.drop (l.length - k)

@[simp] theorem lastN_length {α : Type} (k : Nat) (l : List α) : (lastN k l).length = min k l.length := by
  unfold lastN; simp; omega

theorem lastN_of_length_le {α : Type} (k : Nat) (l : List α) (h : l.length ≤ k) : lastN k l = l := by
  unfold lastN; have : l.length - k = 0 := by omega
  simp [this]

theorem lastN_append_of_le {α : Type} (k : Nat) (a b : List α) (h : k ≤ b.length) :
    lastN k (a ++ b) = lastN k b := by
  unfold lastN
  rw [List.drop_append]
  have h1 : a.length + b.length - k - a.length = b.length - k := by omega
  have h2 : List.drop ((a ++ b).length - k) a = [] := by
    apply List.drop_eq_nil_of_le; simp; omega
  simp only [List.length_append] at h2 ⊢
  rw [h2, h1]; simp

/-- `lastN` composes: keeping the last `k` of (the last `k` of `a`) ++ `b` is keeping the last `k`
of `a ++ b`. This is what makes the window a function of the whole history. -/
theorem lastN_lastN_append {α : Type} (k : Nat) (a b : List α) :
    lastN k (lastN k a ++ b) = lastN k (a ++ b) := by
  unfold lastN
  rw [List.drop_append, List.drop_append, List.drop_drop]
  simp only [List.length_append, List.length_drop]
  congr 1
  · congr 1; omega
  · congr 1; omega
