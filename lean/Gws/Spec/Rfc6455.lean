import Gws.Basic
import Gws.Spec.Utf8
import Gws.Model.Codec
/-!
# RFC 6455 §5 / RFC 7692 §6 receiver, written from the RFCs and the property text

A frame-at-a-time receiver: decode one header by the RFC's field layout with *unsigned* lengths;
evaluate every header rule on it as an unordered set of violations (each with the statuses it may be
answered with); only a clean header lets its payload be taken and the fragmentation rules be
applied.  Nothing here is derived from the Go code; the constants are the RFC's.

Latitude the property leaves open (DESIGN.md §5/C03): non-minimal length encodings are accepted on
data frames; a control frame must use the 7-bit length form; a frame larger than the read limit may
be failed with 1009 whatever its type; a violating frame whose payload has not fully arrived may be
judged before or after the end of input is noticed.
-/

namespace Spec

structure Hdr where
  fin : Bool
  rsv1 : Bool
  rsv2 : Bool
  rsv3 : Bool
  opcode : Nat
  masked : Bool
  lenForm : Nat        -- 7, 16 or 64
  len : Nat            -- unsigned payload length
  key : Bytes          -- masking key (4 bytes) iff masked
deriving Repr, DecidableEq

def beNat (l : Bytes) : Nat := l.foldl (fun acc x => acc * 256 + x.toNat) 0

/-- RFC 6455 §5.2 base framing; `none` = the bytes end before the header is complete -/
def decodeHdr (b : Bytes) : Option (Hdr × Bytes) :=
  match b with
  | x0 :: x1 :: r =>
    let b0 := x0.toNat
    let b1 := x1.toNat
    let code := b1 % 128
    let lenPart : Option (Nat × Nat × Bytes) :=
      if code = 126 then (if r.length < 2 then none else some (16, beNat (r.take 2), r.drop 2))
      else if code = 127 then (if r.length < 8 then none else some (64, beNat (r.take 8), r.drop 8))
      else some (7, code, r)
    match lenPart with
    | none => none
    | some (form, len, r1) =>
      let masked := b1 / 128 = 1
      if masked then
        if r1.length < 4 then none
        else some ({ fin := b0 / 128 = 1, rsv1 := b0 / 64 % 2 = 1, rsv2 := b0 / 32 % 2 = 1, rsv3 := b0 / 16 % 2 = 1,
                     opcode := b0 % 16, masked := true, lenForm := form, len := len, key := r1.take 4 }, r1.drop 4)
      else some ({ fin := b0 / 128 = 1, rsv1 := b0 / 64 % 2 = 1, rsv2 := b0 / 32 % 2 = 1, rsv3 := b0 / 16 % 2 = 1,
                   opcode := b0 % 16, masked := false, lenForm := form, len := len, key := [] }, r1)
  | _ => none

/-- RFC 6455 §5.3 -/
def unmask (key : Bytes) (p : Bytes) : Bytes :=
  p.mapIdx fun i x => x ^^^ key.getD (i % 4) 0

structure Ctx where
  isServer : Bool
  ext : Bool            -- permessage-deflate negotiated
  keepCtx : Bool        -- the inbound direction keeps its LZ77 context
  winSize : Nat         -- … in a window of this many bytes (2^bits)
  limit : Int           -- maximum message size the application configured
  utf8 : Bool           -- text/close-reason validation on
deriving Repr

def isControl (op : Nat) : Bool := op ≥ 8
def knownOpcode (op : Nat) : Bool := op = 0 ∨ op = 1 ∨ op = 2 ∨ op = 8 ∨ op = 9 ∨ op = 10

/-- statuses a receiver may answer this header with; `[]` = the header is acceptable -/
def hdrViolations (ctx : Ctx) (h : Hdr) : List Nat :=
  (if ctx.isServer ≠ h.masked then [1002] else []) ++                       -- §5.1 masking
  (if h.rsv2 ∨ h.rsv3 ∨ (h.rsv1 ∧ ¬ (ctx.ext ∧ (h.opcode = 1 ∨ h.opcode = 2))) then [1002] else []) ++  -- §5.2, RFC 7692 §6
  (if ¬ knownOpcode h.opcode then [1002] else []) ++                         -- §5.2 opcode
  (if isControl h.opcode ∧ (¬ h.fin ∨ h.lenForm ≠ 7) then [1002] else []) ++ -- §5.5
  (if h.lenForm = 64 ∧ h.len ≥ 2 ^ 63 then [1002, 1009] else []) ++          -- §5.2 most significant bit MUST be 0
  (if (h.len : Int) > ctx.limit then [1009] else [])                         -- message too big for the receiver

/-- statuses allowed when a compressed message cannot be inflated within the limit -/
def inflateFailStatuses : List Nat := [1002, 1003, 1007, 1008, 1009, 1010, 1011]

/-- RFC 6455 §7.4: is `code` forbidden in a Close frame on the wire -/
def closeCodeForbidden (code : Nat) : Prop :=
  code < 1000 ∨ (1004 ≤ code ∧ code ≤ 1006) ∨ code = 1015 ∨ (1016 ≤ code ∧ code ≤ 2999) ∨ code ≥ 5000

instance : DecidablePred closeCodeForbidden := fun _ => by unfold closeCodeForbidden; infer_instance

/-- C06: replies allowed to a Close frame with this body; `none` = empty Close body -/
def closeReplies (utf8 : Bool) (body : Bytes) : List (Option Nat) :=
  match body with
  | [] => [none]
  | [_] => [some 1002]
  | a :: b :: reason =>
    let code := a.toNat * 256 + b.toNat
    let badReason := utf8 ∧ ¬ Spec.Utf8.valid reason
    if badReason then (some 1007) :: (if closeCodeForbidden code then [some 1002] else [])
    else if closeCodeForbidden code then [some 1002]
    else if 3000 ≤ code ∧ code ≤ 4999 then [some code]
    else [some 1000]

/-- what the application is told about a peer's Close frame: (code, reason) -/
def closeSeen (body : Bytes) : Nat × Bytes :=
  match body with
  | [] => (0, [])
  | [x] => (x.toNat, [])
  | a :: b :: reason => (a.toNat * 256 + b.toNat, reason)

inductive Ev where
  | msg (opcode : Nat) (payload : Bytes)
  | ping (payload : Bytes)
  | pong (payload : Bytes)
deriving Repr, DecidableEq

inductive Ending where
  | fail (allowed : List Nat) (ioAlso : Bool)   -- connection failed; reply status ∈ allowed (or an I/O closure if `ioAlso`)
  | peerClose (code : Nat) (reason : Bytes) (replies : List (Option Nat))
  | eof                                           -- the input ended (inside a frame or between frames)
deriving Repr, DecidableEq

/-- message being reassembled: opcode, compressed?, bytes so far -/
structure Partial where
  opcode : Nat
  compressed : Bool
  acc : Bytes
deriving Repr, DecidableEq

structure RxState where
  inMsg : Option Partial := none
  hist : Bytes := []        -- payloads of the compressed messages delivered so far (RFC 7692 §7.2.2 history)
deriving Repr

inductive Step where
  | ok (s : RxState) (evs : List Ev) (rest : Bytes)
  | stop (e : Ending)
deriving Repr

/-- the LZ77 dictionary a window-limited receiver has: the last `winSize` bytes of the history -/
def dictOf (ctx : Ctx) (hist : Bytes) : Bytes := if ctx.keepCtx then lastN ctx.winSize hist else []

/-- complete message `data` (wire bytes of all fragments): inflate if compressed, validate, deliver -/
def finish (ctx : Ctx) (codec : Codec) (s : RxState) (opcode : Nat) (compressed : Bool) (data rest : Bytes) : Step :=
  if compressed then
    match codec.decompress ctx.limit (dictOf ctx s.hist) data with
    | .ok out =>
      if opcode = 1 ∧ ctx.utf8 ∧ ¬ Spec.Utf8.valid out then .stop (.fail [1007] false)
      else .ok { inMsg := none, hist := if ctx.keepCtx then s.hist ++ out else s.hist } [.msg opcode out] rest
    | _ => .stop (.fail inflateFailStatuses false)
  else
    if opcode = 1 ∧ ctx.utf8 ∧ ¬ Spec.Utf8.valid data then .stop (.fail [1007] false)
    else .ok { s with inMsg := none } [.msg opcode data] rest

/-- receive one frame -/
def step (ctx : Ctx) (codec : Codec) (s : RxState) (b : Bytes) : Step :=
  match decodeHdr b with
  | none => .stop .eof
  | some (h, rest) =>
    let v := hdrViolations ctx h
    if v ≠ [] then .stop (.fail v (decide (rest.length < h.len)))
    else if rest.length < h.len then .stop .eof
    else
      let payload := if h.masked then unmask h.key (rest.take h.len) else rest.take h.len
      let rest' := rest.drop h.len
      if h.opcode = 9 then .ok s [.ping payload] rest'
      else if h.opcode = 10 then .ok s [.pong payload] rest'
      else if h.opcode = 8 then
        let (code, reason) := closeSeen payload
        .stop (.peerClose code reason (closeReplies ctx.utf8 payload))
      else
        match s.inMsg with
        | none =>
          if h.opcode = 0 then .stop (.fail [1002] false)           -- continuation with no message in progress
          else if h.fin then finish ctx codec s h.opcode (ctx.ext && h.rsv1) payload rest'
          else if (payload.length : Int) > ctx.limit then .stop (.fail [1009] false)
          else .ok { s with inMsg := some { opcode := h.opcode, compressed := ctx.ext && h.rsv1, acc := payload } } [] rest'
        | some m =>
          if h.opcode ≠ 0 then .stop (.fail [1002] false)           -- new data frame inside an unfinished message
          else
            let acc := m.acc ++ payload
            if (acc.length : Int) > ctx.limit then .stop (.fail [1009] false)
            else if h.fin then finish ctx codec s m.opcode m.compressed acc rest'
            else .ok { s with inMsg := some { m with acc := acc } } [] rest'

structure Trace where
  evs : List Ev
  ending : Ending
deriving Repr

/-- the whole stream, with explicit fuel (every frame consumes ≥ 2 bytes, so `b.length` suffices) -/
def receiveFuel (ctx : Ctx) (codec : Codec) : Nat → RxState → Bytes → Trace
  | 0, _, _ => { evs := [], ending := .eof }
  | fuel + 1, s, b =>
    match step ctx codec s b with
    | .stop e => { evs := [], ending := e }
    | .ok s' evs rest =>
      let t := receiveFuel ctx codec fuel s' rest
      { evs := evs ++ t.evs, ending := t.ending }

def receive (ctx : Ctx) (codec : Codec) (s : RxState) (b : Bytes) : Trace :=
  receiveFuel ctx codec (b.length + 1) s b

end Spec
