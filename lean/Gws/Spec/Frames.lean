import Gws.Spec.Rfc6455
/-!
# RFC 6455 §5.2 whole-stream frame decoder and the sender-side well-formedness rules

`decodeFrames` cuts a byte stream into complete frames with `Spec.decodeHdr` (unsigned lengths, the
RFC's field layout) and unmasks every masked payload with `Spec.unmask` (§5.3).  `none` = the bytes
do not end on a frame boundary.  Nothing here is derived from the Go code.

`wellFormedSent` collects what RFC 6455 requires of every frame an endpoint *sends*: §5.2 "the
minimal number of bytes MUST be used to encode the length", "the most significant bit MUST be 0",
§5.1/§5.3 "a client MUST mask all frames … a server MUST NOT mask", RSV2/RSV3 are 0 (no extension
that uses them is ever negotiated).
-/

namespace Spec

theorem decodeHdr_length {b : Bytes} {h : Hdr} {rest : Bytes} (e : decodeHdr b = some (h, rest)) :
    rest.length + 2 ≤ b.length := by
  unfold decodeHdr at e
  split at e
  · rename_i x0 x1 r
    simp only at e
    split at e
    · exact absurd e (by simp)
    · rename_i form len r1 hlp
      have hr1 : r1.length ≤ r.length := by
        split at hlp
        · split at hlp
          · exact absurd hlp (by simp)
          · simp only [Option.some.injEq, Prod.mk.injEq] at hlp
            rw [← hlp.2.2]; simp
        · split at hlp
          · split at hlp
            · exact absurd hlp (by simp)
            · simp only [Option.some.injEq, Prod.mk.injEq] at hlp
              rw [← hlp.2.2]; simp
          · simp only [Option.some.injEq, Prod.mk.injEq] at hlp
            rw [← hlp.2.2]; exact Nat.le_refl _
      split at e
      · split at e
        · exact absurd e (by simp)
        · simp only [Option.some.injEq, Prod.mk.injEq] at e
          rw [← e.2]; simp only [List.length_drop, List.length_cons]; omega
      · simp only [Option.some.injEq, Prod.mk.injEq] at e
        rw [← e.2]; simp only [List.length_cons]; omega
  · exact absurd e (by simp)

/-- the payload of a frame as the application layer sees it: unmasked when the mask bit is set -/
def framePayload (h : Hdr) (raw : Bytes) : Bytes := if h.masked then unmask h.key raw else raw

set_option linter.unusedVariables false in
/-- Cut a byte stream into complete frames (header, unmasked payload). -/
def decodeFrames (b : Bytes) : Option (List (Hdr × Bytes)) :=
  match b with
  | [] => some []
  | x :: xs =>
    match hd : decodeHdr (x :: xs) with
    | none => none
    | some (h, rest) =>
      if rest.length < h.len then none
      else
        match decodeFrames (rest.drop h.len) with
        | none => none
        | some fs => some ((h, framePayload h (rest.take h.len)) :: fs)
termination_by b.length
decreasing_by
  have := decodeHdr_length hd
  simp only [List.length_drop, List.length_cons] at this ⊢
  omega

/-- RFC 6455 §5.2: "the minimal number of bytes MUST be used to encode the length" -/
def shortestForm (h : Hdr) : Prop :=
  (h.len ≤ 125 ∧ h.lenForm = 7) ∨ (126 ≤ h.len ∧ h.len ≤ 65535 ∧ h.lenForm = 16) ∨ (65536 ≤ h.len ∧ h.lenForm = 64)

instance : DecidablePred shortestForm := fun _ => by unfold shortestForm; infer_instance

/-- what every frame sent by an endpoint of the given role must satisfy -/
def wellFormedSent (isClient : Bool) (h : Hdr) : Prop :=
  shortestForm h ∧ h.masked = isClient ∧ h.key.length = (if isClient then 4 else 0) ∧
  h.rsv2 = false ∧ h.rsv3 = false ∧ h.len < 2 ^ 63

instance (isClient : Bool) : DecidablePred (wellFormedSent isClient) := fun _ => by
  unfold wellFormedSent; infer_instance

/-- RFC 6455 §5.5: a control frame is not fragmented, carries at most 125 bytes (7-bit length form),
and (RFC 7692 §6.1) is never compressed. -/
def controlFrameOk (h : Hdr) : Prop := h.fin = true ∧ h.lenForm = 7 ∧ h.len ≤ 125 ∧ h.rsv1 = false

instance : DecidablePred controlFrameOk := fun _ => by unfold controlFrameOk; infer_instance

/-- RFC 6455 §5.4 / RFC 7692 §6.1: the frames of ONE message: the first carries the message's
opcode, all others are continuation frames; FIN is set on the last frame and only there; RSV1 is
set on the first frame iff the message is compressed and on no other frame. A message has at least
one frame. -/
def messageShape (opcode : Nat) (compressed : Bool) (hs : List Hdr) : Prop :=
  hs ≠ [] ∧
  hs.map (·.opcode) = opcode :: List.replicate (hs.length - 1) 0 ∧
  hs.map (·.fin) = List.replicate (hs.length - 1) false ++ [true] ∧
  hs.map (·.rsv1) = compressed :: List.replicate (hs.length - 1) false

instance (opcode : Nat) (compressed : Bool) : DecidablePred (messageShape opcode compressed) := fun _ => by
  unfold messageShape; infer_instance

/-- the two equations by which `decodeFrames` is used -/
theorem decodeFrames_nil : decodeFrames [] = some [] := by
  rw [decodeFrames]

theorem decodeFrames_step {b : Bytes} {h : Hdr} {rest : Bytes} (hd : decodeHdr b = some (h, rest))
    (hlen : h.len ≤ rest.length) :
    decodeFrames b = (decodeFrames (rest.drop h.len)).map (fun fs => (h, framePayload h (rest.take h.len)) :: fs) := by
  match b, hd with
  | [], hd => simp [decodeHdr] at hd
  | x :: xs, hd =>
    rw [decodeFrames]
    split
    · rename_i e; rw [hd] at e; exact absurd e (by simp)
    · rename_i h' rest' e
      rw [hd] at e
      simp only [Option.some.injEq, Prod.mk.injEq] at e
      obtain ⟨rfl, rfl⟩ := e
      have : ¬ rest.length < h.len := by omega
      simp only [this, ↓reduceIte]
      split <;> rename_i e2 <;> simp [e2]

end Spec
