import Gws.Spec.Sha1
/-!
# Base64 (RFC 4648 section 4: standard alphabet, with padding) as a plain function on byte lists

The output is given as ASCII bytes because it is compared with HTTP header values.
-/

namespace Base64

/-- Table 1 of RFC 4648: the character for a 6-bit value -/
def alphabet (n : Nat) : UInt8 :=
  if n < 26 then UInt8.ofNat (65 + n)          -- A-Z
  else if n < 52 then UInt8.ofNat (97 + (n - 26))   -- a-z
  else if n < 62 then UInt8.ofNat (48 + (n - 52))   -- 0-9
  else if n = 62 then 43                        -- '+'
  else 47                                       -- '/'

def padChar : UInt8 := 61 -- '='

/-- 24-bit groups become four characters; a final group of 8 or 16 bits is zero-extended to 12 or 18
bits and padded with `=` to four characters. -/
def encode : Bytes → Bytes
  | [] => []
  | [a] =>
    let n := a.toNat * 65536
    [alphabet (n / 262144), alphabet (n / 4096 % 64), padChar, padChar]
  | [a, b] =>
    let n := a.toNat * 65536 + b.toNat * 256
    [alphabet (n / 262144), alphabet (n / 4096 % 64), alphabet (n / 64 % 64), padChar]
  | a :: b :: c :: r =>
    let n := a.toNat * 65536 + b.toNat * 256 + c.toNat
    alphabet (n / 262144) :: alphabet (n / 4096 % 64) :: alphabet (n / 64 % 64) :: alphabet (n % 64) :: encode r

open Sha1 (asc)

-- RFC 4648 section 10 test vectors
example : encode (asc "") = asc "" := by decide
example : encode (asc "f") = asc "Zg==" := by decide
example : encode (asc "fo") = asc "Zm8=" := by decide
example : encode (asc "foo") = asc "Zm9v" := by decide
example : encode (asc "foob") = asc "Zm9vYg==" := by decide
example : encode (asc "fooba") = asc "Zm9vYmE=" := by decide
example : encode (asc "foobar") = asc "Zm9vYmFy" := by decide
-- all 64 characters of the alphabet, in order
example : (List.range 64).map alphabet
    = asc "ABCDEFGHIJKLMNOPQRSTUVWXYZabcdefghijklmnopqrstuvwxyz0123456789+/" := by decide
-- RFC 6455 section 1.3: the accept value for the sample key
example : encode (Sha1.sha1 (asc "dGhlIHNhbXBsZSBub25jZQ==" ++ asc "258EAFA5-E914-47DA-95CA-C5AB0DC85B11"))
    = asc "s3pPLMBiTxaQ9kYGzzhZRbK+xOo=" := by decide +kernel

end Base64
