import Gws.Basic
/-!
# RFC 1951 inflater, written from the RFC (puff-style canonical Huffman decoding)

Inflates a raw DEFLATE stream against a preset history and reports the largest back-reference
distance it followed.  The stream may end on a block boundary without a final block (RFC 7692
message payloads after the `00 00 ff ff` tail has been re-appended always end in a final block or at
a byte boundary).  This is the reference the `Codec` laws and the C02 tie are stated against.
-/
namespace Spec.Inflate

structure BitReader where
  data : Array UInt8
  pos : Nat          -- bit position
deriving Inhabited

def BitReader.bitsLeft (r : BitReader) : Nat := r.data.size * 8 - r.pos

def BitReader.readBit (r : BitReader) : Option (Nat × BitReader) :=
  if h : r.pos / 8 < r.data.size then
    let byte := r.data[r.pos / 8]
    some (((byte.toNat >>> (r.pos % 8)) &&& 1), { r with pos := r.pos + 1 })
  else none

/-- read n bits, LSB first (RFC 1951 3.1.1 for non-Huffman fields) -/
def BitReader.readBits (r : BitReader) : Nat → Option (Nat × BitReader)
  | 0 => some (0, r)
  | n + 1 => do
    let (b, r1) ← r.readBit
    let (v, r2) ← r1.readBits n
    pure (b + 2 * v, r2)

def BitReader.align (r : BitReader) : BitReader := { r with pos := (r.pos + 7) / 8 * 8 }

/-- canonical Huffman table: list of (length, code, symbol) -/
structure Huff where
  counts : Array Nat      -- number of codes of each length 0..15
  symbols : Array Nat     -- symbols ordered by (length, symbol)

def mkHuff (lengths : Array Nat) : Huff :=
  let counts := Id.run do
    let mut c := Array.replicate 16 0
    for l in lengths do
      c := c.modify l (· + 1)
    return c.set! 0 0
  let symbols := Id.run do
    let mut s := #[]
    for len in [1:16] do
      for i in [0:lengths.size] do
        if lengths[i]! == len then s := s.push i
    return s
  { counts, symbols }

/-- RFC 1951 3.2.2: the code lengths must describe a Huffman code.  As zlib and Go's inflaters read that: the code is
complete (Kraft sum exactly 1; neither over- nor under-subscribed), or it is the degenerate single code of length 1, or there
is no code at all (an empty table fails when it is first used).  Lengths are at most 15. -/
def validLengths (lengths : Array Nat) : Bool :=
  let nz := lengths.toList.filter (· != 0)
  nz.isEmpty || nz == [1] || nz.foldl (fun a l => a + 2 ^ (15 - l)) 0 == 2 ^ 15

/-- decode one symbol (zlib `puff` algorithm) -/
def Huff.decode (h : Huff) (r : BitReader) : Option (Nat × BitReader) :=
  let rec go (len : Nat) (code first index : Nat) (r : BitReader) (fuel : Nat) : Option (Nat × BitReader) :=
    match fuel with
    | 0 => none
    | fuel + 1 =>
      match r.readBit with
      | none => none
      | some (b, r1) =>
        let code := code ||| b
        let count := h.counts[len]!
        if code < first + count then some (h.symbols[index + (code - first)]!, r1)
        else go (len + 1) (code * 2) ((first + count) * 2) (index + count) r1 fuel
  go 1 0 0 0 r 15

def lenBase : Array Nat := #[3,4,5,6,7,8,9,10,11,13,15,17,19,23,27,31,35,43,51,59,67,83,99,115,131,163,195,227,258]
def lenExtra : Array Nat := #[0,0,0,0,0,0,0,0,1,1,1,1,2,2,2,2,3,3,3,3,4,4,4,4,5,5,5,5,0]
def distBase : Array Nat := #[1,2,3,4,5,7,9,13,17,25,33,49,65,97,129,193,257,385,513,769,1025,1537,2049,3073,4097,6145,8193,12289,16385,24577]
def distExtra : Array Nat := #[0,0,0,0,1,1,2,2,3,3,4,4,5,5,6,6,7,7,8,8,9,9,10,10,11,11,12,12,13,13]

def fixedLit : Huff := mkHuff (Array.ofFn (n := 288) fun i => if i.val < 144 then 8 else if i.val < 256 then 9 else if i.val < 280 then 7 else 8)
def fixedDist : Huff := mkHuff (Array.replicate 30 5)

structure Out where
  hist : Array UInt8      -- history ++ output so far
  start : Nat             -- where this stream's output begins
  maxDist : Nat

/-- copy `len` bytes from `dist` back -/
def Out.copy (o : Out) (len dist : Nat) : Option Out :=
  if dist = 0 ∨ dist > o.hist.size then none else
  let rec go (n : Nat) (h : Array UInt8) : Array UInt8 :=
    match n with
    | 0 => h
    | n + 1 => go n (h.push h[h.size - dist]!)
  some { o with hist := go len o.hist, maxDist := max o.maxDist dist }

def codes (lit dist : Huff) (r : BitReader) (o : Out) (fuel : Nat) : Option (BitReader × Out) :=
  match fuel with
  | 0 => none
  | fuel + 1 => do
    let (sym, r) ← lit.decode r
    if sym < 256 then codes lit dist r { o with hist := o.hist.push sym.toUInt8 } fuel
    else if sym == 256 then pure (r, o)
    else
      let i := sym - 257
      if i ≥ 29 then none else
      let (e, r) ← r.readBits lenExtra[i]!
      let len := lenBase[i]! + e
      let (ds, r) ← dist.decode r
      if ds ≥ 30 then none else
      let (e, r) ← r.readBits distExtra[ds]!
      let d := distBase[ds]! + e
      let o ← o.copy len d
      codes lit dist r o fuel

def clOrder : Array Nat := #[16,17,18,0,8,7,9,6,10,5,11,4,12,3,13,2,14,1,15]

def readLengths (cl : Huff) (n : Nat) (r : BitReader) (acc : Array Nat) (fuel : Nat) : Option (Array Nat × BitReader) :=
  match fuel with
  | 0 => none
  | fuel + 1 =>
    if acc.size ≥ n then (if acc.size = n then some (acc, r) else none) else do
    let (sym, r) ← cl.decode r
    if sym < 16 then readLengths cl n r (acc.push sym) fuel
    else if sym == 16 then
      if acc.size = 0 then none else
      let (e, r) ← r.readBits 2
      readLengths cl n r (acc ++ Array.replicate (3 + e) acc.back!) fuel
    else if sym == 17 then
      let (e, r) ← r.readBits 3
      readLengths cl n r (acc ++ Array.replicate (3 + e) 0) fuel
    else
      let (e, r) ← r.readBits 7
      readLengths cl n r (acc ++ Array.replicate (11 + e) 0) fuel

def dynamic (r : BitReader) : Option (Huff × Huff × BitReader) := do
  let (hlit, r) ← r.readBits 5
  let (hdist, r) ← r.readBits 5
  let (hclen, r) ← r.readBits 4
  let nlen := hlit + 257; let ndist := hdist + 1; let ncode := hclen + 4
  if nlen > 286 ∨ ndist > 30 then none else
  let rec rd (i : Nat) (r : BitReader) (ls : Array Nat) (fuel : Nat) : Option (Array Nat × BitReader) :=
    match fuel with
    | 0 => some (ls, r)
    | fuel + 1 => do
      let (v, r) ← r.readBits 3
      rd (i + 1) r (ls.set! clOrder[i]! v) fuel
  let (cls, r) ← rd 0 r (Array.replicate 19 0) ncode
  if !validLengths cls then none else
  let cl := mkHuff cls
  let (ls, r) ← readLengths cl (nlen + ndist) r #[] 400
  if ls[256]! = 0 then none else
  if !validLengths (ls.extract 0 nlen) || !validLengths (ls.extract nlen (nlen + ndist)) then none else
  pure (mkHuff (ls.extract 0 nlen), mkHuff (ls.extract nlen (nlen + ndist)), r)

/-- blocks until BFINAL or input exhausted at a block boundary -/
def blocks (r : BitReader) (o : Out) (fuel : Nat) : Option Out :=
  match fuel with
  | 0 => none
  | fuel + 1 =>
    if r.bitsLeft < 3 then some o else do   -- at most padding left: stream ended on a block boundary (RFC 7692 receiver)
    let (final, r) ← r.readBits 1
    let (typ, r) ← r.readBits 2
    let (r, o) ← (match typ with
      | 0 => do
        let r := r.align
        let (len, r) ← r.readBits 16
        let (nlen, r) ← r.readBits 16
        if len + nlen != 0xffff then none else
        if r.bitsLeft < len * 8 then none else
        let bytes := r.data.extract (r.pos / 8) (r.pos / 8 + len)
        pure ({ r with pos := r.pos + 8 * len }, { o with hist := o.hist ++ bytes })
      | 1 => codes fixedLit fixedDist r o (r.bitsLeft + 1)
      | 2 => do
        let (l, d, r) ← dynamic r
        codes l d r o (r.bitsLeft + 1)
      | _ => none)
    if final == 1 then some o else blocks r o fuel

/-- inflate `data` (a raw deflate stream, possibly ending in a non-final block) against `hist`;
    returns output and the largest distance used -/
def run (hist : Array UInt8) (data : Array UInt8) : Option (Array UInt8 × Nat) := do
  let o ← blocks { data, pos := 0 } { hist, start := hist.size, maxDist := 0 } (data.size + 2)
  pure (o.hist.extract o.start o.hist.size, o.maxDist)

/-- list-level entry point -/
def runList (hist data : Bytes) : Option (Bytes × Nat) :=
  (run hist.toArray data.toArray).map fun (o, d) => (o.toList, d)

end Spec.Inflate

