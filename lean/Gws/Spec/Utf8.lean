import Gws.Basic
/-!
# RFC 3629 well-formed UTF-8 (Unicode Table 3-7), written from the standard

Go's `unicode/utf8.Valid` is assumed to decide exactly this predicate (trusted base; the tie compares
the two exhaustively on all strings of ≤ 3 bytes and on the boundary strings of every class).
-/

namespace Spec.Utf8

def isCont (b : UInt8) : Bool := 0x80 ≤ b && b ≤ 0xBF

/-- well-formed UTF-8: shortest form only, no surrogates (ED A0..BF), nothing above U+10FFFF -/
def valid (l : Bytes) : Bool :=
  match l with
  | [] => true
  | a :: r =>
    if a ≤ 0x7F then valid r
    else if 0xC2 ≤ a && a ≤ 0xDF then
      match r with
      | b :: r' => isCont b && valid r'
      | _ => false
    else if 0xE0 ≤ a && a ≤ 0xEF then
      match r with
      | b :: c :: r' =>
        (if a == 0xE0 then 0xA0 ≤ b && b ≤ 0xBF else if a == 0xED then 0x80 ≤ b && b ≤ 0x9F else isCont b)
          && isCont c && valid r'
      | _ => false
    else if 0xF0 ≤ a && a ≤ 0xF4 then
      match r with
      | b :: c :: d :: r' =>
        (if a == 0xF0 then 0x90 ≤ b && b ≤ 0xBF else if a == 0xF4 then 0x80 ≤ b && b ≤ 0x8F else isCont b)
          && isCont c && isCont d && valid r'
      | _ => false
    else false
termination_by l.length
decreasing_by all_goals (simp_all; try omega)

end Spec.Utf8
