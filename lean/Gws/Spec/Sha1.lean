import Gws.Basic
/-!
# SHA-1 (FIPS 180-4, sections 5.1.1, 5.3.1, 6.1) as a plain function on byte lists

Words are natural numbers below `2^32`; every operation reduces with the kernel's arithmetic on
literals, so the test vectors below are checked by `decide`.  Nothing here refers to gws: this is
the reference the accept-key computation is stated against (C10, C11).
-/

namespace Sha1

/-- bytes of an ASCII literal (every use in the specs and models is on a literal with code points
below 128, where this is the UTF-8 encoding) -/
def asc (s : String) : Bytes := s.toList.map (fun c => UInt8.ofNat c.toNat)

def two32 : Nat := 4294967296

def add32 (a b : Nat) : Nat := (a + b) % two32

/-- rotate a 32-bit word left by `n` (`0 < n < 32`) -/
def rotl (n x : Nat) : Nat := ((x <<< n) % two32) ||| (x >>> (32 - n))

def not32 (x : Nat) : Nat := x ^^^ 4294967295

/-- big-endian bytes of `x`, `n` of them -/
def beBytes : Nat → Nat → Bytes
  | 0, _ => []
  | n + 1, x => UInt8.ofNat ((x >>> (8 * n)) % 256) :: beBytes n x

/-- 5.1.1: append the bit 1, `k` zero bits up to 448 mod 512, and the 64-bit message length in bits -/
def pad (msg : Bytes) : Bytes :=
  let l := msg.length
  msg ++ [0x80] ++ List.replicate ((64 - (l + 9) % 64) % 64) 0 ++ beBytes 8 (8 * l)

/-- big-endian 32-bit words of a byte list whose length is a multiple of 4 (a shorter tail is dropped) -/
def words : Nat → Bytes → List Nat
  | 0, _ => []
  | n + 1, b0 :: b1 :: b2 :: b3 :: r =>
    (b0.toNat * 16777216 + b1.toNat * 65536 + b2.toNat * 256 + b3.toNat) :: words n r
  | _ + 1, _ => []

/-- 6.1.2 step 1: the message schedule, kept newest-first: `r = [W(t-1), W(t-2), …]` -/
def extend : Nat → List Nat → List Nat
  | 0, r => r
  | n + 1, r =>
    extend n (rotl 1 (r.getD 2 0 ^^^ r.getD 7 0 ^^^ r.getD 13 0 ^^^ r.getD 15 0) :: r)

def schedule (block : List Nat) : List Nat := (extend 64 block.reverse).reverse

structure St where
  a : Nat
  b : Nat
  c : Nat
  d : Nat
  e : Nat
deriving DecidableEq, Repr

/-- 5.3.1 -/
def init : St := ⟨0x67452301, 0xefcdab89, 0x98badcfe, 0x10325476, 0xc3d2e1f0⟩

/-- 4.1.1 -/
def f (t b c d : Nat) : Nat :=
  if t < 20 then (b &&& c) ||| (not32 b &&& d)
  else if t < 40 then b ^^^ c ^^^ d
  else if t < 60 then (b &&& c) ||| (b &&& d) ||| (c &&& d)
  else b ^^^ c ^^^ d

/-- 4.2.1 -/
def k (t : Nat) : Nat :=
  if t < 20 then 0x5a827999 else if t < 40 then 0x6ed9eba1 else if t < 60 then 0x8f1bbcdc else 0xca62c1d6

/-- 6.1.2 step 3, one round -/
def round (s : St) (t w : Nat) : St :=
  let temp := add32 (add32 (add32 (add32 (rotl 5 s.a) (f t s.b s.c s.d)) s.e) (k t)) w
  ⟨temp, s.a, rotl 30 s.b, s.c, s.d⟩

def rounds : St → Nat → List Nat → St
  | s, _, [] => s
  | s, t, w :: ws => rounds (round s t w) (t + 1) ws

/-- 6.1.2 steps 1-4 for one 16-word block -/
def block (h : St) (m : List Nat) : St :=
  let s := rounds h 0 (schedule m)
  ⟨add32 h.a s.a, add32 h.b s.b, add32 h.c s.c, add32 h.d s.d, add32 h.e s.e⟩

def blocks : Nat → St → List Nat → St
  | 0, h, _ => h
  | n + 1, h, ws => blocks n (block h (ws.take 16)) (ws.drop 16)

/-- the 20-byte digest -/
def sha1 (msg : Bytes) : Bytes :=
  let p := pad msg
  let h := blocks (p.length / 64) init (words (p.length / 4) p)
  beBytes 4 h.a ++ beBytes 4 h.b ++ beBytes 4 h.c ++ beBytes 4 h.d ++ beBytes 4 h.e

def hexDigit (n : Nat) : Char := if n < 10 then Char.ofNat (48 + n) else Char.ofNat (87 + n)

def hex (b : Bytes) : List Char := b.flatMap (fun x => [hexDigit (x.toNat / 16), hexDigit (x.toNat % 16)])

theorem sha1_length (msg : Bytes) : (sha1 msg).length = 20 := by
  simp [sha1, beBytes]

-- RFC 3174 section 7.3 test vectors 1, 2 and 4 (TEST3 is one million bytes), and the empty message
example : hex (sha1 (asc "abc")) = "a9993e364706816aba3e25717850c26c9cd0d89d".toList := by decide +kernel
example : hex (sha1 (asc "abcdbcdecdefdefgefghfghighijhijkijkljklmklmnlmnomnopnopq"))
    = "84983e441c3bd26ebaae4aa1f95129e5e54670f1".toList := by decide +kernel
example : hex (sha1 ((List.replicate 10 (asc "0123456701234567012345670123456701234567012345670123456701234567")).flatten))
    = "dea356a2cddd90c7a7ecedc5ebb563934f460452".toList := by decide +kernel
example : hex (sha1 []) = "da39a3ee5e6b4b0d3255bfef95601890afd80709".toList := by decide +kernel
-- padding boundaries: 55 bytes fit one block, 56 need a second one
example : (pad (List.replicate 55 0)).length = 64 ∧ (pad (List.replicate 56 0)).length = 128
    ∧ (pad (List.replicate 64 0)).length = 128 := by decide +kernel

end Sha1
