import Gws.Generated.Trans
import Gws.Model.Window
namespace TransEquiv

theorem int_sub_toNat (a b : Nat) : ((a : Int) - (b : Int)).toNat = a - b := by omega

theorem slideWindow_Write_eq (w : Win) (p : Bytes) :
    Trans.slideWindow_Write p w.enabled w.dict (w.size : Int) =
      ((w.write p).dict, (if w.enabled then (p.length : Int) else 0), none) := by
  unfold Trans.slideWindow_Write Win.write
  cases hE : w.enabled
  · simp
  · simp only [Bool.not_true, Bool.false_eq_true, ↓reduceIte, Int.ofNat_eq_natCast]
    by_cases h1 : p.length + w.dict.length ≤ w.size
    · have : ((p.length : Int) + (w.dict.length : Int) ≤ (w.size : Int)) := by omega
      simp [h1, this]
    · have h1' : ¬ ((p.length : Int) + (w.dict.length : Int) ≤ (w.size : Int)) := by omega
      simp only [h1, h1', decide_false, Bool.false_eq_true, ↓reduceIte]
      by_cases hm : w.size - w.dict.length > 0
      · have hm' : ((w.size : Int) - (w.dict.length : Int) > 0) := by omega
        simp only [hm, hm', decide_true, ↓reduceIte, int_sub_toNat]
        generalize List.drop (w.size - w.dict.length) p = p1
        generalize w.dict ++ List.take (w.size - w.dict.length) p = d1
        by_cases h2 : p1.length ≥ w.size
        · have h2' : ((p1.length : Int) ≥ (w.size : Int)) := by omega
          simp [h2, h2', int_sub_toNat]
        · have h2' : ¬ ((p1.length : Int) ≥ (w.size : Int)) := by omega
          simp [h2, h2', int_sub_toNat]
      · have hm' : ¬ ((w.size : Int) - (w.dict.length : Int) > 0) := by omega
        simp only [hm, hm', decide_false, Bool.false_eq_true, ↓reduceIte, int_sub_toNat]
        by_cases h2 : p.length ≥ w.size
        · have h2' : ((p.length : Int) ≥ (w.size : Int)) := by omega
          simp [h2, h2', int_sub_toNat]
        · have h2' : ¬ ((p.length : Int) ≥ (w.size : Int)) := by omega
          simp [h2, h2', int_sub_toNat]

theorem BinaryPow_eq (n : Nat) : Trans.internal_BinaryPow (n : Int) = ((2 ^ n : Nat) : Int) := by
  unfold Trans.internal_BinaryPow
  simp only [Int.toNat_natCast]
  have : ∀ (k : Nat) (a : Int), (List.range k).foldl (fun ans i' => ans * (2 ^ 1 : Int)) a = a * ((2 ^ k : Nat) : Int) := by
    intro k
    induction k with
    | zero => intro a; simp
    | succ k ih => intro a; rw [List.range_succ, List.foldl_append, ih]; simp [Nat.pow_succ, Int.mul_assoc]
  simpa using this n 1
end TransEquiv
