import Gws.Generated.Trans
import Gws.Model.ReaderStep

namespace TransEquiv

theorem u8_forall (P : UInt8 → Prop) (h : ∀ n, n < 256 → P (UInt8.ofNat n)) (b : UInt8) : P b := by
  have := h b.toNat (by have := b.toNat_lt; omega)
  simpa using this

/-! ## header getters (types.go) = `Frame.get*` on the numeric value of the byte -/

theorem getFIN_byte (b : UInt8) : ((b >>> (7 : UInt8)) == (1 : UInt8)) = Frame.getFIN b.toNat := by
  revert b; apply u8_forall; decide +kernel
theorem getRSV1_byte (b : UInt8) : (((b <<< (1 : UInt8)) >>> (7 : UInt8)) == (1 : UInt8)) = Frame.getRSV1 b.toNat := by
  revert b; apply u8_forall; decide +kernel
theorem getRSV2_byte (b : UInt8) : (((b <<< (2 : UInt8)) >>> (7 : UInt8)) == (1 : UInt8)) = Frame.getRSV2 b.toNat := by
  revert b; apply u8_forall; decide +kernel
theorem getRSV3_byte (b : UInt8) : (((b <<< (3 : UInt8)) >>> (7 : UInt8)) == (1 : UInt8)) = Frame.getRSV3 b.toNat := by
  revert b; apply u8_forall; decide +kernel
theorem getOpcode_byte (b : UInt8) : ((b <<< (4 : UInt8)) >>> (4 : UInt8)).toNat = Frame.getOpcode b.toNat := by
  revert b; apply u8_forall; decide +kernel
theorem getLengthCode_byte (b : UInt8) : ((b <<< (1 : UInt8)) >>> (1 : UInt8)).toNat = Frame.getLengthCode b.toNat := by
  revert b; apply u8_forall; decide +kernel

theorem GetFIN_eq (c : List UInt8) : Trans.frameHeader_GetFIN c = Frame.getFIN (goIdx c 0).toNat := getFIN_byte _
theorem GetRSV1_eq (c : List UInt8) : Trans.frameHeader_GetRSV1 c = Frame.getRSV1 (goIdx c 0).toNat := getRSV1_byte _
theorem GetRSV2_eq (c : List UInt8) : Trans.frameHeader_GetRSV2 c = Frame.getRSV2 (goIdx c 0).toNat := getRSV2_byte _
theorem GetRSV3_eq (c : List UInt8) : Trans.frameHeader_GetRSV3 c = Frame.getRSV3 (goIdx c 0).toNat := getRSV3_byte _
theorem GetOpcode_eq (c : List UInt8) : (Trans.frameHeader_GetOpcode c).toNat = Frame.getOpcode (goIdx c 0).toNat := getOpcode_byte _
theorem GetMask_eq (c : List UInt8) : Trans.frameHeader_GetMask c = Frame.getMask (goIdx c 1).toNat := getFIN_byte _
theorem GetLengthCode_eq (c : List UInt8) : (Trans.frameHeader_GetLengthCode c).toNat = Frame.getLengthCode (goIdx c 1).toNat := getLengthCode_byte _

theorem isDataFrame_eq (op : UInt8) : Trans.Opcode_isDataFrame op = decide (op.toNat ≤ Facts.dataFrameMaxOpcode) := by
  revert op; apply u8_forall; decide +kernel

theorem u8_eq_lit (x : UInt8) (n : Nat) (hn : n < 256) : (x == UInt8.ofNat n) = decide (x.toNat = n) := by
  rw [Bool.eq_iff_iff]; simp only [beq_iff_eq, decide_eq_true_eq]
  constructor
  · intro h; subst h; simp; omega
  · intro h; subst h; simp

theorem u8_eq_1 (x : UInt8) : (x == (1 : UInt8)) = decide (x.toNat = 1) := u8_eq_lit x 1 (by decide)
theorem u8_eq_2 (x : UInt8) : (x == (2 : UInt8)) = decide (x.toNat = 2) := u8_eq_lit x 2 (by decide)

/-- the status an `End` of the read path stands for, as the Go error value -/
def errOfEnd : Reader.End → Option GoErr
  | .err (.status c) => some (.status (UInt16.ofNat c))
  | _ => some .io

/-- `readMessage` between `Parse` and the payload read = `Reader.headerCheck` followed by the control /
data dispatch of `Reader.step` -/
theorem readMessage_header_eq (cfg : Reader.Cfg) (h : Frame.Hdr) (fh : List UInt8) (rc : Option GoErr)
    (h0 : (goIdx fh 0).toNat = h.b0) (h1 : (goIdx fh 1).toNat = h.b1) :
    Trans.Conn_readMessage_header cfg.readMax fh cfg.pdEnabled cfg.isServer h.len rc =
      match Reader.headerCheck cfg h with
      | some e => .error (errOfEnd e)
      | none =>
        if Frame.getOpcode h.b0 > Facts.dataFrameMaxOpcode then .error rc
        else .ok (Trans.frameHeader_GetOpcode fh, Frame.getMask h.b1, cfg.pdEnabled && Frame.getRSV1 h.b0) := by
  unfold Trans.Conn_readMessage_header Reader.headerCheck Trans.Conn_checkMask
  simp only [GetRSV1_eq, GetRSV2_eq, GetRSV3_eq, GetMask_eq, isDataFrame_eq, h0, h1]
  have hop : (Trans.frameHeader_GetOpcode fh).toNat = Frame.getOpcode h.b0 := by rw [GetOpcode_eq, h0]
  rw [← hop]
  generalize Trans.frameHeader_GetOpcode fh = op
  generalize Frame.getRSV1 h.b0 = r1
  generalize Frame.getRSV2 h.b0 = r2
  generalize Frame.getRSV3 h.b0 = r3
  generalize Frame.getMask h.b1 = mk
  generalize cfg.isServer = sv
  generalize cfg.pdEnabled = pd
  simp only [u8_eq_1, u8_eq_2, Facts.opText, Facts.opBinary, Facts.dataFrameMaxOpcode,
    Reader.tooLarge, Reader.protoErr, Facts.closeMessageTooLarge, Facts.closeProtocolError]
  by_cases hl : h.len < 0 ∨ h.len > cfg.readMax
  · have : (decide (h.len < 0) || decide (h.len > cfg.readMax)) = true := by simpa using hl
    simp [this, hl, errOfEnd]
  · have : (decide (h.len < 0) || decide (h.len > cfg.readMax)) = false := by simpa using hl
    simp only [this, hl]
    by_cases e1 : op.toNat = 1 <;> by_cases e2 : op.toNat = 2 <;> by_cases e3 : op.toNat ≤ 2 <;>
      cases r1 <;> cases r2 <;> cases r3 <;> cases mk <;> cases sv <;> cases pd <;> simp [errOfEnd, e1, e2, e3] <;> omega
end TransEquiv
