import Gws.Generated.Trans
import Gws.Model.ReaderStep
namespace TransEquiv
theorem u16_beq (x k : UInt16) : (x == k) = decide (x.toNat = k.toNat) := by
  rw [Bool.eq_iff_iff]; simp only [beq_iff_eq, decide_eq_true_eq]
  exact UInt16.toNat_inj.symm

theorem emitClose_classify_eq (wire rc0 : UInt16) :
    Trans.Conn_emitClose_classify wire rc0 = .ok (UInt16.ofNat (Close.classify wire.toNat), wire) := by
  unfold Trans.Conn_emitClose_classify Close.classify
  simp only [Facts.closeListed1002, Facts.closeProtocolError, Facts.closeBelow1002, Facts.closeFrom1002, Facts.closeResLo1002,
    Facts.closeResHi1002, Facts.closeNormalBelow, Facts.closeNormalClosure, UInt16.lt_iff_toNat_lt, UInt16.le_iff_toNat_le, ge_iff_le, u16_beq]
  have hw : UInt16.ofNat wire.toNat = wire := by simp
  generalize wire.toNat = n at *
  simp
  repeat' split
  all_goals first | rfl | (exfalso; omega) | (simp [*]; done) | (simp [*]; exact hw.symm)
end TransEquiv
