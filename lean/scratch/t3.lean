import Gws.Generated.Trans
import Gws.Model.ReaderStep
import Gws.Model.Window
import Gws.Model.Pool

namespace TransEquiv

theorem u16_forall (P : UInt16 → Prop) (h : ∀ n, n < 65536 → P (UInt16.ofNat n)) (b : UInt16) : P b := by
  have := h b.toNat (by have := b.toNat_lt; omega)
  simpa using this

/-- the classification of `emitClose` -/
theorem emitClose_classify_eq (wire rc0 : UInt16) :
    Trans.Conn_emitClose_classify wire rc0 = .ok (UInt16.ofNat (Close.classify wire.toNat), wire) := by
  revert wire; apply u16_forall
  intro n hn
  sorry

theorem slideWindow_Write_eq (w : Win) (p : Bytes) :
    Trans.slideWindow_Write p w.enabled w.dict (w.size : Int) = ((w.write p).dict, (p.length : Int), none) := by
  unfold Trans.slideWindow_Write Win.write
  cases hE : w.enabled
  · simp
    sorry
  · simp
    sorry

theorem binaryCeil_eq (v : UInt32) : (Trans.internal_binaryCeil v).toBitVec = Pool.binaryCeil v.toBitVec := by
  unfold Trans.internal_binaryCeil Pool.binaryCeil
  simp
  sorry

theorem BinaryPow_eq (n : Nat) : Trans.internal_BinaryPow (n : Int) = ((2 ^ n : Nat) : Int) := by
  unfold Trans.internal_BinaryPow
  simp
  sorry
end TransEquiv
