import Gws.Generated.Trans
import Gws.Model.Frame
namespace TransEquiv

theorem SetLength_eq (c0 : UInt8) (n : Nat) (hn : n < 2 ^ 63) :
    Trans.frameHeader_SetLength (c0 :: List.replicate 13 0) (UInt64.ofNat n) =
      if n ≤ Facts.thresholdV1 then (c0 :: UInt8.ofNat n :: List.replicate 12 0, 0)
      else if n ≤ Facts.thresholdV2 then (c0 :: 126 :: (Frame.u16be n ++ List.replicate 10 0), 2)
      else (c0 :: 127 :: (Frame.u64be n ++ List.replicate 4 0), 8) := by
  unfold Trans.frameHeader_SetLength
  have h64 : (UInt64.ofNat n).toNat = n := by simp; omega
  simp only [UInt64.le_iff_toNat_le, h64, Facts.thresholdV1, Facts.thresholdV2]
  have r13 : List.replicate 13 (0 : UInt8) = [0,0,0,0,0,0,0,0,0,0,0,0,0] := rfl
  simp only [r13]
  by_cases h1 : n ≤ 125
  · simp [h1, goIdx]
  · by_cases h2 : n ≤ 65535
    · have hm : n % 65536 = n := Nat.mod_eq_of_lt (by omega)
      simp [h1, h2, goIdx, goCopy, goBytesU16BE, Frame.u16be, hm]
    · have hm : n % 18446744073709551616 = n := Nat.mod_eq_of_lt (by omega)
      simp [h1, h2, goIdx, goCopy, goBytesU64BE, Frame.u64be, hm]

/-- `GenerateHeader` on a fresh (zero) header array writes exactly the header of the model's `genHeader`; the bytes
behind `headerLength` are not part of the frame -/
theorem GenerateHeader_eq (isServer fin compress : Bool) (opcode : UInt8) (n : Nat) (hn : n < 2 ^ 63) (maskNum : UInt32) :
    (Trans.frameHeader_GenerateHeader (List.replicate 14 0) isServer fin compress opcode (n : Int) maskNum).1.take
        (Trans.frameHeader_GenerateHeader (List.replicate 14 0) isServer fin compress opcode (n : Int) maskNum).2.1.toNat
      = Frame.genHeader isServer fin compress opcode.toNat n (goBytesU32LE maskNum)
    ∧ (Trans.frameHeader_GenerateHeader (List.replicate 14 0) isServer fin compress opcode (n : Int) maskNum).2.2
      = (if isServer then [] else goBytesU32LE maskNum) := by
  have h64 : goUIntOfInt64 (n : Int) = UInt64.ofNat n := by
    unfold goUIntOfInt64
    congr 1
    omega
  have r14 : List.replicate 14 (0 : UInt8) = 0 :: List.replicate 13 0 := rfl
  have r12 : List.replicate 12 (0 : UInt8) = [0,0,0,0,0,0,0,0,0,0,0,0] := rfl
  have r10 : List.replicate 10 (0 : UInt8) = [0,0,0,0,0,0,0,0,0,0] := rfl
  have r4 : List.replicate 4 (0 : UInt8) = [0,0,0,0] := rfl
  have hb0 : ∀ (x : Nat), UInt8.ofNat ((opcode.toNat + x) % 256) = opcode + UInt8.ofNat x := by
    intro x; apply UInt8.toNat_inj.mp; simp
  unfold Trans.frameHeader_GenerateHeader Frame.genHeader
  simp only [r14, List.set_cons_zero, h64, SetLength_eq _ n hn]
  by_cases h1 : n ≤ 125 <;> by_cases h2 : n ≤ 65535 <;> cases isServer <;> cases fin <;> cases compress <;>
    simp [h1, h2, Facts.thresholdV1, Facts.thresholdV2, goIdx, goCopy, goBytesU32LE, Frame.u16be, Frame.u64be, r12, r10, r4, hb0]
  all_goals first | (apply UInt8.toNat_inj.mp; simp [Nat.add_assoc]; done) | (exfalso; omega) |
    (refine ⟨?_, by decide⟩; apply UInt8.toNat_inj.mp; simp [Nat.add_assoc]; done)
end TransEquiv
