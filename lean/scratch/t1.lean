import Gws.Generated.Trans
import Gws.Model.Frame

theorem u8_forall (P : UInt8 → Prop) (h : ∀ n, n < 256 → P (UInt8.ofNat n)) (b : UInt8) : P b := by
  have := h b.toNat (by have := b.toNat_lt; omega)
  simpa using this

theorem getFIN_eq (b : UInt8) : ((b >>> (7 : UInt8)) == (1 : UInt8)) = Frame.getFIN b.toNat := by
  revert b
  apply u8_forall
  decide +kernel
