import Driver.Util
import Gws.Model.Utf8
/-! Suite `utf8`: the encoding gate on single slices and slice lists; exhaustive tables. -/
namespace Drv

def fnvStep (h : UInt64) (b : UInt8) : UInt64 := (h ^^^ b.toUInt64) * 1099511628211

/-- all byte strings of length `n` in lexicographic order; fold their validity bits into (fnv, count) -/
def utf8Table (n : Nat) : UInt64 × Nat :=
  let rec go (n : Nat) (pre : Bytes) (acc : UInt64 × Nat) : UInt64 × Nat :=
    match n with
    | 0 =>
      let v := Spec.Utf8.valid pre.reverse
      (fnvStep acc.1 (if v then 1 else 0), if v then acc.2 + 1 else acc.2)
    | n + 1 => (List.range 256).foldl (fun a x => go n (UInt8.ofNat x :: pre) a) acc
  go n [] (14695981039346656037, 0)

/-- all byte strings of length `n`, each under every 2-way split and the all-singletons split, through
the model's slice-list gate; (fnv, count) over the (string, split) pairs in the harness's order -/
def utf8SplitTable (n : Nat) : UInt64 × Nat :=
  let rec go (k : Nat) (pre : Bytes) (acc : UInt64 × Nat) : UInt64 × Nat :=
    match k with
    | 0 =>
      let s := pre.reverse
      let add := fun (a : UInt64 × Nat) (parts : List Bytes) =>
        let v := Utf8.buffersCheck true 1 parts
        (fnvStep a.1 (if v then 1 else 0), if v then a.2 + 1 else a.2)
      let acc := (List.range (n + 1)).foldl (fun a cut => add a [s.take cut, s.drop cut]) acc
      add acc (s.map fun b => [b])
    | k + 1 => (List.range 256).foldl (fun a x => go k (UInt8.ofNat x :: pre) a) acc
  go n [] (14695981039346656037, 0)

def runUtf8 (args : List String) : Res :=
  match args with
  | ["bytes", en, op, data] =>
    let r := Utf8.bytesCheck (s2b en) op.toNat! (parseHex data)
    { out := b2s r, tags := s!"bytes en={en} op={op} r={b2s r}" }
  | ["bufs", en, op, datas] =>
    let ps := parseHexList datas
    let r := Utf8.buffersCheck (s2b en) op.toNat! ps
    let want := if s2b en && (op == "1" || op == "8") then Spec.Utf8.valid ps.flatten else true
    { out := b2s r, spec := if r == want then "ok" else "bad:gate-differs-from-validity-of-whole-payload",
      tags := s!"bufs n={min ps.length 4} en={en} op={op} r={b2s r}" }
  | ["tablesplit", n] =>
    let (h, c) := utf8SplitTable n.toNat!
    { out := s!"{h} {c}", tags := s!"tablesplit{n}" }
  | ["table", n] =>
    let (h, c) := utf8Table n.toNat!
    { out := s!"{h} {c}", tags := s!"table{n}" }
  | _ => bad "utf8-args"

end Drv
