import Driver.Util
import Gws.Model.Conc.Map
/-!
Suite `cmap` (C19): sequential operation sequences on `ConcurrentMap` (any shard count) and on the
default session map `smap`, run through the *transition system* of `Gws.Model.Conc.Map`: a `Len` is
`lenStart` followed by one `lenStep` per shard, a `Range` is `rangeStart` followed by one `rangeStep`
per shard.  The real hash is randomly seeded and Go's map iteration order is random, so the output
is canonical (independent of shard placement and of iteration order); the model runs with
`hash k = k` and iterates odd shards in reverse order.

Suite `cmapconc`: the harness runs a genuinely concurrent history on the real maps and checks it
itself (per-key linearizability, `Len` bounds, `Range` exactly-once); that is a *validation of the
atomicity assumption* the proof rests on, not part of the proof, and there is nothing for the model
to compute: the driver answers the constant `ok`.
-/

namespace Drv
open CMap

inductive MapOp
  | store (k v : Nat)
  | load (k : Nat)
  | delete (k : Nat)
  | len
  /-- `Range` with a callback that returns false on its `n`-th invocation (`n ≥ 1`) -/
  | rangeStop (n : Nat)
  | rangeAll
  | bad

def natOfChars (cs : List Char) : Nat := cs.foldl (fun a ch => a * 10 + (ch.toNat - 48)) 0

/-- `s<k>=<v>` `l<k>` `d<k>` `n` `r<N>` `R` -/
def parseMapOp (tok : String) : MapOp :=
  match tok.toList with
  | 's' :: rest =>
    let (a, b) := rest.span (· != '=')
    .store (natOfChars a) (natOfChars (b.drop 1))
  | 'l' :: rest => .load (natOfChars rest)
  | 'd' :: rest => .delete (natOfChars rest)
  | ['n'] => .len
  | 'r' :: rest => .rangeStop (natOfChars rest)
  | ['R'] => .rangeAll
  | _ => .bad

/-- the map under test: the sharded map in some state of the transition system, or `smap` -/
inductive MapM
  | cm (c : Cfg) (s : State)
  | sm (m : Shard)

namespace MapM

def load : MapM → Nat → Option Nat
  | .cm c s, k => s.load c k
  | .sm m, k => match SMap.step m (.load k) with
    | some (_, .val r) => r
    | _ => none

def store : MapM → Nat → Nat → Option MapM
  | .cm c s, k, v => (step c s (.store k v)).map (.cm c)
  | .sm m, k, v => (SMap.step m (.store k v)).map fun p => .sm p.1

def delete : MapM → Nat → Option MapM
  | .cm c s, k => (step c s (.delete k)).map (.cm c)
  | .sm m, k => (SMap.step m (.delete k)).map fun p => .sm p.1

/-- order in which shard `i` is iterated: odd shards backwards (any enumeration is allowed) -/
def order (m : Shard) (i : Nat) : List Entry := if i % 2 = 1 then m.reverse else m

/-- `Len`: call, one section per shard, result.  The call record is dropped afterwards (the shards
are not changed by `Len`). -/
def len : MapM → Option Nat
  | .cm c s => do
    let s1 ← step c s (.lenStart 0)
    let s2 ← (List.range c.num).foldlM (fun s _ => step c s (.lenStep 0)) s1
    lenResult c s2 0
  | .sm m => match SMap.step m .len with
    | some (_, .len n) => some n
    | _ => none

def rangeLoop (c : Cfg) : Nat → State → Option State
  | 0, s => some s
  | fuel + 1, s =>
    if rangeDone c s 0 then some s else
    match s.ranges 0 with
    | some rc => (step c s (.rangeStep 0 (order (s.shard rc.next) rc.next))).bind (rangeLoop c fuel)
    | none => none

/-- `Range(cb)`: call, one section per shard until the loop ends; returns the callback log -/
def range (cb : List Entry → Bool) : MapM → Option (List Entry)
  | .cm c s => do
    let s1 ← step c s (.rangeStart 0 cb)
    let s2 ← rangeLoop c c.num s1
    if rangeDone c s2 0 then (s2.ranges 0).map (·.log) else none
  | .sm m => match SMap.step m (.range cb (order m 1)) with
    | some (_, .visited log _) => some log
    | _ => none

end MapM

/-! reference: a sorted association list, operated sequentially -/

def refDelete (m : List Entry) (k : Nat) : List Entry := m.filter (·.1 != k)
def refStore (m : List Entry) (k v : Nat) : List Entry :=
  let m' := refDelete m k
  m'.takeWhile (·.1 < k) ++ (k, v) :: m'.dropWhile (·.1 < k)
def refLoad (m : List Entry) (k : Nat) : Option Nat := (m.find? (·.1 == k)).map (·.2)

def showEntries (l : List Entry) : String :=
  if l.isEmpty then "." else "+".intercalate (l.map fun e => s!"{e.1}={e.2}")

def sortEntries (l : List Entry) : List Entry := l.mergeSort (fun a b => a.1 ≤ b.1)

def nodupKeys : List Nat → Bool
  | [] => true
  | k :: ks => !ks.contains k && nodupKeys ks

structure MapAcc where
  m : MapM
  ref : List Entry
  outs : List String := []
  why : String := ""
  dead : Bool := false

def MapAcc.fail (a : MapAcc) (why : String) : MapAcc :=
  { a with why := if a.why == "" then why else a.why }

def mapStep (a : MapAcc) (op : MapOp) : MapAcc :=
  if a.dead then a else
  match op with
  | .store k v =>
    match a.m.store k v with
    | some m' => { a with m := m', ref := refStore a.ref k v }
    | none => { a with dead := true }
  | .delete k =>
    match a.m.delete k with
    | some m' => { a with m := m', ref := refDelete a.ref k }
    | none => { a with dead := true }
  | .load k =>
    let r := a.m.load k
    let a := if r == refLoad a.ref k then a else a.fail "load"
    { a with outs := (match r with | some v => toString v | none => "-") :: a.outs }
  | .len =>
    match a.m.len with
    | some n =>
      let a := if n == a.ref.length then a else a.fail "len"
      { a with outs := toString n :: a.outs }
    | none => { a with dead := true }
  | .rangeStop n =>
    match a.m.range (fun l => l.length < n) with
    | some log =>
      let valid := log.all fun e => a.m.load e.1 == some e.2
      let norep := nodupKeys (log.map (·.1))
      let a := if log.length == min (max n 1) a.ref.length && valid && norep then a else a.fail "range-stop"
      { a with outs := s!"{log.length}:{b2s valid}:{b2s norep}" :: a.outs }
    | none => { a with dead := true }
  | .rangeAll =>
    match a.m.range (fun _ => true) with
    | some log =>
      let a := if sortEntries log == a.ref && log.length == a.ref.length then a else a.fail "range-all"
      -- repeated keys would show up as repeated entries
      { a with outs := showEntries (sortEntries log) :: a.outs }
    | none => { a with dead := true }
  | .bad => { a with dead := true }

/-- `cmap <smap|def|shards> <op,op,…>` -> results of the observing operations, then the final `Len`
and the final full `Range` -/
def runCmap (args : List String) : Res :=
  match args with
  | [target, ops] =>
    let m0 : MapM :=
      if target == "smap" then .sm []
      else
        let c : Cfg := { hash := fun k => k, n := if target == "def" then 0 else target.toNat! }
        .cm c (State.init c)
    let opl := if ops == "." then [] else (ops.splitOn ",").map parseMapOp
    let a := (opl ++ [MapOp.len, MapOp.rangeAll]).foldl mapStep { m := m0, ref := [] }
    if a.dead then bad "cmap-step-disabled" else
    let used := match a.m with
      | .cm _ s => (s.shards.filter fun (m : Shard) => !m.isEmpty).length
      | .sm m => if m.isEmpty then 0 else 1
    let shards := match a.m with
      | .cm c _ => c.num
      | .sm _ => 1
    { out := ";".intercalate a.outs.reverse,
      spec := if a.why == "" then "ok" else "bad:model-differs-from-plain-map:" ++ a.why,
      tags := s!"target={target} shards={shards} used={used} size={a.ref.length}" }
  | _ => bad "cmap-args"

/-! `cmapconc park <target> <nkeys> <initmask> <ops> <obs>`: the operations were issued while a parked
`Range` held the lock they all need, so they are pairwise concurrent and any order of them is a legal
linearization.  The observation is each operation's result followed by the quiescent `Load`s, `Len`
and `Range`; it is accepted iff some order of the operations, run on the sequential reference map,
produces exactly it. -/

def perms {α} : List α → List (List α)
  | [] => [[]]
  | x :: xs => (perms xs).flatMap fun p => (List.range (p.length + 1)).map fun i => p.take i ++ x :: p.drop i

/-- run the indexed operations in the given order; results are reported by original index -/
def parkRun (init : List Entry) (order : List (Nat × MapOp)) (n : Nat) : String :=
  let (m, rs) := order.foldl (fun (acc : List Entry × List (Nat × String)) (iop : Nat × MapOp) =>
    let (m, rs) := acc
    match iop.2 with
    | .store k v => (refStore m k v, (iop.1, "_") :: rs)
    | .delete k => (refDelete m k, (iop.1, "_") :: rs)
    | .load k => (m, (iop.1, match refLoad m k with | some v => toString v | none => "-") :: rs)
    | .len => (m, (iop.1, toString m.length) :: rs)
    | _ => (m, (iop.1, "?") :: rs)) (init, [])
  let res := (List.range n).map fun i => ((rs.find? (·.1 == i)).map (·.2)).getD "?"
  s!"{"|".intercalate res};F={showEntries m};L={m.length};R={showEntries m}"

def runCmapPark (args : List String) : Res :=
  match args with
  | [_target, nkeys, initmask, ops, obs] =>
    let nk := nkeys.toNat!
    let mask := initmask.toNat!
    let init : List Entry := (List.range nk).filterMap fun i => if mask.testBit i then some (i, 10 + i) else none
    let opl := (ops.splitOn ",").map parseMapOp
    let iops := (List.range opl.length).zip opl
    if obs.startsWith "not-blocked" then { out := obs, spec := "ok", tags := "park" } else
    let outs := (perms iops).map fun p => parkRun init p opl.length
    if outs.contains obs then { out := "done", spec := "ok", tags := s!"park ops={opl.length}" }
    else { out := s!"no-order-of-the-operations-explains:{obs}", spec := "ok", tags := "park" }
  | _ => bad "cmappark-args"

/-- `cmapconc …`: checked entirely on the harness side (see the module comment) -/
def runCmapConc (args : List String) : Res :=
  match args with
  | "park" :: rest => runCmapPark rest
  | _ => { out := "ok", spec := "ok", tags := "conc" }

end Drv
