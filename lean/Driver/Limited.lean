import Driver.Util
import Gws.Model.Limited
/-! Suite `limited`: the bounded copy loop of Decompress on scripted source reads. -/
namespace Drv
open Limited

def parseRead (t : String) : Option (Nat × Status) :=
  match t.splitOn ":" with
  | [n, "m"] => n.toNat?.map (·, Status.more)
  | [n, "e"] => n.toNat?.map (·, Status.eof)
  | [n, "f"] => n.toNat?.map (·, Status.fail)
  | _ => none

/-- `limited <limit> <n,n,…|.> <eofWithLast 0|1> <failAtEnd 0|1> <obs: n:s,n:s,…>`: the model is run on
the reads the source actually served (their sizes are chosen by `bytes.Buffer.ReadFrom`); the spec
verdict compares the outcome with "total inflated size > limit". -/
def runLimited (args : List String) : Res :=
  match args with
  | [limit, chunks, _ewl, fae, obs] =>
    let cs := if chunks == "." then [] else (chunks.splitOn ",").map String.toNat!
    let fae := s2b fae
    match (if obs == "." then some [] else (obs.splitOn ",").mapM parseRead) with
    | none => bad "limited-obs"
    | some reads =>
      let (w, o) := run limit.toNat! reads
      let total := cs.foldl (· + ·) 0
      let cls := match o with | .ok => "ok" | .tooLarge => "toolarge" | .fail => "fail" | .starved => "starved"
      let want : String := if total > limit.toNat! then "toolarge" else if fae then "fail" else "ok"
      -- the reads served must be the scripted bytes: nothing lost, nothing invented, up to where the copy stopped
      let served := reads.foldl (fun a r => a + r.1) 0
      { out := s!"{w} {cls}",
        spec := if cls != want then "bad:verdict-differs-from-total-vs-limit"
                else if served > total then "bad:more-bytes-served-than-scripted" else "ok",
        tags := s!"{cls} reads={min reads.length 4}" }
  | _ => bad "limited-args"

end Drv
