import Driver.Util
/-! Suite `faults`: fault enumeration on real sessions and handshakes. The expected verdict is what
the C09 theorems say of every reachable state of the connection transition system: exactly one
clean teardown.  The harness evaluates the runtime clauses (callbacks, transport, goroutines). -/
namespace Drv

def runFaults (args : List String) : Res :=
  match args with
  | "session" :: _ => { out := "teardown-ok", tags := "session-fault" }
  | "session-clean" :: _ => { out := "teardown-ok", tags := "session-clean" }
  | "deadline-stall" :: _ => { out := "teardown-ok", tags := "deadline-stall" }
  | "file-fault" :: _ => { out := "teardown-ok", tags := "file-fault" }
  | "hs-client" :: _ | "hs-server" :: _ => { out := "handshake-clean", tags := "hs-fault" }
  | ["hs-client-stall"] | ["hs-server-stall"] | ["hs-client-silent", _] | "hs-client-tcp" :: _ => { out := "handshake-clean", tags := "hs-stall" }
  | ["close-via-write", _] =>
    -- C06: one Close frame, nothing after it, later writes rejected, transport closed (what the transition system's
    -- closer does: the Close opcode through a generic write API is a local close request)
    { out := "first=ok later-write=closed later-close=closed frames=8 closed=1 transport-closed=1", tags := "close-via-write" }
  | "file-gap" :: _ =>
    -- C08 `file_frames_contiguous`: the write lock is held for the whole streamed message, so a data writer that
    -- arrives while WriteFile reads its source cannot put its frame between the fragments
    { out := "contiguous", tags := "file-gap" }
  | ["stall-readloop"] =>
    -- the read loop's teardown takes the write lock only by TryLock: it returns whatever a stalled writer does
    { out := "readloop-returned", tags := "stall-readloop" }
  | ["stall-close"] => { out := "close-completed", tags := "stall-close" }
  | _ => bad "faults-args"

end Drv
