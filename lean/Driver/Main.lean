import Driver.Pure
import Driver.Read
import Driver.Utf8
import Driver.Nego
import Driver.TaskQ
import Driver.Map
import Driver.Handshake
import Driver.Conn
import Driver.Deque
import Driver.Faults
import Driver.Sess
import Driver.Own
import Driver.Write
import Driver.Par
import Driver.Limited

open Drv

def dispatch (line : String) : Res :=
  match (line.splitOn " ").filter (· ≠ "") with
  | "mask" :: args => runMask args
  | "win" :: args => runWin args
  | "read" :: args => runRead args
  | "utf8" :: args => runUtf8 args
  | "nego" :: args => runNego args
  | "taskq" :: args => runTaskQ args
  | "cmap" :: args => runCmap args
  | "cmapconc" :: args => runCmapConc args
  | "hs-server" :: args => runHsServer args
  | "hs-client" :: args => runHsClient args
  | "conn" :: args => runConn args
  | "deque" :: args => runDeque args
  | "faults" :: args => runFaults args
  | "sess" :: args => runSess args
  | "own" :: args => runOwn args
  | "write" :: args => runWrite args
  | "par" :: args => runPar args
  | "limited" :: args => runLimited args
  | "racy" :: args => runRacy args
  | _ => bad "unknown-suite"

partial def loop (hin hout : IO.FS.Stream) : IO Unit := do
  let line ← hin.getLine
  if line.isEmpty then return ()
  let l := (line.dropEndWhile (fun c => c == '\n' || c == '\r')).toString
  match (l.splitOn " ").filter (· ≠ "") with
  | "conngen" :: args => for c in genConn args do hout.putStrLn c
  | _ => hout.putStrLn (dispatch l).render
  loop hin hout

def main : IO Unit := do
  let hin ← IO.getStdin
  let hout ← IO.getStdout
  loop hin hout
  hout.flush
