import Driver.Util
import Gws.Model.Handshake
/-!
Suites over the opening-handshake model: `hs-server` (C10) and `hs-client` (C11).

```
hs-server req <subs:hexlist> <respHeader:hdr> <comp> <auth> <sess:hex> <ext:none|hex> <method:hex> <parsed request header:hdr> <raw:hex>
hs-server bad <raw:hex>
hs-client resp <reqHeader:hdr> <comp> <ext:none|hex> <status> <parsed response header:hdr> <raw:hex> <frames> <cuts>
hs-client bad  <reqHeader:hdr> <comp> <ext:none|hex> <raw:hex> <cuts> <close|hang>
hs-client keys <n>
```
A `req` / `resp` line may end with observation fields `impl:<0|1>` appended by the harness run (what
the implementation decided on this case; the last one counts): the spec verdict then also judges the
implementation's decision against the property's condition, so a deviation of the code shows as
`bad:impl-…` and not only as a difference from the model.
`hdr` = `.` or `name=hexlist;name=hexlist;…` (names in hex); `frames` = `.` or `op:payloadhex,…` ending
with a Close frame.  Response header values may contain the placeholders `$ACCEPT` (the right accept
value for the key in use), `$LOWER` (it, lower-cased), `$TRUNC` (it, without its last character) and
`$OTHER` (the accept value of another key); the implementation side substitutes them for the key the
client really sent, the driver for a fixed key — the decision depends on the key only through them.
-/

namespace Drv.HsDrv

open Hs
open Sha1 (asc)

def parseHdr (s : String) : Header :=
  if s == "." then [] else
  (s.splitOn ";").map fun e =>
    match e.splitOn "=" with
    | [n, vs] => (parseHex n, parseHexList vs)
    | _ => ([], [])

def showHdr (h : Header) : String :=
  if h.isEmpty then "." else ";".intercalate (h.map fun e => toHex e.1 ++ "=" ++ hexList e.2)

def parseOpt (s : String) : Option Bytes := if s == "none" then none else some (parseHex s)

def sortStrings (l : List String) : List String := (l.toArray.qsort (· < ·)).toList

/-- split at the first empty line: (head without the final CRLF CRLF, body) -/
def splitHead : Bytes → Bytes → Bytes × Bytes
  | acc, 13 :: 10 :: 13 :: 10 :: r => (acc.reverse, r)
  | acc, c :: r => splitHead (c :: acc) r
  | acc, [] => (acc.reverse, [])

def splitCRLF : Bytes → Bytes → List Bytes
  | acc, 13 :: 10 :: r => acc.reverse :: splitCRLF [] r
  | acc, c :: r => splitCRLF (c :: acc) r
  | acc, [] => [acc.reverse]

def trimOWS (b : Bytes) : Bytes :=
  let f := fun (x : UInt8) => x == 32 || x == 9
  ((b.dropWhile f).reverse.dropWhile f).reverse

/-- what a reader using `Header.Get` sees for `name` in a list of raw header lines -/
def lineGet (lines : List Bytes) (name : Bytes) : Bytes :=
  let kv := lines.map fun l => (canon (l.takeWhile (· != 58)), trimOWS ((l.dropWhile (· != 58)).drop 1))
  match kv.find? (fun e => e.1 == canon name) with
  | some e => e.2
  | none => []

/-- canonical rendering of the bytes a server wrote, shared with the harness: status line, the other
head lines sorted (a `Date` line dropped), the body, and the `Get` view of the five protected fields -/
def showWritten (w : Bytes) : String :=
  let (head, body) := splitHead [] w
  match splitCRLF [] head with
  | [] => "status=- lines=. body=- get=."
  | st :: ls =>
    let ls := ls.filter (fun l => !(asc "Date: ").isPrefixOf l)
    let sorted := sortStrings (ls.map toHex)
    let gets := [kUpgrade, kConnection, kAccept, kExtensions, kProtocol].map (lineGet ls)
    s!"status={toHex st} lines={if sorted.isEmpty then "." else ",".intercalate sorted} body={toHex body} get={hexList gets}"

def sErrName : SErr → String
  | .unauthorized => "unauthorized"
  | .handshake => "handshake"
  | .version => "version"
  | .subprotocol => "subprotocol"

def asciiFoldEq (a b : Bytes) : Bool := lower a == lower b

def subOk (mine peer : List Bytes) : Bool := mine.isEmpty || mine.any (fun p => peer.contains p)

/-- splits the observation fields `impl:<b>` off the end of the argument list -/
def splitObs (args : List String) : List String × Option Bool :=
  let obs := args.filter (·.startsWith "impl:")
  (args.filter (fun a => !a.startsWith "impl:"), obs.getLast?.map (· == "impl:1"))

/-- verdict on one decision (`who` = model or impl): it must equal the property's condition `strict`;
accepting under the Unicode-fold reading `fold` of "any letter case" is tolerated latitude -/
def judge (who : String) (acc strict fold : Bool) : Option String :=
  if acc == strict then none
  else if acc && fold then none
  else if acc then some s!"bad:{who}-accepted-invalid"
  else some s!"bad:{who}-refused-valid"

end Drv.HsDrv

namespace Drv

open Hs HsDrv
open Sha1 (asc)

/-- `hs-server` -/
def runHsServer (args0 : List String) : Res :=
  let (args, implAcc) := splitObs args0
  match args with
  | ["bad", _] => { out := "http-parse-error", tags := "parse-error" }
  | ["req", subs, rh, _comp, auth, sess, ext, method, hdr, _raw] =>
    let o : ServerOpt := { subProtocols := parseHexList subs, responseHeader := parseHdr rh }
    let r : Request := { method := parseHex method, header := parseHdr hdr }
    let auth := s2b auth
    let ext := parseOpt ext
    let sess := parseHex sess
    let d := serverDecide o r auth ext
    let out := upgradeFromConn o r auth sess ext (asc "D")
    let acc := d.isAccept
    -- the property's iff, computed from the inputs: the upgrade token on any Connection line, a
    -- sub-protocol shared with any Sec-WebSocket-Protocol line
    let connLines := vals r.header kConnection
    let protoLines := vals r.header kProtocol
    let upg := get r.header kUpgrade
    let token : Bool := decide (HasToken connLines (asc "upgrade"))
    let rest := auth && r.method == asc "GET" && get r.header kVersion == asc "13" && token &&
      get r.header kKey != [] && subOk o.subProtocols (offered protoLines)
    let strict := rest && asciiFoldEq upg (asc "websocket")
    let fold := rest && foldEq upg (asc "websocket")
    -- response clauses, computed from the inputs
    let canonical := o.responseHeader.all (fun e => canon e.1 == e.1)
    let respOk : Bool := match d with
      | .reject _ => true
      | .accept ls sp =>
        let named := fun (k : Bytes) => ls.filter (fun l => canon l.1 == canon k)
        let firstCommon := (o.subProtocols.find? (fun p => (offered protoLines).contains p)).getD []
        -- a field the code writes is the first line of its name; one it does not write is absent
        -- (the latter only when the configured keys are canonical, see `response_fields`)
        let expect := fun (k : Bytes) (want : Option (Bytes × Bytes)) =>
          match want with
          | some l => (named k).head? == some l && (!canonical || (named k).length == 1)
          | none => !canonical || (named k).isEmpty
        expect kUpgrade (some (kUpgrade, asc "websocket")) &&
        expect kConnection (some (kConnection, asc "Upgrade")) &&
        expect kAccept (some (kAccept, Base64.encode (Sha1.sha1 (get r.header kKey ++ asc Facts.magicNumber)))) &&
        expect kExtensions (ext.map (fun v => (kExtensions, v))) &&
        expect kProtocol (if o.subProtocols.isEmpty then none else some (kProtocol, sp)) &&
        sp == firstCommon
    let spec :=
      match judge "model" acc strict fold with
      | some v => v
      | none =>
      match implAcc.bind (fun a => judge "impl" a strict fold) with
      | some v => v
      | none =>
        if !respOk then "bad:response-fields"
        else if acc != out.conn.isSome || acc == out.closed then "bad:outcome"
        else "ok"
    let lowerHas := fun (v : Bytes) => (List.range v.length).any (fun i => (asc "upgrade").isPrefixOf ((lower v).drop i))
    let tags := String.intercalate " " <|
      [match d with | .accept _ _ => "accept" | .reject e => "reject-" ++ sErrName e] ++
      (if acc && !strict then ["nonascii-fold-accepted"] else []) ++
      (if !token && connLines.any lowerHas then ["substring-not-token"] else []) ++
      (if token && !decide (HasToken (connLines.take 1) (asc "upgrade")) then ["token-on-later-line"] else []) ++
      (if protoLines.length > 1 then ["multi-protocol-lines"] else []) ++
      (if !o.subProtocols.isEmpty && acc && !subOk o.subProtocols (offered (protoLines.take 1)) then ["protocol-on-later-line"] else []) ++
      (if (vals r.header kUpgrade).length > 1 then ["multi-upgrade-lines"] else []) ++
      (if !canonical then ["noncanonical-config-key"] else []) ++
      (if ext.isSome then ["ext"] else []) ++
      (if !o.subProtocols.isEmpty then ["subs"] else [])
    let cv := match out.conn with
      | some c => s!"conn=1 sp={toHex c.subprotocol} sess={toHex c.session}"
      | none => "conn=0 sp=- sess=-"
    { out := s!"acc={b2s acc} err={match out.err with | some e => sErrName e | none => "-"} {showWritten out.written} {cv} closed={b2s out.closed} iso=1 extonly=1",
      spec := spec, tags := tags }
  | _ => bad "hs-server-args"

end Drv

namespace Drv.HsDrv

open Hs
open Sha1 (asc)

/-! ### client -/

def sampleKey : Bytes := asc "dGhlIHNhbXBsZSBub25jZQ=="
def otherKey : Bytes := asc "AAAAAAAAAAAAAAAAAAAAAA=="

def replaceAll (pat rep : Bytes) : Nat → Bytes → Bytes
  | 0, s => s
  | _, [] => []
  | n + 1, c :: r =>
    if pat.isPrefixOf (c :: r) && !pat.isEmpty then rep ++ replaceAll pat rep n ((c :: r).drop pat.length)
    else c :: replaceAll pat rep n r

def substAccept (key : Bytes) (v : Bytes) : Bytes :=
  let a := acceptKey key
  let v := replaceAll (asc "$ACCEPT") a v.length v
  let v := replaceAll (asc "$LOWER") (lower a) v.length v
  let v := replaceAll (asc "$TRUNC") (a.take (a.length - 1)) v.length v
  replaceAll (asc "$OTHER") (acceptKey otherKey) v.length v

def cErrName : CErr → String
  | .status => "status"
  | .connection => "connection"
  | .upgrade => "upgrade"
  | .accept => "accept"
  | .subprotocol => "subprotocol"

/-- what `Request.Write` followed by `http.ReadRequest` makes of a header map: lines are written in
the order of the (raw) keys with values trimmed, the reader canonicalises the names and appends the
values of equal names -/
def overTheWire (h : Header) : Header :=
  let sorted := (h.toArray.qsort (fun a b => toHex a.1 < toHex b.1)).toList
  sorted.foldl (fun (acc : Header) e =>
    let k := canon e.1
    let vs := e.2.map trimOWS
    if vs.isEmpty then acc
    else if acc.any (fun a => a.1 == k) then acc.map (fun a => if a.1 == k then (a.1, a.2 ++ vs) else a)
    else acc ++ [(k, vs)]) []

/-- the request as the scripted server parses it: every header except Host and User-Agent (added by
net/http), sorted by name; the key replaced by a marker -/
def showRequest (o : ClientOpt) (ext : Option Bytes) : String :=
  let h := overTheWire (requestHeader o (asc "KEY") ext)
  let h := h.filter (fun e => e.1 != asc "Host" && e.1 != asc "User-Agent")
  let sorted := sortStrings (h.map fun e => toHex e.1 ++ "=" ++ hexList e.2)
  "req=GET:/verif hdr=" ++ (if sorted.isEmpty then "." else ";".intercalate sorted) ++ " key16=1"

def showFrames (frames : String) : String :=
  if frames == "." then "-" else
  let fs := (frames.splitOn ",").map fun f =>
    match f.splitOn ":" with
    | [op, p] => (op.toNat!, parseHex p)
    | _ => (0, [])
  let ev := fs.map fun (op, p) =>
    if op == 8 then
      let code := (p.getD 0 0).toNat * 256 + (p.getD 1 0).toNat
      s!"close:peer({code},{toHex (p.drop 2)})"
    else if op == 9 then "ping:" ++ toHex p
    else if op == 10 then "pong:" ++ toHex p
    else s!"msg:{op}:{toHex p}"
  ";".intercalate ("open" :: ev)

end Drv.HsDrv

namespace Drv

open Hs HsDrv
open Sha1 (asc)

/-- `hs-client` -/
def runHsClient (args0 : List String) : Res :=
  let (args, implAcc) := splitObs args0
  match args with
  | ["keys", n] => { out := s!"n={n} distinct=1 len16=1", tags := "keys" }
  | ["bad", rh, _comp, ext, _raw, _cuts, end_] =>
    let o : ClientOpt := { requestHeader := parseHdr rh }
    { out := s!"acc=0 err=io sp=- closed=1 timely=1 {showRequest o (parseOpt ext)} msgs=-",
      tags := "no-response-" ++ end_ }
  | ["resp", rh, _comp, ext, status, hdr, _raw, frames, _cuts] =>
    let o : ClientOpt := { requestHeader := parseHdr rh }
    let key := sampleKey
    let header := (parseHdr hdr).map fun e => (e.1, e.2.map (substAccept key))
    let resp : Resp := { status := status.toNat!, header := header }
    let out := clientOutcome o key resp
    let acc := out.conn.isSome
    let connLines := vals resp.header kConnection
    let upg := get resp.header kUpgrade
    let requested := split (get o.requestHeader kProtocol)
    let token : Bool := decide (HasToken connLines (asc "upgrade"))
    let rest := resp.status == 101 && token &&
      get resp.header kAccept == Base64.encode (Sha1.sha1 (key ++ asc Facts.magicNumber)) &&
      subOk requested (split (get resp.header kProtocol))
    let strict := rest && asciiFoldEq upg (asc "websocket")
    let fold := rest && foldEq upg (asc "websocket")
    let firstCommon := (requested.find? (fun p => (split (get resp.header kProtocol)).contains p)).getD []
    let spec :=
      match judge "model" acc strict fold with
      | some v => v
      | none =>
      match implAcc.bind (fun a => judge "impl" a strict fold) with
      | some v => v
      | none =>
        if acc && out.conn != some firstCommon then "bad:subprotocol"
        else if acc == out.closed then "bad:outcome"
        else "ok"
    let lowerHas := fun (v : Bytes) => (List.range v.length).any (fun i => (asc "upgrade").isPrefixOf ((lower v).drop i))
    let tags := String.intercalate " " <|
      [match out.err with | some e => "reject-" ++ cErrName e | none => "accept"] ++
      (if acc && !strict then ["nonascii-fold-accepted"] else []) ++
      (if !token && connLines.any lowerHas then ["substring-not-token"] else []) ++
      (if token && !decide (HasToken (connLines.take 1) (asc "upgrade")) then ["token-on-later-line"] else []) ++
      (if !requested.isEmpty then ["subs"] else []) ++
      (if frames != "." then ["frames"] else [])
    { out := s!"acc={b2s acc} err={match out.err with | some e => cErrName e | none => "-"} sp={match out.conn with | some sp => toHex sp | none => "-"} closed={b2s out.closed} timely=1 {showRequest o (parseOpt ext)} msgs={if acc then showFrames frames else "-"}",
      spec := spec, tags := tags }
  | _ => bad "hs-client-args"

end Drv
