import Driver.Util
import Gws.Model.Conc.Conn
/-! Suite `conn`: schedules of the connection-protocol transition system; model-based generation. -/
namespace Drv
open Conc

def parseKind (s : String) : Option Kind :=
  if s == "w" then some (.write false)
  else if s == "wr" then some (.write true)
  else if s == "b" then some .bcast
  else if s == "c" then some .closer
  else if s.startsWith "f" then (s.drop 1).toString.toNat?.map Kind.file
  else if s.startsWith "r" then
    some (.reader ((s.drop 1).toString.toList.filterMap fun ch =>
      if ch == 'm' then some Inbound.msg else if ch == 'p' then some .peerClose else if ch == 'e' then some .readErr else none))
  else none

def kindStr : Kind → String
  | .write false => "w"
  | .write true => "wr"
  | .bcast => "b"
  | .closer => "c"
  | .file n => s!"f{n}"
  | .reader sc => "r" ++ String.ofList (sc.map fun | .msg => 'm' | .peerClose => 'p' | .readErr => 'e')

/-- `s<id>:<kind>` spawn, `a<id>` act, `a<id>!` act with a transport fault -/
def parseAction (t : String) : Option Action :=
  if t.startsWith "s" then
    match (t.drop 1).toString.splitOn ":" with
    | [i, k] => do let i ← i.toNat?; let k ← parseKind k; pure (.spawn i k)
    | _ => none
  else if t.startsWith "a" then
    let body := (t.drop 1).toString
    if body.endsWith "!" then (body.dropEnd 1).toString.toNat?.map (Action.act · true)
    else body.toNat?.map (Action.act · false)
  else none

def actionStr : Action → String
  | .spawn a k => s!"s{a}:{kindStr k}"
  | .act a false => s!"a{a}"
  | .act a true => s!"a{a}!"

def frameStr : Frame → String
  | .data o i l => s!"d{o}.{i}{if l then "L" else ""}"
  | .close o => s!"c{o}"

def retStr : Ret → String
  | .ok => "ok" | .closed => "closed" | .rejected => "rejected" | .ioErr => "ioerr"

def cbStr : Cb → String
  | .opened => "o" | .message => "m" | .closedCb st => if st then "x1" else "x0"

/-- the spawn actions of a schedule give each actor's kind -/
def kindsOf (xs : List Action) : List (Nat × Kind) :=
  xs.filterMap fun | .spawn a k => some (a, k) | _ => none

/-- C06/C08/C07 clauses evaluated on a final state (what the theorems say of every reachable state) -/
def connSpec (kinds : List (Nat × Kind)) (s : State) : String :=
  let closes := s.wire.filter (·.isClose)
  let afterClose := (s.wire.dropWhile (fun f => !f.isClose)).drop 1
  -- frames of one actor's message are contiguous and in order, FIN exactly on the last
  let owners := (s.wire.filterMap fun | .data o _ _ => some o | _ => none).eraseDups
  let contiguous := owners.all fun o =>
    let seg := (s.wire.dropWhile (fun f => match f with | .data o' _ _ => o' != o | _ => true)).takeWhile
      (fun f => match f with | .data o' _ _ => o' == o | _ => false)
    let all := s.wire.filter (fun f => match f with | .data o' _ _ => o' == o | _ => false)
    seg == all && (all.zipIdx.all fun (f, i) => match f with | .data _ idx _ => idx == i | _ => false)
  -- ret ok ⇔ the actor's complete message (or Close frame) is on the wire
  let retOk := s.pcs.all fun (a, pc) =>
    match pc, kinds.lookup a with
    | .done r, some (.write _) | .done r, some (.file _) =>
      let complete := s.wire.any (fun f => match f with | .data o _ l => o == a && l | _ => false)
      (r == .ok) == complete
    | .done r, some .closer => (r == .ok) → s.wire.any (fun f => f == .close a)
    | _, _ => true
  let rejectedNoBytes := s.pcs.all fun (a, pc) =>
    match pc with
    | .done .rejected => !s.wire.any (fun f => match f with | .data o _ _ => o == a | _ => false)
    | _ => true
  let closedCbs := s.cbs.filter (fun c => match c with | .closedCb _ => true | _ => false)
  let cbShape := (s.cbs.isEmpty || s.cbs.head? == some .opened) && closedCbs.length ≤ 1 &&
    (closedCbs.isEmpty || (match s.cbs.getLast? with | some (.closedCb _) => true | _ => false)) &&
    (s.cbs.filter (· == .opened)).length ≤ 1
  if closes.length > 1 then "bad:more-than-one-close-frame"
  else if !afterClose.isEmpty then "bad:frame-after-close-frame"
  else if !closes.isEmpty && !s.closed then "bad:close-frame-without-closed-flag"
  else if !contiguous then "bad:message-frames-interleaved"
  else if !retOk then "bad:success-does-not-match-wire"
  else if !rejectedNoBytes then "bad:rejected-call-wrote-bytes"
  else if !cbShape then "bad:callback-lifecycle"
  else if s.tclosed && !s.closed then "bad:transport-closed-without-closed-flag"
  else "ok"

def obsStr (kinds : List (Nat × Kind)) (s : State) : String :=
  -- a Close frame sent by WriteClose carries the actor's id in its status; one sent by emitError/emitClose does not
  let fstr := fun (f : Frame) => match f with
    | .close o => if kinds.lookup o == some .closer then frameStr f else "cE"
    | _ => frameStr f
  let wire := if s.wire.isEmpty then "-" else ",".intercalate (s.wire.map fstr)
  let rets := (s.pcs.filterMap fun (a, pc) =>
    match pc, kinds.lookup a with
    | .done r, some (.write _) | .done r, some (.file _) | .done r, some .closer => some (a, s!"{a}:{retStr r}")
    | _, _ => none)
  let rets := (rets.toArray.qsort (fun x y => x.1 < y.1)).toList.map (·.2)
  let cbs := if s.cbs.isEmpty then "-" else "".intercalate (s.cbs.map cbStr)
  s!"wire={wire} rets={if rets.isEmpty then "-" else ",".intercalate rets} cbs={cbs} closed={b2s s.closed} tclosed={b2s s.tclosed}"

/-- `conn <action,action,…>` -/
def runConn (args : List String) : Res :=
  match args with
  | [acts] =>
    match (acts.splitOn ",").mapM parseAction with
    | none => bad "conn-action-syntax"
    | some xs =>
      match run {} xs with
      | none => bad "action-not-enabled"
      | some s =>
        let kinds := kindsOf xs
        let pend := s.pcs.filter (fun (_, pc) => match pc with | .done _ => false | _ => true)
        { out := obsStr kinds s, spec := connSpec kinds s,
          tags := s!"actors={kinds.length} steps={min xs.length 20} pending={pend.length} faults={(xs.filter fun | .act _ true => true | _ => false).length}" }
  | _ => bad "conn-args"

/-- all schedules of the given actors (spawned up front, in order): depth-first over the enabled
`act`s, each run until no actor can move or `depth` actions; `faultIds` may suffer one transport
fault each at any of their write steps. Returns complete schedules only. -/
partial def enumSchedules (spawns : List Action) (depth : Nat) (faultIds : List Nat) : List (List Action) :=
  let ids := spawns.filterMap fun | .spawn a _ => some a | _ => none
  let s0 := (run {} spawns).getD {}
  let rec go (s : State) (acc : List Action) (d : Nat) (faultsLeft : List Nat) : List (List Action) :=
    let moves := ids.flatMap fun a =>
      let plain := match step s (.act a false) with | some s' => [(Action.act a false, s', faultsLeft)] | none => []
      let isWrite := match s.pc a with | .wWrite | .bWrite | .kWrite _ => true | .fCheck _ _ => !s.closed | _ => false
      let faulty := if isWrite && faultsLeft.contains a && !s.tclosed then
          match step s (.act a true) with | some s' => [(Action.act a true, s', faultsLeft.erase a)] | none => []
        else []
      plain ++ faulty
    if moves.isEmpty || d == 0 then [acc.reverse]
    else moves.flatMap fun (x, s', fl) => go s' (x :: acc) (d - 1) fl
  (go s0 [] depth faultIds).map (spawns ++ ·)

/-- `conngen <kind,kind,…> <depth> <faultIds|-> <limit>`: prints up to `limit` schedules, one `conn` case per line -/
def genConn (args : List String) : List String :=
  match args with
  | [kinds, depth, faults, limit] =>
    let ks := (kinds.splitOn ",").filterMap parseKind
    let spawns := ks.zipIdx.map fun (k, i) => Action.spawn (i + 1) k
    let fids := if faults == "-" then [] else (faults.splitOn ",").filterMap String.toNat?
    let all := enumSchedules spawns depth.toNat! fids
    let lim := limit.toNat!
    -- deterministic thinning when there are more schedules than the limit
    let stride := if all.length ≤ lim then 1 else all.length / lim + 1
    (all.zipIdx.filter (fun (_, i) => i % stride == 0)).map fun (xs, _) => "conn " ++ ",".intercalate (xs.map actionStr)
  | _ => []

end Drv
