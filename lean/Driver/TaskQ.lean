import Driver.Util
import Gws.Model.Conc.TaskQueue
/-! Suite `taskq`: action sequences on the worker queue (maxConcurrency from the case line). -/
namespace Drv

/-- `p<id>` submit, `n<id>` the running job `id` completes.  The case line may also contain `z` (a nil task is
submitted: `getJob` enqueues nothing) and `x` (the connection ends): neither is an action of the queue's
transition system — they must leave the queue exactly as it is — so they are skipped here. -/
def parseAct (s : String) : Option TQ.Act :=
  if s.startsWith "p" then (s.drop 1).toString.toNat?.map TQ.Act.push
  else if s.startsWith "n" then (s.drop 1).toString.toNat?.map TQ.Act.next
  else none

/-- `taskq <max> <act,act,…>`: run the actions, then let everything drain; report the start order,
the largest number of simultaneously running jobs, and the jobs still queued/running before the drain -/
def runTaskQ (args : List String) : Res :=
  match args with
  | [max, acts] =>
    let as := if acts == "." then [] else (acts.splitOn ",").filterMap parseAct
    let step := fun (acc : Option (TQ × Nat)) (a : TQ.Act) =>
      match acc with
      | none => none
      | some (s, m) => (s.step a).map fun s' => (s', Nat.max m s'.running.length)
    match as.foldl step (some (TQ.init max.toInt!, 0)) with
    | none => bad "action-not-enabled"
    | some (s, m) =>
      let d := TQ.drain (s.q.length + s.running.length) s
      let fmt := fun (l : List Nat) => if l.isEmpty then "-" else ",".intercalate (l.map toString)
      { out := s!"started={fmt d.started} maxrun={m} pending={fmt (s.running ++ s.q)}",
        spec := if d.started == d.submitted && d.q.isEmpty && d.running.isEmpty && m ≤ max.toNat! then "ok" else "bad:not-fifo-exactly-once",
        tags := s!"acts={min as.length 12} queued={min s.q.length 3}" }
  | ["conc", _, _, _] => { out := "ok", tags := "conc" }
  | ["pingpong", _, _, _] => { out := "ok", tags := "pingpong" }
  | _ => bad "taskq-args"

end Drv
