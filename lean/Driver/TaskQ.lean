import Driver.Util
import Gws.Model.Conc.TaskQueue
/-! Suite `taskq`: action sequences on the worker queue (maxConcurrency from the case line). -/
namespace Drv

/-- `p<id>` submit, `n<id>` the running job `id` completes.  The case line may also contain `z` (a nil task is
submitted: `getJob` enqueues nothing) and `x` (the connection ends): neither is an action of the queue's
transition system — they must leave the queue exactly as it is — so they are skipped here. -/
def parseAct (s : String) : Option TQ.Act :=
  if s.startsWith "p" then (s.drop 1).toString.toNat?.map TQ.Act.push
  else if s.startsWith "n" then (s.drop 1).toString.toNat?.map TQ.Act.next
  else if s.startsWith "w" || s.startsWith "v" then (s.drop 1).toString.toNat?.map TQ.Act.push
  else none

/-- `w<id>` / `v<id>`: a task submitted through `WriteAsync` / `WritevAsync`. It is a `push` whose job completes by itself
as soon as it runs (nothing gates it): after every action the running jobs of that kind take their `next` step. -/
def isAuto (s : String) : Option Nat :=
  if s.startsWith "w" || s.startsWith "v" then (s.drop 1).toString.toNat? else none

def tqSettle (auto : List Nat) : Nat → TQ × Nat → TQ × Nat
  | 0, r => r
  | fuel + 1, (s, m) =>
    match s.running.find? (· ∈ auto) with
    | none => (s, m)
    | some j =>
      match s.step (.next j) with
      | none => (s, m)
      | some s' => tqSettle auto fuel (s', Nat.max m s'.running.length)

/-- `taskq <max> <act,act,…>`: run the actions, then let everything drain; report the start order,
the largest number of simultaneously running jobs, and the jobs still queued/running before the drain -/
def runTaskQ (args : List String) : Res :=
  match args with
  | [max, acts] =>
    let toks := if acts == "." then [] else acts.splitOn ","
    let as := toks.filterMap parseAct
    let auto := toks.filterMap isAuto
    let step := fun (acc : Option (TQ × Nat)) (a : TQ.Act) =>
      match acc with
      | none => none
      | some (s, m) => (s.step a).map fun s' => tqSettle auto (toks.length + 1) (s', Nat.max m s'.running.length)
    match as.foldl step (some (TQ.init max.toInt!, 0)) with
    | none => bad "action-not-enabled"
    | some (s, m) =>
      let d := TQ.drain (s.q.length + s.running.length) s
      let fmt := fun (l : List Nat) => if l.isEmpty then "-" else ",".intercalate (l.map toString)
      { out := s!"started={fmt d.started} maxrun={m} pending={fmt (s.running ++ s.q)}",
        spec := if d.started == d.submitted && d.q.isEmpty && d.running.isEmpty && m ≤ max.toNat! then "ok" else "bad:not-fifo-exactly-once",
        tags := s!"acts={min as.length 12} queued={min s.q.length 3}" }
  | ["conc", _, _, _] => { out := "ok", tags := "conc" }
  | ["pingpong", _, _, _] => { out := "ok", tags := "pingpong" }
  | _ => bad "taskq-args"

end Drv
