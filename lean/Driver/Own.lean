import Driver.Util
/-! Suite `own` (C14): the expected verdict of the ownership observations. -/
namespace Drv
def runOwn (args : List String) : Res :=
  match args with
  | k :: _ => if ["write-apis", "hold-messages", "window-reuse", "broadcaster"].contains k then { out := "owned-ok", tags := k } else bad "own-args"
  | _ => bad "own-args"
def runRacy (_args : List String) : Res := { out := "no-race", tags := "racy" }
end Drv
