import Driver.Util
import Gws.Model.Conc.Own
/-! Suite `own` (C14).

* `own trace <scenario>`: the model's path for the scenario, projected to what the pool hook of the
  harness sees (Get/Put of `binaryPool` by incarnation, Put of the generic pools), printed in the
  harness's canonical form; `spec` is `ok` iff the model's full event list for the scenario runs
  without ownership violation from the state a freshly upgraded connection is in.
* the observational cases (`write-apis`, `hold-messages`, `window-reuse`, `broadcaster`): the expected
  verdict of pool poisoning is `owned-ok`. -/
namespace Drv
open Own

/-- fixed locations of the scenarios: buffers of `binaryPool` are 0…49 -/
def locK : Buf := 50      -- reassembly buffer / control payload (heap)
def locM : Buf := 100     -- c.mu + compression window (cswPool, 2^10 bytes in the harness)
def locD : Buf := 101     -- decompression window (dswPool, 2^12 bytes)
def locS : Buf := 102     -- deflater scratch under dpsLocker
def locZ : Buf := 103     -- flate.Writer: deflater.cpsWriter under cpsLocker, or a pooled bigDeflater
def locRd : Buf := 104    -- bufio.Reader (brPool)
def pidReader : Pid := 1
def pidWriter : Pid := 2
def pidBc : Pid := 3

structure Scn where
  side : String := "s"
  evs : List Ev
  kPooled : Bool := false     -- the reassembly buffer has a pool capacity
  zPooled : Bool := false     -- the flate.Writer is a bigDeflater from bdPool (server WriteFile)
  genericOnly : Bool := false -- the harness reports only the generic pools (teardown scenarios)
  fresh : Bool := false       -- the scenario starts before the handshake: everything is still in its pool

def Scn.cls (s : Scn) (b : Buf) : Class :=
  if b < 50 then .bin
  else if b = locK then (if s.kPooled then .heapPooled else .heap)
  else if b = locM then .gen "win1024"
  else if b = locD then .gen "win4096"
  else if b = locZ then (if s.zPooled then .gen "deflater" else .mutex)
  else if b = locRd then .gen "reader"
  else .heap

/-- the heap of a freshly upgraded, idle connection: window parked under `c.mu`, scratch and shared
writer parked under their mutexes, reader and decompression window held by the read loop -/
def Scn.init (s : Scn) : Heap :=
  if s.fresh then { cell := fun b => if b = locS ∨ b = locZ then { own := .guarded } else {}, lent := fun _ => none } else
  { cell := fun b =>
      if b = locM ∨ b = locS then { own := .guarded }
      else if b = locZ then { own := if s.zPooled then .pool else .guarded }
      else if b = locD ∨ b = locRd then { own := .lib pidReader }
      else {}
    lent := fun _ => none }

def bcScn (acts : List BAct) : Option Scn :=
  ((BC.init pidBc 0 0 1).run acts).map fun s => { evs := s.trace }

/-- a writer parked in the transport (holding `c.mu`) while the read loop ends -/
def busyTeardown : List Ev :=
  let w := writeFrame true true false pidWriter 0 locM locZ 0
  let i := w.length - 5 -- up to and including the transport write `libRead f`
  w.take i ++ readLoopEnd false pidReader locRd locM (some locD) ++ w.drop i

def scenario : String → Option Scn
  | "single-plain" => some { evs := readSingle false true true pidReader 0 1 locS none }
  | "single-compressed" => some { evs := readSingle true true true pidReader 0 1 locS (some locD) }
  | "single-plain-hold" => some { evs := readSingle false true false pidReader 0 1 locS none ++ [.appClose 0] }
  | "single-compressed-hold" => some { evs := readSingle true true false pidReader 0 1 locS (some locD) ++ [.appClose 1] }
  | "single-plain-client" => some { side := "c", evs := readSingle false false true pidReader 0 1 locS none }
  | "single-compressed-client" => some { side := "c", evs := readSingle true false true pidReader 0 1 locS (some locD) }
  | "fragments-3" => some { evs := readFragments false true true pidReader locK [0, 1] 2 3 locS none }
  | "fragments-pooled" => some { kPooled := true, evs := readFragments false true true pidReader locK [0] 1 2 locS none }
  | "fragments-compressed" => some { evs := readFragments true true true pidReader locK [0, 1] 2 3 locS (some locD) }
  | "ping" => some { evs := readControl true pidReader locK }
  | "write-server" => some { evs := writeFrame false false false pidWriter 0 locM locZ 0 }
  | "write-client" => some { side := "c", evs := writeFrame false false true pidWriter 0 locM locZ 0 }
  | "write-ping" => some { evs := writeFrame false false false pidWriter 0 locM locZ 0 }
  | "write-compressed" => some { evs := writeFrame true true false pidWriter 0 locM locZ 0 }
  | "write-compressed-client" => some { side := "c", evs := writeFrame true true true pidWriter 0 locM locZ 0 }
  | "writefile-plain-3" => some { evs := writeFilePlain false pidWriter locM 0 [1, 2, 3] }
  | "writefile-plain-1" => some { evs := writeFilePlain false pidWriter locM 0 [1] }
  | "writefile-compressed" =>
    some { zPooled := true, evs := writeFileCompressed true false false pidWriter locM locZ 0 1 [] 2 }
  | "writefile-compressed-client" =>
    some { side := "c", evs := writeFileCompressed true true false pidWriter locM locZ 0 1 [] 2 }
  | "writefile-compressed-big" =>
    some { zPooled := true, evs := writeFileCompressed true false true pidWriter locM locZ 0 1 [(2, 3), (4, 5), (6, 7)] 8 }
  | "broadcast-2" => bcScn [.bcast 0 false, .bcast 1 false, .sendDone 0, .sendDone 1, .close]
  | "broadcast-2-early" => bcScn [.bcast 0 false, .bcast 1 false, .close, .sendDone 0, .sendDone 1]
  | "broadcast-2-mixed" => bcScn [.bcast 0 false, .bcast 1 true, .sendDone 0, .sendDone 1, .close]
  | "upgrade" => some { fresh := true, evs := upgradeServer pidReader 0 locRd locM (some locD) }
  | "write-close" =>
    some { evs := writeClose false pidWriter locM 0 1 ++ readLoopEnd true pidReader locRd locM (some locD) }
  | "teardown-idle" => some { genericOnly := true, evs := readLoopEnd true pidReader locRd locM (some locD) }
  | "teardown-busy" => some { genericOnly := true, evs := busyTeardown }
  | _ => none

def runOwnTrace (name : String) : Res :=
  match scenario name with
  | none => bad "own-scenario"
  | some s =>
    let full := project s.side s.cls s.evs
    let out :=
      if s.genericOnly then
        let keep := (full.splitOn ",").filter fun t => t ≠ "-" ∧ (t.splitOn ":b").length = 1
        if keep.isEmpty then "-" else ",".intercalate keep
      else full
    { out := out
      spec := if (run s.init s.evs).isSome then "ok" else "bad:ownership-violation-in-model-path"
      tags := "trace-" ++ name }

def runOwn (args : List String) : Res :=
  match args with
  | "trace" :: name :: _ => runOwnTrace name
  | k :: _ => if ["write-apis", "hold-messages", "window-reuse", "broadcaster"].contains k then { out := "owned-ok", tags := k } else bad "own-args"
  | _ => bad "own-args"
def runRacy (_args : List String) : Res := { out := "no-race", tags := "racy" }
end Drv
