import Driver.Util
import Gws.Model.Session
/-! Suite `sess`: traffic histories on a gws-to-gws connection; deliveries and the four windows. -/
namespace Drv
open Session

def fnv64 (b : Bytes) : UInt64 := b.foldl (fun h x => (h ^^^ x.toUInt64) * 1099511628211) 14695981039346656037

def winStr (w : Win) : String := s!"{w.dict.length}:{fnv64 w.dict}"

structure SessOp where
  fromServer : Bool
  kind : String           -- msg v async ping pong bc bc2 file
  opcode : Nat
  chunks : List Bytes

def parseSessOp (t : String) : Option SessOp :=
  match t.splitOn ":" with
  | [side, "msg", op, h] => some ⟨side == "s", "msg", op.toNat!, [parseHex h]⟩
  | [side, "async", op, h] => some ⟨side == "s", "msg", op.toNat!, [parseHex h]⟩
  | [side, "v", op, hs] => some ⟨side == "s", "v", op.toNat!, parseHexList hs⟩
  | [side, "ping", h] => some ⟨side == "s", "ping", 9, [parseHex h]⟩
  | [side, "pong", h] => some ⟨side == "s", "pong", 10, [parseHex h]⟩
  | [side, "bc", op, h] => some ⟨side == "s", "bc", op.toNat!, [parseHex h]⟩
  | [side, "bc2", op, h] => some ⟨side == "s", "bc2", op.toNat!, [parseHex h]⟩
  | [side, "file", op, hs] => some ⟨side == "s", "file", op.toNat!, parseHexList hs⟩
  | _ => none

/-- `sess <enabled> <sT> <cT> <sBits> <cBits> <sThr> <cThr> <op;op;…>` -/
def runSess (args : List String) : Res :=
  match args with
  | [en, sT, cT, sBits, cBits, sThr, cThr, ops] =>
    let en := s2b en
    let s2c : Cfg := { enabled := en, takeover := s2b sT, bits := sBits.toNat!, thr := sThr.toNat! }
    let c2s : Cfg := { enabled := en, takeover := s2b cT, bits := cBits.toNat!, thr := cThr.toNat! }
    match (ops.splitOn ";").mapM parseSessOp with
    | none => bad "sess-op-syntax"
    | some sops =>
      let toOp := fun (cfg : Cfg) (o : SessOp) =>
        let p := o.chunks.flatten
        match o.kind with
        | "ping" | "pong" => Op.control p
        | "bc" => Op.bcast (decide (p.length ≥ cfg.threshold)) p            -- built under this connection
        | "bc2" => Op.bcast (decide (p.length ≥ sThr.toNat!)) p      -- built under a connection that declined server takeover: the configured threshold applies
        | "file" => Op.file o.chunks
        | _ => Op.data p
      let stepAll := fun (acc : St × St × List String × List String × List String) (o : SessOp) =>
        let (ss, sc, evS, evC, tg) := acc      -- ss: state of server→client, sc: client→server
        let cfg := if o.fromServer then s2c else c2s
        let op := toOp cfg o
        let ev := match o.kind with
          | "ping" => s!"ping:{toHex op.payload}"
          | "pong" => s!"pong:{toHex op.payload}"
          | _ => s!"msg:{o.opcode}:{toHex op.payload}"
        let tag := o.kind ++ (if cfg.compresses op then "+z" else "")
        if o.fromServer then (step s2c ss op, sc, evS, evC ++ [ev], tg ++ [tag])
        else (ss, step c2s sc op, evS ++ [ev], evC, tg ++ [tag])
      let (ss, sc, evS, evC, tg) := sops.foldl stepAll (St.init s2c, St.init c2s, [], [], [])
      let j := fun (l : List String) => if l.isEmpty then "-" else ";".intercalate l
      let sync := ss.cps == ss.dps && sc.cps == sc.dps
      { out := s!"S[{j evS}] C[{j evC}] win S.cps={winStr ss.cps} C.dps={winStr ss.dps} C.cps={winStr sc.cps} S.dps={winStr sc.dps}",
        spec := if sync then "ok" else "bad:windows-out-of-sync",
        tags := " ".intercalate tg.eraseDups }
  | ["multi", _pool, steps] =>
    -- three connections of one upgrader; connection 1 without context takeover.  Each connection is the
    -- single-connection model run on its own steps: sharing pooled deflaters must not be observable.
    let toks := (steps.splitOn ";").map (·.splitOn ":")
    let conn := fun (k : Nat) =>
      let cfg : Cfg := { enabled := true, takeover := k != 1, bits := 12, thr := 1 }
      let mine := toks.filter fun t => t.head? == some (toString k)
      let ev := fun (p : Bytes) => s!"m{p.length}:{fnv64 p}"
      let (ss, sc, evS, evC, dead) := mine.foldl (fun (acc : St × St × List String × List String × Bool) t =>
        let (ss, sc, evS, evC, dead) := acc
        if dead then acc else
        match t with
        | [_, "s", h] => let p := parseHex h; (step cfg ss (.data p), sc, evS, evC ++ [ev p], dead)
        | [_, "c", h] => let p := parseHex h; (ss, step cfg sc (.data p), evS ++ [ev p], evC, dead)
        | [_, "bomb"] => (ss, sc, evS ++ ["closed:1011"], evC, true)   -- the inflated size is not visible on the wire: internal error (1011)
        | _ => acc) (St.init cfg, St.init cfg, [], [], false)
      let j := fun (l : List String) => if l.isEmpty then "-" else ";".intercalate l
      -- the peer of a failed connection sees the Close frame: its own close callback
      let evC := if dead then evC ++ ["closed:nothing"] else evC
      let win := if dead then "" else s!"win={winStr ss.cps},{winStr ss.dps},{winStr sc.cps},{winStr sc.dps}"
      s!"{k}:S[{j evS}]C[{j evC}]{win}"
    { out := " ".intercalate ((List.range 3).map conn), tags := "multi" }
  | ["lim", _, _] =>
    -- C01: a payload within both endpoints' limits is delivered (whatever the compressor makes of it)
    { out := "delivered", tags := "limit-incompressible" }
  | _ => bad "sess-args"

end Drv
