import Driver.Util
import Gws.Model.Window
import Gws.Model.Mask
/-! Suites over the pure units: mask, window. -/

namespace Drv

def toB8 (b : Bytes) : List B8 := b.map (·.toBitVec)
def ofB8 (b : List B8) : Bytes := b.map UInt8.ofBitVec

/-- `mask <key:8hex> <data:hex>` -> transformed data -/
def runMask (args : List String) : Res :=
  match args with
  | [key, data] =>
    match toB8 (parseHex key) with
    | [k0, k1, k2, k3] =>
      let k : Mask.Key := ⟨k0, k1, k2, k3⟩
      let b := toB8 (parseHex data)
      let m := Mask.maskXOR k b
      let s := Mask.spec k b
      let n := b.length
      { out := toHex (ofB8 m),
        spec := if m == s then "ok" else "bad:model-differs-from-bytewise-xor",
        tags := s!"len64={n / 64 != 0} len8={(n % 64) / 8 != 0} tail={n % 8}" }
    | _ => bad "key"
  | _ => bad "mask-args"

/-- `win <bits|off> <item,item,…>` -> window contents after every item; an item is a hex chunk
(a write) or `R` (the window's slice goes back to its pool, as at the end of a connection, and a
new window is initialised from the same pool: it must start empty) -/
def runWin (args : List String) : Res :=
  match args with
  | [bits, chunks] =>
    let w0 := if bits == "off" then Win.disabled else Win.init bits.toNat!
    let items := if chunks == "." then [] else chunks.splitOn ","
    let step := fun (acc : Win × List String × List String × Bytes × Bool) (it : String) =>
      let (w, outs, brs, hist, ok) := acc
      if it == "R" then
        let w' := if w.enabled then Win.init bits.toNat! else w
        (w', toHex w'.dict :: outs, "recycle" :: brs, [], ok && w'.dict.isEmpty)
      else
        let p := parseHex it
        let w' := w.write p
        let hist' := hist ++ p
        let want := if w.enabled then lastN w.size hist' else []
        (w', toHex w'.dict :: outs, Win.branch w p :: brs, hist', ok && w'.dict == want)
    let (_, outs, brs, _, ok) := items.foldl step (w0, [], [], [], true)
    { out := ";".intercalate outs.reverse,
      spec := if ok then "ok" else "bad:window-not-suffix-of-history",
      tags := " ".intercalate brs.reverse }
  | _ => bad "win-args"

end Drv
