import Driver.Util
import Gws.Model.Window
import Gws.Model.Mask
/-! Suites over the pure units: mask, window. -/

namespace Drv

def toB8 (b : Bytes) : List B8 := b.map (·.toBitVec)
def ofB8 (b : List B8) : Bytes := b.map UInt8.ofBitVec

/-- `mask <key:8hex> <data:hex>` -> transformed data -/
def runMask (args : List String) : Res :=
  match args with
  | [key, data] =>
    match toB8 (parseHex key) with
    | [k0, k1, k2, k3] =>
      let k : Mask.Key := ⟨k0, k1, k2, k3⟩
      let b := toB8 (parseHex data)
      let m := Mask.maskXOR k b
      let s := Mask.spec k b
      let n := b.length
      { out := toHex (ofB8 m),
        spec := if m == s then "ok" else "bad:model-differs-from-bytewise-xor",
        tags := s!"len64={n / 64 != 0} len8={(n % 64) / 8 != 0} tail={n % 8}" }
    | _ => bad "key"
  | _ => bad "mask-args"

/-- `win <bits|off> <chunk,chunk,…>` -> window contents after every write -/
def runWin (args : List String) : Res :=
  match args with
  | [bits, chunks] =>
    let w0 := if bits == "off" then Win.disabled else Win.init bits.toNat!
    let ps := parseHexList chunks
    let step := fun (acc : Win × List String × List String × Bytes × Bool) (p : Bytes) =>
      let (w, outs, brs, hist, ok) := acc
      let w' := w.write p
      let hist' := hist ++ p
      let want := if w.enabled then lastN w.size hist' else []
      (w', toHex w'.dict :: outs, Win.branch w p :: brs, hist', ok && w'.dict == want)
    let (_, outs, brs, _, ok) := ps.foldl step (w0, [], [], [], true)
    { out := ";".intercalate outs.reverse,
      spec := if ok then "ok" else "bad:window-not-suffix-of-history",
      tags := " ".intercalate brs.reverse }
  | _ => bad "win-args"

end Drv
