import Driver.Util
import Gws.Model.Conc.Parallel
/-! Suite `par`: parallel message handling. `d` = the next message arrives (the reader dispatches it
as soon as a slot is free), `f<id>` / `p<id>` = the handler of message id returns / panics. -/
namespace Drv
open Par

/-- the harness feeds a message and lets the reader run: the reader dispatches whenever it can -/
def settle (s : State) (fuel : Nat) : State × Nat :=
  match fuel with
  | 0 => (s, 0)
  | fuel + 1 =>
    match step s .dispatch with
    | some s' => let (t, n) := settle s' fuel; (t, n + 1)
    | none => (s, 0)

def runPar (args : List String) : Res :=
  match args with
  | [cap, rec, acts] =>
    let items := if acts == "." then [] else acts.splitOn ","
    let nmsgs := (items.filter (· == "d")).length
    -- all messages are on the wire from the model's point of view only once fed: keep `inbox` = fed, undispatched
    let s0 : State := { init cap.toNat! (s2b rec) [] with inbox := [] }
    let stepAll := fun (acc : State × Nat × Nat × Bool) (it : String) =>
      let (s, next, mx, ok) := acc
      if !ok then acc else
      if it == "c" then acc       -- a local close in progress does not change how arriving messages are dispatched
      else if it == "d" then
        let s1 := { s with inbox := s.inbox ++ [next] }
        let (s2, _) := settle s1 (s1.inbox.length + 1)
        (s2, next + 1, Nat.max mx s2.running.length, true)
      else
        let o := if it.startsWith "p" then Outcome.panics else Outcome.returns
        match (it.drop 1).toString.toNat? with
        | none => (s, next, mx, false)
        | some m =>
          match step s (.finish m o) with
          | none => (s, next, mx, false)
          | some s1 =>
            let (s2, _) := if s1.crashed then (s1, 0) else settle s1 (s1.inbox.length + 1)
            (s2, next, Nat.max mx s2.running.length, true)
    let (s, _, mx, ok) := items.foldl stepAll (s0, 1, 0, true)
    if !ok then bad "par-action-not-enabled" else
    let fmt := fun (l : List Nat) => if l.isEmpty then "-" else ",".intercalate (l.map toString)
    { out := if s.crashed then "HARNESS-CRASH panic:_handler_panic_(verif)" else s!"started={fmt s.dispatched} maxrun={mx} blocked={s.inbox.length}",
      spec := if s.crashed then (if s2b rec then "bad:crashed-although-recovering" else "ok")
              else if mx ≤ cap.toNat! && s.dispatched == (List.range (s.dispatched.length)).map (· + 1) then "ok" else "bad:limit-or-order",
      tags := s!"msgs={min nmsgs 6} blocked={min s.inbox.length 2} crashed={s.crashed}" }
  | _ => bad "par-args"

end Drv
