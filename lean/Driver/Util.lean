import Gws.Basic
/-! Line-protocol helpers for the driver: hex, field splitting, result lines. -/

namespace Drv

def hexv (c : Char) : Nat :=
  if c.isDigit then c.toNat - 48
  else if 'a' ≤ c ∧ c ≤ 'f' then c.toNat - 87
  else if 'A' ≤ c ∧ c ≤ 'F' then c.toNat - 55
  else 0

/-- "-" or "" is the empty byte string; otherwise pairs of hex digits -/
def parseHex (s : String) : Bytes :=
  if s == "-" then [] else
  let rec go : List Char → Bytes → Bytes
    | a :: b :: r, acc => go r (UInt8.ofNat (hexv a * 16 + hexv b) :: acc)
    | _, acc => acc.reverse
  go s.toList []

def hexDigit (n : Nat) : Char := if n < 10 then Char.ofNat (48 + n) else Char.ofNat (87 + n)

def toHex (b : Bytes) : String :=
  if b.isEmpty then "-" else
  String.ofList (b.foldr (fun x acc => hexDigit (x.toNat / 16) :: hexDigit (x.toNat % 16) :: acc) [])

/-- comma-separated list of hex strings; "." is the empty list -/
def parseHexList (s : String) : List Bytes :=
  if s == "." then [] else (s.splitOn ",").map parseHex

def hexList (l : List Bytes) : String :=
  if l.isEmpty then "." else ",".intercalate (l.map toHex)

/-- One result line: the observable output compared with the implementation, the spec verdict
(`ok` or `bad:<why>`: does the *model's* behaviour on this input satisfy the property's spec), and
coverage tags (never compared). -/
structure Res where
  out : String
  spec : String := "ok"
  tags : String := ""

def Res.render (r : Res) : String := r.out ++ "\t" ++ r.spec ++ "\t" ++ r.tags

def bad (why : String) : Res := { out := "bad-op " ++ why, spec := "ok", tags := "bad-op" }

def b2s (b : Bool) : String := if b then "1" else "0"
def s2b (s : String) : Bool := s == "1"

end Drv
