import Driver.Util
import Driver.Codec
import Gws.Model.Writer
import Gws.Spec.Frames
/-!
Suite `write` (C05): a sequence of sends on one connection.

`write <role> <pd> <utf8> <wmax> <call;call;…> <obs,obs,…>` — see harness/suite_write.go for the
grammar.  For every call the driver
* decodes the observed wire bytes with `Spec.decodeFrames` and prints the same summary as the
  harness's Go decoder, with the return class and the compression window taken from the MODEL;
* runs the model's API function with the mask keys seen on the wire and a codec oracle that returns
  the compressor output seen on the wire, and requires the model's bytes to equal the observed bytes
  (`fid`);
* judges the observed bytes against the REQUEST with the RFC-side definitions only (`spec`): every
  frame `wellFormedSent` for the role, `messageShape` / `controlFrameOk`, unmasked payload = request,
  or, for a compressed message, `Spec.Inflate.runList history (payload ++ 00 00 ff ff)` = request with
  every distance ≤ 2^bits, where history = the earlier COMPRESSED messages of this connection when
  the sender keeps its context (RFC 7692 §7.2.2), else empty.
-/
namespace Drv
namespace W
open Writer

def lcgInit (seed : UInt64) : UInt64 := seed * 0x9E3779B97F4A7C15 + 0x1234567
def lcgNext (s : UInt64) : UInt64 := s * 6364136223846793005 + 1442695040888963407

def genBytes (kind : Char) (n seed : Nat) : Bytes :=
  if kind == 'z' then List.replicate n (UInt8.ofNat seed) else
  let rec go (k : Nat) (s : UInt64) (acc : Array UInt8) : Array UInt8 :=
    match k with
    | 0 => acc
    | k + 1 =>
      let s' := lcgNext s
      go k s' (acc.push (if kind == 'r' then (s' >>> 56).toUInt8 else (0x61 : UInt8) + (s' >>> 61).toUInt8))
  (go n (lcgInit (UInt64.ofNat seed)) #[]).toList

def parsePart (s : String) : Bytes :=
  if s.startsWith "@" then
    let kind := (s.toList.getD 1 'z')
    match ((s.drop 2).toString.splitOn ".") with
    | [n, seed] => genBytes kind n.toNat! seed.toNat!
    | _ => []
  else parseHex s

def parsePayload (s : String) : Bytes := ((s.splitOn "+").map parsePart).flatten

def parsePayloadList (s : String) : List Bytes :=
  if s == "." then [] else (s.splitOn ",").map parsePayload

inductive Call where
  | msg (op : Nat) (payload : List Bytes)
  | close (code : Nat) (reason : Bytes)
  | file (op : Nat) (reads : List Bytes) (mode : String)
  | bc (op : Nat) (thrB : Option Nat) (payload : Bytes)
  | bad

def parseCall (s : String) : Call :=
  match s.splitOn ":" with
  | ["msg", op, p] => .msg op.toNat! [parsePayload p]
  | ["async", op, p] => .msg op.toNat! [parsePayload p]
  | ["v", op, ps] => .msg op.toNat! (parsePayloadList ps)
  | ["vasync", op, ps] => .msg op.toNat! (parsePayloadList ps)
  | ["str", p] => .msg Facts.opText [parsePayload p]
  | ["ping", p] => .msg Facts.opPing [parsePayload p]
  | ["pong", p] => .msg Facts.opPong [parsePayload p]
  | ["close", code, p] => .close code.toNat! (parsePayload p)
  | ["file", op, ps, mode] => .file op.toNat! (parsePayloadList ps) mode
  | ["bc", op, p] => .bc op.toNat! none (parsePayload p)
  | ["bc2", op, thr, p] => .bc op.toNat! (some thr.toNat!) (parsePayload p)
  | _ => .bad

structure Obs where
  wire : Bytes
  cuts : Option (List Nat) := none      -- sizes of the compressor's Write calls (WriteFile with compression)
  stream : Option Bytes := none         -- the compressor's output when it cannot be read off the wire

def parseObs (s : String) : Obs :=
  match s.splitOn "/" with
  | [w] => { wire := parseHex w }
  | w :: c :: rest =>
    let cuts := if c == "?" || c == "none" then [] else (c.splitOn ".").map String.toNat!
    { wire := parseHex w, cuts := some cuts, stream := rest.head?.map parseHex }
  | [] => { wire := [] }

def adler (b : Bytes) : Nat :=
  let (s1, s2) := b.foldl (fun (acc : Nat × Nat) x =>
    let s1 := (acc.1 + x.toNat) % 65521
    (s1, (acc.2 + s1) % 65521)) (1, 0)
  s2 * 65536 + s1

def classStr : Option WErr → String
  | none => "ok"
  | some .textEncoding => "ErrTextEncoding"
  | some .messageTooLarge => "ErrMessageTooLarge"
  | some .connClosed => "ErrConnClosed"
  | some .reader => "other"
  | some (.panic _) => "PANIC"

def frameStr (f : Spec.Hdr × Bytes) : String :=
  s!"{f.1.opcode}.{b2s f.1.fin}.{b2s f.1.rsv1}.{f.1.lenForm}.{f.2.length}"

def tail4 : Bytes := [0x00, 0x00, 0xff, 0xff]

def cutBy (b : Bytes) : List Nat → List Bytes
  | [] => if b.isEmpty then [] else [b]
  | n :: ns => b.take n :: cutBy (b.drop n) ns

/-- the reader script of a `file` call -/
def script (reads : List Bytes) (mode : String) : ReaderScript :=
  if mode == "err" then reads.map (·, false)
  else if mode == "last" ∧ ¬ reads.isEmpty then
    (reads.dropLast.map (·, false)) ++ [(reads.getLast?.getD [], true)]
  else reads.map (·, false) ++ [([], true)]

/-! ### the RFC-side verdict on one call's bytes -/

structure SpecSt where
  hist : Bytes := []
  closed : Bool := false

structure SpecCfg where
  isClient : Bool
  pd : Bool
  takeover : Bool
  bits : Nat
  utf8 : Bool
  wmax : Nat

def isGoingAwayClose (f : Spec.Hdr × Bytes) : Bool :=
  f.1.opcode == 8 && decide (Spec.controlFrameOk f.1) && f.2.take 2 == [0x03, 0xe9]

/-- a complete message carrying `request` -/
def messageOk (c : SpecCfg) (s : SpecSt) (op : Nat) (request : Bytes) (fs : List (Spec.Hdr × Bytes)) : Except String SpecSt :=
  match fs with
  | [] => .error "no-frame-for-accepted-message"
  | f0 :: _ =>
    let compressed := f0.1.rsv1
    if ¬ Spec.messageShape op compressed (fs.map (·.1)) then .error "message-shape"
    else if compressed ∧ ¬ c.pd then .error "rsv1-without-extension"
    else
      let data := (fs.map (·.2)).flatten
      if !compressed then
        if data == request then .ok s else .error "payload-differs-from-request"
      else
        match Spec.Inflate.runList (if c.takeover then s.hist else []) (data ++ tail4) with
        | none => .error "inflate-failed"
        | some (out, d) =>
          if out != request then .error "inflated-payload-differs-from-request"
          else if d > 2 ^ c.bits then .error s!"distance-{d}-exceeds-window"
          else .ok { s with hist := if c.takeover then s.hist ++ request else s.hist }

def controlOk (s : SpecSt) (op : Nat) (request : Bytes) (fs : List (Spec.Hdr × Bytes)) : Except String SpecSt :=
  match fs with
  | [f] =>
    if f.1.opcode ≠ op then .error "control-opcode"
    else if ¬ Spec.controlFrameOk f.1 then .error "control-frame-shape"
    else if f.2 != request then .error "control-payload-differs-from-request"
    else .ok s
  | _ => .error "control-not-single-frame"

/-- a rejected call on an open connection: optionally a message prefix (WriteFile), then Close 1001 -/
def rejectedOk (s : SpecSt) (op : Nat) (allowPrefix : Bool) (fs : List (Spec.Hdr × Bytes)) : Except String SpecSt :=
  if s.closed then (if fs.isEmpty then .ok s else .error "bytes-after-close")
  else
    match fs.getLast? with
    | none => .error "no-close-frame-after-rejection"
    | some cl =>
      if !isGoingAwayClose cl then .error "no-close-1001-after-rejection"
      else
        let pre := fs.dropLast
        if pre.isEmpty then .ok { s with closed := true }
        else if !allowPrefix then .error "frames-before-close-after-rejection"
        else if pre.map (·.1.opcode) = op :: List.replicate (pre.length - 1) 0 ∧ pre.all (fun f => !f.1.fin) ∧
            (pre.drop 1).all (fun f => !f.1.rsv1) then .ok { s with closed := true }
        else .error "partial-message-shape"

def specCall (c : SpecCfg) (s : SpecSt) (call : Call) (frames : Option (List (Spec.Hdr × Bytes))) : Except String SpecSt :=
  match frames with
  | none => .error "undecodable"
  | some fs =>
    if ¬ fs.all (fun f => decide (Spec.wellFormedSent c.isClient f.1)) then .error "frame-not-well-formed-for-role"
    else
    match call with
    | .bad => .error "bad-call"
    | .msg op payload =>
      let request := payload.flatten
      if op ≥ 8 then
        if s.closed ∧ op ≠ 8 then rejectedOk s op false fs
        else if request.length > c.wmax then rejectedOk s op false fs
        else controlOk s op request fs
      else if s.closed then rejectedOk s op false fs
      else if (op = 1 ∧ c.utf8 ∧ ¬ Spec.Utf8.valid request) ∨ request.length > c.wmax then rejectedOk s op false fs
      else messageOk c s op request fs
    | .close code reason =>
      if s.closed then rejectedOk s 8 false fs
      else
        let code' := if code < 1000 then 1000 else code
        let body := ([UInt8.ofNat (code' / 256), UInt8.ofNat (code' % 256)] ++ reason).take 125
        if body.length > c.wmax then (if fs.isEmpty then .ok { s with closed := true } else .error "bytes-for-rejected-close")
        else (controlOk s 8 body fs).map fun s => { s with closed := true }
    | .bc op _ payload =>
      if s.closed then rejectedOk s op false fs
      else if (op = 1 ∧ c.utf8 ∧ ¬ Spec.Utf8.valid payload) ∨ payload.length > c.wmax then
        (if fs.isEmpty then .ok s else .error "bytes-for-rejected-broadcast")
      else if op ≥ 8 then controlOk s op payload fs
      else messageOk c s op payload fs
    | .file op reads mode =>
      if s.closed then rejectedOk s op false fs
      else
        let request := reads.flatten
        -- within the documented limits the call must succeed; otherwise it may also fail cleanly
        let mustSucceed := mode != "err" ∧ c.wmax ≥ 1048576
        match messageOk c s op request fs with
        | .ok s' => if mode == "err" then .error "message-completed-although-reader-failed" else .ok s'
        | .error e => if mustSucceed then .error e else rejectedOk s op true fs

/-! ### the model on one call -/

structure St where
  conn : Writer.Conn
  spec : SpecSt := {}
  outs : List String := []
  fid : Bool := true
  verdict : String := "ok"
  tags : List String := []

def runCall (cfg : Cfg) (sc : SpecCfg) (st : St) (idx : Nat) (call : Call) (obs : Obs) : St :=
  let frames := Spec.decodeFrames obs.wire
  let fs := frames.getD []
  let keyList := fs.map (·.1.key)
  let keys : Nat → Bytes := fun i => keyList.getD i [0, 0, 0, 0]
  let dataOnWire := ((fs.filter (fun f => f.1.opcode ≤ 2)).map (·.2)).flatten
  let stream := obs.stream.getD (dataOnWire ++ tail4)
  let codec : Codec := { inflate := fun _ _ => none, compress := fun _ _ _ => stream }
  let (o, isFile, tag) : Writer.Out × Bool × String :=
    match call with
    | .msg op payload => (writeMessage cfg codec st.conn op payload keys, false, if op ≥ 8 then "ctl" else "msg")
    | .close code reason => (writeClose cfg codec st.conn code reason (keys 0), false, "close")
    | .file op reads mode =>
      let outs := match obs.cuts with
        | some cuts => cutBy stream cuts
        | none => []
      (writeFile cfg codec st.conn op (script reads mode) outs keys, true, "file")
    | .bc op thrB payload =>
      let cfgB := match thrB with | some t => { cfg with threshold := t } | none => cfg
      let built := broadcastFrame cfgB codec Win.disabled op payload (keys 0)
      (broadcast cfg codec st.conn built payload (keys 0), false, if thrB.isSome then "bc2" else "bc")
    | .bad => ({ wire := [], err := some (.panic "bad-call"), st := st.conn }, false, "bad")
  let frStr := match frames with
    | none => "undecodable"
    | some fs => "+".intercalate (fs.map frameStr)
  let summary := classStr o.err ++ "[" ++ frStr ++ "]" ++ (if isFile then s!"#{fs.length}" else "") ++
    s!"w{o.st.cps.dict.length}.{adler o.st.cps.dict}"
  let fidOk := o.wire == obs.wire
  let (spec', verdict) := match specCall sc st.spec call frames with
    | .ok s => (s, st.verdict)
    | .error e => (st.spec, if st.verdict == "ok" then s!"bad:call{idx}:{e}" else st.verdict)
  let comp := fs.any (fun f => f.1.rsv1)
  { conn := o.st, spec := spec', outs := summary :: st.outs, fid := st.fid && fidOk, verdict := verdict,
    tags := (tag ++ (if comp then "+z" else "") ++ (if o.err.isSome then "+rej" else "") ++ (if fidOk then "" else s!"+FIDFAIL{idx}") ++
      (if isFile then s!"+f{min fs.length 4}" else "")) :: st.tags }

end W

open W in
/-- `write <role s|c> <pd> <utf8 0|1> <wmax> <calls> <obs>` -/
def runWrite (args : List String) : Res :=
  match args with
  | [role, pd, utf8, wmax, calls, obs] =>
    let (pdOn, tk, bits, thr) : Bool × Bool × Nat × Nat :=
      match pd.splitOn ":" with
      | ["on", tk, bits, thr] => (true, tk == "1", bits.toNat!, thr.toNat!)
      | ["on", tk, bits, thr, _level] => (true, tk == "1", bits.toNat!, thr.toNat!)
      | _ => (false, false, 15, 0)
    let cfg : Writer.Cfg := { isServer := role == "s", pdEnabled := pdOn, threshold := thr, bits := bits,
                              writeMax := wmax.toNat!, checkUtf8 := s2b utf8 }
    let sc : SpecCfg := { isClient := role != "s", pd := pdOn, takeover := tk, bits := bits, utf8 := s2b utf8, wmax := wmax.toNat! }
    let cs := (calls.splitOn ";").map parseCall
    let os := (obs.splitOn ",").map parseObs
    if cs.length ≠ os.length then bad "write-obs-count" else
    let st0 : St := { conn := { cps := if pdOn ∧ tk then Win.init bits else Win.disabled, closed := false } }
    let st := (cs.zip os).zipIdx.foldl (fun st x => runCall cfg sc st x.2 x.1.1 x.1.2) st0
    { out := ";".intercalate st.outs.reverse ++ "|fid=" ++ b2s st.fid,
      spec := st.verdict,
      tags := " ".intercalate st.tags.reverse }
  | _ => bad "write-args"

end Drv
