import Driver.Util
import Gws.Model.Nego
/-! Suite `nego` (C12): handshake pipeline on a pair of settings, header parsing, header generation,
`Atoi`.  Settings and views are written `<enabled><serverTakeover><clientTakeover>,<serverBits>,<clientBits>,<threshold>`. -/

namespace Drv

open Nego

def strOfHex (s : String) : Str := (parseHex s).map (fun b => Char.ofNat b.toNat)
def hexOfStr (s : Str) : String := toHex (s.map (fun c => UInt8.ofNat c.toNat))

def showPD (p : PD) : String :=
  b2s p.enabled ++ b2s p.serverTakeover ++ b2s p.clientTakeover ++ "," ++ toString p.serverBits ++ "," ++
    toString p.clientBits ++ "," ++ toString p.threshold

def readPD (s : String) : Option PD :=
  match s.splitOn "," with
  | [flags, sb, cb, th] =>
    match flags.toList, sb.toInt?, cb.toInt?, th.toInt? with
    | [e, st, ct], some sb, some cb, some th =>
      some { enabled := e == '1', serverTakeover := st == '1', clientTakeover := ct == '1',
             serverBits := sb, clientBits := cb, threshold := th }
    | _, _, _, _ => none
  | _ => none

def showHdr : Option Str → String
  | none => "none"
  | some h => hexOfStr h

def inRange (n : Int) : Bool := decide (8 ≤ n) && decide (n ≤ 15)

/-- the clauses of C12, evaluated on the model's outcome directly from the input settings -/
def hsSpec (s c : PD) (o : Outcome) : String :=
  let sv := o.server
  let cv := o.client
  let on := s.enabled && c.enabled
  if sv.enabled != cv.enabled then "bad:enabled-differs"
  else if sv.enabled != on then "bad:enabled-not-iff-both"
  else if on && (sv.serverTakeover != cv.serverTakeover || sv.clientTakeover != cv.clientTakeover) then "bad:takeover-differs"
  else if on && (sv.serverBits != cv.serverBits || sv.clientBits != cv.clientBits) then "bad:bits-differ"
  else if on && (sv.serverTakeover != (s.serverTakeover && c.serverTakeover)
              || sv.clientTakeover != (s.clientTakeover && c.clientTakeover)) then "bad:takeover-not-iff-both"
  else if on && !(inRange sv.serverBits && inRange sv.clientBits && inRange cv.serverBits && inRange cv.clientBits) then
    "bad:bits-out-of-range"
  else if (sv.serverTakeover && sv.threshold != 0) || (cv.clientTakeover && cv.threshold != 0) then "bad:threshold-under-takeover"
  else if o.offer.isSome != c.enabled || o.response.isSome != on then "bad:header-presence"
  else "ok"

def outOfRange (n : Int) : Bool := decide (n < 8) || decide (n > 15)

/-- the clauses about parsing: range, and independence of order and padding (the same parameters,
trimmed, reversed and re-joined without padding, give the same result) -/
def parseSpec (h : Str) (r : PD) : String :=
  if !(inRange r.serverBits && inRange r.clientBits) then "bad:bits-out-of-range"
  else if permessageNegotiation (join [';'] (split h).reverse) != r then "bad:order-or-padding-matters"
  else "ok"

def paramTag (p : Str) : String :=
  let k := (splitN2 p).1
  let v := (splitN2 p).2.isSome
  if k == pmd then "pmd" else if k == sNoCtx then "snc" else if k == cNoCtx then "cnc"
  else if k == sBits then (if v then "sb=" else "sb") else if k == cBits then (if v then "cb=" else "cb") else "unk"

def runNego (args : List String) : Res :=
  match args with
  | "hs" :: sp :: cp :: rest =>
    match readPD sp, readPD cp with
    | some s, some c =>
      let o := handshake s c
      { out := s!"s={showPD o.server} c={showPD o.client} offer={showHdr o.offer} resp={showHdr o.response}",
        spec := hsSpec s c o,
        tags := s!"en={b2s s.enabled}{b2s c.enabled} normS={s.enabled && (outOfRange s.serverBits || outOfRange s.clientBits)} normC={c.enabled && (outOfRange c.serverBits || outOfRange c.clientBits)} real={rest == ["r"]}" }
    | _, _ => bad "nego-hs-pd"
  | ["hsseq", sp, cps] =>
    match readPD sp, (cps.splitOn ";").mapM readPD with
    | some s, some cs =>
      let os := cs.map (handshake s)
      { out := " | ".intercalate (os.map fun o => s!"s={showPD o.server} c={showPD o.client} offer={showHdr o.offer} resp={showHdr o.response}"),
        spec := if (cs.zip os).all (fun (c, o) => hsSpec s c o == "ok") then "ok" else "bad:some-handshake",
        tags := s!"hsseq n={cs.length}" }
    | _, _ => bad "nego-hsseq-pd"
  | ["parse", h] =>
    let hdr := strOfHex h
    let r := permessageNegotiation hdr
    { out := showPD r, spec := parseSpec hdr r,
      tags := " ".intercalate ((split hdr).map paramTag) }
  | ["gen", p] =>
    match readPD p with
    | some p =>
      let rq := genRequestHeader p
      let rs := genResponseHeader p
      -- round trip: what the headers convey is read back, whenever the sizes are in range
      let ok := !(inRange p.serverBits && inRange p.clientBits) ||
        (let want : PD := { parseInit with serverTakeover := p.serverTakeover, clientTakeover := p.clientTakeover,
                                            serverBits := p.serverBits, clientBits := p.clientBits }
         permessageNegotiation rq == want && permessageNegotiation rs == want)
      { out := s!"req={hexOfStr rq} resp={hexOfStr rs}",
        spec := if ok then "ok" else "bad:header-does-not-parse-back",
        tags := s!"inrange={inRange p.serverBits && inRange p.clientBits}" }
    | none => bad "nego-gen-pd"
  | ["atoi", h] =>
    let s := strOfHex h
    let x := atoi s
    { out := toString x,
      spec := if decide (minInt64 ≤ x) && decide (x ≤ maxInt64) then "ok" else "bad:atoi-out-of-int64",
      tags := if x == 0 then "zero" else if x == maxInt64 || x == minInt64 then "sat" else "val" }
  | _ => bad "nego-args"

end Drv
