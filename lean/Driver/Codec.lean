import Gws.Model.Codec
import Gws.Spec.Inflate
/-! The codec instance the driver runs the model with: the Lean RFC 1951 inflater; compression by
stored blocks (the driver never needs to reproduce klauspost's encoder output: compressed bytes the
implementation emitted are inputs of the `write`/`sess` cases). -/
namespace Drv

def storedBlocks (data : Bytes) : Bytes :=
  -- non-final stored blocks of ≤ 65535 bytes, then the empty stored block of a sync flush
  let rec go (d : Bytes) (fuel : Nat) : Bytes :=
    match fuel with
    | 0 => []
    | fuel + 1 =>
      if d.isEmpty then [] else
      let c := d.take 65535
      let n := c.length
      [0x00, UInt8.ofNat (n % 256), UInt8.ofNat (n / 256), UInt8.ofNat ((65535 - n) % 256), UInt8.ofNat ((65535 - n) / 256)] ++ c
        ++ go (d.drop 65535) fuel
  go data (data.length / 65535 + 2) ++ [0x00, 0x00, 0x00, 0xff, 0xff]

def leanCodec : Codec where
  inflate dict data := (Spec.Inflate.runList dict data).map (·.1)
  compress _ _ chunks := storedBlocks chunks.flatten

end Drv
