import Driver.Util
import Driver.Codec
import Gws.Model.ReaderRel
/-! Suite `read`: the read path on a whole inbound byte stream followed by end-of-stream. -/
namespace Drv
open Reader

def evStr : Ev → String
  | .msg op p => s!"msg:{op}:{toHex p}"
  | .ping p => s!"ping:{toHex p}"
  | .pong p => s!"pong:{toHex p}"

def endStr (e : End) : String :=
  match e with
  | .peerClose pc => s!"peer({pc.realCode},{toHex pc.reason})"
  | .err _ => "err"
  | .panic w => "panic(" ++ w.replace " " "_" ++ ")"

def replyStr (e : End) : String :=
  match e with
  | .panic _ => "panic"
  | _ => match e.replyStatus with
    | none => "empty"
    | some c => toString c

def endTag : End → String
  | .peerClose _ => "end=peerClose"
  | .err (.status c) => s!"end=status{c}"
  | .err (.coded c) => s!"end=coded{c}"
  | .err .other => "end=io"
  | .panic _ => "end=panic"

/-- `read <role s|c> <pd 0|1> <dpsbits|off> <limit> <utf8 0|1> <stream:hex>` -/
def runRead (args : List String) : Res :=
  match args with
  | [role, pd, dps, limit, utf8, stream] =>
    let cfg : Cfg := { isServer := role == "s", pdEnabled := s2b pd, readMax := limit.toInt!, checkUtf8 := s2b utf8 }
    let st : State := { dps := if dps == "off" then Win.disabled else Win.init dps.toNat! }
    let t := readLoop cfg leanCodec st (parseHex stream)
    let evs := if t.evs.isEmpty then "-" else ";".intercalate (t.evs.map evStr)
    let sp := Spec.receive (specCtx cfg st) leanCodec {} (parseHex stream)
    { out := s!"{evs}|{endStr t.ending}|{replyStr t.ending}",
      spec := if traceOk sp t then "ok" else "bad:model-trace-not-allowed-by-rfc-receiver",
      tags := s!"{endTag t.ending} evs={min t.evs.length 3}" }
  | _ => bad "read-args"

end Drv
