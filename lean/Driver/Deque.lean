import Driver.Util
import Gws.Model.Deque
/-!
Suite `deque` (C20): `deque <init> <op>,<op>,…`

`<init>` is `zero` or `new:<capacity>`.  Operations (ids are the 0-based ordinal, over the whole case,
of the push/insert that created the element; id→handle maps are per instance and copied by `clone`):

  pb:V pf:V popf popb ia:V:ID ib:V:ID tf:ID tb:ID up:ID:V rm:ID reset clone use:K rg:N

Output: one token per operation (`@addr` for push/insert, the popped value, `[v,…]` for `rg`, `+k`
for `clone`, `-` otherwise, `panic` — after which the output ends — where Go would panic), a dump
`#k len=… seq=v@addr,… front=… back=…` of the current instance after every 8th operation and of every
instance at the end.  Slot addresses are part of the output.

`spec` compares, after every operation, the model's return value (other than addresses), `Len`,
`Front` and `Back`, and at every dump the full value sequence, with a plain-list reference kept here
independently of the model.  A case that names an id that is not live in the current instance is
still run on the model (with the stale handle, or Nil for an unknown id) so that `out` stays
comparable, but its `spec` is `bad:dead-id…`: the property is about live handles only.
-/

namespace Drv

/-- one instance: the model deque, the id→handle map, and the plain-list reference `(id, value)` -/
structure DqInst where
  d : Deque
  m : List (Nat × Nat)
  ref : List (Nat × Nat)
deriving Inhabited

structure DqState where
  insts : Array DqInst
  cur : Nat := 0
  next : Nat := 0
  nops : Nat := 0
  outs : List String := []
  bad : Option String := none
  tags : List String := []
  panicked : Bool := false

namespace DqState

def tag (st : DqState) (t : String) : DqState :=
  if st.tags.contains t then st else { st with tags := t :: st.tags }

def fail (st : DqState) (why : String) : DqState :=
  match st.bad with
  | some _ => st
  | none => { st with bad := some s!"{why}@op{st.nops}" }

def emit (st : DqState) (tok : String) : DqState := { st with outs := tok :: st.outs }

def curInst (st : DqState) : DqInst := st.insts[st.cur]!

def setCur (st : DqState) (x : DqInst) : DqState := { st with insts := st.insts.set! st.cur x }

end DqState

def dqOptStr (o : Option Nat) : String :=
  match o with
  | none => "-"
  | some v => toString v

/-- values and addresses seen by a full `Range`, in order; `none` on panic -/
def dqItems (d : Deque) : Option (List (Nat × Nat)) :=
  d.range (fun (acc : List (Nat × Nat)) e => ((e.value, e.addr) :: acc, true)) [] |>.map List.reverse

def dqFrontBack (d : Deque) : Option (Option Nat × Option Nat) := do
  let f ← d.front
  let b ← d.back
  pure (if f = 0 then none else some (d.load f).value, if b = 0 then none else some (d.load b).value)

/-- `#k len=… seq=… front=… back=…`, and whether it agrees with the reference -/
def dqDump (k : Nat) (x : DqInst) : Option (String × Bool) := do
  let items ← dqItems x.d
  let (f, b) ← dqFrontBack x.d
  let seq := if items.isEmpty then "-" else ",".intercalate (items.map fun (v, a) => s!"{v}@{a}")
  let ok := x.d.len == (x.ref.length : Int) && items.map (·.1) == x.ref.map (·.2) &&
    f == x.ref.head?.map (·.2) && b == x.ref.getLast?.map (·.2)
  pure (s!"#{k} len={x.d.len} seq={seq} front={dqOptStr f} back={dqOptStr b}", ok)

/-- the cheap per-operation comparison: Len, Front, Back -/
def dqQuick (x : DqInst) : Option Bool := do
  let (f, b) ← dqFrontBack x.d
  pure (x.d.len == (x.ref.length : Int) && f == x.ref.head?.map (·.2) && b == x.ref.getLast?.map (·.2))

def dqRefSplit (id : Nat) (s : List (Nat × Nat)) : Option (List (Nat × Nat) × Nat × List (Nat × Nat)) :=
  match s.span (fun e => e.1 != id) with
  | (l, e :: r) => some (l, e.2, r)
  | (_, []) => none

inductive DqOp where
  | pb (v : Nat) | pf (v : Nat) | popf | popb
  | ia (v id : Nat) | ib (v id : Nat) | tf (id : Nat) | tb (id : Nat)
  | up (id v : Nat) | rm (id : Nat) | reset | clone | use (k : Nat) | rg (n : Nat)
  | unknown (s : String)

def parseDqOp (s : String) : DqOp :=
  match s.splitOn ":" with
  | ["pb", v] => .pb v.toNat!
  | ["pf", v] => .pf v.toNat!
  | ["popf"] => .popf
  | ["popb"] => .popb
  | ["ia", v, id] => .ia v.toNat! id.toNat!
  | ["ib", v, id] => .ib v.toNat! id.toNat!
  | ["tf", id] => .tf id.toNat!
  | ["tb", id] => .tb id.toNat!
  | ["up", id, v] => .up id.toNat! v.toNat!
  | ["rm", id] => .rm id.toNat!
  | ["reset"] => .reset
  | ["clone"] => .clone
  | ["use", k] => .use k.toNat!
  | ["rg", n] => .rg n.toNat!
  | _ => .unknown s

def dqPanic (st : DqState) : DqState :=
  { ((st.emit "panic").fail "panic").tag "panic" with panicked := true }

/-- bookkeeping after a push/insert returned element pointer `e` in the new deque `d'` -/
def dqCreated (st : DqState) (x : DqInst) (d' : Deque) (e v : Nat) (ref' : List (Nat × Nat)) : DqState :=
  if e = 0 then dqPanic st else
  let addr := (d'.load e).addr
  let st := if (d'.load e).value == v then st else st.fail "returned-element-value"
  let st := st.emit s!"@{addr}"
  let st := st.setCur { d := d', m := (st.next, addr) :: x.m, ref := ref' }
  { st with next := st.next + 1 }

def dqAllocTag (st : DqState) (d : Deque) : DqState :=
  let st := if d.elements.isEmpty then st.tag "zeroinit" else st
  if d.stack.isEmpty then st.tag "grow" else st.tag "reuse"

def dqHandleOf (x : DqInst) (id : Nat) : Nat := (x.m.lookup id).getD 0

def dqStep (st : DqState) (op : DqOp) : DqState :=
  let st := { st with nops := st.nops + 1 }
  let x := st.curInst
  match op with
  | .pb v =>
    match x.d.pushBack v with
    | none => dqPanic st
    | some (d', e) => dqCreated (dqAllocTag st x.d) x d' e v (x.ref ++ [(st.next, v)])
  | .pf v =>
    match x.d.pushFront v with
    | none => dqPanic st
    | some (d', e) => dqCreated (dqAllocTag st x.d) x d' e v ((st.next, v) :: x.ref)
  | .popf =>
    match x.d.popFront with
    | none => dqPanic st
    | some (d', v) =>
      let want := (x.ref.head?.map (·.2)).getD 0
      let st := if v == want then st else st.fail "popfront-value"
      let st := if x.ref.isEmpty then st.tag "pop-empty" else if x.ref.length == 1 then st.tag "autoreset" else st
      (st.emit (toString v)).setCur { x with d := d', ref := x.ref.tail }
  | .popb =>
    match x.d.popBack with
    | none => dqPanic st
    | some (d', v) =>
      let want := (x.ref.getLast?.map (·.2)).getD 0
      let st := if v == want then st else st.fail "popback-value"
      let st := if x.ref.isEmpty then st.tag "pop-empty" else if x.ref.length == 1 then st.tag "autoreset" else st
      (st.emit (toString v)).setCur { x with d := d', ref := x.ref.dropLast }
  | .ia v id =>
    let sp := dqRefSplit id x.ref
    let st := if sp.isNone then st.fail "dead-id" else st
    match x.d.insertAfter v (dqHandleOf x id) with
    | none => dqPanic st
    | some (d', e) =>
      match sp with
      | none => dqCreated (dqAllocTag st x.d) x d' e v x.ref
      | some (l, w, r) =>
        let st := if r.isEmpty then st.tag "ia-tail" else st.tag "ia-mid"
        dqCreated (dqAllocTag st x.d) x d' e v (l ++ (id, w) :: (st.next, v) :: r)
  | .ib v id =>
    let sp := dqRefSplit id x.ref
    let st := if sp.isNone then st.fail "dead-id" else st
    match x.d.insertBefore v (dqHandleOf x id) with
    | none => dqPanic st
    | some (d', e) =>
      match sp with
      | none => dqCreated (dqAllocTag st x.d) x d' e v x.ref
      | some (l, w, r) =>
        let st := if l.isEmpty then st.tag "ib-head" else st.tag "ib-mid"
        dqCreated (dqAllocTag st x.d) x d' e v (l ++ (st.next, v) :: (id, w) :: r)
  | .tf id =>
    let sp := dqRefSplit id x.ref
    let st := if sp.isNone then st.fail "dead-id" else st
    match x.d.moveToFront (dqHandleOf x id) with
    | none => dqPanic st
    | some d' =>
      match sp with
      | none => (st.emit "-").setCur { x with d := d' }
      | some (l, w, r) =>
        let st := if l.isEmpty then st.tag "tf-front" else if r.isEmpty then st.tag "tf-back" else st.tag "tf-mid"
        (st.emit "-").setCur { x with d := d', ref := (id, w) :: (l ++ r) }
  | .tb id =>
    let sp := dqRefSplit id x.ref
    let st := if sp.isNone then st.fail "dead-id" else st
    match x.d.moveToBack (dqHandleOf x id) with
    | none => dqPanic st
    | some d' =>
      match sp with
      | none => (st.emit "-").setCur { x with d := d' }
      | some (l, w, r) =>
        let st := if r.isEmpty then st.tag "tb-back" else if l.isEmpty then st.tag "tb-front" else st.tag "tb-mid"
        (st.emit "-").setCur { x with d := d', ref := l ++ r ++ [(id, w)] }
  | .up id v =>
    let sp := dqRefSplit id x.ref
    let st := if sp.isNone then st.fail "dead-id" else st
    match x.d.update (dqHandleOf x id) v with
    | none => dqPanic st
    | some d' =>
      match sp with
      | none => (st.emit "-").setCur { x with d := d' }
      | some (l, _, r) => ((st.emit "-").tag "update").setCur { x with d := d', ref := l ++ (id, v) :: r }
  | .rm id =>
    let sp := dqRefSplit id x.ref
    let st := if sp.isNone then st.fail "dead-id" else st
    match x.d.remove (dqHandleOf x id) with
    | none => dqPanic st
    | some d' =>
      match sp with
      | none => (st.emit "-").setCur { x with d := d' }
      | some (l, _, r) =>
        let st := if l.isEmpty && r.isEmpty then st.tag "autoreset"
          else if l.isEmpty then st.tag "rm-head" else if r.isEmpty then st.tag "rm-tail" else st.tag "rm-mid"
        (st.emit "-").setCur { x with d := d', ref := l ++ r }
  | .reset =>
    let st := if x.d.elements.isEmpty then st.tag "reset-unallocated" else st.tag "reset"
    (st.emit "-").setCur { x with d := x.d.reset, ref := [] }
  | .clone =>
    let st := (st.emit s!"+{st.insts.size}").tag "clone"
    { st with insts := st.insts.push { x with d := x.d.clone } }
  | .use k =>
    if k < st.insts.size then { (st.emit "-").tag "use" with cur := k }
    else (st.emit "no-such-instance").fail "no-such-instance"
  | .rg n =>
    let cb := fun (s : List Nat × Nat) (e : Elem) =>
      if s.2 ≥ n then (s, false) else ((e.value :: s.1, s.2 + 1), true)
    match x.d.range cb ([], 0) with
    | none => dqPanic st
    | some (vis, _) =>
      let vis := vis.reverse
      let st := if vis == (x.ref.map (·.2)).take n then st else st.fail "range-values"
      let st := if n < x.ref.length then st.tag "rg-stop" else st.tag "rg-full"
      st.emit ("[" ++ ",".intercalate (vis.map toString) ++ "]")
  | .unknown s => (st.emit ("bad-op:" ++ s)).fail "bad-op"

/-- after an operation: the cheap comparison, and a dump of the current instance every 8th operation -/
def dqAfter (st : DqState) : DqState :=
  if st.panicked then st else
  let x := st.curInst
  let st := match dqQuick x with
    | none => dqPanic st
    | some true => st
    | some false => st.fail "len-front-back"
  if st.panicked || st.nops % 8 != 0 then st else
  match dqDump st.cur x with
  | none => dqPanic st
  | some (s, ok) => let st := st.emit s; if ok then st else st.fail "dump"

def dqFinal (st : DqState) : DqState := Id.run do
  let mut st := st
  for k in [0:st.insts.size] do
    if st.panicked then break
    match dqDump k st.insts[k]! with
    | none => st := dqPanic st
    | some (s, ok) =>
      st := st.emit s
      if !ok then st := st.fail "final-dump"
  return st

/-- `deque <init> <op>,<op>,…` -/
def runDeque (args : List String) : Res :=
  match args with
  | [ini, ops] =>
    let d0 : Option (Option Deque) :=
      if ini == "zero" then some (some Deque.zero)
      else match ini.splitOn ":" with
        | ["new", c] => some (Deque.new (c.toInt?.getD 0))
        | _ => none
    match d0 with
    | none => bad "deque-init"
    | some none => { out := "panic", spec := "bad:new-panics", tags := "panic" }
    | some (some d) =>
      let st0 : DqState := { insts := #[{ d := d, m := [], ref := [] }] }
      let opl := if ops == "." then [] else (ops.splitOn ",").map parseDqOp
      let st := opl.foldl (fun st op => if st.panicked then st else dqAfter (dqStep st op)) st0
      let st := dqFinal st
      { out := " ".intercalate st.outs.reverse,
        spec := match st.bad with | none => "ok" | some w => "bad:" ++ w,
        tags := " ".intercalate st.tags.reverse }
  | _ => bad "deque-args"

end Drv
