import Gws.Basic
import Gws.Generated.Facts
import Gws.Model.Window
import Gws.Model.Mask
import Gws.Props.C17
import Gws.Props.C18
