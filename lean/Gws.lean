import Gws.Basic
import Gws.Generated.Facts
import Gws.Props.C12
import Gws.Props.C16
import Gws.Props.C17
import Gws.Props.C18
import Gws.Lemmas.Close
import Gws.Model.ReaderRel
