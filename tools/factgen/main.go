// Command factgen extracts, from /repo's current sources, the constants and structural facts the Lean
// model is parameterised by, and writes them as Gws/Generated/Facts.lean (+ facts.json).
//
// It uses go/parser + go/ast only.  Each fact is the result of a pattern match on the AST; when the
// anchor a matcher needs is not found, factgen fails (exit 1) and the check reports the broken tie.
package main

import (
	"crypto/sha256"
	"encoding/hex"
	"encoding/json"
	"flag"
	"fmt"
	"go/ast"
	"go/parser"
	"go/printer"
	"go/token"
	"os"
	"path/filepath"
	"sort"
	"strconv"
	"strings"
)

type pkg struct {
	fset  *token.FileSet
	files map[string]*ast.File
	funcs map[string]*ast.FuncDecl // "Recv.Name" or "Name"
	vals  map[string]ast.Expr      // const / var name -> value expr
	iota_ map[string]int
}

func load(dir string) *pkg {
	p := &pkg{fset: token.NewFileSet(), files: map[string]*ast.File{}, funcs: map[string]*ast.FuncDecl{}, vals: map[string]ast.Expr{}}
	ents, err := os.ReadDir(dir)
	if err != nil {
		fail("read %s: %v", dir, err)
	}
	for _, e := range ents {
		n := e.Name()
		if e.IsDir() || !strings.HasSuffix(n, ".go") || strings.HasSuffix(n, "_test.go") || strings.HasPrefix(n, "verif_") {
			continue
		}
		f, err := parser.ParseFile(p.fset, filepath.Join(dir, n), nil, parser.ParseComments)
		if err != nil {
			fail("parse %s: %v", n, err)
		}
		// respect build tags: skip files guarded by the verif tag
		skip := false
		for _, cg := range f.Comments {
			for _, c := range cg.List {
				if strings.HasPrefix(c.Text, "//go:build") && strings.Contains(c.Text, "verif") && !strings.Contains(c.Text, "!verif") {
					skip = true
				}
			}
		}
		if skip {
			continue
		}
		stripHooks(f)
		p.files[n] = f
		for _, d := range f.Decls {
			switch d := d.(type) {
			case *ast.FuncDecl:
				name := d.Name.Name
				if d.Recv != nil && len(d.Recv.List) == 1 {
					name = recvName(d.Recv.List[0].Type) + "." + name
				}
				p.funcs[name] = d
			case *ast.GenDecl:
				if d.Tok == token.CONST || d.Tok == token.VAR {
					for _, s := range d.Specs {
						vs := s.(*ast.ValueSpec)
						for i, id := range vs.Names {
							if i < len(vs.Values) {
								p.vals[id.Name] = vs.Values[i]
							}
						}
					}
				}
			}
		}
	}
	return p
}

// stripHooks removes the `verifSched(…)` call statements so that the structural matchers see the
// code as it is without the scheduling hook.
func stripHooks(f *ast.File) {
	ast.Inspect(f, func(n ast.Node) bool {
		var list *[]ast.Stmt
		switch b := n.(type) {
		case *ast.BlockStmt:
			list = &b.List
		case *ast.CaseClause:
			list = &b.Body
		case *ast.CommClause:
			list = &b.Body
		}
		if list != nil {
			out := (*list)[:0]
			for _, st := range *list {
				if es, ok := st.(*ast.ExprStmt); ok {
					if c, ok := es.X.(*ast.CallExpr); ok {
						if id, ok := c.Fun.(*ast.Ident); ok && id.Name == "verifSched" {
							continue
						}
					}
				}
				out = append(out, st)
			}
			*list = out
		}
		return true
	})
}

func recvName(e ast.Expr) string {
	switch t := e.(type) {
	case *ast.StarExpr:
		return recvName(t.X)
	case *ast.Ident:
		return t.Name
	case *ast.IndexExpr:
		return recvName(t.X)
	case *ast.IndexListExpr:
		return recvName(t.X)
	}
	return "?"
}

func fail(format string, a ...any) {
	fmt.Fprintf(os.Stderr, "factgen: "+format+"\n", a...)
	os.Exit(1)
}

type env struct {
	root, internal *pkg
}

// evalInt evaluates a constant integer expression (literals, + - * << |, references to constants of
// either package, math.MaxUint16/MaxInt32, conversions like uint32(x) / StatusCode(x)).
func (e *env) evalInt(p *pkg, x ast.Expr) (int64, bool) {
	switch v := x.(type) {
	case *ast.BasicLit:
		if v.Kind == token.INT {
			n, err := strconv.ParseInt(v.Value, 0, 64)
			return n, err == nil
		}
		if v.Kind == token.CHAR {
			r, _, _, err := strconv.UnquoteChar(v.Value[1:len(v.Value)-1], '\'')
			return int64(r), err == nil
		}
	case *ast.ParenExpr:
		return e.evalInt(p, v.X)
	case *ast.Ident:
		if ex, ok := p.vals[v.Name]; ok {
			return e.evalInt(p, ex)
		}
	case *ast.SelectorExpr:
		if id, ok := v.X.(*ast.Ident); ok {
			switch id.Name + "." + v.Sel.Name {
			case "math.MaxUint16":
				return 65535, true
			case "math.MaxInt32":
				return 1<<31 - 1, true
			case "flate.BestSpeed":
				return 1, true
			}
			if id.Name == "internal" {
				if ex, ok := e.internal.vals[v.Sel.Name]; ok {
					return e.evalInt(e.internal, ex)
				}
			}
		}
	case *ast.CallExpr: // conversion
		if len(v.Args) == 1 {
			return e.evalInt(p, v.Args[0])
		}
	case *ast.BinaryExpr:
		a, ok1 := e.evalInt(p, v.X)
		b, ok2 := e.evalInt(p, v.Y)
		if !ok1 || !ok2 {
			return 0, false
		}
		switch v.Op {
		case token.ADD:
			return a + b, true
		case token.SUB:
			return a - b, true
		case token.MUL:
			return a * b, true
		case token.SHL:
			return a << uint(b), true
		case token.OR:
			return a | b, true
		}
	}
	return 0, false
}

func (e *env) mustInt(p *pkg, name string) int64 {
	ex, ok := p.vals[name]
	if !ok {
		fail("constant %s not found", name)
	}
	n, ok := e.evalInt(p, ex)
	if !ok {
		fail("constant %s is not an integer expression factgen understands: %s", name, src(p, ex))
	}
	return n
}

func src(p *pkg, n ast.Node) string {
	var sb strings.Builder
	_ = printer.Fprint(&sb, p.fset, n)
	return sb.String()
}

func (p *pkg) fn(name string) *ast.FuncDecl {
	f, ok := p.funcs[name]
	if !ok {
		fail("function %s not found", name)
	}
	return f
}

// digest of a function body with positions and comments removed
func (p *pkg) digest(name string) string {
	f, ok := p.funcs[name]
	if !ok {
		return "absent"
	}
	var sb strings.Builder
	_ = printer.Fprint(&sb, token.NewFileSet(), f.Body)
	h := sha256.Sum256([]byte(strings.Join(strings.Fields(sb.String()), " ")))
	return hex.EncodeToString(h[:8])
}

type facts struct {
	Nat         map[string]int64    `json:"nat"`
	NatList     map[string][]int64  `json:"nat_list"`
	Bool        map[string]bool     `json:"bool"`
	Str         map[string]string   `json:"str"`
	StrList     map[string][]string `json:"str_list"`
	Digests     map[string]string   `json:"digests"`
	FileDigests map[string]string   `json:"file_digests"`
	Digest      string              `json:"digest"`
}

func main() {
	repo := flag.String("repo", "/repo", "repository root")
	leanOut := flag.String("lean", "", "output Facts.lean")
	jsonOut := flag.String("json", "", "output facts.json")
	flag.Parse()
	e := &env{root: load(*repo), internal: load(filepath.Join(*repo, "internal"))}
	f := &facts{Nat: map[string]int64{}, NatList: map[string][]int64{}, Bool: map[string]bool{}, Str: map[string]string{},
		StrList: map[string][]string{}, Digests: map[string]string{}}
	extractConsts(e, f)
	extractClose(e, f)
	extractStructure(e, f)
	for _, n := range []string{"Conn.readMessage", "Conn.readControl", "Conn.emitMessage", "Conn.emitClose", "Conn.emitError", "Conn.ReadLoop",
		"Conn.doWrite", "Conn.genFrame", "Conn.compressData", "Conn.doWriteFile", "Conn.WriteClose", "Conn.writeClose", "Broadcaster.writeFrame",
		"Broadcaster.Broadcast", "slideWindow.Write", "frameHeader.Parse", "frameHeader.GenerateHeader", "frameHeader.SetLength",
		"workerQueue.getJob", "workerQueue.do", "workerQueue.Push", "permessageNegotiation", "PermessageDeflate.genRequestHeader",
		"PermessageDeflate.genResponseHeader", "Upgrader.getPermessageDeflate", "connector.getPermessageDeflate", "Upgrader.doUpgradeFromConn",
		"connector.checkHeaders", "connector.getSubProtocol", "flateWriter.Write", "flateWriter.Flush", "flateWriter.shouldCall", "deflater.Compress", "deflater.Decompress"} {
		f.Digests[n] = e.root.digest(n)
	}
	for _, n := range []string{"MaskXOR", "CheckEncoding", "Buffers.CheckEncoding", "BufferPool.Get", "binaryCeil", "Deque.getElement", "Deque.putElement",
		"Deque.doRemove", "Deque.doPushBack", "Deque.doPushFront", "Deque.InsertAfter", "Deque.InsertBefore", "Deque.PopFront", "Deque.autoReset", "Split"} {
		f.Digests["internal."+n] = e.internal.digest(n)
	}
	// digest of every source file (comments, positions and verif hook statements removed): which files differ from
	// the committed baseline decides whether a quick run widens its search (see `check`)
	f.FileDigests = map[string]string{}
	for prefix, p := range map[string]*pkg{"": e.root, "internal/": e.internal} {
		for n, file := range p.files {
			file.Comments = nil
			var sb strings.Builder
			_ = printer.Fprint(&sb, token.NewFileSet(), file)
			hh := sha256.Sum256([]byte(strings.Join(strings.Fields(sb.String()), " ")))
			f.FileDigests[prefix+n] = hex.EncodeToString(hh[:8])
		}
	}
	lean := render(f)
	h := sha256.Sum256([]byte(lean))
	f.Digest = hex.EncodeToString(h[:8])
	if *leanOut != "" {
		if err := os.WriteFile(*leanOut, []byte(lean), 0o644); err != nil {
			fail("%v", err)
		}
	}
	if *jsonOut != "" {
		b, _ := json.MarshalIndent(f, "", " ")
		if err := os.WriteFile(*jsonOut, b, 0o644); err != nil {
			fail("%v", err)
		}
	}
	if *leanOut == "" && *jsonOut == "" {
		fmt.Print(lean)
	}
}

func render(f *facts) string {
	var sb strings.Builder
	sb.WriteString("/-! GENERATED by tools/factgen from /repo's current sources on every check run. Do not edit. -/\n\nnamespace Facts\n\n")
	for _, k := range sortedKeys(f.Nat) {
		fmt.Fprintf(&sb, "def %s : Nat := %d\n", k, f.Nat[k])
	}
	sb.WriteString("\n")
	for _, k := range sortedKeys(f.NatList) {
		parts := []string{}
		for _, v := range f.NatList[k] {
			parts = append(parts, strconv.FormatInt(v, 10))
		}
		fmt.Fprintf(&sb, "def %s : List Nat := [%s]\n", k, strings.Join(parts, ", "))
	}
	sb.WriteString("\n")
	for _, k := range sortedKeys(f.Bool) {
		fmt.Fprintf(&sb, "def %s : Bool := %v\n", k, f.Bool[k])
	}
	sb.WriteString("\n")
	for _, k := range sortedKeys(f.Str) {
		fmt.Fprintf(&sb, "def %s : String := %s\n", k, strconv.Quote(f.Str[k]))
	}
	sb.WriteString("\n")
	for _, k := range sortedKeys(f.StrList) {
		parts := []string{}
		for _, v := range f.StrList[k] {
			parts = append(parts, strconv.Quote(v))
		}
		fmt.Fprintf(&sb, "def %s : List String := [%s]\n", k, strings.Join(parts, ", "))
	}
	sb.WriteString("\nend Facts\n")
	return sb.String()
}

func sortedKeys[V any](m map[string]V) []string {
	var ks []string
	for k := range m {
		ks = append(ks, k)
	}
	sort.Strings(ks)
	return ks
}
