module factgen

go 1.23
