package main

import (
	"go/ast"
	"go/token"
	"strconv"
	"strings"
)

func extractConsts(e *env, f *facts) {
	for lean, name := range map[string]string{
		"frameHeaderSize": "frameHeaderSize", "segmentSize": "segmentSize",
		"opContinuation": "OpcodeContinuation", "opText": "OpcodeText", "opBinary": "OpcodeBinary",
		"opClose": "OpcodeCloseConnection", "opPing": "OpcodePing", "opPong": "OpcodePong",
		"defaultReadMaxPayloadSize": "defaultReadMaxPayloadSize", "defaultWriteMaxPayloadSize": "defaultWriteMaxPayloadSize",
		"defaultCompressThreshold": "defaultCompressThreshold", "defaultParallelGolimit": "defaultParallelGolimit",
		"defaultCompressorPoolSize": "defaultCompressorPoolSize", "defaultCompressLevel": "defaultCompressLevel",
	} {
		f.Nat[lean] = e.mustInt(e.root, name)
	}
	for lean, name := range map[string]string{
		"thresholdV1": "ThresholdV1", "thresholdV2": "ThresholdV2",
		"closeNormalClosure": "CloseNormalClosure", "closeGoingAway": "CloseGoingAway", "closeProtocolError": "CloseProtocolError",
		"closeUnsupportedData": "CloseUnsupportedData", "closeMessageTooLarge": "CloseMessageTooLarge", "closeInternalErr": "CloseInternalErr",
	} {
		f.Nat[lean] = e.mustInt(e.internal, name)
	}
	// flateTail = []byte{…}
	ft, ok := e.root.vals["flateTail"].(*ast.CompositeLit)
	if !ok {
		fail("flateTail is not a composite literal")
	}
	for _, el := range ft.Elts {
		n, ok := e.evalInt(e.root, el)
		if !ok {
			fail("flateTail element")
		}
		f.NatList["flateTail"] = append(f.NatList["flateTail"], n)
	}
	// isDataFrame: `return c <= OpcodeBinary`
	isData := e.root.fn("Opcode.isDataFrame")
	found := false
	ast.Inspect(isData.Body, func(n ast.Node) bool {
		if b, ok := n.(*ast.BinaryExpr); ok && b.Op == token.LEQ {
			if v, ok := e.evalInt(e.root, b.Y); ok {
				f.Nat["dataFrameMaxOpcode"] = v
				found = true
			}
		}
		return true
	})
	if !found {
		fail("Opcode.isDataFrame: expected `c <= <const>`")
	}
	// strings
	for lean, name := range map[string]string{"magicNumber": "MagicNumber", "pmdName": "PermessageDeflate", "pmdServerBits": "ServerMaxWindowBits",
		"pmdClientBits": "ClientMaxWindowBits", "pmdServerNoCtx": "ServerNoContextTakeover", "pmdClientNoCtx": "ClientNoContextTakeover"} {
		lit, ok := e.internal.vals[name].(*ast.BasicLit)
		if !ok || lit.Kind != token.STRING {
			fail("string constant %s", name)
		}
		s, _ := strconv.Unquote(lit.Value)
		f.Str[lean] = s
	}
	// pool bounds: SetBufferThreshold -> NewBufferPool(128, bufferThreshold); bufferThreshold = uint32(256*1024)
	ast.Inspect(e.root.fn("SetBufferThreshold").Body, func(n ast.Node) bool {
		if c, ok := n.(*ast.CallExpr); ok && strings.HasSuffix(src(e.root, c.Fun), "NewBufferPool") && len(c.Args) == 2 {
			if v, ok := e.evalInt(e.root, c.Args[0]); ok {
				f.Nat["poolMin"] = v
			}
		}
		return true
	})
	if _, ok := f.Nat["poolMin"]; !ok {
		fail("SetBufferThreshold: NewBufferPool(<min>, …) not found")
	}
	f.Nat["poolMax"] = e.mustInt(e.root, "bufferThreshold")
	// maxConcurrency literal at every workerQueue{…} construction inside a Conn literal
	var mc []int64
	for _, file := range e.root.files {
		ast.Inspect(file, func(n ast.Node) bool {
			if cl, ok := n.(*ast.CompositeLit); ok && src(e.root, cl.Type) == "workerQueue" {
				for _, el := range cl.Elts {
					if kv, ok := el.(*ast.KeyValueExpr); ok && src(e.root, kv.Key) == "maxConcurrency" {
						if v, ok := e.evalInt(e.root, kv.Value); ok {
							mc = append(mc, v)
						}
					}
				}
			}
			return true
		})
	}
	if len(mc) == 0 {
		fail("no workerQueue{maxConcurrency: N} literal found")
	}
	f.NatList["writeQueueMaxConcurrency"] = mc
}

// extractClose reads the status classification out of Conn.emitClose and the cut/raise constants out
// of writeClose / WriteClose.
func extractClose(e *env, f *facts) {
	fn := e.root.fn("Conn.emitClose")
	var listed []int64
	var lits []int64
	var normalBelow int64 = -1
	ast.Inspect(fn.Body, func(n ast.Node) bool {
		sw, ok := n.(*ast.SwitchStmt)
		if !ok || src(e.root, sw.Tag) != "realCode" {
			return true
		}
		for _, st := range sw.Body.List {
			cc := st.(*ast.CaseClause)
			if cc.List != nil {
				// every listed code must map to CloseProtocolError
				if !strings.Contains(src(e.root, cc), "CloseProtocolError") {
					fail("emitClose: listed case does not assign CloseProtocolError")
				}
				for _, x := range cc.List {
					v, ok := e.evalInt(e.root, x)
					if !ok {
						fail("emitClose: non-constant case")
					}
					listed = append(listed, v)
				}
				continue
			}
			// default: if realCode < A || realCode >= B || (realCode >= C && realCode < D) {1002} else if realCode < E {1000} else {same}
			if len(cc.Body) != 1 {
				fail("emitClose: default clause shape")
			}
			ifs, ok := cc.Body[0].(*ast.IfStmt)
			if !ok {
				fail("emitClose: default clause is not an if")
			}
			want := "realCode < %d || realCode >= %d || (realCode >= %d && realCode < %d)"
			_ = want
			ast.Inspect(ifs.Cond, func(m ast.Node) bool {
				if b, ok := m.(*ast.BinaryExpr); ok && (b.Op == token.LSS || b.Op == token.GEQ) {
					if v, ok := e.evalInt(e.root, b.Y); ok && src(e.root, b.X) == "realCode" {
						lits = append(lits, v)
					}
				}
				return true
			})
			cond := strings.Join(strings.Fields(src(e.root, ifs.Cond)), "")
			if len(lits) != 4 || cond != "realCode<"+itoa(lits[0])+"||realCode>="+itoa(lits[1])+"||(realCode>="+itoa(lits[2])+"&&realCode<"+itoa(lits[3])+")" {
				fail("emitClose: range test has an unexpected shape: %s", cond)
			}
			if !strings.Contains(src(e.root, ifs.Body), "CloseProtocolError") {
				fail("emitClose: range test does not assign CloseProtocolError")
			}
			el, ok := ifs.Else.(*ast.IfStmt)
			if !ok {
				fail("emitClose: else-if missing")
			}
			b, ok := el.Cond.(*ast.BinaryExpr)
			if !ok || b.Op != token.LSS || src(e.root, b.X) != "realCode" {
				fail("emitClose: else-if shape")
			}
			normalBelow, _ = e.evalInt(e.root, b.Y)
			if !strings.Contains(src(e.root, el.Body), "CloseNormalClosure") || !strings.Contains(src(e.root, el.Else), "StatusCode(realCode)") {
				fail("emitClose: else-if bodies")
			}
		}
		return false
	})
	if listed == nil || len(lits) != 4 || normalBelow < 0 {
		fail("emitClose: switch realCode not found")
	}
	f.NatList["closeListed1002"] = listed
	f.Nat["closeBelow1002"] = lits[0]
	f.Nat["closeFrom1002"] = lits[1]
	f.Nat["closeResLo1002"] = lits[2]
	f.Nat["closeResHi1002"] = lits[3]
	f.Nat["closeNormalBelow"] = normalBelow

	// writeClose: if len(reason) > X { reason = reason[:X] }
	wc := e.root.fn("Conn.writeClose")
	ok := false
	ast.Inspect(wc.Body, func(n ast.Node) bool {
		if ifs, isIf := n.(*ast.IfStmt); isIf {
			if b, isB := ifs.Cond.(*ast.BinaryExpr); isB && b.Op == token.GTR && src(e.root, b.X) == "len(reason)" {
				v, ok1 := e.evalInt(e.root, b.Y)
				body := strings.Join(strings.Fields(src(e.root, ifs.Body)), "")
				if ok1 && body == "{reason=reason[:"+src(e.root, b.Y)+"]}" {
					f.Nat["closeBodyCut"] = v
					ok = true
				}
			}
		}
		return true
	})
	if !ok {
		fail("writeClose: reason cut not found")
	}
	// WriteClose: code = SelectValue(code < A, B, code)
	w := e.root.fn("Conn.WriteClose")
	ok = false
	ast.Inspect(w.Body, func(n ast.Node) bool {
		if c, isC := n.(*ast.CallExpr); isC && strings.HasSuffix(src(e.root, c.Fun), "SelectValue") && len(c.Args) == 3 {
			if b, isB := c.Args[0].(*ast.BinaryExpr); isB && b.Op == token.LSS && src(e.root, b.X) == "code" && src(e.root, c.Args[2]) == "code" {
				a, ok1 := e.evalInt(e.root, b.Y)
				r, ok2 := e.evalInt(e.root, c.Args[1])
				if ok1 && ok2 {
					f.Nat["localCloseMinCode"] = a
					f.Nat["localCloseRaisedTo"] = r
					ok = true
				}
			}
		}
		return true
	})
	if !ok {
		fail("WriteClose: code raise not found")
	}
}

func itoa(v int64) string { return strconv.FormatInt(v, 10) }

// stmtIs reports whether statement s prints as want (whitespace-insensitive).
func stmtIs(p *pkg, s ast.Stmt, want string) bool {
	return strings.Join(strings.Fields(src(p, s)), "") == strings.Join(strings.Fields(want), "")
}

// lockRegion: the function body starts with `<x>.Lock()` followed by `defer <x>.Unlock()`.
func lockDefer(p *pkg, name string, lockExpr string) bool {
	fn, ok := p.funcs[name]
	if !ok || len(fn.Body.List) < 2 {
		return false
	}
	return stmtIs(p, fn.Body.List[0], lockExpr+".Lock()") && stmtIs(p, fn.Body.List[1], "defer "+lockExpr+".Unlock()")
}

func extractStructure(e *env, f *facts) {
	p := e.root
	f.Bool["doWriteLocks"] = lockDefer(p, "Conn.doWrite", "c.mu")
	f.Bool["doWriteFileLocks"] = lockDefer(p, "Conn.doWriteFile", "c.mu")
	f.Bool["getJobLocks"] = lockDefer(p, "workerQueue.getJob", "c.mu")
	smapOK := true
	for _, m := range []string{"Len", "Load", "Delete", "Store", "Range"} {
		smapOK = smapOK && lockDefer(p, "smap."+m, "c")
	}
	f.Bool["smapLocks"] = smapOK

	// workerQueue: Push is exactly `if nextJob := c.getJob(job, 0); nextJob != nil { go c.do(nextJob) }` and do is
	// exactly `for job != nil { job(); job = c.getJob(nil, -1) }`: every access to the queue state goes through getJob
	pushFn, doFn := p.fn("workerQueue.Push"), p.fn("workerQueue.do")
	f.Bool["pushIsGetJobThenSpawn"] = len(pushFn.Body.List) == 1 && stmtIs(p, pushFn.Body.List[0], "if nextJob := c.getJob(job, 0); nextJob != nil { go c.do(nextJob) }")
	f.Bool["doLoopsGetJob"] = len(doFn.Body.List) == 1 && stmtIs(p, doFn.Body.List[0], "for job != nil { job()\n job = c.getJob(nil, -1) }")
	// the asynchronous write APIs do nothing but submit to the queue: Conn.Async is exactly `c.writeQueue.Push(f)`, and the
	// only statement of WriteAsync / WritevAsync is a call of c.Async (no path around the queue, e.g. a fast path that runs
	// the callback in the caller's goroutine)
	onlySubmit := len(p.fn("Conn.Async").Body.List) == 1 && stmtIs(p, p.fn("Conn.Async").Body.List[0], "c.writeQueue.Push(f)")
	for _, name := range []string{"Conn.WriteAsync", "Conn.WritevAsync"} {
		b := p.fn(name).Body.List
		ok := false
		if len(b) == 1 {
			if es, isE := b[0].(*ast.ExprStmt); isE {
				if call, isC := es.X.(*ast.CallExpr); isC && src(p, call.Fun) == "c.Async" && len(call.Args) == 1 {
					_, ok = call.Args[0].(*ast.FuncLit)
				}
			}
		}
		onlySubmit = onlySubmit && ok
	}
	f.Bool["asyncApisOnlySubmit"] = onlySubmit
	// the Sec-WebSocket-Extensions value of the 101 response is generated from THIS handshake's negotiated parameters:
	// doUpgradeFromConn contains, in this order, `var pd = c.getPermessageDeflate(extensions)` and
	// `if pd.Enabled { rw.WithHeader(internal.SecWebSocketExtensions.Key, pd.genResponseHeader()) }`; likewise the client's offer
	// is `c.option.PermessageDeflate.genRequestHeader()` under `if c.option.PermessageDeflate.Enabled`
	{
		var texts []string
		ast.Inspect(p.fn("Upgrader.doUpgradeFromConn").Body, func(n ast.Node) bool {
			if st, ok := n.(ast.Stmt); ok {
				texts = append(texts, strings.Join(strings.Fields(src(p, st)), ""))
			}
			return true
		})
		i1, i2 := -1, -1
		for i, t := range texts {
			if t == "varpd=c.getPermessageDeflate(extensions)" && i1 < 0 {
				i1 = i
			}
			if t == "ifpd.Enabled{rw.WithHeader(internal.SecWebSocketExtensions.Key,pd.genResponseHeader())}" && i2 < 0 {
				i2 = i
			}
		}
		okClient := false
		ast.Inspect(p.fn("connector.request").Body, func(n ast.Node) bool {
			if st, ok := n.(ast.Stmt); ok && strings.Join(strings.Fields(src(p, st)), "") == "ifc.option.PermessageDeflate.Enabled{r.Header.Set(internal.SecWebSocketExtensions.Key,c.option.PermessageDeflate.genRequestHeader())}" {
				okClient = true
			}
			return true
		})
		f.Bool["extensionHeadersFromThisHandshake"] = i1 >= 0 && i2 > i1 && okClient
	}
	gj := p.fn("workerQueue.getJob")
	var gjs []string
	for _, st := range gj.Body.List {
		gjs = append(gjs, strings.Join(strings.Fields(src(p, st)), ""))
	}
	f.Bool["getJobBodyAsModelled"] = strings.Join(gjs, ";") == "c.mu.Lock();deferc.mu.Unlock();ifnewJob!=nil{c.q.PushBack(newJob)};c.curConcurrency+=delta;ifc.curConcurrency>=c.maxConcurrency{returnnil};varjob=c.q.PopFront();ifjob==nil{returnnil};c.curConcurrency++;returnjob"
	// no other function touches the queue fields
	touch := []string{}
	for name, fn := range p.funcs {
		ast.Inspect(fn.Body, func(n ast.Node) bool {
			if se, ok := n.(*ast.SelectorExpr); ok && (se.Sel.Name == "curConcurrency" || (se.Sel.Name == "q" && src(p, se.X) == "c")) {
				touch = append(touch, name)
			}
			return true
		})
	}
	sortStrings(touch)
	uniq := []string{}
	for i, t := range touch {
		if i == 0 || touch[i-1] != t {
			uniq = append(uniq, t)
		}
	}
	f.StrList["queueStateTouchedBy"] = uniq

	// doWriteFile: inside the per-frame callback the closed test follows genFrame and precedes the transport write
	fw := p.fn("Conn.doWriteFile")
	perFrame := false
	ast.Inspect(fw.Body, func(n ast.Node) bool {
		if fl, ok := n.(*ast.FuncLit); ok {
			idxCheck, idxWrite := -1, -1
			for i, st := range fl.Body.List {
				t := strings.Join(strings.Fields(src(p, st)), "")
				if t == "ifc.isClosed(){returnErrConnClosed}" {
					idxCheck = i
				}
				if strings.Contains(t, "internal.WriteN(c.conn") {
					idxWrite = i
				}
			}
			if idxCheck >= 0 && idxWrite > idxCheck {
				perFrame = true
			}
		}
		return true
	})
	f.Bool["fileClosedCheckPerFrameUnderLock"] = perFrame && f.Bool["doWriteFileLocks"]
	// ConcurrentMap: every method that touches a shard does so between b.Lock() and b.Unlock()
	cmOK := true
	for _, m := range []string{"Len", "Load", "Delete", "Store", "Range"} {
		fn, ok := p.funcs["ConcurrentMap."+m]
		if !ok {
			cmOK = false
			continue
		}
		t := strings.Join(strings.Fields(src(p, fn.Body)), "")
		if !strings.Contains(t, "b.Lock()") || !strings.Contains(t, "b.Unlock()") || strings.Index(t, "b.Lock()") > strings.Index(t, "b.Unlock()") {
			cmOK = false
		}
	}
	f.Bool["cmapShardLocks"] = cmOK
	// ConcurrentMap: the shard table (and with it each shard's mutex) is assigned in the constructor only
	shardsFixed := true
	for name, fn := range p.funcs {
		if name == "NewConcurrentMap" || fn.Body == nil {
			continue
		}
		ast.Inspect(fn.Body, func(n ast.Node) bool {
			if as, ok := n.(*ast.AssignStmt); ok {
				for _, l := range as.Lhs {
					if strings.Contains(src(p, l), ".shardings") {
						shardsFixed = false
					}
				}
			}
			return true
		})
	}
	f.Bool["cmapShardTableFixed"] = shardsFixed

	// doWrite: the closed test is the first statement after the lock pair and exempts only the Close opcode
	dw := p.fn("Conn.doWrite")
	f.Bool["doWriteClosedCheckUnderLock"] = len(dw.Body.List) > 2 && stmtIs(p, dw.Body.List[2], "if opcode != OpcodeCloseConnection && c.isClosed() { return ErrConnClosed }")

	// a Close opcode handed to the generic write APIs takes the close path (CAS first), not doWrite
	routes := true
	if fn, ok := p.funcs["Conn.WriteMessage"]; !ok || len(fn.Body.List) == 0 || !stmtIs(p, fn.Body.List[0], "if opcode == OpcodeCloseConnection { return c.closeViaWrite(payload) }") {
		routes = false
	}
	if fn, ok := p.funcs["Conn.Writev"]; !ok || len(fn.Body.List) == 0 || !stmtIs(p, fn.Body.List[0], "if opcode == OpcodeCloseConnection { return c.closeViaWrite(bytes.Join(payloads, nil)) }") {
		routes = false
	}
	if fn, ok := p.funcs["Conn.closeViaWrite"]; !ok || len(fn.Body.List) == 0 || !stmtIs(p, fn.Body.List[len(fn.Body.List)-1], "return c.WriteClose(code, body)") {
		routes = false
	}
	if fn, ok := p.funcs["Broadcaster.Broadcast"]; !ok || !strings.Contains(strings.Join(strings.Fields(src(p, fn.Body)), ""), "ifc.opcode==OpcodeCloseConnection{_=socket.closeViaWrite(c.payload)}else{varerr=c.writeFrame(socket,msg.frame)") {
		routes = false
	}
	f.Bool["closeOpcodeTakesClosePath"] = routes

	// handshake entry points close the transport when the inner procedure reports an error
	hsCloses := true
	if fn, ok := p.funcs["Upgrader.UpgradeFromConn"]; !ok || len(fn.Body.List) != 3 ||
		!stmtIs(p, fn.Body.List[0], "socket, err := c.doUpgradeFromConn(conn, br, r)") ||
		!stmtIs(p, fn.Body.List[1], "if err != nil { _ = c.writeErr(conn, err) _ = conn.Close() }") ||
		!stmtIs(p, fn.Body.List[2], "return socket, err") {
		hsCloses = false
	}
	for _, name := range []string{"NewClient", "NewClientFromConn"} {
		fn, ok := p.funcs[name]
		if !ok || len(fn.Body.List) < 3 {
			hsCloses = false
			continue
		}
		l := fn.Body.List
		if !stmtIs(p, l[len(l)-3], "client, resp, err := c.handshake()") ||
			!stmtIs(p, l[len(l)-2], "if err != nil { _ = c.conn.Close() }") ||
			!stmtIs(p, l[len(l)-1], "return client, resp, err") {
			hsCloses = false
		}
	}
	f.Bool["handshakeEntryClosesOnError"] = hsCloses

	// Broadcaster.writeFrame: position of the isClosed test relative to socket.mu.Lock()
	wf := p.fn("Broadcaster.writeFrame")
	lockIdx, checkIdx, unlockIdx, writeIdx, winIdx := -1, -1, -1, -1, -1
	for i, s := range wf.Body.List {
		t := strings.Join(strings.Fields(src(p, s)), "")
		switch {
		case t == "socket.mu.Lock()":
			lockIdx = i
		case strings.HasPrefix(t, "ifsocket.isClosed()"):
			checkIdx = i
		case t == "socket.mu.Unlock()" || t == "defersocket.mu.Unlock()":
			unlockIdx = i
		case strings.Contains(t, "internal.WriteN(socket.conn"):
			writeIdx = i
		case strings.Contains(t, "socket.cpsWindow.Write("):
			winIdx = i
		}
	}
	if lockIdx < 0 || checkIdx < 0 || unlockIdx < 0 || writeIdx < 0 {
		fail("Broadcaster.writeFrame: expected Lock / isClosed / WriteN / Unlock statements")
	}
	f.Bool["bcClosedCheckUnderLock"] = checkIdx > lockIdx
	f.Bool["bcWriteUnderLock"] = writeIdx > lockIdx
	f.Bool["bcWindowUpdate"] = winIdx >= 0
	// is the broadcast window update conditional? (an enclosing if) — unconditional when it is a top-level statement
	f.Bool["bcWindowUpdateUnconditional"] = winIdx >= 0

	// every write to Conn.closed is CompareAndSwapUint32(&c.closed, 0, 1); count CAS sites and writeClose callers
	casSites, otherStores := []string{}, 0
	for name, fn := range p.funcs {
		ast.Inspect(fn.Body, func(n ast.Node) bool {
			switch x := n.(type) {
			case *ast.CallExpr:
				t := strings.Join(strings.Fields(src(p, x)), "")
				if strings.HasPrefix(t, "atomic.CompareAndSwapUint32(&c.closed,") {
					if t != "atomic.CompareAndSwapUint32(&c.closed,0,1)" {
						otherStores++
					}
					casSites = append(casSites, name)
				}
				if strings.HasPrefix(t, "atomic.StoreUint32(&c.closed") || strings.HasPrefix(t, "atomic.AddUint32(&c.closed") || strings.HasPrefix(t, "atomic.SwapUint32(&c.closed") {
					otherStores++
				}
			case *ast.AssignStmt:
				for _, l := range x.Lhs {
					if src(p, l) == "c.closed" {
						otherStores++
					}
				}
			case *ast.IncDecStmt:
				if src(p, x.X) == "c.closed" {
					otherStores++
				}
			}
			return true
		})
	}
	sortStrings(casSites)
	f.StrList["closedCasSites"] = casSites
	f.Bool["closedOnlySetByCas"] = otherStores == 0 && len(casSites) > 0

	// every call of c.writeClose sits in the body of `if atomic.CompareAndSwapUint32(&c.closed, 0, 1) {…}`
	guarded := true
	var callers []string
	for name, fn := range p.funcs {
		var walk func(n ast.Node, underCas bool)
		walk = func(n ast.Node, underCas bool) {
			if n == nil {
				return
			}
			switch x := n.(type) {
			case *ast.IfStmt:
				cas := strings.Join(strings.Fields(src(p, x.Cond)), "") == "atomic.CompareAndSwapUint32(&c.closed,0,1)"
				walk(x.Init, underCas)
				walk(x.Body, underCas || cas)
				walk(x.Else, underCas)
				return
			case *ast.CallExpr:
				if src(p, x.Fun) == "c.writeClose" {
					callers = append(callers, name)
					if !underCas {
						guarded = false
					}
				}
			}
			// generic traversal
			ast.Inspect(n, func(m ast.Node) bool {
				if m == n || m == nil {
					return true
				}
				walk(m, underCas)
				return false
			})
		}
		walk(fn.Body, false)
	}
	sortStrings(callers)
	f.StrList["writeCloseCallers"] = callers
	f.Bool["writeCloseOnlyBehindCas"] = guarded && len(callers) > 0

	// transport write sites: functions that call internal.WriteN(<x>.conn, …), <buf>.WriteTo(conn) or r.Write(c.conn)
	var sites []string
	for name, fn := range p.funcs {
		ast.Inspect(fn.Body, func(n ast.Node) bool {
			if c, ok := n.(*ast.CallExpr); ok {
				t := strings.Join(strings.Fields(src(p, c)), "")
				if strings.HasPrefix(t, "internal.WriteN(c.conn,") || strings.HasPrefix(t, "internal.WriteN(socket.conn,") ||
					strings.HasSuffix(t, ".WriteTo(conn)") || t == "r.Write(c.conn)" {
					sites = append(sites, name)
				}
			}
			return true
		})
	}
	sortStrings(sites)
	f.StrList["transportWriteSites"] = sites

	// doWrite: the statement order  WriteN ; payload.WriteTo(&c.cpsWindow) ; binaryPool.Put(frame)
	var order []string
	for _, s := range dw.Body.List {
		t := strings.Join(strings.Fields(src(p, s)), "")
		switch {
		case strings.Contains(t, "c.genFrame("):
			order = append(order, "genFrame")
		case strings.Contains(t, "internal.WriteN(c.conn"):
			order = append(order, "write")
		case strings.Contains(t, "payload.WriteTo(&c.cpsWindow)"):
			order = append(order, "window")
		}
	}
	f.StrList["doWriteOrder"] = order
	// is the window update in doWrite guarded by a condition?
	f.Bool["doWriteWindowUpdateUnconditional"] = contains(order, "window")

	// MaskXOR uses neither unsafe nor reflect
	noUnsafe := true
	ast.Inspect(e.internal.fn("MaskXOR").Body, func(n ast.Node) bool {
		if s, ok := n.(*ast.SelectorExpr); ok {
			if id, ok := s.X.(*ast.Ident); ok && (id.Name == "unsafe" || id.Name == "reflect") {
				noUnsafe = false
			}
		}
		return true
	})
	f.Bool["maskNoUnsafe"] = noUnsafe

	// dispatch: first statement `defer c.config.Recovery(c.config.Logger)`
	dp := p.fn("Conn.dispatch")
	f.Bool["dispatchDefersRecovery"] = len(dp.Body.List) > 0 && stmtIs(p, dp.Body.List[0], "defer c.config.Recovery(c.config.Logger)")

	// ReadLoop: OnOpen first; a for loop whose only exit is emitError(true, err); break; then OnClose
	rl := p.fn("Conn.ReadLoop")
	shape := []string{}
	for _, s := range rl.Body.List {
		t := strings.Join(strings.Fields(src(p, s)), "")
		switch {
		case t == "c.handler.OnOpen(c)":
			shape = append(shape, "open")
		case strings.HasPrefix(t, "for{iferr:=c.readMessage();err!=nil{c.emitError(true,err)break}}"):
			shape = append(shape, "loop")
		case strings.HasPrefix(t, "c.handler.OnClose(c,"):
			shape = append(shape, "close")
		case strings.HasPrefix(t, "ifc.isServer{"):
			shape = append(shape, "reclaim")
		}
	}
	f.StrList["readLoopShape"] = shape
	// the read loop never waits for the write lock (a writer may be stalled in the transport while holding it)
	rlBody := strings.Join(strings.Fields(src(p, p.fn("Conn.ReadLoop").Body)), "")
	f.Bool["readLoopNeverWaitsForWriteLock"] = !strings.Contains(rlBody, "c.mu.Lock()")
	// the deadline setters reach the transport without waiting for the write lock: a writer that is stalled in the
	// transport (holding the lock) can always be bounded by a deadline set from another goroutine
	lockFree := true
	for _, name := range []string{"Conn.SetDeadline", "Conn.SetReadDeadline", "Conn.SetWriteDeadline"} {
		body := strings.Join(strings.Fields(src(p, p.fn(name).Body)), "")
		if strings.Contains(body, ".Lock()") || !strings.Contains(body, "c.conn.Set") {
			lockFree = false
		}
	}
	f.Bool["deadlineSettersLockFree"] = lockFree
}

func contains(l []string, s string) bool {
	for _, x := range l {
		if x == s {
			return true
		}
	}
	return false
}

func sortStrings(s []string) {
	for i := 1; i < len(s); i++ {
		for j := i; j > 0 && s[j] < s[j-1]; j-- {
			s[j], s[j-1] = s[j-1], s[j]
		}
	}
}
