"""Per-property registry: property module theorems that must exist, tie suites, trusted base."""

TRUSTED_COMMON = [
    "Lean 4.33.0 kernel (thorough tier: re-checked by leanchecker)",
    "axioms: propext, Classical.choice, Quot.sound only (audited per theorem on every run)",
    "hand-written Lean model of the named Go functions; tie T1 = differential run of model vs real code (harness, -tags verif), tie T2 = tools/factgen constants/structure regenerated from /repo",
    "Go compiler/runtime/stdlib, Lean compiler+runtime (only for running the driver)",
]

PROPS = {
    "C17": {
        "theorems": ["Win.write_spec", "Win.write_length_le", "Win.writes_spec_from", "Win.writes_spec", "Win.writes_length", "Win.disabled_stays_empty"],
        "suites": ["win"],
        "trusted": ["Go append/copy semantics as modelled by List append and goCopy (memmove)"],
        "assumptions": ["slideWindow is only used through initialize/Write (checked: factgen digests + suite uses the real type via hook)"],
    },
    "C18": {
        "theorems": ["Mask.maskXOR_eq", "Mask.maskXOR_getElem", "Mask.maskXOR_length", "Mask.maskXOR_involutive", "Mask.Key.get_eq"],
        "suites": ["mask"],
        "trusted": ["binary.LittleEndian Uint32/Uint64/PutUint64 as modelled by le32/le64/byteOf",
                    "'touches nothing outside the buffer' is not expressible on an immutable list: covered by maskXOR_length, Facts.maskNoUnsafe (Go bounds checks) and guard bytes at all 8 offsets in the tie"],
        "clauses_without_theorem": ["memory outside the buffer untouched (observed with guard bytes at every alignment; no theorem)"],
    },
}

PROPS["C12"] = {
    "theorems": ["Nego.nego_agree", "Nego.enabled_iff", "Nego.enabled_iff_client", "Nego.takeover_iff", "Nego.bits_range", "Nego.bits_are_servers",
                 "Nego.threshold_zero_under_takeover", "Nego.threshold_without_takeover", "Nego.headers_sent", "Nego.parse_perm_ws",
                 "Nego.parse_duplicate", "Nego.parse_bits_range", "Nego.parse_unknown_ignored", "Nego.atoi_itoa_roundtrip"],
    "suites": ["nego"],
    "trusted": ["strings.Split/SplitN/TrimSpace/Contains/Join, strconv.Atoi/Itoa as modelled on List Char (TrimSpace: ASCII white space only)",
                "net/http carries the Sec-WebSocket-Extensions value unchanged between the endpoints (sampled by real handshakes in the suite)"],
    "assumptions": ["non-ASCII Unicode white space around parameters is outside the model"],
}
PROPS["C16"] = {
    "modules": ["Gws.Props.C16"],
    "theorems": ["Utf8.write_gate", "Utf8.write_gate_bytes", "Utf8.split_invariant", "Utf8.binary_never_checked", "Utf8.check_off_never_rejects"],
    "suites": ["utf8", "read"],
    "trusted": ["unicode/utf8.Valid decides RFC 3629 well-formedness (Spec.Utf8.valid): compared exhaustively on every byte string of length <= 3 on every run"],
}

PROPS["C15"] = {
    "theorems": ["TQ.getJob_cases", "TQ.inv_init", "TQ.inv_step", "TQ.inv_run", "TQ.fifo_exactly_once", "TQ.bounded_concurrency",
                 "TQ.one_at_a_time", "TQ.no_stranded_task", "TQ.drain_spec", "TQ.drains"],
    "suites": ["taskq"],
    "trusted": ["a sync.Mutex critical section is atomic w.r.t. other sections of the same mutex (Facts.getJobLocks: getJob is one Lock/defer Unlock region)",
                "the queue inside workerQueue behaves as a list under PushBack/PopFront (C20)",
                "Facts.writeQueueMaxConcurrency = [1, 1]: both Conn construction sites use maxConcurrency 1",
                "goroutine creation (`go c.do(job)`) eventually runs the worker"],
    "assumptions": ["submission order = order of the Push critical sections (program order per goroutine)"],
}
PROPS["C19"] = {
    "theorems": ["CMap.toBinaryNumber_pow2", "CMap.and_mask_eq_mod", "CMap.shard_index_in_range", "CMap.wf_invariant", "CMap.size_is_card",
                 "CMap.load_refines", "CMap.store_refines", "CMap.delete_refines", "CMap.linearizable_single_section", "CMap.len_bounds",
                 "CMap.range_visits", "CMap.range_visits_all", "SMap.smap_refines", "SMap.smap_len_exact", "SMap.smap_range_visits", "SMap.smap_linearizable"],
    "suites": ["cmap", "cmapconc"],
    "trusted": ["a sync.Mutex critical section is atomic (Facts.smapLocks; per-shard Lock/Unlock pairs in ConcurrentMap)",
                "Go map semantics; maphash.Hasher is a function of the key",
                "cmapconc (real concurrent histories checked with porcupine + a register checker) validates the atomicity assumption; it is not part of the proof"],
}

EXTRA = {}
