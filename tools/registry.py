"""Per-property registry: property module theorems that must exist, tie suites, trusted base."""

TRUSTED_COMMON = [
    "Lean 4.33.0 kernel (thorough tier: re-checked by leanchecker)",
    "axioms: propext, Classical.choice, Quot.sound only (audited per theorem on every run)",
    "hand-written Lean model of the named Go functions; tie T1 = differential run of model vs real code (harness, -tags verif), tie T2 = tools/factgen constants/structure regenerated from /repo",
    "Go compiler/runtime/stdlib, Lean compiler+runtime (only for running the driver)",
]

PROPS = {
    "C17": {
        "theorems": ["Win.write_spec", "Win.write_length_le", "Win.writes_spec_from", "Win.writes_spec", "Win.writes_length", "Win.writes_chunking_irrelevant", "Win.write_write_eq_write_append", "Win.writes_forget", "Win.disabled_stays_empty"],
        "suites": ["win"],
        "trusted": ["Go append/copy semantics as modelled by List append and goCopy (memmove)"],
        "assumptions": ["slideWindow is only used through initialize/Write (checked: factgen digests + suite uses the real type via hook)"],
    },
    "C18": {
        "modules": ["Gws.Props.C18", "Gws.Props.SourceShapeMask"],
    "theorems": ["SourceShape.mask_bounds_checked", "Mask.maskXOR_eq", "Mask.maskXOR_getElem", "Mask.maskXOR_length", "Mask.maskXOR_involutive", "Mask.maskXOR_take", "Mask.maskXOR_maskXOR", "Mask.Key.get_eq"],
        "suites": ["mask"],
        "trusted": ["binary.LittleEndian Uint32/Uint64/PutUint64 as modelled by le32/le64/byteOf",
                    "'touches nothing outside the buffer' is not expressible on an immutable list: covered by maskXOR_length, Facts.maskNoUnsafe (Go bounds checks) and guard bytes at all 8 offsets in the tie"],
        "clauses_without_theorem": ["memory outside the buffer untouched (observed with guard bytes at every alignment; no theorem)"],
    },
}

PROPS["C12"] = {
    "modules": ["Gws.Props.C12", "Gws.Props.SourceShapeNego"],
    "theorems": ["SourceShape.extension_headers_from_this_handshake", "Nego.nego_agree", "Nego.enabled_iff", "Nego.enabled_iff_client", "Nego.takeover_iff", "Nego.bits_range", "Nego.bits_are_servers",
                 "Nego.threshold_zero_under_takeover", "Nego.threshold_without_takeover", "Nego.headers_sent", "Nego.parse_perm_ws",
                 "Nego.parse_duplicate", "Nego.parse_bits_range", "Nego.parse_unknown_ignored", "Nego.atoi_itoa_roundtrip"],
    "suites": ["nego"],
    "trusted": ["strings.Split/SplitN/TrimSpace/Contains/Join, strconv.Atoi/Itoa as modelled on List Char (TrimSpace: ASCII white space only)",
                "net/http carries the Sec-WebSocket-Extensions value unchanged between the endpoints (sampled by real handshakes in the suite)"],
    "assumptions": ["non-ASCII Unicode white space around parameters is outside the model"],
}
PROPS["C16"] = {
    "modules": ["Gws.Props.C16"],
    "theorems": ["Utf8.write_gate", "Utf8.write_gate_bytes", "Utf8.split_invariant", "Utf8.binary_never_checked", "Utf8.check_off_never_rejects", "Utf8.valid_append_of_valid", "Utf8.pieces_valid_imp_gate", "Utf8.per_piece_check_too_strict"],
    "suites": ["utf8", "read"],
    "trusted": ["unicode/utf8.Valid decides RFC 3629 well-formedness (Spec.Utf8.valid): compared exhaustively on every byte string of length <= 3 on every run"],
}

PROPS["C15"] = {
    "modules": ["Gws.Props.C15", "Gws.Props.SourceShapeQueue"],
    "theorems": ["SourceShape.taskqueue_sections", "TQ.getJob_cases", "TQ.inv_init", "TQ.inv_step", "TQ.inv_run", "TQ.fifo_exactly_once", "TQ.bounded_concurrency",
                 "TQ.one_at_a_time", "TQ.no_stranded_task", "TQ.drain_spec", "TQ.drains"],
    "suites": ["taskq"],
    "trusted": ["a sync.Mutex critical section is atomic w.r.t. other sections of the same mutex (Facts.getJobLocks: getJob is one Lock/defer Unlock region)",
                "the queue inside workerQueue behaves as a list under PushBack/PopFront (C20)",
                "Facts.writeQueueMaxConcurrency = [1, 1]: both Conn construction sites use maxConcurrency 1",
                "goroutine creation (`go c.do(job)`) eventually runs the worker"],
    "assumptions": ["submission order = order of the Push critical sections (program order per goroutine)"],
}
PROPS["C19"] = {
    "modules": ["Gws.Props.C19", "Gws.Props.SourceShapeMap"],
    "theorems": ["SourceShape.map_sections", "SourceShape.shard_table_fixed", "CMap.toBinaryNumber_pow2", "CMap.and_mask_eq_mod", "CMap.shard_index_in_range", "CMap.wf_invariant", "CMap.size_is_card",
                 "CMap.load_refines", "CMap.store_refines", "CMap.delete_refines", "CMap.linearizable_single_section", "CMap.len_bounds",
                 "CMap.range_visits", "CMap.range_visits_all", "SMap.smap_refines", "SMap.smap_len_exact", "SMap.smap_range_visits", "SMap.smap_linearizable"],
    "suites": ["cmap", "cmapconc", "racy:session-first-use"],
    "trusted": ["a sync.Mutex critical section is atomic (Facts.smapLocks; per-shard Lock/Unlock pairs in ConcurrentMap)",
                "Go map semantics; maphash.Hasher is a function of the key",
                "cmapconc (real concurrent histories checked with porcupine + a register checker) validates the atomicity assumption; it is not part of the proof"],
}

READ_TRUSTED = ["bufio.Reader + io.ReadFull deliver exactly the requested bytes or an error, independent of chunking (each case is replayed under 3 chunkings)",
                "klauspost/flate inflater = Codec.inflate parameter (the driver runs the Lean RFC 1951 inflater in its place and is compared with the real one on every compressed case)",
                "encoding/binary big-endian decoding as modelled; Go int is 64-bit"]
PROPS["C03"] = {
    "theorems": ["Reader.readLoop_refines_rfc", "Reader.readLoop_refines_rfc_takeover", "Reader.readLoop_refines_rfc_plain", "Reader.violation_status",
                 "Reader.prefix_monotone", "Reader.failed_stays_failed"],
    "suites": ["read"],
    "trusted": READ_TRUSTED + ["Spec latitude (DESIGN.md C03): non-minimal length encodings accepted on data frames; a control frame must use the 7-bit form; a frame above the read limit may be failed with 1009 whatever its type; a violating frame whose payload is cut off by end of input may be reported as I/O closure"],
}
PROPS["C04"] = {
    "theorems": ["Reader.readLoop_total", "Reader.readLoop_no_panic", "Reader.step_alloc_bound", "Reader.step_rejects_before_alloc", "Reader.cont_buffer_bounded"],
    "suites": ["read", "limited", "hs-server", "hs-client", "faults:hs", "sess:multi"],
    "trusted": READ_TRUSTED + ["opening-handshake byte parsing is net/http's (http.ReadRequest / http.ReadResponse): outside the model, sampled by the hs-server/hs-client suites only"],
    "clauses_without_theorem": ["handshake bytes cannot crash or hang the endpoint (net/http parsing; sampled)", "the inflater's own working memory is bounded (klauspost; the limit on its OUTPUT is Codec.decompress)"],
}
PROPS["C13"] = {
    "modules": ["Gws.Props.C13", "Gws.Props.C13Limited"],
    "theorems": ["Limited.copy_spec", "Limited.accepted_within_limit", "Limited.within_limit_accepted", "Limited.written_bounded", "Limited.final_chunk_counted", "Reader.delivered_within_limit", "Reader.oversize_frame_1009", "Reader.oversize_fragments_1009", "Reader.inflate_limit", "Reader.within_limit_delivered"],
    "suites": ["read", "limited", "sess:multi"],
    "trusted": READ_TRUSTED + ["the streaming loop of Decompress (io.CopyBuffer = bytes.Buffer.ReadFrom through limitedReader) is Model/Limited, proved equivalent to 'total inflated size > limit' for every chunking and tied by the limited suite on the reads actually served; the read-path theorems use the total-size form (Codec.decompress)"],
}
PROPS["C06"] = {
    "modules": ["Gws.Props.SourceShapeConn", "Gws.Props.C06", "Gws.Props.C06Conc"],
    "theorems": ["SourceShape.conn_sections", "Close.closeReply_spec", "Close.closeReply_table", "Close.closeReply_bad_reason", "Close.local_close_frame", "Close.local_close_length",
                 "Conc.at_most_one_close_frame", "Conc.close_frame_by_winner", "Conc.nothing_after_close_frame", "Conc.close_frame_implies_closed",
                 "Conc.closed_is_monotone", "Conc.closed_iff_winner", "Conc.lock_mutual_exclusion", "Conc.writes_after_close_rejected", "Conc.local_close_wins_or_closed"],
    "suites": ["read", "conn"],
    "trusted": ["sync.Mutex critical sections and atomic CAS are atomic; each frame is handed to the transport in one Write (Facts: lock/CAS structure, transport write sites)",
                "the scheduling hook only makes an interleaving deterministic that the unhooked code can also take"],
}
PROPS["C16"]["modules"] = ["Gws.Props.C16", "Gws.Props.C16Read"]
PROPS["C16"]["theorems"] += ["Reader.read_gate", "Reader.read_gate_text", "Reader.read_gate_text_compressed", "Reader.binary_never_checked", "Reader.check_off_never_rejects"]
PROPS["C20"] = {
    "theorems": ["Deque.wf_zero", "Deque.wf_new", "Deque.len_spec", "Deque.front_back_spec", "Deque.range_spec", "Deque.pushBack_spec", "Deque.pushFront_spec",
                 "Deque.popFront_spec", "Deque.popBack_spec", "Deque.remove_spec", "Deque.insertAfter_spec", "Deque.insertBefore_spec", "Deque.moveToFront_spec",
                 "Deque.moveToBack_spec", "Deque.update_spec", "Deque.reset_spec", "Deque.clone_spec", "Deque.ops_refine"],
    "suites": ["deque"],
    "trusted": ["Go slice/append semantics as modelled by List operations; Pointer (uint32) does not overflow (< 2^32 slots)",
                "clone independence in memory (no shared backing array) is checked by the suite only: the model is a value model"],
    "clauses_without_theorem": ["a clone shares no memory with the original (observed by the suite, which diverges clones and compares slot addresses)"],
}

HS_TRUSTED = ["net/http request/response parsing and header canonicalisation (http.ReadRequest/ReadResponse, Header.Get/Values/Set/Del): the model starts from the parsed view; sampled by the suites with raw bytes",
              "crypto/sha1 and encoding/base64 = the Lean SHA-1/base64 (checked against RFC vectors by `example`s and against the real ComputeAcceptKey in the suites)",
              "strings.EqualFold for the token 'upgrade' is ASCII case-insensitive equality (proved: foldEq_iff_lower); for 'websocket' Unicode folding admits U+212A/U+017F (tagged latitude)"]
PROPS["C10"] = {
    "theorems": ["Hs.upgrade_iff", "Hs.response_fields", "Hs.accept_outcome", "Hs.reject_no_101", "Hs.outcome_dichotomy"],
    "suites": ["hs-server"],
    "trusted": HS_TRUSTED + ["session object isolation in memory (two upgrades never share a session) is observed by the suite, not proved"],
    "clauses_without_theorem": ["session values set during authorisation are shared with no other connection (observed: iso=1 flag per case)",
                                "non-canonical keys written directly into ResponseHeader are emitted with an empty value (limitation theorem noncanonical_config_key_emitted)"],
}
PROPS["C11"] = {
    "modules": ["Gws.Props.C11", "Gws.Props.SourceShapeConn"],
    "theorems": ["SourceShape.handshake_entry_closes_on_error", "Hs.client_accepts_iff", "Hs.client_reject_closes", "Hs.selected_subprotocol", "Hs.request_headers"],
    "suites": ["hs-client", "faults:hs-client"],
    "trusted": HS_TRUSTED,
    "clauses_without_theorem": ["the key is fresh, random and 16 bytes (observed: 1000 handshakes, all distinct)", "return within the handshake time-out even if the server never answers (observed with short time-outs)",
                                "frames sent directly behind the 101 response are not lost (observed: trailing frames glued to the response, cut at every offset)",
                                "no goroutine is left behind by a failed handshake (observed: goroutine census in the faults suite)"],
}

PROPS["C02"] = {
    "modules": ["Gws.Props.C02", "Gws.Props.C02Inflate"],
    "theorems": ["Session.windows_in_sync", "Session.inSync_step", "Session.hist_is_compressed_payloads", "Session.send_dict_suffix",
                 "Spec.Inflate.bounded_window_suffices", "Spec.Inflate.history_prefix_irrelevant", "Spec.Inflate.history_extension_harmless",
                 "Spec.Inflate.window_determines_output", "Spec.Inflate.bounded_window_iff"],
    "suites": ["sess:1", "sess:0", "sess:multi", "win", "write:s on", "write:c on", "read:c 1", "read:s 1"],
    "trusted": ["klauspost/compress/flate: the compressor emits RFC 1951 whose back-references stay within its window and dictionary (Codec law L2), the inflater implements RFC 1951 (L3) - SAMPLED, not proved: every compressed frame in the read/sess/write suites goes through the real library and (read, write) through the Lean inflater",
                "which frames are compressed and which window update follows which write: Session model, tied by the sess suite (all four windows read back through the accessor hook at quiescence)"],
    "clauses_without_theorem": ["the DEFLATE library's own conformance (L2/L3): sampled by the suites, not proved"],
}

CONC_TRUSTED = ["a c.mu Lock..Unlock region is atomic w.r.t. other regions of c.mu; atomic.CompareAndSwapUint32 is atomic; each frame is handed to the transport in ONE Write call (Facts: doWriteLocks, doWriteFileLocks, doWriteClosedCheckUnderLock, bcClosedCheckUnderLock, closedOnlySetByCas, writeCloseOnlyBehindCas, transportWriteSites)",
                "the transition system's atomic actions are the code's scheduling points (verifSched hooks); a schedule forced through them is one the unhooked code can also take",
                "goroutine scheduling, wall-clock time, stalls: a stall is the environment never scheduling an actor; no fairness is assumed"]
PROPS["C05"] = {
    "theorems": ["Writer.genHeader_decodes", "Writer.genFrame_decodes", "Writer.genFrame_wire", "Writer.genFrame_decodes_compressed", "Writer.stripTail_restore",
                 "Writer.genFrame_inflates", "Writer.controlFrame_decodes", "Writer.genFrame_rejects", "Writer.doWrite_rejected", "Writer.doWrite_window",
                 "Writer.writeFile_frames_plain", "Writer.writeFile_frames_compressed", "Writer.writeFile_frames", "Writer.writeFile_inflates", "Writer.writeFile_empty_reader"],
    "suites": ["write", "faults:file-gap"],
    "trusted": ["the compressor's output is a parameter: the theorems hold for every output and every way it is cut into Write calls; that it inflates to the payload is the Codec law hypotheses hL1/hL2 (klauspost conformance, sampled: every compressed frame of the suite is inflated by the Lean inflater against the unbounded RFC 7692 history with max distance <= 2^bits)",
                "bytes.Buffer / copy semantics as modelled (goCopy back-fill); the mask key source is an input",
                "binary.BigEndian / LittleEndian as modelled"],
}
PROPS["C07"] = {
    "modules": ["Gws.Props.C07", "Gws.Props.C07Par", "Gws.Props.SourceShapeConn"],
    "theorems": ["SourceShape.conn_sections", "Conc.callback_shape", "Conc.open_close_at_most_once", "Conc.reader_done_closed_once", "Conc.messages_in_wire_order",
                 "Par.inv_run", "Par.parallel_bounded", "Par.reader_blocks_at_limit", "Par.each_message_once", "Par.panic_absorbed", "Par.no_crash_when_recovering"],
    "suites": ["conn", "par", "read", "faults:session", "faults:stall-readloop", "racy:parallel-handlers"],
    "trusted": CONC_TRUSTED + ["the order and payloads of the callbacks between open and close are those of the read-path model (C03)",
                               "parallel handling is a separate small transition system (Model/Conc/Parallel): a send on a full buffered channel blocks; defer/recover semantics as modelled (Facts.dispatchDefersRecovery); tied by the par suite (gate-controlled handlers, panics, exhaustive action sequences)"],
    "clauses_without_theorem": ["the interaction of parallel handlers with connection teardown (handlers still running when the read loop ends) is observed only (racy parallel-handlers)"],
}
PROPS["C08"] = {
    "modules": ["Gws.Props.C08", "Gws.Props.SourceShapeConn"],
    "theorems": ["SourceShape.conn_sections", "Conc.wire_is_whole_frames", "Conc.partial_only_by_failed_write", "Conc.file_frames_contiguous", "Conc.data_frames_owned_by_writers",
                 "Conc.success_iff_one_message", "Conc.content_rejected_no_bytes"],
    "suites": ["conn", "racy", "faults:file-gap"],
    "trusted": CONC_TRUSTED + ["'free of data races' is a statement about the Go memory model that no functional model expresses: validated by the race detector on the racy suite (not part of the proof)"],
    "clauses_without_theorem": ["library-internal shared state touched by writers is free of data races (race detector on concurrent scenarios: validation only)"],
}
PROPS["C09"] = {
    "modules": ["Gws.Props.C09", "Gws.Props.SourceShapeConn"],
    "theorems": ["SourceShape.conn_sections", "SourceShape.handshake_entry_closes_on_error", "Conc.transport_closed_implies_closed", "Conc.onclose_once_nonnil", "Conc.no_deadlock", "Conc.bounded_run", "Conc.acts_are_bounded",
                 "Conc.teardown_complete", "Conc.closer_blocked_behind_stalled_writer"],
    "suites": ["conn", "faults"],
    "trusted": CONC_TRUSTED + ["handshake fault paths, goroutine census, wall-clock bounds and real socket behaviour are runtime: observed by the faults suite (fault injected at every transport operation of a scripted session and of both handshakes), not proved"],
    "clauses_without_theorem": ["handshake functions return an error and close the transport on any fault (observed by fault enumeration)",
                                "no goroutine left behind (observed: goroutine census after every fault case)",
                                "a locally requested close completes in bounded time while another writer is stalled: FALSE of gws (known finding KF-C09-stall-close; model witness closer_blocked_behind_stalled_writer)"],
}

PROPS["C01"] = {
    "theorems": ["C01.frame_delivered", "C01.frame_delivered_compressed", "C01.control_delivered", "C01.file_delivered", "C01.sequence_fidelity",
                 "C01.sequence_fidelity_stream", "C01.sequence_fidelity_compressed", "C01.sequence_fidelity_negotiated", "C01.async_fifo", "C01.async_delivery_order"],
    "suites": ["sess", "write"],
    "trusted": ["DEFLATE library laws as explicit hypotheses of the compressed theorems: RoundTrip (compress then inflate with the same dictionary is the identity), MinOut (output >= 4 bytes), DictFree for compressed broadcasts - klauspost conformance, sampled on every compressed message of the sess/write suites",
                "transport delivers the written bytes in order (memConn in the suites; TCP in production)",
                "the models of the write path (C05), read path (C03), window (C17), masking (C18) and queue (C15) it composes, each tied by its own suite"],
    "clauses_without_theorem": ["parallel handling: each message handled exactly once (multiset) - observed (racy parallel-handlers)",
                                "program order of one goroutine's WriteAsync calls = order of their Push critical sections (Go semantics)",
                                "KNOWN FINDING KF-C01-compressed-at-limit: incompressible payload at the limit refused under compression"],
}

PROPS["C14"] = {
    "theorems": ["Own.path_well_owned_readSingle", "Own.path_well_owned_readFragments", "Own.path_well_owned_readControl", "Own.path_well_owned_writeFrame",
                 "Own.path_well_owned_writeClose", "Own.path_well_owned_writeFilePlain", "Own.path_well_owned_writeFileCompressed", "Own.path_well_owned_connection",
                 "Own.path_well_owned_readLoopEnd_busy", "Own.wellOwned_leaves_nothing", "Own.interleave_well_owned", "Own.interleaveN_well_owned",
                 "Own.interleave_shared_mutex_well_owned", "Own.delivered_untouched_until_close", "Own.caller_payload_never_written",
                 "Own.caller_payload_unread_after_return", "Own.broadcaster_release_once", "Own.broadcaster_well_owned", "Own.reclaim_only_when_idle"],
    "suites": ["own", "racy"],
    "trusted": ["the ownership protocol is a hand-written event model of each library path; it is tied to the code by the get/put traces the pool hook records for each scenario run alone (renamed by first occurrence) and by pool poisoning / double-put detection / caller-payload checksums on real connections",
                "sync.Pool hands a buffer to one taker at a time; a mutex-guarded location is used by its holder only",
                "real aliasing, GC and the Go memory model are runtime: observed (poisoning, race detector), not proved"],
    "clauses_without_theorem": ["memory is not shared (aliasing): observed by poisoning released buffers and by the race detector",
                                "Broadcast after Close is API misuse and can release the shared frames twice (witness broadcaster_misuse_double_release)"],
}

# ---- T3: equivalence of the model with the translation regenerated from the source by tools/gotrans ---------
TRANS_TRUSTED = "tie T3 = tools/gotrans: the listed Go functions / statement segments are translated to Lean on every run (Gws/Generated/Trans.lean) and the model functions are proved equal to the translation (TransEquiv.*); trusted: the translator and Gws/Trans/Prelude.lean (Go integer, slice, copy, encoding/binary semantics; slices as values, no aliasing); for internal/deque.go the deque dialect (tools/gotrans/deque.go, Gws/Generated/TransDeque.lean, Gws/Trans/DequePrelude.lean: a pointer into the slot array is the index of its slot, every indirection nil-checked), for the aggregator flateWriter of writefile.go the buffer-list dialect (tools/gotrans/fw.go, Gws/Generated/TransFW.lean, Gws/Trans/FWPrelude.lean)"
_TF = ["TransEquiv.GetFIN_eq", "TransEquiv.GetRSV1_eq", "TransEquiv.GetRSV2_eq", "TransEquiv.GetRSV3_eq", "TransEquiv.GetOpcode_eq", "TransEquiv.GetMask_eq",
       "TransEquiv.GetLengthCode_eq", "TransEquiv.isDataFrame_eq"]
_TR = ["TransEquiv.readMessage_header_eq", "TransEquiv.readControl_guards_eq"]
_TC = ["TransEquiv.emitError_status_eq", "TransEquiv.emitError_status_write", "TransEquiv.emitClose_body_eq", "TransEquiv.local_close_body_eq", "TransEquiv.closeViaWrite_split_eq", "TransEquiv.StatusCode_Bytes_eq",
       "TransEquiv.CheckEncoding_eq", "TransEquiv.classify_u16"]
_TN = ["TransEquiv.setThreshold_eq", "TransEquiv.initServerOption_pd_eq", "TransEquiv.initClientOption_pd_eq",
       "TransEquiv.server_getPD_eq", "TransEquiv.client_getPD_eq"]
_TNP = ["TransEquiv.permessageNegotiation_eq", "TransEquiv.genRequestHeader_eq", "TransEquiv.genResponseHeader_eq",
        "TransEquiv.server_getPD_parsed_eq", "TransEquiv.client_getPD_parsed_eq", "TransEquiv.parse_genRequestHeader"]
_TL = ["TransEquiv.initServerOption_limits_pos", "TransEquiv.initClientOption_limits_pos"]
_TP = ["TransEquiv.Parse_eq", "TransEquiv.afterPayload_eq", "TransEquiv.readControl_body_eq", "TransEquiv.emitMessage_eq",
       "TransEquiv.readMessage_payload_eq", "TransEquiv.readMessage_eq_step"]
_TRANS = {
    "C03": (["Gws.Props.TransClose", "Gws.Props.TransFrame", "Gws.Props.TransReader", "Gws.Props.TransParse", "Gws.Props.TransFragment", "Gws.Props.TransControl", "Gws.Props.TransEmit", "Gws.Props.TransStep"], _TF + _TR + _TP + ["TransEquiv.emitError_status_eq"]),
    "C04": (["Gws.Props.TransFrame", "Gws.Props.TransReader", "Gws.Props.TransParse", "Gws.Props.TransFragment", "Gws.Props.TransControl", "Gws.Props.TransEmit", "Gws.Props.TransStep", "Gws.Props.TransWindow", "Gws.Props.TransNego"],
            _TF + _TR + _TP + ["TransEquiv.binaryCeil_eq", "TransEquiv.Max_eq"] + _TL),
    "C13": (["Gws.Props.TransFrame", "Gws.Props.TransReader", "Gws.Props.TransParse", "Gws.Props.TransFragment", "Gws.Props.TransControl", "Gws.Props.TransEmit", "Gws.Props.TransStep", "Gws.Props.TransNego", "Gws.Props.TransLimited"],
            _TF + _TR + _TP + _TL + ["TransEquiv.limitedReader_Read_eq", "TransEquiv.copy_step_eq"]),
    "C15": (["Gws.Props.TransQueue"], ["TransEquiv.getJob_eq"]),
    "C19": (["Gws.Props.TransMap"], ["TransEquiv.shardIndex_eq"]),
    "C20": (["Gws.Props.TransDequeCore", "Gws.Props.TransDequeOps", "Gws.Props.TransDequeRefine"],
            ["TransEquiv.Dq." + n for n in ["getElement_eq", "getElement_post", "putElement_eq", "autoReset_eq", "Reset_eq", "Len_eq", "Front_eq", "Back_eq", "doPushFront_eq", "doPushBack_eq",
                                             "doRemove_eq", "Element_getters", "Stack_Len_eq", "Stack_Push_eq", "Stack_Pop_eq", "PushFront_eq", "PushBack_eq", "PopFront_eq", "PopBack_eq",
                                             "InsertAfter_eq", "InsertBefore_eq", "MoveToBack_eq", "MoveToFront_eq", "Update_eq", "Remove_eq",
                                             "TInst.step_eq", "TState.run_eq", "translated_ops_refine", "translated_ops_refine_zero"]]),
    "C10": (["Gws.Props.TransHandshake", "Gws.Props.TransUpgrade"], ["TransEquiv.serverDecide_eq_translated", "TransEquiv.HttpHeaderContainsToken_eq", "TransEquiv.GetIntersectionElem_eq", "TransEquiv.requestChecks_eq",
                                          "TransEquiv.serverDecide_requestChecks", "TransEquiv.WithHeader_eq", "TransEquiv.keyAndAccept_eq", "TransEquiv.WithSubProtocol_eq", "TransEquiv.deleteProtectedHeaders_eq"]),
    "C11": (["Gws.Props.TransHandshake"], ["TransEquiv.HttpHeaderContainsToken_eq", "TransEquiv.GetIntersectionElem_eq", "TransEquiv.InCollection_eq",
                                          "TransEquiv.checkHeaders_eq", "TransEquiv.getSubProtocol_eq", "TransEquiv.request_headers_eq", "TransEquiv.clientHandshake_eq_translated"]),
    "C05": (["Gws.Props.TransFrame", "Gws.Props.TransClose", "Gws.Props.TransWriter", "Gws.Props.TransCompress", "Gws.Props.TransFile", "Gws.Props.TransSend", "Gws.Props.TransFW", "Gws.Props.TransReadLoop", "Gws.Props.TransPropsFile"],
            ["TransProps.streamed_message_frames", "TransProps.streamed_compressed_message_frames", "TransEquiv.RL.splitReader_eq", "TransEquiv.RL.WriteTo_eq", "TransEquiv.RL.uncompressed_WriteFile_translated", "TransEquiv.FW.shouldCall_eq", "TransEquiv.FW.write_eq", "TransEquiv.FW.Write_eq", "TransEquiv.FW.Flush_eq", "TransEquiv.FW.compressFile_translated", "TransEquiv.SetLength_eq", "TransEquiv.GenerateHeader_eq", "TransEquiv.local_close_body_eq", "TransEquiv.genFrame_eq", "TransEquiv.stripTail_eq", "TransEquiv.compressData_eq",
             "TransEquiv.flush_stripTail_eq", "TransEquiv.doWriteFile_frame_eq", "TransEquiv.doWrite_head_eq", "TransEquiv.broadcast_gate_eq"]),
    "C06": (["Gws.Props.TransClose", "Gws.Props.TransSend"], _TC + ["TransEquiv.doWrite_head_eq", "TransEquiv.broadcast_gate_eq"]),
    "C16": (["Gws.Props.TransClose", "Gws.Props.TransEmit"], ["TransEquiv.CheckEncoding_eq", "TransEquiv.emitClose_body_eq", "TransEquiv.emitMessage_eq"]),
    "C12": (["Gws.Props.TransNego", "Gws.Props.TransNegoParse"], _TN + _TNP),
    "C01": (["Gws.Props.TransNego"], ["TransEquiv.setThreshold_eq"]),
    "C17": (["Gws.Props.TransWindow"], ["TransEquiv.slideWindow_Write_eq", "TransEquiv.BinaryPow_eq"]),
    "C02": (["Gws.Props.TransWindow", "Gws.Props.TransNego", "Gws.Props.TransEmit", "Gws.Props.TransCompress", "Gws.Props.TransReadLoop"],
            ["TransEquiv.slideWindow_Write_eq", "TransEquiv.BinaryPow_eq", "TransEquiv.setThreshold_eq", "TransEquiv.emitMessage_eq", "TransEquiv.stripTail_eq", "TransEquiv.compressData_eq",
             "TransEquiv.doWrite_windowRule_eq", "TransEquiv.broadcast_windowRule_eq", "TransEquiv.compressor_window", "TransEquiv.RL.WriteTo_eq"]),
}
# clauses of the properties stated directly of the translated source (Gws/Props/TransProps.lean)
_TPROPS = {
    "C03": ["TransProps.header_violation_1002", "TransProps.header_fields", "TransProps.control_frame_violation_1002", "TransProps.fragmentation_violation_1002"],
    "C13": ["TransProps.oversize_frame_1009", "TransProps.oversize_fragments_1009", "TransProps.inflate_failure_1011"],
    "C04": ["TransProps.oversize_frame_1009"],
    "C05": ["TransProps.genFrame_decodes", "TransProps.local_close_body"],
    "C06": ["TransProps.close_reply_table", "TransProps.close_reply_short", "TransProps.local_close_body"],
    "C12": ["TransProps.server_bits_in_range", "TransProps.client_bits_in_range"],
    "C16": ["TransProps.gate_text", "TransProps.gate_binary_never", "TransProps.gate_off_never", "TransProps.invalid_text_1007"],
    "C17": ["TransProps.window_is_suffix", "TransProps.disabled_window_stays_empty"],
    "C01": ["TransProps.frame_delivered_end_to_end", "TransProps.frame_delivered_compressed_end_to_end"],
    "C02": ["TransProps.frame_delivered_compressed_end_to_end"],
}
for _p, _ths in _TPROPS.items():
    _m, _t = _TRANS[_p]
    _TRANS[_p] = (_m + ["Gws.Props.TransProps"], _t + _ths)
for _p, (_mods, _ths) in _TRANS.items():
    PROPS[_p]["trans_modules"] = _mods
    PROPS[_p]["theorems"] = PROPS[_p]["theorems"] + _ths
    PROPS[_p]["trusted"] = PROPS[_p]["trusted"] + [TRANS_TRUSTED]

# ---- relevance: does an implementation/model difference contradict THIS property's clauses? ---------------
import re as _re


def _read_parts(out):
    parts = out.split("|")
    return (parts + ["", "", ""])[:3] if not out.startswith("chunk-dependent") else ("", "", "")


def _crashy(v):
    return bool(_re.search(r"panic|PANIC|HANG|CRASH|TIMEOUT|lifecycle|NIL-ERROR|transport-left-open", v["impl"]))


def _rel_c04(v):
    return _crashy(v)


def _rel_c13(v):
    if v.get("suite") != "read":
        return True
    m = _re.match(r"read \S+ \S+ \S+ (-?\d+) ", v["case"])
    limit = int(m.group(1)) if m else None
    for mm in _re.finditer(r"msg:\d+:([0-9a-f-]+)", v["impl"]):
        n = 0 if mm.group(1) == "-" else len(mm.group(1)) // 2
        if limit is not None and n > limit:
            return True
    ir, mr = _read_parts(v["impl"])[2], _read_parts(v["model"])[2]
    if (mr == "1009") != (ir == "1009"):
        return True
    if v["impl"].count("msg:") < v["model"].count("msg:"):
        return True          # a message within the limit was not delivered
    if _re.findall(r"msg:\d+:[0-9a-f-]+", v["impl"]) != _re.findall(r"msg:\d+:[0-9a-f-]+", v["model"]):
        return True          # … or something else was delivered in its place (e.g. an empty payload)
    return _crashy(v)


def _rel_c16(v):
    if v.get("suite") != "read":
        return True
    return "1007" in v["impl"] or "1007" in v["model"] or v["impl"].count("msg:1:") != v["model"].count("msg:1:")


def _rel_c06(v):
    if v.get("suite") != "read":
        return True
    return "peer(" in v["impl"] or "peer(" in v["model"] or "frames(" in v["impl"]


def _rel_c07(v):
    if v.get("suite") == "read":
        return bool(_re.search(r"lifecycle|NIL-ERROR|panic|HANG", v["impl"]))
    if v.get("suite") == "conn":
        f = lambda o: _re.search(r"cbs=(\S+)", o)
        a, b = f(v["impl"]), f(v["model"])
        return (a.group(1) if a else v["impl"]) != (b.group(1) if b else v["model"])
    return True


def _rel_c08(v):
    if v.get("suite") == "conn":
        f = lambda o: _re.search(r"wire=(\S+) rets=(\S+)", o)
        a, b = f(v["impl"]), f(v["model"])
        return (a.groups() if a else v["impl"]) != (b.groups() if b else v["model"])
    return True


def _rel_c20(v):
    # slot addresses are a fidelity observable (the theorem is about this allocation algorithm); a difference
    # confined to them does not contradict the property
    strip = lambda o: _re.sub(r"@\d+", "", o)
    return strip(v["impl"]) != strip(v["model"])


def _rel_c02(v):
    # compressed cases of the read suite: C02 is about inflating what a conforming sender produces — a difference in the
    # delivered messages or an inflation failure (1011) on one side only; other differences belong to C03/C13
    if v.get("suite") != "read":
        return True
    msgs = lambda o: _re.findall(r"msg:\d+:[0-9a-f-]+", o)
    return msgs(v["impl"]) != msgs(v["model"]) or ("1011" in v["impl"]) != ("1011" in v["model"])


RELEVANT = {"C02": _rel_c02, "C20": _rel_c20, "C04": _rel_c04, "C13": _rel_c13, "C16": _rel_c16, "C06": _rel_c06, "C07": _rel_c07, "C08": _rel_c08}

EXTRA = {}
