package main

// The deque dialect of gotrans (tie T3 for internal/deque.go, property C20).
//
// internal/deque.go is a doubly linked list stored in a slice of slots, manipulated through pointers into that slice
// (`*Element[T]`), which the functional fragment of main.go cannot express. This second, small translator reads the same
// type-checked AST and emits, for every function of the file, a Lean definition in the `Option` monad (`none` = a
// run-time panic) over the heap of the data structure itself:
//
//   * the receiver `c *Deque[T]` is a value `d : Deque` (the structure of Gws/Model/Deque.lean: its fields and the two
//     slot accessors `load`/`store`, none of the model's operations), threaded through the statements (`let mut d`);
//   * a `*Element[T]` is the index of its slot (`nil` = 0): `&(c.elements[i])` is the bounds-checked `GoDeque.elemAddr`,
//     a read `p.f` is `(← GoDeque.deref d p).f` (nil panics), a write `p.f = x` / `*p = e` is `GoDeque.assign`;
//   * `Pointer`, the element type `T` : Nat; `int` : Int; a tuple assignment evaluates its right-hand sides first;
//   * the free-slot stack `c.stack` is used through `GoDeque.lifo*` (top of the stack = head of the list); the three
//     methods of `Stack[T]` are translated on their own (slice = List, last element = top) and proved to be that LIFO.
//
// A statement or expression form outside this list makes the translator fail (exit 1): nothing is skipped silently.
// Not translated (tied by the correspondence suite `deque` only): New, Range (a callback loop), Clone (make/copy).

import (
	"fmt"
	"go/ast"
	"go/token"
	"go/types"
	"path/filepath"
	"sort"
	"strings"
)

var dequeSkip = map[string]string{
	"New":         "constructor: make([]Element[T], 1, 1+capacity)",
	"Deque.Range": "loop over a callback",
	"Deque.Clone": "make + copy of the two slices",
}

type dqFunc struct {
	name    string // "Deque.PushFront"
	decl    *ast.FuncDecl
	recv    string // "deque", "elem", "stack", "pointer", ""
	mutates bool
	result  string // Lean type of the Go result ("" = none)
	named   string // named result variable
}

type dq struct {
	p     *pkgInfo
	funcs map[string]*dqFunc
	cur   *dqFunc
	tmp   int
}

func (q *dq) bad(n ast.Node, why string) {
	pos := q.p.fset.Position(n.Pos())
	fail("deque dialect: %s:%d: %s", filepath.Base(pos.Filename), pos.Line, why)
}

func namedName(t types.Type) string {
	if pt, ok := t.(*types.Pointer); ok {
		t = pt.Elem()
	}
	if n, ok := t.(*types.Named); ok {
		return n.Obj().Name()
	}
	if a, ok := t.(*types.Alias); ok {
		return a.Obj().Name()
	}
	return ""
}

// kind of a Go type in the dialect
func (q *dq) kind(t types.Type) string {
	if t == nil {
		return "?"
	}
	_, isPtr := t.(*types.Pointer)
	switch namedName(t) {
	case "Deque":
		return "deque"
	case "Element":
		if isPtr {
			return "elemptr"
		}
		return "elem"
	case "Stack":
		return "stack"
	case "Pointer":
		return "pointer"
	}
	if _, ok := t.(*types.TypeParam); ok {
		return "T"
	}
	if b, ok := t.Underlying().(*types.Basic); ok {
		switch {
		case b.Kind() == types.Bool || b.Kind() == types.UntypedBool:
			return "bool"
		case b.Kind() == types.UntypedNil:
			return "nil"
		case b.Info()&types.IsInteger != 0:
			return "int"
		}
	}
	if s, ok := t.Underlying().(*types.Slice); ok {
		if namedName(s.Elem()) == "Element" {
			return "elems"
		}
		return "slice"
	}
	return "?"
}

func (q *dq) leanType(kind string) string {
	switch kind {
	case "elemptr", "pointer", "T":
		return "Nat"
	case "int":
		return "Int"
	case "bool":
		return "Bool"
	}
	return ""
}

func (q *dq) typeOf(e ast.Expr) types.Type {
	if tv, ok := q.p.info.Types[e]; ok {
		return tv.Type
	}
	if id, ok := e.(*ast.Ident); ok {
		if o := q.p.info.Uses[id]; o != nil {
			return o.Type()
		}
		if o := q.p.info.Defs[id]; o != nil {
			return o.Type()
		}
	}
	return nil
}

func (q *dq) k(e ast.Expr) string { return q.kind(q.typeOf(e)) }

// the state variable the current function threads: `d` for methods of Deque / Element, `s` for methods of Stack
func (q *dq) st() string {
	if q.cur.recv == "stack" {
		return "s"
	}
	return "d"
}

func (q *dq) isRecv(e ast.Expr) bool {
	id, ok := e.(*ast.Ident)
	if !ok || q.cur.decl.Recv == nil || len(q.cur.decl.Recv.List[0].Names) == 0 {
		return false
	}
	return id.Name == q.cur.decl.Recv.List[0].Names[0].Name
}

func dqIdent(s string) string {
	switch s {
	case "d", "s", "end", "at", "from", "to", "open", "fun", "match", "then", "else", "show", "have", "by", "in", "do", "let", "if", "this":
		return s + "'"
	}
	return s
}

// callee of a method call: the dqFunc and the receiver expression
func (q *dq) callee(c *ast.CallExpr) (*dqFunc, ast.Expr) {
	sel, ok := c.Fun.(*ast.SelectorExpr)
	if !ok {
		return nil, nil
	}
	s, ok := q.p.info.Selections[sel]
	if !ok || s.Kind() != types.MethodVal {
		return nil, nil
	}
	fo := s.Obj().(*types.Func)
	recv := fo.Type().(*types.Signature).Recv()
	name := namedName(recv.Type()) + "." + fo.Name()
	return q.funcs[name], sel.X
}

// expression -> Lean term (inside a do block: `(← …)` lifts are allowed)
func (q *dq) expr(e ast.Expr) string {
	switch x := e.(type) {
	case *ast.ParenExpr:
		return "(" + q.expr(x.X) + ")"
	case *ast.BasicLit:
		if x.Kind == token.INT {
			return x.Value
		}
	case *ast.Ident:
		switch x.Name {
		case "Nil":
			return "0"
		case "nil":
			return "0"
		case "true", "false":
			return x.Name
		}
		if q.isRecv(x) {
			if q.cur.recv == "pointer" {
				return "c"
			}
			q.bad(e, "the receiver used as a value")
		}
		return dqIdent(x.Name)
	case *ast.SelectorExpr:
		// field of the receiver, or of an element pointer
		if q.isRecv(x.X) {
			if q.cur.recv == "deque" {
				return "d." + x.Sel.Name
			}
			if q.cur.recv == "elem" {
				return fmt.Sprintf("(← GoDeque.deref d c).%s", x.Sel.Name)
			}
		}
		if q.k(x.X) == "elemptr" {
			return fmt.Sprintf("(← GoDeque.deref d %s).%s", q.expr(x.X), x.Sel.Name)
		}
	case *ast.StarExpr:
		if q.cur.recv == "stack" && q.isRecv(x.X) {
			return "s"
		}
	case *ast.UnaryExpr:
		if x.Op == token.NOT {
			return "(¬ " + q.expr(x.X) + ")"
		}
		if x.Op == token.AND {
			// &(c.elements[i])
			inner := x.X
			if p, ok := inner.(*ast.ParenExpr); ok {
				inner = p.X
			}
			if ix, ok := inner.(*ast.IndexExpr); ok && q.k(ix.X) == "elems" {
				return fmt.Sprintf("(← GoDeque.elemAddr %s %s)", q.expr(ix.X), q.expr(ix.Index))
			}
		}
	case *ast.IndexExpr:
		if q.k(x.X) == "stack" || q.k(x.X) == "slice" {
			return fmt.Sprintf("(← GoDeque.index %s (%s))", q.expr(x.X), q.expr(x.Index))
		}
	case *ast.SliceExpr:
		if x.Low == nil && x.High != nil && !x.Slice3 {
			switch q.k(x.X) {
			case "stack", "slice":
				if q.cur.recv != "stack" {
					// the free-slot stack of a deque is seen as a LIFO (top = head of the list): only `c.stack[:0]` has a meaning there
					if lit, ok := x.High.(*ast.BasicLit); !ok || lit.Value != "0" {
						q.bad(e, "slice of the free-slot stack other than [:0]")
					}
					return fmt.Sprintf("(GoDeque.lifoClear %s)", q.expr(x.X))
				}
				return fmt.Sprintf("(← GoDeque.sliceTo %s (%s))", q.expr(x.X), q.expr(x.High))
			case "elems":
				return fmt.Sprintf("(← GoDeque.sliceTo %s (%s))", q.expr(x.X), q.expr(x.High))
			}
		}
	case *ast.BinaryExpr:
		a, b := q.expr(x.X), q.expr(x.Y)
		switch x.Op {
		case token.EQL:
			return fmt.Sprintf("(%s = %s)", a, b)
		case token.NEQ:
			return fmt.Sprintf("(%s ≠ %s)", a, b)
		case token.GTR:
			return fmt.Sprintf("(%s > %s)", a, b)
		case token.LSS:
			return fmt.Sprintf("(%s < %s)", a, b)
		case token.GEQ:
			return fmt.Sprintf("(%s ≥ %s)", a, b)
		case token.LEQ:
			return fmt.Sprintf("(%s ≤ %s)", a, b)
		case token.LAND:
			return fmt.Sprintf("(%s ∧ %s)", a, b)
		case token.LOR:
			return fmt.Sprintf("(%s ∨ %s)", a, b)
		case token.ADD:
			return fmt.Sprintf("(%s + %s)", a, b)
		case token.SUB:
			if q.k(x.X) != "int" {
				q.bad(e, "subtraction on an unsigned type")
			}
			return fmt.Sprintf("(%s - %s)", a, b)
		}
	case *ast.CallExpr:
		// len(x)
		if id, ok := x.Fun.(*ast.Ident); ok {
			switch id.Name {
			case "len":
				return fmt.Sprintf("(%s.length : Int)", q.expr(x.Args[0]))
			case "append":
				if len(x.Args) == 2 && x.Ellipsis == token.NoPos {
					return fmt.Sprintf("(%s ++ [%s])", q.expr(x.Args[0]), q.expr(x.Args[1]))
				}
			case "Pointer": // conversion int -> Pointer (uint32): wrap-around at 2^32 slots is not modelled
				return fmt.Sprintf("(GoDeque.pointerOfInt %s)", q.expr(x.Args[0]))
			}
		}
		fn, recv := q.callee(x)
		if fn == nil {
			q.bad(e, "call of something that is not a function of deque.go")
		}
		if fn.mutates {
			q.bad(e, "call of a mutating method inside an expression")
		}
		var args []string
		for _, a := range x.Args {
			args = append(args, q.expr(a))
		}
		switch fn.recv {
		case "pointer":
			return strings.TrimSpace(fmt.Sprintf("(%s %s %s = true)", leanName(fn), q.expr(recv), strings.Join(args, " ")))
		case "deque":
			if !q.isRecv(recv) {
				q.bad(e, "method call on a deque other than the receiver")
			}
			return strings.TrimSpace(fmt.Sprintf("(← %s d %s)", leanName(fn), strings.Join(args, " ")))
		case "elem":
			return strings.TrimSpace(fmt.Sprintf("(← %s d %s %s)", leanName(fn), q.expr(recv), strings.Join(args, " ")))
		case "stack":
			// c.stack.Len() inside a Deque method: the LIFO view; c.Len() inside a Stack method: the translated method
			if q.cur.recv == "stack" && q.isRecv(recv) {
				return fmt.Sprintf("(← %s s)", leanName(fn))
			}
			if fn.decl.Name.Name == "Len" {
				return fmt.Sprintf("(GoDeque.lifoLen %s)", q.expr(recv))
			}
		}
	}
	q.bad(e, "expression form")
	return ""
}

func leanName(f *dqFunc) string { return strings.ReplaceAll(f.name, ".", "_") }

// `return …` for the current function
func (q *dq) ret(vals []ast.Expr) string {
	f := q.cur
	var v string
	switch {
	case len(vals) == 1:
		v = q.expr(vals[0])
	case len(vals) == 0 && f.named != "":
		v = dqIdent(f.named)
	case len(vals) == 0 && f.result == "":
	default:
		q.bad(f.decl, "return form")
	}
	switch {
	case f.mutates && v != "":
		return fmt.Sprintf("return (%s, %s)", q.st(), v)
	case f.mutates:
		return "return " + q.st()
	case v != "":
		return "return " + v
	}
	q.bad(f.decl, "a function without result and without effect")
	return ""
}

// assignment of the value `rhs` (already a Lean term) to the Go place `lhs`
func (q *dq) store(lhs ast.Expr, rhs string) string {
	switch x := lhs.(type) {
	case *ast.Ident:
		if x.Name == "_" {
			return ""
		}
		return fmt.Sprintf("%s := %s", dqIdent(x.Name), rhs)
	case *ast.SelectorExpr:
		if q.isRecv(x.X) && q.cur.recv == "deque" {
			return fmt.Sprintf("d := { d with %s := %s }", x.Sel.Name, rhs)
		}
		if q.k(x.X) == "elemptr" {
			p := q.expr(x.X)
			return fmt.Sprintf("d ← GoDeque.assign d %s { (← GoDeque.deref d %s) with %s := %s }", p, p, x.Sel.Name, rhs)
		}
	case *ast.StarExpr:
		if q.cur.recv == "stack" && q.isRecv(x.X) {
			return "s := " + rhs
		}
		if q.k(x.X) == "elemptr" {
			return fmt.Sprintf("d ← GoDeque.assign d %s %s", q.expr(x.X), rhs)
		}
	}
	q.bad(lhs, "assignment target")
	return ""
}

// a call of a mutating method as a statement, binding its result (if any) to `bind` ("" = discard)
func (q *dq) mutCall(c *ast.CallExpr, bind string, define bool) (string, bool) {
	fn, recv := q.callee(c)
	if fn == nil || !fn.mutates {
		return "", false
	}
	var args []string
	for _, a := range c.Args {
		args = append(args, q.expr(a))
	}
	var lines []string
	switch fn.recv {
	case "deque":
		if !q.isRecv(recv) {
			q.bad(c, "method call on a deque other than the receiver")
		}
		call := strings.TrimSpace(fmt.Sprintf("%s d %s", leanName(fn), strings.Join(args, " ")))
		if fn.result == "" {
			lines = append(lines, "d ← "+call)
		} else {
			q.tmp++
			r := fmt.Sprintf("r%d", q.tmp)
			lines = append(lines, fmt.Sprintf("let %s ← %s", r, call), fmt.Sprintf("d := %s.1", r))
			if bind != "" {
				if define {
					lines = append(lines, fmt.Sprintf("let mut %s := %s.2", bind, r))
				} else {
					lines = append(lines, fmt.Sprintf("%s := %s.2", bind, r))
				}
			}
		}
	case "stack":
		// c.stack.Push(x) / c.stack.Pop() inside a Deque method: the LIFO view of the field
		sel, ok := recv.(*ast.SelectorExpr)
		if !ok || !q.isRecv(sel.X) || q.cur.recv != "deque" {
			q.bad(c, "stack method on something that is not a field of the receiver")
		}
		fld := sel.Sel.Name
		switch fn.decl.Name.Name {
		case "Push":
			lines = append(lines, fmt.Sprintf("d := { d with %s := GoDeque.lifoPush d.%s %s }", fld, fld, args[0]))
		case "Pop":
			q.tmp++
			r := fmt.Sprintf("r%d", q.tmp)
			lines = append(lines, fmt.Sprintf("let %s ← GoDeque.lifoPop d.%s", r, fld), fmt.Sprintf("d := { d with %s := %s.1 }", fld, r))
			if bind != "" {
				if define {
					lines = append(lines, fmt.Sprintf("let mut %s := %s.2", bind, r))
				} else {
					lines = append(lines, fmt.Sprintf("%s := %s.2", bind, r))
				}
			}
		default:
			q.bad(c, "stack method")
		}
	default:
		q.bad(c, "mutating call")
	}
	return strings.Join(lines, "\n"), true
}

func (q *dq) block(list []ast.Stmt) string {
	var out []string
	for _, s := range list {
		if t := q.stmt(s); t != "" {
			out = append(out, t)
		}
	}
	if len(out) == 0 {
		return "pure ()"
	}
	return strings.Join(out, "\n")
}

func (q *dq) typedInit(name string, kind string, val string) string {
	lt := q.leanType(kind)
	if kind == "stack" || kind == "slice" {
		lt = "List Nat"
	}
	if lt == "" {
		fail("deque dialect: local variable %s of unsupported type", name)
	}
	return fmt.Sprintf("let mut %s : %s := %s", dqIdent(name), lt, val)
}

func (q *dq) stmt(s ast.Stmt) string {
	switch st := s.(type) {
	case *ast.ReturnStmt:
		return q.ret(st.Results)
	case *ast.ExprStmt:
		if c, ok := st.X.(*ast.CallExpr); ok {
			if t, ok := q.mutCall(c, "", false); ok {
				return t
			}
		}
		q.bad(s, "expression statement")
	case *ast.IncDecStmt:
		one := "+ 1"
		if st.Tok == token.DEC {
			one = "- 1"
			if q.k(st.X) != "int" {
				q.bad(s, "decrement of an unsigned value")
			}
		}
		return q.store(st.X, fmt.Sprintf("%s %s", q.expr(st.X), one))
	case *ast.DeclStmt:
		gd, ok := st.Decl.(*ast.GenDecl)
		if !ok || gd.Tok != token.VAR {
			q.bad(s, "declaration")
		}
		var lines []string
		for _, sp := range gd.Specs {
			vs := sp.(*ast.ValueSpec)
			if len(vs.Values) != 0 && len(vs.Values) != len(vs.Names) {
				q.bad(s, "var with a multi-valued initialiser")
			}
			for i, n := range vs.Names {
				val := "0" // the zero value of Pointer, int, T, *Element[T]
				if q.k(n) == "bool" {
					val = "false"
				}
				if len(vs.Values) != 0 {
					val = q.expr(vs.Values[i])
				}
				lines = append(lines, q.typedInit(n.Name, q.k(n), val))
			}
		}
		return strings.Join(lines, "\n")
	case *ast.AssignStmt:
		if st.Tok == token.ADD_ASSIGN && len(st.Lhs) == 1 {
			return q.store(st.Lhs[0], fmt.Sprintf("%s + %s", q.expr(st.Lhs[0]), q.expr(st.Rhs[0])))
		}
		if st.Tok != token.ASSIGN && st.Tok != token.DEFINE {
			q.bad(s, "assignment operator")
		}
		define := st.Tok == token.DEFINE
		if len(st.Lhs) == 1 && len(st.Rhs) == 1 {
			if c, ok := st.Rhs[0].(*ast.CallExpr); ok {
				if id, ok := st.Lhs[0].(*ast.Ident); ok {
					if t, ok := q.mutCall(c, dqIdent(id.Name), define); ok {
						return t
					}
				}
			}
			if define {
				id := st.Lhs[0].(*ast.Ident)
				return q.typedInit(id.Name, q.k(id), q.expr(st.Rhs[0]))
			}
			return q.store(st.Lhs[0], q.expr(st.Rhs[0]))
		}
		if len(st.Lhs) != len(st.Rhs) || define {
			q.bad(s, "tuple assignment form")
		}
		// tuple assignment: the right-hand sides are evaluated first
		var lines []string
		var tmps []string
		for _, r := range st.Rhs {
			q.tmp++
			t := fmt.Sprintf("t%d", q.tmp)
			tmps = append(tmps, t)
			lines = append(lines, fmt.Sprintf("let %s := %s", t, q.expr(r)))
		}
		for i, l := range st.Lhs {
			// the operands of pointer indirections on the left are plain variables here: nothing to evaluate early
			if sel, ok := l.(*ast.SelectorExpr); ok {
				if _, ok := sel.X.(*ast.Ident); !ok {
					q.bad(s, "tuple assignment to a computed place")
				}
			}
			lines = append(lines, q.store(l, tmps[i]))
		}
		return strings.Join(lines, "\n")
	case *ast.IfStmt:
		var pre string
		if st.Init != nil {
			pre = q.stmt(st.Init) + "\n"
		}
		out := pre + fmt.Sprintf("if %s then\n%s", q.expr(st.Cond), indent(q.block(st.Body.List)))
		switch e := st.Else.(type) {
		case nil:
		case *ast.BlockStmt:
			out += "\nelse\n" + indent(q.block(e.List))
		case *ast.IfStmt:
			out += "\nelse\n" + indent(q.stmt(e))
		}
		return out
	case *ast.SwitchStmt:
		if st.Init != nil || st.Tag == nil {
			q.bad(s, "switch form")
		}
		tag := q.expr(st.Tag)
		var cases []*ast.CaseClause
		var def *ast.CaseClause
		for _, c := range st.Body.List {
			cc := c.(*ast.CaseClause)
			for _, b := range cc.Body {
				if br, ok := b.(*ast.BranchStmt); ok && br.Tok == token.FALLTHROUGH {
					q.bad(s, "fallthrough")
				}
			}
			if cc.List == nil {
				def = cc
			} else {
				cases = append(cases, cc)
			}
		}
		out := ""
		for i, cc := range cases {
			var conds []string
			for _, v := range cc.List {
				conds = append(conds, fmt.Sprintf("%s = %s", tag, q.expr(v)))
			}
			kw := "if"
			if i > 0 {
				kw = "else if"
			}
			out += fmt.Sprintf("%s %s then\n%s\n", kw, strings.Join(conds, " ∨ "), indent(q.block(cc.Body)))
		}
		if def != nil {
			out += "else\n" + indent(q.block(def.Body))
		}
		return strings.TrimRight(out, "\n")
	case *ast.BlockStmt:
		return q.block(st.List)
	}
	q.bad(s, "statement form")
	return ""
}

// does the body assign through the receiver / an element pointer, or call something that does
func (q *dq) computeMutates() {
	changed := true
	for changed {
		changed = false
		for _, f := range q.funcs {
			if f.mutates || f.decl.Body == nil {
				continue
			}
			q.cur = f
			m := false
			isPlace := func(e ast.Expr) bool {
				switch x := e.(type) {
				case *ast.SelectorExpr:
					return q.isRecv(x.X) || q.k(x.X) == "elemptr"
				case *ast.StarExpr:
					return true
				}
				return false
			}
			ast.Inspect(f.decl.Body, func(n ast.Node) bool {
				switch x := n.(type) {
				case *ast.AssignStmt:
					for _, l := range x.Lhs {
						if isPlace(l) {
							m = true
						}
					}
				case *ast.IncDecStmt:
					if isPlace(x.X) {
						m = true
					}
				case *ast.CallExpr:
					if g, _ := q.callee(x); g != nil && g.mutates {
						m = true
					}
				}
				return true
			})
			if m {
				f.mutates = true
				changed = true
			}
		}
	}
}

func translateDeque(p *pkgInfo) string {
	q := &dq{p: p, funcs: map[string]*dqFunc{}}
	var names []string
	for name, fd := range p.funcs {
		pos := p.fset.Position(fd.Pos())
		if filepath.Base(pos.Filename) != "deque.go" {
			continue
		}
		if _, skip := dequeSkip[name]; skip {
			continue
		}
		f := &dqFunc{name: name, decl: fd}
		if fd.Recv != nil {
			switch recvTypeName(fd.Recv.List[0].Type) {
			case "Deque":
				f.recv = "deque"
			case "Element":
				f.recv = "elem"
			case "Stack":
				f.recv = "stack"
			case "Pointer":
				f.recv = "pointer"
			default:
				q.bad(fd, "receiver type")
			}
		} else {
			q.bad(fd, "a function without receiver that is neither translated nor listed as left out")
		}
		if fd.Type.Results != nil {
			if len(fd.Type.Results.List) != 1 || len(fd.Type.Results.List[0].Names) > 1 {
				q.bad(fd, "more than one result")
			}
			r := fd.Type.Results.List[0]
			f.result = q.leanType(q.kind(p.info.Types[r.Type].Type))
			if f.result == "" {
				q.bad(fd, "result type")
			}
			if len(r.Names) == 1 {
				f.named = r.Names[0].Name
			}
		}
		q.funcs[name] = f
		names = append(names, name)
	}
	for name := range dequeSkip {
		if _, ok := p.funcs[name]; !ok {
			fail("deque dialect: %s, listed as left out, does not exist any more", name)
		}
	}
	q.computeMutates()
	// source order
	sort.Slice(names, func(i, j int) bool { return q.funcs[names[i]].decl.Pos() < q.funcs[names[j]].decl.Pos() })
	// definitions must precede their uses: emit callees first (the call graph of deque.go is acyclic)
	var order []string
	seen := map[string]int{}
	var visit func(n string)
	visit = func(n string) {
		if seen[n] == 2 {
			return
		}
		if seen[n] == 1 {
			fail("deque dialect: recursion through %s", n)
		}
		seen[n] = 1
		q.cur = q.funcs[n]
		var callees []string
		ast.Inspect(q.funcs[n].decl.Body, func(x ast.Node) bool {
			if c, ok := x.(*ast.CallExpr); ok {
				if g, _ := q.callee(c); g != nil {
					callees = append(callees, g.name)
				}
			}
			return true
		})
		for _, c := range callees {
			visit(c)
		}
		seen[n] = 2
		order = append(order, n)
	}
	for _, n := range names {
		visit(n)
	}
	var sb strings.Builder
	sb.WriteString("import Gws.Trans.DequePrelude\n/-! GENERATED by tools/gotrans (deque dialect, tools/gotrans/deque.go) from /repo/internal/deque.go on every check run. Do not edit.\n\n")
	sb.WriteString("Every function of internal/deque.go except " + strings.Join(sortedKeys(dequeSkip), ", ") + ", statement by statement, in the `Option` monad (`none` = run-time panic)\nover the heap of the structure: a `*Element[T]` is the index of its slot (nil = 0), see Gws/Trans/DequePrelude.lean. -/\n\nset_option linter.unusedVariables false\n\nnamespace TransDeque\n\n")
	for _, n := range order {
		f := q.funcs[n]
		q.cur = f
		q.tmp = 0
		a, b := p.fset.Position(f.decl.Pos()), p.fset.Position(f.decl.End())
		coverLines = append(coverLines, fmt.Sprintf("%s:%d-%d %s", filepath.Base(a.Filename), a.Line, b.Line, "TransDeque."+leanName(f)))
		var params []string
		for _, fl := range f.decl.Type.Params.List {
			for _, nm := range fl.Names {
				lt := q.leanType(q.kind(p.info.Types[fl.Type].Type))
				if lt == "" {
					q.bad(fl, "parameter type")
				}
				params = append(params, fmt.Sprintf("(%s : %s)", dqIdent(nm.Name), lt))
			}
		}
		ps := strings.Join(params, " ")
		if ps != "" {
			ps = " " + ps
		}
		fmt.Fprintf(&sb, "/-- internal.%s (deque.go:%d-%d) -/\n", n, a.Line, b.Line)
		if f.recv == "pointer" {
			// a method of the value type Pointer: one return statement, a pure Boolean
			if len(f.decl.Body.List) != 1 {
				q.bad(f.decl, "Pointer method with more than a return")
			}
			r, ok := f.decl.Body.List[0].(*ast.ReturnStmt)
			if !ok || f.result != "Bool" {
				q.bad(f.decl, "Pointer method form")
			}
			fmt.Fprintf(&sb, "def %s (c : Nat)%s : Bool :=\n  decide %s\n\n", leanName(f), ps, q.expr(r.Results[0]))
			continue
		}
		var head, rtype string
		switch f.recv {
		case "deque":
			head = "(d0 : Deque)"
		case "elem":
			head = "(d0 : Deque) (c : Nat)"
		case "stack":
			head = "(s0 : List Nat)"
		}
		stT := "Deque"
		if f.recv == "stack" {
			stT = "List Nat"
		}
		switch {
		case f.mutates && f.result != "":
			rtype = fmt.Sprintf("Option (%s × %s)", stT, f.result)
		case f.mutates:
			rtype = fmt.Sprintf("Option (%s)", stT)
		default:
			rtype = fmt.Sprintf("Option %s", f.result)
		}
		var body []string
		body = append(body, fmt.Sprintf("let mut %s := %s0", q.st(), q.st()))
		if f.named != "" {
			body = append(body, fmt.Sprintf("let mut %s : %s := 0", dqIdent(f.named), f.result))
		}
		body = append(body, q.block(f.decl.Body.List))
		if n := len(f.decl.Body.List); n == 0 || !isReturn(f.decl.Body.List[n-1]) {
			body = append(body, q.ret(nil))
		}
		fmt.Fprintf(&sb, "def %s %s%s : %s := do\n%s\n\n", leanName(f), head, ps, rtype, indent(strings.Join(body, "\n")))
	}
	sb.WriteString("end TransDeque\n")
	return sb.String()
}

func isReturn(s ast.Stmt) bool { _, ok := s.(*ast.ReturnStmt); return ok }

func sortedKeys(m map[string]string) []string {
	var ks []string
	for k := range m {
		ks = append(ks, k)
	}
	sort.Strings(ks)
	return ks
}
