// Command gotrans translates a pure fragment of /repo's Go sources into Lean 4 definitions
// (Gws/Generated/Trans.lean), on every check run.  It is the third tie between the Lean model and
// the code (T3): the hand-written model functions are proved equal to these regenerated definitions
// (Gws/Props/Trans*.lean), so a change to the translated code changes the definitions and the
// equivalence theorems are re-checked against what the code says now.
//
// The translation is a shallow embedding of a small, first-order, loop-free fragment of Go:
//
//   - types: bool, uint8/16/32/64 (Lean UIntN: same wrap-around arithmetic), int (Lean Int: unbounded;
//     the translated code never relies on int overflow), named types over those, []byte / [N]byte
//     (List UInt8), error restricted to nil / status-code constants / errors of callees;
//   - expressions: constants (evaluated by go/types), locals, field paths rooted at the receiver or a
//     parameter (they become parameters of the Lean function), arithmetic, comparison and logic
//     operators, shifts by constants, conversions between the integer types, constant indexing,
//     slicing, len, append, encoding/binary getters, calls to other translated functions;
//   - statements: declarations, assignments to locals / fields / array elements (state is threaded
//     functionally; a method that writes through its receiver returns the new value), if/else,
//     switch without fallthrough (on integers or strings), return, copy and encoding/binary putters on
//     slices of a variable; two loop forms: the counted loop and `for _, x := range L` (a right fold when
//     the body only returns early, a left fold of the assigned variables when it never leaves early);
//   - strings: bytes (Hs.Str) by default; in targets marked negoStr they are the negotiation model's
//     Nego.Str with ++, ==, constant indexing of a []string, and internal.Split(·, ";"), strings.SplitN(·, "=", 2),
//     strconv.Atoi/Itoa, strings.Join read as that model's primitives (trusted, differentially tested).
//
// Everything else makes gotrans fail for that target (the check then reports the broken tie).  A
// *segment* target translates a run of statements inside a larger function: it yields
// `Except <early return> <live-out values>`.
//
// Slices are values here: the translation is sound only for code that does not observe aliasing
// between two slices (none of the targets does; `copy` within one slice has memmove semantics, which
// the functional reading has too because the source is evaluated first).  Out-of-range indexing
// and slicing would panic in Go; the translation totalises them (take/drop/getD) — panic freedom of
// the read path is C04's concern and is tied by T1.
package main

import (
	"flag"
	"fmt"
	"go/ast"
	"go/build/constraint"
	"go/constant"
	"go/importer"
	"go/parser"
	"go/printer"
	"go/token"
	"go/types"
	"os"
	"path/filepath"
	"sort"
	"strconv"
	"strings"
)

type pkgInfo struct {
	name  string
	fset  *token.FileSet
	files []*ast.File
	info  *types.Info
	pkg   *types.Package
	funcs map[string]*ast.FuncDecl // "recv.Name" / "Name"
}

func fail(format string, a ...any) {
	fmt.Fprintf(os.Stderr, "gotrans: "+format+"\n", a...)
	os.Exit(1)
}

func buildOK(f *ast.File) bool {
	for _, cg := range f.Comments {
		if cg.Pos() > f.Package {
			break
		}
		for _, c := range cg.List {
			if constraint.IsGoBuild(c.Text) {
				x, err := constraint.Parse(c.Text)
				if err != nil {
					return false
				}
				return x.Eval(func(tag string) bool {
					return tag == "linux" || tag == "amd64" || tag == "unix" || strings.HasPrefix(tag, "go1.")
				})
			}
		}
	}
	return true
}

func recvTypeName(e ast.Expr) string {
	switch t := e.(type) {
	case *ast.StarExpr:
		return recvTypeName(t.X)
	case *ast.Ident:
		return t.Name
	case *ast.IndexExpr:
		return recvTypeName(t.X)
	case *ast.IndexListExpr:
		return recvTypeName(t.X)
	}
	return "?"
}

func load(dir, path string, fset *token.FileSet) *pkgInfo {
	ents, err := os.ReadDir(dir)
	if err != nil {
		fail("read %s: %v", dir, err)
	}
	p := &pkgInfo{fset: fset, funcs: map[string]*ast.FuncDecl{}}
	for _, e := range ents {
		n := e.Name()
		if e.IsDir() || !strings.HasSuffix(n, ".go") || strings.HasSuffix(n, "_test.go") {
			continue
		}
		f, err := parser.ParseFile(fset, filepath.Join(dir, n), nil, parser.ParseComments)
		if err != nil {
			fail("parse %s: %v", n, err)
		}
		if !buildOK(f) {
			continue
		}
		p.files = append(p.files, f)
		for _, d := range f.Decls {
			if fd, ok := d.(*ast.FuncDecl); ok {
				name := fd.Name.Name
				if fd.Recv != nil && len(fd.Recv.List) == 1 {
					name = recvTypeName(fd.Recv.List[0].Type) + "." + name
				}
				p.funcs[name] = fd
			}
		}
	}
	old, _ := os.Getwd()
	_ = os.Chdir(dir)
	defer os.Chdir(old)
	var errs []string
	conf := types.Config{Importer: importer.ForCompiler(fset, "source", nil), Error: func(err error) { errs = append(errs, err.Error()) }}
	p.info = &types.Info{Types: map[ast.Expr]types.TypeAndValue{}, Uses: map[*ast.Ident]types.Object{}, Defs: map[*ast.Ident]types.Object{},
		Selections: map[*ast.SelectorExpr]*types.Selection{}}
	p.pkg, _ = conf.Check(path, fset, p.files, p.info)
	if len(errs) > 0 {
		fail("type errors in %s: %s", dir, strings.Join(errs[:min(3, len(errs))], "; "))
	}
	p.name = p.pkg.Name()
	return p
}

// ---------------------------------------------------------------------------------------------------

type target struct {
	pkg      string            // "gws" | "internal"
	fn       string            // "frameHeader.GetFIN"
	lean     string            // Lean name (inside namespace Trans)
	toAfter   string           // segment: ends behind the first statement with this source prefix (instead of `to`)
	fromAfter string           // segment: starts behind the first statement with this source prefix (instead of `from`)
	from, to string            // segment: source prefix of the first statement / of the first statement NOT included ("" = whole body)
	oracles  map[string]string // source text of a call -> parameter name (the call's value is an input)
	liveOut  []string          // segment: variables handed on at fall-through
	skip     []string          // statements (by source prefix) left out: they do not change any translated value
	free     map[string][]string // callee text -> names of the fields of a struct-literal argument, in the order they are passed:
	// a call `return callee(args)` is left uninterpreted — the definition is polymorphic in a result type `R`, takes the callee
	// as a function into `R` and an injection `ret` of ordinary results into `R`
	ignore   map[string]bool   // variables whose values the translation does not follow (e.g. the text of an error): assignments to
	// them are dropped, reading them is refused
	fresh    map[string]bool   // *bytes.Buffer variables that come straight from the pool: `X.Bytes()[:n]` (a slice of the
	// buffer's spare capacity, whose old contents are unspecified) is n zero bytes — sound where every byte is overwritten
	// before it is read (the ReadN that follows), as in readMessage
	funs     map[string]int    // callee text -> index of the *bytes.Buffer argument it writes to: the callee is a function parameter
	// `args → (new buffer × result)` (an input of the definition, like an oracle, but depending on its arguments)
	fromLit  string              // segment anchor: the segment starts with the first statement of the function literal inside the statement with this prefix
	freeStmt map[string][]string // like free, for calls in statement position: the function parameter takes the call's arguments
	calls    map[string]bool     // callee text -> the callee is a function parameter applied to the translated arguments (a struct literal argument is flattened into its fields); its results are bound by `a, b := callee(…)`
	// and the result of everything that follows (`callee args rest : R`)
	negoStr bool // Go `string` is `Nego.Str` (List Char, one Char per byte) and `[]string` is `List Nego.Str` in this target; string
	// constants are `"…".toList`, `+` is `++`, `==` is list equality, and the string-library calls are the negotiation model's own
	// primitives, which stay the TRUSTED reading of the Go library (sampled against the real functions by the differential suite):
	// internal.Split(·, ";") = Nego.split, strings.SplitN(·, "=", 2) = goSplitN2 (the list view of Nego.splitN2),
	// `x, _ := strconv.Atoi(·)` = Nego.atoi, strconv.Itoa = Nego.itoa, strings.Join = Nego.join
	doc string
}

var targets = []target{
	{pkg: "gws", fn: "frameHeader.GetFIN", lean: "frameHeader_GetFIN"},
	{pkg: "gws", fn: "frameHeader.GetRSV1", lean: "frameHeader_GetRSV1"},
	{pkg: "gws", fn: "frameHeader.GetRSV2", lean: "frameHeader_GetRSV2"},
	{pkg: "gws", fn: "frameHeader.GetRSV3", lean: "frameHeader_GetRSV3"},
	{pkg: "gws", fn: "frameHeader.GetOpcode", lean: "frameHeader_GetOpcode"},
	{pkg: "gws", fn: "frameHeader.GetMask", lean: "frameHeader_GetMask"},
	{pkg: "gws", fn: "frameHeader.GetLengthCode", lean: "frameHeader_GetLengthCode"},
	{pkg: "gws", fn: "Opcode.isDataFrame", lean: "Opcode_isDataFrame"},
	{pkg: "gws", fn: "Conn.checkMask", lean: "Conn_checkMask"},
	{pkg: "gws", fn: "frameHeader.Parse", lean: "frameHeader_Parse"},
	{pkg: "gws", fn: "frameHeader.SetLength", lean: "frameHeader_SetLength"},
	{pkg: "gws", fn: "frameHeader.GenerateHeader", lean: "frameHeader_GenerateHeader",
		oracles: map[string]string{"internal.AlphabetNumeric.Uint32()": "maskNum"}},
	{pkg: "gws", fn: "Conn.readMessage", lean: "Conn_readMessage_header",
		from: "if contentLength < 0", to: "var fin =", liveOut: []string{"opcode", "maskEnabled", "compressed"},
		oracles: map[string]string{"c.readControl()": "readControlResult"},
		doc:     "the header checks of readMessage between Parse and the payload read; the outcome of readControl is an input"},
	{pkg: "gws", fn: "continuationFrame.reset", lean: "continuationFrame_reset"},
	{pkg: "gws", fn: "Conn.readMessage", lean: "Conn_readMessage_afterPayload",
		fromAfter: "if maskEnabled { internal.MaskXOR(p", to: "",
		skip:      []string{"if !compressed { closer.Data = nil }"},
		free: map[string][]string{"c.emitMessage": {"Opcode", "Data", "compressed"}},
		doc:  "readMessage after the payload has been read and unmasked into buf/p: the fragmentation state machine; emitMessage is left uninterpreted (its arguments are what matters), `closer` (buffer recycling) is left out"},
	{pkg: "gws", fn: "Conn.readMessage", lean: "Conn_readMessage_payload",
		from: "var fin =", toAfter: "if maskEnabled { internal.MaskXOR(p",
		skip:  []string{"var closer =", "defer closer.Close()"},
		fresh: map[string]bool{"buf": true}, liveOut: []string{"fin", "p"},
		doc:   "readMessage: the payload of a data frame is read into a pooled buffer and unmasked (the buffer's recycling through `closer` is left out; a pooled buffer too small for the frame would panic in Go: that is Reader.dataFrame's panic outcome, which the model proves unreachable)"},
	{pkg: "gws", fn: "Conn.readControl", lean: "Conn_readControl_guards",
		from: "if !c.fh.GetFIN()", to: "var payload []byte", liveOut: []string{"n"},
		doc: "the two guards of readControl that precede the payload read"},
	{pkg: "gws", fn: "frameHeader.GetMaskKey", lean: "frameHeader_GetMaskKey"},
	{pkg: "gws", fn: "Message.Bytes", lean: "Message_Bytes"},
	{pkg: "gws", fn: "Conn.readControl", lean: "Conn_readControl_body",
		from: "var payload []byte", to: "",
		skip: []string{"var err = fmt.Errorf"},
		free:     map[string][]string{"c.emitClose": nil},
		freeStmt: map[string][]string{"c.handler.OnPing": nil, "c.handler.OnPong": nil},
		doc:      "readControl after its two guards: payload read and unmasking, then the dispatch on the opcode; the callbacks and emitClose are left uninterpreted"},
	{pkg: "gws", fn: "Conn.emitMessage", lean: "Conn_emitMessage",
		oracles: map[string]string{"c.deflater.Decompress(msg.Data, c.dpsWindow.dict)": "inflated"},
		free:    map[string][]string{"c.readQueue.Go": nil, "c.dispatch": nil},
		doc:     "emitMessage: inflate (the inflater's result is an input), window update, UTF-8 gate, then dispatch (left uninterpreted)"},
	{pkg: "gws", fn: "Conn.emitError", lean: "Conn_emitError_status",
		from: "var sendCode, sendErr =", to: "var reason =", liveOut: []string{"sendCode"},
		ignore: map[string]bool{"sendErr": true, "err": true},
		doc:    "the status code emitError puts into the Close frame it sends: 1001 for a write-side error, for a read-side error the status code itself, the code of an *internal.Error, or 1000 (the error TEXT behind the code is not followed)"},
	{pkg: "gws", fn: "Conn.emitClose", lean: "Conn_emitClose_body",
		from: "var responseCode =", to: "if atomic.CompareAndSwapUint32", liveOut: []string{"responseCode", "realCode"},
		doc: "everything emitClose computes from the body of a received Close frame (status reported, reason left in buf, status answered) before the closed-flag CAS"},
	{pkg: "gws", fn: "Conn.closeViaWrite", lean: "Conn_closeViaWrite_split",
		from: "var code =", to: "return c.WriteClose", liveOut: []string{"code", "body"},
		doc: "how a Close payload given to a generic write API is split into status and reason"},
	{pkg: "gws", fn: "Conn.WriteClose", lean: "Conn_WriteClose_body",
		from: "var buf = binaryPool.Get", to: "err := c.writeClose", liveOut: []string{"code", "buf"},
		doc: "the Close body a locally requested close builds (status raised to at least 1000, then the reason)"},
	{pkg: "gws", fn: "Conn.writeClose", lean: "Conn_writeClose_cut",
		from: "if len(reason) >", to: "c.ev.Store", liveOut: []string{"reason"},
		doc: "the cut of a Close body to the control-frame limit"},
	{pkg: "gws", fn: "Conn.genFrame", lean: "Conn_genFrame",
		free: map[string][]string{"c.compressData": nil},
		oracles: map[string]string{"internal.AlphabetNumeric.Uint32()": "maskNum"},
		doc: "genFrame for a payload given as its bytes: the checks, the padded buffer, header back-fill and masking of an uncompressed frame; compressData is left uninterpreted"},
	{pkg: "gws", fn: "Conn.doWrite", lean: "Conn_doWrite_head",
		fromAfter: "defer c.mu.Unlock()", to: "err = internal.WriteN(c.conn, frame.Bytes())",
		skip:      []string{`verifSched("w.write", c)`},
		oracles: map[string]string{"c.isClosed()": "closed"},
		calls:   map[string]bool{"c.genFrame": true},
		liveOut: []string{"frame"},
		doc:     "doWrite under the lock, up to the transport write: nothing but a Close frame passes once the connection is closed; the frame is built by genFrame as a final frame, compressed iff the extension is negotiated, UTF-8 checked iff configured"},
	{pkg: "gws", fn: "Broadcaster.writeFrame", lean: "Broadcaster_writeFrame_gate",
		from: "if socket.isClosed() {", to: "var err = internal.WriteN(socket.conn, frame.Bytes())",
		skip:    []string{`verifSched("b.write", socket)`},
		oracles: map[string]string{"socket.isClosed()": "closed"},
		liveOut: []string{},
		doc:     "Broadcaster.writeFrame under the connection's lock: the shared frame is not written once the connection is closed"},
	{pkg: "gws", fn: "flateWriter.Flush", lean: "flateWriter_Flush_stripTail",
		from: "if n := buf.Len(); n >= 4", to: "var err = c.cb(", liveOut: []string{"buf"},
		doc: "the removal of the sync-flush trailer 00 00 ff ff from the aggregated output of a streamed compressed message, before the last frame is built"},
	{pkg: "gws", fn: "Conn.doWriteFile", lean: "Conn_doWriteFile_frame",
		fromLit: "var cb = func(", to: "err = internal.WriteN(c.conn,",
		skip:    []string{`verifSched("f.check", c)`},
		oracles: map[string]string{"c.isClosed()": "closed"},
		calls:   map[string]bool{"c.genFrame": true},
		liveOut: []string{"frame"},
		doc:     "the callback of doWriteFile up to the transport write: frame `index` of a streamed message (Continuation behind the first, FIN on the last, RSV1 on the first when compression is negotiated, the closed test)"},
	{pkg: "gws", fn: "workerQueue.getJob", lean: "workerQueue_getJob",
		skip: []string{"c.mu.Lock()", "defer c.mu.Unlock()"},
		doc:  "the critical section of getJob (that it IS one Lock/defer Unlock region is the fact getJobLocks); jobs are numbers, the deque is the list of queued jobs"},
	{pkg: "gws", fn: "limitedReader.Read", lean: "limitedReader_Read",
		oracles: map[string]string{"c.R.Read(p)": "srcRead"},
		doc:     "the counting reader in front of the inflater; what the source's Read returned is an input"},
	{pkg: "gws", fn: "Conn.doWrite", lean: "Conn_doWrite_windowRule",
		from: "if opcode.isDataFrame() {", to: "binaryPool.Put(frame)",
		doc: "which payloads doWrite enters into the compression window: those of data frames only"},
	{pkg: "gws", fn: "Broadcaster.writeFrame", lean: "Broadcaster_writeFrame_windowRule",
		from: "if frame.Bytes()[0]&64 != 0 {", to: "return err",
		doc: "a broadcast payload enters the connection's compression window only when the shared frame is a compressed one (RSV1 set)"},
	{pkg: "gws", fn: "Conn.compressData", lean: "Conn_compressData",
		funs:    map[string]int{"c.deflater.Compress": 1},
		oracles: map[string]string{"internal.AlphabetNumeric.Uint32()": "maskNum"},
		doc:     "compressData: which dictionary the compressor gets (none for a broadcast frame), the header for the compressed size, masking and back-fill; deflater.Compress is a function parameter (payload, buffer, dictionary -> new buffer, error)"},
	{pkg: "gws", fn: "deflater.initialize", lean: "deflater_initialize_window",
		from: "windowBits :=", to: "return c",
		freeStmt: map[string][]string{"flate.NewWriter": nil, "flate.NewWriterWindow": nil},
		doc:      "which compressor a connection's deflater is built with: the library's default 32 KiB window only for 15 window bits, otherwise a compressor limited to 2^bits (the constructor calls are left uninterpreted: their arguments are what matters)"},
	{pkg: "gws", fn: "deflater.Compress", lean: "deflater_Compress_stripTail",
		from: "if n := dst.Len(); n >= 4", to: "return nil",
		doc: "the removal of the sync-flush trailer 00 00 ff ff from the compressor's output (RFC 7692 7.2.1)"},
	{pkg: "gws", fn: "ConcurrentMap.GetSharding", lean: "ConcurrentMap_shardIndex",
		from: "var index =", to: "return c.shardings", liveOut: []string{"index"},
		doc: "the shard a key belongs to, from its hash (an input) and the number of shards"},
	{pkg: "gws", fn: "PermessageDeflate.setThreshold", lean: "PermessageDeflate_setThreshold"},
	{pkg: "gws", fn: "Upgrader.getPermessageDeflate", lean: "Upgrader_getPermessageDeflate",
		skip:    []string{"clientPD := permessageNegotiation(extensions)"},
		oracles: map[string]string{"strings.Contains(extensions, internal.PermessageDeflate)": "offered"},
		doc:     "the parameters the server keeps for a connection: its own settings combined with what the client's offer (parsed by permessageNegotiation: an input, `clientPD_*`) asks for; `offered` = the offer names the extension"},
	{pkg: "gws", fn: "connector.getPermessageDeflate", lean: "connector_getPermessageDeflate",
		skip:    []string{"serverPD := permessageNegotiation(extensions)"},
		oracles: map[string]string{"strings.Contains(extensions, internal.PermessageDeflate)": "offered"},
		doc:     "the parameters the client keeps for a connection: its own settings and what the server's response (parsed by permessageNegotiation: an input, `serverPD_*`) says"},
	{pkg: "gws", fn: "initServerOption", lean: "initServerOption_limits",
		from: "if c.ReadMaxPayloadSize <= 0", to: "if c.Authorize == nil",
		doc: "the defaults initServerOption gives to the size limits and the parallelism"},
	{pkg: "gws", fn: "initServerOption", lean: "initServerOption_pd",
		from: "if c.PermessageDeflate.Enabled {", to: "c.deleteProtectedHeaders()",
		oracles: map[string]string{"internal.ToBinaryNumber(c.PermessageDeflate.PoolSize)": "poolSizePow2"},
		doc:     "the normalisation of the server's compression settings (the power-of-two rounding of the pool size is an input)"},
	{pkg: "gws", fn: "initClientOption", lean: "initClientOption_limits",
		from: "if c.ReadMaxPayloadSize <= 0", to: "if c.HandshakeTimeout <= 0",
		doc: "the defaults initClientOption gives to the size limits and the parallelism"},
	{pkg: "gws", fn: "initClientOption", lean: "initClientOption_pd",
		from: "if c.PermessageDeflate.Enabled {", to: "return c",
		doc: "the normalisation of the client's compression settings"},
	{pkg: "internal", fn: "InCollection", lean: "internal_InCollection"},
	{pkg: "internal", fn: "GetIntersectionElem", lean: "internal_GetIntersectionElem"},
	{pkg: "internal", fn: "HttpHeaderContainsToken", lean: "internal_HttpHeaderContainsToken"},
	{pkg: "gws", fn: "responseWriter.Init", lean: "responseWriter_Init",
		from: "c.b = binaryPool.Get", to: "return c",
		doc: "the status line and the two fixed header lines every 101 response starts with"},
	{pkg: "gws", fn: "responseWriter.WithHeader", lean: "responseWriter_WithHeader"},
	{pkg: "gws", fn: "responseWriter.WithSubProtocol", lean: "responseWriter_WithSubProtocol"},
	{pkg: "gws", fn: "Upgrader.doUpgradeFromConn", lean: "Upgrader_requestChecks",
		from: "if r.Method != http.MethodGet", to: "var rw =",
		doc: "the checks of the upgrade request (method, version, Connection token, Upgrade) that follow the authorisation callback"},
	{pkg: "gws", fn: "Upgrader.doUpgradeFromConn", lean: "Upgrader_keyAndAccept",
		from: "var websocketKey =", to: "rw.WithSubProtocol",
		doc: "the Sec-WebSocket-Key check and the Sec-WebSocket-Accept line of the response"},
	{pkg: "gws", fn: "ServerOption.deleteProtectedHeaders", lean: "ServerOption_deleteProtectedHeaders"},
	{pkg: "gws", fn: "connector.request", lean: "connector_request_headers",
		from: "r.Header.Set(internal.Connection.Key", to: "var ch = make",
		oracles: map[string]string{"c.option.PermessageDeflate.genRequestHeader()": "offer", "internal.AlphabetNumeric.Uint64()": "rnd"},
		doc:     "the fixed header fields of the upgrade request and the Sec-WebSocket-Key (16 bytes from the PRNG, base64); the configured headers were copied into r.Header before (an input), the extension offer is an input"},
	{pkg: "gws", fn: "connector.checkHeaders", lean: "connector_checkHeaders"},
	{pkg: "gws", fn: "connector.getSubProtocol", lean: "connector_getSubProtocol"},
	{pkg: "internal", fn: "CheckEncoding", lean: "internal_CheckEncoding"},
	{pkg: "internal", fn: "StatusCode.Bytes", lean: "StatusCode_Bytes"},
	{pkg: "internal", fn: "StatusCode.Uint16", lean: "StatusCode_Uint16"},
	{pkg: "gws", fn: "slideWindow.Write", lean: "slideWindow_Write"},
	{pkg: "internal", fn: "binaryCeil", lean: "internal_binaryCeil"},
	{pkg: "internal", fn: "Max", lean: "internal_Max"},
	{pkg: "internal", fn: "Min", lean: "internal_Min"},
	{pkg: "internal", fn: "BinaryPow", lean: "internal_BinaryPow"},
	{pkg: "gws", fn: "permessageNegotiation", lean: "permessageNegotiation", negoStr: true,
		doc: "the parser of a Sec-WebSocket-Extensions value: the defaults, one left fold over the `;`-separated parameters (the `switch pair[0]`), then both window sizes raised to at least 8; the result is the tuple of ALL fields of PermessageDeflate in declaration order (Enabled, Level, Threshold, PoolSize stay Go's zero values). Strings are Nego.Str; internal.Split, strings.SplitN, strconv.Atoi are the model's trusted primitives"},
	{pkg: "gws", fn: "PermessageDeflate.genRequestHeader", lean: "PermessageDeflate_genRequestHeader", negoStr: true,
		doc: "the extension offer a client sends: the option list built by the appends, joined by \"; \" (strings are Nego.Str; strconv.Itoa, strings.Join are the model's trusted primitives)"},
	{pkg: "gws", fn: "PermessageDeflate.genResponseHeader", lean: "PermessageDeflate_genResponseHeader", negoStr: true,
		doc: "the extension response a server sends: the option list built by the appends, joined by \"; \" (strings are Nego.Str; strconv.Itoa, strings.Join are the model's trusted primitives)"},
}

type translator struct {
	pkgs    map[string]*pkgInfo
	done    map[string]*result // key pkg.fn(+segment)
	order   []string
	byFunc  map[string]string // "gws.frameHeader.GetFIN" -> target key (whole-function targets only)
	targets map[string]target
	negoStr bool // the target being translated reads Go strings as Nego.Str (target.negoStr)
}

type param struct{ name, typ string }

type result struct {
	t          target
	params     []param  // in order: receiver value, declared params, path params, oracles
	pathParams []string // Go source paths, e.g. "c.config.ReadMaxPayloadSize" (parallel to the path params in params)
	recvName   string   // Go name of the receiver ("" if none / unused)
	nDeclared  int
	state      []string // names of threaded state returned in front of the results
	retType    string
	body       string
	hasRecvVal bool
	poly       bool
}

// ---------------------------------------------------------------------------------------------------

func (tr *translator) leanType(t types.Type) (string, bool) {
	switch u := t.Underlying().(type) {
	case *types.Basic:
		switch u.Kind() {
		case types.Bool, types.UntypedBool:
			return "Bool", true
		case types.Uint8:
			return "UInt8", true
		case types.Uint16:
			return "UInt16", true
		case types.Uint32:
			return "UInt32", true
		case types.Uint64:
			return "UInt64", true
		case types.Int, types.UntypedInt, types.Int32, types.Int64:
			return "Int", true // signed integers are unbounded here: the targets never rely on their overflow
		case types.String, types.UntypedString:
			if tr.negoStr {
				return "Nego.Str", true // a Go string is its bytes, one Char per byte (the negotiation model's strings)
			}
			return "Hs.Str", true // a Go string is its bytes
		}
	case *types.Slice:
		if b, ok := u.Elem().Underlying().(*types.Basic); ok && b.Kind() == types.Uint8 {
			return "(List UInt8)", true
		}
		if b, ok := u.Elem().Underlying().(*types.Basic); ok && b.Kind() == types.String {
			if tr.negoStr {
				return "(List Nego.Str)", true
			}
			return "(List Hs.Str)", true
		}
	case *types.Map:
		if t.String() == "net/http.Header" {
			return "Hs.Header", true
		}
	case *types.Array:
		if b, ok := u.Elem().Underlying().(*types.Basic); ok && b.Kind() == types.Uint8 {
			return "(List UInt8)", true
		}
	case *types.Pointer:
		return tr.leanType(u.Elem())
	case *types.Interface:
		if t.String() == "error" {
			return "(Option GoErr)", true
		}
		// an io.Reader is the bytes it will deliver (consumed by ReadN); a Payload is its concatenated bytes
		if t.String() == "io.Reader" || strings.HasSuffix(t.String(), "internal.Payload") {
			return "(List UInt8)", true
		}
	case *types.Struct:
		if isBuffer(t) {
			return "(List UInt8)", true
		}
		if isJobDeque(t) {
			return "(List Nat)", true
		}
		if n, ok := t.(*types.Named); ok && n.Obj().Name() == "Reader" && n.Obj().Pkg() != nil && n.Obj().Pkg().Path() == "bufio" {
			return "(List UInt8)", true // a *bufio.Reader consumed through ReadN: the bytes it will deliver
		}
	case *types.Signature:
		if n, ok := t.(*types.Named); ok && n.Obj().Name() == "asyncJob" {
			return "(Option Nat)", true // a job is identified by a number; nil is none
		}
	}
	return "", false
}

// internal.Deque[asyncJob] used through PushBack/PopFront: the list of queued job ids (C20: the deque is a sequence)
func isJobDeque(t types.Type) bool {
	if pt, ok := t.(*types.Pointer); ok {
		t = pt.Elem()
	}
	n, ok := t.(*types.Named)
	return ok && n.Obj().Name() == "Deque" && strings.Contains(t.String(), "asyncJob")
}

// *bytes.Buffer / bytes.Buffer: a value holding the unread bytes
func isBuffer(t types.Type) bool {
	if pt, ok := t.(*types.Pointer); ok {
		t = pt.Elem()
	}
	n, ok := t.(*types.Named)
	return ok && n.Obj().Name() == "Buffer" && n.Obj().Pkg() != nil && n.Obj().Pkg().Path() == "bytes"
}

func isBufio(t types.Type) bool {
	if pt, ok := t.(*types.Pointer); ok {
		t = pt.Elem()
	}
	n, ok := t.(*types.Named)
	return ok && n.Obj().Name() == "Reader" && n.Obj().Pkg() != nil && n.Obj().Pkg().Path() == "bufio"
}

func isStructType(t types.Type) bool {
	if pt, ok := t.Underlying().(*types.Pointer); ok {
		t = pt.Elem()
	}
	_, ok := t.Underlying().(*types.Struct)
	return ok
}

func isPayload(t types.Type) bool { return strings.HasSuffix(t.String(), "internal.Payload") }

func isStatusCode(t types.Type) bool {
	n, ok := t.(*types.Named)
	return ok && n.Obj().Name() == "StatusCode"
}

// fn is one function (or segment) being translated
type fn struct {
	loopK    cont // inside the body of a folded range loop: what `continue` yields (the accumulator)
	tr       *translator
	p        *pkgInfo
	decl     *ast.FuncDecl
	t        target
	recv     *types.Var // receiver object
	recvIsVal bool      // receiver is itself a value we thread (array / basic named type), not a struct
	pathSet  map[string]string // go path -> lean type
	pathOrd  []string
	oracleSet map[string]string // param name -> lean type
	oracleOrd []string
	state    map[string]bool // lean variable names that are written (threaded state)
	named    []string        // named results
	retTypes []string
	pre      []string // pending `let` lines hoisted out of the expression being translated
	tmp      int
	segment  bool
	noReturn bool
	locals   map[string]bool
	oracleSite  map[token.Pos]string // call site -> the input that stands for its value
	oracleCount map[string]int
	structRet bool             // the function returns a struct (as the tuple of its fields)
	copyAlias map[string]bool  // struct copies (`x := path`): read-only second names
	localStruct map[string][]string // `pd := T{F: e, …}` kept as a value: variable -> its fields (Lean locals pd_F)
	ptrAlias map[string]string // `cf := &c.continuationFrame`: a local pointer to a struct field path stands for that path
	stale    map[string]bool // ignored variables that have been assigned (their value is unknown from then on)
	tsBind   string          // inside a type-switch clause: which GoErr constructor the bound variable is the payload of
	freeCont map[string]bool // free callee parameters that take the continuation
	structTy map[string]string
	freeSig  map[string][]string // free callee parameter -> argument types
	freeOrd  []string
	structs  map[string][]string // local struct values (`msg := &Message{…}`): variable -> field names captured as msg_Field
	streams  map[string]bool   // Lean names of io.Reader values consumed by ReadN
	alias    map[string]string // Go variable that names the contents of a buffer variable (`contents := buf.Bytes()`) -> that variable
}

func (f *fn) src(n ast.Node) string {
	var sb strings.Builder
	_ = printer.Fprint(&sb, f.p.fset, n)
	return sb.String()
}

// stmtText: the statement on one line, without comments
func (f *fn) stmtText(s ast.Stmt) string {
	var keep []string
	for _, l := range strings.Split(f.src(s), "\n") {
		if i := strings.Index(l, "//"); i >= 0 {
			l = l[:i]
		}
		keep = append(keep, l)
	}
	return strings.Join(strings.Fields(strings.Join(keep, " ")), " ")
}

func (f *fn) bad(n ast.Node, why string) {
	fail("%s.%s: cannot translate `%s` (%s) at %s", f.p.name, f.t.fn, strings.Join(strings.Fields(f.src(n)), " "), why, f.p.fset.Position(n.Pos()))
}

func leanIdent(s string) string {
	s = strings.NewReplacer(".", "_", "(", "", ")", "", "*", "").Replace(s)
	switch s {
	case "end", "at", "from", "to", "open", "local", "fun", "match", "then", "else", "show", "have", "by", "in", "do", "let", "if", "this", "length":
		return s + "'"
	}
	return s
}

// pathOf returns the Go field path ("c.config.ReadMaxPayloadSize") if e is a chain of field selections rooted
// at the receiver or a parameter of struct type
func (f *fn) pathOf(e ast.Expr) (string, bool) {
	switch v := e.(type) {
	case *ast.ParenExpr:
		return f.pathOf(v.X)
	case *ast.StarExpr:
		return f.pathOf(v.X)
	case *ast.Ident:
		if f.localStruct[v.Name] != nil {
			return "", false
		}
		if pth, ok := f.ptrAlias[v.Name]; ok {
			return pth, true
		}
		if obj, ok := f.p.info.Uses[v].(*types.Var); ok && !obj.IsField() {
			t := obj.Type()
			if pt, ok := t.Underlying().(*types.Pointer); ok {
				t = pt.Elem()
			}
			if _, ok := t.Underlying().(*types.Struct); ok && !isBuffer(t) && !isJobDeque(t) && !isBufio(t) {
				return v.Name, true
			}
		}
	case *ast.SelectorExpr:
		if sel, ok := f.p.info.Selections[v]; ok && sel.Kind() == types.FieldVal {
			if base, ok := f.pathOf(v.X); ok {
				return base + "." + v.Sel.Name, true
			}
		}
	}
	return "", false
}

func (f *fn) usePath(path string, t types.Type, n ast.Node) string {
	lt, ok := f.tr.leanType(t)
	if !ok {
		f.bad(n, "field of unsupported type "+t.String())
	}
	if _, seen := f.pathSet[path]; !seen {
		f.pathSet[path] = lt
		f.pathOrd = append(f.pathOrd, path)
	}
	return leanIdent(path)
}

func (f *fn) constant(tv types.TypeAndValue, n ast.Node) string {
	lt, ok := f.tr.leanType(tv.Type)
	if !ok {
		f.bad(n, "constant of unsupported type "+tv.Type.String())
	}
	switch tv.Value.Kind() {
	case constant.Bool:
		if constant.BoolVal(tv.Value) {
			return "true"
		}
		return "false"
	case constant.String:
		if f.t.negoStr {
			return strconvQuote(constant.StringVal(tv.Value)) + ".toList"
		}
		return fmt.Sprintf("(Sha1.asc %s)", strconvQuote(constant.StringVal(tv.Value)))
	case constant.Int:
		s := tv.Value.ExactString()
		if strings.HasPrefix(s, "-") {
			return "(" + s + " : " + lt + ")"
		}
		return "(" + s + " : " + lt + ")"
	}
	f.bad(n, "constant kind")
	return ""
}

func strconvQuote(s string) string {
	var sb strings.Builder
	sb.WriteByte('"')
	for _, r := range s {
		switch {
		case r == '"':
			sb.WriteString("\\\"")
		case r == '\\':
			sb.WriteString("\\\\")
		case r == '\r':
			sb.WriteString("\\r")
		case r == '\n':
			sb.WriteString("\\n")
		case r == '\t':
			sb.WriteString("\\t")
		case r >= 128 || r < 32:
			fail("string constant %q outside the ASCII the translation handles", s)
		default:
			sb.WriteRune(r)
		}
	}
	sb.WriteByte('"')
	return sb.String()
}

func bits(lt string) int {
	switch lt {
	case "UInt8":
		return 8
	case "UInt16":
		return 16
	case "UInt32":
		return 32
	case "UInt64":
		return 64
	}
	return 0
}

func (f *fn) typeOf(e ast.Expr) types.Type { return f.p.info.Types[e].Type }

func (f *fn) lt(e ast.Expr) string {
	s, ok := f.tr.leanType(f.typeOf(e))
	if !ok {
		f.bad(e, "unsupported type "+f.typeOf(e).String())
	}
	return s
}

// convert value v of Lean type `from` to Lean type `to` with Go's conversion semantics
func (f *fn) convert(v, from, to string, n ast.Node) string {
	if from == to {
		return v
	}
	fb, tb := bits(from), bits(to)
	switch {
	case fb > 0 && tb > 0:
		return fmt.Sprintf("(%s).to%s", v, to)
	case fb > 0 && to == "Int":
		if fb == 64 {
			return fmt.Sprintf("(goIntOfU64 %s)", v)
		}
		return fmt.Sprintf("(Int.ofNat (%s).toNat)", v)
	case from == "Int" && tb > 0:
		return fmt.Sprintf("(goUIntOfInt%d %s)", tb, v)
	}
	f.bad(n, "conversion "+from+" -> "+to)
	return ""
}

func (f *fn) expr(e ast.Expr) string {
	tv := f.p.info.Types[e]
	if tv.Value != nil {
		return f.constant(tv, e)
	}
	switch v := e.(type) {
	case *ast.ParenExpr:
		return "(" + f.expr(v.X) + ")"
	case *ast.StarExpr:
		return f.expr(v.X)
	case *ast.Ident:
		if v.Name == "nil" {
			if lt, ok := f.tr.leanType(tv.Type); ok && lt == "(List UInt8)" {
				return "([] : List UInt8)"
			}
			return "none"
		}
		if v.Name == "true" || v.Name == "false" {
			return v.Name
		}
		if path, ok := f.pathOf(v); ok {
			_ = path
			f.bad(e, "a struct used as a value")
		}
		if f.alias[v.Name] != "" {
			return f.alias[v.Name]
		}
		if f.t.ignore[v.Name] && (f.stale[v.Name] || !f.isInput(v)) {
			f.bad(e, "the value of an ignored variable is read after it was assigned")
		}
		if obj, ok := f.p.info.Uses[v].(*types.Var); ok {
			if obj.Parent() == f.p.pkg.Scope() { // a package-level variable
				if obj.Type().String() == "error" {
					return fmt.Sprintf("(some (GoErr.named %q))", v.Name)
				}
				if a, ok := obj.Type().Underlying().(*types.Array); ok && v.Name == "framePadding" {
					return fmt.Sprintf("(List.replicate %d (0 : UInt8))", a.Len())
				}
				f.bad(e, "package-level variable")
			}
			if obj == f.recv {
				f.recvIsVal = true
			} else {
				f.noteInput(v, obj)
			}
			return leanIdent(v.Name)
		}
		f.bad(e, "identifier")
	case *ast.SelectorExpr:
		if id, ok := v.X.(*ast.Ident); ok && f.tsBind == "coded" && v.Sel.Name == "Code" && f.locals[id.Name] {
			if _, isVar := f.p.info.Uses[id].(*types.Var); isVar && strings.HasSuffix(f.typeOf(v.X).String(), "internal.Error") {
				return leanIdent(id.Name) + "_Code"
			}
		}
		if id, ok := v.X.(*ast.Ident); ok && f.localStruct[id.Name] != nil {
			return leanIdent(id.Name) + "_" + v.Sel.Name
		}
		if path, ok := f.pathOf(v); ok {
			return f.usePath(path, tv.Type, e)
		}
		if str, ok := f.tr.pairField(v); ok {
			return fmt.Sprintf("(Sha1.asc %s)", strconvQuote(str))
		}
		f.bad(e, "selector")
	case *ast.IndexExpr:
		itv := f.p.info.Types[v.Index]
		if itv.Value == nil {
			f.bad(e, "index is not a constant")
		}
		if f.lt(v.X) == "(List Nego.Str)" { // out of range would panic in Go; totalised like goIdx
			return fmt.Sprintf("((%s).getD %s [])", f.expr(v.X), itv.Value.ExactString())
		}
		return fmt.Sprintf("(goIdx %s %s)", f.expr(v.X), itv.Value.ExactString())
	case *ast.SliceExpr:
		if c, ok := v.X.(*ast.CallExpr); ok && v.Low == nil && v.High != nil {
			if sel, ok := c.Fun.(*ast.SelectorExpr); ok && sel.Sel.Name == "Bytes" {
				if id, ok := sel.X.(*ast.Ident); ok && f.t.fresh[id.Name] && isBuffer(f.typeOf(sel.X)) {
					return fmt.Sprintf("(List.replicate (%s).toNat (0 : UInt8))", f.expr(v.High))
				}
			}
		}
		x := f.expr(v.X)
		if v.Slice3 {
			f.bad(e, "3-index slice")
		}
		if v.High != nil {
			x = fmt.Sprintf("(%s.take (%s).toNat)", x, f.expr(v.High))
		}
		if v.Low != nil {
			x = fmt.Sprintf("(%s.drop (%s).toNat)", x, f.expr(v.Low))
		}
		return x
	case *ast.UnaryExpr:
		x := f.expr(v.X)
		switch v.Op {
		case token.NOT:
			return "(!" + x + ")"
		case token.SUB:
			if f.lt(v.X) == "Int" {
				return "(-" + x + ")"
			}
		}
		f.bad(e, "unary operator")
	case *ast.BinaryExpr:
		return f.binary(v)
	case *ast.CallExpr:
		return f.call(v)
	case *ast.CompositeLit:
		if f.lt(e) != "(List UInt8)" {
			f.bad(e, "composite literal of this type")
		}
		if a, ok := f.typeOf(e).Underlying().(*types.Array); ok && len(v.Elts) == 0 {
			return fmt.Sprintf("(List.replicate %d (0 : UInt8))", a.Len())
		}
		if _, ok := f.typeOf(e).Underlying().(*types.Array); ok {
			f.bad(e, "array literal with elements")
		}
		var elts []string
		for _, el := range v.Elts {
			if _, ok := el.(*ast.KeyValueExpr); ok {
				f.bad(e, "keyed literal")
			}
			elts = append(elts, f.expr(el))
		}
		return "[" + strings.Join(elts, ", ") + "]"
	}
	f.bad(e, "expression form")
	return ""
}

// in a segment, a variable defined before the segment (a parameter of the function included) is an input
func (f *fn) noteInput(v *ast.Ident, obj *types.Var) {
	if !f.segment || f.locals[v.Name] || obj == f.recv || obj.IsField() {
		return
	}
	lt, ok := f.tr.leanType(obj.Type())
	if !ok {
		f.bad(v, "input of unsupported type")
	}
	if _, seen := f.oracleSet[v.Name]; !seen {
		f.oracleSet[v.Name] = lt
		f.oracleOrd = append(f.oracleOrd, v.Name)
	}
}

// isInput: the identifier names a parameter or (in a segment) a variable defined before the segment
func (f *fn) isInput(v *ast.Ident) bool {
	obj, ok := f.p.info.Uses[v].(*types.Var)
	return ok && (f.isParam(obj) || (f.segment && !f.locals[v.Name]))
}

func (f *fn) isParam(obj *types.Var) bool {
	if f.decl.Type.Params != nil {
		for _, fl := range f.decl.Type.Params.List {
			for _, id := range fl.Names {
				if f.p.info.Defs[id] == obj {
					return true
				}
			}
		}
	}
	return obj == f.recv
}

func (f *fn) binary(v *ast.BinaryExpr) string {
	lt := f.lt(v.X)
	x := f.expr(v.X)
	// error comparisons: `err != nil`
	if strings.HasPrefix(lt, "(Option ") {
		y := f.expr(v.Y)
		switch v.Op {
		case token.NEQ:
			return fmt.Sprintf("(%s != %s)", x, y)
		case token.EQL:
			return fmt.Sprintf("(%s == %s)", x, y)
		}
		f.bad(v, "operator on errors")
	}
	if v.Op == token.SHL || v.Op == token.SHR {
		ktv := f.p.info.Types[v.Y]
		if ktv.Value == nil {
			f.bad(v, "shift by a non-constant")
		}
		k, _ := constant.Int64Val(ktv.Value)
		if b := bits(lt); b > 0 {
			if int(k) >= b {
				f.bad(v, "shift count not below the width")
			}
			op := "<<<"
			if v.Op == token.SHR {
				op = ">>>"
			}
			return fmt.Sprintf("(%s %s (%d : %s))", x, op, k, lt)
		}
		if lt == "Int" {
			if v.Op == token.SHL {
				return fmt.Sprintf("(%s * (2 ^ %d : Int))", x, k)
			}
			return fmt.Sprintf("(%s / (2 ^ %d : Int))", x, k) // Int `/` with a positive divisor is floor division = arithmetic shift
		}
		f.bad(v, "shift on this type")
	}
	y := f.expr(v.Y)
	isU := bits(lt) > 0
	switch v.Op {
	case token.LAND:
		return fmt.Sprintf("(%s && %s)", x, y)
	case token.LOR:
		return fmt.Sprintf("(%s || %s)", x, y)
	case token.EQL:
		return fmt.Sprintf("(%s == %s)", x, y)
	case token.NEQ:
		return fmt.Sprintf("(%s != %s)", x, y)
	case token.LSS:
		return fmt.Sprintf("(decide (%s < %s))", x, y)
	case token.LEQ:
		return fmt.Sprintf("(decide (%s ≤ %s))", x, y)
	case token.GTR:
		return fmt.Sprintf("(decide (%s > %s))", x, y)
	case token.GEQ:
		return fmt.Sprintf("(decide (%s ≥ %s))", x, y)
	case token.ADD:
		if isU || lt == "Int" {
			return fmt.Sprintf("(%s + %s)", x, y)
		}
		if lt == "Nego.Str" { // string concatenation
			return fmt.Sprintf("(%s ++ %s)", x, y)
		}
	case token.SUB:
		if isU || lt == "Int" {
			return fmt.Sprintf("(%s - %s)", x, y)
		}
	case token.MUL:
		if isU || lt == "Int" {
			return fmt.Sprintf("(%s * %s)", x, y)
		}
	case token.QUO:
		if isU {
			return fmt.Sprintf("(%s / %s)", x, y)
		}
		if lt == "Int" {
			return fmt.Sprintf("(Int.tdiv %s %s)", x, y)
		}
	case token.REM:
		if isU {
			return fmt.Sprintf("(%s %% %s)", x, y)
		}
		if lt == "Int" {
			return fmt.Sprintf("(Int.tmod %s %s)", x, y)
		}
	case token.AND:
		if isU {
			return fmt.Sprintf("(%s &&& %s)", x, y)
		}
	case token.OR:
		if isU {
			return fmt.Sprintf("(%s ||| %s)", x, y)
		}
	case token.XOR:
		if isU {
			return fmt.Sprintf("(%s ^^^ %s)", x, y)
		}
	}
	f.bad(v, "operator "+v.Op.String()+" on "+lt)
	return ""
}

// pairField: `internal.Connection.Key` — a field of a package-level `Pair{"…", "…"}` value of the internal package
// (these header names are never assigned: internal/others.go declares them once)
func (tr *translator) pairField(v *ast.SelectorExpr) (string, bool) {
	inner, ok := v.X.(*ast.SelectorExpr)
	var name string
	if ok {
		if id, ok := inner.X.(*ast.Ident); !ok || id.Name != "internal" {
			return "", false
		}
		name = inner.Sel.Name
	} else if id, ok := v.X.(*ast.Ident); ok {
		name = id.Name
	} else {
		return "", false
	}
	for _, file := range tr.pkgs["internal"].files {
		for _, d := range file.Decls {
			gd, ok := d.(*ast.GenDecl)
			if !ok || gd.Tok != token.VAR {
				continue
			}
			for _, sp := range gd.Specs {
				vs := sp.(*ast.ValueSpec)
				for i, id := range vs.Names {
					if id.Name != name || i >= len(vs.Values) {
						continue
					}
					cl, ok := vs.Values[i].(*ast.CompositeLit)
					if !ok || len(cl.Elts) != 2 {
						return "", false
					}
					idx := map[string]int{"Key": 0, "Val": 1}[v.Sel.Name]
					if lit, ok := cl.Elts[idx].(*ast.BasicLit); ok && lit.Kind == token.STRING {
						s, err := strconv.Unquote(lit.Value)
						return s, err == nil
					}
				}
			}
		}
	}
	return "", false
}

func funcKey(fo *types.Func) string {
	sig := fo.Type().(*types.Signature)
	name := fo.Name()
	if r := sig.Recv(); r != nil {
		t := r.Type()
		if pt, ok := t.(*types.Pointer); ok {
			t = pt.Elem()
		}
		if n, ok := t.(*types.Named); ok {
			name = n.Obj().Name() + "." + name
		}
	}
	return fo.Pkg().Name() + "." + name
}

func (f *fn) call(c *ast.CallExpr) string {
	text := strings.Join(strings.Fields(f.src(c)), "")
	for src, pname := range f.t.oracles {
		if strings.Join(strings.Fields(src), "") == text {
			lt := f.lt(c)
			// every call SITE is its own input (two draws from a PRNG are two values); the same site reached again through a
			// duplicated continuation keeps its name
			name, ok := f.oracleSite[c.Pos()]
			if !ok {
				f.oracleCount[pname]++
				name = pname
				if n := f.oracleCount[pname]; n > 1 {
					name = fmt.Sprintf("%s_%d", pname, n)
				}
				f.oracleSite[c.Pos()] = name
			}
			if _, seen := f.oracleSet[name]; !seen {
				f.oracleSet[name] = lt
				f.oracleOrd = append(f.oracleOrd, name)
			}
			return name
		}
	}
	// conversion
	if tv, ok := f.p.info.Types[c.Fun]; ok && tv.IsType() && len(c.Args) == 1 {
		to, ok := f.tr.leanType(tv.Type)
		if !ok {
			f.bad(c, "conversion to unsupported type")
		}
		if to == "(Option GoErr)" { // error(x) with x a status code
			if isStatusCode(f.typeOf(c.Args[0])) {
				return fmt.Sprintf("(some (GoErr.status %s))", f.expr(c.Args[0]))
			}
			f.bad(c, "conversion to error")
		}
		return f.convert(f.expr(c.Args[0]), f.lt(c.Args[0]), to, c)
	}
	// builtins
	if id, ok := c.Fun.(*ast.Ident); ok {
		if _, isB := f.p.info.Uses[id].(*types.Builtin); isB {
			switch id.Name {
			case "len":
				return fmt.Sprintf("(Int.ofNat (%s).length)", f.expr(c.Args[0]))
			case "make":
				if f.lt(c) == "(List Nego.Str)" && len(c.Args) >= 2 {
					if tv := f.p.info.Types[c.Args[1]]; tv.Value != nil && tv.Value.ExactString() == "0" {
						return "([] : List Nego.Str)"
					}
				}
				if f.lt(c) == "(List UInt8)" && len(c.Args) >= 2 {
					if tv := f.p.info.Types[c.Args[1]]; tv.Value != nil && tv.Value.ExactString() == "0" {
						return "([] : List UInt8)"
					}
					return fmt.Sprintf("(List.replicate (%s).toNat (0 : UInt8))", f.expr(c.Args[1]))
				}
			case "append":
				if len(c.Args) == 2 && c.Ellipsis.IsValid() {
					return fmt.Sprintf("(%s ++ %s)", f.expr(c.Args[0]), f.expr(c.Args[1]))
				}
				if len(c.Args) == 2 {
					return fmt.Sprintf("(%s ++ [%s])", f.expr(c.Args[0]), f.expr(c.Args[1]))
				}
			}
			f.bad(c, "builtin")
		}
	}
	// bytes.Buffer values, the buffer pool, payloads
	if sel, ok := c.Fun.(*ast.SelectorExpr); ok {
		rt := f.typeOf(sel.X)
		if rt != nil && isJobDeque(rt) && sel.Sel.Name == "PopFront" {
			q := f.lvalueName(sel.X)
			f.tmp++
			tmp := fmt.Sprintf("r%d", f.tmp)
			f.pre = append(f.pre, fmt.Sprintf("let %s := %s.head?", tmp, q), fmt.Sprintf("let %s := %s.tail", q, q))
			return tmp
		}
		if rt != nil && isBuffer(rt) {
			switch sel.Sel.Name {
			case "Len":
				return fmt.Sprintf("(Int.ofNat (%s).length)", f.expr(sel.X))
			case "Bytes":
				return f.expr(sel.X)
			}
			f.bad(c, "bytes.Buffer method in an expression")
		}
		if rt != nil && isPayload(rt) {
			switch sel.Sel.Name {
			case "Len":
				return fmt.Sprintf("(Int.ofNat (%s).length)", f.expr(sel.X))
			case "CheckEncoding": // Bytes / Buffers: the whole payload is checked (C16)
				r := f.tr.translate("internal.CheckEncoding")
				return fmt.Sprintf("(Trans.%s %s %s %s)", r.t.lean, f.expr(c.Args[0]), f.expr(c.Args[1]), f.expr(sel.X))
			}
			f.bad(c, "Payload method in an expression")
		}
	}
	fname := text[:min(len(text), strings.Index(text+"(", "("))]
	argText := func(i int) string { return strings.Join(strings.Fields(f.src(c.Args[i])), "") }
	switch {
	case f.t.negoStr && (fname == "internal.Split" || fname == "Split") && len(c.Args) == 2 && argText(1) == `";"`:
		return fmt.Sprintf("(Nego.split %s)", f.expr(c.Args[0]))
	case f.t.negoStr && fname == "strings.SplitN" && len(c.Args) == 3 && argText(1) == `"="` && argText(2) == "2":
		return fmt.Sprintf("(goSplitN2 %s)", f.expr(c.Args[0]))
	case f.t.negoStr && fname == "strconv.Itoa":
		return fmt.Sprintf("(Nego.itoa %s)", f.expr(c.Args[0]))
	case f.t.negoStr && fname == "strings.Join" && len(c.Args) == 2:
		return fmt.Sprintf("(Nego.join %s %s)", f.expr(c.Args[1]), f.expr(c.Args[0]))
	case (fname == "internal.WithDefault" || fname == "WithDefault" || strings.HasPrefix(fname, "internal.WithDefault[")) && len(c.Args) == 2 && f.lt(c.Args[0]) == "Int":
		// WithDefault[T comparable](raw, new): new if raw is T's zero value, else raw
		return fmt.Sprintf("(if (%s == (0 : Int)) then %s else %s)", f.expr(c.Args[0]), f.expr(c.Args[1]), f.expr(c.Args[0]))
	case fname == "base64.StdEncoding.EncodeToString":
		return fmt.Sprintf("(Base64.encode %s)", f.expr(c.Args[0]))
	case fname == "strings.Join" && strings.Join(strings.Fields(f.src(c.Args[1])), "") == `","`:
		return fmt.Sprintf("(Hs.joinComma %s)", f.expr(c.Args[0]))
	case fname == "errors.New":
		if lit, ok := c.Args[0].(*ast.BasicLit); ok {
			return fmt.Sprintf("(some (GoErr.named %s))", lit.Value)
		}
	case fname == "strings.EqualFold":
		return fmt.Sprintf("(Hs.foldEq %s %s)", f.expr(c.Args[0]), f.expr(c.Args[1]))
	case (fname == "internal.Split" || fname == "Split") && len(c.Args) == 2 && strings.Join(strings.Fields(f.src(c.Args[1])), "") == `","`:
		return fmt.Sprintf("(Hs.split %s)", f.expr(c.Args[0]))
	case fname == "internal.ComputeAcceptKey":
		return fmt.Sprintf("(Hs.acceptKey %s)", f.expr(c.Args[0]))
	case fname == "fmt.Errorf": // only the identity of the error matters: it is named by its format string
		if lit, ok := c.Args[0].(*ast.BasicLit); ok {
			name, _ := strconv.Unquote(lit.Value)
			for _, a := range c.Args[1:] {
				name += "|" + strings.Join(strings.Fields(f.src(a)), "")
			}
			return fmt.Sprintf("(some (GoErr.named %q))", name)
		}
	case strings.HasSuffix(fname, ".Header.Get") || strings.HasSuffix(fname, "Header.Get"):
		return fmt.Sprintf("(Hs.get %s %s)", f.expr(c.Fun.(*ast.SelectorExpr).X), f.expr(c.Args[0]))
	case strings.HasSuffix(fname, ".Header.Values") || strings.HasSuffix(fname, "Header.Values"):
		return fmt.Sprintf("(Hs.vals %s %s)", f.expr(c.Fun.(*ast.SelectorExpr).X), f.expr(c.Args[0]))
	case fname == "internal.NewError": // an *internal.Error: only its status code matters to the caller (emitError)
		return fmt.Sprintf("(some (GoErr.coded %s))", f.expr(c.Args[0]))
	case fname == "binaryPool.Get":
		return "([] : List UInt8)"
	case fname == "bytes.NewBuffer":
		return f.expr(c.Args[0])
	case fname == "utf8.Valid":
		return fmt.Sprintf("(goUtf8Valid %s)", f.expr(c.Args[0]))
	case fname == "internal.SelectValue" || fname == "SelectValue" || strings.HasPrefix(fname, "internal.SelectValue["):
		return fmt.Sprintf("(if %s then %s else %s)", f.expr(c.Args[0]), f.expr(c.Args[1]), f.expr(c.Args[2]))
	}
	// encoding/binary getters
	switch text[:min(len(text), strings.Index(text+"(", "("))] {
	case "binary.BigEndian.Uint16":
		return fmt.Sprintf("(goU16BE %s)", f.expr(c.Args[0]))
	case "binary.BigEndian.Uint64":
		return fmt.Sprintf("(goU64BE %s)", f.expr(c.Args[0]))
	case "binary.BigEndian.Uint32":
		return fmt.Sprintf("(goU32BE %s)", f.expr(c.Args[0]))
	}
	// a translated function or method
	var fo *types.Func
	var recvExpr ast.Expr
	switch fun := c.Fun.(type) {
	case *ast.Ident:
		fo, _ = f.p.info.Uses[fun].(*types.Func)
	case *ast.SelectorExpr:
		if sel, ok := f.p.info.Selections[fun]; ok && sel.Kind() == types.MethodVal {
			fo, _ = sel.Obj().(*types.Func)
			recvExpr = fun.X
		} else {
			fo, _ = f.p.info.Uses[fun.Sel].(*types.Func)
		}
	}
	if fo == nil {
		f.bad(c, "call of something that is not a declared function")
	}
	key := funcKey(fo)
	tk, ok := f.tr.byFunc[key]
	if !ok {
		f.bad(c, "call of "+key+", which is not a translation target")
	}
	r := f.tr.translate(tk)
	var args []string
	if r.hasRecvVal {
		args = append(args, f.expr(recvExpr))
	}
	for _, a := range c.Args {
		args = append(args, f.expr(a))
	}
	// the callee's field paths, re-rooted at the receiver expression of this call
	localRecv := ""
	if id, ok := recvExpr.(*ast.Ident); ok && f.localStruct[id.Name] != nil {
		localRecv = id.Name
	}
	for _, pp := range r.pathParams {
		rest := strings.TrimPrefix(pp, r.recvName)
		if localRecv != "" { // the receiver is a struct built in this function: its fields are plain locals
			args = append(args, leanIdent(localRecv)+"_"+strings.TrimPrefix(rest, "."))
			continue
		}
		base, ok := f.pathOf(recvExpr)
		if !ok {
			f.bad(c, "callee reads fields of a receiver that is not a field path here")
		}
		full := base + rest
		lt := ""
		for _, prm := range r.params {
			if prm.name == leanIdent(pp) {
				lt = prm.typ
			}
		}
		if _, seen := f.pathSet[full]; !seen {
			f.pathSet[full] = lt
			f.pathOrd = append(f.pathOrd, full)
		}
		args = append(args, leanIdent(full))
	}
	// the callee's own inputs (values of calls it leaves open, e.g. the PRNG) become inputs of the caller
	for _, prm := range r.params[r.nDeclared+len(r.pathParams):] {
		if _, seen := f.oracleSet[prm.name]; !seen {
			f.oracleSet[prm.name] = prm.typ
			f.oracleOrd = append(f.oracleOrd, prm.name)
		}
		args = append(args, prm.name)
	}
	if len(r.params) != len(args) {
		f.bad(c, fmt.Sprintf("callee %s wants %d arguments (%v), call site provides %d", key, len(r.params), r.params, len(args)))
	}
	app := "(Trans." + r.t.lean
	for _, a := range args {
		app += " " + a
	}
	app += ")"
	if len(r.state) == 0 {
		return app
	}
	if !r.hasRecvVal { // the callee assigns fields of its receiver: rebind the same fields of the receiver expression here
		base, ok := f.pathOf(recvExpr)
		if !ok && localRecv == "" {
			f.bad(c, "callee assigns fields of a receiver that is not a field path here")
		}
		var names []string
		for _, st := range r.state {
			found := false
			for _, pp := range r.pathParams {
				if leanIdent(pp) == st {
					if localRecv != "" {
						names = append(names, leanIdent(localRecv)+"_"+strings.TrimPrefix(strings.TrimPrefix(pp, r.recvName), "."))
						found = true
						continue
					}
					full := base + strings.TrimPrefix(pp, r.recvName)
					names = append(names, leanIdent(full))
					f.state[leanIdent(full)] = true
					found = true
				}
			}
			if !found {
				f.bad(c, "callee state "+st+" is not a field of its receiver")
			}
		}
		if r.retType != "" { // results come behind the state
			f.tmp++
			tmp := fmt.Sprintf("r%d", f.tmp)
			f.pre = append(f.pre, fmt.Sprintf("let (%s, %s) := %s", strings.Join(names, ", "), tmp, app))
			return tmp
		}
		f.pre = append(f.pre, fmt.Sprintf("let %s := %s", tuple(names), app))
		return "()"
	}
	// the callee returns its new receiver value first: hoist the call, rebind the receiver here
	if len(r.state) != 1 {
		f.bad(c, "callee threads state other than its receiver value")
	}
	target := f.lvalueName(recvExpr)
	f.tmp++
	tmp := fmt.Sprintf("r%d", f.tmp)
	if r.retType == "" {
		f.pre = append(f.pre, fmt.Sprintf("let %s := %s", target, app))
		return "()"
	}
	f.pre = append(f.pre, fmt.Sprintf("let (%s, %s) := %s", target, tmp, app))
	return tmp
}

// lvalueName: the Lean variable that holds the Go variable / field path / dereferenced receiver `e`
func (f *fn) lvalueName(e ast.Expr) string {
	switch v := e.(type) {
	case *ast.ParenExpr:
		return f.lvalueName(v.X)
	case *ast.StarExpr:
		return f.lvalueName(v.X)
	case *ast.Ident:
		if a := f.alias[v.Name]; a != "" {
			return a
		}
		if obj, ok := f.p.info.Uses[v].(*types.Var); ok {
			if obj == f.recv {
				f.recvIsVal = true
				f.state[leanIdent(v.Name)] = true
			} else {
				f.noteInput(v, obj)
				if f.isParam(obj) && isBuffer(obj.Type()) { // the caller sees what is done to a *bytes.Buffer parameter
					f.state[leanIdent(v.Name)] = true
				}
			}
			return leanIdent(v.Name)
		}
		if _, ok := f.p.info.Defs[v]; ok {
			return leanIdent(v.Name)
		}
	case *ast.CallExpr:
		// `buf.Bytes()[i] = x`: the slice Bytes() returns shares the buffer's memory: an element store is a store into the buffer
		if sel, ok := v.Fun.(*ast.SelectorExpr); ok && sel.Sel.Name == "Bytes" && len(v.Args) == 0 {
			if t := f.typeOf(sel.X); t != nil && isBuffer(t) {
				return f.lvalueName(sel.X)
			}
		}
	case *ast.SelectorExpr:
		if id, ok := v.X.(*ast.Ident); ok && f.copyAlias[id.Name] {
			f.bad(e, "assignment to a field of a struct copy")
		}
		if id, ok := v.X.(*ast.Ident); ok && f.localStruct[id.Name] != nil {
			return leanIdent(id.Name) + "_" + v.Sel.Name // a field of a struct built in this function: a plain local
		}
		if path, ok := f.pathOf(v); ok {
			name := f.usePath(path, f.typeOf(v), e)
			f.state[name] = true
			return name
		}
	}
	f.bad(e, "assignment target")
	return ""
}

// ---------------------------------------------------------------------------------------------------
// statements

type cont func() string

func hasReturn(n ast.Node) bool {
	found := false
	ast.Inspect(n, func(x ast.Node) bool {
		if _, ok := x.(*ast.ReturnStmt); ok {
			found = true
		}
		if b, ok := x.(*ast.BranchStmt); ok && b.Tok == token.CONTINUE { // leaves the body of a folded loop early: like a return
			found = true
		}
		if _, ok := x.(*ast.FuncLit); ok {
			return false
		}
		return true
	})
	return found
}

// hasFreeStmt: n contains a call that is left uninterpreted in statement position (it takes the rest of the function as
// its continuation, so an enclosing `if` has to duplicate that rest into its branches)
func (f *fn) hasFreeStmt(n ast.Node) bool {
	found := false
	ast.Inspect(n, func(x ast.Node) bool {
		if c, ok := x.(*ast.CallExpr); ok {
			if _, ok := f.t.freeStmt[strings.Join(strings.Fields(f.src(c.Fun)), "")]; ok {
				found = true
			}
		}
		return true
	})
	return found
}

func (f *fn) flush(sb *strings.Builder) {
	for _, l := range f.pre {
		sb.WriteString(l + "\n")
	}
	f.pre = nil
}

// assigned: Lean names of variables (declared outside n) that n assigns
func (f *fn) assigned(n ast.Node) []string {
	declared := map[string]bool{}
	set := map[string]bool{}
	var note func(e ast.Expr)
	note = func(e ast.Expr) {
		switch v := e.(type) {
		case *ast.IndexExpr:
			note(v.X)
		case *ast.SliceExpr:
			note(v.X)
		case *ast.ParenExpr:
			note(v.X)
		case *ast.StarExpr:
			note(v.X)
		case *ast.CallExpr: // buf.Bytes()[i] = x
			if sel, ok := v.Fun.(*ast.SelectorExpr); ok && sel.Sel.Name == "Bytes" && len(v.Args) == 0 {
				if t := f.typeOf(sel.X); t != nil && isBuffer(t) {
					note(sel.X)
				}
			}
		case *ast.Ident:
			if v.Name != "_" && !f.t.ignore[v.Name] && (!declared[v.Name] || f.alias[v.Name] != "") {
				set[f.lvalueName(v)] = true
			}
		case *ast.SelectorExpr:
			set[f.lvalueName(v)] = true
		}
	}
	ast.Inspect(n, func(x ast.Node) bool {
		if c, ok := x.(*ast.CallExpr); ok {
			if sel, ok := c.Fun.(*ast.SelectorExpr); ok && sel.Sel.Name == "PopFront" {
				if rt := f.typeOf(sel.X); rt != nil && isJobDeque(rt) {
					note(sel.X)
				}
			}
			// a translated method that threads state (its receiver value, or fields of its receiver)
			if sel, ok := c.Fun.(*ast.SelectorExpr); ok {
				if s2, ok := f.p.info.Selections[sel]; ok && s2.Kind() == types.MethodVal {
					if tk, ok := f.tr.byFunc[funcKey(s2.Obj().(*types.Func))]; ok {
						r := f.tr.translate(tk)
						if len(r.state) > 0 && r.hasRecvVal {
							note(sel.X)
						} else if id, isId := sel.X.(*ast.Ident); len(r.state) > 0 && isId && f.localStruct[id.Name] != nil {
							for _, stn := range r.state {
								for _, pp := range r.pathParams {
									if leanIdent(pp) == stn {
										set[leanIdent(id.Name)+"_"+strings.TrimPrefix(strings.TrimPrefix(pp, r.recvName), ".")] = true
									}
								}
							}
						} else if len(r.state) > 0 {
							if base, ok := f.pathOf(sel.X); ok {
								for _, stn := range r.state {
									for _, pp := range r.pathParams {
										if leanIdent(pp) == stn {
											set[leanIdent(base+strings.TrimPrefix(pp, r.recvName))] = true
										}
									}
								}
							}
						}
					}
				}
			}
		}
		switch s := x.(type) {
		case *ast.AssignStmt:
			if len(s.Rhs) == 1 {
				if c, ok := s.Rhs[0].(*ast.CallExpr); ok {
					if _, free := f.t.freeStmt[strings.Join(strings.Fields(f.src(c.Fun)), "")]; free {
						return true // the results of an uninterpreted call are not followed
					}
					if sel, ok := c.Fun.(*ast.SelectorExpr); ok {
						if rt := f.typeOf(sel.X); rt != nil && isBuffer(rt) && sel.Sel.Name == "Read" {
							note(sel.X)
							note(c.Args[0])
						}
						if rt := f.typeOf(sel.X); rt != nil && isPayload(rt) && sel.Sel.Name == "WriteTo" {
							if u, ok := c.Args[0].(*ast.UnaryExpr); ok && u.Op == token.AND {
								if base, ok := f.pathOf(u.X); ok {
									set[leanIdent(base+".dict")] = true
								}
							} else {
								note(c.Args[0])
							}
						}
					}
				}
			}
			for _, l := range s.Lhs {
				if s.Tok == token.DEFINE {
					if id, ok := l.(*ast.Ident); ok {
						declared[id.Name] = true
						continue
					}
				}
				note(l)
			}
		case *ast.IncDecStmt:
			note(s.X)
		case *ast.DeclStmt:
			if gd, ok := s.Decl.(*ast.GenDecl); ok {
				for _, sp := range gd.Specs {
					for _, id := range sp.(*ast.ValueSpec).Names {
						declared[id.Name] = true
					}
				}
			}
		case *ast.ExprStmt:
			if c, ok := s.X.(*ast.CallExpr); ok {
				text := strings.Join(strings.Fields(f.src(c.Fun)), "")
				if strings.HasSuffix(text, ".Header.Set") || strings.HasSuffix(text, "Header.Del") {
					note(c.Fun.(*ast.SelectorExpr).X)
				}
				switch text {
				case "copy", "binary.BigEndian.PutUint16", "binary.BigEndian.PutUint64", "binary.LittleEndian.PutUint32", "internal.MaskXOR":
					note(c.Args[0])
				default:
					if sel, ok := c.Fun.(*ast.SelectorExpr); ok {
						if rt := f.typeOf(sel.X); rt != nil && isBuffer(rt) {
							switch sel.Sel.Name {
							case "Write", "WriteString", "Reset", "Next", "Truncate":
								note(sel.X)
							}
						}
						if rt := f.typeOf(sel.X); rt != nil && isJobDeque(rt) && sel.Sel.Name == "PushBack" {
							note(sel.X)
						}
						if s2, ok := f.p.info.Selections[sel]; ok && s2.Kind() == types.MethodVal {
							if r, ok := f.tr.byFunc[funcKey(s2.Obj().(*types.Func))]; ok && len(f.tr.translate(r).state) > 0 {
								note(sel.X)
							}
						}
					}
				}
			}
		}
		return true
	})
	var out []string
	for k := range set {
		out = append(out, k)
	}
	sort.Strings(out)
	return out
}

func tuple(xs []string) string {
	if len(xs) == 1 {
		return xs[0]
	}
	return "(" + strings.Join(xs, ", ") + ")"
}

func (f *fn) ret(vals []string) string {
	var all []string
	for _, s := range f.stateOrder() {
		all = append(all, s)
	}
	all = append(all, vals...)
	if len(all) == 0 {
		all = []string{"()"}
	}
	if f.segment {
		return "Except.error " + tuple(all)
	}
	return tuple(all)
}

var stateOrderHook func(f *fn) []string

func (f *fn) stateOrder() []string { return stateOrderHook(f) }

func (f *fn) block(list []ast.Stmt, k cont) string {
	if len(list) == 0 {
		return k()
	}
	s, rest := list[0], list[1:]
	next := func() string { return f.block(rest, k) }
	var sb strings.Builder
	for _, sk := range f.t.skip {
		if strings.HasPrefix(f.stmtText(s), sk) {
			return next()
		}
	}
	if _, ok := s.(*ast.DeferStmt); ok {
		f.bad(s, "defer")
	}
	if b, ok := s.(*ast.BranchStmt); ok && b.Tok == token.CONTINUE && b.Label == nil {
		if f.loopK == nil {
			f.bad(s, "continue outside a folded range loop")
		}
		return f.loopK()
	}
	// `*(*[]byte)(unsafe.Pointer(buf)) = p` (internal.BufferReset inlined): the buffer now holds exactly p
	if as, ok := s.(*ast.AssignStmt); ok && len(as.Lhs) == 1 && strings.HasPrefix(strings.Join(strings.Fields(f.src(as.Lhs[0])), ""), "*(*[]byte)(unsafe.Pointer(") {
		inner := as.Lhs[0].(*ast.StarExpr).X.(*ast.CallExpr).Args[0].(*ast.CallExpr).Args[0]
		if isBuffer(f.typeOf(inner)) {
			v := f.expr(as.Rhs[0])
			f.flush(&sb)
			fmt.Fprintf(&sb, "let %s := %s\n", f.lvalueName(inner), v)
			return sb.String() + next()
		}
	}
	// `cf := &c.continuationFrame` / `var cf = &c.continuationFrame`: a second name for the struct at that field path (sound as
	// long as the pointer itself is not reassigned, which a later assignment to it would make the translation refuse)
	{
		var name string
		var rhs ast.Expr
		if as, ok := s.(*ast.AssignStmt); ok && as.Tok == token.DEFINE && len(as.Lhs) == 1 && len(as.Rhs) == 1 {
			if id, ok := as.Lhs[0].(*ast.Ident); ok {
				name, rhs = id.Name, as.Rhs[0]
			}
		}
		if ds, ok := s.(*ast.DeclStmt); ok {
			if gd, ok := ds.Decl.(*ast.GenDecl); ok && len(gd.Specs) == 1 {
				if vs := gd.Specs[0].(*ast.ValueSpec); len(vs.Names) == 1 && len(vs.Values) == 1 {
					name, rhs = vs.Names[0].Name, vs.Values[0]
				}
			}
		}
		if rhs != nil && name != "" {
			if pth, ok := f.pathOf(rhs); ok {
				if _, isStruct := f.typeOf(rhs).Underlying().(*types.Struct); isStruct && !isBuffer(f.typeOf(rhs)) {
					// a COPY of the struct at that path: the same values as long as neither is assigned afterwards (an
					// assignment to a field of the copy is refused below because the copy has no storage of its own here)
					f.ptrAlias[name] = pth
					f.copyAlias[name] = true
					f.locals[name] = true
					return next()
				}
			}
		}
		if u, ok := rhs.(*ast.UnaryExpr); ok && name != "" && u.Op == token.AND {
			if pth, ok := f.pathOf(u.X); ok {
				if _, isStruct := f.typeOf(u.X).Underlying().(*types.Struct); isStruct {
					f.ptrAlias[name] = pth
					f.locals[name] = true
					return next()
				}
			}
		}
	}
	// `pd := T{F: e, …}` (a struct VALUE, not &T{…}) that is used as a value afterwards: one Lean local per field, missing
	// fields are zero
	{
		var declName string
		var declRhs ast.Expr
		if as, ok := s.(*ast.AssignStmt); ok && as.Tok == token.DEFINE && len(as.Lhs) == 1 && len(as.Rhs) == 1 {
			if id, ok := as.Lhs[0].(*ast.Ident); ok {
				declName, declRhs = id.Name, as.Rhs[0]
			}
		}
		if ds, ok := s.(*ast.DeclStmt); ok { // `var pd = T{F: e, …}`
			if gd, ok := ds.Decl.(*ast.GenDecl); ok && gd.Tok == token.VAR && len(gd.Specs) == 1 {
				if vs := gd.Specs[0].(*ast.ValueSpec); len(vs.Names) == 1 && len(vs.Values) == 1 && vs.Type == nil {
					declName, declRhs = vs.Names[0].Name, vs.Values[0]
				}
			}
		}
		if lit, ok := declRhs.(*ast.CompositeLit); ok && declName != "" {
			if st, ok := f.typeOf(lit).Underlying().(*types.Struct); ok && !isBuffer(f.typeOf(lit)) {
				name := declName
				given := map[string]ast.Expr{}
				for _, el := range lit.Elts {
					kv, ok := el.(*ast.KeyValueExpr)
					if !ok {
						f.bad(s, "positional struct literal")
					}
					given[kv.Key.(*ast.Ident).Name] = kv.Value
				}
				var fields []string
				for i := 0; i < st.NumFields(); i++ {
					fld := st.Field(i)
					lt, ok := f.tr.leanType(fld.Type())
					if !ok {
						f.bad(s, "struct literal with a field of unsupported type "+fld.Name())
					}
					val := zeroOf(fld.Type(), lt)
					if e, ok := given[fld.Name()]; ok {
						val = f.expr(e)
					}
					f.flush(&sb)
					fmt.Fprintf(&sb, "let %s_%s : %s := %s\n", leanIdent(name), fld.Name(), lt, val)
					fields = append(fields, fld.Name())
				}
				f.localStruct[name] = fields
				f.locals[name] = true
				return sb.String() + next()
			}
		}
	}
	// `msg := &T{F: e, …}` for a struct that is only handed to a free call: its fields are captured now
	if as, ok := s.(*ast.AssignStmt); ok && as.Tok == token.DEFINE && len(as.Lhs) == 1 && len(as.Rhs) == 1 {
		if lit := structLit(as.Rhs[0]); lit != nil {
			name := as.Lhs[0].(*ast.Ident).Name
			var fields []string
			for _, el := range lit.Elts {
				kv, ok := el.(*ast.KeyValueExpr)
				if !ok {
					f.bad(s, "positional struct literal")
				}
				fn := kv.Key.(*ast.Ident).Name
				v := f.expr(kv.Value)
				f.flush(&sb)
				fmt.Fprintf(&sb, "let %s_%s := %s\n", leanIdent(name), fn, v)
				fields = append(fields, fn)
				f.structTy[leanIdent(name)+"_"+fn] = f.lt(kv.Value)
			}
			f.structs[name] = fields
			f.locals[name] = true
			return sb.String() + next()
		}
	}
	switch st := s.(type) {
	case *ast.EmptyStmt:
		return next()
	case *ast.BlockStmt:
		return f.block(append(append([]ast.Stmt{}, st.List...), rest...), k)
	case *ast.ReturnStmt:
		var vals []string
		if len(st.Results) == 0 {
			for _, n := range f.named {
				vals = append(vals, leanIdent(n))
			}
		}
		if len(f.t.free) > 0 || len(f.t.freeStmt) > 0 {
			if len(st.Results) == 1 {
				if c, ok := st.Results[0].(*ast.CallExpr); ok {
					if app, ok := f.freeCall(c); ok {
						f.flush(&sb)
						sb.WriteString(f.ret([]string{app}))
						return sb.String()
					}
				}
			}
			var vs []string
			for i, r := range st.Results {
				vs = append(vs, f.resultValue(r, f.retTypes[i]))
			}
			f.flush(&sb)
			sb.WriteString(f.ret([]string{"(ret " + tuple(vs) + ")"}))
			return sb.String()
		}
		for i, r := range st.Results {
			lt := ""
			if i < len(f.retTypes) {
				lt = f.retTypes[i]
			}
			vals = append(vals, f.resultValue(r, lt))
		}
		f.flush(&sb)
		sb.WriteString(f.ret(vals))
		return sb.String()
	case *ast.DeclStmt:
		gd := st.Decl.(*ast.GenDecl)
		if gd.Tok != token.VAR {
			f.bad(s, "declaration")
		}
		for _, sp := range gd.Specs {
			vs := sp.(*ast.ValueSpec)
			for i, id := range vs.Names {
				f.locals[id.Name] = true
				if f.t.ignore[id.Name] {
					continue
				}
				var val string
				obj := f.p.info.Defs[id].(*types.Var)
				if i < len(vs.Values) {
					if c, ok := vs.Values[i].(*ast.CallExpr); ok {
						if sel, ok := c.Fun.(*ast.SelectorExpr); ok && sel.Sel.Name == "Bytes" && f.typeOf(sel.X) != nil && isBuffer(f.typeOf(sel.X)) {
							// `contents := buf.Bytes()` names the buffer's own storage: writes through it are writes to the buffer
							// (sound while the buffer is not grown afterwards — the targets only Next() it)
							f.alias[id.Name] = f.lvalueName(sel.X)
							continue
						}
					}
				}
				lt, ok := f.tr.leanType(obj.Type())
				if !ok {
					f.bad(s, "variable of unsupported type")
				}
				if i < len(vs.Values) {
					val = f.expr(vs.Values[i])
					if lt == "(Option GoErr)" && isStatusCode(f.typeOf(vs.Values[i])) {
						val = fmt.Sprintf("(some (GoErr.status %s))", val)
					}
				} else {
					val = zeroOf(obj.Type(), lt)
				}
				f.flush(&sb)
				fmt.Fprintf(&sb, "let %s : %s := %s\n", leanIdent(id.Name), lt, val)
			}
		}
		return sb.String() + next()
	case *ast.AssignStmt:
		if len(st.Rhs) == 1 {
			if c, ok := st.Rhs[0].(*ast.CallExpr); ok {
				if _, ok := f.t.freeStmt[strings.Join(strings.Fields(f.src(c.Fun)), "")]; ok {
					// `x, _ = callee(args)` where the call is left uninterpreted and its results are not followed: as a call statement
					return f.block(append([]ast.Stmt{&ast.ExprStmt{X: c}}, rest...), k)
				}
			}
		}
		if len(st.Lhs) == 1 && len(st.Rhs) == 1 {
			if c, ok := st.Rhs[0].(*ast.CallExpr); ok {
				ctext := strings.Join(strings.Fields(f.src(c.Fun)), "")
				if mi, ok := f.t.funs[ctext]; ok {
					pname := leanIdent(strings.ReplaceAll(ctext, ".", "_"))
					var args, tys []string
					for _, a := range c.Args {
						args = append(args, f.expr(a))
						tys = append(tys, f.lt(a))
					}
					rty := ""
					if id, ok := st.Lhs[0].(*ast.Ident); ok && f.p.info.Defs[id] != nil {
						rty, _ = f.tr.leanType(f.p.info.Defs[id].Type())
					} else {
						rty = f.lt(st.Lhs[0])
					}
					lt := "(" + strings.Join(tys, " → ") + " → (" + tys[mi] + " × " + rty + "))"
					if _, seen := f.oracleSet[pname]; !seen {
						f.oracleSet[pname] = lt
						f.oracleOrd = append(f.oracleOrd, pname)
					}
					mut := f.lvalueName(c.Args[mi])
					if id, ok := st.Lhs[0].(*ast.Ident); ok {
						f.locals[id.Name] = true
					}
					f.flush(&sb)
					fmt.Fprintf(&sb, "let (%s, %s) := %s %s\n", mut, f.lvalueName(st.Lhs[0]), pname, strings.Join(args, " "))
					return sb.String() + next()
				}
			}
		}
		if len(st.Rhs) == 1 && (len(st.Lhs) == 1 || len(st.Lhs) == 2) {
			if c, ok := st.Rhs[0].(*ast.CallExpr); ok && f.t.calls[strings.Join(strings.Fields(f.src(c.Fun)), "")] {
				ctext := strings.Join(strings.Fields(f.src(c.Fun)), "")
				pname := leanIdent(strings.ReplaceAll(ctext, ".", "_"))
				var args, tys []string
				for _, a := range c.Args {
					if cl, ok := a.(*ast.CompositeLit); ok {
						if stt, ok := f.typeOf(cl).Underlying().(*types.Struct); ok {
							for i := 0; i < stt.NumFields(); i++ {
								fld := stt.Field(i)
								lt, ok := f.tr.leanType(fld.Type())
								if !ok {
									f.bad(a, "struct literal argument with a field of unsupported type")
								}
								val := zeroOf(fld.Type(), lt)
								for _, el := range cl.Elts {
									kv, ok := el.(*ast.KeyValueExpr)
									if !ok {
										f.bad(a, "positional struct literal")
									}
									if id, ok := kv.Key.(*ast.Ident); ok && id.Name == fld.Name() {
										val = f.expr(kv.Value)
									}
								}
								args = append(args, val)
								tys = append(tys, lt)
							}
							continue
						}
					}
					if id, ok := a.(*ast.Ident); ok && f.localStruct[id.Name] != nil {
						if stt, ok := f.typeOf(a).Underlying().(*types.Struct); ok {
							for i := 0; i < stt.NumFields(); i++ {
								lt, ok := f.tr.leanType(stt.Field(i).Type())
								if !ok {
									f.bad(a, "struct argument with a field of unsupported type")
								}
								args = append(args, leanIdent(id.Name)+"_"+stt.Field(i).Name())
								tys = append(tys, lt)
							}
							continue
						}
					}
					args = append(args, f.expr(a))
					tys = append(tys, f.lt(a))
				}
				var rtys, names []string
				for _, l := range st.Lhs {
					rty := ""
					if id, ok := l.(*ast.Ident); ok && f.p.info.Defs[id] != nil {
						rty, _ = f.tr.leanType(f.p.info.Defs[id].Type())
						f.locals[id.Name] = true
					} else {
						rty = f.lt(l)
					}
					rtys = append(rtys, rty)
					names = append(names, f.lvalueName(l))
				}
				lt := "(" + strings.Join(tys, " → ") + " → (" + strings.Join(rtys, " × ") + "))"
				if _, seen := f.oracleSet[pname]; !seen {
					f.oracleSet[pname] = lt
					f.oracleOrd = append(f.oracleOrd, pname)
				}
				f.flush(&sb)
				fmt.Fprintf(&sb, "let (%s) := %s %s\n", strings.Join(names, ", "), pname, strings.Join(args, " "))
				return sb.String() + next()
			}
		}
		if len(st.Lhs) == 2 && len(st.Rhs) == 1 {
			if line, ok := f.tupleCall(st); ok {
				f.flush(&sb)
				return sb.String() + line + "\n" + next()
			}
		}
		if len(st.Lhs) != len(st.Rhs) {
			f.bad(s, "tuple assignment from one call")
		}
		var vals []string
		for i := range st.Rhs {
			var val string
			if id, ok := st.Lhs[i].(*ast.Ident); ok && f.t.ignore[id.Name] {
				vals = append(vals, "")
				f.stale[id.Name] = true
				continue
			}
			switch st.Tok {
			case token.ASSIGN, token.DEFINE:
				if id, ok := st.Rhs[i].(*ast.Ident); ok && id.Name == "nil" && f.lt(st.Lhs[i]) == "(List UInt8)" {
					val = "([] : List UInt8)" // a nil slice has no elements
				} else {
					val = f.expr(st.Rhs[i])
				}
			default: // op=
				op := map[token.Token]token.Token{token.ADD_ASSIGN: token.ADD, token.SUB_ASSIGN: token.SUB, token.MUL_ASSIGN: token.MUL,
					token.OR_ASSIGN: token.OR, token.AND_ASSIGN: token.AND, token.XOR_ASSIGN: token.XOR, token.SHL_ASSIGN: token.SHL, token.SHR_ASSIGN: token.SHR}[st.Tok]
				if op == 0 {
					f.bad(s, "assignment operator")
				}
				be := &ast.BinaryExpr{X: st.Lhs[i], Op: op, Y: st.Rhs[i]}
				f.p.info.Types[be] = f.p.info.Types[st.Lhs[i]]
				val = f.binary(be)
			}
			if id, ok := st.Lhs[i].(*ast.Ident); ok && st.Tok != token.DEFINE || !ok {
				_ = id
				if lt, ok2 := f.tr.leanType(f.typeOf(st.Lhs[i])); ok2 && lt == "(Option GoErr)" && isStatusCode(f.typeOf(st.Rhs[i])) {
					val = fmt.Sprintf("(some (GoErr.status %s))", val)
				}
			}
			vals = append(vals, val)
		}
		f.flush(&sb)
		for i, l := range st.Lhs {
			if id, ok := l.(*ast.Ident); ok && (id.Name == "_" || f.t.ignore[id.Name]) {
				continue
			}
			sb.WriteString(f.assignTo(l, vals[i]) + "\n")
			if id, ok := l.(*ast.Ident); ok {
				f.locals[id.Name] = true
			}
		}
		return sb.String() + next()
	case *ast.IncDecStmt:
		lt := f.lt(st.X)
		op := "+"
		if st.Tok == token.DEC {
			op = "-"
		}
		val := fmt.Sprintf("(%s %s (1 : %s))", f.expr(st.X), op, lt)
		f.flush(&sb)
		sb.WriteString(f.assignTo(st.X, val) + "\n")
		return sb.String() + next()
	case *ast.ExprStmt:
		c, ok := st.X.(*ast.CallExpr)
		if !ok {
			f.bad(s, "expression statement")
		}
		text := strings.Join(strings.Fields(f.src(c.Fun)), "")
		if strings.HasPrefix(text, "verif") {
			return next()
		}
		if _, ok := f.t.freeStmt[text]; ok {
			saved := f.t.free
			f.t.free = f.t.freeStmt
			app, _ := f.freeCall(c)
			f.t.free = saved
			f.freeCont[leanIdent(strings.ReplaceAll(text, ".", "_"))] = true
			f.flush(&sb)
			return sb.String() + "(" + strings.TrimSuffix(app, ")")[1:] + " (\n" + indent(f.retOnly(next())) + "))"
		}
		switch text {
		case "copy":
			base, off := f.sliceTarget(c.Args[0])
			src := f.expr(c.Args[1])
			f.flush(&sb)
			fmt.Fprintf(&sb, "let %s := goCopy %s %s %s\n", base, base, off, src)
			return sb.String() + next()
		case "internal.MaskXOR": // C18's subject; here by its specification (byte i becomes byte i XOR key[i mod 4])
			base, off := f.sliceTarget(c.Args[0])
			key := f.expr(c.Args[1])
			f.flush(&sb)
			fmt.Fprintf(&sb, "let %s := goCopy %s %s (goMaskXOR (%s.drop %s) %s)\n", base, base, off, base, off, key)
			return sb.String() + next()
		case "binary.BigEndian.PutUint16", "binary.BigEndian.PutUint64", "binary.LittleEndian.PutUint32":
			base, off := f.sliceTarget(c.Args[0])
			v := f.expr(c.Args[1])
			f.flush(&sb)
			fmt.Fprintf(&sb, "let %s := goCopy %s %s (%s %s)\n", base, base, off,
				map[string]string{"binary.BigEndian.PutUint16": "goBytesU16BE", "binary.BigEndian.PutUint64": "goBytesU64BE", "binary.LittleEndian.PutUint32": "goBytesU32LE"}[text], v)
			return sb.String() + next()
		}
		if sel, ok := c.Fun.(*ast.SelectorExpr); ok {
			if rt := f.typeOf(sel.X); rt != nil && isBuffer(rt) {
				b := f.lvalueName(sel.X)
				var line string
				switch sel.Sel.Name {
				case "Write", "WriteString":
					line = fmt.Sprintf("let %s := %s ++ %s", b, b, f.expr(c.Args[0]))
				case "Reset":
					line = fmt.Sprintf("let %s : List UInt8 := []", b)
				case "Next":
					line = fmt.Sprintf("let %s := %s.drop (%s).toNat", b, b, f.expr(c.Args[0]))
				case "Truncate":
					line = fmt.Sprintf("let %s := %s.take (%s).toNat", b, b, f.expr(c.Args[0]))
				default:
					f.bad(s, "bytes.Buffer method")
				}
				f.flush(&sb)
				return sb.String() + line + "\n" + next()
			}
		}
		if text == "binaryPool.Put" {
			return next()
		}
		if strings.HasSuffix(text, "Header.Del") { // http.Header.Del(k)
			h := f.lvalueName(c.Fun.(*ast.SelectorExpr).X)
			k := f.expr(c.Args[0])
			f.flush(&sb)
			return sb.String() + fmt.Sprintf("let %s := Hs.del %s %s\n", h, h, k) + next()
		}
		if strings.HasSuffix(text, ".Header.Set") { // http.Header.Set(k, v)
			h := f.lvalueName(c.Fun.(*ast.SelectorExpr).X)
			k, v := f.expr(c.Args[0]), f.expr(c.Args[1])
			f.flush(&sb)
			return sb.String() + fmt.Sprintf("let %s := Hs.set %s %s %s\n", h, h, k, v) + next()
		}
		if sel, ok := c.Fun.(*ast.SelectorExpr); ok && sel.Sel.Name == "PushBack" {
			if rt := f.typeOf(sel.X); rt != nil && isJobDeque(rt) {
				q := f.lvalueName(sel.X)
				v := f.expr(c.Args[0])
				f.flush(&sb)
				return sb.String() + fmt.Sprintf("let %s := %s ++ (%s).toList\n", q, q, v) + next()
			}
		}
		_ = f.call(c) // a state-threading method: the rebinding is in f.pre
		if len(f.pre) == 0 {
			f.bad(s, "call statement without an effect the translation knows")
		}
		f.flush(&sb)
		return sb.String() + next()
	case *ast.IfStmt:
		return f.ifStmt(st, next)
	case *ast.SwitchStmt:
		return f.block([]ast.Stmt{f.desugarSwitch(st)}, next)
	case *ast.TypeSwitchStmt:
		// `switch v := err.(type) { case internal.StatusCode: …; case *internal.Error: …; default: … }` on an error value:
		// a match on the constructors of GoErr (status code / *Error with its code / anything else)
		as, ok := st.Assign.(*ast.AssignStmt)
		if !ok || len(as.Lhs) != 1 || len(as.Rhs) != 1 {
			f.bad(s, "type switch form")
		}
		vname := as.Lhs[0].(*ast.Ident).Name
		ta := as.Rhs[0].(*ast.TypeAssertExpr)
		if f.lt(ta.X) != "(Option GoErr)" {
			f.bad(s, "type switch on something that is not an error")
		}
		scrut := f.expr(ta.X)
		f.flush(&sb)
		hasRet := hasReturn(st.Body)
		vars := f.assigned(st.Body)
		if !hasRet && len(vars) == 0 {
			f.bad(s, "type switch without effect")
		}
		t := tuple(vars)
		k := next
		if !hasRet {
			k = func() string { return t }
		}
		var arms []string
		haveDefault := false
		for _, cl := range st.Body.List {
			cc := cl.(*ast.CaseClause)
			f.locals[vname] = true
			body := func(bind string) string {
				// inside the clause `v` is the payload of the constructor; `v.Code` of an *Error is that payload too
				return f.block(cc.Body, k)
			}
			if cc.List == nil {
				haveDefault = true
				f.tsBind = ""
				arms = append(arms, "| _ =>\n"+indent(body("")))
				continue
			}
			if len(cc.List) != 1 {
				f.bad(s, "type switch clause with several types")
			}
			tn := strings.Join(strings.Fields(f.src(cc.List[0])), "")
			switch tn {
			case "internal.StatusCode", "StatusCode":
				f.tsBind = "status"
				arms = append(arms, fmt.Sprintf("| some (GoErr.status %s) =>\n", leanIdent(vname))+indent(body("status")))
			case "*internal.Error", "*Error":
				f.tsBind = "coded"
				arms = append(arms, fmt.Sprintf("| some (GoErr.coded %s_Code) =>\n", leanIdent(vname))+indent(body("coded")))
			default:
				f.bad(s, "type switch clause "+tn)
			}
		}
		f.tsBind = ""
		if !haveDefault {
			arms = append(arms, "| _ =>\n"+indent(k()))
		}
		if hasRet {
			fmt.Fprintf(&sb, "match %s with\n%s", scrut, strings.Join(arms, "\n"))
			return sb.String()
		}
		fmt.Fprintf(&sb, "let %s := match %s with\n%s\n", t, scrut, indent(strings.Join(arms, "\n")))
		return sb.String() + next()
	case *ast.RangeStmt:
		// `for _, x := range L { body }` where the body only returns early (assigns nothing outside): the first iteration
		// that returns decides, otherwise what follows the loop — a right fold with the rest of the function as its seed
		if st.Key != nil {
			if id, ok := st.Key.(*ast.Ident); !ok || id.Name != "_" {
				f.bad(s, "range with an index variable")
			}
		}
		xv, ok := st.Value.(*ast.Ident)
		if !ok || st.Tok != token.DEFINE {
			f.bad(s, "range loop form")
		}
		if vars := f.assigned(st.Body); len(vars) != 0 {
			// a body that assigns outer variables and never leaves the loop early (no return/break/continue/goto, no nested
			// loop): a LEFT fold over the list with the tuple of the assigned variables as the accumulator (like the counted
			// loop below)
			bad := false
			ast.Inspect(st.Body, func(n ast.Node) bool {
				switch b := n.(type) {
				case *ast.ReturnStmt, *ast.ForStmt, *ast.RangeStmt, *ast.FuncLit, *ast.DeferStmt, *ast.GoStmt, *ast.LabeledStmt:
					bad = true
				case *ast.BranchStmt:
					if b.Tok != token.FALLTHROUGH && !(b.Tok == token.CONTINUE && b.Label == nil) { // fallthrough is refused by the switch desugaring; `continue` ends this iteration with the accumulator as it is
						bad = true
					}
				}
				return true
			})
			coll := f.expr(st.X)
			for _, v := range vars {
				if v == leanIdent(xv.Name) || strings.Contains(coll, v) {
					bad = true
				}
			}
			if bad {
				f.bad(s, "range loop body that assigns outer variables and may leave the loop early (or assigns the list)")
			}
			f.flush(&sb)
			f.locals[xv.Name] = true
			t := tuple(vars)
			saveK := f.loopK
			f.loopK = func() string { return t }
			body := f.block(st.Body.List, func() string { return t })
			f.loopK = saveK
			fmt.Fprintf(&sb, "let %s := (%s).foldl (fun %s %s =>\n%s) %s\n", t, coll, t, leanIdent(xv.Name), indent(body), t)
			return sb.String() + next()
		}
		bad := false
		ast.Inspect(st.Body, func(n ast.Node) bool {
			if b, ok := n.(*ast.BranchStmt); ok && (b.Tok == token.BREAK || b.Tok == token.GOTO) {
				bad = true
			}
			return true
		})
		if bad {
			f.bad(s, "break in a range loop")
		}
		coll := f.expr(st.X)
		f.flush(&sb)
		f.locals[xv.Name] = true
		body := f.block(st.Body.List, func() string { return "acc'" })
		fmt.Fprintf(&sb, "List.foldr (fun %s acc' =>\n%s) (\n%s) %s", leanIdent(xv.Name), indent(body), indent(next()), coll)
		return sb.String()
	case *ast.ForStmt:
		// counted loop `for i := 0; i < N; i++ { body }`: body without return/break/continue, not assigning i or the
		// variables of N: a left fold over 0..N-1 of the assigned variables
		init, ok1 := st.Init.(*ast.AssignStmt)
		cond, ok2 := st.Cond.(*ast.BinaryExpr)
		post, ok3 := st.Post.(*ast.IncDecStmt)
		if !ok1 || !ok2 || !ok3 || init.Tok != token.DEFINE || len(init.Lhs) != 1 || cond.Op != token.LSS || post.Tok != token.INC {
			f.bad(s, "loop form")
		}
		iv, okI := init.Lhs[0].(*ast.Ident)
		ztv := f.p.info.Types[init.Rhs[0]]
		cv, okC := cond.X.(*ast.Ident)
		pv, okP := post.X.(*ast.Ident)
		if !okI || !okC || !okP || cv.Name != iv.Name || pv.Name != iv.Name || ztv.Value == nil || ztv.Value.ExactString() != "0" || f.lt(cond.X) != "Int" {
			f.bad(s, "loop form")
		}
		bad := false
		ast.Inspect(st.Body, func(n ast.Node) bool {
			switch n.(type) {
			case *ast.ReturnStmt, *ast.BranchStmt, *ast.ForStmt, *ast.RangeStmt:
				bad = true
			}
			_ = n
			return true
		})
		vars := f.assigned(st.Body)
		bound := f.expr(cond.Y)
		for _, v := range vars {
			if v == leanIdent(iv.Name) || strings.Contains(bound, v) {
				bad = true
			}
		}
		if bad || len(vars) == 0 {
			f.bad(s, "loop body")
		}
		f.flush(&sb)
		f.locals[iv.Name] = true
		t := tuple(vars)
		body := f.block(st.Body.List, func() string { return t })
		fmt.Fprintf(&sb, "let %s := (List.range (%s).toNat).foldl (fun %s i' =>\n  let %s : Int := Int.ofNat i'\n%s) %s\n", t, bound, t, leanIdent(iv.Name), indent(body), t)
		return sb.String() + next()
	}
	f.bad(s, "statement form")
	return ""
}

// `a, b := recv.Method(…)` for a translated method, `_, _ = buf.Read(dst[lo:])`, `_, _ = payload.WriteTo(buf)`
func (f *fn) tupleCall(st *ast.AssignStmt) (string, bool) {
	c, ok := st.Rhs[0].(*ast.CallExpr)
	if !ok {
		return "", false
	}
	blank := func(e ast.Expr) bool { id, ok := e.(*ast.Ident); return ok && id.Name == "_" }
	// `x, _ := strconv.Atoi(s)`: the number, 0 on a syntax error, saturated on overflow (Nego.atoi)
	if f.t.negoStr && strings.Join(strings.Fields(f.src(c.Fun)), "") == "strconv.Atoi" && blank(st.Lhs[1]) && !blank(st.Lhs[0]) {
		v := f.expr(c.Args[0])
		if id, ok := st.Lhs[0].(*ast.Ident); ok && st.Tok == token.DEFINE {
			f.locals[id.Name] = true
		}
		return fmt.Sprintf("let %s : Int := (Nego.atoi %s)", f.lvalueName(st.Lhs[0]), v), true
	}
	if sel, ok := c.Fun.(*ast.SelectorExpr); ok {
		rt := f.typeOf(sel.X)
		if rt != nil && isBuffer(rt) && sel.Sel.Name == "Read" && blank(st.Lhs[0]) && blank(st.Lhs[1]) {
			b := f.lvalueName(sel.X)
			dst, off := f.sliceTarget(c.Args[0])
			f.tmp++
			k := fmt.Sprintf("k%d", f.tmp)
			return fmt.Sprintf("let %s := Nat.min (%s).length ((%s).length - %s)\nlet %s := goCopy %s %s (%s.take %s)\nlet %s := %s.drop %s", k, b, dst, off, dst, dst, off, b, k, b, b, k), true
		}
		if rt != nil && isPayload(rt) && sel.Sel.Name == "WriteTo" && blank(st.Lhs[0]) && blank(st.Lhs[1]) {
			if at := f.typeOf(c.Args[0]); at != nil && isBuffer(at) {
				b := f.lvalueName(c.Args[0])
				return fmt.Sprintf("let %s := %s ++ %s", b, b, f.expr(sel.X)), true
			}
			// payload.WriteTo(&window): internal.Bytes writes its bytes once; internal.Buffers writes slice after slice, which
			// leaves the same window (C17: the window is a function of the concatenation, Win.writes_spec)
			if u, ok := c.Args[0].(*ast.UnaryExpr); ok && u.Op == token.AND {
				if n, ok := f.typeOf(u.X).(*types.Named); ok && n.Obj().Name() == "slideWindow" {
					if base, ok := f.pathOf(u.X); ok {
						r := f.tr.translate("gws.slideWindow.Write")
						st := n.Underlying().(*types.Struct)
						ft := map[string]types.Type{}
						for i := 0; i < st.NumFields(); i++ {
							ft[st.Field(i).Name()] = st.Field(i).Type()
						}
						en := f.usePath(base+".enabled", ft["enabled"], c)
						di := f.usePath(base+".dict", ft["dict"], c)
						sz := f.usePath(base+".size", ft["size"], c)
						f.state[di] = true
						f.tmp++
						byName := map[string]string{"c_enabled": en, "c_dict": di, "c_size": sz}
						args := []string{f.expr(sel.X)}
						for _, prm := range r.params[r.nDeclared:] {
							args = append(args, byName[prm.name])
						}
						return fmt.Sprintf("let (%s, r%d) := (Trans.%s %s)", di, f.tmp, r.t.lean, strings.Join(args, " ")), true
					}
				}
			}
		}
	}
	// a call whose two results are an input of the target
	ctext := strings.Join(strings.Fields(f.src(c)), "")
	for src, pname := range f.t.oracles {
		if strings.Join(strings.Fields(src), "") == ctext {
			lt := "(" + f.lt(st.Lhs[0]) + " × " + f.lt(st.Lhs[1]) + ")"
			if _, seen := f.oracleSet[pname]; !seen {
				f.oracleSet[pname] = lt
				f.oracleOrd = append(f.oracleOrd, pname)
			}
			return fmt.Sprintf("let (%s, %s) := %s", f.lvalueName(st.Lhs[0]), f.lvalueName(st.Lhs[1]), pname), true
		}
	}
	// a translated function with two results (possibly threading its receiver)
	saved := len(f.pre)
	v := f.call(c)
	var names []string
	for _, l := range st.Lhs {
		if blank(l) {
			names = append(names, "_")
			continue
		}
		if id, ok := l.(*ast.Ident); ok && st.Tok == token.DEFINE {
			f.locals[id.Name] = true
		}
		names = append(names, f.lvalueName(l))
	}
	allBlank := true
	for _, n := range names {
		if n != "_" {
			allBlank = false
		}
	}
	if len(f.pre) > saved && allBlank { // the call was hoisted (it threads state) and its results are dropped
		return "", true
	}
	return fmt.Sprintf("let (%s) := %s", strings.Join(names, ", "), v), true
}

// resultValue: a returned expression, given the Lean type of the result position
func (f *fn) resultValue(r ast.Expr, lt string) string {
	if id, ok := r.(*ast.Ident); ok && f.localStruct[id.Name] != nil {
		var vals []string
		for _, fn := range f.localStruct[id.Name] {
			vals = append(vals, leanIdent(id.Name)+"_"+fn)
		}
		return tuple(vals)
	}
	if id, ok := r.(*ast.Ident); ok && id.Name == "nil" && lt == "(List UInt8)" {
		return "([] : List UInt8)"
	}
	if lt == "Unit" {
		if id, ok := r.(*ast.Ident); ok && id.Name == "nil" {
			return "()"
		}
		f.bad(r, "return of a value outside the fragment")
	}
	v := f.expr(r)
	if lt == "(Option GoErr)" && isStatusCode(f.typeOf(r)) {
		v = fmt.Sprintf("(some (GoErr.status %s))", v)
	}
	return v
}

// retOnly: the continuation handed to a free statement call is the translated rest as it stands
func (f *fn) retOnly(s string) string { return s }

func structLit(e ast.Expr) *ast.CompositeLit {
	if u, ok := e.(*ast.UnaryExpr); ok && u.Op == token.AND {
		e = u.X
	}
	if cl, ok := e.(*ast.CompositeLit); ok {
		if _, isArr := cl.Type.(*ast.ArrayType); !isArr {
			if id, ok := cl.Type.(*ast.Ident); ok && id.Name != "frameHeader" {
				return cl
			}
		}
	}
	return nil
}

// freeCall: `callee(arg)` with callee listed in the target's free map -> the application of the function parameter
func (f *fn) freeCall(c *ast.CallExpr) (string, bool) {
	text := strings.Join(strings.Fields(f.src(c.Fun)), "")
	fields, ok := f.t.free[text]
	if !ok {
		return "", false
	}
	pname := leanIdent(strings.ReplaceAll(text, ".", "_"))
	var args, types_ []string
	for _, a := range c.Args {
		if lit := structLit(a); lit != nil {
			vals := map[string]string{}
			tys := map[string]string{}
			for _, el := range lit.Elts {
				kv := el.(*ast.KeyValueExpr)
				vals[kv.Key.(*ast.Ident).Name] = f.expr(kv.Value)
				tys[kv.Key.(*ast.Ident).Name] = f.lt(kv.Value)
			}
			for _, fn := range fields {
				v, ok := vals[fn]
				if !ok {
					f.bad(c, "struct literal without field "+fn)
				}
				args = append(args, v)
				types_ = append(types_, tys[fn])
			}
			continue
		}
		if id, ok := a.(*ast.Ident); ok && f.structs[id.Name] != nil {
			for _, fn := range fields {
				args = append(args, leanIdent(id.Name)+"_"+fn)
				types_ = append(types_, f.structTy[leanIdent(id.Name)+"_"+fn])
			}
			continue
		}
		if id, ok := a.(*ast.Ident); ok && f.recv != nil && f.p.info.Uses[id] == f.recv {
			continue // the connection itself handed to a callback
		}
		if id, ok := a.(*ast.Ident); ok && id.Name == "nil" {
			continue
		}
		if _, isFn := f.typeOf(a).Underlying().(*types.Signature); isFn {
			continue // a method value handed on (c.dispatch)
		}
		if path, ok := f.pathOf(a); ok && isStructType(f.typeOf(a)) { // a struct passed by value: its fields, in declaration order
			t := f.typeOf(a)
			if pt, ok := t.Underlying().(*types.Pointer); ok {
				t = pt.Elem()
			}
			st := t.Underlying().(*types.Struct)
			for i := 0; i < st.NumFields(); i++ {
				fld := st.Field(i)
				args = append(args, f.usePath(path+"."+fld.Name(), fld.Type(), a))
				lt, _ := f.tr.leanType(fld.Type())
				types_ = append(types_, lt)
			}
			continue
		}
		args = append(args, f.expr(a))
		types_ = append(types_, f.lt(a))
	}
	if old, seen := f.freeSig[pname]; seen {
		for i := range old { // keep the concrete types seen at any call site
			if i < len(types_) && old[i] == "_" {
				old[i] = types_[i]
			}
		}
	} else {
		f.freeSig[pname] = types_
		f.freeOrd = append(f.freeOrd, pname)
	}
	return "(" + pname + " " + strings.Join(args, " ") + ")", true
}

func zeroOf(t types.Type, lt string) string {
	switch lt {
	case "Bool":
		return "false"
	case "(List UInt8)":
		if a, ok := t.Underlying().(*types.Array); ok {
			return fmt.Sprintf("(List.replicate %d (0 : UInt8))", a.Len())
		}
		return "[]"
	case "(Option GoErr)":
		return "none"
	}
	return "(0 : " + lt + ")"
}

// sliceTarget: for `X`, `X[lo:]`, `X[lo:hi]` used as the destination of copy/Put*: the Lean variable holding X and the offset
func (f *fn) sliceTarget(e ast.Expr) (string, string) {
	switch v := e.(type) {
	case *ast.ParenExpr:
		return f.sliceTarget(v.X)
	case *ast.SliceExpr:
		base := f.lvalueName(v.X)
		if v.Low == nil {
			return base, "0"
		}
		return base, "(" + f.expr(v.Low) + ").toNat"
	}
	return f.lvalueName(e), "0"
}

func (f *fn) assignTo(l ast.Expr, val string) string {
	switch v := l.(type) {
	case *ast.ParenExpr:
		return f.assignTo(v.X, val)
	case *ast.IndexExpr:
		itv := f.p.info.Types[v.Index]
		if itv.Value == nil {
			f.bad(l, "index is not a constant")
		}
		base := f.lvalueName(v.X)
		return fmt.Sprintf("let %s := %s.set %s %s", base, base, itv.Value.ExactString(), val)
	}
	name := f.lvalueName(l)
	return fmt.Sprintf("let %s := %s", name, val)
}

// readN: `if err := internal.ReadN(r, dst[lo:hi]); err != nil { <body> }` with `r` an io.Reader: the reader is the list of
// bytes it will deliver; ReadN (io.ReadFull) either fills dst completely and consumes that many bytes, or fails
// (GoErr.io) — how many bytes a failed ReadFull consumed is not observable here because every target returns at once.
func (f *fn) readN(st *ast.IfStmt, next cont) (string, bool) {
	as, ok := st.Init.(*ast.AssignStmt)
	if !ok || len(as.Lhs) != 1 || len(as.Rhs) != 1 || as.Tok != token.DEFINE {
		return "", false
	}
	c, ok := as.Rhs[0].(*ast.CallExpr)
	if !ok || strings.Join(strings.Fields(f.src(c.Fun)), "") != "internal.ReadN" {
		return "", false
	}
	errName := as.Lhs[0].(*ast.Ident).Name
	if strings.Join(strings.Fields(f.src(st.Cond)), "") != errName+"!=nil" || st.Else != nil {
		f.bad(st, "ReadN used in an unknown pattern")
	}
	rd := f.lvalueName(c.Args[0])
	f.state[rd] = true
	f.streams[rd] = true
	var dst, off, n string
	switch d := c.Args[1].(type) {
	case *ast.SliceExpr:
		dst, off = f.sliceTarget(d)
		if d.High == nil {
			f.bad(st, "ReadN into an open slice")
		}
		lo := "(0 : Int)"
		if d.Low != nil {
			lo = f.expr(d.Low)
		}
		n = fmt.Sprintf("(%s - %s).toNat", f.expr(d.High), lo)
	default:
		dst, off = f.lvalueName(c.Args[1]), "0"
		n = fmt.Sprintf("(%s).length", dst)
	}
	f.locals[errName] = true
	var sb strings.Builder
	f.flush(&sb)
	fail := f.block(st.Body.List, next)
	fmt.Fprintf(&sb, "match goReadN %s %s with\n| none =>\n  let %s : Option GoErr := some GoErr.io\n%s\n| some (rd', %s) =>\n  let %s := goCopy %s %s rd'\n%s",
		rd, n, leanIdent(errName), indent(fail), rd, dst, dst, off, indent(next()))
	return sb.String(), true
}

func (f *fn) ifStmt(st *ast.IfStmt, next cont) string {
	var sb strings.Builder
	if st.Init != nil {
		if s, ok := f.readN(st, next); ok {
			return s
		}
		// `if err := g(); err != nil { … }`: the init is an ordinary statement in front (names are not reused in the targets)
		inner := *st
		inner.Init = nil
		return f.block([]ast.Stmt{st.Init, &inner}, next)
	}
	cond := f.expr(st.Cond)
	f.flush(&sb)
	var elseList []ast.Stmt
	if st.Else != nil {
		elseList = []ast.Stmt{st.Else}
	}
	if hasReturn(st.Body) || (st.Else != nil && hasReturn(st.Else)) || f.hasFreeStmt(st) {
		fmt.Fprintf(&sb, "if %s then\n%s\nelse\n%s", cond, indent(f.block(st.Body.List, next)), indent(f.block(elseList, next)))
		return sb.String()
	}
	vars := f.assigned(st)
	if len(vars) == 0 {
		// nothing the translation tracks is assigned: still translate the branches, so that a statement outside the
		// fragment is reported instead of being dropped
		b1 := f.block(st.Body.List, func() string { return "()" })
		b2 := f.block(elseList, func() string { return "()" })
		if strings.TrimSpace(b1) != "()" || strings.TrimSpace(b2) != "()" {
			f.bad(st, "an if whose branches have effects that the assigned-variable analysis does not see")
		}
		return sb.String() + next()
	}
	t := tuple(vars)
	k := func() string { return t }
	fmt.Fprintf(&sb, "let %s := if %s then\n%s\nelse\n%s\n", t, cond, indent(f.block(st.Body.List, k)), indent(f.block(elseList, k)))
	return sb.String() + next()
}

func indent(s string) string {
	lines := strings.Split(s, "\n")
	for i := range lines {
		lines[i] = "  " + lines[i]
	}
	return strings.Join(lines, "\n")
}

// switch tag { case a, b: …; default: … }  ->  if tag == a || tag == b { … } else { … }
func (f *fn) desugarSwitch(st *ast.SwitchStmt) ast.Stmt {
	if st.Init != nil {
		f.bad(st, "switch with init")
	}
	var clauses []*ast.CaseClause
	var def *ast.CaseClause
	for _, c := range st.Body.List {
		cc := c.(*ast.CaseClause)
		for _, b := range cc.Body {
			if br, ok := b.(*ast.BranchStmt); ok && br.Tok == token.FALLTHROUGH {
				f.bad(st, "fallthrough")
			}
		}
		if cc.List == nil {
			def = cc
		} else {
			clauses = append(clauses, cc)
		}
	}
	var tail ast.Stmt
	if def != nil {
		tail = &ast.BlockStmt{List: def.Body}
	}
	boolT := types.Typ[types.Bool]
	for i := len(clauses) - 1; i >= 0; i-- {
		cc := clauses[i]
		var cond ast.Expr
		for _, v := range cc.List {
			var c ast.Expr = v
			if st.Tag != nil {
				be := &ast.BinaryExpr{X: st.Tag, Op: token.EQL, Y: v}
				f.p.info.Types[be] = types.TypeAndValue{Type: boolT}
				c = be
			}
			if cond == nil {
				cond = c
			} else {
				or := &ast.BinaryExpr{X: cond, Op: token.LOR, Y: c}
				f.p.info.Types[or] = types.TypeAndValue{Type: boolT}
				cond = or
			}
		}
		ifs := &ast.IfStmt{Cond: cond, Body: &ast.BlockStmt{List: cc.Body}}
		if tail != nil {
			ifs.Else = tail
		}
		tail = ifs
	}
	if tail == nil {
		return &ast.EmptyStmt{}
	}
	return tail
}

// ---------------------------------------------------------------------------------------------------

func (tr *translator) translate(key string) *result {
	if r, ok := tr.done[key]; ok {
		if r == nil {
			fail("%s: recursive call", key)
		}
		return r
	}
	tr.done[key] = nil
	t := tr.targets[key]
	savedNegoStr := tr.negoStr
	tr.negoStr = t.negoStr
	defer func() { tr.negoStr = savedNegoStr }()
	p := tr.pkgs[t.pkg]
	decl, ok := p.funcs[t.fn]
	if !ok {
		fail("function %s.%s not found", t.pkg, t.fn)
	}
	f := &fn{tr: tr, p: p, decl: decl, t: t, pathSet: map[string]string{}, oracleSet: map[string]string{}, state: map[string]bool{}, locals: map[string]bool{}, alias: map[string]string{}, streams: map[string]bool{}, structs: map[string][]string{}, freeSig: map[string][]string{}, structTy: map[string]string{}, freeCont: map[string]bool{}, stale: map[string]bool{}, ptrAlias: map[string]string{}, copyAlias: map[string]bool{}, localStruct: map[string][]string{}, oracleSite: map[token.Pos]string{}, oracleCount: map[string]int{}}
	if decl.Recv != nil && len(decl.Recv.List) == 1 && len(decl.Recv.List[0].Names) == 1 {
		f.recv, _ = p.info.Defs[decl.Recv.List[0].Names[0]].(*types.Var)
	}
	sig := p.info.Defs[decl.Name].Type().(*types.Signature)
	for i := 0; i < sig.Results().Len(); i++ {
		v := sig.Results().At(i)
		lt, ok := tr.leanType(v.Type())
		if st, isStruct := v.Type().Underlying().(*types.Struct); !ok && isStruct {
			// a struct result: the tuple of its fields, in declaration order
			var parts []string
			all := true
			for k := 0; k < st.NumFields(); k++ {
				flt, ok2 := tr.leanType(st.Field(k).Type())
				if !ok2 {
					all = false
				}
				parts = append(parts, flt)
			}
			if all {
				lt, ok = strings.Join(parts, " × "), true
				f.structRet = true
			}
		}
		if !ok {
			if t.from == "" && t.fromAfter == "" {
				fail("%s: result of unsupported type %s", key, v.Type())
			}
			lt = "Unit" // a result outside the fragment: a segment may only return nil in this position
		}
		f.retTypes = append(f.retTypes, lt)
		if v.Name() != "" {
			f.named = append(f.named, v.Name())
		}
	}
	stmts := decl.Body.List
	if t.from != "" || t.fromAfter != "" || t.fromLit != "" {
		f.segment = true
		// the statement list (function body, nested block or case body) that contains the first anchor
		var lists [][]ast.Stmt
		ast.Inspect(decl.Body, func(n ast.Node) bool {
			switch b := n.(type) {
			case *ast.BlockStmt:
				lists = append(lists, b.List)
			case *ast.CaseClause:
				lists = append(lists, b.Body)
			}
			return true
		})
		lo, hi := -1, 0
		foundToAfter := false
		if t.fromLit != "" {
			// the segment starts with the first statement of the function literal in the statement that begins with fromLit
			var body []ast.Stmt
			for _, l := range lists {
				for _, s := range l {
					if body == nil && strings.HasPrefix(f.stmtText(s), t.fromLit) {
						ast.Inspect(s, func(n ast.Node) bool {
							if fl, ok := n.(*ast.FuncLit); ok && body == nil {
								body = fl.Body.List
							}
							return body == nil
						})
					}
				}
			}
			if body == nil {
				fail("%s: no function literal in a statement starting with `%s`", key, t.fromLit)
			}
			lists = [][]ast.Stmt{body}
		}
		for _, l := range lists {
			for i, s := range l {
				if lo < 0 && t.fromLit != "" {
					lo, hi, stmts = 0, len(l), l
				}
				if lo < 0 && t.from != "" && strings.HasPrefix(f.stmtText(s), t.from) {
					lo, hi, stmts = i, len(l), l
					continue
				}
				if lo < 0 && t.fromAfter != "" && strings.HasPrefix(f.stmtText(s), t.fromAfter) && i+1 < len(l) {
					lo, hi, stmts = i+1, len(l), l
					continue
				}
				if lo >= 0 && i > lo && t.to != "" && strings.HasPrefix(f.stmtText(s), t.to) {
					hi = i
					break
				}
				if lo >= 0 && i >= lo && t.toAfter != "" && strings.HasPrefix(f.stmtText(s), t.toAfter) {
					hi = i + 1
					foundToAfter = true
					break
				}
			}
			if lo >= 0 {
				break
			}
		}
		if lo < 0 || (t.to != "" && hi == len(stmts)) || (t.toAfter != "" && !foundToAfter) {
			fail("%s: segment anchors not found (`%s%s` … `%s%s`)", key, t.from, t.fromAfter, t.to, t.toAfter)
		}
		stmts = stmts[lo:hi]
	}
	// named results are locals initialised to zero
	var prologue strings.Builder
	if !f.segment {
		for i := 0; i < sig.Results().Len(); i++ {
			v := sig.Results().At(i)
			if v.Name() != "" {
				fmt.Fprintf(&prologue, "let %s : %s := %s\n", leanIdent(v.Name()), f.retTypes[i], zeroOf(v.Type(), f.retTypes[i]))
				f.locals[v.Name()] = true
			}
		}
	}
	if decl.Type.Params != nil && !f.segment {
		for _, fl := range decl.Type.Params.List {
			for _, id := range fl.Names {
				f.locals[id.Name] = true
			}
		}
	}
	stateOrderHook = func(g *fn) []string {
		var out []string
		for k := range g.state {
			out = append(out, k)
		}
		sort.Strings(out)
		return out
	}
	// two passes: the first discovers which variables are threaded state (they must be known when a `return` is emitted)
	end := func() string {
		if f.segment {
			vals := append([]string{}, f.stateOrder()...)
			for _, v := range t.liveOut {
				vals = append(vals, leanIdent(v))
			}
			if len(vals) == 0 {
				vals = []string{"()"}
			}
			return "Except.ok " + tuple(vals)
		}
		if len(f.retTypes) == 0 || len(f.named) > 0 {
			var vals []string
			for _, n := range f.named {
				vals = append(vals, leanIdent(n))
			}
			return f.ret(vals)
		}
		fail("%s: control reaches the end of a function with results", key)
		return ""
	}
	if len(stmts) > 0 {
		a, b := p.fset.Position(stmts[0].Pos()), p.fset.Position(stmts[len(stmts)-1].End())
		coverLines = append(coverLines, fmt.Sprintf("%s:%d-%d %s", filepath.Base(a.Filename), a.Line, b.Line, t.lean))
	}
	_ = f.block(stmts, end)
	f.pre, f.tmp = nil, 0
	f.stale = map[string]bool{}
	saveLocals := map[string]bool{}
	for k, v := range f.locals {
		saveLocals[k] = v
	}
	body := f.block(stmts, end)
	r := &result{t: t, state: f.stateOrder(), body: prologue.String() + body, hasRecvVal: f.recvIsVal}
	if f.recv != nil {
		r.recvName = f.recv.Name()
	}
	if f.recvIsVal {
		lt, ok := tr.leanType(f.recv.Type())
		if !ok {
			fail("%s: receiver of unsupported type", key)
		}
		r.params = append(r.params, param{leanIdent(f.recv.Name()), lt})
	}
	if decl.Type.Params != nil && !f.segment {
		for _, fl := range decl.Type.Params.List {
			for _, id := range fl.Names {
				obj := p.info.Defs[id].(*types.Var)
				lt, ok := tr.leanType(obj.Type())
				if !ok {
					bt := obj.Type()
					if pt, ok := bt.Underlying().(*types.Pointer); ok {
						bt = pt.Elem()
					}
					if _, isStruct := bt.Underlying().(*types.Struct); isStruct {
						continue // a struct parameter: the fields that are read are parameters (field paths)
					}
					fail("%s: parameter %s of unsupported type %s", key, id.Name, obj.Type())
				}
				r.params = append(r.params, param{leanIdent(id.Name), lt})
			}
		}
	}
	r.nDeclared = len(r.params)
	// field paths and inputs in a canonical (alphabetical) order: the signature must not depend on which of them the code
	// happens to read first
	sort.Strings(f.pathOrd)
	sort.Strings(f.oracleOrd)
	for _, pp := range f.pathOrd {
		r.params = append(r.params, param{leanIdent(pp), f.pathSet[pp]})
		r.pathParams = append(r.pathParams, pp)
	}
	for _, o := range f.oracleOrd {
		r.params = append(r.params, param{leanIdent(o), f.oracleSet[o]})
	}
	// free calls: polymorphic result
	if len(t.free) > 0 || len(t.freeStmt) > 0 {
		orig := strings.Join(f.retTypes, " × ")
		var pre []param
		pre = append(pre, param{"ret", "(" + orig + " → R)"})
		for _, fn := range f.freeOrd {
			tys := append(append([]string{}, f.freeSig[fn]...), "R")
			if f.freeCont[fn] { // takes the arguments and what follows the call; both are results of the whole definition
				tys = append(tys[:len(tys)-1], "«RES»", "«RES»")
			}
			pre = append(pre, param{fn, "(" + strings.Join(tys, " → ") + ")"})
		}
		r.params = append(pre, r.params...)
		f.retTypes = []string{"R"}
		r.poly = true
	}
	// result type
	var parts []string
	for _, s := range r.state {
		for _, prm := range r.params {
			if prm.name == s {
				parts = append(parts, prm.typ)
			}
		}
	}
	resOnly := strings.Join(f.retTypes, " × ")
	if len(f.retTypes) > 0 {
		r.retType = resOnly
	}
	parts = append(parts, f.retTypes...)
	full := strings.Join(parts, " × ")
	if full == "" {
		full = "Unit"
	}
	if f.segment {
		var lo []string
		for _, s := range r.state {
			for _, prm := range r.params {
				if prm.name == s {
					lo = append(lo, prm.typ)
				}
			}
		}
		for _, v := range t.liveOut {
			lo = append(lo, f.liveType(v, stmts))
		}
		l := strings.Join(lo, " × ")
		if l == "" {
			l = "Unit"
		}
		full = fmt.Sprintf("Except (%s) (%s)", full, l)
	}
	r.retType = strings.TrimSpace(r.retType)
	r.body = prologue.String() + body
	tr.done[key] = r
	tr.order = append(tr.order, key)
	r.t.doc = t.doc
	resultTypes[key] = full
	return r
}

var resultTypes = map[string]string{}

// source ranges of what was translated: "<file>:<first line>-<last line> <lean name>"
var coverLines []string

func (f *fn) liveType(name string, stmts []ast.Stmt) string {
	var out string
	for _, s := range stmts {
		ast.Inspect(s, func(n ast.Node) bool {
			if id, ok := n.(*ast.Ident); ok && id.Name == name {
				if obj, ok := f.p.info.Defs[id].(*types.Var); ok {
					out, _ = f.tr.leanType(obj.Type())
				} else if obj, ok := f.p.info.Uses[id].(*types.Var); ok && out == "" {
					out, _ = f.tr.leanType(obj.Type())
				}
			}
			return true
		})
	}
	if out == "" {
		fail("%s: live-out variable %s not found", f.t.fn, name)
	}
	return out
}

func main() {
	repo := flag.String("repo", "/repo", "repository root")
	out := flag.String("lean", "", "output Trans.lean")
	cover := flag.String("cover", "", "write the source line ranges of the translated functions / segments (one per line) to this file")
	dequeOut := flag.String("deque", "", "output TransDeque.lean (the deque dialect, deque.go)")
	fwOut := flag.String("fw", "", "output TransFW.lean (the buffer-list dialect, fw.go)")
	flag.Parse()
	abs, _ := filepath.Abs(*repo)
	fset := token.NewFileSet()
	tr := &translator{pkgs: map[string]*pkgInfo{}, done: map[string]*result{}, byFunc: map[string]string{}, targets: map[string]target{}}
	tr.pkgs["gws"] = load(abs, "github.com/lxzan/gws", fset)
	tr.pkgs["internal"] = load(filepath.Join(abs, "internal"), "github.com/lxzan/gws/internal", fset)
	var keys []string
	for _, t := range targets {
		key := t.pkg + "." + t.fn
		if t.from != "" || t.fromAfter != "" || t.fromLit != "" {
			key += "#" + t.lean
		} else {
			tr.byFunc[key] = key
		}
		tr.targets[key] = t
		keys = append(keys, key)
	}
	for _, k := range keys {
		tr.translate(k)
	}
	var sb strings.Builder
	sb.WriteString("import Gws.Trans.Prelude\nimport Gws.Model.Handshake\n/-! GENERATED by tools/gotrans from /repo's current sources on every check run. Do not edit.\n\nEach definition is the translation of the Go function (or statement segment) named in its doc comment. -/\n\nset_option linter.unusedVariables false\n\nnamespace Trans\n\n")
	for _, k := range tr.order {
		r := tr.done[k]
		doc := r.t.pkg + "." + r.t.fn
		if r.t.from != "" {
			doc += fmt.Sprintf(" — statements from `%s` up to (not including) `%s`", r.t.from, r.t.to)
		}
		if r.t.fromLit != "" {
			doc += fmt.Sprintf(" — the body of the function literal in `%s…` up to (not including) `%s`", r.t.fromLit, r.t.to)
		}
		if r.t.fromAfter != "" {
			doc += fmt.Sprintf(" — statements behind `%s` up to (not including) `%s`", r.t.fromAfter, r.t.to)
		}
		if r.t.doc != "" {
			doc += "; " + r.t.doc
		}
		fmt.Fprintf(&sb, "/-- %s -/\ndef %s", doc, r.t.lean)
		if r.poly {
			sb.WriteString(" {R : Type}")
		}
		for _, prm := range r.params {
			fmt.Fprintf(&sb, " (%s : %s)", prm.name, prm.typ)
		}
		fmt.Fprintf(&sb, " : %s :=\n%s\n\n", resultTypes[k], indent(r.body))
		out := strings.ReplaceAll(sb.String(), "«RES»", "("+resultTypes[k]+")")
		sb.Reset()
		sb.WriteString(out)
	}
	sb.WriteString("end Trans\n")
	if *dequeOut != "" {
		if err := os.WriteFile(*dequeOut, []byte(translateDeque(tr.pkgs["internal"])), 0o644); err != nil {
			fail("%v", err)
		}
	}
	if *fwOut != "" {
		if err := os.WriteFile(*fwOut, []byte(translateFW(tr.pkgs["gws"])), 0o644); err != nil {
			fail("%v", err)
		}
	}
	if *cover != "" {
		_ = os.WriteFile(*cover, []byte(strings.Join(coverLines, "\n")+"\n"), 0o644)
	}
	if *out == "" {
		fmt.Print(sb.String())
		return
	}
	if err := os.WriteFile(*out, []byte(sb.String()), 0o644); err != nil {
		fail("%v", err)
	}
}
