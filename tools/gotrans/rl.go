package main

// The read-loop functions of writefile.go (`Conn.splitReader`, `readerWrapper.WriteTo`) — part of the buffer-list dialect's
// output (Gws/Generated/TransFW.lean).
//
// Both are one loop of the form
//
//	for n, err = R.Read(p); err == nil || errors.Is(err, io.EOF); n, err = R.Read(p) { eof := errors.Is(err, io.EOF); …; if eof { break } }
//
// over an io.Reader. The reader is a *script*: the successive results of `Read(p)` as `(chunk, eof)` — `chunk` the bytes
// delivered (`p[:n]`), `eof` whether `io.EOF` came with them; a script that ends without an EOF read is a reader that then
// fails with another error (`GoErr.io`), which ends the loop through its condition. The translation is a Lean `do` block
// (`Id.run do`, `for rd in script do`, with `break` and early `return` as in the source). Calls with effects outside the
// function — the callback `f`, the compressor's `w.Write` — become function parameters that thread an abstract state `σ`
// (so the ORDER of the calls is part of the statement); `c.sw.Write` is the translated `Trans.slideWindow_Write`.
// Statement forms outside the ones below make the translator fail.

import (
	"fmt"
	"go/ast"
	"go/token"
	"strings"
)

var rlFuncs = []string{"Conn.splitReader", "readerWrapper.WriteTo"}

type rlT struct {
	p       *pkgInfo
	fd      *ast.FuncDecl
	name    string
	readBuf string // the slice handed to Read
	count   string // n
	errVar  string
	eff     map[string]string // effectful callee text -> Lean parameter type
	effOrd  []string
	window  bool
	results int
}

func (q *rlT) bad(n ast.Node, why string) {
	pos := q.p.fset.Position(n.Pos())
	fail("read-loop functions: %s:%d: %s", pos.Filename, pos.Line, why)
}

func (q *rlT) txt(n ast.Node) string { return strings.Join(strings.Fields(src(q.p, n)), "") }

func (q *rlT) expr(e ast.Expr) string {
	switch x := e.(type) {
	case *ast.ParenExpr:
		return "(" + q.expr(x.X) + ")"
	case *ast.Ident:
		switch x.Name {
		case "nil":
			return "none"
		case "true", "false":
			return x.Name
		}
		return fwIdent(x.Name)
	case *ast.BasicLit:
		if x.Kind == token.INT {
			return "(" + x.Value + " : Int)"
		}
	case *ast.SliceExpr:
		if q.txt(x) == q.readBuf+"[:"+q.count+"]" {
			return "rd.1"
		}
	case *ast.CallExpr:
		t := q.txt(x.Fun)
		if (t == "int64" || t == "int") && len(x.Args) == 1 {
			return q.expr(x.Args[0])
		}
		if t == "errors.Is" && len(x.Args) == 2 && q.txt(x.Args[1]) == "io.EOF" {
			return fmt.Sprintf("(%s == some (GoErr.named \"EOF\"))", q.expr(x.Args[0]))
		}
	case *ast.BinaryExpr:
		a, b := q.expr(x.X), q.expr(x.Y)
		switch x.Op {
		case token.NEQ:
			return fmt.Sprintf("(%s != %s)", a, b)
		case token.EQL:
			return fmt.Sprintf("(%s == %s)", a, b)
		case token.ADD:
			return fmt.Sprintf("(%s + %s)", a, b)
		}
	}
	q.bad(e, "expression form")
	return ""
}

// a call with effects outside the function: `f(a, b, c)` for a func parameter f, `w.Write(x)` for an interface parameter w
func (q *rlT) effect(c *ast.CallExpr, nres int) (string, bool) {
	t := q.txt(c.Fun)
	isParam := false
	for _, fl := range q.fd.Type.Params.List {
		for _, nm := range fl.Names {
			if t == nm.Name || strings.HasPrefix(t, nm.Name+".") {
				isParam = true
			}
		}
	}
	if !isParam {
		return "", false
	}
	pname := strings.ReplaceAll(t, ".", "_")
	var tys, args []string
	for _, a := range c.Args {
		args = append(args, q.expr(a))
		switch {
		case q.txt(a) == q.readBuf+"[:"+q.count+"]":
			tys = append(tys, "Bytes")
		default:
			tv := q.p.info.Types[a]
			switch types := tv.Type.String(); types {
			case "int":
				tys = append(tys, "Int")
			case "bool":
				tys = append(tys, "Bool")
			default:
				q.bad(a, "argument type "+types)
			}
		}
	}
	res := "Option GoErr"
	if nres == 2 {
		res = "Int × Option GoErr"
	}
	ty := "σ → " + strings.Join(tys, " → ") + " → σ × " + res
	if _, seen := q.eff[pname]; !seen {
		q.eff[pname] = ty
		q.effOrd = append(q.effOrd, pname)
	}
	return fmt.Sprintf("%s st %s", pname, strings.Join(args, " ")), true
}

func (q *rlT) retTuple(vals []ast.Expr) string {
	var vs []string
	for _, v := range vals {
		vs = append(vs, q.expr(v))
	}
	st := "st"
	if q.window {
		st = "(st, c_sw_dict)"
	}
	r := strings.Join(vs, ", ")
	if len(vs) > 1 {
		r = "(" + r + ")"
	}
	return fmt.Sprintf("return (%s, %s)", st, r)
}

func (q *rlT) stmts(list []ast.Stmt, inLoop bool) []string {
	var out []string
	for _, s := range list {
		switch st := s.(type) {
		case *ast.DeferStmt:
			if q.txt(st.Call.Fun) != "binaryPool.Put" {
				q.bad(s, "defer")
			}
		case *ast.DeclStmt:
			gd := st.Decl.(*ast.GenDecl)
			for _, sp := range gd.Specs {
				vs := sp.(*ast.ValueSpec)
				if len(vs.Values) == 1 && q.txt(vs.Values[0].(ast.Expr)) != "" {
					t := q.txt(vs.Values[0])
					if strings.HasPrefix(t, "binaryPool.Get(") {
						continue // the pooled read buffer
					}
					if strings.Contains(t, ".Bytes()[:") {
						q.readBuf = vs.Names[0].Name
						continue
					}
				}
				for i, n := range vs.Names {
					ty := q.p.info.Defs[n].Type().String()
					switch ty {
					case "int":
						val := "0"
						if len(vs.Values) == len(vs.Names) {
							val = q.expr(vs.Values[i])
						}
						out = append(out, fmt.Sprintf("let mut %s : Int := %s", fwIdent(n.Name), val))
					case "error":
						if len(vs.Values) != 0 {
							q.bad(s, "initialised error variable")
						}
						out = append(out, fmt.Sprintf("let mut %s : Option GoErr := none", fwIdent(n.Name)))
					default:
						q.bad(s, "variable of type "+ty)
					}
				}
			}
		case *ast.ForStmt:
			if inLoop {
				q.bad(s, "nested loop")
			}
			init, ok := st.Init.(*ast.AssignStmt)
			if !ok || len(init.Lhs) != 2 || len(init.Rhs) != 1 || st.Post == nil || q.txt(st.Post) != q.txt(init) {
				q.bad(s, "loop form")
			}
			call, ok := init.Rhs[0].(*ast.CallExpr)
			if !ok || !strings.HasSuffix(q.txt(call.Fun), ".Read") || len(call.Args) != 1 || q.txt(call.Args[0]) != q.readBuf {
				q.bad(s, "loop form: not a Read into the read buffer")
			}
			q.count, q.errVar = q.txt(init.Lhs[0]), q.txt(init.Lhs[1])
			if q.txt(st.Cond) != q.errVar+"==nil||errors.Is("+q.errVar+",io.EOF)" {
				q.bad(s, "loop condition")
			}
			out = append(out, "let mut exhausted := true")
			var body []string
			body = append(body, fmt.Sprintf("%s := (rd.1.length : Int)", fwIdent(q.count)))
			body = append(body, fmt.Sprintf("%s := if rd.2 then some (GoErr.named \"EOF\") else none", fwIdent(q.errVar)))
			body = append(body, q.stmts(st.Body.List, true)...)
			out = append(out, "for rd in script do\n"+indent(strings.Join(body, "\n")))
			// the Read that ends the loop through its condition failed with an error other than io.EOF
			out = append(out, fmt.Sprintf("if exhausted then\n  %s := some GoErr.io", fwIdent(q.errVar)))
		case *ast.AssignStmt:
			switch {
			case st.Tok == token.DEFINE && len(st.Lhs) == 1 && len(st.Rhs) == 1:
				out = append(out, fmt.Sprintf("let %s : Bool := %s", fwIdent(q.txt(st.Lhs[0])), q.expr(st.Rhs[0])))
			case st.Tok == token.ADD_ASSIGN && len(st.Lhs) == 1:
				out = append(out, fmt.Sprintf("%s := %s + %s", q.expr(st.Lhs[0]), q.expr(st.Lhs[0]), q.expr(st.Rhs[0])))
			case st.Tok == token.ASSIGN && len(st.Lhs) == 2 && q.txt(st.Lhs[0]) == "_" && q.txt(st.Lhs[1]) == "_" && len(st.Rhs) == 1:
				// _, _ = c.sw.Write(p[:n])
				c, ok := st.Rhs[0].(*ast.CallExpr)
				if !ok || q.txt(c.Fun) != "c.sw.Write" || len(c.Args) != 1 {
					q.bad(s, "discarded call")
				}
				q.window = true
				out = append(out, fmt.Sprintf("c_sw_dict := (Trans.slideWindow_Write %s (c_dict := c_sw_dict) (c_enabled := c_sw_enabled) (c_size := c_sw_size)).1", q.expr(c.Args[0])))
			default:
				q.bad(s, "assignment form")
			}
		case *ast.IncDecStmt:
			if st.Tok != token.INC {
				q.bad(s, "decrement")
			}
			out = append(out, fmt.Sprintf("%s := %s + 1", q.expr(st.X), q.expr(st.X)))
		case *ast.IfStmt:
			if st.Else != nil {
				q.bad(s, "else")
			}
			if st.Init != nil {
				// if err = f(…); err != nil { return … }   /   if _, err = w.Write(…); err != nil { return … }
				as, ok := st.Init.(*ast.AssignStmt)
				if !ok || as.Tok != token.ASSIGN || len(as.Rhs) != 1 {
					q.bad(s, "if-init form")
				}
				c, ok := as.Rhs[0].(*ast.CallExpr)
				if !ok {
					q.bad(s, "if-init form")
				}
				app, ok := q.effect(c, len(as.Lhs))
				if !ok {
					q.bad(s, "call of something that is not a parameter")
				}
				out = append(out, "let r := "+app, "st := r.1")
				switch {
				case len(as.Lhs) == 1:
					out = append(out, fmt.Sprintf("%s := r.2", q.expr(as.Lhs[0])))
				case len(as.Lhs) == 2 && q.txt(as.Lhs[0]) == "_":
					out = append(out, fmt.Sprintf("%s := r.2.2", q.expr(as.Lhs[1])))
				default:
					q.bad(s, "if-init results")
				}
			}
			cond := q.expr(st.Cond)
			body := q.stmts(st.Body.List, inLoop)
			out = append(out, fmt.Sprintf("if %s then\n%s", cond, indent(strings.Join(body, "\n"))))
		case *ast.BranchStmt:
			if st.Tok != token.BREAK || !inLoop || st.Label != nil {
				q.bad(s, "branch")
			}
			out = append(out, "exhausted := false", "break")
		case *ast.ReturnStmt:
			out = append(out, q.retTuple(st.Results))
		default:
			q.bad(s, "statement form")
		}
	}
	return out
}

func translateRL(p *pkgInfo) string {
	var sb strings.Builder
	for _, name := range rlFuncs {
		fd, ok := p.funcs[name]
		if !ok {
			fail("read-loop functions: %s not found", name)
		}
		q := &rlT{p: p, fd: fd, name: name, eff: map[string]string{}}
		ast.Inspect(fd.Body, func(n ast.Node) bool {
			if c, ok := n.(*ast.CallExpr); ok && q.txt(c.Fun) == "c.sw.Write" {
				q.window = true
			}
			return true
		})
		body := q.stmts(fd.Body.List, false)
		a, b := p.fset.Position(fd.Pos()), p.fset.Position(fd.End())
		lean := strings.ReplaceAll(name, ".", "_")
		coverLines = append(coverLines, fmt.Sprintf("writefile.go:%d-%d %s", a.Line, b.Line, "TransFW."+lean))
		head := "{σ : Type}"
		for _, e := range q.effOrd {
			head += fmt.Sprintf(" (%s : %s)", e, q.eff[e])
		}
		head += " (st0 : σ)"
		stT := "σ"
		pre := []string{"let mut st := st0"}
		if q.window {
			head += " (c_sw_dict0 : Bytes) (c_sw_enabled : Bool) (c_sw_size : Int)"
			stT = "(σ × Bytes)"
			pre = append(pre, "let mut c_sw_dict := c_sw_dict0")
		}
		head += " (script : List (Bytes × Bool))"
		var rts []string
		for _, r := range fd.Type.Results.List {
			switch t := p.info.Types[r.Type].Type.String(); t {
			case "error":
				rts = append(rts, "Option GoErr")
			case "int64", "int":
				rts = append(rts, "Int")
			default:
				fail("read-loop functions: %s: result type %s", name, t)
			}
		}
		rt := strings.Join(rts, " × ")
		if len(rts) > 1 {
			rt = "(" + rt + ")"
		}
		fmt.Fprintf(&sb, "/-- gws.%s (writefile.go:%d-%d): the reader is the script of its `Read` results; the calls with effects outside the function thread the state `σ` -/\ndef %s %s : %s × %s := Id.run do\n%s\n\n",
			name, a.Line, b.Line, lean, head, stT, rt, indent(strings.Join(append(pre, body...), "\n")))
	}
	return sb.String()
}
