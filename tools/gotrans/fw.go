package main

// The buffer-list dialect of gotrans (tie T3 for the aggregator `flateWriter` of writefile.go, property C05).
//
// `flateWriter` collects what the compressor writes in a list of pooled `*bytes.Buffer`s and hands complete segments to a
// callback; it manipulates the buffers through pointers (`tail := c.buffers[n-1]; …; tail.Write(p)`), which the functional
// fragment of main.go cannot express. Like the deque dialect this translator emits, for the four methods of the type, Lean
// `do` blocks in the `Option` monad (`none` = run-time panic) with the writer threaded as a mutable value
// (`w : Writer.FlateWriter`, the model's structure: index + list of buffers with capacity and contents):
//
//   * a `*bytes.Buffer` that is an element of `c.buffers` is the index of that element: `c.buffers[i]` is the bounds-checked
//     `GoFW.bufAddr`, `X.Len()/Cap()/Bytes()` read through `GoFW.deref`, `X.Write(p)`/`X.Truncate(n)` update the element;
//   * a buffer obtained from `binaryPool.Get(size)` enters the model when it is appended to `c.buffers`: only the idioms
//     `c.buffers = append(c.buffers, binaryPool.Get(size))` and `X = binaryPool.Get(size); c.buffers = append(c.buffers, X)`
//     (two adjacent statements) are accepted; `binaryPool.Put(X)` is the end of X's use here and has no effect on the value;
//   * `c.buffers = c.buffers[1:]` shifts the indices: pointer variables defined before it may not be used after it
//     (the translator refuses);
//   * the callback `c.cb` has effects outside the writer (it builds and writes a frame): it is a function parameter that threads
//     an abstract state, `cb : σ → Nat → Bool → Bytes → σ × Option GoErr`, so the order of the callbacks is part of the statement.
//
// Anything else makes the translator fail.

import (
	"fmt"
	"go/ast"
	"go/printer"
	"go/token"
	"go/types"
	"path/filepath"
	"strings"
)

var fwFuncs = []string{"flateWriter.shouldCall", "flateWriter.write", "flateWriter.Write", "flateWriter.Flush"}

type fwT struct {
	p       *pkgInfo
	decl    *ast.FuncDecl
	mutates map[string]bool
	results map[string][]string // method -> Lean result types
	named   []string            // named results of the current function
	dead    map[string]bool     // pointer variables invalidated by a re-slice of c.buffers
	ptrs    map[string]bool     // local pointer variables
	tmp     int
	usesCb  bool
}

func (q *fwT) bad(n ast.Node, why string) {
	pos := q.p.fset.Position(n.Pos())
	fail("buffer-list dialect: %s:%d: %s", filepath.Base(pos.Filename), pos.Line, why)
}

func (q *fwT) typeOf(e ast.Expr) types.Type {
	if tv, ok := q.p.info.Types[e]; ok {
		return tv.Type
	}
	if id, ok := e.(*ast.Ident); ok {
		if o := q.p.info.Uses[id]; o != nil {
			return o.Type()
		}
		if o := q.p.info.Defs[id]; o != nil {
			return o.Type()
		}
	}
	return nil
}

func (q *fwT) kind(t types.Type) string {
	if t == nil {
		return "?"
	}
	if isBuffer(t) {
		return "bufptr"
	}
	if s, ok := t.Underlying().(*types.Slice); ok {
		if isBuffer(s.Elem()) {
			return "bufs"
		}
		if b, ok := s.Elem().Underlying().(*types.Basic); ok && b.Kind() == types.Uint8 {
			return "bytes"
		}
	}
	if types.TypeString(t, nil) == "error" {
		return "error"
	}
	if b, ok := t.Underlying().(*types.Basic); ok {
		switch {
		case b.Kind() == types.Bool || b.Kind() == types.UntypedBool:
			return "bool"
		case b.Kind() == types.Uint32:
			return "u32"
		case b.Info()&types.IsInteger != 0:
			return "int"
		}
	}
	return "?"
}

func (q *fwT) k(e ast.Expr) string { return q.kind(q.typeOf(e)) }

func (q *fwT) leanType(kind string) string {
	switch kind {
	case "bufptr":
		return "Nat"
	case "int":
		return "Int"
	case "bool":
		return "Bool"
	case "bytes":
		return "Bytes"
	case "error":
		return "Option GoErr"
	case "u32":
		return "UInt32"
	}
	return ""
}

func (q *fwT) isRecv(e ast.Expr) bool {
	id, ok := e.(*ast.Ident)
	return ok && id.Name == q.decl.Recv.List[0].Names[0].Name
}

func fwIdent(s string) string {
	switch s {
	case "w", "cb", "end", "at", "from", "to", "open", "fun", "match", "then", "else", "show", "have", "by", "in", "do", "let", "if", "this":
		return s + "'"
	}
	return s
}

func (q *fwT) isPoolGet(e ast.Expr) (ast.Expr, bool) {
	c, ok := e.(*ast.CallExpr)
	if !ok || len(c.Args) != 1 {
		return nil, false
	}
	if strings.Join(strings.Fields(src(q.p, c.Fun)), "") == "binaryPool.Get" {
		return c.Args[0], true
	}
	return nil, false
}

func src(p *pkgInfo, n ast.Node) string {
	var sb strings.Builder
	_ = printer.Fprint(&sb, p.fset, n)
	return sb.String()
}

func (q *fwT) ptr(e ast.Expr) string {
	if id, ok := e.(*ast.Ident); ok {
		if q.dead[id.Name] {
			q.bad(e, "a buffer pointer used after c.buffers was re-sliced")
		}
		return fwIdent(id.Name)
	}
	return q.expr(e)
}

func (q *fwT) expr(e ast.Expr) string {
	if tv, ok := q.p.info.Types[e]; ok && tv.Value != nil {
		switch q.kind(tv.Type) {
		case "int", "u32":
			return "(" + tv.Value.ExactString() + ")"
		case "bool":
			return tv.Value.ExactString()
		}
	}
	switch x := e.(type) {
	case *ast.ParenExpr:
		return "(" + q.expr(x.X) + ")"
	case *ast.Ident:
		switch x.Name {
		case "nil":
			return "none"
		case "true", "false":
			return x.Name
		}
		if q.ptrs[x.Name] {
			return q.ptr(x)
		}
		return fwIdent(x.Name)
	case *ast.SelectorExpr:
		if q.isRecv(x.X) {
			switch x.Sel.Name {
			case "buffers":
				return "w.buffers"
			case "index":
				return "w.index"
			}
		}
	case *ast.IndexExpr:
		if q.k(x.X) == "bufs" {
			return fmt.Sprintf("(← GoFW.bufAddr %s %s)", q.expr(x.X), q.expr(x.Index))
		}
	case *ast.SliceExpr:
		if x.High == nil && x.Low != nil && !x.Slice3 {
			switch q.k(x.X) {
			case "bytes":
				return fmt.Sprintf("(← GoFW.sliceFrom %s %s)", q.expr(x.X), q.expr(x.Low))
			case "bufs":
				return fmt.Sprintf("(← GoFW.sliceFrom %s %s)", q.expr(x.X), q.expr(x.Low))
			}
		}
	case *ast.UnaryExpr:
		if x.Op == token.NOT {
			return "(¬ " + q.expr(x.X) + ")"
		}
	case *ast.BinaryExpr:
		a, b := q.expr(x.X), q.expr(x.Y)
		switch x.Op {
		case token.EQL:
			return fmt.Sprintf("(%s = %s)", a, b)
		case token.NEQ:
			return fmt.Sprintf("(%s ≠ %s)", a, b)
		case token.GTR:
			return fmt.Sprintf("(%s > %s)", a, b)
		case token.LSS:
			return fmt.Sprintf("(%s < %s)", a, b)
		case token.GEQ:
			return fmt.Sprintf("(%s ≥ %s)", a, b)
		case token.LEQ:
			return fmt.Sprintf("(%s ≤ %s)", a, b)
		case token.ADD:
			return fmt.Sprintf("(%s + %s)", a, b)
		case token.SUB:
			if q.k(x.X) != "int" {
				q.bad(e, "subtraction on an unsigned type")
			}
			return fmt.Sprintf("(%s - %s)", a, b)
		}
	case *ast.CallExpr:
		text := strings.Join(strings.Fields(src(q.p, x.Fun)), "")
		switch text {
		case "len":
			return fmt.Sprintf("(%s.length : Int)", q.expr(x.Args[0]))
		case "internal.Max":
			return fmt.Sprintf("(max %s %s)", q.expr(x.Args[0]), q.expr(x.Args[1]))
		case "binary.BigEndian.Uint32":
			return fmt.Sprintf("(goU32BE %s)", q.expr(x.Args[0]))
		case "c.cb":
			q.bad(e, "the callback outside `x = c.cb(…)` / `var x = c.cb(…)`")
		}
		if sel, ok := x.Fun.(*ast.SelectorExpr); ok {
			if q.k(sel.X) == "bufptr" && len(x.Args) == 0 {
				switch sel.Sel.Name {
				case "Len":
					return fmt.Sprintf("((← GoFW.deref w %s).data.length : Int)", q.ptr(sel.X))
				case "Cap":
					return fmt.Sprintf("((← GoFW.deref w %s).cap : Int)", q.ptr(sel.X))
				case "Bytes":
					return fmt.Sprintf("(← GoFW.deref w %s).data", q.ptr(sel.X))
				}
			}
			if q.isRecv(sel.X) {
				name := "flateWriter." + sel.Sel.Name
				if _, ok := q.results[name]; ok && !q.mutates[name] {
					return fmt.Sprintf("(← %s w)", strings.ReplaceAll(name, ".", "_"))
				}
			}
		}
	}
	q.bad(e, "expression form")
	return ""
}

// a Go bool expression used as a value (not as the condition of an if): comparisons are propositions in the translation
func (q *fwT) boolVal(e ast.Expr) string {
	if q.k(e) == "bool" {
		switch x := e.(type) {
		case *ast.BinaryExpr:
			return "decide " + q.expr(x)
		case *ast.UnaryExpr:
			return "decide " + q.expr(x)
		}
	}
	return q.expr(e)
}

func (q *fwT) ret(vals []ast.Expr, name string) string {
	var vs []string
	if len(vals) == 0 {
		for _, n := range q.named {
			vs = append(vs, fwIdent(n))
		}
	}
	for _, v := range vals {
		vs = append(vs, q.boolVal(v))
	}
	v := strings.Join(vs, ", ")
	if len(vs) > 1 {
		v = "(" + v + ")"
	}
	ws := "w"
	if q.usesCb {
		ws = "w, st"
	}
	switch {
	case q.mutates[name] && v != "":
		return fmt.Sprintf("return (%s, %s)", ws, v)
	case q.mutates[name]:
		return "return (" + ws + ")"
	case v != "":
		return "return " + v
	}
	q.bad(q.decl, "a function without result and without effect")
	return ""
}

func (q *fwT) assign(lhs ast.Expr, rhs string) string {
	switch x := lhs.(type) {
	case *ast.Ident:
		return fmt.Sprintf("%s := %s", fwIdent(x.Name), rhs)
	case *ast.SelectorExpr:
		if q.isRecv(x.X) && (x.Sel.Name == "buffers" || x.Sel.Name == "index") {
			return fmt.Sprintf("w := { w with %s := %s }", x.Sel.Name, rhs)
		}
	}
	q.bad(lhs, "assignment target")
	return ""
}

func (q *fwT) declare(id *ast.Ident, val string) string {
	k := q.k(id)
	lt := q.leanType(k)
	if lt == "" {
		q.bad(id, "variable of unsupported type")
	}
	if k == "bufptr" {
		q.ptrs[id.Name] = true
		delete(q.dead, id.Name)
	}
	return fmt.Sprintf("let mut %s : %s := %s", fwIdent(id.Name), lt, val)
}

// `x = c.cb(i, eof, bytes)` / `var x = c.cb(…)`: the callback threads the outside state
func (q *fwT) cbCall(e ast.Expr) (string, bool) {
	c, ok := e.(*ast.CallExpr)
	if !ok || strings.Join(strings.Fields(src(q.p, c.Fun)), "") != "c.cb" {
		return "", false
	}
	if len(c.Args) != 3 {
		q.bad(e, "callback arity")
	}
	q.tmp++
	return fmt.Sprintf("let r%d := cb st %s %s %s\nst := r%d.1", q.tmp, q.expr(c.Args[0]), q.expr(c.Args[1]), q.expr(c.Args[2]), q.tmp), true
}

func (q *fwT) block(list []ast.Stmt, name string) string {
	var out []string
	for i := 0; i < len(list); i++ {
		s := list[i]
		// X = binaryPool.Get(size); c.buffers = append(c.buffers, X)
		if as, ok := s.(*ast.AssignStmt); ok && len(as.Lhs) == 1 && len(as.Rhs) == 1 && as.Tok == token.ASSIGN {
			if size, ok := q.isPoolGet(as.Rhs[0]); ok {
				id, isId := as.Lhs[0].(*ast.Ident)
				if !isId || i+1 >= len(list) {
					q.bad(s, "binaryPool.Get outside the accepted idioms")
				}
				nx, ok := list[i+1].(*ast.AssignStmt)
				want := "c.buffers=append(c.buffers," + id.Name + ")"
				if !ok || strings.Join(strings.Fields(src(q.p, nx)), "") != want {
					q.bad(s, "binaryPool.Get whose buffer is not appended to c.buffers by the next statement")
				}
				out = append(out, fmt.Sprintf("w := { w with buffers := w.buffers ++ [GoFW.poolGet %s] }", q.expr(size)))
				out = append(out, fmt.Sprintf("%s := w.buffers.length - 1", fwIdent(id.Name)))
				delete(q.dead, id.Name)
				i++
				continue
			}
		}
		if t := q.stmt(s, name); t != "" {
			out = append(out, t)
		}
	}
	if len(out) == 0 {
		return "pure ()"
	}
	return strings.Join(out, "\n")
}

func (q *fwT) stmt(s ast.Stmt, name string) string {
	switch st := s.(type) {
	case *ast.ReturnStmt:
		return q.ret(st.Results, name)
	case *ast.DeclStmt:
		gd := st.Decl.(*ast.GenDecl)
		var lines []string
		for _, sp := range gd.Specs {
			vs := sp.(*ast.ValueSpec)
			if len(vs.Values) != len(vs.Names) {
				q.bad(s, "var without initial value")
			}
			for i, n := range vs.Names {
				if pre, ok := q.cbCall(vs.Values[i]); ok {
					lines = append(lines, pre, q.declare(n, fmt.Sprintf("r%d.2", q.tmp)))
					continue
				}
				lines = append(lines, q.declare(n, q.boolVal(vs.Values[i])))
			}
		}
		return strings.Join(lines, "\n")
	case *ast.IncDecStmt:
		if st.Tok != token.INC {
			q.bad(s, "decrement")
		}
		return q.assign(st.X, q.expr(st.X)+" + 1")
	case *ast.ExprStmt:
		c, ok := st.X.(*ast.CallExpr)
		if !ok {
			q.bad(s, "expression statement")
		}
		text := strings.Join(strings.Fields(src(q.p, c.Fun)), "")
		if text == "binaryPool.Put" {
			return "" // the end of this buffer's use here; no effect on the values
		}
		if sel, ok := c.Fun.(*ast.SelectorExpr); ok {
			if q.k(sel.X) == "bufptr" {
				switch sel.Sel.Name {
				case "Write":
					return fmt.Sprintf("w ← GoFW.bufWrite w %s %s", q.ptr(sel.X), q.expr(c.Args[0]))
				case "Truncate":
					return fmt.Sprintf("w ← GoFW.bufTruncate w %s %s", q.ptr(sel.X), q.expr(c.Args[0]))
				}
			}
			if q.isRecv(sel.X) {
				n := "flateWriter." + sel.Sel.Name
				if q.mutates[n] && len(q.results[n]) == 0 {
					var args []string
					for _, a := range c.Args {
						args = append(args, q.expr(a))
					}
					return strings.TrimSpace(fmt.Sprintf("w ← %s w %s", strings.ReplaceAll(n, ".", "_"), strings.Join(args, " ")))
				}
			}
		}
		q.bad(s, "call statement")
	case *ast.AssignStmt:
		if st.Tok == token.ADD_ASSIGN && len(st.Lhs) == 1 {
			return q.assign(st.Lhs[0], fmt.Sprintf("%s + %s", q.expr(st.Lhs[0]), q.expr(st.Rhs[0])))
		}
		if len(st.Lhs) != 1 || len(st.Rhs) != 1 {
			q.bad(s, "tuple assignment")
		}
		// c.buffers = append(c.buffers, binaryPool.Get(size))
		if c, ok := st.Rhs[0].(*ast.CallExpr); ok && strings.Join(strings.Fields(src(q.p, c.Fun)), "") == "append" && len(c.Args) == 2 {
			if size, ok := q.isPoolGet(c.Args[1]); ok && strings.Join(strings.Fields(src(q.p, st.Lhs[0])), "") == "c.buffers" && strings.Join(strings.Fields(src(q.p, c.Args[0])), "") == "c.buffers" {
				return fmt.Sprintf("w := { w with buffers := w.buffers ++ [GoFW.poolGet %s] }", q.expr(size))
			}
			q.bad(s, "append outside the accepted idioms")
		}
		if pre, ok := q.cbCall(st.Rhs[0]); ok {
			if st.Tok == token.DEFINE {
				return pre + "\n" + q.declare(st.Lhs[0].(*ast.Ident), fmt.Sprintf("r%d.2", q.tmp))
			}
			return pre + "\n" + q.assign(st.Lhs[0], fmt.Sprintf("r%d.2", q.tmp))
		}
		if st.Tok == token.DEFINE {
			return q.declare(st.Lhs[0].(*ast.Ident), q.boolVal(st.Rhs[0]))
		}
		rhs := q.boolVal(st.Rhs[0])
		if strings.Join(strings.Fields(src(q.p, st.Lhs[0])), "") == "c.buffers" {
			if _, ok := st.Rhs[0].(*ast.SliceExpr); ok { // indices shift: earlier pointers are invalid from here on
				for n := range q.ptrs {
					q.dead[n] = true
				}
			}
		}
		return q.assign(st.Lhs[0], rhs)
	case *ast.IfStmt:
		pre := ""
		if st.Init != nil {
			pre = q.stmt(st.Init, name) + "\n"
		}
		// `if A && B { … }` without else: B is only evaluated when A holds (it may contain an index or slice expression that
		// would panic otherwise): nested ifs
		if be, ok := st.Cond.(*ast.BinaryExpr); ok && be.Op == token.LAND && st.Else == nil {
			inner := &ast.IfStmt{Cond: be.Y, Body: st.Body}
			outer := &ast.IfStmt{Cond: be.X, Body: &ast.BlockStmt{List: []ast.Stmt{inner}}}
			return pre + q.stmt(outer, name)
		}
		out := pre + fmt.Sprintf("if %s then\n%s", q.expr(st.Cond), indent(q.block(st.Body.List, name)))
		switch e := st.Else.(type) {
		case nil:
		case *ast.BlockStmt:
			out += "\nelse\n" + indent(q.block(e.List, name))
		default:
			q.bad(s, "else-if")
		}
		return out
	case *ast.ForStmt:
		// counted loop `for i := a; i < N; i++ { body }`, body without return/break/continue, N not assigned in the body
		init, ok1 := st.Init.(*ast.AssignStmt)
		cond, ok2 := st.Cond.(*ast.BinaryExpr)
		post, ok3 := st.Post.(*ast.IncDecStmt)
		if !ok1 || !ok2 || !ok3 || init.Tok != token.DEFINE || len(init.Lhs) != 1 || cond.Op != token.LSS || post.Tok != token.INC {
			q.bad(s, "loop form")
		}
		iv := init.Lhs[0].(*ast.Ident)
		if src(q.p, cond.X) != iv.Name || src(q.p, post.X) != iv.Name {
			q.bad(s, "loop form")
		}
		badBody := false
		ast.Inspect(st.Body, func(n ast.Node) bool {
			switch b := n.(type) {
			case *ast.ReturnStmt, *ast.BranchStmt, *ast.ForStmt, *ast.RangeStmt:
				badBody = true
			case *ast.AssignStmt:
				for _, l := range b.Lhs {
					t := strings.Join(strings.Fields(src(q.p, l)), "")
					if t == iv.Name || t == "c.buffers" { // the bound len(c.buffers) must not change
						badBody = true
					}
				}
			}
			return true
		})
		if badBody {
			q.bad(s, "loop body")
		}
		lo, hi := q.expr(init.Rhs[0]), q.expr(cond.Y)
		q.tmp++
		return fmt.Sprintf("for i' in List.range' (Int.toNat %s) (Int.toNat (%s - %s)) do\n  let %s : Int := (i' : Int)\n%s", lo, hi, lo, fwIdent(iv.Name), indent(q.block(st.Body.List, name)))
	}
	q.bad(s, "statement form")
	return ""
}

func translateFW(p *pkgInfo) string {
	q := &fwT{p: p, mutates: map[string]bool{}, results: map[string][]string{}}
	// which methods assign through the receiver (directly or by calling one that does)
	for changed := true; changed; {
		changed = false
		for _, name := range fwFuncs {
			fd, ok := p.funcs[name]
			if !ok {
				fail("buffer-list dialect: %s not found", name)
			}
			if q.mutates[name] {
				continue
			}
			m := false
			ast.Inspect(fd.Body, func(n ast.Node) bool {
				switch x := n.(type) {
				case *ast.AssignStmt:
					for _, l := range x.Lhs {
						if strings.HasPrefix(strings.Join(strings.Fields(src(p, l)), ""), "c.") {
							m = true
						}
					}
				case *ast.IncDecStmt:
					if strings.HasPrefix(src(p, x.X), "c.") {
						m = true
					}
				case *ast.CallExpr:
					if sel, ok := x.Fun.(*ast.SelectorExpr); ok {
						if sel.Sel.Name == "Write" || sel.Sel.Name == "Truncate" {
							m = true
						}
						if id, ok := sel.X.(*ast.Ident); ok && id.Name == "c" && q.mutates["flateWriter."+sel.Sel.Name] {
							m = true
						}
					}
				}
				return true
			})
			if m {
				q.mutates[name] = true
				changed = true
			}
		}
	}
	for _, name := range fwFuncs {
		fd := p.funcs[name]
		q.results[name] = []string{}
		if fd.Type.Results != nil {
			for _, r := range fd.Type.Results.List {
				lt := q.leanType(q.kind(p.info.Types[r.Type].Type))
				if lt == "" {
					fail("buffer-list dialect: %s: result type", name)
				}
				n := len(r.Names)
				if n == 0 {
					n = 1
				}
				for i := 0; i < n; i++ {
					q.results[name] = append(q.results[name], lt)
				}
			}
		}
	}
	var sb strings.Builder
	sb.WriteString("import Gws.Trans.FWPrelude\nimport Gws.Generated.Trans\n/-! GENERATED by tools/gotrans (buffer-list dialect, tools/gotrans/fw.go) from /repo/writefile.go on every check run. Do not edit.\n\nThe methods of `flateWriter`, statement by statement, in the `Option` monad (`none` = run-time panic); a `*bytes.Buffer` that is an\nelement of `c.buffers` is the index of that element, see Gws/Trans/FWPrelude.lean. -/\n\nset_option linter.unusedVariables false\n\nnamespace TransFW\n\n")
	for _, name := range fwFuncs {
		fd := p.funcs[name]
		q.decl = fd
		q.dead, q.ptrs, q.named = map[string]bool{}, map[string]bool{}, nil
		a, b := p.fset.Position(fd.Pos()), p.fset.Position(fd.End())
		lean := strings.ReplaceAll(name, ".", "_")
		coverLines = append(coverLines, fmt.Sprintf("%s:%d-%d %s", filepath.Base(a.Filename), a.Line, b.Line, "TransFW."+lean))
		usesCb := false
		ast.Inspect(fd.Body, func(n ast.Node) bool {
			if c, ok := n.(*ast.CallExpr); ok {
				t := strings.Join(strings.Fields(src(p, c.Fun)), "")
				if t == "c.cb" {
					usesCb = true
				}
			}
			return true
		})
		head := "(w0 : Writer.FlateWriter)"
		q.usesCb = usesCb
		if usesCb {
			head = "{σ : Type} (cb : σ → Nat → Bool → Bytes → σ × Option GoErr) (st0 : σ) " + head
		}
		for _, fl := range fd.Type.Params.List {
			for _, nm := range fl.Names {
				lt := q.leanType(q.kind(p.info.Types[fl.Type].Type))
				if lt == "" {
					q.bad(fl, "parameter type")
				}
				head += fmt.Sprintf(" (%s : %s)", fwIdent(nm.Name), lt)
			}
		}
		rt := strings.Join(q.results[name], " × ")
		switch {
		case q.mutates[name] && rt != "" && usesCb:
			rt = "Option (Writer.FlateWriter × σ × " + rt + ")"
		case q.mutates[name] && rt != "":
			rt = "Option (Writer.FlateWriter × " + rt + ")"
		case q.mutates[name] && usesCb:
			rt = "Option (Writer.FlateWriter × σ)"
		case q.mutates[name]:
			rt = "Option Writer.FlateWriter"
		default:
			rt = "Option " + rt
		}
		var body []string
		body = append(body, "let mut w := w0")
		if usesCb {
			body = append(body, "let mut st := st0")
		}
		if fd.Type.Results != nil {
			for _, r := range fd.Type.Results.List {
				for _, nm := range r.Names {
					k := q.kind(p.info.Types[r.Type].Type)
					zero := "0"
					if k == "error" {
						zero = "none"
					}
					body = append(body, fmt.Sprintf("let mut %s : %s := %s", fwIdent(nm.Name), q.leanType(k), zero))
					q.named = append(q.named, nm.Name)
				}
			}
		}
		body = append(body, q.block(fd.Body.List, name))
		if n := len(fd.Body.List); n == 0 || !isReturn(fd.Body.List[n-1]) {
			body = append(body, q.ret(nil, name))
		}
		fmt.Fprintf(&sb, "/-- gws.%s (writefile.go:%d-%d) -/\ndef %s %s : %s := do\n%s\n\n", name, a.Line, b.Line, lean, head, rt, indent(strings.Join(body, "\n")))
	}
	sb.WriteString(translateRL(p))
	sb.WriteString("end TransFW\n")
	return sb.String()
}
