module gotrans

go 1.23
