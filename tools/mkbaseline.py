#!/usr/bin/env python3
"""Records the digests of /repo's source files (as tools/factgen computes them) in baseline/file_digests.json.
Run it after every commit to /repo, on a clean tree: a check that later finds different digests knows that it
is looking at a changed tree and widens a quick run (see `check`).  Never run by a check."""
import json, os, subprocess, sys
ROOT = os.path.dirname(os.path.dirname(os.path.abspath(__file__)))
st = subprocess.run(["git", "-C", "/repo", "status", "--porcelain"], capture_output=True, text=True).stdout.strip()
if st:
    sys.exit("/repo has uncommitted changes:\n" + st)
env = dict(os.environ, GOFLAGS="-mod=mod", GOPROXY="off", GOSUMDB="off", GOTOOLCHAIN="local")
exe = os.path.join(ROOT, ".build", "factgen-baseline")
os.makedirs(os.path.dirname(exe), exist_ok=True)
subprocess.run(["go", "build", "-o", exe, "."], cwd=os.path.join(ROOT, "tools", "factgen"), env=env, check=True)
out = os.path.join(ROOT, ".build", "facts-baseline.json")
subprocess.run([exe, "-repo", "/repo", "-json", out], check=True)
d = json.load(open(out))["file_digests"]
os.makedirs(os.path.join(ROOT, "baseline"), exist_ok=True)
json.dump(dict(sorted(d.items())), open(os.path.join(ROOT, "baseline", "file_digests.json"), "w"), indent=1)
head = subprocess.run(["git", "-C", "/repo", "rev-parse", "HEAD"], capture_output=True, text=True).stdout.strip()
open(os.path.join(ROOT, "baseline", "repo_head.txt"), "w").write(head + "\n")
print(len(d), "files; /repo at", head[:12])
