#!/usr/bin/env python3
"""Regenerates MANIFEST.json from tools/registry.py + tools/manifest_text.py (keeps them consistent)."""
import json, os, subprocess, sys
ROOT = os.path.dirname(os.path.dirname(os.path.abspath(__file__)))
sys.path.insert(0, os.path.join(ROOT, "tools"))
import registry, manifest_text as T

props = [json.loads(l)["id"] for l in open(os.path.join(ROOT, "properties.jsonl"))]
hook_commits = subprocess.run(["git", "-C", "/repo", "log", "--format=%H", "--grep=^verif hooks"], capture_output=True, text=True).stdout.split()
checks, na = [], []
for p in props:
    if p in registry.PROPS and p in T.CLAIMS and p not in getattr(T, 'PENDING', {}):
        c = T.CLAIMS[p]
        checks.append({
            "property_id": p,
            "quick_cmd": f"./check {p} --tier quick",
            "thorough_cmd": f"./check {p} --tier thorough",
            "evidence_file": f"/verif/evidence/{p}.json",
            "replay_cmd_template": f"./check {p} --replay {{path}}",
            "engine": "lean4-proof+correspondence",
            "level_claimed": {"category": "proof", "text": c["text"], "design_ref": c.get("design_ref", "DESIGN.md section 5")},
            "level_note": c["note"],
            "technique": c["technique"] + (" + equivalence theorems between the model and the Go source translated to Lean on every run (tools/gotrans, tie T3)" if registry.PROPS[p].get("trans_modules") else ""),
        })
    else:
        na.append({"property_id": p, "reason": getattr(T, "PENDING", {}).get(p) or T.NOT_CLAIMED.get(p, "no check registered in this commit")})
m = {
    "version": 1,
    "setup_cmd": "./setup.sh",
    "hooks": {
        "guard": "verif",
        "enable": "go build -tags verif (harness module replaces github.com/lxzan/gws with /repo)",
        "baseline_off_cmd": "cd /repo && GOFLAGS=-mod=mod GOPROXY=off GOSUMDB=off go test -vet=off -count=1 -timeout 25m ./...",
        "source_commits": hook_commits,
        "add_only": True,
    },
    "engines": [{"name": "lean4-proof+correspondence", "path": "/verif/check", "serves_properties": [c["property_id"] for c in checks],
                 "kind_free_text": "Lean 4 theorems over a hand-written executable model (lean/Gws), tied to /repo on every run by a differential harness (harness/, -tags verif) against the compiled Lean driver by facts regenerated from the Go AST (tools/factgen), and by equivalence theorems with Go function bodies translated to Lean on every run (tools/gotrans)"}],
    "checks": checks,
    "notes": T.NOTES,
    "not_applicable": na,
}
json.dump(m, open(os.path.join(ROOT, "MANIFEST.json"), "w"), indent=1)
print(f"{len(checks)} checks, {len(na)} not claimed")
