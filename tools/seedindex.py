#!/usr/bin/env python3
"""Writes seeded/INDEX.md from seeded/*/meta.json."""
import glob, json, os
ROOT = os.path.dirname(os.path.dirname(os.path.abspath(__file__)))
rows = []
for m in sorted(glob.glob(os.path.join(ROOT, "seeded", "*", "meta.json"))):
    d = json.load(open(m))
    sid = os.path.basename(os.path.dirname(m))
    caught = [f"{p} ({'; '.join(l.split(' replay=')[0].replace('VIOLATION ', '') + (' no-failing-input-found' if l.endswith('no-failing-input-found') else '') for l in v['lines'] if l.startswith('VIOLATION')) or 'exit ' + str(v['exit'])}, {v['tier']})"
              for p, v in d.get("checks_run", {}).items()]
    first = ""
    for p, v in d.get("checks_run", {}).items():
        if v.get("first_violation"):
            try:
                fv = json.loads(v["first_violation"])
                first = f"`{fv.get('case', '')[:90]}`"
            except Exception:
                first = v["first_violation"][:90]
            break
    conf = d.get("confirmed_by_us", {})
    ok = all(conf.get(k) for k in ("demo_passes_without_change", "builds_with_change", "demo_fails_with_change", "suite_passes_with_change")) if conf else None
    rows.append((sid, d.get("property"), (d.get("summary") or "")[:160].replace("|", "/"), (d.get("needs_to_manifest") or "")[:160].replace("|", "/"),
                 "yes" if ok else ("not re-confirmed" if ok is None else "NO: " + json.dumps(conf)[:120]), "; ".join(caught), "**detected**" if d.get("detected") else "**missed**", first))
with open(os.path.join(ROOT, "seeded", "INDEX.md"), "w") as f:
    f.write("# Seeded changes\n\nEach directory holds `patch.diff`, the demonstration test (`*.txt`) and `meta.json` (what was confirmed and which checks were run with what result).\n\n")
    f.write("| id | property | change | needs to manifest | confirmed by us | checks run | result | first failing case |\n|---|---|---|---|---|---|---|---|\n")
    for r in rows:
        f.write("| " + " | ".join(str(x) for x in r) + " |\n")
print(len(rows), "seeded changes indexed")
