#!/usr/bin/env python3
"""Writes seeded/INDEX.md from seeded/*/meta.json."""
import glob, json, os
ROOT = os.path.dirname(os.path.dirname(os.path.abspath(__file__)))
rows = []
for m in sorted(glob.glob(os.path.join(ROOT, "seeded", "*", "meta.json"))):
    d = json.load(open(m))
    sid = os.path.basename(os.path.dirname(m))
    caught = [f"{p} ({'; '.join(l.split(' replay=')[0].replace('VIOLATION ', '') + (' no-failing-input-found' if l.endswith('no-failing-input-found') else '') for l in v['lines'] if l.startswith('VIOLATION')) or 'exit ' + str(v['exit'])}, {v['tier']})"
              for p, v in d.get("checks_run", {}).items()]
    first = ""
    for p, v in d.get("checks_run", {}).items():
        if v.get("first_violation"):
            try:
                fv = json.loads(v["first_violation"])
                first = f"`{fv.get('case', '')[:90]}`"
            except Exception:
                first = v["first_violation"][:90]
            break
    conf = d.get("confirmed_by_us", {})
    ok = all(conf.get(k) for k in ("demo_passes_without_change", "builds_with_change", "demo_fails_with_change", "suite_passes_with_change")) if conf else None
    rows.append((sid, d.get("property"), (d.get("summary") or "")[:160].replace("|", "/"), (d.get("needs_to_manifest") or "")[:160].replace("|", "/"),
                 "yes" if ok else ("not re-confirmed" if ok is None else "NO: " + json.dumps(conf)[:120]), "; ".join(caught), "**detected**" if d.get("detected") else "**missed**", first))
with open(os.path.join(ROOT, "seeded", "INDEX.md"), "w") as f:
    f.write("# Seeded changes\n\nEach directory holds `patch.diff`, the demonstration test (`*.txt`) and `meta.json` (what was confirmed and which checks were run with what result).\n\n")
    f.write("| id | property | change | needs to manifest | confirmed by us | checks run | result | first failing case |\n|---|---|---|---|---|---|---|---|\n")
    for r in rows:
        f.write("| " + " | ".join(str(x) for x in r) + " |\n")

# what was added to the machinery after a change was missed on its first run (kept by hand)
STRENGTHENED = {
    "C16-writev-replacement-char": "utf8 suite: U+FFFD and the exhaustive table of code points split across slices",
    "C18-tail-word-store-past-end": "mask suite: slices with spare capacity behind the end, guard bytes checked",
    "C11-large-readbuffer-drops-glued-frame": "hs-client suite: ReadBufferSize varied per case (frames glued to the 101 response)",
    "C19-delete-replaces-drained-shard": "`cmapconc park` (operations queued on a held shard lock, any-order oracle) + fact `cmapShardTableFixed`",
    "C07-parallel-bypassed-when-closed": "par suite: action `c` (dispatch while a local close is in progress)",
    "C08-splitreader-releases-lock": "`faults file-gap` (a data writer arrives while WriteFile reads its source)",
    "C09-upgrade-neterror-no-close": "fault kinds `timeout`/`reset` (net.Error), `faults hs-server-stall`, fact `handshakeEntryClosesOnError`",
    "C13-shared-limiter-count-not-reset": "`sess multi` (three connections of one upgrader share its pooled deflaters; one of them fails an inflation)",
    "C01-stale-inflater-output": "`sess multi`",
    "C07-reclaim-blocking-lock": "`faults stall-readloop` + fact `readLoopNeverWaitsForWriteLock`",
    "C14-broadcaster-close-twice": "own suite: broadcaster closed twice, the released frames re-used at once",
    "C12-response-header-cached-once": "`nego hsseq` (ONE upgrader serves several clients whose offers differ; every handshake must be negotiated on its own) + fact `extensionHeadersFromThisHandshake`",
    "C13-maxint-limit-overflow-empty-message": "read suite: the largest configurable limits (MaxInt64, MaxInt64-1, around 2^31, 2^40) with plain, fragmented and compressed messages; C13's relevance now counts a delivered message whose content differs",
    "C15-failfast-bypasses-queue": "taskq suite: tasks submitted through WriteAsync/WritevAsync (`w`, `v`) among gated tasks, before and after the connection ended; fact `asyncApisOnlySubmit`",
    "C18-zero-copy-masks-caller-slice": "own write-apis: caller payloads are compared DURING every transport write the call causes (observer in the in-memory transport), larger sizes and the binary opcode",
    "C09-setdeadline-takes-write-lock": "`faults deadline-stall <role> late`: a watchdog goroutine sets the write deadline AFTER the writer has stalled (the in-memory transport now wakes a stalled write when its deadline changes); verdict: the deadline call must return, then the usual teardown",
    "C08-broadcast-remask-shared-frame": "`racy bc-two-clients`: ONE broadcaster serving two client-side connections at once (race detector on the shared frame + every delivered payload compared)",
    "C19-lazy-client-session": "`racy session-first-use`: the first uses of a connection's session storage from several goroutines at once (race detector + all stores present), registered for C19",
}
STRENGTHENED.update(json.load(open(os.path.join(ROOT, "seeded", "strengthened.json"))) if os.path.exists(os.path.join(ROOT, "seeded", "strengthened.json")) else {})


def how(d):
    out = []
    for p, v in d.get("checks_run", {}).items():
        vio = [l for l in v["lines"] if l.startswith("VIOLATION")]
        if not vio:
            continue
        kind = "proof obligation / tie, no failing input" if vio[0].endswith("no-failing-input-found") else "failing input"
        case = ""
        if v.get("first_violation") and kind == "failing input":
            try:
                case = json.loads(v["first_violation"]).get("case", "")
            except Exception:
                case = ""
            case = " `" + " ".join(case.split()[:3])[:48] + "…`" if case else ""
        out.append(f"{p}: {kind}{case}")
    return "; ".join(out) if out else "—"


lines = ["| seeded change | what it needs to manifest | caught by | first run |", "|---|---|---|---|"]
n_det = n_first = 0
for m in sorted(glob.glob(os.path.join(ROOT, "seeded", "*", "meta.json"))):
    d = json.load(open(m))
    sid = os.path.basename(os.path.dirname(m))
    missed_first = sid in STRENGTHENED or any(not e.get("detected", True) for e in d.get("earlier_runs", []))
    n_det += bool(d.get("detected"))
    n_first += bool(d.get("detected")) and not missed_first
    first = "caught" if not missed_first else "missed; then added: " + STRENGTHENED.get(sid, "(see git log)")
    if not d.get("detected"):
        first = "**still missed**"
    lines.append(f"| {sid} | {(d.get('needs_to_manifest') or '')[:150].replace('|', '/')} | {how(d)} | {first} |")
total = len(lines) - 2
summary = f"{total} seeded changes; {n_det} detected by the committed checks, {n_first} of them already on their first run.\n"
dp = os.path.join(ROOT, "DESIGN.md")
txt = open(dp).read()
b, e = "<!-- SEEDED-TABLE-BEGIN -->", "<!-- SEEDED-TABLE-END -->"
if b in txt and e in txt:
    txt = txt[:txt.index(b) + len(b)] + "\n" + summary + "\n" + "\n".join(lines) + "\n" + txt[txt.index(e):]
    open(dp, "w").write(txt)
print(len(rows), "seeded changes indexed;", summary.strip())
