#!/bin/bash
# for each harmless refactoring: regenerate Trans.lean from the patched tree into a scratch copy of the Lean project and rebuild all Trans modules
export GOFLAGS=-mod=mod GOPROXY=off GOSUMDB=off GOTOOLCHAIN=local
[ -d /tmp/refac ] || git -C /repo worktree add --detach /tmp/refac HEAD -q  # scratch worktree of /repo (remove with: git -C /repo worktree remove --force /tmp/refac)
W=/tmp/refac-lean; rm -rf $W; mkdir -p $W; rsync -a --exclude .lake/build/ir /verif/lean/ $W/
MODS="Gws.Props.TransFW Gws.Props.TransReadLoop Gws.Props.TransDequeCore Gws.Props.TransDequeOps Gws.Props.TransDequeRefine Gws.Props.TransNegoParse Gws.Props.TransFile Gws.Props.TransSend Gws.Props.TransFrame Gws.Props.TransReader Gws.Props.TransParse Gws.Props.TransFragment Gws.Props.TransControl Gws.Props.TransEmit Gws.Props.TransStep Gws.Props.TransClose Gws.Props.TransWindow Gws.Props.TransNego Gws.Props.TransQueue Gws.Props.TransLimited Gws.Props.TransWriter Gws.Props.TransCompress Gws.Props.TransMap Gws.Props.TransHandshake Gws.Props.TransProps"
for k in ${HARMLESS:-1 2 3 4 5 6 7 8 9 10 11 12 13 14 15 16 17 18 19 20 21 22 23 24 25 26 27 28 29 30}; do
  cd /tmp/refac && git checkout -q -- . && git apply /verif/harmless/$k.diff || { echo "$k: patch does not apply"; continue; }
  if ! /verif/.build/gotrans -repo /tmp/refac -lean $W/Gws/Generated/Trans.lean -deque $W/Gws/Generated/TransDeque.lean -fw $W/Gws/Generated/TransFW.lean 2> /tmp/harmless-$k.gotrans.err; then echo "$k: GOTRANS-FAILED: $(head -c 300 /tmp/harmless-$k.gotrans.err)"; continue; fi
  cd $W && out=$(lake build $MODS 2>&1); if echo "$out" | grep -q "^error\|error:"; then echo "$k: PROOF-BROKEN: $(echo "$out" | grep -o 'error: Gws/Props/[A-Za-z]*.lean:[0-9]*' | sort -u | head -5 | tr '\n' ' ')"; else echo "$k: ok (all equivalences still check)"; fi
done
cd /tmp/refac && git checkout -q -- .
