"""Human-written texts for MANIFEST.json (level claimed, notes, technique) per property."""

NOTES = ("Technique: machine-checked proof in Lean 4 over an executable model, tied to the code on every run (DESIGN.md). "
         "./check <id> regenerates Facts from /repo, rebuilds the property's theorems, audits their axioms, rebuilds the harness "
         "against /repo's working tree with -tags verif and runs the correspondence suites. known_findings.json lists genuine defects.")

CLAIMS = {
    "C17": {
        "text": "Full proof: for every sequence of writes of any sizes to a window of capacity 2^bits the model's contents equal the last min(total, 2^bits) bytes written (Win.writes_spec, by induction over the history from the per-write theorem Win.write_spec); a disabled window stays empty. The model mirrors slideWindow.Write branch by branch and is run against the real type on exhaustive short histories and random long ones.",
        "note": "Trusted: Lean kernel; Go append/copy semantics as modelled (goCopy = memmove); the correspondence harness. Axioms: propext, Quot.sound.",
        "technique": "Lean 4 theorem (induction over write history) + differential correspondence with the real slideWindow",
        "design_ref": "DESIGN.md section 5, C17",
    },
    "C18": {
        "text": "Full proof of the value clause: for every key and every buffer length the three-loop 64-bit word implementation equals byte-wise XOR with key[i mod 4] (Mask.maskXOR_eq), preserves length and is an involution; kernel-only bit-vector proof of the word lemma (no bv_decide). The memory clause (nothing outside the buffer touched, any alignment) is observed with guard bytes at 8 offsets, not proved.",
        "note": "Trusted: Lean kernel; binary.LittleEndian as modelled; Go bounds checking (Facts.maskNoUnsafe). Out-of-buffer clause has no theorem (listed in evidence.clauses_without_theorem).",
        "technique": "Lean 4 theorem (BitVec word lemma + induction on length) + differential correspondence with internal.MaskXOR",
        "design_ref": "DESIGN.md section 5, C18",
    },
}

CLAIMS["C12"] = {
    "text": "Full proof, unbounded in the integers: for all server and client settings (any Int window bits/threshold, all flags) the modelled handshake (option normalisation, offer generation, server parameter selection, response generation, client parsing) leaves both endpoints with the same Enabled, takeover flags and window sizes; enabled iff both enabled; takeover iff neither declined; sizes in 8..15; parsing is invariant under permutation and ASCII white-space padding of the parameter list (Nego.parse_perm_ws). The string functions are modelled on List Char and run against the real header functions (hooks) and real gws-to-gws handshakes.",
    "note": "Trusted: Lean kernel; Go strings/strconv semantics as modelled (ASCII white space); net/http header transport (sampled with real handshakes).",
    "technique": "Lean 4 theorems over a List Char model of the negotiation code + differential correspondence (pure pipeline via hooks and real handshakes)",
    "design_ref": "DESIGN.md section 5, C12",
}
CLAIMS["C16"] = {
    "text": "Proof of the gate logic: with checking on a Text/Close payload given as any slice list passes iff the concatenation is valid UTF-8 (Utf8.write_gate), splitting is irrelevant, binary/control payloads and checking-off never reject. Read-side clauses (after reassembly and inflation, 1007, never delivered) are theorems over the read-path model; utf8.Valid = RFC 3629 is assumed and compared exhaustively for <= 3 bytes every run.",
    "note": "Trusted: Lean kernel; unicode/utf8.Valid = RFC 3629 (exhaustively sampled <= 3 bytes); read-path model tied by the read suite.",
    "technique": "Lean 4 theorems over the gate and read-path model + exhaustive/differential correspondence",
    "design_ref": "DESIGN.md section 5, C16",
}

CLAIMS["C15"] = {
    "text": "Proof over the atomic-section model of workerQueue: for every finite sequence of push/completion actions (every interleaving of submitters and completions, unbounded) and every maxConcurrency >= 1: submitted = started ++ queued (each task handed out at most once, in submission order, none lost), running <= max (one at a time for gws's max = 1), a queued task always has a live worker that will call getJob again (no stranded task), and the queue drains within |q|+|running| completions with every submitted task run exactly once in order. Tied to the real queue through Conn.Async with gate-controlled tasks (exhaustive action sequences to depth 10/13) and concurrent submitters.",
    "note": "Trusted: Lean kernel; mutex atomicity of getJob's critical section (structure extracted by factgen); deque = list (C20); goroutine scheduling fairness for the spawned worker.",
    "technique": "Lean 4 invariant proof over a transition system of atomic sections + differential correspondence through Conn.Async",
    "design_ref": "DESIGN.md section 5, C15",
}
CLAIMS["C19"] = {
    "text": "Proof over the atomic-section model of ConcurrentMap/smap: shard index always in range (ToBinaryNumber gives a power of two; mask = mod); Load/Store/Delete refine a plain map, so every interleaving of them is a sequential history in critical-section order (linearizable); a Len interleaved with arbitrary other actions returns a value within size_at_start - overlapping removals .. + overlapping insertions; a Range interleaved with arbitrary actions passes no key twice, stops after the callback returns false, and passes every entry that is stable throughout exactly once. Mutex atomicity is assumed and validated by real concurrent histories (porcupine) in the suite.",
    "note": "Trusted: Lean kernel; sync.Mutex atomicity per shard; Go map semantics; the linearizability checker of the validation suite.",
    "technique": "Lean 4 refinement + invariant proofs over a transition system of per-shard critical sections + differential correspondence; porcupine as validation only",
    "design_ref": "DESIGN.md section 5, C19",
}

CLAIMS["C03"] = {
    "text": "Full proof by refinement: for every configuration, every reader state related to a spec state and EVERY byte string, the trace of the read-loop model (callbacks with payloads in order, how it ended, the reply status) is one the RFC 6455/7692 receiver spec allows (Reader.readLoop_refines_rfc; the spec is written from the RFCs: all header rules as a set, fragmentation rules, interleaved control frames); at the first violating frame the single reply status is drawn from the violations co-occurring in that frame and nothing later is delivered (violation_status); the result does not depend on how the stream is cut (prefix_monotone, failed_stays_failed). The model mirrors readMessage/readControl/emitMessage/emitError in the code's check order and is run against real connections of both roles on an exhaustive header sweep (FIN x RSV x opcode x mask x length class x reader state) under three read chunkings.",
    "note": "Trusted: Lean kernel; the hand-written model (tied by the read suite incl. Lean-inflated compressed frames); bufio/io.ReadFull; the flate library as the Codec parameter; the stated spec latitude.",
    "technique": "Lean 4 refinement proof (model read loop refines an RFC receiver spec) + differential correspondence on real connections",
    "design_ref": "DESIGN.md section 5, C03",
}
CLAIMS["C04"] = {
    "text": "Proof for the framed protocol: the read loop is a total function (termination proved: every iteration consumes >= 2 bytes), never reaches a panic outcome on any input (readLoop_no_panic: negative 64-bit lengths are rejected before allocation, Pool.cap n >= n for every n), requests at most ReadMaxPayloadSize + 9 bytes per frame and keeps the reassembly buffer <= the limit (step_alloc_bound, cont_buffer_bounded), and always ends with one close outcome. Handshake byte parsing is net/http's and only sampled (partial).",
    "note": "Trusted: Lean kernel; model tied by the read suite incl. truncations at every offset, bit flips, random bytes, length-field extremes and multi-GiB limits; net/http parsing outside the model.",
    "technique": "Lean 4 totality/invariant proofs over the read-path model + differential correspondence with malformed streams",
    "design_ref": "DESIGN.md section 5, C04",
}
CLAIMS["C13"] = {
    "text": "Full proof modulo the flate library: every delivered message has payload length <= the limit (delivered_within_limit, incl. inflated size by definition of the limited decompress); a frame longer than the limit is answered 1009 before any payload byte is read (oversize_frame_1009); a fragment sum above the limit is answered 1009 (oversize_fragments_1009); an inflate failure or overflow ends the connection with an error Close and no delivery (inflate_limit); every message the RFC receiver spec delivers - all valid messages with wire and inflated size <= limit, also exactly at it - is delivered (within_limit_delivered).",
    "note": "Trusted: Lean kernel; read-path model tied by the read suite (limits x sizes limit-1/limit/limit+1/4*limit x one frame/fragments/compressed/bombs); klauspost inflater as Codec parameter.",
    "technique": "Lean 4 corollaries of the read-path refinement + differential correspondence around the limits",
    "design_ref": "DESIGN.md section 5, C13",
}
CLAIMS["C06"] = {
    "text": "Proof of the reply table for all 65536 codes and all reasons by arithmetic over the literals extracted from emitClose (closeReply_spec, closeReply_table: forbidden -> 1002, 3000-4999 -> same, else 1000, bad reason -> 1007, empty -> empty, one byte -> 1002; application sees peer's code/reason) and of the local close body (max(1000, code) ++ reason[:123]). The schedule clauses (at most one Close frame, nothing after it, later writes rejected) are invariants of the connection transition system (C06Conc, when registered) whose schedules are replayed on the real code through scheduling hooks.",
    "note": "Trusted: Lean kernel; factgen's literals (T2) - a changed literal breaks the rfl-based proofs; mutex/CAS atomicity; the hook scheduler.",
    "technique": "Lean 4 decision-table proof parameterised by facts regenerated from the source + invariant proofs over a transition system + schedule replay on the real code",
    "design_ref": "DESIGN.md section 5, C06",
}
CLAIMS["C20"] = {
    "text": "Full proof by refinement: an invariant WF with a ghost list of live slot addresses; every operation of the API (push/pop both ends, insert before/after, move to front/back, update, remove, reset, clone, range, front/back/len/get) preserves WF, commutes with the plain-list operation, returns fresh handles and leaves all other handles valid; ops_refine: for every operation sequence over element ids (unbounded, several instances via clone) the observations of the model equal those of a plain list. The model mirrors internal/deque.go statement by statement (incl. slot recycling and auto-reset) and is compared with the real deque, slot addresses included, on exhaustive depth-5/6 sequences and long random ones.",
    "note": "Trusted: Lean kernel; Go slice semantics as modelled; clone memory independence observed only.",
    "technique": "Lean 4 refinement proof (arena deque refines List) + differential correspondence incl. slot addresses",
    "design_ref": "DESIGN.md section 5, C20",
}

CLAIMS["C10"] = {
    "text": "Proof of the decision logic over the request as net/http parsed it: the server accepts iff authorised, GET, version 13, Upgrade =fold websocket, the upgrade TOKEN present among the comma-separated elements of all Connection lines, key non-empty and (no server subprotocols or a common one over all offer lines) (Hs.upgrade_iff); on accept the 101 carries Accept = base64(sha1(key+GUID)) with SHA-1/base64 defined in Lean, the first server-preferred common subprotocol, the extension header iff negotiated, and no protected header from canonical extra headers (response_fields); every reject writes a 400, closes and returns no connection (reject_no_101). net/http parsing and session isolation are sampled, not proved (partial).",
    "note": "Trusted: Lean kernel; net/http parsing; model tied by the hs-server suite (raw requests through http.ReadRequest + UpgradeFromConn).",
    "technique": "Lean 4 decision-logic proof over a model of doUpgradeFromConn + differential correspondence with raw requests",
    "design_ref": "DESIGN.md section 5, C10",
}
CLAIMS["C11"] = {
    "text": "Proof of the validation logic: the client returns a connection iff status 101, the upgrade token is among the Connection elements, Upgrade =fold websocket, Accept = base64(sha1(key+GUID)) and (no subprotocol requested or a requested one selected) (Hs.client_accepts_iff); every reject closes the transport; the five handshake headers override user headers. Key freshness, time-out, trailing-frame hand-over and goroutine hygiene are runtime clauses observed by the hs-client and faults suites (partial).",
    "note": "Trusted: Lean kernel; net/http parsing; runtime clauses observed only.",
    "technique": "Lean 4 decision-logic proof over a model of the client handshake + differential correspondence with a scripted raw server + fault enumeration",
    "design_ref": "DESIGN.md section 5, C11",
}

CLAIMS["C02"] = {
    "text": "Partial: the bookkeeping is proved, DEFLATE itself is sampled. Proved: after ANY sequence of data messages (above/below threshold), control frames with payloads, broadcast frames built compressed or not, and streamed files, the sender's compression window equals the receiver's decompression window and both equal the last 2^bits bytes of the concatenated payloads of the compressed messages (Session.windows_in_sync, from C17); the sender's dictionary is always a suffix (<= 2^bits) of the RFC 7692 history (send_dict_suffix); and for the Lean RFC 1951 inflater, inflating against the last W bytes of the history gives exactly the result of inflating against the unbounded history whenever all distances are <= W (Spec.Inflate.bounded_window_suffices / bounded_window_iff) - so a window-limited receiver equals the RFC 7692 receiver on every conforming stream. Not proved: that klauspost's compressor/inflater satisfy RFC 1951 with bounded distances (sampled on every compressed frame of the suites).",
    "note": "Trusted: Lean kernel; klauspost/flate conformance (sampled); Session model tied by the sess suite on real gws-to-gws connections with window read-back.",
    "technique": "Lean 4 invariant proof over the session bookkeeping + a simulation proof about a Lean RFC 1951 inflater + differential correspondence on real connections",
    "design_ref": "DESIGN.md section 5, C02",
}

CLAIMS["C05"] = {
    "text": "Full proof modulo the DEFLATE library: every frame genFrame builds decodes, with the independent RFC 6455 decoder written in Lean, to exactly one frame with the shortest-form length, mask bit and key iff client, RSV2/RSV3 clear, RSV1 iff compressed, the requested opcode/FIN, whose unmasked payload is the application payload (genFrame_decodes; the padded-buffer back-fill is modelled literally) or, compressed, the compressor output minus its tail, which inflates to the payload under the Codec law (genFrame_inflates); control frames are single FIN frames; rejected calls produce no bytes; WriteFile, for EVERY reader chunking and EVERY cutting of the compressor output into Write calls, emits op,0,0,... with FIN exactly on the last and RSV1 exactly on the first iff compression is on, and the concatenated payloads are the segments (plain) or the compressor output minus exactly one trailing 00 00 ff ff (writeFile_frames). The real wire of every API/length boundary/role/compression setting is decoded by the Lean decoder and inflated by the Lean inflater in the write suite.",
    "note": "Trusted: Lean kernel; klauspost compressor conformance (hypotheses hL1/hL2, sampled); bytes.Buffer/copy as modelled; the write suite's Go-side summariser.",
    "technique": "Lean 4 round-trip proofs (encode then decode with an independent spec decoder) + differential correspondence on the observed wire",
    "design_ref": "DESIGN.md section 5, C05",
}
CLAIMS["C07"] = {
    "text": "Partial. Proved over the connection transition system for every interleaving and fault position: callbacks have the shape open, messages, close; open and close occur at most once; when the read loop is done the close callback has been delivered exactly once, last, with the stored (non-nil) cause; message callbacks happen one at a time in script (wire) order (callback_shape, reader_done_closed_once, messages_in_wire_order). What is delivered between open and close is the read-path model's trace (C03). Parallel handling is a second transition system (reader's channel send, handler return/panic): for every schedule at most ParallelGolimit handlers run, the reader blocks (drops nothing) at the limit, each message is dispatched in wire order and handled exactly once, and with a recovering Recovery a panicking handler is indistinguishable from a returning one (Par.parallel_bounded, reader_blocks_at_limit, each_message_once, panic_absorbed); the default Recovery does not recover and a panic kills the process (witness). Partial: real parallelism, recover() and teardown with handlers still running are observed.",
    "note": "Trusted: Lean kernel; atomic sections as in C06; parallel handling/recover semantics observed only.",
    "technique": "Lean 4 invariant proofs over a transition system of atomic sections + schedule replay on the real code through scheduling hooks",
    "design_ref": "DESIGN.md section 5, C07",
}
CLAIMS["C08"] = {
    "text": "Proof over the connection transition system, for any number of writers of any kind and every interleaving: every transport write delivers one whole frame and a partial frame can only be left by a failed transport write; the frames of one WriteFile are adjacent, in order, FIN exactly on the last; a write call returns success iff its complete message is on the wire exactly once, and a call rejected for its content contributes no data frame (it does close the connection). The data-race clause is a statement about the Go memory model: validated with the race detector on concurrent scenarios (two races found and fixed), not proved (partial).",
    "note": "Trusted: Lean kernel; mutex/CAS atomicity and one-Write-per-frame (facts extracted from the source); the hook scheduler; race detector as validation.",
    "technique": "Lean 4 invariant proofs over a transition system of atomic sections + schedule replay through hooks + race detector (validation)",
    "design_ref": "DESIGN.md section 5, C08",
}
CLAIMS["C09"] = {
    "text": "Partial. Proved over the connection transition system with transport faults allowed at every write and read errors at every read: transport closed implies the closed flag; the close callback is delivered at most once and last, with a non-nil argument; no reachable state deadlocks (some actor can always move unless all are done); every schedule is finite (a measure strictly decreases with every action), and when all actors are done on a closed connection the transport is closed and the close callback delivered (teardown_complete). The clause 'a local close completes while another writer is stalled' is FALSE of gws: witness state proved (closer_blocked_behind_stalled_writer), reproduced on the real code and listed as a known finding. Handshake fault paths, goroutine hygiene and wall-clock bounds are observed by fault enumeration (faults suite), not proved.",
    "note": "Trusted: Lean kernel; atomic sections as in C06; runtime clauses observed. Known finding KF-C09-stall-close.",
    "technique": "Lean 4 invariant + variant (termination measure) proofs over a transition system with environment faults + fault enumeration on real sessions and handshakes",
    "design_ref": "DESIGN.md section 5, C09",
}

CLAIMS["C01"] = {
    "text": "Composition theorem modulo the DEFLATE library: for every list of sends (single-frame data messages through any API configuration, Ping/Pong with payloads, plain or compressed WriteFile for every reader chunking and compressor cutting, broadcast frames), either direction, the concatenation of the frames the write-path model emits, fed to the read-path model of the opposite role, yields exactly the list of the corresponding events - same opcode, byte-identical payload, each once, in wire order - and leaves the reader waiting for more (C01.sequence_fidelity; with prefix_monotone for every cut of the stream); under compression the sender's and receiver's windows stay equal along the sequence so the library's round-trip law applies to every message (sequence_fidelity_compressed / _negotiated); queued asynchronous sends reach the wire in queueing order (async_delivery_order from C15). Partial: the DEFLATE laws are hypotheses (sampled), parallel handling and real scheduling are observed; one corner is false of gws and listed as a known finding (incompressible payload at the limit under compression is refused with 1009).",
    "note": "Trusted: Lean kernel; Codec laws (hypotheses); the composed models, each tied by its own suite; sess suite on real gws-to-gws connections.",
    "technique": "Lean 4 composition proof (write-path model then read-path model = identity on messages) + differential correspondence on real gws-to-gws connections",
    "design_ref": "DESIGN.md section 5, C01",
}

CLAIMS["C14"] = {
    "text": "Partial, weakest fit: a functional model has no aliasing, so the property is modelled as an ownership protocol - a heap of locations with an owner each (pool, a library path, the application, or parked under its mutex) and, per library path (single/fragmented/compressed read, control frame, doWrite, WriteClose, plain and compressed WriteFile, upgrade, end of ReadLoop idle/busy, Broadcaster), the sequence of get/put/read/write/hand-off/lock events it performs. Proved: every path runs without violation from any heap where its buffers are free and leaves nothing owned by the library; caller payloads are never written and not read after return; a delivered message is untouched until the application closes it; every interleaving of paths over disjoint locations, or sharing mutex-guarded locations, is violation-free; the Broadcaster releases its frames exactly once, after Close and the last pending send; ReadLoop puts the compression window only while no writer holds c.mu. The per-path event sequences are compared with real pool-hook traces; aliasing itself is observed by poisoning released buffers, double-put detection and the race detector.",
    "note": "Trusted: Lean kernel; the hand-written event model (tied by hook traces); sync.Pool and mutex semantics; runtime aliasing observed only.",
    "technique": "Lean 4 proofs over an ownership-protocol transition system + trace correspondence through pool hooks + poisoning and race detector (validation)",
    "design_ref": "DESIGN.md section 5, C14",
}

NOT_CLAIMED = {}

# checks that exist but are not claimed in this commit (with the reason)
PENDING = {}
