"""Human-written texts for MANIFEST.json (level claimed, notes, technique) per property."""

NOTES = ("Technique: machine-checked proof in Lean 4 over an executable model, tied to the code on every run (DESIGN.md). "
         "./check <id> regenerates Facts from /repo, rebuilds the property's theorems, audits their axioms, rebuilds the harness "
         "against /repo's working tree with -tags verif and runs the correspondence suites. known_findings.json lists genuine defects.")

CLAIMS = {
    "C17": {
        "text": "Full proof: for every sequence of writes of any sizes to a window of capacity 2^bits the model's contents equal the last min(total, 2^bits) bytes written (Win.writes_spec, by induction over the history from the per-write theorem Win.write_spec); a disabled window stays empty. The model mirrors slideWindow.Write branch by branch and is run against the real type on exhaustive short histories and random long ones.",
        "note": "Trusted: Lean kernel; Go append/copy semantics as modelled (goCopy = memmove); the correspondence harness. Axioms: propext, Quot.sound.",
        "technique": "Lean 4 theorem (induction over write history) + differential correspondence with the real slideWindow",
        "design_ref": "DESIGN.md section 5, C17",
    },
    "C18": {
        "text": "Full proof of the value clause: for every key and every buffer length the three-loop 64-bit word implementation equals byte-wise XOR with key[i mod 4] (Mask.maskXOR_eq), preserves length and is an involution; kernel-only bit-vector proof of the word lemma (no bv_decide). The memory clause (nothing outside the buffer touched, any alignment) is observed with guard bytes at 8 offsets, not proved.",
        "note": "Trusted: Lean kernel; binary.LittleEndian as modelled; Go bounds checking (Facts.maskNoUnsafe). Out-of-buffer clause has no theorem (listed in evidence.clauses_without_theorem).",
        "technique": "Lean 4 theorem (BitVec word lemma + induction on length) + differential correspondence with internal.MaskXOR",
        "design_ref": "DESIGN.md section 5, C18",
    },
}

CLAIMS["C12"] = {
    "text": "Full proof, unbounded in the integers: for all server and client settings (any Int window bits/threshold, all flags) the modelled handshake (option normalisation, offer generation, server parameter selection, response generation, client parsing) leaves both endpoints with the same Enabled, takeover flags and window sizes; enabled iff both enabled; takeover iff neither declined; sizes in 8..15; parsing is invariant under permutation and ASCII white-space padding of the parameter list (Nego.parse_perm_ws). The string functions are modelled on List Char and run against the real header functions (hooks) and real gws-to-gws handshakes.",
    "note": "Trusted: Lean kernel; Go strings/strconv semantics as modelled (ASCII white space); net/http header transport (sampled with real handshakes).",
    "technique": "Lean 4 theorems over a List Char model of the negotiation code + differential correspondence (pure pipeline via hooks and real handshakes)",
    "design_ref": "DESIGN.md section 5, C12",
}
CLAIMS["C16"] = {
    "text": "Proof of the gate logic: with checking on a Text/Close payload given as any slice list passes iff the concatenation is valid UTF-8 (Utf8.write_gate), splitting is irrelevant, binary/control payloads and checking-off never reject. Read-side clauses (after reassembly and inflation, 1007, never delivered) are theorems over the read-path model; utf8.Valid = RFC 3629 is assumed and compared exhaustively for <= 3 bytes every run.",
    "note": "Trusted: Lean kernel; unicode/utf8.Valid = RFC 3629 (exhaustively sampled <= 3 bytes); read-path model tied by the read suite.",
    "technique": "Lean 4 theorems over the gate and read-path model + exhaustive/differential correspondence",
    "design_ref": "DESIGN.md section 5, C16",
}

CLAIMS["C15"] = {
    "text": "Proof over the atomic-section model of workerQueue: for every finite sequence of push/completion actions (every interleaving of submitters and completions, unbounded) and every maxConcurrency >= 1: submitted = started ++ queued (each task handed out at most once, in submission order, none lost), running <= max (one at a time for gws's max = 1), a queued task always has a live worker that will call getJob again (no stranded task), and the queue drains within |q|+|running| completions with every submitted task run exactly once in order. Tied to the real queue through Conn.Async with gate-controlled tasks (exhaustive action sequences to depth 10/13) and concurrent submitters.",
    "note": "Trusted: Lean kernel; mutex atomicity of getJob's critical section (structure extracted by factgen); deque = list (C20); goroutine scheduling fairness for the spawned worker.",
    "technique": "Lean 4 invariant proof over a transition system of atomic sections + differential correspondence through Conn.Async",
    "design_ref": "DESIGN.md section 5, C15",
}
CLAIMS["C19"] = {
    "text": "Proof over the atomic-section model of ConcurrentMap/smap: shard index always in range (ToBinaryNumber gives a power of two; mask = mod); Load/Store/Delete refine a plain map, so every interleaving of them is a sequential history in critical-section order (linearizable); a Len interleaved with arbitrary other actions returns a value within size_at_start - overlapping removals .. + overlapping insertions; a Range interleaved with arbitrary actions passes no key twice, stops after the callback returns false, and passes every entry that is stable throughout exactly once. Mutex atomicity is assumed and validated by real concurrent histories (porcupine) in the suite.",
    "note": "Trusted: Lean kernel; sync.Mutex atomicity per shard; Go map semantics; the linearizability checker of the validation suite.",
    "technique": "Lean 4 refinement + invariant proofs over a transition system of per-shard critical sections + differential correspondence; porcupine as validation only",
    "design_ref": "DESIGN.md section 5, C19",
}

NOT_CLAIMED = {}
