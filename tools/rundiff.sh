#!/bin/sh
# usage: tools/rundiff.sh <suite> [tier] [seed]  — developer helper: run one suite and show differences
cd "$(dirname "$0")/.."
if [ -z "$VERIF_REPO_LOCKED" ]; then exec env VERIF_REPO_LOCKED=1 flock /tmp/verif-repo.lock "$0" "$@"; fi
export GOFLAGS=-mod=mod GOPROXY=off GOSUMDB=off GOTOOLCHAIN=local
(cd harness && CGO_ENABLED=0 go build -tags verif -o ../.build/verifharness .) || exit 1
mkdir -p .build/t
.build/verifharness run -suite "$1" -tier "${2:-quick}" -seed "${3:-1}" -cases .build/t/c.txt -impl .build/t/i.txt -stats .build/t/s.json || exit 1
lean/.lake/build/bin/gwsdriver < .build/t/c.txt > .build/t/m.txt
paste -d'\n' .build/t/c.txt .build/t/i.txt .build/t/m.txt | awk -F'\t' 'NR%3==1{c=$0} NR%3==2{i=$0} NR%3==0{ if (i!=$1 || $2!="ok") {n++; if (n<=N) print substr(c,1,W) "\n  impl =" substr(i,1,W) "\n  model=" substr($1,1,W) "  spec=" $2} } END{print NR/3 " cases, " n+0 " diffs"}' N="${N:-15}" W="${W:-220}"
