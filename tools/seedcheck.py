#!/usr/bin/env python3
"""Verify a seeded change and run the checks against it.

  tools/seedcheck.py <out-dir with patch.diff, demo test, meta.json> <seeded-id> <prop> [<prop>…] [--tier quick|thorough] [--skip-confirm]

1. In a fresh scratch worktree of /repo: the demo passes without the patch; with the patch the module builds,
   the existing suite passes and the demo fails.
2. Applies the patch to /repo, runs ./check <prop> for every given property, undoes the patch.
3. Stores patch, demo and meta.json (with what was run and observed) under /verif/seeded/<seeded-id>/.
"""
import glob, json, os, shutil, subprocess, sys, time

ROOT = os.path.dirname(os.path.dirname(os.path.abspath(__file__)))
ENV = dict(os.environ, GOFLAGS="-mod=mod", GOPROXY="off", GOSUMDB="off", GOTOOLCHAIN="local")
# the checkout the change is applied to: /repo itself, or (SEED_REPO, used for long batches so that /repo stays free) a
# scratch worktree of /repo's HEAD that a scratch clone of /verif is pointed at (VERIF_REPO + the harness's replace line)
SEED_REPO = os.environ.get("SEED_REPO", "/repo")
LOCKFILE = "/tmp/verif-repo.lock" if SEED_REPO == "/repo" else "/tmp/verif-repo-" + SEED_REPO.strip("/").replace("/", "_") + ".lock"


def sh(cmd, cwd=None, timeout=3600):
    r = subprocess.run(cmd, shell=True, cwd=cwd, env=ENV, stdout=subprocess.PIPE, stderr=subprocess.STDOUT, text=True, errors="replace", timeout=timeout)
    return r.returncode, r.stdout


def main():
    args = [a for a in sys.argv[1:] if not a.startswith("--")]
    tier = "quick"
    if "--tier" in sys.argv:
        tier = sys.argv[sys.argv.index("--tier") + 1]
        args.remove(tier)
    out, sid, props = args[0], args[1], args[2:]
    patch = os.path.join(out, "patch.diff")
    demos = [f for f in glob.glob(os.path.join(out, "*_test.go"))]
    meta = json.load(open(os.path.join(out, "meta.json"))) if os.path.exists(os.path.join(out, "meta.json")) else {}
    out = os.path.abspath(out)
    patch = os.path.abspath(patch)
    result = {"agent_meta": meta, "confirmed": {}, "checks": {}}
    if "--skip-confirm" not in sys.argv:
        wt = "/tmp/seed-verify"
        sh(f"git -C /repo worktree remove --force {wt}")
        code, o = sh(f"git -C /repo worktree add --detach {wt} HEAD")
        assert code == 0, o
        try:
            for d in demos:
                dst = "internal" if "package internal" in open(d).read() else "."
                shutil.copy(d, os.path.join(wt, dst, os.path.basename(d)))
            names = " ".join(sorted({"./internal/" if "package internal" in open(d).read() else "." for d in demos}))
            tags = "-tags verif" if any("go:build verif" in open(d).read() for d in demos) else ""
            c0, o0 = sh(f"go test {tags} -vet=off -count=1 -run 'ZZ|Demo|zz' {names}", cwd=wt)
            result["confirmed"]["demo_passes_without_change"] = c0 == 0
            ca, oa = sh(f"git apply {os.path.abspath(patch)}", cwd=wt)
            assert ca == 0, oa
            cb, ob = sh("go build ./...", cwd=wt)
            result["confirmed"]["builds_with_change"] = cb == 0
            c1, o1 = sh(f"go test {tags} -vet=off -count=1 -run 'ZZ|Demo|zz' {names}", cwd=wt)
            result["confirmed"]["demo_fails_with_change"] = c1 != 0
            for d in demos:  # the existing suite, without the demo
                dst = "internal" if "package internal" in open(d).read() else "."
                os.remove(os.path.join(wt, dst, os.path.basename(d)))
            # the repository's suite binds fixed ports and is flaky when several copies run at once (as they do
            # while sub-agents work): up to three attempts, each with a 6 minute limit
            attempts = []
            for _ in range(3):
                c2, o2 = sh("go test -vet=off -count=1 -timeout 6m ./...", cwd=wt)
                attempts.append(c2 == 0)
                if c2 == 0:
                    break
            result["confirmed"]["suite_passes_with_change"] = any(attempts)
            result["confirmed"]["suite_attempts"] = attempts
            if not any(attempts):
                fails = [l for l in o2.split("\n") if l.startswith("--- FAIL") or l.startswith("panic:")]
                result["confirmed"]["suite_failures"] = fails[:8]
        finally:
            sh(f"git -C /repo worktree remove --force {wt}")
    # run the checks against the change (holding the lock that everything running against /repo takes)
    import fcntl
    lock = open(LOCKFILE, "w")
    fcntl.flock(lock, fcntl.LOCK_EX)
    ENV["VERIF_REPO_LOCKED"] = "1"
    code, o = sh(f"git -C {SEED_REPO} status --porcelain")
    assert o.strip() == "", SEED_REPO + " has uncommitted changes:\n" + o
    code, o = sh(f"git -C {SEED_REPO} apply {os.path.abspath(patch)}")
    assert code == 0, o
    try:
        for p in props:
            t0 = time.time()
            c, o = sh(f"./check {p} --tier {tier}", cwd=ROOT, timeout=7200)
            lines = [l for l in o.split("\n") if l.startswith("VIOLATION") or l.startswith("KNOWN-FINDING")]
            detail = ""
            for l in lines:
                if "replay=" in l:
                    path = l.split("replay=")[1].split()[0]
                    try:
                        rp = json.load(open(path))
                        v = (rp.get("violations") or [{}])[0]
                        detail = json.dumps({k: (str(v.get(k))[:300]) for k in ("kind", "case", "impl", "model", "spec", "suite") if k in v}) if v else json.dumps(rp)[:600]
                    except Exception as e:
                        detail = str(e)
            result["checks"][p] = {"exit": c, "lines": lines, "first_violation": detail, "wall_s": round(time.time() - t0, 1), "tier": tier}
            print(p, "exit", c, lines[:2], detail[:400])
    finally:
        sh(f"git -C {SEED_REPO} checkout -- .")
        sh(f"git -C {SEED_REPO} clean -fdq -- . ':!verif_*'")
        # the checks above rewrote evidence/<id>.json from runs on the CHANGED tree: the committed evidence describes the
        # unchanged tree, put it back
        sh(f"git -C {ROOT} checkout -- evidence")
        # … and the generated Lean files were regenerated from the CHANGED tree: regenerate them from the restored one
        sh(f"cd {ROOT} && .build/factgen -repo {SEED_REPO} -lean lean/Gws/Generated/Facts.lean -json .build/facts.json")
        sh(f"cd {ROOT} && .build/gotrans -repo {SEED_REPO} -lean lean/Gws/Generated/Trans.lean -deque lean/Gws/Generated/TransDeque.lean -fw lean/Gws/Generated/TransFW.lean")
    code, o = sh(f"git -C {SEED_REPO} status --porcelain")
    assert o.strip() == "", SEED_REPO + " not clean after undo:\n" + o
    fcntl.flock(lock, fcntl.LOCK_UN)
    dst = os.path.join(ROOT, "seeded", sid)
    os.makedirs(dst, exist_ok=True)
    if "--skip-confirm" in sys.argv and os.path.exists(os.path.join(dst, "meta.json")):
        old = json.load(open(os.path.join(dst, "meta.json")))
        result["confirmed"] = old.get("confirmed_by_us", {})
        # keep the record of earlier check runs (e.g. a miss before the checks were strengthened)
        hist = old.get("earlier_runs", [])
        hist.append({"checks_run": old.get("checks_run"), "detected": old.get("detected")})
        result["earlier_runs"] = hist
    if os.path.abspath(patch) != os.path.abspath(os.path.join(dst, "patch.diff")):
        shutil.copy(patch, os.path.join(dst, "patch.diff"))
    for d in demos:
        shutil.copy(d, os.path.join(dst, os.path.basename(d) + ".txt"))  # .txt: not part of any Go package here
    detected = any(v["exit"] == 1 and any(l.startswith("VIOLATION") for l in v["lines"]) for v in result["checks"].values())
    final = {"property": meta.get("property"), "summary": meta.get("summary"), "needs_to_manifest": meta.get("needs_to_manifest"),
             "demo_cmd": meta.get("demo_cmd"), "confirmed_by_us": result["confirmed"], "checks_run": result["checks"], "detected": detected,
             "earlier_runs": result.get("earlier_runs", []), "applied_to": SEED_REPO}
    json.dump(final, open(os.path.join(dst, "meta.json"), "w"), indent=1)
    print("stored", dst, "detected" if detected else "MISSED")


if __name__ == "__main__":
    main()
