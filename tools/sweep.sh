#!/bin/sh
# usage: tools/sweep.sh <tier> <seed> [props…]   — runs checks on the CURRENT tree, one line per property
cd "$(dirname "$0")/.."
tier=$1; seed=$2; shift 2
props="$@"
[ -z "$props" ] && props="C01 C02 C03 C04 C05 C06 C07 C08 C09 C10 C11 C12 C13 C14 C15 C16 C17 C18 C19 C20"
for p in $props; do
  out=$(VERIF_SEED=$seed ./check $p --tier $tier 2>&1 | grep -v WARNING | grep -E "VIOLATION|quick: ok|thorough: ok" | cut -c1-300 | tail -2)
  echo "$p seed=$seed tier=$tier :: $out"
done
