#!/bin/sh
# Builds the whole framework from files on disk, offline: factgen, regenerated Facts, the Lean
# project (model, lemmas, every property module, driver) and the Go harness against /repo.
set -e
cd "$(dirname "$0")"
export GOFLAGS=-mod=mod GOPROXY=off GOSUMDB=off GOTOOLCHAIN=local
mkdir -p .build
(cd tools/factgen && go build -o ../../.build/factgen .)
.build/factgen -repo "${VERIF_REPO:-/repo}" -lean lean/Gws/Generated/Facts.lean.tmp -json .build/facts.json
if ! cmp -s lean/Gws/Generated/Facts.lean.tmp lean/Gws/Generated/Facts.lean; then
  mv lean/Gws/Generated/Facts.lean.tmp lean/Gws/Generated/Facts.lean
else
  rm -f lean/Gws/Generated/Facts.lean.tmp
fi
(cd tools/gotrans && go build -o ../../.build/gotrans .)
.build/gotrans -repo "${VERIF_REPO:-/repo}" -lean lean/Gws/Generated/Trans.lean.tmp -deque lean/Gws/Generated/TransDeque.lean.tmp -fw lean/Gws/Generated/TransFW.lean.tmp
for g in Trans TransDeque TransFW; do
  if ! cmp -s lean/Gws/Generated/$g.lean.tmp lean/Gws/Generated/$g.lean; then
    mv lean/Gws/Generated/$g.lean.tmp lean/Gws/Generated/$g.lean
  else
    rm -f lean/Gws/Generated/$g.lean.tmp
  fi
done
(cd lean && lake build Gws gwsdriver)
(cd harness && CGO_ENABLED=0 go build -tags verif -o ../.build/verifharness .)
echo "setup ok"
