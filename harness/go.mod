module verifharness

go 1.23

require (
	github.com/anishathalye/porcupine v1.3.0
	github.com/klauspost/compress v1.17.5
	github.com/lxzan/gws v0.0.0
)

require github.com/dolthub/maphash v0.1.0 // indirect

replace github.com/lxzan/gws => /repo
