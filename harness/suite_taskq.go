package main

import (
	"fmt"
	"runtime"
	"strconv"
	"strings"
	"sync"
	"sync/atomic"
	"time"

	"github.com/lxzan/gws"
)

func init() {
	register(&Suite{Name: "taskq", Gen: genTaskQ, Exec: execTaskQ, Isolated: true})
}

// execTaskQ drives the real queue through Conn.Async with tasks that block on a per-task gate.
// `p<id>`: submit task id.  `n<id>`: wait until task id has started (it must, if the model says it is
// running), open its gate, wait until it has finished.  Waiting for a specific event that must happen
// is deterministic; a time-out (5 s) means the task was stranded.
func execTaskQ(args []string) string {
	if args[0] == "conc" {
		return execTaskQConc(args[1:])
	}
	if args[0] == "pingpong" {
		return execTaskQPingPong(args[1:])
	}
	if args[0] != "1" {
		return "bad-op only-max-1-is-constructible"
	}
	h := newRecorder()
	conn, _, peer, err := serverConnRaw(&gws.ServerOption{}, h, "")
	if err != nil {
		return "handshake-failed"
	}
	var mu sync.Mutex
	var started []int
	ran := map[int]int{}
	gates := map[int]chan struct{}{}
	startedCh := map[int]chan struct{}{}
	finishedCh := map[int]chan struct{}{}
	var running, maxRun int32
	var order []int // ids in submission order
	submit := func(id int) {
		g, s, f := make(chan struct{}), make(chan struct{}), make(chan struct{})
		mu.Lock()
		gates[id], startedCh[id], finishedCh[id] = g, s, f
		order = append(order, id)
		mu.Unlock()
		conn.Async(func() {
			n := atomic.AddInt32(&running, 1)
			for {
				m := atomic.LoadInt32(&maxRun)
				if n <= m || atomic.CompareAndSwapInt32(&maxRun, m, n) {
					break
				}
			}
			mu.Lock()
			started = append(started, id)
			ran[id]++
			mu.Unlock()
			close(s)
			<-g
			atomic.AddInt32(&running, -1)
			close(f)
		})
	}
	released := map[int]bool{}
	auto := map[int]bool{}
	// `w<id>` / `v<id>`: the task is submitted through WriteAsync / WritevAsync; it needs no gate: it starts when the queue
	// reaches it, writes (or fails to: the connection may have ended) and reports through its callback, which is the event
	// recorded for it
	submitW := func(id int, vec bool) {
		s, f := make(chan struct{}), make(chan struct{})
		mu.Lock()
		startedCh[id], finishedCh[id] = s, f
		order = append(order, id)
		auto[id] = true
		mu.Unlock()
		cb := func(error) {
			n := atomic.AddInt32(&running, 1)
			for {
				m := atomic.LoadInt32(&maxRun)
				if n <= m || atomic.CompareAndSwapInt32(&maxRun, m, n) {
					break
				}
			}
			mu.Lock()
			started = append(started, id)
			ran[id]++
			mu.Unlock()
			atomic.AddInt32(&running, -1)
			close(s)
			close(f)
		}
		if vec {
			conn.WritevAsync(gws.OpcodeText, [][]byte{[]byte("a"), []byte(strconv.Itoa(id))}, cb)
		} else {
			conn.WriteAsync(gws.OpcodeText, []byte("w"+strconv.Itoa(id)), cb)
		}
	}
	// settle: a WriteAsync task whose predecessors (in submission order) have all finished must finish by itself
	settle := func() string {
		mu.Lock()
		ids := append([]int(nil), order...)
		mu.Unlock()
		for _, id := range ids {
			if released[id] {
				continue
			}
			if !auto[id] {
				return ""
			}
			select {
			case <-finishedCh[id]:
				released[id] = true
			case <-time.After(5 * time.Second):
				return fmt.Sprintf("STRANDED write task %d never reported", id)
			}
		}
		return ""
	}
	release := func(id int) string {
		mu.Lock()
		s, g, f := startedCh[id], gates[id], finishedCh[id]
		mu.Unlock()
		if s == nil {
			return "bad-op unknown-task"
		}
		select {
		case <-s:
		case <-time.After(5 * time.Second):
			return fmt.Sprintf("STRANDED task %d never started", id)
		}
		close(g)
		released[id] = true
		select {
		case <-f:
		case <-time.After(5 * time.Second):
			return fmt.Sprintf("task %d never finished", id)
		}
		return ""
	}
	if args[1] != "." {
		for _, a := range strings.Split(args[1], ",") {
			if a == "z" { // a nil task is submitted: nothing to run, and it must not disturb the queue
				conn.Async(nil)
				continue
			}
			if a == "x" { // the connection ends (peer vanishes, read loop returns): queued tasks still run, each once
				go conn.ReadLoop()
				_ = peer.Close()
				if !h.WaitClosed(3 * time.Second) {
					return "close-callback-missing"
				}
				time.Sleep(2 * time.Millisecond) // let the read loop get past its teardown
				continue
			}
			id, _ := strconv.Atoi(a[1:])
			switch a[0] {
			case 'p':
				submit(id)
			case 'w', 'v':
				submitW(id, a[0] == 'v')
			default:
				if msg := release(id); msg != "" {
					return msg
				}
			}
			if msg := settle(); msg != "" {
				return msg
			}
		}
	}
	// pending = submitted and not yet released, in submission order; then drain
	var pending []string
	for _, id := range order {
		if !released[id] {
			pending = append(pending, strconv.Itoa(id))
		}
	}
	for _, id := range order {
		if !released[id] && !auto[id] {
			if msg := release(id); msg != "" {
				return msg
			}
		}
		if msg := settle(); msg != "" {
			return msg
		}
	}
	mu.Lock()
	defer mu.Unlock()
	for _, id := range order {
		if ran[id] != 1 {
			return fmt.Sprintf("task %d ran %d times", id, ran[id])
		}
	}
	fmtInts := func(l []int) string {
		if len(l) == 0 {
			return "-"
		}
		s := make([]string, len(l))
		for i, v := range l {
			s[i] = strconv.Itoa(v)
		}
		return strings.Join(s, ",")
	}
	p := "-"
	if len(pending) > 0 {
		p = strings.Join(pending, ",")
	}
	return fmt.Sprintf("started=%s maxrun=%d pending=%s", fmtInts(started), atomic.LoadInt32(&maxRun), p)
}

// execTaskQConc: G goroutines submit N tasks each concurrently (tasks are short); checks exactly
// once, never two at a time, and per-goroutine FIFO. Validation of the atomicity assumption.
func execTaskQConc(args []string) string {
	G, _ := strconv.Atoi(args[0])
	N, _ := strconv.Atoi(args[1])
	h := newRecorder()
	conn, _, _, err := serverConnRaw(&gws.ServerOption{}, h, "")
	if err != nil {
		return "handshake-failed"
	}
	var mu sync.Mutex
	var log [][2]int
	var running, bad int32
	var wg, done sync.WaitGroup
	done.Add(G * N)
	for g := 0; g < G; g++ {
		wg.Add(1)
		go func(g int) {
			defer wg.Done()
			for i := 0; i < N; i++ {
				i := i
				conn.Async(func() {
					if atomic.AddInt32(&running, 1) > 1 {
						atomic.StoreInt32(&bad, 1)
					}
					mu.Lock()
					log = append(log, [2]int{g, i})
					mu.Unlock()
					atomic.AddInt32(&running, -1)
					done.Done()
				})
			}
		}(g)
	}
	wg.Wait()
	ch := make(chan struct{})
	go func() { done.Wait(); close(ch) }()
	select {
	case <-ch:
	case <-time.After(10 * time.Second):
		return "STRANDED: not all tasks ran"
	}
	if atomic.LoadInt32(&bad) != 0 {
		return "two tasks ran at the same time"
	}
	next := make([]int, G)
	if len(log) != G*N {
		return fmt.Sprintf("ran %d of %d", len(log), G*N)
	}
	for _, e := range log {
		if e[1] != next[e[0]] {
			return fmt.Sprintf("goroutine %d: task %d ran when %d was expected", e[0], e[1], next[e[0]])
		}
		next[e[0]]++
	}
	return "ok"
}

// execTaskQPingPong: G goroutines each submit a task and wait for it to finish, N times. The queue goes
// idle and busy again all the time, so submissions keep racing with the worker's "queue empty, retire"
// step and with each other on an idle queue: the two windows in which a non-atomic Push strands a task or
// starts a second worker. A stranded task shows as a time-out, a second worker as two tasks at once.
func execTaskQPingPong(args []string) string {
	G, _ := strconv.Atoi(args[0])
	N, _ := strconv.Atoi(args[1])
	h := newRecorder()
	conn, _, _, err := serverConnRaw(&gws.ServerOption{}, h, "")
	if err != nil {
		return "handshake-failed"
	}
	var running, bad, ran int32
	var wg sync.WaitGroup
	stranded := make(chan string, G)
	for g := 0; g < G; g++ {
		wg.Add(1)
		go func(g int) {
			defer wg.Done()
			for i := 0; i < N; i++ {
				done := make(chan struct{})
				conn.Async(func() {
					if atomic.AddInt32(&running, 1) > 1 {
						atomic.StoreInt32(&bad, 1)
					}
					atomic.AddInt32(&ran, 1)
					if i%3 == 0 {
						runtime.Gosched() // lengthen some tasks so that submitters often find the worker busy
					}
					atomic.AddInt32(&running, -1)
					close(done)
				})
				select {
				case <-done:
				case <-time.After(3 * time.Second):
					stranded <- fmt.Sprintf("STRANDED: task %d of goroutine %d never ran", i, g)
					return
				}
			}
		}(g)
	}
	wg.Wait()
	select {
	case msg := <-stranded:
		return msg
	default:
	}
	if atomic.LoadInt32(&bad) != 0 {
		return "two tasks ran at the same time"
	}
	if int(atomic.LoadInt32(&ran)) != G*N {
		return fmt.Sprintf("ran %d of %d", ran, G*N)
	}
	return "ok"
}

func genTaskQ(g *Gen) {
	// exhaustive: every sequence of {push a new task, complete the running task} up to the depth
	depth := g.pick(10, 13)
	var rec func(acts []string, nextID int, unfinished []int)
	rec = func(acts []string, nextID int, unfinished []int) {
		if len(acts) > 0 || depth == 0 {
			g.Emit("taskq 1 %s", strings.Join(acts, ","))
		}
		if len(acts) == depth {
			return
		}
		rec(append(append([]string(nil), acts...), "p"+strconv.Itoa(nextID)), nextID+1, append(append([]int(nil), unfinished...), nextID))
		if len(unfinished) > 0 {
			rec(append(append([]string(nil), acts...), "n"+strconv.Itoa(unfinished[0])), nextID, unfinished[1:])
		}
	}
	rec(nil, 1, nil)
	g.Emit("taskq 1 .")
	for i := 0; i < g.pick(20, 100); i++ {
		n := 20 + g.R.Intn(g.pick(200, 2000))
		var acts []string
		var unfinished []int
		id := 1
		for j := 0; j < n; j++ {
			if len(unfinished) == 0 || g.R.Intn(5) < 3 {
				acts = append(acts, "p"+strconv.Itoa(id))
				unfinished = append(unfinished, id)
				id++
			} else {
				acts = append(acts, "n"+strconv.Itoa(unfinished[0]))
				unfinished = unfinished[1:]
			}
		}
		g.Emit("taskq 1 %s", strings.Join(acts, ","))
	}
	// nil submissions (z) and the end of the connection (x, once) in between: both leave the queue as it is
	for i := 0; i < g.pick(60, 600); i++ {
		n := 4 + g.R.Intn(16)
		var acts []string
		var unfinished []int
		id, closed := 1, false
		for j := 0; j < n; j++ {
			switch c := g.R.Intn(10); {
			case c < 2:
				acts = append(acts, "z")
			case c == 2 && !closed:
				acts = append(acts, "x")
				closed = true
			case len(unfinished) == 0 || c < 7:
				acts = append(acts, "p"+strconv.Itoa(id))
				unfinished = append(unfinished, id)
				id++
			default:
				acts = append(acts, "n"+strconv.Itoa(unfinished[0]))
				unfinished = unfinished[1:]
			}
		}
		g.Emit("taskq 1 %s", strings.Join(acts, ","))
	}
	// tasks submitted through WriteAsync / WritevAsync (w, v) among gated tasks, before and after the connection ended:
	// they are queue tasks like any other — their callbacks report in submission order, never beside a running task
	for _, acts := range []string{"w1,w2,v3", "p1,w2,v3,n1", "p1,x,w2,n1", "p1,x,v2,w3,p4,n1,n4", "x,w1,v2", "p1,p2,x,w3,n1,v4,n2", "p1,w2,x,w3,n1"} {
		g.Emit("taskq 1 %s", acts)
	}
	for i := 0; i < g.pick(60, 600); i++ {
		n := 4 + g.R.Intn(14)
		var acts []string
		var unfinished []int // gated tasks not yet released
		id, closed := 1, false
		for j := 0; j < n; j++ {
			switch c := g.R.Intn(10); {
			case c < 3:
				acts = append(acts, []string{"w", "v"}[g.R.Intn(2)]+strconv.Itoa(id))
				id++
			case c == 3 && !closed:
				acts = append(acts, "x")
				closed = true
			case len(unfinished) == 0 || c < 7:
				acts = append(acts, "p"+strconv.Itoa(id))
				unfinished = append(unfinished, id)
				id++
			default:
				acts = append(acts, "n"+strconv.Itoa(unfinished[0]))
				unfinished = unfinished[1:]
			}
		}
		g.Emit("taskq 1 %s", strings.Join(acts, ","))
	}
	for i := 0; i < g.pick(5, 50); i++ {
		g.Emit("taskq conc %d %d %d", 2+g.R.Intn(15), 50+g.R.Intn(500), i)
	}
	for i := 0; i < g.pick(6, 40); i++ {
		g.Emit("taskq pingpong %d %d %d", 2+g.R.Intn(14), g.pick(3000, 20000), i)
	}
}
