package main

import (
	"testing"
	"time"

	"github.com/lxzan/gws"
)

func TestHandshakePair(t *testing.T) {
	sh, ch := newRecorder(), newRecorder()
	s, c, _, _, err := handshakePair(&gws.ServerOption{PermessageDeflate: gws.PermessageDeflate{Enabled: true, ServerContextTakeover: true, ClientContextTakeover: true}},
		&gws.ClientOption{PermessageDeflate: gws.PermessageDeflate{Enabled: true, ServerContextTakeover: true, ClientContextTakeover: true}}, sh, ch)
	if err != nil {
		t.Fatal(err)
	}
	go s.ReadLoop()
	go c.ReadLoop()
	if err := c.WriteMessage(gws.OpcodeText, []byte("hello")); err != nil {
		t.Fatal(err)
	}
	_ = s.WriteClose(1000, nil)
	if !sh.WaitClosed(2*time.Second) || !ch.WaitClosed(2*time.Second) {
		t.Fatal("not closed")
	}
	t.Log(sh.Events(), ch.Events(), gws.VerifPD(s), gws.VerifPD(c))
}

func TestRawConns(t *testing.T) {
	h := newRecorder()
	c, _, peer, err := serverConnRaw(&gws.ServerOption{}, h, "")
	if err != nil {
		t.Fatal(err)
	}
	go c.ReadLoop()
	peer.Write([]byte{0x81, 0x82, 1, 2, 3, 4, 'h' ^ 1, 'i' ^ 2})
	peer.Write([]byte{0x88, 0x80, 1, 2, 3, 4})
	if !h.WaitClosed(2 * time.Second) {
		t.Fatal("not closed")
	}
	t.Log(h.Events(), hx(peer.ReadAvailable()))
	h2 := newRecorder()
	c2, _, peer2, err := clientConnRaw(&gws.ClientOption{}, h2, "", []byte{0x81, 0x02, 'h', 'i'})
	if err != nil {
		t.Fatal(err)
	}
	go c2.ReadLoop()
	peer2.Write([]byte{0x88, 0x00})
	if !h2.WaitClosed(2 * time.Second) {
		t.Fatal("not closed")
	}
	t.Log(h2.Events(), hx(peer2.ReadAvailable()))
}
