package main

import (
	"bytes"
	"encoding/json"
	"errors"
	"fmt"
	"io"
	"os"
	"os/exec"
	"runtime"
	"sort"
	"strconv"
	"strings"
	"sync"
	"time"

	"github.com/lxzan/gws"
)

func init() {
	register(&Suite{Name: "conn", Gen: genConn, Exec: execConn, Isolated: true})
}

// ---- scheduler: replays a schedule of the Lean transition system on the real code ---------------

type sActor struct {
	id      int
	kind    string
	point   string        // hook point the actor is parked at ("" while running)
	release chan struct{} // closed/sent to let it run to its next point
	done    bool
	ret     string
	goid    int64
}

type scheduler struct {
	mu       sync.Mutex
	cond     *sync.Cond
	conn     *gws.Conn
	actors   map[int]*sActor
	byGoid   map[int64]*sActor
	pendingB []*sActor // broadcast actors whose queue task has not reached b.start yet
	reader   *sActor
	free     bool // pass-through mode: nothing parks any more
	bcUnder  bool // Facts.bcClosedCheckUnderLock
	autoPass map[string]bool
}

func goid() int64 {
	var buf [64]byte
	n := runtime.Stack(buf[:], false)
	f := strings.Fields(string(buf[:n]))
	id, _ := strconv.ParseInt(f[1], 10, 64)
	return id
}

func (s *scheduler) hook(point string, c *gws.Conn) {
	s.mu.Lock()
	if c != s.conn || s.free {
		s.mu.Unlock()
		return
	}
	g := goid()
	a := s.byGoid[g]
	if a == nil {
		switch {
		case point == "b.start" && len(s.pendingB) > 0:
			a = s.pendingB[0]
			s.pendingB = s.pendingB[1:]
		case strings.HasPrefix(point, "r.") && s.reader != nil:
			a = s.reader
		default:
			s.mu.Unlock()
			return // a goroutine the schedule does not control
		}
		a.goid = g
		s.byGoid[g] = a
	}
	if s.autoPass[point] {
		s.mu.Unlock()
		return
	}
	a.point = point
	ch := make(chan struct{})
	a.release = ch
	s.cond.Broadcast()
	s.mu.Unlock()
	<-ch
}

// waitParkedOrDone blocks until the actor is parked at a point or has finished.
func (s *scheduler) waitParkedOrDone(a *sActor, d time.Duration) bool {
	deadline := time.Now().Add(d)
	s.mu.Lock()
	defer s.mu.Unlock()
	for a.point == "" && !a.done {
		if time.Now().After(deadline) {
			return false
		}
		s.mu.Unlock()
		time.Sleep(50 * time.Microsecond)
		s.mu.Lock()
	}
	return true
}

var insidePoints = map[string]bool{"w.write": true, "f.check": true, "b.write": true}
var lockPoints = map[string]bool{"w.lock": true, "f.lock": true, "b.lock": true}

func (s *scheduler) lockHeldByOther(a *sActor) bool {
	for _, o := range s.actors {
		if o != a && insidePoints[o.point] {
			return true
		}
	}
	return false
}

func (s *scheduler) finish(a *sActor, ret string) {
	s.mu.Lock()
	a.done, a.ret, a.point = true, ret, ""
	s.cond.Broadcast()
	s.mu.Unlock()
}

func retClass(err error) string {
	switch {
	case err == nil:
		return "ok"
	case errors.Is(err, gws.ErrConnClosed):
		return "closed"
	case errors.Is(err, gws.ErrTextEncoding), errors.Is(err, gws.ErrMessageTooLarge):
		return "rejected"
	default:
		return "ioerr"
	}
}

// scriptedReader returns one chunk per Read; the last chunk comes together with io.EOF.
type scriptedReader struct {
	chunks [][]byte
	i      int
}

func (r *scriptedReader) Read(p []byte) (int, error) {
	if r.i >= len(r.chunks) {
		return 0, io.EOF
	}
	n := copy(p, r.chunks[r.i])
	r.i++
	if r.i == len(r.chunks) {
		return n, io.EOF
	}
	return n, nil
}

var factsCache map[string]any

func factBool(name string, def bool) bool {
	if factsCache == nil {
		factsCache = map[string]any{}
		path := os.Getenv("VERIF_FACTS")
		if path == "" {
			path = "/verif/.build/facts.json"
		}
		if b, err := os.ReadFile(path); err == nil {
			_ = json.Unmarshal(b, &factsCache)
		}
	}
	if m, ok := factsCache["bool"].(map[string]any); ok {
		if v, ok := m[name].(bool); ok {
			return v
		}
	}
	return def
}

func execConn(args []string) string {
	acts := strings.Split(args[0], ",")
	h := newRecorder()
	conn, local, peer, err := serverConnRaw(&gws.ServerOption{CheckUtf8Enabled: true}, h, "")
	if err != nil {
		return "handshake-failed"
	}
	_ = peer
	s := &scheduler{conn: conn, actors: map[int]*sActor{}, byGoid: map[int64]*sActor{}, bcUnder: factBool("bcClosedCheckUnderLock", true),
		autoPass: map[string]bool{"r.reclaim": true}}
	if s.bcUnder {
		s.autoPass["b.start"] = true
	} else {
		s.autoPass["b.lock"] = false
	}
	s.cond = sync.NewCond(&s.mu)
	gws.VerifSetSched(s.hook)
	defer func() {
		// let everything run to completion
		s.mu.Lock()
		s.free = true
		for _, a := range s.actors {
			if a.release != nil && a.point != "" {
				close(a.release)
				a.point = ""
			}
		}
		s.mu.Unlock()
		local.PeerGone()
		_ = local.Close()
		gws.VerifSetSched(nil)
	}()
	readerScript := map[int][]byte{}
	readerPos := map[int]int{}
	kinds := map[int]string{}
	for _, t := range acts {
		switch t[0] {
		case 's':
			parts := strings.SplitN(t[1:], ":", 2)
			id, _ := strconv.Atoi(parts[0])
			kind := parts[1]
			kinds[id] = kind
			a := &sActor{id: id, kind: kind}
			s.mu.Lock()
			s.actors[id] = a
			s.mu.Unlock()
			start := func(f func() string) {
				ready := make(chan struct{})
				go func() {
					s.mu.Lock()
					a.goid = goid()
					s.byGoid[a.goid] = a
					s.mu.Unlock()
					close(ready)
					s.finish(a, f())
				}()
				<-ready
			}
			switch {
			case kind == "w":
				start(func() string { return retClass(conn.WriteMessage(gws.OpcodeBinary, []byte{byte(id), 0})) })
			case kind == "wr":
				start(func() string { return retClass(conn.WriteMessage(gws.OpcodeText, []byte{byte(id), 0xff})) })
			case kind == "c":
				// a local close is requested either through WriteClose or by sending a Close frame through the
				// generic write API; which one is not part of the schedule (both are "a closer" of the model)
				if (hashString(args[0])+uint64(id))%2 == 1 {
					start(func() string {
						return retClass(conn.WriteMessage(gws.OpcodeCloseConnection, []byte{byte((3000 + id) >> 8), byte(3000 + id)}))
					})
				} else {
					start(func() string { return retClass(conn.WriteClose(uint16(3000+id), nil)) })
				}
			case kind[0] == 'f':
				n, _ := strconv.Atoi(kind[1:])
				var chunks [][]byte
				for i := 0; i <= n; i++ {
					chunks = append(chunks, []byte{byte(id), byte(i)})
				}
				start(func() string { return retClass(conn.WriteFile(gws.OpcodeBinary, &scriptedReader{chunks: chunks})) })
			case kind == "b":
				s.mu.Lock()
				s.pendingB = append(s.pendingB, a)
				s.mu.Unlock()
				b := gws.NewBroadcaster(gws.OpcodeBinary, []byte{byte(id), 0})
				if err := b.Broadcast(conn); err != nil {
					return "broadcast-error"
				}
				conn.Async(func() { s.finish(a, "ok"); _ = b.Close() }) // runs right after the broadcast task (queue is FIFO, concurrency 1)
			case kind[0] == 'r':
				readerScript[id] = []byte(kind[1:])
				s.mu.Lock()
				s.reader = a
				s.mu.Unlock()
				go func() {
					defer func() {
						if e := recover(); e != nil {
							s.finish(a, "panic")
						}
					}()
					conn.ReadLoop()
					s.finish(a, "ok")
				}()
			default:
				return "bad-op kind"
			}
			if !s.waitParkedOrDone(a, 5*time.Second) {
				return fmt.Sprintf("actor %d did not reach its first scheduling point", id)
			}
		case 'a':
			fault := strings.HasSuffix(t, "!")
			id, _ := strconv.Atoi(strings.TrimSuffix(t[1:], "!"))
			a := s.actors[id]
			if a == nil {
				return "bad-op unknown-actor"
			}
			if !s.waitParkedOrDone(a, 5*time.Second) || a.done {
				return fmt.Sprintf("actor %d is not at a scheduling point (done=%v)", id, a.done)
			}
			s.mu.Lock()
			pt := a.point
			if lockPoints[pt] && s.lockHeldByOther(a) {
				s.mu.Unlock()
				return "not-enabled: lock held"
			}
			if pt == "r.read" {
				// feed the next scripted inbound item
				sc, pos := readerScript[id], readerPos[id]
				key := [4]byte{1, 2, 3, 4}
				if pos >= len(sc) {
					local.PeerGone()
				} else {
					switch sc[pos] {
					case 'm':
						local.Inject(frameSpec{fin: true, opcode: 2, masked: true, key: key, payload: []byte("m")}.bytes())
					case 'p':
						local.Inject(frameSpec{fin: true, opcode: 8, masked: true, key: key, payload: []byte{0x03, 0xe8}}.bytes())
					case 'e':
						local.Inject(frameSpec{fin: true, opcode: 3, masked: true, key: key}.bytes())
					}
					readerPos[id] = pos + 1
				}
			}
			if fault {
				local.SetPlan(&faultPlan{readAt: -1, writeAt: 0, kind: faultErr})
			}
			a.point = ""
			ch := a.release
			s.mu.Unlock()
			close(ch)
			if !s.waitParkedOrDone(a, 5*time.Second) {
				return fmt.Sprintf("actor %d did not reach its next scheduling point after %s", id, pt)
			}
			if fault {
				local.SetPlan(nil)
			}
		}
	}
	// observation
	frames, derr := decodeFrames(local.Tap())
	var ws []string
	idx := map[int]int{}
	_ = idx
	for _, f := range frames {
		switch {
		case f.opcode == 8:
			owner := -1
			if len(f.payload) >= 2 {
				owner = (int(f.payload[0])<<8 | int(f.payload[1])) - 3000
			}
			if owner < 0 || owner > 255 { // a close frame sent by emitError/emitClose
				ws = append(ws, "cE")
			} else {
				ws = append(ws, "c"+strconv.Itoa(owner))
			}
		case len(f.payload) >= 2:
			l := ""
			if f.fin {
				l = "L"
			}
			ws = append(ws, fmt.Sprintf("d%d.%d%s", f.payload[0], f.payload[1], l))
		default:
			ws = append(ws, "unknown-frame")
		}
	}
	if derr != nil {
		ws = append(ws, "undecodable-tail")
	}
	wire := "-"
	if len(ws) > 0 {
		wire = strings.Join(ws, ",")
	}
	var ids []int
	for id := range s.actors {
		ids = append(ids, id)
	}
	sort.Ints(ids)
	var rets []string
	s.mu.Lock()
	for _, id := range ids {
		a := s.actors[id]
		k := kinds[id]
		if a.done && (k == "w" || k == "wr" || k == "c" || k[0] == 'f') {
			rets = append(rets, fmt.Sprintf("%d:%s", id, a.ret))
		}
	}
	s.mu.Unlock()
	r := "-"
	if len(rets) > 0 {
		r = strings.Join(rets, ",")
	}
	var cbs bytes.Buffer
	for _, e := range h.Events() {
		switch {
		case e == "open":
			cbs.WriteString("o")
		case strings.HasPrefix(e, "msg:"):
			cbs.WriteString("m")
		case e == "close:err()":
			cbs.WriteString("x0")
		case strings.HasPrefix(e, "close:nil"):
			cbs.WriteString("xNIL")
		case strings.HasPrefix(e, "close:"):
			cbs.WriteString("x1")
		}
	}
	c := "-"
	if cbs.Len() > 0 {
		c = cbs.String()
	}
	return fmt.Sprintf("wire=%s rets=%s cbs=%s closed=%s tclosed=%s", wire, r, c, b2s(gws.VerifIsClosed(conn)), b2s(local.IsClosed()))
}

// genConn asks the Lean driver (model-based generation) for schedules of several actor sets.
func genConn(g *Gen) {
	driver := os.Getenv("VERIF_DRIVER")
	if driver == "" {
		driver = "/verif/lean/.lake/build/bin/gwsdriver"
	}
	type set struct {
		kinds  string
		depth  int
		faults string
		limit  int
	}
	q, t := g.pick, g.Thorough()
	_ = t
	sets := []set{
		{"w,c", 30, "-", 100}, {"w,w,c", 30, "-", q(150, 2000)}, {"b,c", 30, "-", 100}, {"b,w,c", 30, "-", q(200, 3000)},
		{"f1,c", 30, "-", 200}, {"f2,w,c", 40, "-", q(200, 3000)}, {"c,c", 30, "-", 100}, {"c,c,w", 30, "-", q(150, 2000)},
		{"wr,w,c", 30, "-", q(150, 1500)}, {"w,rmp", 30, "-", q(150, 1000)}, {"c,rmp", 30, "-", q(150, 1000)}, {"w,c,rme", 40, "-", q(200, 3000)},
		{"b,rp", 30, "-", q(150, 1000)}, {"f1,re", 30, "-", q(150, 1000)}, {"w,r", 30, "-", 100},
		{"w,c", 30, "1,2", 300}, {"w,w", 30, "1", 100}, {"f2,w", 30, "1", q(150, 1000)}, {"b,c", 30, "1,2", q(150, 600)}, {"w,rm", 30, "1", q(100, 500)},
		{"c,rp", 30, "1", q(100, 500)},
	}
	if g.Thorough() {
		sets = append(sets, set{"w,w,w,c", 40, "-", 4000}, set{"b,f1,w,c", 40, "-", 4000}, set{"w,f1,c,rmp", 44, "-", 6000}, set{"w,c,c,rme", 44, "3", 4000})
	}
	for _, st := range sets {
		cmd := exec.Command(driver)
		cmd.Stdin = strings.NewReader(fmt.Sprintf("conngen %s %d %s %d\n", st.kinds, st.depth, st.faults, st.limit))
		out, err := cmd.Output()
		if err != nil {
			g.Emit("conn bad-generator-%s", strings.ReplaceAll(err.Error(), " ", "_"))
			continue
		}
		for _, line := range strings.Split(string(out), "\n") {
			if strings.HasPrefix(line, "conn ") {
				g.emit(line)
				g.Count("set:" + st.kinds)
			}
		}
	}
}
