package main

// Suites hs-server (C10) and hs-client (C11): the opening handshake's decision logic.
//
// The model's input is the peer's message as net/http parsed it, so the generator itself runs
// http.ReadRequest / http.ReadResponse on the raw bytes it built and puts the parsed view next to the
// raw bytes in the case line; Exec feeds the raw bytes to the real code (and re-checks that the parsed
// view in the line is what net/http produces now). Messages net/http refuses are a separate case kind.

import (
	"bufio"
	"bytes"
	"encoding/base64"
	"errors"
	"fmt"
	"net/http"
	"runtime"
	"sort"
	"strconv"
	"strings"
	"time"

	"github.com/lxzan/gws"
)

func init() {
	register(&Suite{Name: "hs-server", Gen: genHsServer, Exec: execHsServer, Isolated: true})
	register(&Suite{Name: "hs-client", Gen: genHsClient, Exec: execHsClient, Isolated: true})
}

// ---- header maps on the case line ---------------------------------------------------------------

// hsEncHdr renders a header map as `.` or `name=hexlist;...` with names in hex, sorted by name (bytes).
func hsEncHdr(h map[string][]string) string {
	if len(h) == 0 {
		return "."
	}
	keys := make([]string, 0, len(h))
	for k := range h {
		keys = append(keys, k)
	}
	sort.Strings(keys)
	parts := make([]string, len(keys))
	for i, k := range keys {
		vals := make([][]byte, len(h[k]))
		for j, v := range h[k] {
			vals[j] = []byte(v)
		}
		parts[i] = hx([]byte(k)) + "=" + hxList(vals)
	}
	return strings.Join(parts, ";")
}

// hsDecHdr is the inverse; the map is built by plain assignment, so keys stay exactly as given.
func hsDecHdr(s string) http.Header {
	h := http.Header{}
	if s == "." {
		return h
	}
	for _, e := range strings.Split(s, ";") {
		kv := strings.SplitN(e, "=", 2)
		var vals []string
		for _, v := range unhxList(kv[1]) {
			vals = append(vals, string(v))
		}
		if vals == nil {
			vals = []string{}
		}
		h[string(unhx(kv[0]))] = vals
	}
	return h
}

func hsStrList(s string) []string {
	var out []string
	for _, b := range unhxList(s) {
		out = append(out, string(b))
	}
	return out
}

func hsEncStrList(l []string) string {
	b := make([][]byte, len(l))
	for i, s := range l {
		b[i] = []byte(s)
	}
	return hxList(b)
}

func hsOptHex(present bool, v string) string {
	if !present {
		return "none"
	}
	return hx([]byte(v))
}

var hsPdOn = gws.PermessageDeflate{Enabled: true, ServerContextTakeover: true, ClientContextTakeover: true}

// ---- hs-server: Exec ----------------------------------------------------------------------------

// hsShowWritten is the canonical rendering of the bytes a server wrote (the driver has the same
// function over the model's bytes): status line, the other head lines sorted with a Date line
// dropped, the body, and what a net/http client sees for the five protected fields.
func hsShowWritten(w []byte) string {
	head, body := w, []byte(nil)
	if i := bytes.Index(w, []byte("\r\n\r\n")); i >= 0 {
		head, body = w[:i], w[i+4:]
	}
	lines := bytes.Split(head, []byte("\r\n"))
	st := lines[0]
	var rest []string
	for _, l := range lines[1:] {
		if bytes.HasPrefix(l, []byte("Date: ")) {
			continue
		}
		rest = append(rest, hx(l))
	}
	sort.Strings(rest)
	ls := "."
	if len(rest) > 0 {
		ls = strings.Join(rest, ",")
	}
	gets := "parse-error"
	if resp, err := http.ReadResponse(bufio.NewReader(bytes.NewReader(w)), nil); err == nil {
		var g []string
		for _, k := range []string{"Upgrade", "Connection", "Sec-WebSocket-Accept", "Sec-WebSocket-Extensions", "Sec-WebSocket-Protocol"} {
			g = append(g, resp.Header.Get(k))
		}
		gets = hsEncStrList(g)
	}
	return fmt.Sprintf("status=%s lines=%s body=%s get=%s", hx(st), ls, hx(body), gets)
}

func hsServerErrClass(err error) string {
	switch {
	case err == nil:
		return "-"
	case errors.Is(err, gws.ErrUnauthorized):
		return "unauthorized"
	case errors.Is(err, gws.ErrHandshake):
		return "handshake"
	case errors.Is(err, gws.ErrSubprotocolNegotiation):
		return "subprotocol"
	case err.Error() == "gws: websocket version not supported":
		return "version"
	}
	return "other:" + strings.Join(strings.Fields(err.Error()), "_")
}

// hsOneUpgrade feeds raw to http.ReadRequest + UpgradeFromConn over a fresh in-memory transport.
func hsOneUpgrade(up *gws.Upgrader, raw []byte) (c *gws.Conn, err error, req *http.Request, sc *memConn, written []byte, parseErr error) {
	sc, peer := newPipe()
	_, _ = peer.Write(raw)
	sc.PeerGone() // a truncated request ends in EOF instead of blocking
	br := bufio.NewReaderSize(sc, 4096)
	req, parseErr = http.ReadRequest(br)
	if parseErr != nil {
		return nil, nil, nil, sc, peer.ReadAvailable(), parseErr
	}
	c, err = up.UpgradeFromConn(sc, br, req)
	return c, err, req, sc, peer.ReadAvailable(), nil
}

// hsStripObs drops observation fields ("impl:…", appended to case lines by earlier runs).
func hsStripObs(args []string) []string {
	out := args[:0:0]
	for _, a := range args {
		if !strings.HasPrefix(a, "impl:") {
			out = append(out, a)
		}
	}
	return out
}

func execHsServer(args []string) string {
	args = hsStripObs(args)
	switch args[0] {
	case "bad":
		up := gws.NewUpgrader(newRecorder(), &gws.ServerOption{Logger: quietLogger{}})
		_, _, _, sc, written, perr := hsOneUpgrade(up, unhx(args[1]))
		if perr == nil {
			return "parsed-unexpectedly"
		}
		// what Server.RunListener does with such a request: OnError, nothing is upgraded or written
		if len(written) != 0 || sc.IsClosed() {
			return "http-parse-error-but-wrote"
		}
		return "http-parse-error"
	case "req":
	default:
		return "bad-op hs-server-kind"
	}
	if len(args) != 10 {
		return "bad-op hs-server-args"
	}
	subs, rh, comp, auth := hsStrList(args[1]), hsDecHdr(args[2]), args[3] == "1", args[4] == "1"
	sess, ext, method, hdr, raw := string(unhx(args[5])), args[6], string(unhx(args[7])), args[8], unhx(args[9])

	opt := &gws.ServerOption{SubProtocols: subs, Logger: quietLogger{}}
	if len(rh) > 0 {
		opt.ResponseHeader = rh
	}
	if comp {
		opt.PermessageDeflate = hsPdOn
	}
	nth := 0
	rejectNext := false
	opt.Authorize = func(r *http.Request, s gws.SessionStorage) bool {
		if rejectNext { // the preliminary request below: stores something, then refuses
			rejectNext = false
			s.Store("poison", 1)
			return false
		}
		nth++
		s.Store("k", sess+strings.Repeat("'", nth-1))
		return auth
	}
	up := gws.NewUpgrader(newRecorder(), opt)
	if auth { // a refused authorisation on the same upgrader first: what it stored must not reach a later connection
		rejectNext = true
		if _, _, _, sc0, _, perr0 := hsOneUpgrade(up, raw); perr0 == nil && sc0 != nil {
			_ = sc0.Close()
		}
		rejectNext = false
	}
	c, err, req, sc, written, perr := hsOneUpgrade(up, raw)
	if perr != nil {
		return "case-inconsistent http-parse-error"
	}
	if req.Method != method || hsEncHdr(req.Header) != hdr {
		return "case-inconsistent parsed-view"
	}
	// the negotiated extension recorded in the case must be what the code computes now (C12's unit)
	pd := gws.VerifServerPD(up, req.Header.Get("Sec-WebSocket-Extensions"))
	if hsOptHex(pd.Enabled, gws.VerifGenResponseHeader(pd)) != ext {
		return "case-inconsistent ext"
	}

	// "a permessage-deflate extension only if the client offered it and the server enables it"
	extonly := true
	if bytes.Contains(bytes.ToLower(written), []byte("\r\nsec-websocket-extensions:")) {
		offered := false
		for _, v := range req.Header.Values("Sec-WebSocket-Extensions") {
			offered = offered || strings.Contains(v, "permessage-deflate")
		}
		extonly = comp && offered
	}

	// session isolation: a second upgrade of the same request through the same Upgrader
	c2, err2, _, sc2, _, _ := hsOneUpgrade(up, raw)
	iso := (c == nil) == (c2 == nil) && hsServerErrClass(err) == hsServerErrClass(err2)
	if c != nil && c2 != nil {
		v1, _ := c.Session().Load("k")
		v2, _ := c2.Session().Load("k")
		_, poisoned := c.Session().Load("poison")
		iso = iso && !poisoned && c.Session().Len() == 1 && c2.Session().Len() == 1
		c.Session().Store("only1", 1)
		_, leaked := c2.Session().Load("only1")
		iso = iso && c.Session() != c2.Session() && v1 == sess && v2 == sess+"'" && !leaked
		_ = sc2.Close()
	}

	cv := "conn=0 sp=- sess=-"
	if c != nil {
		v, _ := c.Session().Load("k")
		s, _ := v.(string)
		cv = fmt.Sprintf("conn=1 sp=%s sess=%s", hx([]byte(c.SubProtocol())), hx([]byte(s)))
	}
	out := fmt.Sprintf("acc=%s err=%s %s %s closed=%s iso=%s extonly=%s", b2s(err == nil), hsServerErrClass(err),
		hsShowWritten(written), cv, b2s(sc.IsClosed()), b2s(iso), b2s(extonly))
	if c != nil {
		_ = sc.Close()
	}
	// observation for the driver: what the implementation decided (judged against the property's iff)
	return out + "\timpl:" + b2s(err == nil)
}

// ---- hs-server: Gen -----------------------------------------------------------------------------

type hsLine struct{ k, v string }

type hsMsg struct {
	first string // request line or status line
	lines []hsLine
	tail  string // bytes after the empty line
}

func (m hsMsg) bytes() []byte {
	var b bytes.Buffer
	b.WriteString(m.first + "\r\n")
	for _, l := range m.lines {
		b.WriteString(l.k + ": " + l.v + "\r\n")
	}
	b.WriteString("\r\n" + m.tail)
	return b.Bytes()
}

func (m hsMsg) clone() hsMsg {
	return hsMsg{first: m.first, lines: append([]hsLine(nil), m.lines...), tail: m.tail}
}

// set replaces the value of the first line named k (exact name), or appends one.
func (m hsMsg) set(k, v string) hsMsg {
	n := m.clone()
	for i := range n.lines {
		if n.lines[i].k == k {
			n.lines[i].v = v
			return n
		}
	}
	n.lines = append(n.lines, hsLine{k, v})
	return n
}

func (m hsMsg) drop(k string) hsMsg {
	n := hsMsg{first: m.first, tail: m.tail}
	for _, l := range m.lines {
		if l.k != k {
			n.lines = append(n.lines, l)
		}
	}
	return n
}

func (m hsMsg) add(k, v string) hsMsg {
	n := m.clone()
	n.lines = append(n.lines, hsLine{k, v})
	return n
}

// addBefore inserts a line in front of the first line named `before`.
func (m hsMsg) addBefore(before, k, v string) hsMsg {
	n := hsMsg{first: m.first, tail: m.tail}
	done := false
	for _, l := range m.lines {
		if l.k == before && !done {
			n.lines = append(n.lines, hsLine{k, v})
			done = true
		}
		n.lines = append(n.lines, l)
	}
	if !done {
		n.lines = append(n.lines, hsLine{k, v})
	}
	return n
}

func (m hsMsg) rename(f func(string) string) hsMsg {
	n := m.clone()
	for i := range n.lines {
		n.lines[i].k = f(n.lines[i].k)
	}
	return n
}

func (m hsMsg) shuffle(r *Rand) hsMsg {
	n := m.clone()
	for i := len(n.lines) - 1; i > 0; i-- {
		j := r.Intn(i + 1)
		n.lines[i], n.lines[j] = n.lines[j], n.lines[i]
	}
	return n
}

func hsRandCase(r *Rand, s string) string {
	b := []byte(s)
	for i, c := range b {
		if r.Bool() {
			if 'a' <= c && c <= 'z' {
				b[i] = c - 32
			} else if 'A' <= c && c <= 'Z' {
				b[i] = c + 32
			}
		}
	}
	return string(b)
}

func hsRandKey(r *Rand) string { return base64.StdEncoding.EncodeToString(r.Bytes(16)) }

func hsBaseRequest(key string) hsMsg {
	return hsMsg{first: "GET /verif HTTP/1.1", lines: []hsLine{
		{"Host", "verif.test"}, {"Connection", "Upgrade"}, {"Upgrade", "websocket"},
		{"Sec-WebSocket-Version", "13"}, {"Sec-WebSocket-Key", key}}}
}

type hsSrvOpt struct {
	subs []string
	rh   map[string][]string
	comp bool
	auth bool
	sess string
}

const (
	hsKelvin = "\u212a" // KELVIN SIGN, folds and lower-cases to k
	hsLongS  = "\u017f" // LATIN SMALL LETTER LONG S, folds to s
	hsDotI   = "\u0130" // LATIN CAPITAL LETTER I WITH DOT ABOVE, lower-cases to i
	hsNbsp   = "\u00a0" // NO-BREAK SPACE: white space for strings.TrimSpace, not for net/http
)

var (
	hsConnValid  = []string{"Upgrade", "upgrade", "UPGRADE", "uPgRaDe", "keep-alive, Upgrade", "Upgrade, keep-alive", "keep-alive,upgrade", "keep-alive ,  Upgrade  , x", "Upgrade,", ",Upgrade", "x,\tuPGRADe\t,y", "keep-alive,\t \tupgrade", ",, ,Upgrade ,,", "Upgrade" + hsNbsp, "\u3000upgrade\u2003, close"}
	hsConnNear   = []string{"upgradex", "xupgrade", "keep-alive, upgrades", "no-upgrade", "Upgrade" + hsKelvin, "\"Upgrade\"", "Upgrade;q=1", "Upgrade keep-alive", "Upgrade\tx", "up,grade", "Upgrade=1", "keep-alive; Upgrade"}
	hsConnBad    = []string{"", "keep-alive", "close", "upgrad", "up grade", "u-p-g-r-a-d-e", "upgrad" + hsKelvin, "Upgr" + hsDotI + "ade", "Upgrad\u00e9", "pgrade", "\xffpgrade"}
	hsUpgValid   = []string{"websocket", "WebSocket", "WEBSOCKET", "wEbSoCkEt"}
	hsUpgFold    = []string{"websoc" + hsKelvin + "et", "web" + hsLongS + "ocket", "WEB" + hsLongS + "OC" + hsKelvin + "ET"}
	hsUpgBad     = []string{"", "websocket2", "websocke", "h2c", "web socket", "websocket, h2c", "h2c, websocket", "websocket/13", "websoc\xe2\x84et", "web\xc5ocket", "websock\u00e9t", "webs" + hsDotI + "cket"}
	hsVerBad     = []string{"", "12", "8", "14", "013", "13.0", "13, 8", "8, 13", "1 3", "+13", "0x0d", "\uff11\uff13", "13" + hsNbsp}
	hsMethods    = []string{"POST", "get", "HEAD", "PUT", "OPTIONS", "DELETE", "GETX", "Get"}
	hsProtoOffer = []string{"", "chat", "mqtt", "chat, mqtt", "mqtt,chat", " chat ,mqtt ", "mqtt,,chat", ",", "chat\t", "Chat", "chat" + hsNbsp + ", mqtt", hsNbsp + "mqtt" + hsNbsp, "superchat, chatx", "v1.chat,chat", "chat mqtt", "\u3000chat\u2003", "chat\xa0", "\xc2chat"}
	hsExtOffer   = []string{"", "permessage-deflate", "permessage-deflate; client_max_window_bits", "permessage-deflate; server_no_context_takeover; client_no_context_takeover", "permessage-deflate; server_max_window_bits=10", "x-webkit-deflate-frame", "foo, permessage-deflate; client_max_window_bits=12", "PERMESSAGE-DEFLATE", "xpermessage-deflatex"}
	hsSubs       = [][]string{nil, {"chat"}, {"mqtt"}, {"chat", "mqtt"}, {"mqtt", "chat"}, {"v1.chat", "superchat"}, {"Chat"}, {""}, {"", "chat"}, {"chat mqtt"}, {"chat,mqtt"}}
)

func hsRespHeaders(r *Rand) []map[string][]string {
	canonSet := func(kv ...string) map[string][]string {
		h := http.Header{}
		for i := 0; i+1 < len(kv); i += 2 {
			h.Add(kv[i], kv[i+1])
		}
		return h
	}
	raw := func(kv ...string) map[string][]string {
		h := map[string][]string{}
		for i := 0; i+1 < len(kv); i += 2 {
			h[kv[i]] = append(h[kv[i]], kv[i+1])
		}
		return h
	}
	return []map[string][]string{
		nil,
		canonSet("X-Served-By", "gws"),
		canonSet("X-A", "1", "X-A", "2", "Server", "verif"),
		canonSet("Upgrade", "h2c", "X-A", "1"),
		canonSet("Connection", "close"),
		canonSet("Sec-WebSocket-Accept", "bogus"),
		canonSet("Sec-WebSocket-Extensions", "permessage-deflate; bogus"),
		canonSet("Sec-WebSocket-Protocol", "evil"),
		canonSet("upgrade", "h2c", "connection", "close", "sec-websocket-accept", "bogus", "sec-websocket-extensions", "x", "sec-websocket-protocol", "evil", "Set-Cookie", "a=b"),
		// keys written into the map directly, bypassing canonicalisation
		raw("upgrade", "h2c"),
		raw("Sec-WebSocket-Accept", "bogus"),
		raw("Sec-WebSocket-Protocol", "evil", "x-a", "1"),
		raw("x-a", "1", "X-A", "2"),
		raw("CONNECTION", "close", "Connection", "close"),
		raw("X-Empty", ""),
		{"X-None": {}},
	}
}

// hsEmitServer parses the raw request as the server would and emits the matching case kind.
func hsEmitServer(g *Gen, o hsSrvOpt, m hsMsg) {
	raw := m.bytes()
	hsEmitServerRaw(g, o, raw)
}

var hsGenUpgraders [2]*gws.Upgrader

// hsGenUpgrader returns an Upgrader used only to compute the negotiated extension at generation time.
func hsGenUpgrader(comp bool) *gws.Upgrader {
	i := 0
	opt := &gws.ServerOption{Logger: quietLogger{}}
	if comp {
		i = 1
		opt.PermessageDeflate = hsPdOn
	}
	if hsGenUpgraders[i] == nil {
		hsGenUpgraders[i] = gws.NewUpgrader(newRecorder(), opt)
	}
	return hsGenUpgraders[i]
}

func hsEmitServerRaw(g *Gen, o hsSrvOpt, raw []byte) {
	req, err := http.ReadRequest(bufio.NewReader(bytes.NewReader(raw)))
	if err != nil {
		g.Count("parse-error")
		g.Emit("hs-server bad %s", hx(raw))
		return
	}
	pd := gws.VerifServerPD(hsGenUpgrader(o.comp), req.Header.Get("Sec-WebSocket-Extensions"))
	g.Count("req")
	g.Emit("hs-server req %s %s %s %s %s %s %s %s %s", hsEncStrList(o.subs), hsEncHdr(o.rh), b2s(o.comp), b2s(o.auth),
		hx([]byte(o.sess)), hsOptHex(pd.Enabled, gws.VerifGenResponseHeader(pd)), hx([]byte(req.Method)), hsEncHdr(req.Header), hx(raw))
}

func genHsServer(g *Gen) {
	r := g.R
	plain := hsSrvOpt{auth: true, sess: "s0"}
	key := "dGhlIHNhbXBsZSBub25jZQ=="
	base := hsBaseRequest(key)
	rhs := hsRespHeaders(r)

	// 1. the valid request under every systematic variation, plain options
	hsEmitServer(g, plain, base)
	for _, f := range []func(string) string{strings.ToLower, strings.ToUpper, func(s string) string { return hsRandCase(r, s) }} {
		hsEmitServer(g, plain, base.rename(f))
	}
	for _, v := range hsConnValid {
		hsEmitServer(g, plain, base.set("Connection", v))
	}
	for _, v := range hsUpgValid {
		hsEmitServer(g, plain, base.set("Upgrade", v))
	}
	hsEmitServer(g, plain, base.add("Origin", "http://verif.test").add("Cookie", "a=b; c=d").add("X-Forwarded-For", "10.0.0.1").add("User-Agent", "verif/1"))
	for i := 0; i < 8; i++ {
		hsEmitServer(g, plain, base.add("X-Pad", string(r.Text(10+r.Intn(200)))).shuffle(r))
	}
	// the upgrade token on a second or third Connection line, near misses spread over several lines
	for _, lines := range [][]string{
		{"keep-alive", "Upgrade"}, {"keep-alive", "x, upgrade ,y"}, {"", "Upgrade"}, {",", "close", "\tUPGRADE "},
		{"upgradex", "Upgrade"}, {"Upgrade", "upgradex"}, {"keep-alive", "close"}, {"upgradex", "no-upgrade", "keep-alive, upgrades"},
		{"up", "grade"}, {"keep-alive, up", "grade, x"},
	} {
		m := base.drop("Connection")
		for i, v := range lines {
			m = m.add([]string{"Connection", "connection", "CONNECTION"}[i%3], v)
		}
		hsEmitServer(g, plain, m)
		hsEmitServer(g, plain, m.shuffle(r))
	}
	// duplicated header lines: Connection is read on all lines, the others on the first (Header.Get)
	for _, k := range []string{"Connection", "Upgrade", "Sec-WebSocket-Version", "Sec-WebSocket-Key"} {
		for _, other := range []string{"keep-alive", "x", ""} {
			hsEmitServer(g, plain, base.add(k, other))
			hsEmitServer(g, plain, base.addBefore(k, k, other))
			hsEmitServer(g, plain, base.addBefore(k, strings.ToLower(k), other))
		}
	}
	// 2. near misses and invalid values of each mandatory element, one at a time
	for _, v := range append(append([]string{}, hsConnNear...), hsConnBad...) {
		hsEmitServer(g, plain, base.set("Connection", v))
	}
	hsEmitServer(g, plain, base.drop("Connection"))
	for _, v := range append(append([]string{}, hsUpgFold...), hsUpgBad...) {
		hsEmitServer(g, plain, base.set("Upgrade", v))
	}
	hsEmitServer(g, plain, base.drop("Upgrade"))
	for _, v := range hsVerBad {
		hsEmitServer(g, plain, base.set("Sec-WebSocket-Version", v))
	}
	// white space around a header value is removed by net/http before gws sees it
	for _, v := range []string{"13 ", " 13", "\t13\t", "13  "} {
		hsEmitServer(g, plain, base.set("Sec-WebSocket-Version", v))
	}
	hsEmitServer(g, plain, base.drop("Sec-WebSocket-Version"))
	for _, m := range hsMethods {
		n := base.clone()
		n.first = m + " /verif HTTP/1.1"
		hsEmitServer(g, plain, n)
	}
	for _, k := range []string{"", " ", "    ", "\t", "a", "a b", "not base64 !!", "AAAA", strings.Repeat("A", 24), strings.Repeat("QUFB", 300), "\xff\xfe", hsNbsp, key + " "} {
		hsEmitServer(g, plain, base.set("Sec-WebSocket-Key", k))
	}
	hsEmitServer(g, plain, base.drop("Sec-WebSocket-Key"))
	deny := plain
	deny.auth = false
	hsEmitServer(g, deny, base)
	hsEmitServer(g, deny, base.drop("Connection")) // the callback is consulted first
	// pairwise: two mandatory elements wrong at once (the first failing check in code order decides)
	type mut struct {
		name string
		f    func(hsMsg) hsMsg
	}
	muts := []mut{
		{"method", func(m hsMsg) hsMsg { n := m.clone(); n.first = "POST /verif HTTP/1.1"; return n }},
		{"version", func(m hsMsg) hsMsg { return m.set("Sec-WebSocket-Version", "12") }},
		{"noversion", func(m hsMsg) hsMsg { return m.drop("Sec-WebSocket-Version") }},
		{"connection", func(m hsMsg) hsMsg { return m.set("Connection", "keep-alive") }},
		{"noconnection", func(m hsMsg) hsMsg { return m.drop("Connection") }},
		{"upgrade", func(m hsMsg) hsMsg { return m.set("Upgrade", "h2c") }},
		{"noupgrade", func(m hsMsg) hsMsg { return m.drop("Upgrade") }},
		{"key", func(m hsMsg) hsMsg { return m.set("Sec-WebSocket-Key", "") }},
		{"nokey", func(m hsMsg) hsMsg { return m.drop("Sec-WebSocket-Key") }},
		{"proto", func(m hsMsg) hsMsg { return m.set("Sec-WebSocket-Protocol", "nothing-shared") }},
	}
	withSubs := hsSrvOpt{auth: true, sess: "s1", subs: []string{"chat", "mqtt"}}
	denySubs := withSubs
	denySubs.auth = false
	for i := range muts {
		hsEmitServer(g, withSubs, muts[i].f(base.add("Sec-WebSocket-Protocol", "mqtt")))
		hsEmitServer(g, denySubs, muts[i].f(base.add("Sec-WebSocket-Protocol", "mqtt")))
		for j := i + 1; j < len(muts); j++ {
			hsEmitServer(g, withSubs, muts[j].f(muts[i].f(base.add("Sec-WebSocket-Protocol", "mqtt"))))
		}
	}
	// 3. sub-protocol selection: every server list against every offer, incl. offers split over two lines
	for _, subs := range hsSubs {
		o := hsSrvOpt{auth: true, sess: "s2", subs: subs}
		hsEmitServer(g, o, base)
		for _, offer := range hsProtoOffer {
			hsEmitServer(g, o, base.add("Sec-WebSocket-Protocol", offer))
		}
		hsEmitServer(g, o, base.add("Sec-WebSocket-Protocol", "mqtt").add("Sec-WebSocket-Protocol", "chat"))
		hsEmitServer(g, o, base.add("Sec-WebSocket-Protocol", "other").add("sec-websocket-protocol", "chat, mqtt"))
		hsEmitServer(g, o, base.add("Sec-WebSocket-Protocol", "").add("Sec-WebSocket-Protocol", "x,").add("SEC-WEBSOCKET-PROTOCOL", " mqtt\t"))
		hsEmitServer(g, o, base.add("Sec-WebSocket-Protocol", "ch").add("Sec-WebSocket-Protocol", "at")) // joined with a comma, not glued
	}
	// 4. extension offers x compression enabled or not
	for _, comp := range []bool{false, true} {
		for _, offer := range hsExtOffer {
			o := hsSrvOpt{auth: true, sess: "s3", comp: comp}
			m := base
			if offer != "" {
				m = base.add("Sec-WebSocket-Extensions", offer)
			}
			hsEmitServer(g, o, m)
		}
		o := hsSrvOpt{auth: true, sess: "s3", comp: comp}
		hsEmitServer(g, o, base.add("Sec-WebSocket-Extensions", "foo").add("Sec-WebSocket-Extensions", "permessage-deflate"))
	}
	// 5. configured extra response headers, incl. attempts to override the protected names
	for _, rh := range rhs {
		for _, subs := range [][]string{nil, {"chat"}} {
			for _, comp := range []bool{false, true} {
				o := hsSrvOpt{auth: true, sess: "s4", rh: rh, subs: subs, comp: comp}
				hsEmitServer(g, o, base.add("Sec-WebSocket-Protocol", "chat").add("Sec-WebSocket-Extensions", "permessage-deflate"))
			}
		}
		o := hsSrvOpt{auth: true, sess: "s4", rh: rh}
		hsEmitServer(g, o, base.set("Upgrade", "h2c")) // extra headers never reach an error response
	}
	// 6. messages net/http refuses, and truncated ones
	full := base.bytes()
	for _, cut := range []int{0, 1, 10, len("GET /verif HTTP/1.1\r\n"), len(full) / 2, len(full) - 4, len(full) - 2, len(full) - 1} {
		hsEmitServerRaw(g, plain, full[:cut])
	}
	for _, s := range []string{
		"GET /verif\r\n\r\n", "GET /verif HTTP/1.1\r\nHost verif.test\r\n\r\n", "GET /verif HTTP/1.1\r\n Connection: Upgrade\r\n\r\n",
		"GET  /verif HTTP/1.1\r\nHost: verif.test\r\n\r\n", "\r\n\r\n", "G\x00T /verif HTTP/1.1\r\nHost: verif.test\r\n\r\n",
		"GET /verif HTTP/1.1\r\nHost: verif.test\r\nCon nection: Upgrade\r\n\r\n", "GET /verif HTTP/1.1\r\nHost: verif.test\r\n: x\r\n\r\n",
		"GET /verif HTTP/2.0\r\nHost: verif.test\r\n\r\n", "GET /verif HTTP/1.1\nHost: verif.test\nConnection: Upgrade\nUpgrade: websocket\nSec-WebSocket-Version: 13\nSec-WebSocket-Key: " + key + "\n\n",
		"GET /verif HTTP/1.1\r\nHost: verif.test\r\nConnection: Upgrade\r\n\tcontinued\r\nUpgrade: websocket\r\nSec-WebSocket-Version: 13\r\nSec-WebSocket-Key: " + key + "\r\n\r\n",
		"GET /verif HTTP/1.0\r\nConnection: Upgrade\r\nUpgrade: websocket\r\nSec-WebSocket-Version: 13\r\nSec-WebSocket-Key: " + key + "\r\n\r\n",
	} {
		hsEmitServerRaw(g, plain, []byte(s))
	}

	// 7. random combinations of all the dimensions above; random keys tie ComputeAcceptKey to the
	// model's base64(SHA-1(key ++ GUID))
	pickS := func(l []string) string { return l[r.Intn(len(l))] }
	for i := 0; i < g.pick(2500, 40000); i++ {
		o := hsSrvOpt{auth: r.Intn(12) != 0, sess: string(r.Text(r.Intn(6))), comp: r.Intn(3) == 0, rh: rhs[r.Intn(len(rhs))]}
		if r.Bool() {
			o.subs = hsSubs[r.Intn(5)]
			if r.Intn(4) == 0 {
				o.subs = hsSubs[r.Intn(len(hsSubs))]
			}
		}
		k := hsRandKey(r)
		switch r.Intn(12) {
		case 0:
			k = string(r.Bytes(1 + r.Intn(40))) // arbitrary bytes: may be refused by net/http (CR, LF, NUL, ...)
		case 1:
			k = string(r.Text(1 + r.Intn(70)))
		case 2:
			k = strings.Repeat("k", 55+r.Intn(12)) // around the SHA-1 padding boundary once the GUID (36 bytes) is appended: 19/20 and 83/84
		}
		m := hsBaseRequest(k)
		m.lines[1].v = pickS(hsConnValid)
		m.lines[2].v = pickS(hsUpgValid)
		if r.Intn(3) == 0 {
			m = m.set("Connection", pickS(append(append(append([]string{}, hsConnValid...), hsConnNear...), hsConnBad...)))
		}
		if r.Intn(4) == 0 {
			m = m.set("Upgrade", pickS(append(append(append([]string{}, hsUpgValid...), hsUpgFold...), hsUpgBad...)))
		}
		if r.Intn(8) == 0 {
			m = m.set("Sec-WebSocket-Version", pickS(hsVerBad))
		}
		if r.Intn(10) == 0 {
			m.first = pickS(hsMethods) + " /verif HTTP/1.1"
		}
		if r.Intn(12) == 0 {
			m = m.drop([]string{"Connection", "Upgrade", "Sec-WebSocket-Version", "Sec-WebSocket-Key"}[r.Intn(4)])
		}
		if r.Intn(3) != 0 {
			m = m.add("Sec-WebSocket-Protocol", pickS(hsProtoOffer))
			if r.Intn(6) == 0 {
				m = m.add("Sec-WebSocket-Protocol", pickS(hsProtoOffer))
			}
		}
		if r.Bool() {
			m = m.add("Sec-WebSocket-Extensions", pickS(hsExtOffer[1:]))
		}
		if r.Intn(8) == 0 {
			m = m.add([]string{"Connection", "Upgrade", "connection", "UPGRADE"}[r.Intn(4)], pickS([]string{"Upgrade", "websocket", "keep-alive", ""}))
		}
		if r.Intn(3) == 0 {
			m = m.rename(func(s string) string { return hsRandCase(r, s) })
		}
		if r.Intn(3) == 0 {
			m = m.shuffle(r)
		}
		// a random comma/space/letter soup in Connection and the offer exercises Split/TrimSpace/Contains
		if r.Intn(10) == 0 {
			alphabet := []string{"upgrade", "Upgrade", "UP", "grade", ",", " ", "\t", "keep-alive", hsNbsp, hsKelvin, "x", ";", "\u2003"}
			var sb strings.Builder
			for j := 0; j < 1+r.Intn(6); j++ {
				sb.WriteString(pickS(alphabet))
			}
			m = m.set("Connection", sb.String())
		}
		if r.Intn(10) == 0 {
			alphabet := []string{"chat", "mqtt", ",", " ", "\t", hsNbsp, "\u3000", "x", "Chat", "\xa0", "\xc2"}
			var sb strings.Builder
			for j := 0; j < 1+r.Intn(7); j++ {
				sb.WriteString(pickS(alphabet))
			}
			m = m.set("Sec-WebSocket-Protocol", sb.String())
		}
		hsEmitServer(g, o, m)
	}
}

// ---- hs-client: Exec ----------------------------------------------------------------------------

const hsOtherKey = "AAAAAAAAAAAAAAAAAAAAAA=="

func hsSubstAccept(b []byte, key string) []byte {
	a := acceptKey(key)
	b = bytes.ReplaceAll(b, []byte("$ACCEPT"), []byte(a))
	b = bytes.ReplaceAll(b, []byte("$LOWER"), []byte(strings.ToLower(a)))
	b = bytes.ReplaceAll(b, []byte("$TRUNC"), []byte(a[:len(a)-1]))
	b = bytes.ReplaceAll(b, []byte("$OTHER"), []byte(acceptKey(hsOtherKey)))
	return b
}

func hsClientErrClass(err error) string {
	if err == nil {
		return "-"
	}
	s := err.Error()
	switch {
	case strings.HasPrefix(s, "unexpected status code: "):
		return "status"
	case s == "missing Connection header":
		return "connection"
	case s == "missing Upgrade header":
		return "upgrade"
	case s == "invalid Sec-WebSocket-Accept header":
		return "accept"
	case errors.Is(err, gws.ErrSubprotocolNegotiation):
		return "subprotocol"
	}
	return "io"
}

type hsFrame struct {
	op      int
	payload []byte
}

func hsParseFrames(s string) []hsFrame {
	if s == "." {
		return nil
	}
	var out []hsFrame
	for _, f := range strings.Split(s, ",") {
		kv := strings.SplitN(f, ":", 2)
		op, _ := strconv.Atoi(kv[0])
		out = append(out, hsFrame{op, unhx(kv[1])})
	}
	return out
}

// hsServerFrame encodes one unmasked, unfragmented frame.
func hsServerFrame(f hsFrame) []byte {
	b := []byte{0x80 | byte(f.op)}
	n := len(f.payload)
	switch {
	case n < 126:
		b = append(b, byte(n))
	case n < 65536:
		b = append(b, 126, byte(n>>8), byte(n))
	default:
		b = append(b, 127, 0, 0, 0, 0, byte(n>>24), byte(n>>16), byte(n>>8), byte(n))
	}
	return append(b, f.payload...)
}

func hsParseInts(s string) []int {
	if s == "." {
		return nil
	}
	var out []int
	for _, p := range strings.Split(s, ",") {
		n, _ := strconv.Atoi(p)
		out = append(out, n)
	}
	return out
}

// hsShowClientRequest renders the request as the scripted server parsed it (driver: showRequest).
func hsShowClientRequest(req *http.Request) string {
	if req == nil {
		return "req=none"
	}
	h := map[string][]string{}
	key16 := false
	for k, v := range req.Header {
		if k == "User-Agent" || k == "Host" {
			continue
		}
		if k == "Sec-Websocket-Key" && len(v) == 1 {
			if raw, err := base64.StdEncoding.DecodeString(v[0]); err == nil && len(raw) == 16 {
				key16 = true
				v = []string{"KEY"}
			}
		}
		h[k] = v
	}
	return fmt.Sprintf("req=%s:%s hdr=%s key16=%s", req.Method, req.RequestURI, hsEncHdr(h), b2s(key16))
}

func execHsClient(args []string) string {
	args = hsStripObs(args)
	switch args[0] {
	case "keys":
		n, _ := strconv.Atoi(args[1])
		seen := map[string]bool{}
		len16 := true
		// half of the handshakes re-use ONE option value, as a reconnecting client does: the key must be fresh per
		// handshake, not per option
		shared := &gws.ClientOption{RequestHeader: http.Header{"X-Verif": []string{"1"}}}
		for i := 0; i < n; i++ {
			copt := &gws.ClientOption{}
			if i%2 == 0 {
				copt = shared
			}
			c, _, peer, err := hsClientKey(copt, newRecorder())
			if err != nil {
				return "handshake-failed " + strings.Join(strings.Fields(err.Error()), "_")
			}
			raw, derr := base64.StdEncoding.DecodeString(c)
			len16 = len16 && derr == nil && len(raw) == 16
			seen[c] = true
			_ = peer.Close()
		}
		return fmt.Sprintf("n=%d distinct=%s len16=%s", n, b2s(len(seen) == n), b2s(len16))
	case "resp", "bad":
	default:
		return "bad-op hs-client-kind"
	}
	var rh http.Header
	var comp bool
	var ext, raw, frames, cuts, end string
	var status, hdr string
	if args[0] == "resp" {
		if len(args) != 9 {
			return "bad-op hs-client-args"
		}
		rh, comp, ext, status, hdr, raw, frames, cuts, end = hsDecHdr(args[1]), args[2] == "1", args[3], args[4], args[5], args[6], args[7], args[8], "ok"
	} else {
		if len(args) != 7 {
			return "bad-op hs-client-args"
		}
		rh, comp, ext, raw, cuts, end, frames = hsDecHdr(args[1]), args[2] == "1", args[3], args[4], args[5], args[6], "."
	}
	tmo := 2 * time.Second
	if end != "ok" {
		tmo = 300 * time.Millisecond
	}
	opt := &gws.ClientOption{Addr: "ws://verif.test/verif", HandshakeTimeout: tmo, Logger: quietLogger{}}
	// the read buffer size is not part of the case: vary it deterministically (default, tiny, larger than the
	// default, large) - what the client accepts and delivers must not depend on it
	opt.ReadBufferSize = []int{0, 16, 8192, 65536}[hashString(raw+cuts+frames)%4]
	if len(rh) > 0 {
		opt.RequestHeader = rh
	}
	if comp {
		opt.PermessageDeflate = hsPdOn
	}
	// the offer recorded in the case must be what the code generates now (C12's unit)
	if norm, _ := gws.VerifClientPD(&gws.ClientOption{PermessageDeflate: opt.PermessageDeflate}, ""); hsOptHex(comp, gws.VerifGenRequestHeader(norm)) != ext {
		return "case-inconsistent ext"
	}
	if args[0] == "resp" {
		resp, err := http.ReadResponse(bufio.NewReader(bytes.NewReader(unhx(raw))), &http.Request{Method: "GET"})
		if err != nil || strconv.Itoa(resp.StatusCode) != status || hsEncHdr(resp.Header) != hdr {
			return "case-inconsistent parsed-view"
		}
	}

	peer, cc := newPipe()
	reqc := make(chan *http.Request, 1)
	fs := hsParseFrames(frames)
	go func() {
		br := bufio.NewReader(peer)
		req, err := http.ReadRequest(br)
		if err != nil {
			reqc <- nil
			return
		}
		out := hsSubstAccept(unhx(raw), req.Header.Get("Sec-WebSocket-Key"))
		for _, f := range fs {
			out = append(out, hsServerFrame(f)...)
		}
		for _, n := range hsParseInts(cuts) {
			if n <= 0 || n >= len(out) {
				break
			}
			_, _ = peer.Write(out[:n])
			out = out[n:]
			runtime.Gosched()
			time.Sleep(50 * time.Microsecond)
		}
		if len(out) > 0 {
			_, _ = peer.Write(out)
		}
		if end == "close" {
			_ = peer.Close()
		}
		reqc <- req
	}()
	rec := newRecorder()
	t0 := time.Now()
	c, _, err := gws.NewClientFromConn(rec, opt, cc)
	elapsed := time.Since(t0)
	closed := cc.IsClosed()
	var req *http.Request
	select {
	case req = <-reqc:
	case <-time.After(2 * time.Second):
	}
	sp, msgs := "-", "-"
	if c != nil && err == nil {
		sp = hx([]byte(c.SubProtocol()))
		if len(fs) > 0 {
			go c.ReadLoop()
			if !rec.WaitClosed(2 * time.Second) {
				msgs = "no-close:" + strings.Join(rec.Events(), ";")
			} else {
				msgs = strings.Join(rec.Events(), ";")
			}
		}
	}
	_ = cc.Close()
	_ = peer.Close()
	out := fmt.Sprintf("acc=%s err=%s sp=%s closed=%s timely=%s %s msgs=%s", b2s(c != nil && err == nil), hsClientErrClass(err), sp,
		b2s(closed), b2s(elapsed < tmo+500*time.Millisecond), hsShowClientRequest(req), msgs)
	if args[0] == "resp" {
		// observation for the driver: what the implementation decided
		out += "\timpl:" + b2s(c != nil && err == nil)
	}
	return out
}

// hsClientKey performs one handshake against a correct scripted server and returns the key sent.
func hsClientKey(copt *gws.ClientOption, h gws.Event) (string, *memConn, *memConn, error) {
	peer, cc := newPipe()
	copt.Logger = quietLogger{}
	copt.Addr = "ws://verif.test/verif"
	keyc := make(chan string, 1)
	go func() {
		req, err := http.ReadRequest(bufio.NewReader(peer))
		if err != nil {
			keyc <- ""
			return
		}
		k := req.Header.Get("Sec-WebSocket-Key")
		_, _ = peer.Write([]byte("HTTP/1.1 101 Switching Protocols\r\nUpgrade: websocket\r\nConnection: Upgrade\r\nSec-WebSocket-Accept: " + acceptKey(k) + "\r\n\r\n"))
		keyc <- k
	}()
	_, _, err := gws.NewClientFromConn(h, copt, cc)
	return <-keyc, cc, peer, err
}

// ---- hs-client: Gen -----------------------------------------------------------------------------

type hsCliOpt struct {
	rh   map[string][]string
	comp bool
}

func hsBaseResponse() hsMsg {
	return hsMsg{first: "HTTP/1.1 101 Switching Protocols", lines: []hsLine{
		{"Upgrade", "websocket"}, {"Connection", "Upgrade"}, {"Sec-WebSocket-Accept", "$ACCEPT"}}}
}

func hsEncFrames(fs []hsFrame) string {
	if len(fs) == 0 {
		return "."
	}
	parts := make([]string, len(fs))
	for i, f := range fs {
		parts[i] = strconv.Itoa(f.op) + ":" + hx(f.payload)
	}
	return strings.Join(parts, ",")
}

func hsEncInts(l []int) string {
	if len(l) == 0 {
		return "."
	}
	parts := make([]string, len(l))
	for i, n := range l {
		parts[i] = strconv.Itoa(n)
	}
	return strings.Join(parts, ",")
}

func hsClientExt(comp bool) string {
	o := &gws.ClientOption{}
	if comp {
		o.PermessageDeflate = hsPdOn
	}
	norm, _ := gws.VerifClientPD(o, "")
	return hsOptHex(comp, gws.VerifGenRequestHeader(norm))
}

func hsEmitClient(g *Gen, o hsCliOpt, m hsMsg, fs []hsFrame, cuts []int) {
	raw := m.bytes()
	resp, err := http.ReadResponse(bufio.NewReader(bytes.NewReader(raw)), &http.Request{Method: "GET"})
	if err != nil {
		g.Count("parse-error")
		g.Emit("hs-client bad %s %s %s %s %s close", hsEncHdr(o.rh), b2s(o.comp), hsClientExt(o.comp), hx(raw), hsEncInts(cuts))
		return
	}
	g.Count("resp")
	g.Emit("hs-client resp %s %s %s %d %s %s %s %s", hsEncHdr(o.rh), b2s(o.comp), hsClientExt(o.comp), resp.StatusCode, hsEncHdr(resp.Header), hx(raw), hsEncFrames(fs), hsEncInts(cuts))
}

func hsEmitClientBad(g *Gen, o hsCliOpt, raw []byte, cuts []int, end string) {
	g.Count("no-response-" + end)
	g.Emit("hs-client bad %s %s %s %s %s %s", hsEncHdr(o.rh), b2s(o.comp), hsClientExt(o.comp), hx(raw), hsEncInts(cuts), end)
}

func genHsClient(g *Gen) {
	r := g.R
	plain := hsCliOpt{}
	base := hsBaseResponse()
	closeF := hsFrame{8, []byte{0x03, 0xe8}}
	proto := func(v string) map[string][]string { return http.Header{"Sec-Websocket-Protocol": {v}} }

	// 1. valid responses under case / ordering variation, token lists, extra headers
	hsEmitClient(g, plain, base, nil, nil)
	for _, f := range []func(string) string{strings.ToLower, strings.ToUpper, func(s string) string { return hsRandCase(r, s) }} {
		hsEmitClient(g, plain, base.rename(f), nil, nil)
	}
	for i := 0; i < 6; i++ {
		hsEmitClient(g, plain, base.add("Server", "verif").add("X-Pad", string(r.Text(5+r.Intn(100)))).shuffle(r), nil, nil)
	}
	for _, v := range hsConnValid {
		hsEmitClient(g, plain, base.set("Connection", v), nil, nil)
	}
	for _, v := range hsUpgValid {
		hsEmitClient(g, plain, base.set("Upgrade", v), nil, nil)
	}
	for _, st := range []string{"HTTP/1.1 101 Switching Protocols", "HTTP/1.1 101 OK", "HTTP/1.1 101 ", "HTTP/1.0 101 Switching Protocols", "HTTP/1.1 101"} {
		n := base.clone()
		n.first = st
		hsEmitClient(g, plain, n, nil, nil)
	}
	// 2. each check mutated field by field
	for _, st := range []string{"HTTP/1.1 200 OK", "HTTP/1.1 100 Continue", "HTTP/1.1 102 Processing", "HTTP/1.1 400 Bad Request", "HTTP/1.1 301 Moved", "HTTP/1.1 1010 X", "HTTP/1.1 010 X", "HTTP/1.1 404 Not Found", "HTTP/1.1 500 Internal Server Error", "HTTP/1.1 abc X", "HTTP/1.1 -101 X", "HTTP/1.1 101x X"} {
		n := base.clone()
		n.first = st
		hsEmitClient(g, plain, n, nil, nil)
		n = n.add("Content-Length", "3")
		n.tail = "no\n"
		hsEmitClient(g, plain, n, nil, nil)
	}
	for _, v := range append(append([]string{}, hsConnNear...), hsConnBad...) {
		hsEmitClient(g, plain, base.set("Connection", v), nil, nil)
	}
	hsEmitClient(g, plain, base.drop("Connection"), nil, nil)
	for _, v := range append(append([]string{}, hsUpgFold...), hsUpgBad...) {
		hsEmitClient(g, plain, base.set("Upgrade", v), nil, nil)
	}
	hsEmitClient(g, plain, base.drop("Upgrade"), nil, nil)
	for _, v := range []string{"", "$LOWER", "$TRUNC", "$OTHER", "$ACCEPTx", "x$ACCEPT", "$ACCEPT ", " $ACCEPT", "$ACCEPT, $ACCEPT", "\"$ACCEPT\"", "$ACCEPT=", "QUJDREVGR0hJSktMTU5PUFFSU1Q=", "$ACCEPT" + hsNbsp, "$TRUNC\xc2"} {
		hsEmitClient(g, plain, base.set("Sec-WebSocket-Accept", v), nil, nil)
	}
	hsEmitClient(g, plain, base.drop("Sec-WebSocket-Accept"), nil, nil)
	// the upgrade token on a later Connection line, near misses spread over several lines
	for _, lines := range [][]string{
		{"keep-alive", "Upgrade"}, {"keep-alive", "x, upgrade ,y"}, {"", "Upgrade"}, {",", "close", "\tUPGRADE "},
		{"upgradex", "Upgrade"}, {"Upgrade", "upgradex"}, {"keep-alive", "close"}, {"upgradex", "no-upgrade", "keep-alive, upgrades"},
		{"up", "grade"}, {"keep-alive, up", "grade, x"},
	} {
		m := base.drop("Connection")
		for i, v := range lines {
			m = m.add([]string{"Connection", "connection", "CONNECTION"}[i%3], v)
		}
		hsEmitClient(g, plain, m, nil, nil)
		hsEmitClient(g, plain, m.shuffle(r), nil, nil)
	}
	// duplicated lines: Connection is read on all lines, the others on the first (Header.Get)
	for _, k := range []string{"Connection", "Upgrade", "Sec-WebSocket-Accept"} {
		for _, other := range []string{"x", "", "$OTHER"} {
			hsEmitClient(g, plain, base.add(k, other), nil, nil)
			hsEmitClient(g, plain, base.addBefore(k, k, other), nil, nil)
			hsEmitClient(g, plain, base.addBefore(k, strings.ToUpper(k), other), nil, nil)
		}
	}
	// pairwise
	type mut struct{ f func(hsMsg) hsMsg }
	muts := []mut{
		{func(m hsMsg) hsMsg { n := m.clone(); n.first = "HTTP/1.1 200 OK"; return n }},
		{func(m hsMsg) hsMsg { return m.set("Connection", "close") }},
		{func(m hsMsg) hsMsg { return m.drop("Connection") }},
		{func(m hsMsg) hsMsg { return m.set("Upgrade", "h2c") }},
		{func(m hsMsg) hsMsg { return m.drop("Upgrade") }},
		{func(m hsMsg) hsMsg { return m.set("Sec-WebSocket-Accept", "$OTHER") }},
		{func(m hsMsg) hsMsg { return m.drop("Sec-WebSocket-Accept") }},
		{func(m hsMsg) hsMsg { return m.set("Sec-WebSocket-Protocol", "unrequested") }},
	}
	wantChat := hsCliOpt{rh: proto("chat, mqtt")}
	for i := range muts {
		hsEmitClient(g, wantChat, muts[i].f(base.add("Sec-WebSocket-Protocol", "mqtt")), nil, nil)
		for j := i + 1; j < len(muts); j++ {
			hsEmitClient(g, wantChat, muts[j].f(muts[i].f(base.add("Sec-WebSocket-Protocol", "mqtt"))), nil, nil)
		}
	}
	// 3. sub-protocols: requested x selected
	for _, want := range []string{"", "chat", "chat, mqtt", "mqtt,chat", " chat ", "chat,,", ",", "Chat", "chat" + hsNbsp} {
		o := hsCliOpt{}
		if want != "" {
			o.rh = proto(want)
		}
		hsEmitClient(g, o, base, nil, nil)
		for _, sel := range hsProtoOffer {
			hsEmitClient(g, o, base.add("Sec-WebSocket-Protocol", sel), nil, nil)
		}
		hsEmitClient(g, o, base.add("Sec-WebSocket-Protocol", "other").add("Sec-WebSocket-Protocol", "chat"), nil, nil)
	}
	// requested through two values of the same key (only the first is read back), and through a
	// key written into the map without canonicalisation (never read back)
	hsEmitClient(g, hsCliOpt{rh: http.Header{"Sec-Websocket-Protocol": {"chat", "mqtt"}}}, base.add("Sec-WebSocket-Protocol", "mqtt"), nil, nil)
	hsEmitClient(g, hsCliOpt{rh: http.Header{"Sec-Websocket-Protocol": {"chat", "mqtt"}}}, base.add("Sec-WebSocket-Protocol", "chat"), nil, nil)
	hsEmitClient(g, hsCliOpt{rh: map[string][]string{"Sec-WebSocket-Protocol": {"chat"}}}, base.add("Sec-WebSocket-Protocol", "chat"), nil, nil)
	hsEmitClient(g, hsCliOpt{rh: map[string][]string{"Sec-WebSocket-Protocol": {"chat"}}}, base, nil, nil)
	// 4. configured request headers, incl. attempts to override the fixed ones; compression on/off
	rhs := []map[string][]string{
		nil,
		http.Header{"X-Token": {"t0k3n"}, "Origin": {"http://verif.test"}},
		http.Header{"Cookie": {"a=b", "c=d"}},
		http.Header{"Connection": {"close"}},
		http.Header{"Upgrade": {"h2c"}},
		http.Header{"Sec-Websocket-Version": {"8"}},
		http.Header{"Sec-Websocket-Key": {"bXkgb3duIGtleSBteSBvd24ga2V5"}},
		http.Header{"Sec-Websocket-Extensions": {"x-webkit-deflate-frame"}},
		http.Header{"Connection": {"close", "keep-alive"}, "Upgrade": {"a", "b"}, "Sec-Websocket-Version": {"7", "8"}, "Sec-Websocket-Key": {"k1", "k2"}, "Sec-Websocket-Extensions": {"e1", "e2"}, "X-A": {"1", "2"}},
		http.Header{"Host": {"other.test"}},
		http.Header{"X-Empty": {""}},
	}
	for _, rh := range rhs {
		for _, comp := range []bool{false, true} {
			o := hsCliOpt{rh: rh, comp: comp}
			hsEmitClient(g, o, base, nil, nil)
			hsEmitClient(g, o, base.add("Sec-WebSocket-Extensions", "permessage-deflate; server_no_context_takeover; client_no_context_takeover"), []hsFrame{{1, []byte("hi")}, closeF}, nil)
		}
	}
	// 5. frames glued behind the 101, in one write or cut into pieces
	big := r.Bytes(300)
	huge := r.Bytes(70000)
	frameSets := [][]hsFrame{
		{closeF},
		{{1, []byte("hello")}, closeF},
		{{2, big}, {9, []byte("p")}, {1, []byte("")}, {10, nil}, {2, []byte{0}}, {8, append([]byte{0x03, 0xe9}, "bye"...)}},
		{{2, huge}, {1, []byte("after")}, closeF},
	}
	headLen := len(hsSubstAccept(base.bytes(), "dGhlIHNhbXBsZSBub25jZQ=="))
	for _, fs := range frameSets {
		hsEmitClient(g, plain, base, fs, nil)
		hsEmitClient(g, plain, base, fs, []int{headLen})                 // frames in a second segment
		hsEmitClient(g, plain, base, fs, []int{headLen - 1})             // the last LF travels with the frames
		hsEmitClient(g, plain, base, fs, []int{headLen + 1})             // one frame byte travels with the head
		hsEmitClient(g, plain, base, fs, []int{headLen - 2, 1, 1, 1, 1}) // byte by byte around the boundary
		hsEmitClient(g, hsCliOpt{rh: proto("chat")}, base.add("Sec-WebSocket-Protocol", "chat").shuffle(r), fs, []int{10, 20, 30})
	}
	total := headLen + 2 + 7 + 4 // head + close frame + "hello" frame
	for off := 1; off < total; off += g.pick(3, 1) {
		hsEmitClient(g, plain, base, frameSets[1], []int{off})
	}
	ones := make([]int, 200)
	for i := range ones {
		ones[i] = 1
	}
	hsEmitClient(g, plain, base, frameSets[1], ones) // every byte in its own write
	for i := 0; i < g.pick(30, 300); i++ {
		var cuts []int
		for j := 0; j < r.Intn(6); j++ {
			cuts = append(cuts, 1+r.Intn(90))
		}
		fs := frameSets[r.Intn(3)]
		hsEmitClient(g, plain, base.shuffle(r), fs, cuts)
	}
	// a refused response followed by frames: nothing is delivered
	hsEmitClient(g, plain, base.set("Sec-WebSocket-Accept", "$OTHER"), frameSets[1], nil)
	// 6. truncated, malformed and never-sent responses
	full := base.bytes()
	for _, cut := range []int{0, 5, len("HTTP/1.1 101 Switching Protocols\r\n"), len(full) / 2, len(full) - 2, len(full) - 1} {
		hsEmitClientBad(g, plain, full[:cut], nil, "close")
	}
	for _, cut := range []int{0, len(full) / 2, len(full) - 1} {
		hsEmitClientBad(g, plain, full[:cut], nil, "hang")
	}
	hsEmitClientBad(g, plain, full[:len(full)-3], []int{10, 10}, "hang")
	if g.Thorough() {
		for cut := 0; cut < len(full); cut += 7 {
			hsEmitClientBad(g, plain, full[:cut], nil, "close")
			if cut%21 == 0 {
				hsEmitClientBad(g, plain, full[:cut], nil, "hang")
			}
		}
	}
	for _, s := range []string{"NOT HTTP\r\n\r\n", "HTTP/1.1\r\n\r\n", "\r\n\r\n", "HTTP/1.1 101 Switching Protocols\r\nUpgrade websocket\r\n\r\n", "HTTP/1.1 101 Switching Protocols\r\n Upgrade: websocket\r\n\r\n", "\x00\x01\x02"} {
		m := []byte(s)
		if _, err := http.ReadResponse(bufio.NewReader(bytes.NewReader(m)), &http.Request{Method: "GET"}); err != nil {
			hsEmitClientBad(g, plain, m, nil, "close")
		}
	}
	// 7. random combinations
	pickS := func(l []string) string { return l[r.Intn(len(l))] }
	wants := []string{"", "chat", "chat, mqtt", "mqtt,chat", "x, y ,chat"}
	for i := 0; i < g.pick(1500, 20000); i++ {
		o := hsCliOpt{comp: r.Intn(4) == 0}
		if r.Intn(4) == 0 {
			o.rh = rhs[r.Intn(len(rhs))]
		}
		if w := pickS(wants); w != "" && r.Bool() {
			h := http.Header{}
			for k, v := range o.rh {
				h[k] = v
			}
			h.Set("Sec-WebSocket-Protocol", w)
			o.rh = h
		}
		m := base.clone()
		m.lines[0].v = pickS(hsUpgValid)
		m.lines[1].v = pickS(hsConnValid)
		if r.Intn(4) == 0 {
			m = m.set("Connection", pickS(append(append(append([]string{}, hsConnValid...), hsConnNear...), hsConnBad...)))
		}
		if r.Intn(5) == 0 {
			m = m.set("Upgrade", pickS(append(append(append([]string{}, hsUpgValid...), hsUpgFold...), hsUpgBad...)))
		}
		if r.Intn(6) == 0 {
			m = m.set("Sec-WebSocket-Accept", pickS([]string{"", "$LOWER", "$TRUNC", "$OTHER", "$ACCEPTx", " $ACCEPT  ", "$ACCEPT,"}))
		}
		if r.Intn(10) == 0 {
			m.first = pickS([]string{"HTTP/1.1 200 OK", "HTTP/1.1 400 Bad Request", "HTTP/1.1 101 Whatever", "HTTP/1.0 101 Switching Protocols", "HTTP/1.1 426 Upgrade Required"})
		}
		if r.Intn(12) == 0 {
			m = m.drop([]string{"Connection", "Upgrade", "Sec-WebSocket-Accept"}[r.Intn(3)])
		}
		if r.Bool() {
			m = m.add("Sec-WebSocket-Protocol", pickS(hsProtoOffer))
		}
		if r.Intn(3) == 0 {
			m = m.add("Sec-WebSocket-Extensions", pickS(hsExtOffer[1:]))
		}
		if r.Intn(8) == 0 {
			m = m.add([]string{"Connection", "Upgrade", "connection", "UPGRADE", "Sec-WebSocket-Accept"}[r.Intn(5)], pickS([]string{"Upgrade", "websocket", "keep-alive", "", "$ACCEPT"}))
		}
		if r.Intn(3) == 0 {
			m = m.rename(func(s string) string { return hsRandCase(r, s) })
		}
		if r.Intn(2) == 0 {
			m = m.shuffle(r)
		}
		var fs []hsFrame
		var cuts []int
		if r.Intn(5) == 0 {
			fs = frameSets[r.Intn(3)]
			for j := 0; j < r.Intn(4); j++ {
				cuts = append(cuts, 1+r.Intn(120))
			}
		}
		hsEmitClient(g, o, m, fs, cuts)
	}
	g.Emit("hs-client keys %d", g.pick(1000, 20000))
}
