package main

import (
	"encoding/hex"
	"strings"
)

// Rand is a small deterministic PRNG (splitmix64): every random choice of a run derives from VERIF_SEED.
type Rand struct{ s uint64 }

func NewRand(seed uint64) *Rand { return &Rand{s: seed} }
func (r *Rand) U64() uint64 {
	r.s += 0x9E3779B97F4A7C15
	z := r.s
	z = (z ^ (z >> 30)) * 0xBF58476D1CE4E5B9
	z = (z ^ (z >> 27)) * 0x94D049BB133111EB
	return z ^ (z >> 31)
}
func (r *Rand) Intn(n int) int {
	if n <= 0 {
		return 0
	}
	return int(r.U64() % uint64(n))
}
func (r *Rand) Bool() bool { return r.U64()&1 == 1 }
func (r *Rand) Bytes(n int) []byte {
	b := make([]byte, n)
	for i := 0; i < n; i += 8 {
		v := r.U64()
		for j := 0; j < 8 && i+j < n; j++ {
			b[i+j] = byte(v >> (8 * j))
		}
	}
	return b
}

// Text returns n bytes of low-entropy, compressible ASCII.
func (r *Rand) Text(n int) []byte {
	words := []string{"alpha ", "beta ", "gamma ", "delta ", "websocket ", "frame ", "0123456789", "\n"}
	var sb strings.Builder
	for sb.Len() < n {
		sb.WriteString(words[r.Intn(len(words))])
	}
	return []byte(sb.String()[:n])
}

func hx(b []byte) string {
	if len(b) == 0 {
		return "-"
	}
	return hex.EncodeToString(b)
}

func unhx(s string) []byte {
	if s == "-" || s == "" {
		return nil
	}
	b, err := hex.DecodeString(s)
	if err != nil {
		panic("bad hex in case line: " + s)
	}
	return b
}

func hxList(l [][]byte) string {
	if len(l) == 0 {
		return "."
	}
	parts := make([]string, len(l))
	for i, b := range l {
		parts[i] = hx(b)
	}
	return strings.Join(parts, ",")
}

func unhxList(s string) [][]byte {
	if s == "." {
		return nil
	}
	parts := strings.Split(s, ",")
	out := make([][]byte, len(parts))
	for i, p := range parts {
		out[i] = unhx(p)
	}
	return out
}

func b2s(b bool) string {
	if b {
		return "1"
	}
	return "0"
}
