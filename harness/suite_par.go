package main

import (
	"fmt"
	"strconv"
	"strings"
	"sync"
	"sync/atomic"
	"time"

	"github.com/lxzan/gws"
)

func init() {
	register(&Suite{Name: "par", Gen: genPar, Exec: execPar, Isolated: true})
}

type recoverLogger struct{}

func (recoverLogger) Error(v ...any) {}

// execPar: `par <limit> <recover 0|1> <acts>`; acts: `d` feed the next message (ids 1,2,…: payload = id),
// `f<id>` let the handler of id return, `p<id>` make it panic. Handlers block on a gate until released.
// A start that the model expects is awaited (deterministic); a start the model forbids (limit reached) is
// watched for 15 ms — seeing it is a definite violation, not seeing it is not evidence of anything.
func execPar(args []string) string {
	limit, _ := strconv.Atoi(args[0])
	rec := args[1] == "1"
	var mu sync.Mutex
	var started []int
	gates := map[int]chan bool{}
	startedCh := map[int]chan struct{}{}
	var running, maxRun int32
	acks := make(chan struct{}, 64)
	getCh := func(id int) (chan bool, chan struct{}) {
		mu.Lock()
		defer mu.Unlock()
		if gates[id] == nil {
			gates[id], startedCh[id] = make(chan bool, 1), make(chan struct{})
		}
		return gates[id], startedCh[id]
	}
	h := newRecorder()
	h.noAutoClose = true
	h.onMsg = func(c *gws.Conn, m *gws.Message) {
		id := int(m.Bytes()[0])
		_ = m.Close()
		n := atomic.AddInt32(&running, 1)
		for {
			old := atomic.LoadInt32(&maxRun)
			if n <= old || atomic.CompareAndSwapInt32(&maxRun, old, n) {
				break
			}
		}
		g, s := getCh(id)
		mu.Lock()
		started = append(started, id)
		mu.Unlock()
		close(s)
		doPanic := <-g
		atomic.AddInt32(&running, -1)
		acks <- struct{}{} // the harness goes on only after this handler stopped counting as running
		if doPanic {
			panic("handler panic (verif)")
		}
	}
	opt := &gws.ServerOption{ParallelEnabled: true, ParallelGolimit: limit, Logger: recoverLogger{}}
	if rec {
		opt.Recovery = gws.Recovery
	}
	conn, sc, peer, err := serverConnRaw(opt, h, "")
	if err != nil {
		return "handshake-failed"
	}
	go conn.ReadLoop()
	defer sc.Unstall()
	key := [4]byte{1, 2, 3, 4}
	fed, nStarted, nRunning := 0, 0, 0
	awaitStart := func(id int) string {
		_, s := getCh(id)
		select {
		case <-s:
			return ""
		case <-time.After(5 * time.Second):
			return fmt.Sprintf("handler %d never started", id)
		}
	}
	mustNotStart := func(id int) string {
		_, s := getCh(id)
		select {
		case <-s:
			return fmt.Sprintf("LIMIT-EXCEEDED: handler %d started while %d were running", id, nRunning)
		case <-time.After(15 * time.Millisecond):
			return ""
		}
	}
	progress := func() string { // start every fed, unstarted message that has a free slot
		for nStarted < fed && nRunning < limit {
			if msg := awaitStart(nStarted + 1); msg != "" {
				return msg
			}
			nStarted++
			nRunning++
		}
		if nStarted < fed {
			return mustNotStart(nStarted + 1)
		}
		return ""
	}
	if args[2] != "." {
		for _, a := range strings.Split(args[2], ",") {
			if a == "c" {
				// a local close is in progress: it has set the closed flag and is stalled writing its Close frame
				// (the transport is still open, so messages keep arriving and must be handled as before)
				sc.Stall()
				go func() { _ = conn.WriteClose(1000, nil) }()
				if !sc.WaitStalled(1, 2*time.Second) {
					return "bad-op close-did-not-stall"
				}
				continue
			}
			if a == "d" {
				fed++
				_, _ = peer.Write(frameSpec{fin: true, opcode: 2, masked: true, key: key, payload: []byte{byte(fed)}}.bytes())
			} else {
				id, _ := strconv.Atoi(a[1:])
				g, _ := getCh(id)
				g <- a[0] == 'p'
				<-acks
				nRunning--
				if a[0] == 'p' && !rec {
					time.Sleep(300 * time.Millisecond) // the process is expected to die
					return "survived-unrecovered-panic"
				}
			}
			if msg := progress(); msg != "" {
				return msg
			}
		}
	}
	mu.Lock()
	st := make([]string, len(started))
	for i, v := range started {
		st[i] = strconv.Itoa(v)
	}
	mu.Unlock()
	s := "-"
	if len(st) > 0 {
		s = strings.Join(st, ",")
	}
	out := fmt.Sprintf("started=%s maxrun=%d blocked=%d", s, atomic.LoadInt32(&maxRun), fed-nStarted)
	// release everything so the process can go on
	mu.Lock()
	for id, g := range gates {
		select {
		case g <- false:
		default:
		}
		_ = id
	}
	mu.Unlock()
	_ = conn.WriteClose(1000, nil)
	return out
}

func genPar(g *Gen) {
	// exhaustive: every action sequence up to the depth for limits 1..3 (d / finish or panic of the OLDEST or NEWEST running handler)
	depth := g.pick(7, 9)
	for _, limit := range []int{1, 2, 3} {
		var rec func(acts []string, fed int, running []int, waiting int)
		rec = func(acts []string, fed int, running []int, waiting int) {
			if len(acts) > 0 {
				g.Emit("par %d 1 %s", limit, strings.Join(acts, ","))
			}
			if len(acts) == depth {
				return
			}
			if waiting < 2 { // feed another message (at most 2 blocked behind the limit)
				r2, w2 := running, waiting
				if len(running) < limit {
					r2 = append(append([]int(nil), running...), fed+1)
				} else {
					w2++
				}
				rec(append(append([]string(nil), acts...), "d"), fed+1, r2, w2)
			}
			for _, pick := range []int{0, len(running) - 1} {
				if pick < 0 || pick >= len(running) || (pick == 0 && len(running) == 1 && pick != len(running)-1) {
					continue
				}
				id := running[pick]
				rest := append(append([]int(nil), running[:pick]...), running[pick+1:]...)
				w2 := waiting
				started := fed - waiting
				if waiting > 0 {
					rest = append(rest, started+1)
					w2--
				}
				for _, kind := range []string{"f", "p"} {
					if kind == "p" && len(acts)%2 == 0 {
						continue // thin out
					}
					rec(append(append([]string(nil), acts...), kind+strconv.Itoa(id)), fed, rest, w2)
				}
				if len(running) == 1 {
					break
				}
			}
		}
		rec(nil, 0, nil, 0)
	}
	// the same with a local close in progress (closed flag set, transport still open) from some point on
	for _, limit := range []int{1, 2} {
		for _, acts := range []string{"c,d", "d,c,d", "c,d,d,f1", "d,c,d,d,f1,f2", "d,d,c,d,f1,d,p2,f3", "c,d,f1,d,f2", "d,c,f1,d,d,d,f2,f3"} {
			g.Emit("par %d 1 %s", limit, acts)
		}
	}
	// an unrecovered panic kills the process
	g.Emit("par 2 0 d,p1")
	g.Emit("par 2 0 d,d,f1,p2")
	g.Emit("par 1 1 .")
}
