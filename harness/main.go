// Command verifharness generates correspondence cases, runs them on the real gws (built from /repo's
// working tree with -tags verif) and prints the implementation's canonical output per case.
//
//	verifharness run  -suite S -tier quick|thorough -seed N -cases FILE -impl FILE [-stats FILE]
//	verifharness exec            (case lines on stdin -> implementation output on stdout)
//	verifharness suites          (list suites)
//
// An Exec may return "out<TAB>obs": the observation is appended to the case line for the driver.
// A case is one self-contained line "<suite> <args…>"; the same line is fed to the Lean driver.
package main

import (
	"bufio"
	"bytes"
	"encoding/json"
	"flag"
	"fmt"
	"io"
	"os"
	"os/exec"
	"runtime/debug"
	"sort"
	"strconv"
	"strings"
	"time"
)

type Suite struct {
	Name string
	// Gen emits case lines for the tier; all randomness comes from g.R.
	Gen func(g *Gen)
	// Exec runs one case (args = fields after the suite name) on the implementation.
	Exec func(args []string) string
	// Isolated suites execute their cases in a child process: a panic in a goroutine started by gws kills
	// the whole process, and several properties are precisely about that. A dead child is an observation
	// ("HARNESS-CRASH …") like any other and the parent carries on with a fresh child.
	Isolated bool
}

var suites = map[string]*Suite{}

func register(s *Suite) { suites[s.Name] = s }

type Gen struct {
	Tier     string
	Seed     int64
	R        *Rand
	emit     func(line string)
	Corpus   []string
	Counters map[string]int
}

func (g *Gen) Thorough() bool { return g.Tier == "thorough" }
func (g *Gen) Emit(format string, a ...any) {
	g.emit(fmt.Sprintf(format, a...))
}
func (g *Gen) Count(k string) { g.Counters[k]++ }

// pick returns q in the quick tier and t in the thorough tier.
func (g *Gen) pick(q, t int) int {
	if g.Thorough() {
		return t
	}
	return q
}

func execLine(line string) (out string) {
	fields := strings.Fields(line)
	if len(fields) == 0 {
		return "bad-op empty"
	}
	s, ok := suites[fields[0]]
	if !ok {
		return "bad-op unknown-suite"
	}
	defer func() {
		if e := recover(); e != nil {
			st := string(debug.Stack())
			if os.Getenv("VERIF_STACK") != "" {
				fmt.Fprintln(os.Stderr, st)
			}
			out = "PANIC " + strings.ReplaceAll(fmt.Sprint(e), "\n", " ")
			out = strings.Join(strings.Fields(out), "_")
		}
	}()
	return s.Exec(fields[1:])
}

// childExec runs `verifharness exec` as a child and feeds it one case line at a time.
type childExec struct {
	cmd    *exec.Cmd
	stdin  io.WriteCloser
	stdout *bufio.Reader
	stderr *bytes.Buffer
}

func (c *childExec) start() error {
	c.cmd = exec.Command(os.Args[0], "exec")
	c.cmd.Env = append(os.Environ(), "VERIF_CHILD=1")
	var err error
	if c.stdin, err = c.cmd.StdinPipe(); err != nil {
		return err
	}
	out, err := c.cmd.StdoutPipe()
	if err != nil {
		return err
	}
	c.stdout = bufio.NewReaderSize(out, 1<<20)
	c.stderr = &bytes.Buffer{}
	c.cmd.Stderr = c.stderr
	return c.cmd.Start()
}

func (c *childExec) stop() {
	if c.cmd != nil && c.cmd.Process != nil {
		_ = c.stdin.Close()
		_ = c.cmd.Process.Kill()
		_, _ = c.cmd.Process.Wait()
	}
	c.cmd = nil
}

func (c *childExec) exec(line string) string {
	if c.cmd == nil {
		if err := c.start(); err != nil {
			return "HARNESS-CHILD-START-FAILED"
		}
	}
	type res struct {
		s   string
		err error
	}
	ch := make(chan res, 1)
	go func() {
		if _, err := io.WriteString(c.stdin, line+"\n"); err != nil {
			ch <- res{"", err}
			return
		}
		s, err := c.stdout.ReadString('\n')
		ch <- res{strings.TrimRight(s, "\n"), err}
	}()
	select {
	case r := <-ch:
		if r.err != nil {
			// the child died: name the crash by the first panic/fatal line on its stderr
			_ = c.cmd.Wait()
			msg := "exit"
			for _, l := range strings.Split(c.stderr.String(), "\n") {
				if strings.HasPrefix(l, "panic:") || strings.HasPrefix(l, "fatal error:") {
					msg = strings.Join(strings.Fields(l), "_")
					break
				}
			}
			c.cmd = nil
			return "HARNESS-CRASH " + msg
		}
		return r.s
	case <-time.After(caseTimeout()):
		c.stop()
		return "HARNESS-TIMEOUT (the case did not finish: hang or endless loop)"
	}
}

// caseTimeout is the time one case of an isolated suite may take (VERIF_CASE_TIMEOUT seconds, default 45).
func caseTimeout() time.Duration {
	if v, err := strconv.Atoi(os.Getenv("VERIF_CASE_TIMEOUT")); err == nil && v > 0 {
		return time.Duration(v) * time.Second
	}
	return 45 * time.Second
}

func main() {
	if len(os.Args) < 2 {
		fmt.Fprintln(os.Stderr, "usage: verifharness run|exec|suites …")
		os.Exit(2)
	}
	switch os.Args[1] {
	case "suites":
		var names []string
		for n := range suites {
			names = append(names, n)
		}
		sort.Strings(names)
		fmt.Println(strings.Join(names, " "))
	case "exec":
		sc := bufio.NewScanner(os.Stdin)
		sc.Buffer(make([]byte, 1<<20), 1<<30)
		w := bufio.NewWriter(os.Stdout)
		for sc.Scan() {
			line := sc.Text()
			if strings.TrimSpace(line) == "" {
				continue
			}
			out := execLine(line)
			if os.Getenv("VERIF_CHILD") != "" {
				fmt.Fprintln(w, out) // child of an isolated suite: pass "out<TAB>obs" through unchanged
				w.Flush()
				continue
			}
			if i := strings.IndexByte(out, '\t'); i >= 0 && os.Getenv("VERIF_EXEC_OBS") != "" {
				// replay mode: print the case line completed with the fresh observation, then the output
				fmt.Fprintln(w, "CASE "+line+" "+out[i+1:])
				out = out[:i]
			} else if i >= 0 {
				out = out[:i]
			}
			fmt.Fprintln(w, out)
			w.Flush()
		}
	case "run":
		fs := flag.NewFlagSet("run", flag.ExitOnError)
		suite := fs.String("suite", "", "suite name")
		tier := fs.String("tier", "quick", "quick|thorough")
		seed := fs.Int64("seed", 1, "seed")
		casesPath := fs.String("cases", "", "output: case lines")
		implPath := fs.String("impl", "", "output: implementation output lines")
		statsPath := fs.String("stats", "", "output: generator statistics (json)")
		corpus := fs.String("corpus", "", "corpus file: case lines run first")
		filter := fs.String("filter", "", "only run case lines with this prefix")
		budget := fs.Int("budget", 0, "seconds after which the remaining generated cases are not run (0 = none)")
		_ = fs.Parse(os.Args[2:])
		started := time.Now()
		s, ok := suites[*suite]
		if !ok {
			fmt.Fprintln(os.Stderr, "unknown suite", *suite)
			os.Exit(2)
		}
		cf, err := os.Create(*casesPath)
		must(err)
		inf, err := os.Create(*implPath)
		must(err)
		cw, iw := bufio.NewWriterSize(cf, 1<<20), bufio.NewWriterSize(inf, 1<<20)
		n := 0
		g := &Gen{Tier: *tier, Seed: *seed, R: NewRand(uint64(*seed)*0x9E3779B97F4A7C15 + hashString(*suite)), Counters: map[string]int{}}
		var child *childExec
		if os.Getenv("VERIF_NO_ISOLATE") == "" { // every suite is isolated: a hang or crash anywhere must not take the check down
			child = &childExec{}
			defer child.stop()
		}
		hung, slow := 0, 0
		g.emit = func(line string) {
			if *filter != "" && !strings.HasPrefix(line, *filter) {
				return
			}
			if *budget > 0 && time.Since(started) > time.Duration(*budget)*time.Second {
				g.Count("not-run-over-budget")
				return
			}
			if hung >= 3 {
				g.Count("skipped-after-3-hangs")
				return // three cases already hung: the remaining ones are not run (each would cost a full time-out)
			}
			if slow >= 40 {
				// forty cases that each ran into an internal wait: on sources where the suite's expectations hold no case
				// waits, so the remaining cases would only repeat the same failure at the same price
				g.Count("skipped-after-40-slow-cases")
				return
			}
			var out string
			t0 := time.Now()
			if child != nil {
				out = child.exec(line)
			} else {
				out = execLine(line)
			}
			if d := time.Since(t0); d > 2500*time.Millisecond {
				slow++
				g.Count("slow-cases(>2.5s)")
			}
			// an Exec may return "out<TAB>obs": obs (what the implementation produced, e.g. wire bytes with
			// random mask keys) is appended to the case line so that the driver can examine it
			if i := strings.IndexByte(out, '\t'); i >= 0 {
				line, out = line+" "+out[i+1:], out[:i]
			}
			cw.WriteString(line)
			cw.WriteByte('\n')
			iw.WriteString(out)
			iw.WriteByte('\n')
			n++
			if strings.HasPrefix(out, "HARNESS-") {
				if strings.HasPrefix(out, "HARNESS-TIMEOUT") {
					hung++
				}
				_ = cw.Flush()
				_ = iw.Flush()
			}
		}
		if *corpus != "" {
			if data, err := os.ReadFile(*corpus); err == nil {
				for _, l := range strings.Split(string(data), "\n") {
					l = strings.TrimSpace(l)
					if l == "" || strings.HasPrefix(l, "#") {
						continue
					}
					if strings.HasPrefix(l, s.Name+" ") {
						g.emit(l)
						g.Count("corpus")
					}
				}
			}
		}
		s.Gen(g)
		must(cw.Flush())
		must(iw.Flush())
		cf.Close()
		inf.Close()
		if *statsPath != "" {
			st := map[string]any{"suite": s.Name, "cases": n, "counters": g.Counters, "tier": *tier, "seed": *seed}
			b, _ := json.MarshalIndent(st, "", " ")
			must(os.WriteFile(*statsPath, b, 0o644))
		}
	default:
		fmt.Fprintln(os.Stderr, "unknown command", os.Args[1])
		os.Exit(2)
	}
}

func must(err error) {
	if err != nil {
		fmt.Fprintln(os.Stderr, "harness:", err)
		os.Exit(3)
	}
}

func hashString(s string) uint64 {
	var h uint64 = 14695981039346656037
	for i := 0; i < len(s); i++ {
		h ^= uint64(s[i])
		h *= 1099511628211
	}
	return h
}
