package main

import (
	"bufio"
	"bytes"
	"crypto/sha1"
	"encoding/base64"
	"fmt"
	"net/http"
	"strings"
	"sync"
	"time"

	"github.com/lxzan/gws"
)

// recorder is a gws.Event that logs callbacks in canonical form.
type recorder struct {
	mu          sync.Mutex
	events      []string
	onMsg       func(c *gws.Conn, m *gws.Message) // optional extra behaviour (before Close)
	onPing      func(c *gws.Conn, p []byte)
	onOpen      func(c *gws.Conn)
	onClose     func(c *gws.Conn, err error)
	done        chan struct{}
	closeMu     sync.Once
	noAutoClose bool
	only        *gws.Conn // when set, callbacks of other connections sharing this handler are ignored
}

func newRecorder() *recorder { return &recorder{done: make(chan struct{})} }

func (r *recorder) add(s string) {
	r.mu.Lock()
	r.events = append(r.events, s)
	r.mu.Unlock()
}

func (r *recorder) Events() []string {
	r.mu.Lock()
	defer r.mu.Unlock()
	return append([]string(nil), r.events...)
}

func (r *recorder) skip(c *gws.Conn) bool { return r.only != nil && c != r.only }

func (r *recorder) OnOpen(c *gws.Conn) {
	if r.skip(c) {
		return
	}
	r.add("open")
	if r.onOpen != nil {
		r.onOpen(c)
	}
}

func (r *recorder) OnClose(c *gws.Conn, err error) {
	if r.skip(c) {
		return
	}
	r.add("close:" + closeErrString(err))
	if r.onClose != nil {
		r.onClose(c, err)
	}
	r.closeMu.Do(func() { close(r.done) })
}

func closeErrString(err error) string {
	if err == nil {
		return "nil"
	}
	if ce, ok := err.(*gws.CloseError); ok {
		return fmt.Sprintf("peer(%d,%s)", ce.Code, hx(ce.Reason))
	}
	return "err(" + strings.Join(strings.Fields(err.Error()), "_") + ")"
}

func (r *recorder) OnPing(c *gws.Conn, p []byte) {
	if r.skip(c) {
		return
	}
	r.add("ping:" + hx(p))
	if r.onPing != nil {
		r.onPing(c, p)
	}
}
func (r *recorder) OnPong(c *gws.Conn, p []byte) {
	if r.skip(c) {
		return
	}
	r.add("pong:" + hx(p))
}
func (r *recorder) OnMessage(c *gws.Conn, m *gws.Message) {
	if r.skip(c) {
		_ = m.Close()
		return
	}
	r.add(fmt.Sprintf("msg:%d:%s", m.Opcode, hx(m.Bytes())))
	if r.onMsg != nil {
		r.onMsg(c, m)
	}
	if !r.noAutoClose {
		_ = m.Close()
	}
}

func (r *recorder) WaitClosed(d time.Duration) bool {
	select {
	case <-r.done:
		return true
	case <-time.After(d):
		return false
	}
}

type quietLogger struct{}

func (quietLogger) Error(v ...any) {}

// handshakePair performs a real gws-to-gws opening handshake over an in-memory pipe.
func handshakePair(sopt *gws.ServerOption, copt *gws.ClientOption, sh, ch gws.Event) (server, client *gws.Conn, sc, cc *memConn, err error) {
	sc, cc = newPipe()
	if sopt == nil {
		sopt = &gws.ServerOption{}
	}
	if copt == nil {
		copt = &gws.ClientOption{}
	}
	if sopt.Logger == nil {
		sopt.Logger = quietLogger{}
	}
	if copt.Logger == nil {
		copt.Logger = quietLogger{}
	}
	if copt.Addr == "" {
		copt.Addr = "ws://verif.test/"
	}
	up := gws.NewUpgrader(sh, sopt)
	type res struct {
		c   *gws.Conn
		err error
	}
	ch1 := make(chan res, 1)
	go func() {
		br := bufio.NewReaderSize(sc, 4096)
		req, e := http.ReadRequest(br)
		if e != nil {
			ch1 <- res{nil, e}
			return
		}
		c, e := up.UpgradeFromConn(sc, br, req)
		ch1 <- res{c, e}
	}()
	client, _, cerr := gws.NewClientFromConn(ch, copt, cc)
	r := <-ch1
	if cerr != nil {
		return nil, nil, sc, cc, fmt.Errorf("client: %w", cerr)
	}
	if r.err != nil {
		return nil, nil, sc, cc, fmt.Errorf("server: %w", r.err)
	}
	return r.c, client, sc, cc, nil
}

// handshakeWith performs a real opening handshake of a fresh client against an EXISTING upgrader (an upgrader serves many
// connections: nothing of one handshake may show in the next).
func handshakeWith(up *gws.Upgrader, copt *gws.ClientOption, ch gws.Event) (server, client *gws.Conn, sc, cc *memConn, err error) {
	sc, cc = newPipe()
	if copt.Logger == nil {
		copt.Logger = quietLogger{}
	}
	if copt.Addr == "" {
		copt.Addr = "ws://verif.test/"
	}
	type res struct {
		c   *gws.Conn
		err error
	}
	ch1 := make(chan res, 1)
	go func() {
		br := bufio.NewReaderSize(sc, 4096)
		req, e := http.ReadRequest(br)
		if e != nil {
			ch1 <- res{nil, e}
			return
		}
		c, e := up.UpgradeFromConn(sc, br, req)
		ch1 <- res{c, e}
	}()
	client, _, cerr := gws.NewClientFromConn(ch, copt, cc)
	r := <-ch1
	if cerr != nil {
		return nil, nil, sc, cc, fmt.Errorf("client: %w", cerr)
	}
	if r.err != nil {
		return nil, nil, sc, cc, fmt.Errorf("server: %w", r.err)
	}
	return r.c, client, sc, cc, nil
}

// rawRequest builds an upgrade request with the given extension offer ("" = none) and extra header lines.
func rawRequest(ext string, extra ...string) []byte {
	var b bytes.Buffer
	b.WriteString("GET /verif HTTP/1.1\r\nHost: verif.test\r\nConnection: Upgrade\r\nUpgrade: websocket\r\nSec-WebSocket-Version: 13\r\nSec-WebSocket-Key: dGhlIHNhbXBsZSBub25jZQ==\r\n")
	if ext != "" {
		b.WriteString("Sec-WebSocket-Extensions: " + ext + "\r\n")
	}
	for _, l := range extra {
		b.WriteString(l + "\r\n")
	}
	b.WriteString("\r\n")
	return b.Bytes()
}

// serverConnRaw upgrades a server-side gws.Conn whose peer is the raw end returned as `peer`: the
// harness plays the client at byte level. The 101 response is consumed from the peer's inbox.
func serverConnRaw(sopt *gws.ServerOption, h gws.Event, ext string) (*gws.Conn, *memConn, *memConn, error) {
	sc, peer := newPipe()
	if sopt.Logger == nil {
		sopt.Logger = quietLogger{}
	}
	up := gws.NewUpgrader(h, sopt)
	_, _ = peer.Write(rawRequest(ext))
	br := bufio.NewReaderSize(sc, 4096)
	req, err := http.ReadRequest(br)
	if err != nil {
		return nil, sc, peer, err
	}
	c, err := up.UpgradeFromConn(sc, br, req)
	if err != nil {
		return nil, sc, peer, err
	}
	resp := peer.ReadAvailable()
	if !bytes.HasPrefix(resp, []byte("HTTP/1.1 101")) {
		return nil, sc, peer, fmt.Errorf("no 101: %q", resp)
	}
	// forget the handshake bytes in the server tap
	sc.mu.Lock()
	sc.tap, sc.writeCalls = nil, nil
	sc.mu.Unlock()
	peer.mu.Lock()
	peer.tap, peer.writeCalls = nil, nil
	peer.mu.Unlock()
	return c, sc, peer, nil
}

func acceptKey(key string) string {
	h := sha1.Sum([]byte(key + "258EAFA5-E914-47DA-95CA-C5AB0DC85B11"))
	return base64.StdEncoding.EncodeToString(h[:])
}

// clientConnRaw creates a client-side gws.Conn whose peer is a scripted raw server: the harness
// answers the upgrade request with a 101 carrying the given extension header ("" = none), followed
// immediately (same write) by `trailing` bytes.
func clientConnRaw(copt *gws.ClientOption, h gws.Event, ext string, trailing []byte) (*gws.Conn, *memConn, *memConn, error) {
	peer, cc := newPipe()
	if copt.Logger == nil {
		copt.Logger = quietLogger{}
	}
	if copt.Addr == "" {
		copt.Addr = "ws://verif.test/"
	}
	errc := make(chan error, 1)
	go func() {
		br := bufio.NewReader(peer)
		req, err := http.ReadRequest(br)
		if err != nil {
			errc <- err
			return
		}
		var b bytes.Buffer
		b.WriteString("HTTP/1.1 101 Switching Protocols\r\nUpgrade: websocket\r\nConnection: Upgrade\r\n")
		b.WriteString("Sec-WebSocket-Accept: " + acceptKey(req.Header.Get("Sec-WebSocket-Key")) + "\r\n")
		if ext != "" {
			b.WriteString("Sec-WebSocket-Extensions: " + ext + "\r\n")
		}
		b.WriteString("\r\n")
		b.Write(trailing)
		_, err = peer.Write(b.Bytes())
		errc <- err
	}()
	c, _, err := gws.NewClientFromConn(h, copt, cc)
	if e := <-errc; e != nil && err == nil {
		err = e
	}
	if err != nil {
		return nil, cc, peer, err
	}
	cc.mu.Lock()
	cc.tap, cc.writeCalls = nil, nil
	cc.mu.Unlock()
	peer.mu.Lock()
	peer.tap, peer.writeCalls = nil, nil
	peer.mu.Unlock()
	return c, cc, peer, nil
}
