package main

import (
	"bytes"
	"compress/flate"
	"encoding/binary"
	"fmt"
)

// frameSpec describes one WebSocket frame at byte level, including deliberately malformed ones.
type frameSpec struct {
	fin              bool
	rsv1, rsv2, rsv3 bool
	opcode           byte
	masked           bool
	key              [4]byte
	lenForm          int    // 0 = shortest, 7 / 16 / 64 = forced form
	declLen          uint64 // declared length when overrideLen
	overrideLen      bool
	payload          []byte // application payload (masked on the wire if masked)
}

func (f frameSpec) bytes() []byte {
	var b bytes.Buffer
	b0 := f.opcode & 0x0f
	if f.fin {
		b0 |= 0x80
	}
	if f.rsv1 {
		b0 |= 0x40
	}
	if f.rsv2 {
		b0 |= 0x20
	}
	if f.rsv3 {
		b0 |= 0x10
	}
	b.WriteByte(b0)
	n := uint64(len(f.payload))
	if f.overrideLen {
		n = f.declLen
	}
	form := f.lenForm
	if form == 0 {
		switch {
		case n <= 125:
			form = 7
		case n <= 65535:
			form = 16
		default:
			form = 64
		}
	}
	var b1 byte
	if f.masked {
		b1 = 0x80
	}
	switch form {
	case 7:
		b.WriteByte(b1 | byte(n&0x7f))
	case 16:
		b.WriteByte(b1 | 126)
		var x [2]byte
		binary.BigEndian.PutUint16(x[:], uint16(n))
		b.Write(x[:])
	default:
		b.WriteByte(b1 | 127)
		var x [8]byte
		binary.BigEndian.PutUint64(x[:], n)
		b.Write(x[:])
	}
	p := append([]byte(nil), f.payload...)
	if f.masked {
		b.Write(f.key[:])
		for i := range p {
			p[i] ^= f.key[i&3]
		}
	}
	b.Write(p)
	return b.Bytes()
}

// deflateRaw compresses data with the stdlib encoder against dict, sync-flushes, and strips the
// 00 00 ff ff tail (RFC 7692 §7.2.1).
func deflateRaw(data, dict []byte, level int) []byte {
	var b bytes.Buffer
	var w *flate.Writer
	if len(dict) > 0 {
		w, _ = flate.NewWriterDict(&b, level, dict)
	} else {
		w, _ = flate.NewWriter(&b, level)
	}
	_, _ = w.Write(data)
	_ = w.Flush()
	out := b.Bytes()
	if len(out) >= 4 && bytes.Equal(out[len(out)-4:], []byte{0, 0, 0xff, 0xff}) {
		out = out[:len(out)-4]
	}
	return append([]byte(nil), out...)
}

// deflateFinal compresses data into a complete DEFLATE stream whose last block has BFINAL=1 (what
// flate.Writer.Close() emits). RFC 7692 §7.2.3.5 allows a sender to end a message that way.
func deflateFinal(data, dict []byte, level int) []byte {
	var b bytes.Buffer
	var w *flate.Writer
	if len(dict) > 0 {
		w, _ = flate.NewWriterDict(&b, level, dict)
	} else {
		w, _ = flate.NewWriter(&b, level)
	}
	_, _ = w.Write(data)
	_ = w.Close()
	return append([]byte(nil), b.Bytes()...)
}

// decodedFrame is the harness's own RFC 6455 frame decoder output (independent of gws's reader).
type decodedFrame struct {
	fin, rsv1, rsv2, rsv3, masked bool
	opcode                        byte
	lenForm                       int
	payload                       []byte // unmasked
	key                           [4]byte
	wireLen                       int // bytes of the whole frame on the wire
}

func decodeFrames(b []byte) ([]decodedFrame, error) {
	var out []decodedFrame
	for len(b) > 0 {
		if len(b) < 2 {
			return out, fmt.Errorf("truncated header")
		}
		start := len(b)
		var f decodedFrame
		f.fin, f.rsv1, f.rsv2, f.rsv3 = b[0]&0x80 != 0, b[0]&0x40 != 0, b[0]&0x20 != 0, b[0]&0x10 != 0
		f.opcode = b[0] & 0x0f
		f.masked = b[1]&0x80 != 0
		n := uint64(b[1] & 0x7f)
		b = b[2:]
		f.lenForm = 7
		switch n {
		case 126:
			if len(b) < 2 {
				return out, fmt.Errorf("truncated length")
			}
			n = uint64(binary.BigEndian.Uint16(b))
			b = b[2:]
			f.lenForm = 16
		case 127:
			if len(b) < 8 {
				return out, fmt.Errorf("truncated length")
			}
			n = binary.BigEndian.Uint64(b)
			b = b[8:]
			f.lenForm = 64
		}
		if f.masked {
			if len(b) < 4 {
				return out, fmt.Errorf("truncated key")
			}
			copy(f.key[:], b)
			b = b[4:]
		}
		if uint64(len(b)) < n {
			return out, fmt.Errorf("truncated payload")
		}
		f.payload = append([]byte(nil), b[:n]...)
		b = b[n:]
		if f.masked {
			for i := range f.payload {
				f.payload[i] ^= f.key[i&3]
			}
		}
		f.wireLen = start - len(b)
		out = append(out, f)
	}
	return out, nil
}

// closeReply summarises what an endpoint wrote as a reaction to inbound traffic: exactly one Close
// frame -> its status ("empty" for an empty body); anything else is spelled out.
func closeReply(tap []byte) string {
	fs, err := decodeFrames(tap)
	if err != nil {
		return "undecodable:" + hx(tap)
	}
	if len(fs) == 0 {
		return "nothing"
	}
	if len(fs) == 1 && fs[0].opcode == 8 && fs[0].fin && !fs[0].rsv1 && !fs[0].rsv2 && !fs[0].rsv3 {
		p := fs[0].payload
		switch {
		case len(p) == 0:
			return "empty"
		case len(p) == 1:
			return "onebyte"
		case len(p) > 125:
			return "oversized-close"
		default:
			return fmt.Sprint(binary.BigEndian.Uint16(p))
		}
	}
	return fmt.Sprintf("frames(%d):%s", len(fs), hx(tap))
}
