package main

import (
	"fmt"
	"strconv"
	"unicode/utf8"

	"github.com/lxzan/gws"
)

func init() {
	register(&Suite{Name: "utf8", Gen: genUtf8, Exec: execUtf8})
}

func execUtf8(args []string) string {
	switch args[0] {
	case "bytes":
		op, _ := strconv.Atoi(args[2])
		return b2s(gws.VerifCheckEncodingBytes(args[1] == "1", uint8(op), unhx(args[3])))
	case "bufs":
		op, _ := strconv.Atoi(args[2])
		return b2s(gws.VerifCheckEncodingBuffers(args[1] == "1", uint8(op), unhxList(args[3])))
	case "tablesplit":
		// every byte string of length n, under every 2-way split and the all-singletons split, through the real
		// slice-list gate; the digest covers (string, split) pairs in a fixed order
		n, _ := strconv.Atoi(args[1])
		var h uint64 = 14695981039346656037
		count := 0
		buf := make([]byte, n)
		var rec func(i int)
		rec = func(i int) {
			if i == n {
				add := func(parts [][]byte) {
					var b byte
					if gws.VerifCheckEncodingBuffers(true, 1, parts) {
						b = 1
						count++
					}
					h = (h ^ uint64(b)) * 1099511628211
				}
				for cut := 0; cut <= n; cut++ {
					add([][]byte{buf[:cut], buf[cut:]})
				}
				singles := make([][]byte, n)
				for j := 0; j < n; j++ {
					singles[j] = buf[j : j+1]
				}
				add(singles)
				return
			}
			for x := 0; x < 256; x++ {
				buf[i] = byte(x)
				rec(i + 1)
			}
		}
		rec(0)
		return fmt.Sprintf("%d %d", h, count)
	case "table":
		// every byte string of length n in lexicographic order through the real single-slice gate
		n, _ := strconv.Atoi(args[1])
		var h uint64 = 14695981039346656037
		count := 0
		buf := make([]byte, n)
		var rec func(i int)
		rec = func(i int) {
			if i == n {
				v := gws.VerifCheckEncodingBytes(true, 1, buf)
				if v != utf8.Valid(buf) {
					panic("gate differs from utf8.Valid")
				}
				var b byte
				if v {
					b = 1
					count++
				}
				h = (h ^ uint64(b)) * 1099511628211
				return
			}
			for x := 0; x < 256; x++ {
				buf[i] = byte(x)
				rec(i + 1)
			}
		}
		rec(0)
		return fmt.Sprintf("%d %d", h, count)
	}
	return "bad-op"
}

// splits returns every way to cut s into at most 3 consecutive slices (including empty slices at the ends).
func splits(s []byte) [][][]byte {
	var out [][][]byte
	out = append(out, [][]byte{s})
	for i := 0; i <= len(s); i++ {
		out = append(out, [][]byte{s[:i], s[i:]})
		for j := i; j <= len(s); j++ {
			out = append(out, [][]byte{s[:i], s[i:j], s[j:]})
		}
	}
	return out
}

func genUtf8(g *Gen) {
	for n := 0; n <= 3; n++ {
		g.Emit("utf8 table %d", n)
	}
	for n := 1; n <= 3; n++ {
		g.Emit("utf8 tablesplit %d", n)
	}
	for _, s := range utf8Boundary() {
		for _, en := range []string{"1", "0"} {
			for _, op := range []int{1, 2, 8, 0, 9} {
				g.Emit("utf8 bytes %s %d %s", en, op, hx(s))
				if en == "1" && (op == 1 || op == 8) || len(s) <= 3 {
					for _, sp := range splits(s) {
						g.Emit("utf8 bufs %s %d %s", en, op, hxList(sp))
					}
				}
			}
		}
	}
	g.Emit("utf8 bufs 1 1 .")
	// random mostly-valid text with random cuts and one optional corruption
	samples := []string{"héllo wörld", "日本語のテキスト", "emoji \U0001F600\U0001F680 mix", "ascii only", " ߿ࠀ￿\U00010000\U0010ffff"}
	for i := 0; i < g.pick(300, 3000); i++ {
		s := []byte(samples[g.R.Intn(len(samples))] + samples[g.R.Intn(len(samples))])
		if g.R.Intn(3) == 0 {
			s[g.R.Intn(len(s))] ^= byte(1 << uint(g.R.Intn(8)))
		}
		if g.R.Intn(4) == 0 {
			s = s[:g.R.Intn(len(s)+1)]
		}
		k := 1 + g.R.Intn(5)
		var parts [][]byte
		rest := s
		for j := 0; j < k-1; j++ {
			c := g.R.Intn(len(rest) + 1)
			parts = append(parts, rest[:c])
			rest = rest[c:]
		}
		parts = append(parts, rest)
		g.Emit("utf8 bufs 1 1 %s", hxList(parts))
	}
}
