package main

import (
	"bytes"
	"strconv"
	"strings"

	"github.com/lxzan/gws"
)

func init() {
	register(&Suite{Name: "mask", Gen: genMask, Exec: execMask})
	register(&Suite{Name: "win", Gen: genWin, Exec: execWin})
}

// ---- mask (C18) -------------------------------------------------------------------------------

const guard = 16

// execMask runs the real routine on a slice placed at an offset inside a guarded backing array; the
// offset is not part of the case (the model has no addresses): all 8 offsets must give the same
// result and leave the guard bytes intact, otherwise the output says so.
func execMask(args []string) string {
	key, data := unhx(args[0]), unhx(args[1])
	var first []byte
	for variant := 0; variant < 16; variant++ {
		off := variant % 8
		back := make([]byte, guard+off+len(data)+guard)
		for i := range back {
			back[i] = 0xA5
		}
		// variants 0..7: the slice's capacity ends with the buffer; 8..15: the slice has spare capacity reaching
		// into the guard area (as a pooled frame buffer has), so a store "within capacity" past the end is visible
		buf := back[guard+off : guard+off+len(data) : guard+off+len(data)]
		if variant >= 8 {
			buf = back[guard+off : guard+off+len(data)]
		}
		copy(buf, data)
		k := append([]byte(nil), key...)
		gws.VerifMaskXOR(buf, k)
		for i := 0; i < guard+off; i++ {
			if back[i] != 0xA5 {
				return "guard-before-touched off=" + strconv.Itoa(off)
			}
		}
		for i := guard + off + len(data); i < len(back); i++ {
			if back[i] != 0xA5 {
				return "guard-after-touched off=" + strconv.Itoa(off)
			}
		}
		if !bytes.Equal(k, key) {
			return "key-modified"
		}
		if variant == 0 {
			first = append([]byte(nil), buf...)
		} else if !bytes.Equal(first, buf) {
			return "offset-dependent off=" + strconv.Itoa(off)
		}
	}
	return hx(first)
}

func genMask(g *Gen) {
	keys := [][]byte{{0, 0, 0, 0}, {0xff, 0xff, 0xff, 0xff}, {1, 0, 0, 0}, {0, 0, 0, 0x80}, {0x12, 0x34, 0x56, 0x78}}
	maxLen := g.pick(330, 1100)
	for n := 0; n <= maxLen; n++ {
		// every length: one structured key (cycled) with a counting pattern, one random key with random data
		k := keys[n%len(keys)]
		data := make([]byte, n)
		for i := range data {
			data[i] = byte(i)
		}
		g.Emit("mask %s %s", hx(k), hx(data))
		g.Emit("mask %s %s", hx(g.R.Bytes(4)), hx(g.R.Bytes(n)))
	}
	for i := 0; i < g.pick(50, 400); i++ {
		n := g.R.Intn(g.pick(5000, 70000))
		g.Emit("mask %s %s", hx(g.R.Bytes(4)), hx(g.R.Bytes(n)))
	}
}

// ---- window (C17) -----------------------------------------------------------------------------

func execWin(args []string) string {
	var w *gws.VerifWindow
	var size int
	if args[0] == "off" {
		w = gws.VerifDisabledWindow()
	} else {
		bits, _ := strconv.Atoi(args[0])
		size = 1 << bits
		// exercise both initialisation paths; they must be indistinguishable
		w = gws.VerifNewWindow(bits, len(args[1])%2 == 0 || strings.Contains(args[1], "R"))
	}
	var outs []string
	items := []string{}
	if args[1] != "." {
		items = strings.Split(args[1], ",")
	}
	for _, it := range items {
		if it == "R" {
			if args[0] != "off" {
				w.Recycle()
			}
			outs = append(outs, hx(w.Bytes()))
			continue
		}
		p := unhx(it)
		q := append([]byte(nil), p...)
		n, err := w.Write(q)
		if args[0] == "off" {
			n = len(p) // a disabled window reports 0 bytes written
		}
		if err != nil || n != len(p) {
			return "write-returned " + strconv.Itoa(n)
		}
		if !bytes.Equal(p, q) {
			return "input-modified"
		}
		if args[0] != "off" && w.Cap() != size {
			return "reallocated cap=" + strconv.Itoa(w.Cap())
		}
		outs = append(outs, hx(w.Bytes()))
	}
	return strings.Join(outs, ";")
}

func genWin(g *Gen) {
	counter := byte(1)
	fresh := func(n int) []byte {
		b := make([]byte, n)
		for i := range b {
			b[i] = counter
			counter++
			if counter == 0 {
				counter = 1
			}
		}
		return b
	}
	// exhaustive: every sequence (depth d) of chunk lengths drawn from the boundary set, small capacities
	maxBits, depth := g.pick(3, 4), g.pick(3, 4)
	for bits := 0; bits <= maxBits; bits++ {
		size := 1 << bits
		lens := dedupInts([]int{0, 1, size - 1, size, size + 1, 2*size + 3, size / 2, size/2 + 1})
		var rec func(prefix []int)
		rec = func(prefix []int) {
			if len(prefix) == depth {
				counter = 1
				var chunks [][]byte
				for _, n := range prefix {
					chunks = append(chunks, fresh(n))
				}
				g.Emit("win %d %s", bits, hxList(chunks))
				return
			}
			for _, n := range lens {
				rec(append(prefix, n))
			}
		}
		rec(nil)
	}
	// lengths relative to the free space, larger capacities, random contents
	for i := 0; i < g.pick(150, 1500); i++ {
		bits := 8 + g.R.Intn(8)
		if g.R.Intn(4) == 0 {
			bits = g.R.Intn(8)
		}
		size := 1 << bits
		used := 0
		var chunks [][]byte
		for j := 0; j < 1+g.R.Intn(6); j++ {
			free := size - used
			if free < 0 {
				free = 0
			}
			opts := []int{0, 1, free - 1, free, free + 1, size - 1, size, size + 1, 2*size + 3, g.R.Intn(size + 1), g.R.Intn(3*size + 1)}
			n := opts[g.R.Intn(len(opts))]
			if n < 0 {
				n = 0
			}
			if n > 100000 {
				n = 100000
			}
			chunks = append(chunks, g.R.Bytes(n))
			used += n
			if used > size {
				used = size
			}
		}
		g.Emit("win %d %s", bits, hxList(chunks))
	}
	// recycling through the pool between connections: the next window must start empty
	for bits := 0; bits <= 4; bits++ {
		size := 1 << bits
		for _, n1 := range []int{0, 1, size - 1, size, size + 1, 2*size + 3} {
			if n1 < 0 {
				continue
			}
			for _, n2 := range []int{0, 1, size} {
				counter = 1
				g.Emit("win %d %s,R,%s,R", bits, hx(fresh(n1)), hx(fresh(n2)))
			}
		}
	}
	for i := 0; i < g.pick(30, 300); i++ {
		bits := 8 + g.R.Intn(8)
		g.Emit("win %d %s,R,%s,%s,R,%s", bits, hx(g.R.Bytes(g.R.Intn(3<<bits))), hx(g.R.Bytes(g.R.Intn(100))), hx(g.R.Bytes(g.R.Intn(2<<bits))), hx(g.R.Bytes(g.R.Intn(50))))
	}
	g.Emit("win off %s", hxList([][]byte{{1, 2, 3}, {}, fresh(100)}))
	g.Emit("win off .")
}

func dedupInts(in []int) []int {
	seen := map[int]bool{}
	var out []int
	for _, v := range in {
		if v >= 0 && !seen[v] {
			seen[v] = true
			out = append(out, v)
		}
	}
	return out
}

// ---- limited (C13): the bounded copy loop of Decompress ----------------------------------------

func init() {
	register(&Suite{Name: "limited", Gen: genLimited, Exec: execLimited})
}

func execLimited(args []string) string {
	limit, _ := strconv.Atoi(args[0])
	var chunks []int
	if args[1] != "." {
		for _, f := range strings.Split(args[1], ",") {
			n, _ := strconv.Atoi(f)
			chunks = append(chunks, n)
		}
	}
	w, cls, reads := gws.VerifLimitedCopy(limit, chunks, args[2] == "1", args[3] == "1")
	obs := "."
	if len(reads) > 0 {
		obs = strings.Join(reads, ",")
	}
	// the size of each read is decided by bytes.Buffer.ReadFrom (spare capacity), not by the case: the
	// reads actually served are the observation the model is run on
	return strconv.Itoa(w) + " " + cls + "\t" + obs
}

func genLimited(g *Gen) {
	emit := func(limit int, chunks []int, ewl, fae bool) {
		parts := make([]string, len(chunks))
		for i, c := range chunks {
			parts[i] = strconv.Itoa(c)
		}
		cs := "."
		if len(parts) > 0 {
			cs = strings.Join(parts, ",")
		}
		g.Emit("limited %d %s %s %s", limit, cs, b2s(ewl), b2s(fae))
	}
	for _, limit := range []int{0, 1, 10, 1000, 32768, 32769, 100000} {
		for _, total := range []int{0, 1, limit - 1, limit, limit + 1, limit + 32768, 3 * limit} {
			if total < 0 {
				continue
			}
			for _, ewl := range []bool{false, true} {
				for _, fae := range []bool{false, true} {
					emit(limit, []int{total}, ewl, fae)
					if total >= 2 {
						emit(limit, []int{total / 2, total - total/2}, ewl, fae)
						emit(limit, []int{total - 1, 1}, ewl, fae)
						emit(limit, []int{1, total - 1}, ewl, fae)
					}
				}
			}
		}
	}
	for i := 0; i < g.pick(300, 3000); i++ {
		limit := g.R.Intn(200000)
		var chunks []int
		for j := 0; j < g.R.Intn(6); j++ {
			chunks = append(chunks, g.R.Intn(1+limit/2+g.R.Intn(1+limit)))
		}
		emit(limit, chunks, g.R.Bool(), g.R.Intn(4) == 0)
	}
	emit(5, nil, false, false)
	emit(5, nil, false, true)
}
