package main

import (
	"errors"
	"io"
	"net"
	"os"
	"strings"
	"sync"
	"syscall"
	"time"
)

// memConn is one end of an in-memory, full-duplex byte stream implementing net.Conn.
//
// Writes never block unless a gate is installed: they append to the peer's inbox and are recorded in
// the writer's tap.  Reads block until data, close or deadline.  Every transport call is counted and
// may be failed, shortened or stalled by the fault plan, so a harness can inject a fault at the k-th
// operation of an endpoint.
type memConn struct {
	name string
	mu   sync.Mutex
	cond *sync.Cond
	peer *memConn

	inbox         []byte // bytes written by the peer, not yet read
	peerClosed    bool   // peer closed its end: reads drain then EOF
	closed        bool   // this end was closed
	closeCount    int
	readDL        time.Time
	writeDL       time.Time
	tap           []byte // everything this end wrote successfully
	writeCalls    [][]byte
	readChunk     func(avail int) int // max bytes to return from one Read (nil: all)
	ops           int                 // transport operations performed so far (reads+writes)
	plan          *faultPlan
	writeAttempts int
	writeGate     chan struct{} // when non-nil, Write blocks until it is closed (stall)
	inWrite       int           // writers currently parked at the gate
	afterWrites   int           // bytes accepted after Close frame detection (diagnostics)
	dlChanged     chan struct{}  // closed (and replaced) whenever the write deadline is set: wakes stalled writers
	onWrite       func(p []byte) // observer called at the start of every Write, outside the lock
}

type faultKind int

const (
	faultNone    faultKind = iota
	faultErr               // the call returns an error, nothing transferred
	faultShort             // a write transfers half and returns an error / a read returns half then errors next time
	faultEOF               // a read returns io.EOF (peer vanished) / a write returns EPIPE
	faultTimeout           // the call fails with a deadline error (a net.Error whose Timeout() is true)
	faultReset             // the call fails with *net.OpError{ECONNRESET}, as a TCP reset does
	faultLongErr           // the call fails with an error whose text is longer than a control frame can carry
)

var errInjectedLong = errors.New("verif: injected transport fault with a very long description " + strings.Repeat("0123456789", 20))

// err is what a failed operation of this plan returns
func (pl *faultPlan) err(op string) error {
	switch pl.kind {
	case faultTimeout:
		return os.ErrDeadlineExceeded
	case faultReset:
		return &net.OpError{Op: op, Net: "mem", Err: syscall.ECONNRESET}
	case faultLongErr:
		return errInjectedLong
	}
	return errInjected
}

// faultPlan fails the k-th (0-based) read and/or write of an endpoint.
type faultPlan struct {
	readAt, writeAt int
	kind            faultKind
	sticky          bool // all later operations fail too
	reads, writes   int
	fired           bool
}

var errInjected = errors.New("verif: injected transport fault")

func newPipe() (*memConn, *memConn) {
	a, b := &memConn{name: "a"}, &memConn{name: "b"}
	a.cond, b.cond = sync.NewCond(&a.mu), sync.NewCond(&b.mu)
	a.peer, b.peer = b, a
	return a, b
}

type memAddr string

func (m memAddr) Network() string { return "mem" }
func (m memAddr) String() string  { return string(m) }

func (c *memConn) LocalAddr() net.Addr  { return memAddr(c.name) }
func (c *memConn) RemoteAddr() net.Addr { return memAddr(c.peer.name) }

func (c *memConn) Read(p []byte) (int, error) {
	c.mu.Lock()
	defer c.mu.Unlock()
	if pl := c.plan; pl != nil {
		k := pl.reads
		pl.reads++
		if (k == pl.readAt && !pl.fired) || (pl.sticky && pl.fired && pl.readAt >= 0 && k > pl.readAt) {
			pl.fired = true
			switch pl.kind {
			case faultEOF:
				return 0, io.EOF
			default:
				return 0, pl.err("read")
			}
		}
	}
	var timer *time.Timer
	for len(c.inbox) == 0 {
		if c.closed {
			return 0, net.ErrClosed
		}
		if c.peerClosed {
			return 0, io.EOF
		}
		if !c.readDL.IsZero() {
			d := time.Until(c.readDL)
			if d <= 0 {
				return 0, os.ErrDeadlineExceeded
			}
			if timer == nil {
				timer = time.AfterFunc(d, func() { c.mu.Lock(); c.cond.Broadcast(); c.mu.Unlock() })
				defer timer.Stop()
			}
		}
		c.cond.Wait()
	}
	n := len(c.inbox)
	if n > len(p) {
		n = len(p)
	}
	if c.readChunk != nil {
		if m := c.readChunk(n); m > 0 && m < n {
			n = m
		}
	}
	copy(p, c.inbox[:n])
	c.inbox = c.inbox[n:]
	return n, nil
}

func (c *memConn) Write(p []byte) (int, error) {
	c.mu.Lock()
	obs := c.onWrite
	c.mu.Unlock()
	if obs != nil {
		obs(p)
	}
	c.mu.Lock()
	c.writeAttempts++
	if c.closed {
		c.mu.Unlock()
		return 0, net.ErrClosed
	}
	if pl := c.plan; pl != nil {
		k := pl.writes
		pl.writes++
		if (k == pl.writeAt && !pl.fired) || (pl.sticky && pl.fired && pl.writeAt >= 0 && k > pl.writeAt) {
			pl.fired = true
			if pl.kind == faultShort && len(p) > 1 {
				half := len(p) / 2
				c.deliverLocked(p[:half])
				c.mu.Unlock()
				return half, pl.err("write")
			}
			c.mu.Unlock()
			return 0, pl.err("write")
		}
	}
	gate := c.writeGate
	if gate != nil {
		c.inWrite++
		c.cond.Broadcast()
		// a stalled write gives up at its deadline, as a socket write does — also at a deadline that is set (by another
		// goroutine) while the write is already stalled
		for parked := true; parked; {
			dl := c.writeDL
			changed := c.dlChanged
			if changed == nil {
				changed = make(chan struct{})
				c.dlChanged = changed
			}
			c.mu.Unlock()
			var timer <-chan time.Time
			var t *time.Timer
			if !dl.IsZero() {
				t = time.NewTimer(time.Until(dl))
				timer = t.C
			}
			select {
			case <-gate:
				parked = false
			case <-timer:
				c.mu.Lock()
				c.inWrite--
				c.mu.Unlock()
				return 0, os.ErrDeadlineExceeded
			case <-changed: // re-read the deadline
			}
			if t != nil {
				t.Stop()
			}
			c.mu.Lock()
		}
		c.inWrite--
		if c.closed {
			c.mu.Unlock()
			return 0, net.ErrClosed
		}
	}
	if !c.writeDL.IsZero() && time.Now().After(c.writeDL) {
		c.mu.Unlock()
		return 0, os.ErrDeadlineExceeded
	}
	c.deliverLocked(p)
	c.mu.Unlock()
	return len(p), nil
}

// deliverLocked records p in this end's tap and hands it to the peer. c.mu is held on entry and on
// return, but released while the peer's mutex is taken (the two ends lock each other's mutex when both
// directions write at once: never hold both).
func (c *memConn) deliverLocked(p []byte) {
	c.tap = append(c.tap, p...)
	c.writeCalls = append(c.writeCalls, append([]byte(nil), p...))
	peer := c.peer
	c.mu.Unlock()
	peer.mu.Lock()
	if !peer.closed {
		peer.inbox = append(peer.inbox, p...)
	}
	peer.cond.Broadcast()
	peer.mu.Unlock()
	c.mu.Lock()
}

func (c *memConn) Close() error {
	c.mu.Lock()
	c.closeCount++
	already := c.closed
	c.closed = true
	gate := c.writeGate
	c.writeGate = nil
	c.cond.Broadcast()
	c.mu.Unlock()
	if gate != nil {
		close(gate) // closing the transport releases writers stalled in it (as a socket close would)
	}
	if already {
		return net.ErrClosed
	}
	peer := c.peer
	peer.mu.Lock()
	peer.peerClosed = true
	peer.cond.Broadcast()
	peer.mu.Unlock()
	return nil
}

func (c *memConn) SetDeadline(t time.Time) error {
	c.mu.Lock()
	defer c.mu.Unlock()
	if c.closed {
		return net.ErrClosed
	}
	c.readDL, c.writeDL = t, t
	c.wakeStalledLocked()
	c.cond.Broadcast()
	return nil
}
func (c *memConn) SetReadDeadline(t time.Time) error {
	c.mu.Lock()
	defer c.mu.Unlock()
	if c.closed {
		return net.ErrClosed
	}
	c.readDL = t
	c.cond.Broadcast()
	return nil
}
func (c *memConn) SetWriteDeadline(t time.Time) error {
	c.mu.Lock()
	defer c.mu.Unlock()
	if c.closed {
		return net.ErrClosed
	}
	c.writeDL = t
	c.wakeStalledLocked()
	return nil
}

func (c *memConn) wakeStalledLocked() {
	if c.dlChanged != nil {
		close(c.dlChanged)
		c.dlChanged = nil
	}
}

// ---- harness-side helpers ---------------------------------------------------------------------

// Tap returns a copy of everything this end has written.
func (c *memConn) Tap() []byte {
	c.mu.Lock()
	defer c.mu.Unlock()
	return append([]byte(nil), c.tap...)
}

// WriteCalls returns the payload of every successful Write call, in order.
func (c *memConn) WriteCalls() [][]byte {
	c.mu.Lock()
	defer c.mu.Unlock()
	return append([][]byte(nil), c.writeCalls...)
}

func (c *memConn) IsClosed() bool {
	c.mu.Lock()
	defer c.mu.Unlock()
	return c.closed
}

func (c *memConn) CloseCount() int {
	c.mu.Lock()
	defer c.mu.Unlock()
	return c.closeCount
}

// Inject appends raw bytes to this end's inbox as if the peer had written them (not tapped).
func (c *memConn) Inject(p []byte) {
	c.mu.Lock()
	c.inbox = append(c.inbox, p...)
	c.cond.Broadcast()
	c.mu.Unlock()
}

// PeerGone makes this end see EOF once its inbox is drained.
func (c *memConn) PeerGone() {
	c.mu.Lock()
	c.peerClosed = true
	c.cond.Broadcast()
	c.mu.Unlock()
}

// SetReadChunk limits how many bytes one Read returns.
func (c *memConn) SetReadChunk(f func(avail int) int) {
	c.mu.Lock()
	c.readChunk = f
	c.mu.Unlock()
}

// Stall makes subsequent Writes block until Unstall (or Close).
func (c *memConn) Stall() {
	c.mu.Lock()
	if c.writeGate == nil {
		c.writeGate = make(chan struct{})
	}
	c.mu.Unlock()
}

func (c *memConn) Unstall() {
	c.mu.Lock()
	gate := c.writeGate
	c.writeGate = nil
	c.mu.Unlock()
	if gate != nil {
		close(gate)
	}
}

// WaitStalled blocks until n writers are parked at the gate, or the timeout passes.
func (c *memConn) WaitStalled(n int, d time.Duration) bool {
	deadline := time.Now().Add(d)
	c.mu.Lock()
	defer c.mu.Unlock()
	for c.inWrite < n {
		if time.Now().After(deadline) {
			return false
		}
		c.mu.Unlock()
		time.Sleep(200 * time.Microsecond)
		c.mu.Lock()
	}
	return true
}

// WriteAttempts: how many times Write has been called on this end, whatever the outcome
// SetOnWrite installs an observer that runs at the start of every transport write, i.e. while the
// write call that caused it is still in flight.
func (c *memConn) SetOnWrite(f func(p []byte)) {
	c.mu.Lock()
	c.onWrite = f
	c.mu.Unlock()
}

func (c *memConn) WriteAttempts() int {
	c.mu.Lock()
	defer c.mu.Unlock()
	return c.writeAttempts
}

// PlanFired: the fault plan has failed one of this endpoint's operations
func (c *memConn) PlanFired() bool {
	c.mu.Lock()
	defer c.mu.Unlock()
	return c.plan != nil && c.plan.fired
}

func (c *memConn) SetPlan(p *faultPlan) {
	c.mu.Lock()
	c.plan = p
	c.mu.Unlock()
}

// ReadAvailable drains and returns what is currently in the inbox (raw-peer side), without blocking.
func (c *memConn) ReadAvailable() []byte {
	c.mu.Lock()
	defer c.mu.Unlock()
	b := c.inbox
	c.inbox = nil
	return b
}
