package main

import (
	"fmt"
	"runtime"
	"sort"
	"strconv"
	"strings"
	"sync"
	"sync/atomic"
	"time"

	"github.com/anishathalye/porcupine"
	"github.com/lxzan/gws"
)

// Suites for C19 (session storage and ConcurrentMap).
//
//   cmap      sequential operation sequences, real maps vs the Lean transition system (correspondence)
//   cmapconc  genuinely concurrent histories on the real maps, checked here (per-key linearizability
//             with porcupine, Len bounds, Range exactly-once).  This is a *validation of the atomicity
//             assumption* the Lean proof rests on (a mutex region is atomic); it is not part of the proof
//             and the Lean driver answers the constant "ok" for every cmapconc line.

func init() {
	register(&Suite{Name: "cmap", Gen: genCmap, Exec: execCmap})
	register(&Suite{Name: "cmapconc", Gen: genCmapConc, Exec: execCmapConc})
}

// mapAPI is the common surface of ConcurrentMap[string,int] and SessionStorage.
type mapAPI interface {
	Len() int
	Load(k string) (int, bool)
	Store(k string, v int)
	Delete(k string)
	Range(f func(k string, v int) bool)
}

type cmAdapter struct {
	m *gws.ConcurrentMap[string, int]
}

func (a cmAdapter) Len() int                           { return a.m.Len() }
func (a cmAdapter) Load(k string) (int, bool)          { return a.m.Load(k) }
func (a cmAdapter) Store(k string, v int)              { a.m.Store(k, v) }
func (a cmAdapter) Delete(k string)                    { a.m.Delete(k) }
func (a cmAdapter) Range(f func(k string, v int) bool) { a.m.Range(f) }

type ssAdapter struct{ m gws.SessionStorage }

func (a ssAdapter) Len() int { return a.m.Len() }
func (a ssAdapter) Load(k string) (int, bool) {
	v, ok := a.m.Load(k)
	if !ok {
		return 0, false
	}
	return v.(int), true
}
func (a ssAdapter) Store(k string, v int) { a.m.Store(k, v) }
func (a ssAdapter) Delete(k string)       { a.m.Delete(k) }
func (a ssAdapter) Range(f func(k string, v int) bool) {
	a.m.Range(func(k string, v any) bool { return f(k, v.(int)) })
}

// cmapTargets: the default session map, NewConcurrentMap() without arguments, and explicit shard
// counts incl. 0 (-> 16) and non-powers of two (3 -> 4, 100 -> 128).
var cmapTargets = []string{"smap", "def", "0", "1", "2", "3", "16", "100"}

func newMapTarget(target string) mapAPI {
	switch target {
	case "smap":
		return ssAdapter{gws.VerifNewSmap()}
	case "def":
		return cmAdapter{gws.NewConcurrentMap[string, int]()}
	default:
		n, err := strconv.ParseUint(target, 10, 64)
		if err != nil {
			panic("bad cmap target " + target)
		}
		return cmAdapter{gws.NewConcurrentMap[string, int](n)}
	}
}

func keyName(k int) string { return "k" + strconv.Itoa(k) }
func keyNum(s string) int {
	n, err := strconv.Atoi(strings.TrimPrefix(s, "k"))
	if err != nil {
		return -1
	}
	return n
}

type kv struct{ k, v int }

func showEntries(es []kv) string {
	if len(es) == 0 {
		return "."
	}
	sort.Slice(es, func(i, j int) bool {
		if es[i].k != es[j].k {
			return es[i].k < es[j].k
		}
		return es[i].v < es[j].v
	})
	parts := make([]string, len(es))
	for i, e := range es {
		parts[i] = fmt.Sprintf("%d=%d", e.k, e.v)
	}
	return strings.Join(parts, "+")
}

// execCmap: `cmap <target> <op,op,…>`; ops: s<k>=<v> l<k> d<k> n r<N> R.  The real hash is randomly
// seeded and Go's map iteration order is random, so the output is canonical: Load/Len results
// directly; r<N> (callback returns false on its N-th invocation) -> "<calls>:<all visited entries are
// present with that value>:<no key repeated>"; R (full Range) -> sorted entries.  A final Len and a
// final full Range are appended to every case.
func execCmap(args []string) string {
	m := newMapTarget(args[0])
	var ops []string
	if args[1] != "." {
		ops = strings.Split(args[1], ",")
	}
	ops = append(ops, "n", "R")
	var outs []string
	for _, op := range ops {
		switch {
		case op == "n":
			outs = append(outs, strconv.Itoa(m.Len()))
		case op == "R":
			var es []kv
			m.Range(func(k string, v int) bool { es = append(es, kv{keyNum(k), v}); return true })
			outs = append(outs, showEntries(es))
		case op[0] == 's':
			parts := strings.SplitN(op[1:], "=", 2)
			k, _ := strconv.Atoi(parts[0])
			v, _ := strconv.Atoi(parts[1])
			m.Store(keyName(k), v)
		case op[0] == 'l':
			k, _ := strconv.Atoi(op[1:])
			if v, ok := m.Load(keyName(k)); ok {
				outs = append(outs, strconv.Itoa(v))
			} else {
				outs = append(outs, "-")
			}
		case op[0] == 'd':
			k, _ := strconv.Atoi(op[1:])
			m.Delete(keyName(k))
		case op[0] == 'r':
			n, _ := strconv.Atoi(op[1:])
			var seen []kv
			stopped, after := false, 0
			m.Range(func(k string, v int) bool {
				if stopped {
					after++
				}
				seen = append(seen, kv{keyNum(k), v})
				if len(seen) >= n {
					stopped = true
					return false
				}
				return true
			})
			if after > 0 {
				return "callback-invoked-after-false"
			}
			valid, norep := true, true
			ks := map[int]bool{}
			for _, e := range seen {
				if v, ok := m.Load(keyName(e.k)); !ok || v != e.v {
					valid = false
				}
				if ks[e.k] {
					norep = false
				}
				ks[e.k] = true
			}
			outs = append(outs, fmt.Sprintf("%d:%s:%s", len(seen), b2s(valid), b2s(norep)))
		default:
			return "bad-op cmap-step-disabled"
		}
	}
	return strings.Join(outs, ";")
}

func genCmap(g *Gen) {
	// exhaustive: every sequence of the given depth over 3 keys; stored values are position-dependent
	// so that overwrites are visible.  Each sequence runs on one target (round-robin) in the quick
	// tier and additionally on every target at depth-1 in the thorough tier.
	alphabet := []string{"s0", "s1", "s2", "l0", "l1", "l2", "d0", "d1", "d2", "n", "r1", "r2", "R"}
	emitSeq := func(target string, seq []string) {
		toks := make([]string, len(seq))
		for i, a := range seq {
			if a[0] == 's' {
				toks[i] = fmt.Sprintf("%s=%d", a, 10*(i+1)+int(a[1]-'0'))
			} else {
				toks[i] = a
			}
		}
		ops := "."
		if len(toks) > 0 {
			ops = strings.Join(toks, ",")
		}
		g.Emit("cmap %s %s", target, ops)
	}
	rr := 0
	var rec func(depth int, prefix []string, all bool)
	rec = func(depth int, prefix []string, all bool) {
		if len(prefix) == depth {
			if all {
				for _, t := range cmapTargets {
					emitSeq(t, prefix)
				}
			} else {
				emitSeq(cmapTargets[rr%len(cmapTargets)], prefix)
				rr++
			}
			return
		}
		for _, a := range alphabet {
			rec(depth, append(prefix, a), all)
		}
	}
	for _, t := range cmapTargets {
		emitSeq(t, nil)
	}
	rec(2, nil, true)
	rec(3, nil, true)
	if g.Thorough() {
		rec(4, nil, true)
		rec(5, nil, false)
	} else {
		rec(4, nil, false)
	}
	// random long sequences: more keys than shards for the small shard counts, every kind of operation
	for i := 0; i < g.pick(400, 4000); i++ {
		target := cmapTargets[g.R.Intn(len(cmapTargets))]
		nkeys := 1 + g.R.Intn(g.pick(8, 40))
		n := 10 + g.R.Intn(g.pick(50, 150))
		toks := make([]string, n)
		for j := range toks {
			k := g.R.Intn(nkeys)
			if g.R.Intn(10) == 0 {
				k = 1000 + g.R.Intn(100000) // sparse large keys (other residues mod 128 in the model)
			}
			switch r := g.R.Intn(20); {
			case r < 8:
				toks[j] = fmt.Sprintf("s%d=%d", k, g.R.Intn(1000))
			case r < 12:
				toks[j] = fmt.Sprintf("l%d", k)
			case r < 16:
				toks[j] = fmt.Sprintf("d%d", k)
			case r < 17:
				toks[j] = "n"
			case r < 19:
				toks[j] = fmt.Sprintf("r%d", 1+g.R.Intn(nkeys+2))
			default:
				toks[j] = "R"
			}
		}
		g.Emit("cmap %s %s", target, strings.Join(toks, ","))
	}
}

// ---- cmapconc: concurrent histories (validation of the atomicity assumption) ---------------------

type regIn struct {
	kind byte // 's' store, 'd' delete, 'l' load
	key  int
	val  int
}
type regOut struct {
	val int
	ok  bool
}

// registerModel: per key, a register holding "absent" (-1) or a value; the same spec as the Lean
// `Spec` map restricted to one key.
var registerModel = porcupine.Model{
	Partition: func(history []porcupine.Operation) [][]porcupine.Operation {
		byKey := map[int][]porcupine.Operation{}
		var keys []int
		for _, op := range history {
			k := op.Input.(regIn).key
			if _, ok := byKey[k]; !ok {
				keys = append(keys, k)
			}
			byKey[k] = append(byKey[k], op)
		}
		sort.Ints(keys)
		out := make([][]porcupine.Operation, 0, len(keys))
		for _, k := range keys {
			out = append(out, byKey[k])
		}
		return out
	},
	Init: func() interface{} { return -1 },
	Step: func(state, input, output interface{}) (bool, interface{}) {
		st, in := state.(int), input.(regIn)
		switch in.kind {
		case 's':
			return true, in.val
		case 'd':
			return true, -1
		default:
			out := output.(regOut)
			if st == -1 {
				return !out.ok, st
			}
			return out.ok && out.val == st, st
		}
	},
	Equal: func(a, b interface{}) bool { return a.(int) == b.(int) },
}

var linTimeout = 2 * time.Second

// maxWriters: number of goroutines allowed to Store/Delete a given hot key (every goroutine loads every
// key).  Deciding linearizability is exponential in the number of simultaneously pending writes.
var maxWriters = 3

// registerLinearizable decides linearizability of the history of ONE key against the register spec
// (store v / delete / load -> value or absent; initially absent).
//
// Only the positions of the writes' linearization points relative to the call/return events matter:
// given those, a load is satisfiable iff the register holds its value at some moment between its call
// and its return ("eager reads").  Writes can be delayed, without loss of generality, until just before
// the return of an operation that needs them (a write about to return unlinearized, or an unsatisfied
// load about to return), and the batch linearized at such a moment can be taken to end with the needed
// write.  So the search branches only over the ordered subset of the other pending writes that is
// flushed before the needed one; with at most maxWriters writers per key that is at most 5 choices.
// Failed states are memoized.
func registerLinearizable(history []porcupine.Operation) bool {
	type rop struct {
		write bool
		val   int // value written, or value expected by the load; -1 = absent
	}
	type ev struct {
		t   int64
		ret bool
		op  int
	}
	ops := make([]rop, len(history))
	evs := make([]ev, 0, 2*len(history))
	for i, h := range history {
		in := h.Input.(regIn)
		switch in.kind {
		case 's':
			ops[i] = rop{true, in.val}
		case 'd':
			ops[i] = rop{true, -1}
		default:
			out := h.Output.(regOut)
			if out.ok {
				ops[i] = rop{false, out.val}
			} else {
				ops[i] = rop{false, -1}
			}
		}
		evs = append(evs, ev{h.Call, false, i}, ev{h.Return, true, i})
	}
	sort.Slice(evs, func(a, b int) bool {
		if evs[a].t != evs[b].t {
			return evs[a].t < evs[b].t
		}
		return !evs[a].ret && evs[b].ret // equal instants: treat the operations as overlapping
	})
	without := func(l []int, x int) []int {
		out := make([]int, 0, len(l))
		for _, y := range l {
			if y != x {
				out = append(out, y)
			}
		}
		return out
	}
	contains := func(l []int, x int) bool {
		for _, y := range l {
			if y == x {
				return true
			}
		}
		return false
	}
	// apply linearizes write w: the register takes its value and every pending load of that value is satisfied
	apply := func(cur int, P, Q []int, w int) (int, []int, []int) {
		cur = ops[w].val
		nq := make([]int, 0, len(Q))
		for _, r := range Q {
			if ops[r].val != cur {
				nq = append(nq, r)
			}
		}
		return cur, without(P, w), nq
	}
	failed := map[string]bool{}
	var dfs func(i, cur int, P, Q []int) bool
	// batches tries every ordered subset of P \ {needed} followed by needed, then continues after event i
	var batches func(i, cur int, P, Q []int, needed int, rest []int) bool
	batches = func(i, cur int, P, Q []int, needed int, rest []int) bool {
		c2, p2, q2 := apply(cur, P, Q, needed)
		if dfs(i+1, c2, p2, q2) {
			return true
		}
		for _, w := range rest {
			c1, p1, q1 := apply(cur, P, Q, w)
			if batches(i, c1, p1, q1, needed, without(rest, w)) {
				return true
			}
		}
		return false
	}
	dfs = func(i, cur int, P, Q []int) bool {
		for ; i < len(evs); i++ {
			e := evs[i]
			o := ops[e.op]
			if !e.ret {
				if o.write {
					P = append(append([]int(nil), P...), e.op)
				} else if o.val != cur {
					Q = append(append([]int(nil), Q...), e.op)
				}
				continue
			}
			var needed []int
			if o.write {
				if !contains(P, e.op) {
					continue // linearized earlier
				}
				needed = []int{e.op}
			} else {
				if !contains(Q, e.op) {
					continue // satisfied earlier
				}
				for _, w := range P {
					if ops[w].val == o.val {
						needed = append(needed, w)
					}
				}
				if len(needed) == 0 {
					return false
				}
			}
			key := fmt.Sprint(i, cur, P, Q)
			if failed[key] {
				return false
			}
			for _, n := range needed {
				if batches(i, cur, P, Q, n, without(P, n)) {
					return true
				}
			}
			failed[key] = true
			return false
		}
		return true
	}
	return dfs(0, -1, nil, nil)
}

type span struct{ call, ret int64 }

type mutOp struct {
	span
	store bool
	key   int
	val   int
}
type lenObs struct {
	span
	n int
}
type rangeObs struct {
	span
	stopAfter  int // 0 = never stop
	seen       []kv
	afterFalse int
}

// execCmapConc: `cmapconc <target> <goroutines> <hotKeys> <opsPerGoroutine> <seed>`.
//
// Keys 0..hot-1 are hammered by every goroutine; keys 100..103 are stored before the concurrent phase
// and never modified afterwards ("untouched entries"); keys 200.. are never stored.  Call and return
// instants are ticks of one atomic counter, so "A returned before B was called" in the recorded
// history implies the same in real time.
func execCmapConc(args []string) string {
	if args[0] == "park" {
		return execCmapPark(args[1:])
	}
	target := args[0]
	ng, _ := strconv.Atoi(args[1])
	hot, _ := strconv.Atoi(args[2])
	per, _ := strconv.Atoi(args[3])
	seed, _ := strconv.ParseUint(args[4], 10, 64)
	m := newMapTarget(target)

	stable := []kv{{100, 1100}, {101, 1101}, {102, 1102}, {103, 1103}}
	for _, e := range stable {
		m.Store(keyName(e.k), e.v)
	}
	var clock int64
	tick := func() int64 { return atomic.AddInt64(&clock, 1) }

	type glog struct {
		ops    []porcupine.Operation
		muts   []mutOp
		lens   []lenObs
		ranges []rangeObs
	}
	logs := make([]glog, ng)
	var wg sync.WaitGroup
	start := make(chan struct{})
	for gi := 0; gi < ng; gi++ {
		wg.Add(1)
		go func(gi int) {
			defer wg.Done()
			r := NewRand(seed*1000003 + uint64(gi)*7919 + 1)
			lg := &logs[gi]
			<-start
			for i := 0; i < per; i++ {
				k := r.Intn(hot)
				c := r.Intn(20)
				if c < 10 && (gi+k)%ng >= maxWriters {
					c = 10 + r.Intn(10) // not a writer of this key: load / Len / Range instead
				}
				switch {
				case c < 6:
					v := gi*100000 + i + 1 // unique per store
					c0 := tick()
					m.Store(keyName(k), v)
					c1 := tick()
					lg.ops = append(lg.ops, porcupine.Operation{ClientId: gi, Input: regIn{'s', k, v}, Call: c0, Output: regOut{}, Return: c1})
					lg.muts = append(lg.muts, mutOp{span{c0, c1}, true, k, v})
				case c < 10:
					c0 := tick()
					m.Delete(keyName(k))
					c1 := tick()
					lg.ops = append(lg.ops, porcupine.Operation{ClientId: gi, Input: regIn{'d', k, 0}, Call: c0, Output: regOut{}, Return: c1})
					lg.muts = append(lg.muts, mutOp{span{c0, c1}, false, k, 0})
				case c < 16:
					if r.Intn(8) == 0 {
						k = []int{100, 101, 102, 103, 200, 201}[r.Intn(6)]
					}
					c0 := tick()
					v, ok := m.Load(keyName(k))
					c1 := tick()
					lg.ops = append(lg.ops, porcupine.Operation{ClientId: gi, Input: regIn{'l', k, 0}, Call: c0, Output: regOut{v, ok}, Return: c1})
				case c < 18:
					c0 := tick()
					n := m.Len()
					c1 := tick()
					lg.lens = append(lg.lens, lenObs{span{c0, c1}, n})
				default:
					ro := rangeObs{}
					if r.Intn(3) == 0 {
						ro.stopAfter = 1 + r.Intn(5)
					}
					stopped := false
					ro.call = tick()
					m.Range(func(k string, v int) bool {
						if stopped {
							ro.afterFalse++
						}
						ro.seen = append(ro.seen, kv{keyNum(k), v})
						// yield while the shard's lock is held: the other goroutines run into this
						// section and meanwhile work on the other shards
						runtime.Gosched()
						if ro.stopAfter > 0 && len(ro.seen) >= ro.stopAfter {
							stopped = true
							return false
						}
						return true
					})
					ro.ret = tick()
					lg.ranges = append(lg.ranges, ro)
				}
			}
		}(gi)
	}
	close(start)
	wg.Wait()

	var ops []porcupine.Operation
	var muts []mutOp
	var lens []lenObs
	var ranges []rangeObs
	// the initial stores of the untouched entries are part of the register histories
	for i, e := range stable {
		ops = append(ops, porcupine.Operation{ClientId: ng, Input: regIn{'s', e.k, e.v}, Call: int64(-2*len(stable) + 2*i), Output: regOut{}, Return: int64(-2*len(stable) + 2*i + 1)})
	}
	for i := range logs {
		ops = append(ops, logs[i].ops...)
		muts = append(muts, logs[i].muts...)
		lens = append(lens, logs[i].lens...)
		ranges = append(ranges, logs[i].ranges...)
	}
	return checkConcHistory(ops, muts, lens, ranges, stable, hot)
}

// checkConcHistory returns "ok" or a description of the first violation.
func checkConcHistory(ops []porcupine.Operation, muts []mutOp, lens []lenObs, ranges []rangeObs, stable []kv, hot int) string {
	// (a) per-key linearizability against the register spec.  porcupine decides it when it can within
	// linTimeout (its search is exponential in the number of simultaneously pending operations and a
	// goroutine that yields inside a Range callback makes all the others pile up); the register-specific
	// checker below always decides, and the two must never contradict each other.
	own := true
	for _, part := range registerModel.Partition(ops) {
		if !registerLinearizable(part) {
			own = false
		}
	}
	switch porcupine.CheckOperationsTimeout(registerModel, ops, linTimeout) {
	case porcupine.Illegal:
		if own {
			return "linearizability-checkers-disagree porcupine=illegal own=ok"
		}
		return "not-linearizable"
	case porcupine.Ok:
		if !own {
			return "linearizability-checkers-disagree porcupine=ok own=illegal"
		}
	default:
		if !own {
			return "not-linearizable"
		}
	}
	byKey := map[int][]mutOp{}
	for _, mo := range muts {
		byKey[mo.key] = append(byKey[mo.key], mo)
	}
	// For a hot key and an observation interval iv, what can be said from the outside:
	//  mustPresent: some store returned before iv.call and every delete lies entirely before that
	//               store's call or entirely after iv.ret;
	//  mustAbsent:  the key starts absent or some delete returned before iv.call, and every store lies
	//               entirely before that delete's call (resp. there is none) or entirely after iv.ret.
	mustPresent := func(k int, iv span) bool {
		for _, s := range byKey[k] {
			if !s.store || s.ret >= iv.call {
				continue
			}
			good := true
			for _, d := range byKey[k] {
				if d.store {
					continue
				}
				if !(d.ret < s.call || d.call > iv.ret) {
					good = false
					break
				}
			}
			if good {
				return true
			}
		}
		return false
	}
	mustAbsent := func(k int, iv span) bool {
		anchors := []span{{-1 << 40, -1 << 40}} // the initial absence
		for _, d := range byKey[k] {
			if !d.store && d.ret < iv.call {
				anchors = append(anchors, d.span)
			}
		}
		for _, a := range anchors {
			good := true
			for _, s := range byKey[k] {
				if !s.store {
					continue
				}
				if !(s.ret < a.call || s.call > iv.ret) {
					good = false
					break
				}
			}
			if good {
				return true
			}
		}
		return false
	}
	// (b) Len bounds: the result is a sum over the keys of a presence bit sampled at some instant of
	// the call's interval (size at the call − overlapping removals ≤ result ≤ size at the call +
	// overlapping insertions, stated per key because the order of overlapping sections is unobservable).
	for _, l := range lens {
		lo, hi := len(stable), len(stable)
		for k := 0; k < hot; k++ {
			if mustPresent(k, l.span) {
				lo++
			}
			if !mustAbsent(k, l.span) {
				hi++
			}
		}
		if l.n < lo || l.n > hi {
			return fmt.Sprintf("len-out-of-bounds got=%d lo=%d hi=%d", l.n, lo, hi)
		}
	}
	// (c) Range: no key twice; nothing after the callback returned false; at most stopAfter calls;
	// every value passed was really stored (and not before the key was certainly overwritten or after
	// the call returned); a Range that was not told to stop passes every untouched entry exactly once
	// and every hot key that is certainly present throughout.
	for _, r := range ranges {
		if r.afterFalse > 0 {
			return "range-callback-after-false"
		}
		if r.stopAfter > 0 && len(r.seen) > r.stopAfter {
			return "range-too-many-calls"
		}
		seen := map[int]int{}
		for _, e := range r.seen {
			if _, dup := seen[e.k]; dup {
				return fmt.Sprintf("range-key-twice key=%d", e.k)
			}
			seen[e.k] = e.v
			if e.k >= 100 {
				okv := false
				for _, s := range stable {
					if s == e {
						okv = true
					}
				}
				if !okv {
					return fmt.Sprintf("range-phantom-entry %d=%d", e.k, e.v)
				}
				continue
			}
			okv := false
			for _, s := range byKey[e.k] {
				if s.store && s.val == e.v && s.call < r.ret {
					okv = true
				}
			}
			if !okv {
				return fmt.Sprintf("range-phantom-entry %d=%d", e.k, e.v)
			}
			if mustAbsent(e.k, r.span) {
				return fmt.Sprintf("range-visited-absent-key key=%d", e.k)
			}
		}
		if r.stopAfter == 0 {
			for _, s := range stable {
				if v, ok := seen[s.k]; !ok || v != s.v {
					return fmt.Sprintf("range-missed-untouched-entry key=%d", s.k)
				}
			}
			for k := 0; k < hot; k++ {
				if _, ok := seen[k]; !ok && mustPresent(k, r.span) {
					return fmt.Sprintf("range-missed-present-key key=%d", k)
				}
			}
		} else if len(r.seen) < r.stopAfter && len(r.seen) < len(stable) {
			return "range-stopped-early"
		}
	}
	return "ok"
}

func genCmapConc(g *Gen) {
	genCmapPark(g)
	n := g.pick(24, 1500)
	for i := 0; i < n; i++ {
		target := []string{"def", "smap", "1", "2", "3", "16", "100", "0"}[i%8]
		ng := []int{8, 16, 32, 12}[g.R.Intn(4)]
		hot := 1 + g.R.Intn(4)
		total := 200 + g.R.Intn(g.pick(300, 700))
		g.Emit("cmapconc %s %d %d %d %d", target, ng, hot, total/ng+1, g.R.Intn(1<<30))
	}
}

// execCmapPark: `cmapconc park <target> <nkeys> <initmask> <op,op,…>`; ops: s<i>=<v> d<i> l<i> n over the
// key indices 0..nkeys-1, which at run time are mapped to key strings that share one shard (and so
// one lock).  A Range is parked inside its callback, i.e. while it holds that lock; the operations
// are then issued one after the other, each on its own goroutine, and all of them queue on the lock
// (Len queues there too: it takes every shard's lock).  None of them returns before the Range is
// released, so they are pairwise concurrent and *every* order of them is a legal linearization; the
// driver accepts the observation (each operation's result, then the quiescent Load/Len/Range) iff
// some order explains it.
func execCmapPark(args []string) string {
	target := args[0]
	nkeys, _ := strconv.Atoi(args[1])
	initmask, _ := strconv.Atoi(args[2])
	toks := strings.Split(args[3], ",")
	m := newMapTarget(target)

	keys := []string{"p-0"}
	if cm, ok := m.(cmAdapter); ok {
		for i := 1; len(keys) < nkeys; i++ {
			k := "p-" + strconv.Itoa(i)
			if cm.m.GetSharding(k) == cm.m.GetSharding(keys[0]) {
				keys = append(keys, k)
			}
		}
	} else {
		for i := 1; len(keys) < nkeys; i++ {
			keys = append(keys, "p-"+strconv.Itoa(i))
		}
	}
	idx := map[string]int{}
	for i, k := range keys {
		idx[k] = i
		if initmask&(1<<i) != 0 {
			m.Store(k, 10+i)
		}
	}

	entered, release, rangeDone := make(chan struct{}), make(chan struct{}), make(chan struct{})
	go func() {
		defer close(rangeDone)
		first := true
		m.Range(func(k string, v int) bool {
			if first {
				first = false
				close(entered)
				<-release
			}
			return false
		})
	}()
	select {
	case <-entered:
	case <-time.After(5 * time.Second):
		return "range-did-not-start"
	}

	res := make([]string, len(toks))
	dones := make([]chan struct{}, len(toks))
	for i, tok := range toks {
		i, tok := i, tok
		dones[i] = make(chan struct{})
		go func() {
			defer close(dones[i])
			res[i] = "_"
			switch tok[0] {
			case 's':
				kvs := strings.SplitN(tok[1:], "=", 2)
				k, _ := strconv.Atoi(kvs[0])
				v, _ := strconv.Atoi(kvs[1])
				m.Store(keys[k], v)
			case 'd':
				k, _ := strconv.Atoi(tok[1:])
				m.Delete(keys[k])
			case 'l':
				k, _ := strconv.Atoi(tok[1:])
				if v, ok := m.Load(keys[k]); ok {
					res[i] = strconv.Itoa(v)
				} else {
					res[i] = "-"
				}
			case 'n':
				res[i] = strconv.Itoa(m.Len())
			}
		}()
		select {
		case <-dones[i]:
			return "done\tnot-blocked:" + tok // it returned although the lock is held
		case <-time.After(4 * time.Millisecond):
		}
	}
	close(release)
	for _, ch := range append(dones, rangeDone) {
		select {
		case <-ch:
		case <-time.After(5 * time.Second):
			return "operation-did-not-return"
		}
	}
	var final, ranged []kv
	for i, k := range keys {
		if v, ok := m.Load(k); ok {
			final = append(final, kv{i, v})
		}
	}
	m.Range(func(k string, v int) bool {
		i, ok := idx[k]
		if !ok {
			i = 99
		}
		ranged = append(ranged, kv{i, v})
		return true
	})
	return fmt.Sprintf("done\t%s;F=%s;L=%d;R=%s", strings.Join(res, "|"), showEntries(final), m.Len(), showEntries(ranged))
}

func genCmapPark(g *Gen) {
	n := g.pick(60, 600)
	for i := 0; i < n; i++ {
		target := []string{"def", "smap", "1", "2", "16", "100"}[i%6]
		nkeys := 2 + g.R.Intn(3)
		initmask := 1 + g.R.Intn(1<<nkeys-1)
		nops := 2 + g.R.Intn(3)
		var ops []string
		for j := 0; j < nops; j++ {
			k := g.R.Intn(nkeys)
			switch c := g.R.Intn(10); {
			case c < 4:
				ops = append(ops, fmt.Sprintf("s%d=%d", k, 20+j))
			case c < 8:
				ops = append(ops, fmt.Sprintf("d%d", k))
			case c < 9:
				ops = append(ops, fmt.Sprintf("l%d", k))
			default:
				ops = append(ops, "n")
			}
		}
		if i%3 == 0 { // the shard is drained while later operations are queued on its lock
			b := g.R.Intn(nkeys)
			initmask = 1 << b
			ops[0] = fmt.Sprintf("d%d", b)
		}
		g.Emit("cmapconc park %s %d %d %s", target, nkeys, initmask, strings.Join(ops, ","))
	}
}
