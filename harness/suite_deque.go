package main

import (
	"fmt"
	"strconv"
	"strings"

	"github.com/lxzan/gws"
)

// Suite "deque" (C20): the arena-backed deque of internal/deque.go against the Lean model.
//
//	deque <init> <op>,<op>,…          <init> = zero | new:<capacity>
//	ops: pb:V pf:V popf popb ia:V:ID ib:V:ID tf:ID tb:ID up:ID:V rm:ID reset clone use:K rg:N
//
// IDs are the 0-based ordinal (over the whole case) of the push/insert that created the element; the
// id→handle maps are per instance and copied by clone. The generators keep a plain slice model so that
// only live IDs are referenced. Output format: see lean/Driver/Deque.lean (slot addresses included).
func init() {
	register(&Suite{Name: "deque", Gen: genDeque, Exec: execDeque})
}

// ---- executing one case on the real deque ---------------------------------------------------------

// The element and pointer types live in an internal package and cannot be named here; values of those
// types are obtained by inference and converted through the generic helpers below.
var dqProtoPtr = gws.VerifNewDeque(1).PushBack(0).Addr()

func dqConv[P ~uint32](proto P, u uint32) P { return P(u) }
func dqSliceOf[T any](x T) []T              { return []T{x} }

// dqRange calls a deque's Range method with a callback that sees value and address of each element.
func dqRange[P ~uint32, E interface {
	Value() int
	Addr() P
}](proto P, rng func(func(E) bool), visit func(v int, a uint32) bool) {
	rng(func(e E) bool { return visit(e.Value(), uint32(e.Addr())) })
}

func execDeque(args []string) (out string) {
	var toks []string
	defer func() {
		// a panic inside the library: the output ends with the token "panic"
		if e := recover(); e != nil {
			if _, ok := e.(dqBadCase); ok {
				panic(e)
			}
			toks = append(toks, "panic")
			out = strings.Join(toks, " ")
		}
	}()
	d0 := gws.VerifZeroDeque()
	switch {
	case args[0] == "zero":
	case strings.HasPrefix(args[0], "new:"):
		c, err := strconv.Atoi(args[0][4:])
		if err != nil {
			panic(dqBadCase("init " + args[0]))
		}
		d0 = gws.VerifNewDeque(c)
	default:
		panic(dqBadCase("init " + args[0]))
	}
	ds := dqSliceOf(d0)
	hs := []map[int]uint32{{}}
	cur, next := 0, 0
	atoi := func(s string) int {
		n, err := strconv.Atoi(s)
		if err != nil {
			panic(dqBadCase("number " + s))
		}
		return n
	}
	dump := func(k int) string {
		d := ds[k]
		var items []string
		dqRange(dqProtoPtr, d.Range, func(v int, a uint32) bool {
			items = append(items, fmt.Sprintf("%d@%d", v, a))
			return true
		})
		seq := "-"
		if len(items) > 0 {
			seq = strings.Join(items, ",")
		}
		front, back := "-", "-"
		if e := d.Front(); e != nil {
			front = strconv.Itoa(e.Value())
		}
		if e := d.Back(); e != nil {
			back = strconv.Itoa(e.Value())
		}
		return fmt.Sprintf("#%d len=%d seq=%s front=%s back=%s", k, d.Len(), seq, front, back)
	}
	var ops []string
	if len(args) > 1 && args[1] != "." {
		ops = strings.Split(args[1], ",")
	}
	for i, op := range ops {
		f := strings.Split(op, ":")
		d, h := ds[cur], hs[cur]
		handle := func(id int) uint32 { return h[id] } // 0 (Nil) for an unknown id
		created := func(a uint32) {
			h[next] = a
			next++
			toks = append(toks, "@"+strconv.FormatUint(uint64(a), 10))
		}
		switch {
		case f[0] == "pb" && len(f) == 2:
			created(uint32(d.PushBack(atoi(f[1])).Addr()))
		case f[0] == "pf" && len(f) == 2:
			created(uint32(d.PushFront(atoi(f[1])).Addr()))
		case f[0] == "popf" && len(f) == 1:
			toks = append(toks, strconv.Itoa(d.PopFront()))
		case f[0] == "popb" && len(f) == 1:
			toks = append(toks, strconv.Itoa(d.PopBack()))
		case f[0] == "ia" && len(f) == 3:
			created(uint32(d.InsertAfter(atoi(f[1]), dqConv(dqProtoPtr, handle(atoi(f[2])))).Addr()))
		case f[0] == "ib" && len(f) == 3:
			created(uint32(d.InsertBefore(atoi(f[1]), dqConv(dqProtoPtr, handle(atoi(f[2])))).Addr()))
		case f[0] == "tf" && len(f) == 2:
			d.MoveToFront(dqConv(dqProtoPtr, handle(atoi(f[1]))))
			toks = append(toks, "-")
		case f[0] == "tb" && len(f) == 2:
			d.MoveToBack(dqConv(dqProtoPtr, handle(atoi(f[1]))))
			toks = append(toks, "-")
		case f[0] == "up" && len(f) == 3:
			d.Update(dqConv(dqProtoPtr, handle(atoi(f[1]))), atoi(f[2]))
			toks = append(toks, "-")
		case f[0] == "rm" && len(f) == 2:
			d.Remove(dqConv(dqProtoPtr, handle(atoi(f[1]))))
			toks = append(toks, "-")
		case f[0] == "reset" && len(f) == 1:
			d.Reset()
			toks = append(toks, "-")
		case f[0] == "clone" && len(f) == 1:
			nh := make(map[int]uint32, len(h))
			for k, v := range h {
				nh[k] = v
			}
			toks = append(toks, "+"+strconv.Itoa(len(ds)))
			ds = append(ds, d.Clone())
			hs = append(hs, nh)
		case f[0] == "use" && len(f) == 2:
			k := atoi(f[1])
			if k < 0 || k >= len(ds) {
				panic(dqBadCase("instance " + f[1]))
			}
			cur = k
			toks = append(toks, "-")
		case f[0] == "rg" && len(f) == 2:
			n, cnt := atoi(f[1]), 0
			vis := []string{}
			dqRange(dqProtoPtr, d.Range, func(v int, _ uint32) bool {
				if cnt >= n {
					return false
				}
				vis = append(vis, strconv.Itoa(v))
				cnt++
				return true
			})
			toks = append(toks, "["+strings.Join(vis, ",")+"]")
		default:
			panic(dqBadCase("op " + op))
		}
		if (i+1)%8 == 0 {
			toks = append(toks, dump(cur))
		}
	}
	for k := range ds {
		toks = append(toks, dump(k))
	}
	return strings.Join(toks, " ")
}

type dqBadCase string

// ---- generators ------------------------------------------------------------------------------------

type dqEl struct{ id, val int }

type dqModel struct {
	insts [][]dqEl
	cur   int
	next  int
}

func (m *dqModel) clone() *dqModel {
	c := &dqModel{cur: m.cur, next: m.next}
	for _, s := range m.insts {
		c.insts = append(c.insts, append([]dqEl(nil), s...))
	}
	return c
}

func (m *dqModel) index(id int) int {
	for i, e := range m.insts[m.cur] {
		if e.id == id {
			return i
		}
	}
	panic("deque generator referenced a dead id")
}

func dqInsert(s []dqEl, i int, e dqEl) []dqEl {
	s = append(s, dqEl{})
	copy(s[i+1:], s[i:])
	s[i] = e
	return s
}

// apply updates the slice model for one (valid) operation.
func (m *dqModel) apply(op string) {
	f := strings.Split(op, ":")
	n := func(i int) int { v, _ := strconv.Atoi(f[i]); return v }
	s := m.insts[m.cur]
	switch f[0] {
	case "pb":
		s = append(s, dqEl{m.next, n(1)})
		m.next++
	case "pf":
		s = dqInsert(s, 0, dqEl{m.next, n(1)})
		m.next++
	case "popf":
		if len(s) > 0 {
			s = s[1:]
		}
	case "popb":
		if len(s) > 0 {
			s = s[:len(s)-1]
		}
	case "ia":
		s = dqInsert(s, m.index(n(2))+1, dqEl{m.next, n(1)})
		m.next++
	case "ib":
		s = dqInsert(s, m.index(n(2)), dqEl{m.next, n(1)})
		m.next++
	case "tf":
		i := m.index(n(1))
		e := s[i]
		s = append(s[:i:i], s[i+1:]...)
		s = dqInsert(s, 0, e)
	case "tb":
		i := m.index(n(1))
		e := s[i]
		s = append(s[:i:i], s[i+1:]...)
		s = append(s, e)
	case "up":
		s = append([]dqEl(nil), s...)
		s[m.index(n(1))].val = n(2)
	case "rm":
		i := m.index(n(1))
		s = append(s[:i:i], s[i+1:]...)
	case "reset":
		s = nil
	case "clone":
		m.insts = append(m.insts, append([]dqEl(nil), s...))
	case "use":
		m.cur = n(1)
		return
	case "rg":
	}
	m.insts[m.cur] = s
}

// dqAlphabet lists the operations tried at one node of the exhaustive enumeration. Handles are drawn
// from the first, last and a middle live element; values are distinct per position in the case.
func dqAlphabet(m *dqModel, depth int, last bool) []string {
	s := m.insts[m.cur]
	v := 11 + depth
	ops := []string{fmt.Sprintf("pb:%d", v), fmt.Sprintf("pf:%d", v), "popf", "popb"}
	pos := dedupInts([]int{0, len(s) - 1, len(s) / 2})
	for _, p := range pos {
		if p >= len(s) {
			continue
		}
		id := s[p].id
		ops = append(ops, fmt.Sprintf("ia:%d:%d", v, id), fmt.Sprintf("ib:%d:%d", v, id),
			fmt.Sprintf("tf:%d", id), fmt.Sprintf("tb:%d", id), fmt.Sprintf("rm:%d", id))
	}
	if len(s) > 0 {
		ops = append(ops, fmt.Sprintf("up:%d:%d", s[len(s)/2].id, v))
	}
	ops = append(ops, "reset") // also as the first operation on a zero value and on clones of one
	if len(m.insts) < 2 {
		ops = append(ops, "clone")
	}
	for k := range m.insts {
		if k != m.cur {
			ops = append(ops, fmt.Sprintf("use:%d", k))
		}
	}
	if last { // Range does not change the state: only worth trying as the last operation
		ops = append(ops, "rg:1", "rg:99")
	}
	return ops
}

func dqNewModel() *dqModel { return &dqModel{insts: [][]dqEl{nil}} }

// dqEnumerate walks every operation sequence of exactly `depth` operations and calls leaf for each.
func dqEnumerate(depth int, leaf func(ops []string)) {
	var rec func(m *dqModel, prefix []string)
	rec = func(m *dqModel, prefix []string) {
		if len(prefix) == depth {
			leaf(prefix)
			return
		}
		for _, op := range dqAlphabet(m, len(prefix), len(prefix) == depth-1) {
			c := m.clone()
			c.apply(op)
			rec(c, append(prefix[:len(prefix):len(prefix)], op))
		}
	}
	rec(dqNewModel(), nil)
}

func genDeque(g *Gen) {
	// 1. exhaustive: every sequence of D operations over the alphabet above (a sequence covers all its
	// prefixes because every operation's result is part of the output); if there are more than the
	// budget, every sequence of D-1 operations and every stride-th one of D (offset chosen by the seed).
	depth := g.pick(5, 6)
	for _, init := range []string{"zero", "new:0"} {
		budget := g.pick(150000, 600000)
		if init != "zero" { // same sequences as from the zero value; only the slot array starts allocated
			budget = g.pick(50000, 600000)
		}
		total := 0
		dqEnumerate(depth, func([]string) { total++ })
		stride := (total + budget - 1) / budget
		levels := []int{depth}
		if stride > 1 {
			levels = []int{depth - 1, depth}
		}
		for _, dd := range levels {
			st := 1
			if dd == depth {
				st = stride
			}
			off, i := g.R.Intn(st), 0
			dqEnumerate(dd, func(ops []string) {
				if i%st == off {
					g.Emit("deque %s %s", init, strings.Join(ops, ","))
					g.Count(fmt.Sprintf("exhaustive-%s-depth%d", init, dd))
				}
				i++
			})
		}
	}
	// 2. random long sequences: growth, slot reuse after removal, auto-reset on becoming empty,
	// clone-then-diverge.
	n, maxOps := g.pick(200, 1000), g.pick(300, 5000)
	for i := 0; i < n; i++ {
		init := "zero"
		if g.R.Intn(2) == 0 {
			init = fmt.Sprintf("new:%d", g.R.Intn(9))
		}
		g.Emit("deque %s %s", init, strings.Join(dqRandomOps(g, 1+g.R.Intn(maxOps)), ","))
		g.Count("random")
	}
	// 3. bursts: a large free list that survives (the deque never becomes empty) and is drained again
	for i := 0; i < g.pick(12, 60); i++ {
		g.Emit("deque %s %s", []string{"zero", "new:4"}[g.R.Intn(2)], strings.Join(dqBurstOps(g), ","))
		g.Count("burst")
	}
}

// dqBurstOps: a burst — many elements pushed, most of them removed by handle without the deque ever becoming empty (so the
// free-slot stack grows large and is NOT cleared by the automatic reset), then new pushes that drain the free list again:
// every slot handed out must be a fresh one or one that was really freed, whatever the stack does with its storage.
func dqBurstOps(g *Gen) []string {
	m := dqNewModel()
	var ops []string
	do := func(op string) { m.apply(op); ops = append(ops, op) }
	n := 70 + g.R.Intn(260)
	for i := 0; i < n; i++ {
		if g.R.Intn(4) == 0 {
			do(fmt.Sprintf("pf:%d", g.R.Intn(1000)))
		} else {
			do(fmt.Sprintf("pb:%d", g.R.Intn(1000)))
		}
	}
	keep := 1 + g.R.Intn(n/4)
	for len(m.insts[m.cur]) > keep {
		s := m.insts[m.cur]
		switch g.R.Intn(6) {
		case 0:
			do("popf")
		case 1:
			do("popb")
		default:
			do(fmt.Sprintf("rm:%d", s[g.R.Intn(len(s))].id))
		}
	}
	refill := (n-keep)/2 + g.R.Intn(n)
	for i := 0; i < refill; i++ {
		s := m.insts[m.cur]
		switch g.R.Intn(5) {
		case 0:
			do(fmt.Sprintf("ia:%d:%d", g.R.Intn(1000), s[g.R.Intn(len(s))].id))
		case 1:
			do(fmt.Sprintf("ib:%d:%d", g.R.Intn(1000), s[g.R.Intn(len(s))].id))
		default:
			do(fmt.Sprintf("pb:%d", g.R.Intn(1000)))
		}
		if i%16 == 0 {
			do(fmt.Sprintf("rg:%d", 3))
		}
	}
	do(fmt.Sprintf("rg:%d", len(m.insts[m.cur])+1))
	for len(m.insts[m.cur]) > 0 && g.R.Intn(40) != 0 {
		do("popf")
	}
	return ops
}

// dqRandomOps produces one random sequence. It runs in phases (grow / shrink / churn) whose mix of
// operations drifts the length up, down to empty, or keeps it level, so that every case passes through
// growth of the slot array, recycling of removed slots and the automatic reset.
func dqRandomOps(g *Gen, count int) []string {
	m := dqNewModel()
	var ops []string
	phase, left := 0, 0
	limit := 8 + g.R.Intn(90) // soft bound on the length: keeps the model's list-based arena cheap
	for len(ops) < count {
		if left == 0 {
			phase, left = g.R.Intn(3), 1+g.R.Intn(40)
		}
		left--
		s := m.insts[m.cur]
		v := g.R.Intn(1000)
		anyID := func() int { return s[g.R.Intn(len(s))].id }
		pushW, popW := 4, 4
		switch {
		case len(s) >= limit:
			pushW, popW = 1, 8
		case phase == 0:
			pushW, popW = 8, 1
		case phase == 1:
			pushW, popW = 1, 8
		}
		var op string
		r := g.R.Intn(pushW + popW + 6)
		switch {
		case r < pushW:
			switch k := g.R.Intn(4); {
			case k == 0 || len(s) == 0 && k >= 2:
				op = fmt.Sprintf("pb:%d", v)
			case k == 1 || len(s) == 0:
				op = fmt.Sprintf("pf:%d", v)
			case k == 2:
				op = fmt.Sprintf("ia:%d:%d", v, anyID())
			default:
				op = fmt.Sprintf("ib:%d:%d", v, anyID())
			}
		case r < pushW+popW:
			switch k := g.R.Intn(3); {
			case k == 0 || len(s) == 0 && g.R.Bool():
				op = "popf"
			case k == 1 || len(s) == 0:
				op = "popb"
			default:
				op = fmt.Sprintf("rm:%d", anyID())
			}
		default:
			switch k := g.R.Intn(12); {
			case k < 3 && len(s) > 0:
				op = fmt.Sprintf("tf:%d", anyID())
			case k < 6 && len(s) > 0:
				op = fmt.Sprintf("tb:%d", anyID())
			case k < 8 && len(s) > 0:
				op = fmt.Sprintf("up:%d:%d", anyID(), v)
			case k == 8:
				op = fmt.Sprintf("rg:%d", g.R.Intn(len(s)+2))
			case k == 9 && len(m.insts) < 4:
				op = "clone"
			case k == 10 && len(m.insts) > 1:
				op = fmt.Sprintf("use:%d", g.R.Intn(len(m.insts)))
			case k == 11 && g.R.Intn(4) == 0:
				op = "reset"
			default:
				op = fmt.Sprintf("rg:%d", g.R.Intn(4))
			}
		}
		m.apply(op)
		ops = append(ops, op)
	}
	return ops
}
