package main

import (
	"bufio"
	"bytes"
	"fmt"
	"net/http"
	"strconv"
	"strings"
	"sync"
	"time"

	"github.com/lxzan/gws"
)

func init() {
	register(&Suite{Name: "sess", Gen: genSess, Exec: execSess, Isolated: true})
}

func fnv64(b []byte) uint64 {
	var h uint64 = 14695981039346656037
	for _, x := range b {
		h = (h ^ uint64(x)) * 1099511628211
	}
	return h
}

func winStr(b []byte) string { return fmt.Sprintf("%d:%d", len(b), fnv64(b)) }

// connectTo performs a real client handshake against an existing upgrader over a fresh pipe.
func connectTo(up *gws.Upgrader, copt *gws.ClientOption, ch gws.Event) (server, client *gws.Conn, err error) {
	sc, cc := newPipe()
	if copt.Logger == nil {
		copt.Logger = quietLogger{}
	}
	copt.Addr = "ws://verif.test/"
	type res struct {
		c   *gws.Conn
		err error
	}
	ch1 := make(chan res, 1)
	go func() {
		br := bufio.NewReaderSize(sc, 4096)
		req, e := http.ReadRequest(br)
		if e != nil {
			ch1 <- res{nil, e}
			return
		}
		c, e := up.UpgradeFromConn(sc, br, req)
		ch1 <- res{c, e}
	}()
	client, _, cerr := gws.NewClientFromConn(ch, copt, cc)
	r := <-ch1
	if cerr != nil {
		return nil, nil, cerr
	}
	return r.c, client, r.err
}

// execSessLimit: `sess lim <limit> <seed>`: compression negotiated, the receiver's read limit is <limit>, the
// sender sends an incompressible payload of exactly <limit> bytes (within both endpoints' limits).
func execSessLimit(args []string) string {
	limit, _ := strconv.Atoi(args[1])
	seed, _ := strconv.Atoi(args[2])
	pd := gws.PermessageDeflate{Enabled: true, ServerContextTakeover: true, ClientContextTakeover: true, PoolSize: 1}
	sh, ch := newRecorder(), newRecorder()
	s, c, _, _, err := handshakePair(&gws.ServerOption{PermessageDeflate: pd}, &gws.ClientOption{PermessageDeflate: pd, ReadMaxPayloadSize: limit}, sh, ch)
	if err != nil {
		return "handshake-failed"
	}
	go s.ReadLoop()
	go c.ReadLoop()
	p := NewRand(uint64(seed)).Bytes(limit)
	if err := s.WriteMessage(gws.OpcodeBinary, p); err != nil {
		return "send-error"
	}
	deadline := time.Now().Add(2 * time.Second)
	for len(ch.Events()) < 2 && time.Now().Before(deadline) {
		time.Sleep(200 * time.Microsecond)
	}
	evs := ch.Events()
	res := "not-delivered"
	if len(evs) >= 2 {
		if evs[1] == "msg:2:"+hx(p) {
			res = "delivered"
		} else if strings.HasPrefix(evs[1], "close:") {
			tap := c.NetConn().(*memConn).Tap()
			if i := bytes.Index(tap, []byte("\r\n\r\n")); i >= 0 {
				tap = tap[i+4:] // skip the client's upgrade request
			}
			res = "refused:" + closeReply(tap)
		} else {
			res = "corrupted"
		}
	}
	_ = s.WriteClose(1000, nil)
	sh.WaitClosed(time.Second)
	ch.WaitClosed(time.Second)
	return res
}

// demux forwards the callbacks of the connections of one upgrader to one recorder per connection.
type demux struct {
	mu sync.Mutex
	m  map[*gws.Conn]*recorder
}

func (d *demux) of(c *gws.Conn) *recorder {
	d.mu.Lock()
	defer d.mu.Unlock()
	if r, ok := d.m[c]; ok {
		return r
	}
	return newRecorder() // not registered: dropped
}
func (d *demux) OnOpen(c *gws.Conn)                    { d.of(c).OnOpen(c) }
func (d *demux) OnClose(c *gws.Conn, err error)        { d.of(c).OnClose(c, err) }
func (d *demux) OnPing(c *gws.Conn, p []byte)          { d.of(c).OnPing(c, p) }
func (d *demux) OnPong(c *gws.Conn, p []byte)          { d.of(c).OnPong(c, p) }
func (d *demux) OnMessage(c *gws.Conn, m *gws.Message) { d.of(c).OnMessage(c, m) }

const multiServerLimit = 4096

// execSessMulti: `sess multi <poolSize> <step;step;…>`: three connections of ONE upgrader, so that they share its
// pooled deflaters (poolSize 1: all three; 2: connections 0 and 2).  Connection 1 negotiates no context takeover,
// 0 and 2 takeover in both directions.  Steps `<k>:s:<hex>` (server sends on connection k), `<k>:c:<hex>` (client k
// sends), `<k>:bomb` (client k sends a message that inflates beyond the server's read limit: the server must fail
// that connection with 1009 — and only that one).  Every connection has to behave as if it were alone.
func execSessMulti(args []string) string {
	pool, _ := strconv.Atoi(args[1])
	d := &demux{m: map[*gws.Conn]*recorder{}}
	pdS := gws.PermessageDeflate{Enabled: true, ServerContextTakeover: true, ClientContextTakeover: true,
		ServerMaxWindowBits: 12, ClientMaxWindowBits: 12, Threshold: 1, PoolSize: pool}
	up := gws.NewUpgrader(d, &gws.ServerOption{Logger: quietLogger{}, ReadMaxPayloadSize: multiServerLimit, PermessageDeflate: pdS})
	const n = 3
	var ss, cs [n]*gws.Conn
	var sh, ch [n]*recorder
	for k := 0; k < n; k++ {
		tk := k != 1
		sh[k], ch[k] = newRecorder(), newRecorder()
		s, c, err := connectTo(up, &gws.ClientOption{PermessageDeflate: gws.PermessageDeflate{Enabled: true, ServerContextTakeover: tk, ClientContextTakeover: tk,
			ServerMaxWindowBits: 12, ClientMaxWindowBits: 12, Threshold: 1}}, ch[k])
		if err != nil {
			return "handshake-failed"
		}
		d.mu.Lock()
		d.m[s] = sh[k]
		d.mu.Unlock()
		ss[k], cs[k] = s, c
		go s.ReadLoop()
		go c.ReadLoop()
	}
	waitFor := func(h *recorder, n int) bool {
		deadline := time.Now().Add(3 * time.Second)
		for len(h.Events()) < n {
			if time.Now().After(deadline) {
				return false
			}
			time.Sleep(100 * time.Microsecond)
		}
		return true
	}
	var wantS, wantC [n]int
	for k := 0; k < n; k++ {
		wantS[k], wantC[k] = 1, 1
		waitFor(sh[k], 1)
		waitFor(ch[k], 1)
	}
	failed := ""
	for _, t := range strings.Split(args[2], ";") {
		f := strings.Split(t, ":")
		k, _ := strconv.Atoi(f[0])
		var err error
		switch f[1] {
		case "s":
			err = ss[k].WriteMessage(gws.OpcodeBinary, unhx(f[2]))
			wantC[k]++
			if err == nil && !waitFor(ch[k], wantC[k]) {
				failed = "not-delivered:" + t[:min(len(t), 40)]
			}
		case "c":
			err = cs[k].WriteMessage(gws.OpcodeBinary, unhx(f[2]))
			wantS[k]++
			if err == nil && !waitFor(sh[k], wantS[k]) {
				failed = "not-delivered:" + t[:min(len(t), 40)]
			}
		case "bomb":
			err = cs[k].WriteMessage(gws.OpcodeBinary, bytes.Repeat([]byte("A"), 5*multiServerLimit))
			wantS[k]++
			if err == nil && !waitFor(sh[k], wantS[k]) {
				failed = "bomb-not-answered"
			}
			// the client's own close callback follows the server's Close frame: wait for it too, so that the
			// observation does not depend on when it is taken
			wantC[k]++
			if failed == "" && !waitFor(ch[k], wantC[k]) {
				failed = "client-did-not-see-the-close"
			}
		default:
			return "bad-op " + f[1]
		}
		if err != nil {
			failed = "send-error:" + strings.Join(strings.Fields(err.Error()), "_")
		}
		if failed != "" {
			break
		}
	}
	evStr := func(h *recorder, tap []byte) string {
		var out []string
		for _, e := range h.Events() {
			switch {
			case e == "open":
			case strings.HasPrefix(e, "msg:"):
				b := unhx(e[strings.LastIndex(e, ":")+1:])
				out = append(out, fmt.Sprintf("m%d:%d", len(b), fnv64(b)))
			case strings.HasPrefix(e, "close:"):
				// the Close frame is the last frame this end wrote (data frames may precede it)
				reply := "nothing"
				if fs, err := decodeFrames(tap); err != nil {
					reply = "undecodable"
				} else if len(fs) > 0 {
					last := fs[len(fs)-1]
					reply = closeReply(tap[len(tap)-last.wireLen:])
				}
				out = append(out, "closed:"+reply)
			default:
				out = append(out, e)
			}
		}
		if len(out) == 0 {
			return "-"
		}
		return strings.Join(out, ";")
	}
	var parts []string
	for k := 0; k < n; k++ {
		tap := ss[k].NetConn().(*memConn).Tap()
		if i := bytes.Index(tap, []byte("\r\n\r\n")); i >= 0 {
			tap = tap[i+4:] // skip the 101 response
		}
		part := fmt.Sprintf("%d:S[%s]C[%s]", k, evStr(sh[k], tap), evStr(ch[k], nil))
		if !strings.Contains(part, "closed:") {
			sCps, sDps := gws.VerifWindows(ss[k])
			cCps, cDps := gws.VerifWindows(cs[k])
			part += fmt.Sprintf("win=%s,%s,%s,%s", winStr(sCps), winStr(cDps), winStr(cCps), winStr(sDps))
		}
		parts = append(parts, part)
	}
	res := strings.Join(parts, " ")
	if failed != "" {
		res = failed + " " + res
	}
	for k := 0; k < n; k++ {
		_ = ss[k].WriteClose(1000, nil)
	}
	for k := 0; k < n; k++ {
		sh[k].WaitClosed(time.Second)
		ch[k].WaitClosed(time.Second)
	}
	return res
}

func execSess(args []string) string {
	if args[0] == "lim" {
		return execSessLimit(args)
	}
	if args[0] == "multi" {
		return execSessMulti(args)
	}
	en := args[0] == "1"
	sT, cT := args[1] == "1", args[2] == "1"
	sBits, _ := strconv.Atoi(args[3])
	cBits, _ := strconv.Atoi(args[4])
	sThr, _ := strconv.Atoi(args[5])
	cThr, _ := strconv.Atoi(args[6])
	sh, ch := newRecorder(), newRecorder()
	sopt := &gws.ServerOption{Logger: quietLogger{}, PermessageDeflate: gws.PermessageDeflate{Enabled: en, ServerContextTakeover: sT, ClientContextTakeover: cT,
		ServerMaxWindowBits: sBits, ClientMaxWindowBits: cBits, Threshold: sThr, PoolSize: 1}}
	up := gws.NewUpgrader(sh, sopt)
	copt := &gws.ClientOption{PermessageDeflate: gws.PermessageDeflate{Enabled: en, ServerContextTakeover: sT, ClientContextTakeover: cT,
		ServerMaxWindowBits: sBits, ClientMaxWindowBits: cBits, Threshold: cThr}}
	s, c, err := connectTo(up, copt, ch)
	if err != nil {
		return "handshake-failed"
	}
	sh.only = s
	go s.ReadLoop()
	go c.ReadLoop()
	var other *gws.Conn // a second connection of the same server that declined server takeover (threshold stays 512)
	getOther := func() *gws.Conn {
		if other == nil {
			o, oc, err := connectTo(up, &gws.ClientOption{PermessageDeflate: gws.PermessageDeflate{Enabled: en, ServerContextTakeover: false, ClientContextTakeover: false}}, newRecorder())
			if err != nil {
				return nil
			}
			go o.ReadLoop()
			go oc.ReadLoop()
			other = o
		}
		return other
	}
	wantS, wantC := 1, 1 // events expected so far ("open" counts)
	waitFor := func(h *recorder, n int) bool {
		deadline := time.Now().Add(3 * time.Second)
		for len(h.Events()) < n {
			if time.Now().After(deadline) {
				return false
			}
			time.Sleep(100 * time.Microsecond)
		}
		return true
	}
	waitFor(sh, 1)
	waitFor(ch, 1)
	failed := ""
	for _, t := range strings.Split(args[7], ";") {
		f := strings.Split(t, ":")
		fromServer := f[0] == "s"
		conn, h, want := c, sh, &wantS
		if fromServer {
			conn, h, want = s, ch, &wantC
		}
		var err error
		switch f[1] {
		case "msg":
			op, _ := strconv.Atoi(f[2])
			err = conn.WriteMessage(gws.Opcode(op), unhx(f[3]))
		case "async":
			op, _ := strconv.Atoi(f[2])
			done := make(chan error, 1)
			conn.WriteAsync(gws.Opcode(op), unhx(f[3]), func(e error) { done <- e })
			err = <-done
		case "v":
			op, _ := strconv.Atoi(f[2])
			err = conn.Writev(gws.Opcode(op), unhxList(f[3])...)
		case "ping":
			err = conn.WritePing(unhx(f[2]))
		case "pong":
			err = conn.WritePong(unhx(f[2]))
		case "file":
			op, _ := strconv.Atoi(f[2])
			err = conn.WriteFile(gws.Opcode(op), &scriptedReader{chunks: unhxList(f[3])})
		case "bc", "bc2":
			op, _ := strconv.Atoi(f[2])
			b := gws.NewBroadcaster(gws.Opcode(op), unhx(f[3]))
			if f[1] == "bc2" {
				if o := getOther(); o != nil {
					_ = b.Broadcast(o) // the shared frame is built under the other connection's threshold
				}
			}
			err = b.Broadcast(conn)
			done := make(chan struct{})
			conn.Async(func() { close(done) })
			<-done
			_ = b.Close()
		default:
			return "bad-op " + f[1]
		}
		if err != nil {
			failed = "send-error:" + strings.Join(strings.Fields(err.Error()), "_")
			break
		}
		*want++
		if !waitFor(h, *want) {
			failed = "not-delivered:" + t[:min(len(t), 40)]
			break
		}
	}
	evStr := func(h *recorder) string {
		var out []string
		for _, e := range h.Events() {
			if e != "open" {
				out = append(out, e)
			}
		}
		if len(out) == 0 {
			return "-"
		}
		return strings.Join(out, ";")
	}
	sCps, sDps := gws.VerifWindows(s)
	cCps, cDps := gws.VerifWindows(c)
	res := fmt.Sprintf("S[%s] C[%s] win S.cps=%s C.dps=%s C.cps=%s S.dps=%s", evStr(sh), evStr(ch), winStr(sCps), winStr(cDps), winStr(cCps), winStr(sDps))
	if failed != "" {
		res = failed + " " + res
	}
	_ = s.WriteClose(1000, nil)
	if other != nil {
		_ = other.WriteClose(1000, nil)
	}
	sh.WaitClosed(time.Second)
	ch.WaitClosed(time.Second)
	return res
}

func genSess(g *Gen) {
	r := g.R
	pool := [][]byte{}
	payload := func() []byte {
		var p []byte
		switch r.Intn(6) {
		case 0:
			p = nil
		case 1:
			p = r.Text(1 + r.Intn(100))
		case 2:
			p = r.Bytes(100 + r.Intn(500))
		case 3:
			p = r.Text(500 + r.Intn(3000))
		case 4:
			if len(pool) > 0 { // repeat earlier content so that the dictionary matters
				q := pool[r.Intn(len(pool))]
				p = append(append([]byte("again:"), q...), r.Text(r.Intn(20))...)
			} else {
				p = r.Text(64)
			}
		default:
			p = bytes.Repeat([]byte{byte(r.Intn(256))}, r.Intn(2000))
		}
		pool = append(pool, p)
		return p
	}
	n := g.pick(250, 2500)
	for i := 0; i < n; i++ {
		pool = pool[:0]
		en := r.Intn(8) != 0
		sT, cT := r.Bool(), r.Bool()
		sBits, cBits := 8+r.Intn(8), 8+r.Intn(8)
		sThr, cThr := []int{1, 64, 512}[r.Intn(3)], []int{1, 64, 512}[r.Intn(3)]
		var ops []string
		for j := 0; j < 1+r.Intn(8); j++ {
			side := "c"
			if r.Bool() {
				side = "s"
			}
			switch k := r.Intn(10); {
			case k < 3:
				ops = append(ops, fmt.Sprintf("%s:msg:2:%s", side, hx(payload())))
			case k == 3:
				ops = append(ops, fmt.Sprintf("%s:async:1:%s", side, hx(r.Text(r.Intn(700)))))
			case k == 4:
				p := payload()
				c1 := r.Intn(len(p) + 1)
				ops = append(ops, fmt.Sprintf("%s:v:2:%s", side, hxList([][]byte{p[:c1], p[c1:]})))
			case k == 5:
				p := r.Bytes(r.Intn(126)) // control frames WITH payloads
				pool = append(pool, p)
				ops = append(ops, fmt.Sprintf("%s:ping:%s", side, hx(p)))
			case k == 6:
				p := r.Bytes(r.Intn(126))
				pool = append(pool, p)
				ops = append(ops, fmt.Sprintf("%s:pong:%s", side, hx(p)))
			case k == 7:
				ops = append(ops, fmt.Sprintf("s:bc:2:%s", hx(payload())))
			case k == 8:
				p := payload()
				if len(p) > 511 && r.Bool() {
					p = p[:300] // below the other connection's threshold: the shared frame is built uncompressed
				}
				ops = append(ops, fmt.Sprintf("s:bc2:2:%s", hx(p)))
			default:
				p := payload()
				c1 := r.Intn(len(p) + 1)
				ops = append(ops, fmt.Sprintf("%s:file:2:%s", side, hxList([][]byte{p[:c1], p[c1:]})))
			}
		}
		g.Emit("sess %s %s %s %d %d %d %d %s", b2s(en), b2s(sT), b2s(cT), sBits, cBits, sThr, cThr, strings.Join(ops, ";"))
	}
	// several connections of one upgrader (shared pooled deflaters): every connection behaves as if it were alone
	nm := g.pick(40, 400)
	for i := 0; i < nm; i++ {
		var hist [][]byte
		dead := map[int]bool{}
		var steps []string
		for j := 0; j < 3+r.Intn(8); j++ {
			k := r.Intn(3)
			if dead[k] {
				continue
			}
			var p []byte
			switch c := r.Intn(5); {
			case c == 0 && len(hist) > 0: // content seen before, on whatever connection
				q := hist[r.Intn(len(hist))]
				p = append(append([]byte("again:"), q...), r.Text(r.Intn(20))...)
			case c == 1:
				p = r.Bytes(50 + r.Intn(400))
			case c == 2:
				p = nil
			default:
				p = r.Text(20 + r.Intn(1500))
			}
			if len(p) > multiServerLimit/2 {
				p = p[:multiServerLimit/2]
			}
			switch c := r.Intn(9); {
			case c < 4:
				steps = append(steps, fmt.Sprintf("%d:s:%s", k, hx(p)))
				hist = append(hist, p)
			case c < 8:
				steps = append(steps, fmt.Sprintf("%d:c:%s", k, hx(p)))
				hist = append(hist, p)
			default:
				steps = append(steps, fmt.Sprintf("%d:bomb", k))
				dead[k] = true
			}
		}
		if len(steps) > 0 {
			g.Emit("sess multi %d %s", []int{1, 2, 1, 4}[i%4], strings.Join(steps, ";"))
		}
	}
	// payload exactly at the receiver's limit, incompressible, compression negotiated
	for _, limit := range []int{200, 1000, 70000} {
		g.Emit("sess lim %d %d", limit, g.R.Intn(1000))
	}
	// the two defect patterns, deterministic
	ping := bytes.Repeat([]byte("0123456789abcdefghij"), 6)
	g.Emit("sess 1 1 1 12 12 512 512 s:ping:%s;s:msg:2:%s", hx(ping), hx(append(g.R.Bytes(200), ping...)))
	g.Emit("sess 1 1 1 12 12 512 512 c:ping:%s;c:msg:2:%s", hx(ping), hx(append(g.R.Bytes(200), ping...)))
	p300 := g.R.Bytes(300)
	g.Emit("sess 1 1 1 12 12 512 512 s:bc2:2:%s;s:msg:2:%s", hx(p300), hx(append(g.R.Bytes(100), p300...)))
}
