package main

import (
	"bufio"
	"bytes"
	"errors"
	"fmt"
	"io"
	"net/http"
	"strconv"
	"strings"
	"sync"
	"time"

	"github.com/klauspost/compress/flate"
	"github.com/lxzan/gws"
)

// Suite write (C05): everything a connection writes, decoded independently.
//
//	write <role s|c> <pd> <utf8 0|1> <wmax> <call>;<call>;…            [+ observation appended by Exec]
//
//	pd    = off | on:<myTakeover 0|1>:<bits>:<threshold>      (the SENDING side's compression parameters;
//	        threshold is 0 iff myTakeover = 1, as gws forces it)
//	call  = msg:<op>:<P>            WriteMessage
//	        v:<op>:<P,P,…|.>        Writev
//	        str:<P>                 WriteString
//	        async:<op>:<P>          WriteAsync   (the harness waits for the callback)
//	        vasync:<op>:<P,P,…|.>   WritevAsync  (idem)
//	        ping:<P> | pong:<P>     WritePing / WritePong
//	        file:<op>:<P,P,…|.>:<sep|last|err>   WriteFile from a scripted io.Reader returning those reads;
//	                                sep = io.EOF by a separate (0, EOF) read, last = with the last read,
//	                                err = a non-EOF error after the reads
//	        bc:<op>:<P>             NewBroadcaster(op, P).Broadcast(conn)
//	        bc2:<op>:<thrB>:<P>     (server) the broadcaster first broadcasts to ANOTHER connection of the same
//	                                server that declined takeover (its threshold is the server option's, thrB),
//	                                so the shared frame is built there
//	        close:<code>:<P>        WriteClose
//	P     = part+part+…            part = hex | - | @r<len>.<seed> (incompressible) | @t<len>.<seed> (8-letter
//	                                text) | @z<len>.<byte> (constant)   — generated identically by the driver
//
// Observation (one item per call, comma separated): hex of what the connection wrote during the call
// ("-" = nothing); for a WriteFile with compression, "/" and the sizes of the Write calls a compressor
// configured like the connection's makes for this input and dictionary ("?" if the replica's output
// differs from the wire).
//
// Output: per call `<class>[<frames>]w<len>.<adler>` joined by ";" then "|fid=1".  class = ok |
// ErrTextEncoding | ErrMessageTooLarge | ErrConnClosed | other; frames = op.fin.rsv1.lenForm.len joined
// by "+" (by the harness's own decoder), followed by #<count> for WriteFile; w = length and Adler-32 of
// the connection's compression window after the call.  The driver prints fid=1 iff the model
// reproduces the observed bytes of every call exactly, given the mask keys and compressor output seen.
func init() {
	register(&Suite{Name: "write", Gen: genWrite, Exec: execWrite, Isolated: true})
}

// ---- payload expressions ----------------------------------------------------------------------

func wLcgInit(seed uint64) uint64 { return seed*0x9E3779B97F4A7C15 + 0x1234567 }
func wLcgNext(s uint64) uint64    { return s*6364136223846793005 + 1442695040888963407 }
func wGenBytes(kind byte, n int, seed uint64) []byte {
	b := make([]byte, n)
	switch kind {
	case 'z':
		for i := range b {
			b[i] = byte(seed)
		}
	case 'r':
		s := wLcgInit(seed)
		for i := range b {
			s = wLcgNext(s)
			b[i] = byte(s >> 56)
		}
	case 't':
		s := wLcgInit(seed)
		for i := range b {
			s = wLcgNext(s)
			b[i] = 0x61 + byte(s>>61)
		}
	default:
		panic("bad generator kind in case line")
	}
	return b
}

func wPayload(expr string) []byte {
	var out []byte
	for _, part := range strings.Split(expr, "+") {
		if strings.HasPrefix(part, "@") {
			dot := strings.IndexByte(part, '.')
			if dot < 0 || len(part) < 4 {
				panic("bad generator in case line: " + part)
			}
			n, e1 := strconv.Atoi(part[2:dot])
			seed, e2 := strconv.ParseUint(part[dot+1:], 10, 64)
			if e1 != nil || e2 != nil {
				panic("bad generator in case line: " + part)
			}
			out = append(out, wGenBytes(part[1], n, seed)...)
		} else {
			out = append(out, unhx(part)...)
		}
	}
	return out
}

func wPayloadList(s string) [][]byte {
	if s == "." {
		return nil
	}
	parts := strings.Split(s, ",")
	out := make([][]byte, len(parts))
	for i, p := range parts {
		out[i] = wPayload(p)
	}
	return out
}

// ---- configuration and connections ------------------------------------------------------------

type wCfg struct {
	server bool
	pd     bool
	tk     bool
	bits   int
	thr    int
	utf8   bool
	wmax   int
	level  int
}

func parseWCfg(a []string) (wCfg, error) {
	c := wCfg{server: a[0] == "s", utf8: a[2] == "1"}
	if a[1] != "off" {
		f := strings.Split(a[1], ":")
		if (len(f) != 4 && len(f) != 5) || f[0] != "on" {
			return c, fmt.Errorf("bad pd %q", a[1])
		}
		c.pd, c.tk = true, f[1] == "1"
		c.bits, _ = strconv.Atoi(f[2])
		c.thr, _ = strconv.Atoi(f[3])
		c.level = 1
		if len(f) == 5 { // optional compression level (flate.DefaultCompression = -1, HuffmanOnly = -2, 1..9)
			c.level, _ = strconv.Atoi(f[4])
		}
	}
	c.wmax, _ = strconv.Atoi(a[3])
	return c, nil
}

// wUpgrade performs a raw-client handshake against an existing upgrader (several connections of ONE server).
func wUpgrade(up *gws.Upgrader, ext string) (*gws.Conn, *memConn, error) {
	sc, peer := newPipe()
	_, _ = peer.Write(rawRequest(ext))
	br := bufio.NewReaderSize(sc, 4096)
	req, err := http.ReadRequest(br)
	if err != nil {
		return nil, sc, err
	}
	c, err := up.UpgradeFromConn(sc, br, req)
	if err != nil {
		return nil, sc, err
	}
	resp := peer.ReadAvailable()
	if !bytes.HasPrefix(resp, []byte("HTTP/1.1 101")) {
		return nil, sc, fmt.Errorf("no 101: %q", resp)
	}
	// what the peer is told about the server's LZ77 window: the bound an RFC 7692 receiver may rely on
	wAnnounced.Store(c, wAnnouncedBits(string(resp)))
	sc.mu.Lock()
	sc.tap, sc.writeCalls = nil, nil
	sc.mu.Unlock()
	return c, sc, nil
}

// wConns builds the connection under test (and, for bc2, a second connection of the same server that
// declined takeover).  optThr is the Threshold option of the endpoint.
func wConns(c wCfg, optThr int, needB bool) (a *gws.Conn, at *memConn, b *gws.Conn, err error) {
	h := new(gws.BuiltinEventHandler)
	if c.server {
		opt := &gws.ServerOption{WriteMaxPayloadSize: c.wmax, CheckUtf8Enabled: c.utf8, Logger: quietLogger{}}
		ext := ""
		if c.pd {
			opt.PermessageDeflate = gws.PermessageDeflate{Enabled: true, ServerContextTakeover: c.tk, ClientContextTakeover: true,
				ServerMaxWindowBits: c.bits, ClientMaxWindowBits: 15, Threshold: optThr, PoolSize: 1, Level: c.level}
			ext = "permessage-deflate; client_max_window_bits"
			if c.bits > 9 && c.bits%2 == 0 { // some offers ask for a smaller server window than the server is configured with
				ext += "; server_max_window_bits=9"
			}
		}
		up := gws.NewUpgrader(h, opt)
		if a, at, err = wUpgrade(up, ext); err != nil {
			return
		}
		if needB {
			extB := ext
			if c.pd {
				extB += "; server_no_context_takeover"
			}
			b, _, err = wUpgrade(up, extB)
		}
		return
	}
	opt := &gws.ClientOption{WriteMaxPayloadSize: c.wmax, CheckUtf8Enabled: c.utf8}
	ext := ""
	if c.pd {
		opt.PermessageDeflate = gws.PermessageDeflate{Enabled: true, ServerContextTakeover: true, ClientContextTakeover: true, Threshold: optThr, Level: c.level}
		ext = "permessage-deflate; server_no_context_takeover"
		if !c.tk {
			ext += "; client_no_context_takeover"
		}
		if c.bits != 15 {
			ext += "; client_max_window_bits=" + strconv.Itoa(c.bits)
		}
	}
	a, at, _, err = clientConnRaw(opt, h, ext, nil)
	return
}

var wAnnounced sync.Map // *gws.Conn -> server_max_window_bits announced in the 101 response (15 if absent, 0 if no extension)

func wAnnouncedBits(resp string) int {
	for _, line := range strings.Split(resp, "\r\n") {
		if k, v, ok := strings.Cut(line, ":"); ok && strings.EqualFold(strings.TrimSpace(k), "Sec-WebSocket-Extensions") {
			bits := 15
			for _, p := range strings.Split(v, ";") {
				if name, val, ok := strings.Cut(strings.TrimSpace(p), "="); ok && name == "server_max_window_bits" {
					bits, _ = strconv.Atoi(strings.Trim(val, "\" "))
				}
			}
			return bits
		}
	}
	return 0
}

// wCheckSetup compares the negotiated parameters of the connection with the case line.
func wCheckSetup(c wCfg, conn *gws.Conn) string {
	if a, ok := wAnnounced.Load(conn); ok && c.pd && c.server && a.(int) != c.bits {
		// the compressor was built for c.bits; a peer that is told a smaller window drops history the compressor still refers to
		return fmt.Sprintf("announced-window(%d)-differs-from-compressor-window(%d)", a.(int), c.bits)
	}
	pd := gws.VerifPD(conn)
	if gws.VerifIsServer(conn) != c.server || pd.Enabled != c.pd {
		return "role/enabled"
	}
	if !c.pd {
		return ""
	}
	tk, bits := pd.ClientContextTakeover, pd.ClientMaxWindowBits
	if c.server {
		tk, bits = pd.ServerContextTakeover, pd.ServerMaxWindowBits
	}
	if tk != c.tk || bits != c.bits || pd.Threshold != c.thr {
		return fmt.Sprintf("got(tk=%v,bits=%d,thr=%d)", tk, bits, pd.Threshold)
	}
	return ""
}

// ---- scripted reader --------------------------------------------------------------------------

var errWScripted = errors.New("verif: scripted reader failure")

type wScriptReader struct {
	reads [][]byte
	mode  string
	i     int
}

func (r *wScriptReader) Read(p []byte) (int, error) {
	if r.i >= len(r.reads) {
		if r.mode == "err" {
			return 0, errWScripted
		}
		return 0, io.EOF
	}
	chunk := r.reads[r.i]
	if len(chunk) > len(p) {
		panic("scripted read larger than the caller's buffer")
	}
	r.i++
	n := copy(p, chunk)
	if r.i == len(r.reads) && r.mode == "last" {
		return n, io.EOF
	}
	return n, nil
}

// ---- execution --------------------------------------------------------------------------------

func wErrClass(err error) string {
	switch {
	case err == nil:
		return "ok"
	case errors.Is(err, gws.ErrTextEncoding):
		return "ErrTextEncoding"
	case errors.Is(err, gws.ErrMessageTooLarge):
		return "ErrMessageTooLarge"
	case errors.Is(err, gws.ErrConnClosed):
		return "ErrConnClosed"
	}
	return "other"
}

func wAdler(b []byte) uint32 {
	var s1, s2 uint32 = 1, 0
	for _, x := range b {
		s1 = (s1 + uint32(x)) % 65521
		s2 = (s2 + s1) % 65521
	}
	return s2<<16 | s1
}

type wRecWriter struct {
	all   []byte
	sizes []int
}

func (w *wRecWriter) Write(p []byte) (int, error) {
	w.all = append(w.all, p...)
	w.sizes = append(w.sizes, len(p))
	return len(p), nil
}

// wReplicaCuts runs a compressor configured like the connection's (writefile.go newBigDeflater, level 1)
// on the same dictionary and chunks and reports the sizes of its Write calls.
func wReplicaCuts(bits int, level int, dict []byte, chunks [][]byte, flush bool) ([]byte, []int) {
	var fw *flate.Writer
	if level == 0 {
		level = 1
	}
	if bits == 15 {
		fw, _ = flate.NewWriter(nil, level)
	} else {
		fw, _ = flate.NewWriterWindow(nil, 1<<bits)
	}
	rec := &wRecWriter{}
	fw.ResetDict(rec, dict)
	for _, c := range chunks {
		_, _ = fw.Write(c)
	}
	if flush { // a reader that fails makes compressTo return before the library's Flush
		_ = fw.Flush()
	}
	return rec.all, rec.sizes
}

func wFrames(wire []byte) (string, []decodedFrame) {
	fs, err := decodeFrames(wire)
	if err != nil {
		return "undecodable", nil
	}
	parts := make([]string, len(fs))
	for i, f := range fs {
		form := f.lenForm
		parts[i] = fmt.Sprintf("%d.%s.%s.%d.%d", f.opcode, b2s(f.fin), b2s(f.rsv1), form, len(f.payload))
	}
	return strings.Join(parts, "+"), fs
}

func wWait(ch chan struct{}) bool {
	select {
	case <-ch:
		return true
	case <-time.After(30 * time.Second):
		return false
	}
}

func execWrite(args []string) string {
	if len(args) < 5 {
		return "bad-op write-args"
	}
	c, err := parseWCfg(args)
	if err != nil {
		return "bad-op " + err.Error()
	}
	calls := strings.Split(args[4], ";")
	// the endpoint's Threshold option: with takeover gws forces the connection's threshold to 0, and the
	// option only shows on a sibling connection that declined takeover (bc2)
	optThr, needB := c.thr, false
	for _, call := range calls {
		if f := strings.Split(call, ":"); f[0] == "bc2" {
			needB = true
			if len(f) != 4 {
				return "bad-op bc2"
			}
			t, _ := strconv.Atoi(f[2])
			if c.tk {
				optThr = t
			} else if t != c.thr {
				return "bad-op bc2-threshold"
			}
		}
	}
	if c.pd && c.tk && optThr == 0 {
		optThr = 512
	}
	conn, tap, connB, err := wConns(c, optThr, needB)
	if err != nil {
		return "handshake-failed:" + strings.Join(strings.Fields(err.Error()), "_")
	}
	if m := wCheckSetup(c, conn); m != "" {
		return "setup-mismatch:" + m
	}
	var outs, obs []string
	seen := 0
	for _, call := range calls {
		f := strings.Split(call, ":")
		opOf := func(i int) gws.Opcode { v, _ := strconv.Atoi(f[i]); return gws.Opcode(v) }
		need := func(n int) {
			if len(f) != n {
				panic("bad call in case line: " + call)
			}
		}
		var rerr error
		isFile, extra := false, ""
		switch f[0] {
		case "msg":
			need(3)
			rerr = conn.WriteMessage(opOf(1), wPayload(f[2]))
		case "v":
			need(3)
			rerr = conn.Writev(opOf(1), wPayloadList(f[2])...)
		case "str":
			need(2)
			rerr = conn.WriteString(string(wPayload(f[1])))
		case "async", "vasync":
			need(3)
			done := make(chan struct{})
			cb := func(e error) { rerr = e; close(done) }
			if f[0] == "async" {
				conn.WriteAsync(opOf(1), wPayload(f[2]), cb)
			} else {
				conn.WritevAsync(opOf(1), wPayloadList(f[2]), cb)
			}
			if !wWait(done) {
				return "HANG"
			}
		case "ping":
			need(2)
			rerr = conn.WritePing(wPayload(f[1]))
		case "pong":
			need(2)
			rerr = conn.WritePong(wPayload(f[1]))
		case "close":
			need(3)
			code, _ := strconv.Atoi(f[1])
			rerr = conn.WriteClose(uint16(code), wPayload(f[2]))
		case "bc", "bc2":
			var b *gws.Broadcaster
			if f[0] == "bc" {
				need(3)
				b = gws.NewBroadcaster(opOf(1), wPayload(f[2]))
			} else {
				need(4)
				b = gws.NewBroadcaster(opOf(1), wPayload(f[3]))
				_ = b.Broadcast(connB) // builds the shared frame (or its error) under connB
				d := make(chan struct{})
				connB.Async(func() { close(d) })
				if !wWait(d) {
					return "HANG"
				}
			}
			rerr = b.Broadcast(conn)
			done := make(chan struct{})
			conn.Async(func() { close(done) }) // the write queue is FIFO with concurrency 1: runs after the broadcast job
			if !wWait(done) {
				return "HANG"
			}
			_ = b.Close()
		case "file":
			need(4)
			isFile = true
			reads := wPayloadList(f[2])
			var dict []byte
			if c.pd {
				dict, _ = gws.VerifWindows(conn)
			}
			rerr = conn.WriteFile(opOf(1), &wScriptReader{reads: reads, mode: f[3]})
			if c.pd {
				stream, sizes := wReplicaCuts(c.bits, c.level, dict, reads, f[3] != "err")
				extra = "/" + wCutString(stream, sizes, tap.Tap()[seen:])
			}
		default:
			return "bad-op call " + f[0]
		}
		all := tap.Tap()
		wire := all[seen:]
		seen = len(all)
		fr, fs := wFrames(wire)
		s := wErrClass(rerr) + "[" + fr + "]"
		if isFile {
			s += "#" + strconv.Itoa(len(fs))
		}
		win, _ := gws.VerifWindows(conn)
		s += fmt.Sprintf("w%d.%d", len(win), wAdler(win))
		outs = append(outs, s)
		obs = append(obs, hx(wire)+extra)
	}
	return strings.Join(outs, ";") + "|fid=1\t" + strings.Join(obs, ",")
}

// wCutString renders the replica's Write sizes.  When its output is not what went out on the wire (the
// concatenated payloads of the call's data frames, with the final 00 00 ff ff stripped) — a call that
// failed half way — the replica's output is appended so that the driver can still run the model.
func wCutString(stream []byte, sizes []int, wire []byte) string {
	parts := make([]string, len(sizes))
	for i, s := range sizes {
		parts[i] = strconv.Itoa(s)
	}
	cuts := "none"
	if len(parts) > 0 {
		cuts = strings.Join(parts, ".")
	}
	var sent []byte
	if fs, err := decodeFrames(wire); err == nil {
		for _, f := range fs {
			if f.opcode <= 2 {
				sent = append(sent, f.payload...)
			}
		}
	}
	if bytes.Equal(append(sent, 0, 0, 0xff, 0xff), stream) {
		return cuts
	}
	return cuts + "/" + hx(stream)
}

// ---- generator --------------------------------------------------------------------------------

const wSeg = 128 * 1024 // segmentSize (writefile.go)

type wGen struct {
	g    *Gen
	seed int
}

// atom returns a fresh generator expression of n bytes; kind 0/1/2 = incompressible / text / constant.
func (w *wGen) atom(kind, n int) string {
	w.seed++
	if n == 0 {
		return "-"
	}
	switch kind % 3 {
	case 0:
		return fmt.Sprintf("@r%d.%d", n, w.seed)
	case 1:
		return fmt.Sprintf("@t%d.%d", n, w.seed)
	}
	return fmt.Sprintf("@z%d.%d", n, 0x41+w.seed%26)
}

// chunks cuts n bytes into generator chunks of at most `size` bytes each.
func (w *wGen) chunks(kind, n, size int) []string {
	var out []string
	for n > 0 {
		c := size
		if c > n {
			c = n
		}
		out = append(out, w.atom(kind, c))
		n -= c
	}
	return out
}

func wList(l []string) string {
	if len(l) == 0 {
		return "."
	}
	return strings.Join(l, ",")
}

func (w *wGen) emit(role, pd string, utf8 int, wmax int, calls []string) {
	w.g.Emit("write %s %s %d %d %s", role, pd, utf8, wmax, strings.Join(calls, ";"))
}

// call renders one send of n bytes through the given API (op 1 uses text atoms so that it is valid UTF-8).
func (w *wGen) call(api string, op, kind, n int, pd string) string {
	if op == 1 {
		kind = 1
	}
	switch api {
	case "msg", "async":
		return fmt.Sprintf("%s:%d:%s", api, op, w.atom(kind, n))
	case "str":
		return "str:" + w.atom(1, n)
	case "v", "vasync":
		a := n / 3
		return fmt.Sprintf("%s:%d:%s,%s", api, op, w.atom(kind, a), w.atom(kind, n-a))
	case "file":
		mode := []string{"sep", "last"}[w.seed%2]
		return fmt.Sprintf("file:%d:%s:%s", op, wList(w.chunks(kind, n, wSeg)), mode)
	case "bc":
		return fmt.Sprintf("bc:%d:%s", op, w.atom(kind, n))
	case "bc2":
		thr := 512
		if f := strings.Split(pd, ":"); len(f) == 4 && f[1] == "0" {
			thr, _ = strconv.Atoi(f[3])
		}
		return fmt.Sprintf("bc2:%d:%d:%s", op, thr, w.atom(kind, n))
	case "ping", "pong":
		return api + ":" + w.atom(kind, n)
	}
	panic("api")
}

func genWrite(g *Gen) {
	w := &wGen{g: g}
	const big = 16777216
	pds := []string{"off", "on:1:12:0", "on:1:8:0", "on:1:15:0", "on:0:9:1", "on:0:15:126", "on:0:12:512"}
	if g.Thorough() {
		pds = []string{"off"}
		for _, b := range []int{8, 9, 12, 15} {
			pds = append(pds, fmt.Sprintf("on:1:%d:0", b))
			for _, t := range []int{1, 126, 512} {
				pds = append(pds, fmt.Sprintf("on:0:%d:%d", b, t))
			}
		}
	}
	roles := []string{"s", "c"}
	apis := []string{"msg", "v", "str", "async", "vasync", "file", "bc"}

	// 0. the minimal sequences for the two window defects (history must hold compressed messages only)
	for _, role := range roles {
		w.emit(role, "on:1:12:0", 1, big, []string{"ping:@r120.5", "msg:2:@r200.9+@r120.5"})
		w.emit(role, "on:1:12:0", 1, big, []string{"pong:@r120.5", "async:2:@r200.9+@r120.5"})
	}
	w.emit("s", "on:1:12:0", 1, big, []string{"bc2:2:512:@r300.3", "msg:2:@r200.9+@r300.3"})
	// back-references at chosen distances around and beyond the negotiated window, at several compression levels:
	// one message X ++ filler(D) ++ X, and the same across two messages under takeover
	for _, role := range []string{"s", "c"} {
		for _, bits := range []int{8, 9, 10, 12} {
			for _, level := range []int{-1, 1, 6, 9} {
				for _, d := range []int{1<<bits - 300, 1 << bits, 1<<bits + 200, 3 << bits} {
					if d < 0 {
						continue
					}
					pdv := fmt.Sprintf("on:1:%d:0:%d", bits, level)
					w.emit(role, pdv, 1, big, []string{fmt.Sprintf("msg:2:@r300.7+@r%d.8+@r300.7", d)})
					w.emit(role, pdv, 1, big, []string{"msg:2:@r300.7", fmt.Sprintf("msg:2:@r%d.8+@r300.7", d)})
					w.emit(role, fmt.Sprintf("on:0:%d:1:%d", bits, level), 1, big, []string{fmt.Sprintf("file:2:@r300.7+@r%d.8+@r300.7:last", d)})
				}
			}
		}
	}

	// 1a. every small length through every API in one sequence per (role, compression setting, API)
	small := []int{0, 1, 124, 125, 126, 127}
	for _, role := range roles {
		for _, pd := range pds {
			for _, api := range append(append([]string{}, apis...), "bc2", "ping", "pong") {
				if api == "bc2" && (role == "c" || pd == "off") {
					continue
				}
				var calls []string
				for i, n := range small {
					if (api == "ping" || api == "pong") && n > 125 {
						continue
					}
					calls = append(calls, w.call(api, 1+i%2, i, n, pd))
				}
				w.emit(role, pd, 1, big, calls)
				g.Count("small-sweep")
			}
		}
	}
	// 1a'. control frames through a Broadcaster (a heartbeat ping/pong to many connections): never compressed, never in the
	// window, whatever the threshold — followed by data messages that use the window
	for _, role := range roles {
		for _, pd := range pds {
			var calls []string
			for i, n := range []int{0, 1, 30, 124, 125} {
				calls = append(calls, fmt.Sprintf("bc:%d:%s", 9+i%2, w.atom(1, n)))
			}
			calls = append(calls, "msg:1:@t300.3", fmt.Sprintf("bc:9:%s", w.atom(1, 60)), "msg:1:@t300.3", "bc:2:@r200.3")
			w.emit(role, pd, 1, big, calls)
			g.Count("control-broadcast")
		}
	}
	// 1b. the large length-encoding boundaries and the segment boundaries
	large := []int{65534, 65535, 65536, 65537, wSeg - 1, wSeg, wSeg + 1, 2*wSeg + 5}
	idx := 0
	for li, n := range large {
		for ai, api := range apis {
			for ri, role := range roles {
				npd := 1
				if g.Thorough() {
					npd = 3
				} else if (li+ai+ri)%2 == 1 {
					continue // quick: each (length, API) pair in one role, alternating
				}
				for k := 0; k < npd; k++ {
					pd := pds[idx%len(pds)]
					idx++
					w.emit(role, pd, 1, big, []string{w.call(api, 1+(li+ai)%2, idx, n, pd)})
					g.Count("large-sweep")
				}
			}
		}
	}

	// 2. Writev / WritevAsync with every cut of short payloads into at most three slices
	shorts := [][]byte{nil, []byte("a"), []byte("ab"), []byte("h\u00e9\u00e9\u20ac"), {0x00, 0xff, 0x80, 0x7f, 0xc3}}
	for si, sh := range shorts {
		op := 1
		if si == len(shorts)-1 {
			op = 2
		}
		for _, role := range roles {
			for _, pd := range []string{"off", "on:1:12:0", "on:0:9:1"} {
				var calls []string
				for i, sp := range splits(sh) {
					api := "v"
					if i%2 == 1 {
						api = "vasync"
					}
					calls = append(calls, fmt.Sprintf("%s:%d:%s", api, op, hxList(sp)))
				}
				calls = append(calls, fmt.Sprintf("v:%d:.", op))
				w.emit(role, pd, 1, big, calls)
				g.Count("writev-splits")
			}
		}
	}

	// 3. WriteFile: reader chunkings × payload kinds × sizes
	type fcase struct{ kind, n int }
	fsizes := []fcase{{0, 0}, {0, 1}, {0, 5}, {1, 100}, {0, 1000}, {1, 1000}, {2, 1000}, {0, 70000}, {1, 70000}, {0, wSeg}, {0, wSeg + 1},
		{1, 2*wSeg + 5}, {0, 2*wSeg + 5}, {2, 3 * wSeg}}
	if g.Thorough() {
		fsizes = append(fsizes, fcase{0, 5*wSeg + 123}, fcase{1, 4 * wSeg}, fcase{0, 3*wSeg - 14}, fcase{0, wSeg - 14}, fcase{0, wSeg - 19})
	}
	fpds := []string{"off", "on:1:12:0", "on:1:15:0", "on:0:8:1", "on:0:15:512"}
	if g.Thorough() {
		fpds = pds
	}
	fi := 0
	for _, fc := range fsizes {
		var chunkings [][]string
		if fc.n <= 100 {
			chunkings = append(chunkings, w.chunks(fc.kind, fc.n, 1))
		}
		if fc.n <= 1000 {
			chunkings = append(chunkings, w.chunks(fc.kind, fc.n, 7))
		}
		chunkings = append(chunkings, w.chunks(fc.kind, fc.n, wSeg))
		// random sizes
		var rnd []string
		for left := fc.n; left > 0; {
			c := 1 + g.R.Intn(min(wSeg, left/2+1))
			if c > left {
				c = left
			}
			rnd = append(rnd, w.atom(fc.kind, c))
			left -= c
		}
		chunkings = append(chunkings, rnd)
		// zero-length reads before, between and after the data
		var zl []string
		zl = append(zl, "-")
		for _, c := range w.chunks(fc.kind, fc.n, max(1, min(wSeg, fc.n/2+1))) {
			zl = append(zl, c, "-")
			if g.R.Intn(2) == 0 {
				zl = append(zl, "-")
			}
		}
		chunkings = append(chunkings, zl)
		for ci, ch := range chunkings {
			for mi, mode := range []string{"sep", "last"} {
				for ri, role := range roles {
					if !g.Thorough() && fc.n >= wSeg && (ci+mi+ri)%2 == 1 {
						continue // quick: the large streams alternate role and EOF mode instead of taking the product
					}
					// rotate the compression settings; every (size, chunking, eof mode, role) sees at least two
					n := 2
					if g.Thorough() && fc.n <= 70000 {
						n = len(fpds)
					} else if !g.Thorough() && fc.n >= wSeg {
						n = 1
					}
					for k := 0; k < n; k++ {
						pd := fpds[fi%len(fpds)]
						fi++
						op := 1 + fi%2
						if fc.kind != 1 {
							op = 2
						}
						calls := []string{fmt.Sprintf("file:%d:%s:%s", op, wList(ch), mode)}
						if fc.n <= 70000 {
							// a second streamed message and a plain one behind it: the window after WriteFile matters
							calls = append(calls, fmt.Sprintf("file:%d:%s:%s", op, wList(ch), mode), fmt.Sprintf("msg:%d:%s", op, strings.Join(ch, "+")))
						}
						w.emit(role, pd, 1, big, calls)
						g.Count("file")
					}
				}
			}
		}
	}
	// the aggregator's buffer boundary (tail.Len()+len(p)+14 > tail.Cap(), capacity 131072): level-1 deflate
	// stores incompressible chunks as 1+4+len(chunk) bytes and ends with a 1-byte and a 4-byte write, so a
	// second chunk of 65512..65514 bytes puts the last stored block, the final 1-byte write and the final
	// 00 00 ff ff exactly on either side of the boundary (65512: the tail alone opens a new buffer and the
	// FIN frame is empty)
	bx := []int{65512, 65513, 65514}
	if g.Thorough() {
		bx = []int{65510, 65511, 65512, 65513, 65514, 65515, 65516}
	}
	for xi, x := range bx {
		for ri, role := range roles {
			if !g.Thorough() && (xi+ri)%2 == 1 {
				continue
			}
			for _, pd := range []string{"on:1:15:0", "on:0:12:1"} {
				mode := []string{"sep", "last"}[(xi+ri)%2]
				w.emit(role, pd, 1, big, []string{fmt.Sprintf("file:2:%s,%s:%s", w.atom(0, 65535), w.atom(0, x), mode)})
				g.Count("file-buffer-boundary")
			}
		}
	}

	// a reader that fails: nothing, or an unfinished message, then Close 1001
	for _, role := range roles {
		for _, pd := range []string{"off", "on:1:12:0"} {
			w.emit(role, pd, 1, big, []string{"file:2:.:err", "msg:1:61"})
			w.emit(role, pd, 1, big, []string{"file:2:@r10.1,@r20.2:err", "msg:1:61"})
			w.emit(role, pd, 1, big, []string{"file:2:@r131072.1,@r131072.2,@r131072.3:err", "msg:1:61"})
		}
	}

	// 4. close frames: status codes × reason lengths, then calls on the closed connection
	for ci, code := range []int{0, 999, 1000, 1001, 3000, 4999, 65535} {
		for ri, rl := range []int{0, 1, 122, 123, 124, 200} {
			role := roles[(ci+ri)%2]
			pd := pds[(ci*7+ri)%len(pds)]
			w.emit(role, pd, 1, big, []string{"ping:0102", fmt.Sprintf("close:%d:%s", code, w.atom(1, rl)), "msg:1:61", "ping:-", "file:2:61:sep", "bc:1:61", "close:1000:-"})
			g.Count("close")
		}
	}

	// 5. rejections: invalid UTF-8 text with checking on / off, payloads above WriteMaxPayloadSize
	for _, role := range roles {
		for _, pd := range []string{"off", "on:1:12:0", "on:0:9:1"} {
			for _, u := range []int{1, 0} {
				for _, bad := range []string{"c328", "ff", "61e282", "eda080", "f4908080"} {
					for _, call := range []string{"msg:1:" + bad, "str:" + bad, "async:1:" + bad, "v:1:61," + bad, "vasync:1:" + bad[:2] + "," + bad[2:],
						"bc:1:" + bad, "file:1:" + bad + ":sep", "msg:2:" + bad, "ping:" + bad, "v:1:e2,82ac"} {
						w.emit(role, pd, u, big, []string{"msg:1:61", call, "msg:1:62"})
						g.Count("utf8-gate")
					}
				}
			}
			for _, call := range []string{"msg:2:@r100.1", "msg:2:@r101.1", "v:2:@r60.1,@r41.2", "v:2:@r60.1,@r40.2", "async:1:@t101.1", "bc:2:@r101.1", "bc:2:@t100.1",
				"file:2:@r101.1:sep", "file:2:@r100.1,@r100.2:last", "file:2:@r7.1,@r7.2,@r7.3,@r7.4,@r7.5,@r7.6,@r7.7,@r7.8,@r7.9,@r7.10,@r7.11,@r7.12,@r7.13,@r7.14,@r7.15,@r7.16:sep",
				"file:2:@z100.65,@z100.65,@z100.65:sep", "ping:@r101.1", "ping:@r100.1", "close:1000:@t200.1", "close:1000:@t98.1", "close:1000:@t99.1"} {
				w.emit(role, pd, 1, 100, []string{"msg:1:61", call, "msg:1:62"})
				g.Count("size-gate")
			}
		}
	}

	// 6. random sequences over a small pool of payload atoms, so that later messages repeat earlier payloads
	pool := []string{"@r120.1", "@r60.2", "@t300.3", "@r300.4", "@z50.65", "68656c6c6f", "-", "@r2000.5", "@t5000.6", "@r40000.7"}
	ctl := []string{"@r120.1", "@r60.2", "@z50.65", "68656c6c6f", "-", "@r125.8"}
	for i := 0; i < g.pick(120, 1500); i++ {
		role := roles[g.R.Intn(2)]
		pd := pds[g.R.Intn(len(pds))]
		payload := func() string {
			k := 1 + g.R.Intn(3)
			var parts []string
			for j := 0; j < k; j++ {
				parts = append(parts, pool[g.R.Intn(len(pool))])
			}
			return strings.Join(parts, "+")
		}
		var calls []string
		ncalls := 3 + g.R.Intn(8)
		for j := 0; j < ncalls; j++ {
			op := 2 // op 1 only with text atoms
			switch g.R.Intn(12) {
			case 0:
				calls = append(calls, "ping:"+ctl[g.R.Intn(len(ctl))])
			case 1:
				calls = append(calls, "pong:"+ctl[g.R.Intn(len(ctl))])
			case 2, 3:
				calls = append(calls, fmt.Sprintf("msg:%d:%s", op, payload()))
			case 4:
				calls = append(calls, fmt.Sprintf("async:%d:%s", op, payload()))
			case 5:
				calls = append(calls, fmt.Sprintf("v:%d:%s,%s", op, payload(), payload()))
			case 6:
				calls = append(calls, fmt.Sprintf("vasync:%d:%s,%s,%s", op, payload(), pool[g.R.Intn(len(pool))], payload()))
			case 7:
				calls = append(calls, "str:@t"+strconv.Itoa(g.R.Intn(700))+".3")
			case 8:
				mode := []string{"sep", "last"}[g.R.Intn(2)]
				calls = append(calls, fmt.Sprintf("file:%d:%s,%s:%s", op, payload(), payload(), mode))
			case 9:
				calls = append(calls, fmt.Sprintf("bc:%d:%s", op, payload()))
			case 10:
				if role == "s" && pd != "off" {
					c := w.call("bc2", op, 0, 0, pd) // "bc2:<op>:<thrB>:-"
					calls = append(calls, strings.TrimSuffix(c, "-")+payload())
				} else {
					calls = append(calls, fmt.Sprintf("bc:%d:%s", op, payload()))
				}
			case 11:
				if g.R.Intn(4) == 0 {
					calls = append(calls, fmt.Sprintf("close:%d:%s", 1000+g.R.Intn(20), ctl[g.R.Intn(len(ctl))]))
				} else {
					calls = append(calls, fmt.Sprintf("msg:1:%s", "@t"+strconv.Itoa(g.R.Intn(300))+".9"))
				}
			}
		}
		w.emit(role, pd, g.R.Intn(2), big, calls)
		g.Count("random-seq")
	}
}
