package main

import (
	"bytes"
	"fmt"
	"os"
	"os/exec"
	"regexp"
	"strings"
	"sync"
	"sync/atomic"
	"time"

	"github.com/lxzan/gws"
)

// Suite `racy`: scenarios in which library-internal state is shared between goroutines, run in a
// child process built with the race detector (binary in $VERIF_RACE_BIN).  The race detector is
// validation of the "free of data races" clauses of C08/C14 (a statement about the Go memory model
// that no functional model expresses); it is not part of any proof.
func init() {
	register(&Suite{Name: "racy", Gen: genRacy, Exec: execRacy, Isolated: true})
	if len(os.Args) > 2 && os.Args[1] == "racechild" {
		runRacyScenario(os.Args[2:])
		os.Exit(0)
	}
}

var raceFuncRe = regexp.MustCompile(`(?m)^\s+github\.com/lxzan/gws(\S*)\(\)\s*$`)

func execRacy(args []string) string {
	bin := os.Getenv("VERIF_RACE_BIN")
	if bin == "" {
		bin = "/verif/.build/verifharness-race"
	}
	if _, err := os.Stat(bin); err != nil {
		return "race-binary-missing"
	}
	cmd := exec.Command(bin, append([]string{"racechild"}, args...)...)
	var stderr, stdout bytes.Buffer
	cmd.Stderr, cmd.Stdout = &stderr, &stdout
	cmd.Env = append(os.Environ(), "GORACE=halt_on_error=0 history_size=3")
	done := make(chan error, 1)
	go func() { done <- cmd.Run() }()
	select {
	case <-done:
	case <-time.After(60 * time.Second):
		_ = cmd.Process.Kill()
		return "scenario-timeout"
	}
	errs := stderr.String()
	if strings.Contains(errs, "DATA RACE") {
		// name the race by the first gws functions of the two conflicting accesses
		first := strings.SplitN(errs, "==================", 3)
		rep := errs
		if len(first) >= 2 {
			rep = first[1]
		}
		var fs []string
		seen := map[string]bool{}
		for _, m := range raceFuncRe.FindAllStringSubmatch(rep, -1) {
			f := m[1]
			if !seen[f] && len(fs) < 4 {
				seen[f] = true
				fs = append(fs, f)
			}
		}
		return "DATA-RACE:" + strings.Join(fs, "|")
	}
	if strings.Contains(errs, "panic:") {
		return "panic:" + strings.Join(strings.Fields(errs[strings.Index(errs, "panic:"):]), "_")[:120]
	}
	if !strings.Contains(stdout.String(), "scenario-done") {
		return "scenario-failed:" + strings.Join(strings.Fields(errs), "_")
	}
	return "no-race"
}

func runRacyScenario(args []string) {
	pdOn := gws.PermessageDeflate{Enabled: true, ServerContextTakeover: true, ClientContextTakeover: true, PoolSize: 1}
	payload := bytes.Repeat([]byte("gws race scenario payload "), 40)
	switch args[0] {
	case "bc-vs-write": // Broadcast and WriteMessage on a server connection with context takeover
		s, c, _, _, err := handshakePair(&gws.ServerOption{PermessageDeflate: pdOn}, &gws.ClientOption{PermessageDeflate: pdOn}, newRecorder(), newRecorder())
		mustOK(err)
		go s.ReadLoop()
		go c.ReadLoop()
		var wg sync.WaitGroup
		wg.Add(2)
		go func() {
			defer wg.Done()
			for i := 0; i < 200; i++ {
				_ = s.WriteMessage(gws.OpcodeBinary, payload)
			}
		}()
		go func() {
			defer wg.Done()
			for i := 0; i < 200; i++ {
				b := gws.NewBroadcaster(gws.OpcodeBinary, payload)
				_ = b.Broadcast(s)
				_ = b.Close()
			}
		}()
		wg.Wait()
		drainAsync(s)
	case "client-file-vs-bc": // on a client connection WriteFile and Broadcast use the same flate.Writer
		s, c, _, _, err := handshakePair(&gws.ServerOption{PermessageDeflate: pdOn}, &gws.ClientOption{PermessageDeflate: pdOn}, newRecorder(), newRecorder())
		mustOK(err)
		go s.ReadLoop()
		go c.ReadLoop()
		var wg sync.WaitGroup
		wg.Add(2)
		go func() {
			defer wg.Done()
			for i := 0; i < 60; i++ {
				_ = c.WriteFile(gws.OpcodeBinary, bytes.NewReader(payload))
			}
		}()
		go func() {
			defer wg.Done()
			for i := 0; i < 60; i++ {
				b := gws.NewBroadcaster(gws.OpcodeBinary, payload)
				_ = b.Broadcast(c)
				_ = b.Close()
			}
		}()
		wg.Wait()
		drainAsync(c)
	case "teardown-vs-writer": // the read loop ends (and reclaims) while a writer is still in flight
		sh := newRecorder()
		s, sc, peer, err := serverConnRaw(&gws.ServerOption{PermessageDeflate: pdOn}, sh, "permessage-deflate")
		mustOK(err)
		loop := make(chan struct{})
		go func() { s.ReadLoop(); close(loop) }()
		sc.Stall()
		wdone := make(chan struct{})
		go func() { _ = s.WriteMessage(gws.OpcodeBinary, payload); close(wdone) }()
		sc.WaitStalled(1, 2*time.Second)
		cdone := make(chan struct{})
		go func() { _ = s.WriteClose(1000, nil); close(cdone) }() // wins the CAS, waits for the lock
		time.Sleep(20 * time.Millisecond)
		_, _ = peer.Write([]byte{0x89, 0x00}) // unmasked frame: the reader fails, loses the CAS, runs OnClose and reclaims
		time.Sleep(20 * time.Millisecond)     // no synchronisation with the read loop: the overlap is what is being examined
		sc.Unstall()
		<-wdone
		<-cdone
		<-loop
	case "mixed-writers": // every API from several goroutines
		s, c, _, _, err := handshakePair(&gws.ServerOption{PermessageDeflate: pdOn}, &gws.ClientOption{PermessageDeflate: pdOn}, newRecorder(), newRecorder())
		mustOK(err)
		go s.ReadLoop()
		go c.ReadLoop()
		var wg sync.WaitGroup
		for g := 0; g < 6; g++ {
			wg.Add(1)
			go func(g int) {
				defer wg.Done()
				for i := 0; i < 60; i++ {
					conn := s
					if g%2 == 1 {
						conn = c
					}
					switch (g + i) % 6 {
					case 0:
						_ = conn.WriteMessage(gws.OpcodeText, payload)
					case 1:
						_ = conn.Writev(gws.OpcodeBinary, payload[:100], payload[100:])
					case 2:
						conn.WriteAsync(gws.OpcodeText, payload, nil)
					case 3:
						_ = conn.WritePing([]byte("ping"))
					case 4:
						_ = conn.WriteFile(gws.OpcodeBinary, bytes.NewReader(payload))
					default:
						conn.WritevAsync(gws.OpcodeBinary, [][]byte{payload[:7], payload[7:]}, nil)
					}
				}
			}(g)
		}
		wg.Wait()
		drainAsync(s)
		drainAsync(c)
		_ = s.WriteClose(1000, nil)
	case "parallel-handlers": // parallel message handling with handlers that write back
		h := newRecorder()
		h.onMsg = func(c *gws.Conn, m *gws.Message) { _ = c.WriteMessage(m.Opcode, m.Bytes()) }
		s, c, _, _, err := handshakePair(&gws.ServerOption{PermessageDeflate: pdOn, ParallelEnabled: true, ParallelGolimit: 4}, &gws.ClientOption{PermessageDeflate: pdOn}, h, newRecorder())
		mustOK(err)
		go s.ReadLoop()
		go c.ReadLoop()
		for i := 0; i < 200; i++ {
			_ = c.WriteMessage(gws.OpcodeText, payload)
		}
		time.Sleep(100 * time.Millisecond)
		_ = c.WriteClose(1000, nil)
		h.WaitClosed(2 * time.Second)
	case "close-vs-writers": // closing while writers of every kind are active
		s, c, _, _, err := handshakePair(&gws.ServerOption{PermessageDeflate: pdOn}, &gws.ClientOption{PermessageDeflate: pdOn}, newRecorder(), newRecorder())
		mustOK(err)
		go s.ReadLoop()
		go c.ReadLoop()
		var wg sync.WaitGroup
		for g := 0; g < 4; g++ {
			wg.Add(1)
			go func(g int) {
				defer wg.Done()
				for i := 0; i < 100; i++ {
					if g%2 == 0 {
						_ = s.WriteMessage(gws.OpcodeBinary, payload)
					} else {
						b := gws.NewBroadcaster(gws.OpcodeBinary, payload)
						_ = b.Broadcast(s)
						_ = b.Close()
					}
				}
			}(g)
		}
		time.Sleep(2 * time.Millisecond)
		_ = s.WriteClose(1000, nil)
		wg.Wait()
		drainAsync(s)
	case "bc-two-clients": // ONE broadcaster serving two client-side connections at once: the shared frame is read-only
		var bad int32
		mk := func() *recorder {
			h := newRecorder()
			h.onMsg = func(c *gws.Conn, m *gws.Message) {
				if !bytes.Equal(m.Bytes(), payload) {
					atomic.AddInt32(&bad, 1)
				}
			}
			return h
		}
		s1, c1, _, _, err := handshakePair(&gws.ServerOption{}, &gws.ClientOption{}, mk(), newRecorder())
		mustOK(err)
		s2, c2, _, _, err := handshakePair(&gws.ServerOption{}, &gws.ClientOption{}, mk(), newRecorder())
		mustOK(err)
		for _, x := range []*gws.Conn{s1, c1, s2, c2} {
			go x.ReadLoop()
		}
		for i := 0; i < 300; i++ {
			b := gws.NewBroadcaster(gws.OpcodeBinary, payload)
			_ = b.Broadcast(c1)
			_ = b.Broadcast(c2)
			_ = b.Close()
		}
		drainAsync(c1)
		drainAsync(c2)
		time.Sleep(50 * time.Millisecond)
		if atomic.LoadInt32(&bad) != 0 {
			fmt.Fprintln(os.Stderr, "broadcast-payload-corrupted-on-the-wire")
			return
		}
		_ = c1.WriteClose(1000, nil)
		_ = c2.WriteClose(1000, nil)
	case "session-first-use": // the very first uses of a connection's session storage, from several goroutines at once
		s, c, _, _, err := handshakePair(&gws.ServerOption{}, &gws.ClientOption{}, newRecorder(), newRecorder())
		mustOK(err)
		go s.ReadLoop()
		go c.ReadLoop()
		for _, conn := range []*gws.Conn{c, s} {
			const n = 8
			start := make(chan struct{})
			var wg sync.WaitGroup
			for g := 0; g < n; g++ {
				wg.Add(1)
				go func(g int) {
					defer wg.Done()
					<-start
					conn.Session().Store(fmt.Sprintf("k%d", g), g)
				}(g)
			}
			close(start)
			wg.Wait()
			// every Store has returned: one map must hold all of them
			for g := 0; g < n; g++ {
				if v, ok := conn.Session().Load(fmt.Sprintf("k%d", g)); !ok || v != g {
					fmt.Fprintln(os.Stderr, "session-lost-a-completed-store")
					return
				}
			}
			if conn.Session().Len() != n {
				fmt.Fprintln(os.Stderr, "session-len-differs")
				return
			}
		}
		_ = s.WriteClose(1000, nil)
	default:
		fmt.Println("unknown scenario")
		return
	}
	time.Sleep(20 * time.Millisecond)
	fmt.Println("scenario-done")
}

func mustOK(err error) {
	if err != nil {
		fmt.Println("setup failed:", err)
		os.Exit(0)
	}
}

func drainAsync(c *gws.Conn) {
	done := make(chan struct{})
	c.Async(func() { close(done) })
	select {
	case <-done:
	case <-time.After(3 * time.Second):
	}
}

func genRacy(g *Gen) {
	for _, sc := range []string{"bc-vs-write", "client-file-vs-bc", "teardown-vs-writer", "mixed-writers", "parallel-handlers", "close-vs-writers", "session-first-use", "bc-two-clients"} {
		for i := 0; i < g.pick(1, 5); i++ {
			g.Emit("racy %s %d", sc, i)
		}
	}
}
