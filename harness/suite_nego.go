package main

import (
	"bufio"
	"bytes"
	"fmt"
	"math"
	"net/http"
	"strconv"
	"strings"

	"github.com/lxzan/gws"
)

// Suite nego (C12): extension negotiation.
//
//	nego hs <serverPD> <clientPD> [r]  -> s=<view> c=<view> offer=<hex|none> resp=<hex|none>
//	nego parse <hex header value>      -> <view>            (permessageNegotiation)
//	nego gen <PD>                      -> req=<hex> resp=<hex>  (genRequestHeader / genResponseHeader)
//	nego atoi <hex>                    -> <int>             (strconv.Atoi, error dropped, as the parser calls it)
//
// A PD / view is "<enabled><serverTakeover><clientTakeover>,<serverBits>,<clientBits>,<threshold>".
// "hs" runs the code's own functions in handshake order through the hooks; with the trailing "r" it
// also performs a real gws-to-gws handshake over the in-memory pipe and requires the parameters
// held by both connections and the two headers on the wire to equal the pipeline's.
func init() {
	register(&Suite{Name: "nego", Gen: genNego, Exec: execNego, Isolated: true})
}

func parsePD(s string) gws.PermessageDeflate {
	f := strings.Split(s, ",")
	if len(f) != 4 || len(f[0]) != 3 {
		panic("bad PD in case line: " + s)
	}
	num := func(x string) int {
		v, err := strconv.ParseInt(x, 10, 64)
		if err != nil {
			panic("bad int in case line: " + x)
		}
		return int(v)
	}
	return gws.PermessageDeflate{
		Enabled:               f[0][0] == '1',
		ServerContextTakeover: f[0][1] == '1',
		ClientContextTakeover: f[0][2] == '1',
		ServerMaxWindowBits:   num(f[1]),
		ClientMaxWindowBits:   num(f[2]),
		Threshold:             num(f[3]),
		// one pooled compressor per upgrader instead of 32: irrelevant to the negotiation, 30x cheaper
		PoolSize: 1,
	}
}

func fmtPD(p gws.PermessageDeflate) string {
	return b2s(p.Enabled) + b2s(p.ServerContextTakeover) + b2s(p.ClientContextTakeover) + "," +
		strconv.Itoa(p.ServerMaxWindowBits) + "," + strconv.Itoa(p.ClientMaxWindowBits) + "," + strconv.Itoa(p.Threshold)
}

func fmtHdr(present bool, v string) string {
	if !present {
		return "none"
	}
	return hx([]byte(v))
}

// wireExtensions extracts the Sec-WebSocket-Extensions header from the first HTTP message in raw.
func wireExtensions(raw []byte, request bool) (present bool, value string, err error) {
	br := bufio.NewReader(bytes.NewReader(raw))
	var h http.Header
	if request {
		req, e := http.ReadRequest(br)
		if e != nil {
			return false, "", e
		}
		h = req.Header
	} else {
		resp, e := http.ReadResponse(br, nil)
		if e != nil {
			return false, "", e
		}
		h = resp.Header
	}
	vs, ok := h[http.CanonicalHeaderKey("Sec-WebSocket-Extensions")]
	if !ok {
		return false, "", nil
	}
	if len(vs) != 1 {
		return true, strings.Join(vs, "|"), fmt.Errorf("%d extension headers", len(vs))
	}
	return true, vs[0], nil
}

func execNego(args []string) string {
	if len(args) < 2 {
		return "bad-op nego-args"
	}
	switch args[0] {
	case "hs":
		if len(args) < 3 {
			return "bad-op nego-args"
		}
		return execNegoHS(parsePD(args[1]), parsePD(args[2]), len(args) > 3 && args[3] == "r")
	case "hsseq":
		// one upgrader, several clients one after the other: every handshake is negotiated on its own
		if len(args) < 3 {
			return "bad-op nego-args"
		}
		up := gws.NewUpgrader(new(gws.BuiltinEventHandler), &gws.ServerOption{PermessageDeflate: parsePD(args[1]), Logger: quietLogger{}})
		var outs []string
		for _, cs := range strings.Split(args[2], ";") {
			server, client, sc, cc, err := handshakeWith(up, &gws.ClientOption{PermessageDeflate: parsePD(cs)}, new(gws.BuiltinEventHandler))
			if err != nil {
				return "real-handshake-failed " + strings.Join(strings.Fields(err.Error()), "_")
			}
			wo, wov, e1 := wireExtensions(cc.Tap(), true)
			wr, wrv, e2 := wireExtensions(sc.Tap(), false)
			if e1 != nil || e2 != nil {
				return fmt.Sprintf("real-wire-unreadable %v %v", e1, e2)
			}
			outs = append(outs, "s="+fmtPD(gws.VerifPD(server))+" c="+fmtPD(gws.VerifPD(client))+" offer="+fmtHdr(wo, wov)+" resp="+fmtHdr(wr, wrv))
			_ = sc.Close()
			_ = cc.Close()
		}
		return strings.Join(outs, " | ")
	case "parse":
		return fmtPD(gws.VerifPermessageNegotiation(string(unhx(args[1]))))
	case "gen":
		p := parsePD(args[1])
		return "req=" + hx([]byte(gws.VerifGenRequestHeader(p))) + " resp=" + hx([]byte(gws.VerifGenResponseHeader(p)))
	case "atoi":
		x, _ := strconv.Atoi(string(unhx(args[1])))
		return strconv.Itoa(x)
	}
	return "bad-op nego-args"
}

// negoUpgraders memoises NewUpgrader per server setting: building one allocates a compressor, which
// dominates the run time of the full product, and the parameter selection only reads it. The real
// handshakes below always build a fresh one.
var negoUpgraders = map[gws.PermessageDeflate]*gws.Upgrader{}

func negoUpgrader(s gws.PermessageDeflate) *gws.Upgrader {
	if up, ok := negoUpgraders[s]; ok {
		return up
	}
	if len(negoUpgraders) >= 64 {
		negoUpgraders = map[gws.PermessageDeflate]*gws.Upgrader{}
	}
	up := gws.NewUpgrader(new(gws.BuiltinEventHandler), &gws.ServerOption{PermessageDeflate: s, Logger: quietLogger{}})
	negoUpgraders[s] = up
	return up
}

func execNegoHS(s, c gws.PermessageDeflate, real bool) string {
	// the code's own functions, in the order of a handshake
	up := negoUpgrader(s)
	cNorm, _ := gws.VerifClientPD(&gws.ClientOption{PermessageDeflate: c}, "")
	offer, hasOffer := "", false
	if cNorm.Enabled { // client.go: the offer is sent iff the client enabled compression
		offer, hasOffer = gws.VerifGenRequestHeader(cNorm), true
	}
	spd := gws.VerifServerPD(up, offer)
	resp, hasResp := "", false
	if spd.Enabled { // upgrader.go: the response header is sent iff the server's negotiated Enabled
		resp, hasResp = gws.VerifGenResponseHeader(spd), true
	}
	_, cpd := gws.VerifClientPD(&gws.ClientOption{PermessageDeflate: c}, resp)
	out := "s=" + fmtPD(spd) + " c=" + fmtPD(cpd) + " offer=" + fmtHdr(hasOffer, offer) + " resp=" + fmtHdr(hasResp, resp)
	if !real {
		return out
	}
	// the same pair through a real opening handshake
	server, client, sc, cc, err := handshakePair(&gws.ServerOption{PermessageDeflate: s}, &gws.ClientOption{PermessageDeflate: c},
		new(gws.BuiltinEventHandler), new(gws.BuiltinEventHandler))
	if err != nil {
		return "real-handshake-failed " + strings.Join(strings.Fields(err.Error()), "_")
	}
	defer sc.Close()
	defer cc.Close()
	rs, rc := gws.VerifPD(server), gws.VerifPD(client)
	// Level and PoolSize are local, not negotiated; compare the negotiated fields
	wo, wov, e1 := wireExtensions(cc.Tap(), true)
	wr, wrv, e2 := wireExtensions(sc.Tap(), false)
	if e1 != nil || e2 != nil {
		return fmt.Sprintf("real-wire-unreadable %v %v", e1, e2)
	}
	realOut := "s=" + fmtPD(rs) + " c=" + fmtPD(rc) + " offer=" + fmtHdr(wo, wov) + " resp=" + fmtHdr(wr, wrv)
	if realOut != out {
		return "real-differs-from-pipeline pipeline[" + out + "] real[" + realOut + "]"
	}
	return out
}

var negoBits = []int{math.MinInt64, -1, 0, 7, 8, 9, 10, 11, 12, 13, 14, 15, 16, math.MaxInt64}
var negoThresholds = []int{0, 1, 512, 1000}

type negoSide struct {
	e, st, ct bool
	sb, cb    int
	th        int
}

func (p negoSide) String() string {
	return b2s(p.e) + b2s(p.st) + b2s(p.ct) + "," + strconv.Itoa(p.sb) + "," + strconv.Itoa(p.cb) + "," + strconv.Itoa(p.th)
}

// negoSideAt enumerates the 1568 flag/bits combinations of one side.
func negoSideAt(i int) negoSide {
	var p negoSide
	p.cb = negoBits[i%14]
	i /= 14
	p.sb = negoBits[i%14]
	i /= 14
	p.ct = i&1 == 1
	p.st = i&2 == 2
	p.e = i&4 == 4
	return p
}

const negoSides = 8 * 14 * 14

func genNego(g *Gen) {
	emitHS := func(s, c negoSide, real bool) {
		tail := ""
		if real {
			tail = " r"
			g.Count("real-handshakes")
		}
		g.Count("hs")
		g.Emit("nego hs %s %s%s", s, c, tail)
	}
	// one upgrader serving several clients whose offers differ (takeover flags, window bits, enabled or not)
	for i := 0; i < g.pick(40, 400); i++ {
		sv := negoSideAt(g.R.Intn(negoSides))
		sv.e = true
		sv.th = negoThresholds[g.R.Intn(4)]
		var cs []string
		for k := 0; k < 2+g.R.Intn(3); k++ {
			c := negoSideAt(g.R.Intn(negoSides))
			c.e = g.R.Intn(5) != 0
			c.th = negoThresholds[g.R.Intn(4)]
			cs = append(cs, c.String())
		}
		g.Count("hsseq")
		g.Emit("nego hsseq %s %s", sv, strings.Join(cs, ";"))
	}
	randSide := func() negoSide {
		p := negoSideAt(g.R.Intn(negoSides))
		p.th = negoThresholds[g.R.Intn(4)]
		return p
	}

	if g.Thorough() {
		// the full product of (enabled x takeover^2 x bits^2) on both sides; the two thresholds run
		// through all 16 combinations (the server's in blocks, so that consecutive cases share an
		// upgrader); one pair in 97 also goes through a real handshake
		k := 0
		for i := 0; i < negoSides; i++ {
			for j := 0; j < negoSides; j++ {
				s, c := negoSideAt(i), negoSideAt(j)
				s.th, c.th = negoThresholds[(j/(negoSides/4)+i)%4], negoThresholds[(i*7+j*3+j/14)%4]
				emitHS(s, c, k%97 == 0)
				k++
			}
		}
	} else {
		// (1) every flag combination of both sides x a few bits settings x all threshold pairs folded in
		small := [][2]int{{15, 15}, {8, 12}, {0, 16}}
		k := 0
		for f := 0; f < 64; f++ {
			for _, sbits := range small {
				for _, cbits := range small {
					s := negoSide{e: f&32 != 0, st: f&16 != 0, ct: f&8 != 0, sb: sbits[0], cb: sbits[1], th: negoThresholds[k%4]}
					c := negoSide{e: f&4 != 0, st: f&2 != 0, ct: f&1 != 0, sb: cbits[0], cb: cbits[1], th: negoThresholds[(k/4)%4]}
					emitHS(s, c, true)
					k++
				}
			}
		}
		// (2) every pair of bits values on one side against a default peer, for every enabled combination
		for en := 0; en < 4; en++ {
			for _, a := range negoBits {
				for _, b := range negoBits {
					s := negoSide{e: en&2 != 0, st: true, ct: true, sb: a, cb: b, th: 0}
					c := negoSide{e: en&1 != 0, st: true, ct: true, sb: 15, cb: 15, th: 0}
					emitHS(s, c, false)
					s, c = negoSide{e: en&2 != 0, st: true, ct: true, sb: 15, cb: 15}, negoSide{e: en&1 != 0, st: true, ct: true, sb: a, cb: b}
					emitHS(s, c, false)
				}
			}
		}
		// (3) both enabled, all four bits fields over the boundary values, takeover flags cycling
		bnd := []int{math.MinInt64, 7, 8, 12, 15, 16, math.MaxInt64}
		k = 0
		for _, a := range bnd {
			for _, b := range bnd {
				for _, cc := range bnd {
					for _, d := range bnd {
						s := negoSide{e: true, st: k&1 != 0, ct: k&2 != 0, sb: a, cb: b, th: negoThresholds[(k/16)%4]}
						c := negoSide{e: true, st: k&4 != 0, ct: k&8 != 0, sb: cc, cb: d, th: negoThresholds[(k/64)%4]}
						emitHS(s, c, false)
						k++
					}
				}
			}
		}
		// (4) uniform sample of the whole product, one in eight through a real handshake
		for i := 0; i < 15000; i++ {
			emitHS(randSide(), randSide(), i%8 == 0)
		}
	}

	// header generation on every flags/bits combination, normalised or not (Itoa of any int)
	for i := 0; i < negoSides/2; i++ {
		p := negoSideAt(i + negoSides/2)
		g.Count("gen")
		g.Emit("nego gen %s", p)
	}
	for i := 0; i < g.pick(200, 2000); i++ {
		p := randSide()
		p.sb, p.cb = int(g.R.U64()), int(g.R.U64()>>uint(g.R.Intn(64)))
		if g.R.Bool() {
			p.cb = -p.cb
		}
		g.Count("gen")
		g.Emit("nego gen %s", p)
	}

	genNegoParse(g)
	genNegoAtoi(g)
}

var negoNames = []string{"permessage-deflate", "server_no_context_takeover", "client_no_context_takeover",
	"server_max_window_bits", "client_max_window_bits"}

// negoValue returns a parameter value: in range, out of range, zero, signed, saturating, non-numeric, empty.
func negoValue(r *Rand) string {
	switch r.Intn(12) {
	case 0, 1, 2:
		return strconv.Itoa(8 + r.Intn(8))
	case 3:
		return strconv.Itoa(r.Intn(20) - 2)
	case 4:
		return []string{"0", "00", "-0", "+0", ""}[r.Intn(5)]
	case 5:
		return []string{"+9", "+15", "-9", "010", "0012", "+008"}[r.Intn(6)]
	case 6:
		return []string{"9223372036854775807", "9223372036854775808", "-9223372036854775808", "-9223372036854775809",
			"18446744073709551615", "18446744073709551616", "99999999999999999999999", "-99999999999999999999999"}[r.Intn(8)]
	case 7:
		return []string{"abc", "1x", "x1", "1 0", "1.5", "0x0c", "1_0", "١٢", "12=9", "=12", "\"12\""}[r.Intn(11)]
	case 8:
		return strconv.FormatUint(r.U64()>>uint(r.Intn(64)), 10)
	case 9:
		return "-" + strconv.FormatUint(r.U64()>>uint(r.Intn(64)), 10)
	default:
		return strconv.Itoa(r.Intn(17))
	}
}

func negoParam(r *Rand) string {
	switch r.Intn(16) {
	case 0:
		return negoNames[0]
	case 1:
		return negoNames[1]
	case 2:
		return negoNames[2]
	case 3, 4, 5:
		return negoNames[3] + "=" + negoValue(r)
	case 6, 7, 8:
		return negoNames[4] + "=" + negoValue(r)
	case 9:
		return negoNames[3+r.Intn(2)] // bare
	case 10:
		// near misses: case, prefix, suffix, inner white space, value on a flag
		return []string{"Permessage-Deflate", "server_no_context_takeove", "client_no_context_takeover2", "server_max_window_bits =9",
			"server_max_window_bits= 9", "client_max_window_bits\t=10", "server_no_context_takeover=1", "client_no_context_takeover=",
			"permessage-deflate=x", "SERVER_MAX_WINDOW_BITS=9", "x-webkit-deflate-frame"}[r.Intn(11)]
	case 11:
		return "" // empty segment
	case 12:
		return []string{"x", "foo=bar", "=", "==", "a=b=c", "permessage", "deflate"}[r.Intn(7)]
	default:
		return negoNames[r.Intn(5)]
	}
}

var negoPads = []string{"", "", " ", "  ", "\t", " \t ", "\r\n", "\n", "\v", "\f", " \f\v\t\r\n "}

func genNegoParse(g *Gen) {
	emit := func(h string) {
		g.Count("parse")
		g.Emit("nego parse %s", hx([]byte(h)))
	}
	for _, h := range []string{"", ";", ";;", " ", " ; ", "permessage-deflate", "permessage-deflate;",
		"permessage-deflate; client_max_window_bits", "permessage-deflate; server_max_window_bits=7",
		"permessage-deflate; server_max_window_bits=8", "permessage-deflate; server_max_window_bits=15",
		"permessage-deflate; server_max_window_bits=16", "permessage-deflate; server_max_window_bits=0",
		"permessage-deflate; client_max_window_bits=-1", "permessage-deflate, permessage-deflate; client_max_window_bits=9",
		"server_max_window_bits=10; server_max_window_bits=12", "server_max_window_bits=12; server_max_window_bits=10",
		"client_max_window_bits=; client_max_window_bits", "client_max_window_bits=10=11"} {
		emit(h)
	}
	// every single parameter with every value class
	for _, name := range negoNames[3:] {
		for v := -2; v <= 18; v++ {
			emit(name + "=" + strconv.Itoa(v))
		}
	}
	// random lists, each rendered three ways: as generated, shuffled with fresh padding, reversed and compact
	for i := 0; i < g.pick(3000, 60000); i++ {
		n := g.R.Intn(8)
		ps := make([]string, n)
		for j := range ps {
			ps[j] = negoParam(g.R)
		}
		render := func(list []string, pad bool) string {
			parts := make([]string, len(list))
			for j, p := range list {
				if pad {
					parts[j] = negoPads[g.R.Intn(len(negoPads))] + p + negoPads[g.R.Intn(len(negoPads))]
				} else {
					parts[j] = p
				}
			}
			return strings.Join(parts, ";")
		}
		emit(render(ps, true))
		sh := append([]string(nil), ps...)
		for j := len(sh) - 1; j > 0; j-- {
			k := g.R.Intn(j + 1)
			sh[j], sh[k] = sh[k], sh[j]
		}
		emit(render(sh, true))
		for a, b := 0, len(sh)-1; a < b; a, b = a+1, b-1 {
			sh[a], sh[b] = sh[b], sh[a]
		}
		emit(render(sh, false))
	}
	// arbitrary ASCII noise around the separators
	alphabet := []byte("; =\t-_09azAZ+\r\n\v\f,\"x1")
	for i := 0; i < g.pick(500, 10000); i++ {
		n := g.R.Intn(40)
		b := make([]byte, n)
		for j := range b {
			b[j] = alphabet[g.R.Intn(len(alphabet))]
		}
		if g.R.Intn(3) == 0 {
			b = append(b, []byte(";"+negoNames[3+g.R.Intn(2)]+"="+negoValue(g.R))...)
		}
		emit(string(b))
	}
}

func genNegoAtoi(g *Gen) {
	emit := func(s string) {
		g.Count("atoi")
		g.Emit("nego atoi %s", hx([]byte(s)))
	}
	for _, s := range []string{"", "+", "-", "0", "-0", "+0", "00", "7", "8", "15", "16", "+15", "-15", " 15", "15 ", "1 5",
		"9223372036854775806", "9223372036854775807", "9223372036854775808", "-9223372036854775807", "-9223372036854775808",
		"-9223372036854775809", "18446744073709551615", "18446744073709551616", "18446744073709551620", "1844674407370955161",
		"1844674407370955162", "99999999999999999999", "99999999999999999999x", "9x9999999999999999999", "-99999999999999999999x",
		"000000000000000000000000000000012", "-000000000000000000000000000000012", "+-1", "--1", "1-", "1+", "0x10", "1_000", "1e3",
		"12345678901234567", "123456789012345678", "1234567890123456789", "12345678901234567890", "123456789012345678a", "a23456789012345678"} {
		emit(s)
	}
	for v := -20; v <= 20; v++ {
		emit(strconv.Itoa(v))
	}
	digits := []byte("0123456789")
	for i := 0; i < g.pick(1500, 30000); i++ {
		n := g.R.Intn(24)
		b := make([]byte, 0, n+2)
		switch g.R.Intn(4) {
		case 0:
			b = append(b, '-')
		case 1:
			b = append(b, '+')
		}
		for j := 0; j < n; j++ {
			b = append(b, digits[g.R.Intn(10)])
		}
		if g.R.Intn(6) == 0 && len(b) > 0 {
			b[g.R.Intn(len(b))] = []byte("x -+_.")[g.R.Intn(6)]
		}
		emit(string(b))
	}
}
