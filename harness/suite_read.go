package main

import (
	"math"
	"fmt"
	"strconv"
	"strings"
	"time"

	"github.com/lxzan/gws"
)

func init() {
	register(&Suite{Name: "read", Gen: genRead, Exec: execRead, Isolated: true})
}

type readCfg struct {
	server  bool
	pd      bool
	dpsBits int // -1 = no context takeover in the inbound direction
	limit   int
	utf8    bool
}

func (c readCfg) String() string {
	role := "c"
	if c.server {
		role = "s"
	}
	dps := "off"
	if c.dpsBits >= 0 {
		dps = strconv.Itoa(c.dpsBits)
	}
	return fmt.Sprintf("%s %s %s %d %s", role, b2s(c.pd), dps, c.limit, b2s(c.utf8))
}

func parseReadCfg(a []string) readCfg {
	c := readCfg{server: a[0] == "s", pd: a[1] == "1", dpsBits: -1, utf8: a[4] == "1"}
	if a[2] != "off" {
		c.dpsBits, _ = strconv.Atoi(a[2])
	}
	c.limit, _ = strconv.Atoi(a[3])
	return c
}

// newReadConn builds a real connection of the given role/config whose peer is the raw end.
func newReadConn(c readCfg, h gws.Event) (*gws.Conn, *memConn, *memConn, error) {
	if c.server {
		opt := &gws.ServerOption{ReadMaxPayloadSize: c.limit, CheckUtf8Enabled: c.utf8}
		ext := ""
		if c.pd {
			opt.PermessageDeflate = gws.PermessageDeflate{Enabled: true, ClientContextTakeover: c.dpsBits >= 0, ClientMaxWindowBits: c.dpsBits, ServerContextTakeover: false, PoolSize: 1}
			ext = "permessage-deflate; client_max_window_bits"
		}
		return serverConnRaw(opt, h, ext)
	}
	opt := &gws.ClientOption{ReadMaxPayloadSize: c.limit, CheckUtf8Enabled: c.utf8}
	ext := ""
	if c.pd {
		opt.PermessageDeflate = gws.PermessageDeflate{Enabled: true, ServerContextTakeover: true, ClientContextTakeover: true}
		ext = "permessage-deflate; client_no_context_takeover"
		if c.dpsBits >= 0 {
			ext += "; server_max_window_bits=" + strconv.Itoa(c.dpsBits)
		} else {
			ext += "; server_no_context_takeover"
		}
	}
	return clientConnRaw(opt, h, ext, nil)
}

// runReadOnce feeds the stream (then end-of-stream) to a fresh connection with the given read
// chunking and returns the canonical observation.
func runReadOnce(c readCfg, stream []byte, chunk func(int) int) string {
	h := newRecorder()
	conn, local, peer, err := newReadConn(c, h)
	if err != nil {
		return "handshake-failed:" + strings.Join(strings.Fields(err.Error()), "_")
	}
	local.SetReadChunk(chunk)
	local.Inject(stream)
	local.PeerGone()
	done := make(chan string, 1)
	go func() {
		defer func() {
			if e := recover(); e != nil {
				done <- "panic(" + strings.Join(strings.Fields(fmt.Sprint(e)), "_") + ")"
			}
		}()
		conn.ReadLoop()
		done <- ""
	}()
	var panicked string
	select {
	case panicked = <-done:
	case <-time.After(30 * time.Second):
		return "HANG"
	}
	_ = peer
	evs := h.Events()
	if panicked != "" {
		return strings.Join(evs, ";") + "|" + panicked + "|panic"
	}
	// lifecycle: open first, close last and exactly once
	if len(evs) < 2 || evs[0] != "open" || !strings.HasPrefix(evs[len(evs)-1], "close:") {
		return "lifecycle-violation:" + strings.Join(evs, ";")
	}
	mid := evs[1 : len(evs)-1]
	for _, e := range mid {
		if e == "open" || strings.HasPrefix(e, "close:") {
			return "lifecycle-violation:" + strings.Join(evs, ";")
		}
	}
	closeArg := strings.TrimPrefix(evs[len(evs)-1], "close:")
	if strings.HasPrefix(closeArg, "err(") {
		closeArg = "err"
	}
	if closeArg == "nil" {
		closeArg = "NIL-ERROR"
	}
	midStr := "-"
	if len(mid) > 0 {
		midStr = strings.Join(mid, ";")
	}
	out := midStr + "|" + closeArg + "|" + closeReply(local.Tap())
	if !local.IsClosed() {
		out += "|transport-left-open"
	}
	return out
}

func execRead(args []string) string {
	c := parseReadCfg(args)
	stream := unhx(args[5])
	r := NewRand(hashString(args[5]) ^ 0x5555)
	all := runReadOnce(c, stream, nil)
	if c.limit > 1<<30 {
		return all // multi-GiB buffers: one chunking only (each run has to fault in the whole allocation)
	}
	one := runReadOnce(c, stream, func(int) int { return 1 })
	rnd := runReadOnce(c, stream, func(avail int) int { return 1 + r.Intn(7) })
	if all != one || all != rnd {
		return "chunk-dependent: all=" + all + " one=" + one + " rnd=" + rnd
	}
	return all
}

// ---- generator --------------------------------------------------------------------------------

func genRead(g *Gen) {
	emit := func(c readCfg, stream []byte) { g.Emit("read %s %s", c.String(), hx(stream)) }
	key := [4]byte{0x11, 0x22, 0x33, 0x44}
	closeFrame := func(masked bool) []byte {
		return frameSpec{fin: true, opcode: 8, masked: masked, key: key, payload: []byte{0x03, 0xe8}}.bytes()
	}
	// 1. exhaustive single-frame sweep: FIN × RSV1-3 × opcode × mask × length class, in each reader
	// state (idle / inside a text message / inside a compressed binary message), both roles, pd on/off
	type lenClass struct {
		form int
		n    int
		decl uint64
		over bool
	}
	classes := []lenClass{{7, 0, 0, false}, {7, 1, 0, false}, {7, 125, 0, false}, {16, 126, 0, false}, {16, 5, 0, false}, {64, 5, 0, false},
		{64, 0, 1 << 63, true}, {64, 0, 0xffffffffffffffff, true}}
	if !g.Thorough() {
		classes = []lenClass{{7, 0, 0, false}, {7, 3, 0, false}, {7, 125, 0, false}, {16, 126, 0, false}, {64, 5, 0, false}, {64, 0, 1 << 63, true}}
	}
	for _, server := range []bool{true, false} {
		for _, pd := range []bool{false, true} {
			c := readCfg{server: server, pd: pd, dpsBits: -1, limit: 4096, utf8: true}
			if pd {
				c.dpsBits = 9
			}
			for state := 0; state < 3; state++ {
				if state == 2 && !pd {
					continue
				}
				var prefix []byte
				switch state {
				case 1:
					prefix = frameSpec{fin: false, opcode: 1, masked: server, key: key, payload: []byte("ab")}.bytes()
				case 2:
					comp := deflateRaw([]byte("hello hello hello"), nil, 1)
					prefix = frameSpec{fin: false, rsv1: true, opcode: 2, masked: server, key: key, payload: comp[:2]}.bytes()
				}
				for bits := 0; bits < 16; bits++ { // FIN RSV1 RSV2 RSV3
					for op := byte(0); op < 16; op++ {
						for _, masked := range []bool{false, true} {
							for _, lc := range classes {
								if !g.Thorough() && (bits&3 != 0) && (op > 2 && op < 8 || op > 10) {
									continue // quick: RSV2/3 × reserved opcodes is covered by the thorough tier
								}
								f := frameSpec{fin: bits&8 != 0, rsv1: bits&4 != 0, rsv2: bits&2 != 0, rsv3: bits&1 != 0, opcode: op, masked: masked, key: key,
									lenForm: lc.form, payload: bytesOf(lc.n, 'x'), overrideLen: lc.over, declLen: lc.decl}
								if state == 2 && op == 0 && f.fin && !lc.over {
									// make the continuation complete a valid compressed message where possible
									comp := deflateRaw([]byte("hello hello hello"), nil, 1)
									f.payload = comp[2:]
									f.lenForm = 0
								}
								stream := append(append([]byte(nil), prefix...), f.bytes()...)
								stream = append(stream, closeFrame(server)...)
								emit(c, stream)
								g.Count("sweep")
							}
						}
					}
				}
			}
		}
	}
	// 2. structured random sequences of valid frames with one optional violation
	nSeq := g.pick(1500, 6000)
	for i := 0; i < nSeq; i++ {
		c := readCfg{server: g.R.Bool(), pd: g.R.Bool(), dpsBits: -1, limit: []int{16, 125, 126, 1000, 70000}[g.R.Intn(5)], utf8: g.R.Bool()}
		if c.pd && g.R.Bool() {
			c.dpsBits = 8 + g.R.Intn(8)
		}
		emit(c, randomStream(g, c))
		g.Count("random")
	}
	// 3. malformed: truncations at every offset and bit flips of valid streams, random bytes
	for i := 0; i < g.pick(20, 120); i++ {
		c := readCfg{server: g.R.Bool(), pd: g.R.Bool(), dpsBits: -1, limit: 1000, utf8: true}
		if c.pd {
			c.dpsBits = 10
		}
		s := randomStream(g, c)
		if len(s) > 300 {
			s = s[:300]
		}
		for cut := 0; cut <= len(s); cut += 1 + len(s)/g.pick(12, 60) {
			emit(c, s[:cut])
			g.Count("truncated")
		}
		for j := 0; j < g.pick(10, 40); j++ {
			m := append([]byte(nil), s...)
			if len(m) > 0 {
				m[g.R.Intn(len(m))] ^= 1 << uint(g.R.Intn(8))
			}
			emit(c, m)
			g.Count("bitflip")
		}
		emit(c, g.R.Bytes(g.R.Intn(64)))
		g.Count("garbage")
	}
	// 4. length-field extremes
	for _, server := range []bool{true, false} {
		for _, decl := range []uint64{0x7fffffffffffffff, 0x8000000000000000, 0xffffffffffffffff, 0x100000000, 0xffffffff, 0x80000000, 0x7fffffff, 65536, 65535} {
			for _, op := range []byte{1, 2, 0, 9, 8} {
				c := readCfg{server: server, dpsBits: -1, limit: 1 << 20, utf8: true}
				f := frameSpec{fin: true, opcode: op, masked: server, key: key, lenForm: 64, overrideLen: true, declLen: decl, payload: bytesOf(8, 'z')}
				emit(c, f.bytes())
				g.Count("extreme")
			}
		}
	}
	// 4b. limits at and above 2^31: the declared length is accepted by the limit check, the buffer request must not wrap
	for i, decl := range []uint64{1<<31 + 5, 1<<31 - 9, 1<<32 + 5} {
		if i > 0 && !g.Thorough() {
			break
		}
		c := readCfg{server: true, dpsBits: -1, limit: 1 << 33, utf8: false}
		f := frameSpec{fin: true, opcode: 2, masked: true, key: key, lenForm: 64, overrideLen: true, declLen: decl, payload: bytesOf(8, 'z')}
		emit(c, f.bytes())
		g.Count("hugelimit")
	}
	genReadLimits(g, emit)
	genReadUtf8(g, emit)
	genReadClose(g, emit)
}

func bytesOf(n int, ch byte) []byte {
	b := make([]byte, n)
	for i := range b {
		b[i] = ch
	}
	return b
}

// randomStream: mostly valid traffic (fragmented, compressed, interleaved control frames) ending in
// a Close frame; with probability 1/2 one frame is replaced by a violating variant.
func randomStream(g *Gen, c readCfg) []byte {
	r := g.R
	var out []byte
	var hist []byte // decompression history (only when context takeover)
	nMsg := 1 + r.Intn(5)
	violateAt := -1
	if r.Bool() {
		violateAt = r.Intn(nMsg)
	}
	key := func() [4]byte { var k [4]byte; copy(k[:], r.Bytes(4)); return k }
	ctl := func() []byte {
		op := []byte{9, 10}[r.Intn(2)]
		return frameSpec{fin: true, opcode: op, masked: c.server, key: key(), payload: r.Bytes(r.Intn(12))}.bytes()
	}
	for m := 0; m < nMsg; m++ {
		op := byte(1 + r.Intn(2))
		size := []int{0, 1, 5, 30, 125, 126, 300, c.limit - 1, c.limit, c.limit + 1}[r.Intn(10)]
		if size < 0 {
			size = 0
		}
		if size > 100000 {
			size = 100000
		}
		var payload []byte
		if op == 1 {
			payload = r.Text(size)
		} else {
			payload = r.Bytes(size)
		}
		if len(hist) > 20 && r.Intn(3) == 0 && size > 20 { // repeat earlier content to exercise the dictionary
			copy(payload, hist[len(hist)-20:])
		}
		compressed := c.pd && r.Intn(3) != 0
		wire := payload
		if compressed {
			var dict []byte
			if c.dpsBits >= 0 {
				dict = hist
				if len(dict) > 1<<c.dpsBits {
					dict = dict[len(dict)-(1<<c.dpsBits):]
				}
			}
			if r.Intn(4) == 0 {
				wire = deflateFinal(payload, dict, 1+r.Intn(9)) // a stream ending in a final block
			} else {
				wire = deflateRaw(payload, dict, 1+r.Intn(9))
			}
			if c.dpsBits >= 0 {
				hist = append(hist, payload...)
			}
		}
		// fragment
		nFrag := 1
		if r.Intn(3) == 0 {
			nFrag = 2 + r.Intn(3)
		}
		var frames [][]byte
		rest := wire
		for i := 0; i < nFrag; i++ {
			n := len(rest)
			if i < nFrag-1 {
				n = r.Intn(len(rest) + 1)
			}
			f := frameSpec{fin: i == nFrag-1, rsv1: compressed && i == 0, opcode: op, masked: c.server, key: key(), payload: rest[:n]}
			if i > 0 {
				f.opcode = 0
			}
			if m == violateAt && i == nFrag-1 {
				switch r.Intn(9) {
				case 0:
					f.masked = !f.masked
				case 1:
					f.rsv2 = true
				case 2:
					f.rsv3 = true
				case 3:
					f.rsv1 = !f.rsv1
				case 4:
					f.opcode = byte(3 + r.Intn(5))
				case 5:
					f.opcode = 0
					if nFrag > 1 {
						f.opcode = op
					}
				case 6:
					frames = append(frames, frameSpec{fin: false, opcode: 9, masked: c.server, key: key()}.bytes())
				case 7:
					frames = append(frames, frameSpec{fin: true, opcode: 9, masked: c.server, key: key(), payload: bytesOf(126, 'p')}.bytes())
				case 8:
					f.payload = append(append([]byte(nil), f.payload...), 0xff, 0xfe) // invalid UTF-8 / corrupt deflate
				}
			}
			frames = append(frames, f.bytes())
			rest = rest[n:]
			if i < nFrag-1 && r.Intn(2) == 0 {
				frames = append(frames, ctl())
			}
		}
		for _, f := range frames {
			out = append(out, f...)
		}
		if r.Intn(3) == 0 {
			out = append(out, ctl()...)
		}
	}
	body := []byte{0x03, 0xe8}
	if r.Intn(3) == 0 {
		body = append([]byte{byte(r.Intn(20)), byte(r.Intn(256))}, r.Text(r.Intn(10))...)
	}
	out = append(out, frameSpec{fin: true, opcode: 8, masked: c.server, key: key(), payload: body}.bytes()...)
	if r.Intn(4) == 0 {
		out = append(out, frameSpec{fin: true, opcode: 1, masked: c.server, key: key(), payload: []byte("after close")}.bytes()...)
	}
	return out
}

// genReadLimits: C13 — sizes around the limit as one frame / fragments / compressed / bombs.
func genReadLimits(g *Gen, emit func(readCfg, []byte)) {
	key := [4]byte{9, 8, 7, 6}
	limits := []int{1, 16, 125, 126, 4096, 65535, 65536}
	if g.Thorough() {
		limits = append(limits, 1<<20)
	}
	for _, limit := range limits {
		for _, server := range []bool{true, false} {
			for _, size := range []int{limit - 1, limit, limit + 1, 4 * limit} {
				if size < 0 || size > 5<<20 {
					continue
				}
				payload := bytesOf(size, 'a')
				c := readCfg{server: server, dpsBits: -1, limit: limit}
				// one frame
				emit(c, frameSpec{fin: true, opcode: 2, masked: server, key: key, payload: payload}.bytes())
				// fragments: 2..5 pieces
				for _, k := range []int{2, 5} {
					var s []byte
					for i := 0; i < k; i++ {
						lo, hi := size*i/k, size*(i+1)/k
						op := byte(0)
						if i == 0 {
							op = 2
						}
						s = append(s, frameSpec{fin: i == k-1, opcode: op, masked: server, key: key, payload: payload[lo:hi]}.bytes()...)
					}
					emit(c, s)
				}
				// compressed, highly compressible (ratio up to ~1000): wire size far below the limit
				cc := readCfg{server: server, pd: true, dpsBits: -1, limit: limit}
				comp := deflateRaw(payload, nil, 9)
				emit(cc, frameSpec{fin: true, rsv1: true, opcode: 2, masked: server, key: key, payload: comp}.bytes())
				if len(comp) >= 2 {
					s := frameSpec{fin: false, rsv1: true, opcode: 2, masked: server, key: key, payload: comp[:len(comp)/2]}.bytes()
					s = append(s, frameSpec{fin: true, opcode: 0, masked: server, key: key, payload: comp[len(comp)/2:]}.bytes()...)
					emit(cc, s)
				}
				// compressed, ending in a BFINAL=1 block (the inflater hands out its last bytes together with EOF):
				// incompressible content so that the final chunk is what crosses the limit
				fin := g.R.Bytes(size)
				emit(cc, frameSpec{fin: true, rsv1: true, opcode: 2, masked: server, key: key, payload: deflateFinal(fin, nil, 1)}.bytes())
				emit(cc, frameSpec{fin: true, rsv1: true, opcode: 2, masked: server, key: key, payload: deflateFinal(payload, nil, 9)}.bytes())
				// compressed, incompressible: wire size may exceed the limit while the payload does not
				rnd := g.R.Bytes(size)
				emit(cc, frameSpec{fin: true, rsv1: true, opcode: 2, masked: server, key: key, payload: deflateRaw(rnd, nil, 1)}.bytes())
				g.Count("limits")
			}
		}
	}
	// "no limit": the largest configurable values (a limit of MaxInt is the usual way to say unlimited; limit+1 overflows).
	// Messages of ordinary size, plain, fragmented and compressed, must be delivered as with any other limit above their size.
	for _, limit := range []int{math.MaxInt64, math.MaxInt64 - 1, math.MaxInt32, math.MaxInt32 + 1, 1 << 40} {
		for _, server := range []bool{true, false} {
			payload := bytesOf(720, 'a')
			c := readCfg{server: server, dpsBits: -1, limit: limit}
			emit(c, frameSpec{fin: true, opcode: 2, masked: server, key: key, payload: payload}.bytes())
			cc := readCfg{server: server, pd: true, dpsBits: -1, limit: limit}
			comp := deflateRaw(payload, nil, 9)
			emit(cc, frameSpec{fin: true, rsv1: true, opcode: 2, masked: server, key: key, payload: comp}.bytes())
			s := frameSpec{fin: false, rsv1: true, opcode: 2, masked: server, key: key, payload: comp[:len(comp)/2]}.bytes()
			s = append(s, frameSpec{fin: true, opcode: 0, masked: server, key: key, payload: comp[len(comp)/2:]}.bytes()...)
			emit(cc, s)
			emit(cc, frameSpec{fin: true, rsv1: true, opcode: 1, masked: server, key: key, payload: deflateFinal([]byte("hello hello hello"), nil, 1)}.bytes())
			ct := readCfg{server: server, pd: true, dpsBits: 10, limit: limit}
			emit(ct, frameSpec{fin: true, rsv1: true, opcode: 2, masked: server, key: key, payload: deflateRaw(g.R.Bytes(300), nil, 1)}.bytes())
			g.Count("limits-max")
		}
	}
	// bombs: a few hundred wire bytes inflating to far more than the limit
	for _, limit := range []int{1000, 65536} {
		bomb := deflateRaw(bytesOf(g.pick(1<<20, 8<<20), 0), nil, 9)
		emit(readCfg{server: true, pd: true, dpsBits: -1, limit: limit}, frameSpec{fin: true, rsv1: true, opcode: 2, masked: true, key: key, payload: bomb}.bytes())
		g.Count("bomb")
	}
}

// genReadUtf8: C16 read side — boundary strings split into fragments, compressed or not.
func genReadUtf8(g *Gen, emit func(readCfg, []byte)) {
	key := [4]byte{1, 2, 3, 4}
	for _, s := range utf8Boundary() {
		for _, server := range []bool{true, false} {
			for _, check := range []bool{true, false} {
				for _, op := range []byte{1, 2} {
					c := readCfg{server: server, dpsBits: -1, limit: 1000, utf8: check}
					emit(c, frameSpec{fin: true, opcode: op, masked: server, key: key, payload: s}.bytes())
					for cut := 1; cut < len(s); cut++ { // every split into two fragments
						st := frameSpec{fin: false, opcode: op, masked: server, key: key, payload: s[:cut]}.bytes()
						st = append(st, frameSpec{fin: true, opcode: 0, masked: server, key: key, payload: s[cut:]}.bytes()...)
						emit(c, st)
					}
					if op == 1 && check {
						cc := readCfg{server: server, pd: true, dpsBits: 8, limit: 1000, utf8: true}
						comp := deflateRaw(s, nil, 6)
						emit(cc, frameSpec{fin: true, rsv1: true, opcode: 1, masked: server, key: key, payload: comp}.bytes())
						// close frame with this reason
						emit(c, frameSpec{fin: true, opcode: 8, masked: server, key: key, payload: append([]byte{0x03, 0xe8}, s...)}.bytes())
					}
					g.Count("utf8")
				}
			}
		}
	}
}

// utf8Boundary returns boundary strings of every UTF-8 sequence class, valid and invalid.
func utf8Boundary() [][]byte {
	return [][]byte{
		{}, {0x00}, {0x7f}, {0x80}, {0xbf}, {0xc0, 0x80}, {0xc1, 0xbf}, {0xc2, 0x80}, {0xdf, 0xbf}, {0xc2}, {0xc2, 0x7f}, {0xc2, 0xc0},
		{0xe0, 0xa0, 0x80}, {0xe0, 0x9f, 0xbf}, {0xe0, 0xa0}, {0xe1, 0x80, 0x80}, {0xec, 0xbf, 0xbf}, {0xed, 0x9f, 0xbf}, {0xed, 0xa0, 0x80}, {0xed, 0xbf, 0xbf},
		{0xee, 0x80, 0x80}, {0xef, 0xbf, 0xbf}, {0xef, 0xbf}, {0xe4, 0xb8, 0xad}, {0xe4, 0xb8}, {0xe4},
		{0xf0, 0x90, 0x80, 0x80}, {0xf0, 0x8f, 0xbf, 0xbf}, {0xf0, 0x90, 0x80}, {0xf1, 0x80, 0x80, 0x80}, {0xf3, 0xbf, 0xbf, 0xbf}, {0xf4, 0x8f, 0xbf, 0xbf},
		{0xf4, 0x90, 0x80, 0x80}, {0xf5, 0x80, 0x80, 0x80}, {0xf8, 0x88, 0x80, 0x80, 0x80}, {0xff}, {0xfe}, {0xf0, 0x9f, 0x98, 0x80},
		{0xef, 0xbf, 0xbd}, {0xef, 0xbb, 0xbf}, {0xef, 0xbf, 0xbe}, {0xed, 0x9f, 0xbf, 0xee, 0x80, 0x80}, []byte("x\xef\xbf\xbdy"), []byte("\xef\xbf\xbd\xef\xbf\xbd"),
		[]byte("a\xe4\xb8\xadb"), []byte("ab\xc2"), []byte("\xf0\x9f\x98\x80\xf0\x9f\x98"), []byte("ok \xed\xa0\x80 surrogate"),
	}
}

// genReadClose: C06 — close bodies: codes × reasons through a real connection.
func genReadClose(g *Gen, emit func(readCfg, []byte)) {
	key := [4]byte{5, 6, 7, 8}
	var codes []int
	add := func(lo, hi int) {
		for c := lo; c <= hi; c++ {
			codes = append(codes, c)
		}
	}
	if g.Thorough() {
		add(0, 65535)
	} else {
		add(0, 20)
		add(990, 1030)
		add(2990, 3010)
		add(4990, 5010)
		add(65530, 65535)
		for i := 0; i < 150; i++ {
			codes = append(codes, g.R.Intn(65536))
		}
	}
	for _, code := range codes {
		c := readCfg{server: code%2 == 0, dpsBits: -1, limit: 1000, utf8: true}
		emit(c, frameSpec{fin: true, opcode: 8, masked: c.server, key: key, payload: []byte{byte(code >> 8), byte(code)}}.bytes())
		g.Count("closecode")
	}
	reasons := [][]byte{{}, []byte("bye"), bytesOf(123, 'r'), {0xff}, {0xe4, 0xb8}, append(bytesOf(120, 'r'), 0xe4, 0xb8, 0xad)}
	for _, code := range []int{0, 999, 1000, 1001, 1003, 1004, 1005, 1006, 1007, 1011, 1012, 1013, 1014, 1015, 1016, 2999, 3000, 4999, 5000, 65535} {
		for _, reason := range reasons {
			for _, server := range []bool{true, false} {
				for _, check := range []bool{true, false} {
					c := readCfg{server: server, dpsBits: -1, limit: 1000, utf8: check}
					body := append([]byte{byte(code >> 8), byte(code)}, reason...)
					emit(c, frameSpec{fin: true, opcode: 8, masked: server, key: key, payload: body}.bytes())
					g.Count("closereason")
				}
			}
		}
	}
	for _, server := range []bool{true, false} {
		c := readCfg{server: server, dpsBits: -1, limit: 1000, utf8: true}
		emit(c, frameSpec{fin: true, opcode: 8, masked: server, key: key}.bytes())
		emit(c, frameSpec{fin: true, opcode: 8, masked: server, key: key, payload: []byte{0x03}}.bytes())
		emit(c, frameSpec{fin: true, opcode: 8, masked: server, key: key, payload: []byte{0xff}}.bytes())
	}
}
