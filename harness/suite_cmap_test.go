package main

import (
	"testing"
	"time"

	"github.com/anishathalye/porcupine"
)

// Tests of the *checkers* used by the cmapconc suite (the suite itself only ever sees linearizable
// histories unless gws is broken, so the checkers' ability to say "no" is tested here).

func st(k, v int, c, r int64) porcupine.Operation {
	return porcupine.Operation{Input: regIn{'s', k, v}, Call: c, Output: regOut{}, Return: r}
}
func dl(k int, c, r int64) porcupine.Operation {
	return porcupine.Operation{Input: regIn{'d', k, 0}, Call: c, Output: regOut{}, Return: r}
}
func ld(k, v int, ok bool, c, r int64) porcupine.Operation {
	return porcupine.Operation{Input: regIn{'l', k, 0}, Call: c, Output: regOut{v, ok}, Return: r}
}

func TestRegisterCheckerHandmade(t *testing.T) {
	cases := []struct {
		name string
		h    []porcupine.Operation
		want bool
	}{
		{"empty", nil, true},
		{"absent-initially", []porcupine.Operation{ld(0, 0, false, 1, 2)}, true},
		{"phantom", []porcupine.Operation{ld(0, 5, true, 1, 2)}, false},
		{"sequential", []porcupine.Operation{st(0, 5, 1, 2), ld(0, 5, true, 3, 4), dl(0, 5, 6), ld(0, 0, false, 7, 8)}, true},
		{"stale-read", []porcupine.Operation{st(0, 5, 1, 2), st(0, 6, 3, 4), ld(0, 5, true, 5, 6)}, false},
		{"lost-store", []porcupine.Operation{st(0, 5, 1, 2), ld(0, 0, false, 3, 4)}, false},
		{"resurrected", []porcupine.Operation{st(0, 5, 1, 2), dl(0, 3, 4), ld(0, 5, true, 5, 6)}, false},
		{"concurrent-either-order", []porcupine.Operation{st(0, 5, 1, 10), st(0, 6, 2, 9), ld(0, 5, true, 11, 12)}, true},
		{"concurrent-read-old", []porcupine.Operation{st(0, 5, 1, 2), st(0, 6, 3, 10), ld(0, 5, true, 4, 9)}, true},
		{"read-before-write-called", []porcupine.Operation{ld(0, 5, true, 1, 2), st(0, 5, 3, 4)}, false},
		// two loads that see the two concurrent stores in opposite orders
		{"flip-flop", []porcupine.Operation{st(0, 5, 1, 20), st(0, 6, 2, 21), ld(0, 5, true, 3, 4), ld(0, 6, true, 5, 6), ld(0, 5, true, 7, 8)}, false},
		// a pending store must be flushed *before* the needed one: 5 is read, then 6 must outlive the return of store 5
		{"flush-before", []porcupine.Operation{st(0, 5, 1, 6), st(0, 6, 2, 30), ld(0, 5, true, 3, 4), ld(0, 6, true, 5, 7), ld(0, 6, true, 10, 11)}, true},
		{"delete-between", []porcupine.Operation{st(0, 5, 1, 2), dl(0, 3, 10), ld(0, 0, false, 4, 5), ld(0, 5, true, 6, 7)}, false},
		{"two-deletes", []porcupine.Operation{st(0, 5, 1, 2), dl(0, 3, 4), st(0, 6, 5, 6), dl(0, 7, 20), ld(0, 6, true, 8, 9), ld(0, 0, false, 10, 11)}, true},
	}
	for _, c := range cases {
		if got := registerLinearizable(c.h); got != c.want {
			t.Errorf("%s: own checker says %v, want %v", c.name, got, c.want)
		}
		if got := porcupine.CheckOperations(registerModel, c.h); got != c.want {
			t.Errorf("%s: porcupine says %v, want %v", c.name, got, c.want)
		}
	}
}

// Random small histories, valid by construction and then possibly corrupted: the register-specific
// checker must agree with porcupine on every one of them.
func TestRegisterCheckerAgainstPorcupine(t *testing.T) {
	r := NewRand(12345)
	legal, illegal := 0, 0
	for iter := 0; iter < 4000; iter++ {
		n := 2 + r.Intn(14)
		width := 1 + r.Intn(6)
		// choose linearization points 10,20,30,…; intervals around them reach over up to `width` neighbours
		cur := -1
		var h []porcupine.Operation
		for i := 0; i < n; i++ {
			p := int64(10 * (i + 1))
			c := p - 1 - int64(r.Intn(10*width))
			rt := p + 1 + int64(r.Intn(10*width))
			c, rt = c*100+int64(i), rt*100+50+int64(i) // distinct instants
			switch r.Intn(5) {
			case 0, 1:
				h = append(h, st(0, i+1, c, rt))
				cur = i + 1
			case 2:
				h = append(h, dl(0, c, rt))
				cur = -1
			default:
				if cur == -1 {
					h = append(h, ld(0, 0, false, c, rt))
				} else {
					h = append(h, ld(0, cur, true, c, rt))
				}
			}
		}
		if r.Intn(2) == 0 { // corrupt one load (may or may not stay linearizable)
			for tries := 0; tries < 5; tries++ {
				j := r.Intn(len(h))
				if h[j].Input.(regIn).kind == 'l' {
					if r.Intn(3) == 0 {
						h[j].Output = regOut{0, false}
					} else {
						h[j].Output = regOut{1 + r.Intn(n), true}
					}
					break
				}
			}
		}
		want := porcupine.CheckOperations(registerModel, h)
		if got := registerLinearizable(h); got != want {
			t.Fatalf("iteration %d: own=%v porcupine=%v history=%+v", iter, got, want, h)
		}
		if want {
			legal++
		} else {
			illegal++
		}
	}
	if legal < 500 || illegal < 500 {
		t.Fatalf("unbalanced sample legal=%d illegal=%d", legal, illegal)
	}
}

func TestConcHistoryCheckerRejects(t *testing.T) {
	stable := []kv{{100, 1100}, {101, 1101}, {102, 1102}, {103, 1103}}
	base := func() []porcupine.Operation {
		var ops []porcupine.Operation
		for i, e := range stable {
			ops = append(ops, st(e.k, e.v, int64(-8+2*i), int64(-7+2*i)))
		}
		return ops
	}
	allStable := append([]kv(nil), stable...)
	mut := []mutOp{{span{1, 2}, true, 0, 7}} // key 0 stored at [1,2], never deleted
	ops := append(base(), st(0, 7, 1, 2))
	check := func(name, want string, lens []lenObs, ranges []rangeObs) {
		t.Helper()
		if got := checkConcHistory(ops, mut, lens, ranges, stable, 2); (got == "ok") != (want == "ok") || (want != "ok" && len(got) < len(want)) || (want != "ok" && got[:len(want)] != want) {
			t.Errorf("%s: got %q want prefix %q", name, got, want)
		}
	}
	full := append(append([]kv(nil), allStable...), kv{0, 7})
	check("good", "ok", []lenObs{{span{3, 4}, 5}}, []rangeObs{{span: span{3, 4}, seen: full}})
	check("len-low", "len-out-of-bounds", []lenObs{{span{3, 4}, 4}}, nil)
	check("len-high", "len-out-of-bounds", []lenObs{{span{3, 4}, 6}}, nil)
	check("len-overlapping-store-either", "ok", []lenObs{{span{0, 4}, 4}, {span{0, 4}, 5}}, nil)
	check("range-twice", "range-key-twice", nil, []rangeObs{{span: span{3, 4}, seen: append(append([]kv(nil), full...), kv{0, 7})}})
	check("range-missed-untouched", "range-missed-untouched-entry", nil, []rangeObs{{span: span{3, 4}, seen: full[1:]}})
	check("range-missed-present", "range-missed-present-key", nil, []rangeObs{{span: span{3, 4}, seen: allStable}})
	check("range-phantom", "range-phantom-entry", nil, []rangeObs{{span: span{3, 4}, seen: append(append([]kv(nil), allStable...), kv{0, 8})}})
	check("range-after-false", "range-callback-after-false", nil, []rangeObs{{span: span{3, 4}, stopAfter: 1, seen: full[:2], afterFalse: 1}})
	check("range-too-many", "range-too-many-calls", nil, []rangeObs{{span: span{3, 4}, stopAfter: 1, seen: full[:2]}})
	check("range-stopped-early", "range-stopped-early", nil, []rangeObs{{span: span{3, 4}, stopAfter: 5, seen: full[:2]}})
	// key 1 was stored and then deleted before the Range was called, yet the Range reports it
	ops = append(ops, st(1, 9, 10, 11), dl(1, 12, 13))
	mut = append(mut, mutOp{span{10, 11}, true, 1, 9}, mutOp{span{12, 13}, false, 1, 0})
	check("range-absent", "range-visited-absent-key", nil, []rangeObs{{span: span{14, 15}, seen: append(append([]kv(nil), full...), kv{1, 9})}})
	check("range-not-absent-if-overlapping", "ok", nil, []rangeObs{{span: span{11, 15}, seen: append(append([]kv(nil), full...), kv{1, 9})}})
	// and a stale load makes the whole history non-linearizable
	ops = append(ops, ld(0, 0, false, 5, 6))
	check("stale-load", "not-linearizable", nil, nil)
}

// A few real concurrent runs, including the widest configuration (32 goroutines on one key of the
// single-mutex map), must be decided quickly.
func TestConcRunsDecideQuickly(t *testing.T) {
	for _, args := range [][]string{{"smap", "32", "1", "30", "5"}, {"3", "32", "1", "14", "874495153"}, {"def", "32", "4", "30", "5"}, {"1", "8", "2", "60", "9"}} {
		for i := 0; i < 5; i++ {
			t0 := time.Now()
			if out := execCmapConc(args); out != "ok" {
				t.Fatalf("%v: %s", args, out)
			}
			if d := time.Since(t0); d > 10*time.Second {
				t.Fatalf("%v took %v", args, d)
			}
		}
	}
}
