package main

import (
	"bytes"
	"fmt"
	"sort"
	"strings"
	"sync"
	"time"

	"github.com/lxzan/gws"
)

// Suite `own` (C14): buffer ownership observed on real connections. The pool hook (a) poisons every
// buffer at the moment the library releases it, so that any later use by the library or visibility to
// the application shows up as corrupted data, and (b) detects a buffer released twice.
func init() {
	register(&Suite{Name: "own", Gen: genOwn, Exec: execOwn, Isolated: true})
}

type poolMon struct {
	mu       sync.Mutex
	inPool   map[*bytes.Buffer]bool
	problems []string
	gets     int
	puts     int
}

func (m *poolMon) hook(kind string, obj any) {
	m.mu.Lock()
	defer m.mu.Unlock()
	switch v := obj.(type) {
	case *bytes.Buffer:
		if kind == "put" {
			m.puts++
			if m.inPool[v] {
				m.problems = append(m.problems, "double-put")
			}
			m.inPool[v] = true
			p := v.Bytes()
			p = p[:cap(p)]
			for i := range p {
				p[i] = 0xDB
			}
		} else {
			m.gets++
			delete(m.inPool, v)
		}
	case []byte:
		if kind == "put" {
			p := v[:cap(v)]
			for i := range p {
				p[i] = 0xDB
			}
		}
	}
}

func (m *poolMon) add(format string, a ...any) {
	m.mu.Lock()
	m.problems = append(m.problems, fmt.Sprintf(format, a...))
	m.mu.Unlock()
}

func (m *poolMon) verdict() string {
	m.mu.Lock()
	defer m.mu.Unlock()
	if len(m.problems) == 0 {
		return "owned-ok"
	}
	seen := map[string]bool{}
	var out []string
	for _, p := range m.problems {
		if !seen[p] {
			seen[p] = true
			out = append(out, p)
		}
	}
	sort.Strings(out)
	if len(out) > 6 {
		out = out[:6]
	}
	return strings.Join(out, ",")
}

func ownPD(on bool) gws.PermessageDeflate {
	return gws.PermessageDeflate{Enabled: on, ServerContextTakeover: true, ClientContextTakeover: true, PoolSize: 1, Threshold: 1}
}

func waitEvents(h *recorder, n int, d time.Duration) bool {
	deadline := time.Now().Add(d)
	for len(h.Events()) < n {
		if time.Now().After(deadline) {
			return false
		}
		time.Sleep(100 * time.Microsecond)
	}
	return true
}

func execOwn(args []string) string {
	mon := &poolMon{inPool: map[*bytes.Buffer]bool{}}
	gws.VerifSetPoolHook(mon.hook)
	defer gws.VerifSetPoolHook(nil)
	r := NewRand(hashString(strings.Join(args, " ")))
	pd := len(args) > 2 && args[2] == "1"
	switch args[0] {
	case "write-apis": // own write-apis <sender s|c> <pd>: caller payloads are neither modified nor read after the call
		sh, ch := newRecorder(), newRecorder()
		s, c, _, _, err := handshakePair(&gws.ServerOption{PermessageDeflate: ownPD(pd)}, &gws.ClientOption{PermessageDeflate: ownPD(pd)}, sh, ch)
		if err != nil {
			return "handshake-failed"
		}
		go s.ReadLoop()
		go c.ReadLoop()
		sender, recvH := s, ch
		if args[1] == "c" {
			sender, recvH = c, sh
		}
		var want []string
		scribble := func(p []byte) {
			for i := range p {
				p[i] = 0xEE
			}
		}
		sizes := []int{0, 1, 125, 126, 700, 70000}
		for i, n := range sizes {
			p := r.Text(n)
			q := append([]byte(nil), p...)
			var err error
			api := i % 5
			done := make(chan error, 1)
			switch api {
			case 0:
				err = sender.WriteMessage(gws.OpcodeText, p)
			case 1:
				err = sender.Writev(gws.OpcodeText, p[:n/2], p[n/2:])
			case 2:
				sender.WriteAsync(gws.OpcodeText, p, func(e error) { done <- e })
				err = <-done
			case 3:
				err = sender.WriteString(string(p))
			case 4:
				sender.WritevAsync(gws.OpcodeText, [][]byte{p[:n/3], p[n/3:]}, func(e error) { done <- e })
				err = <-done
			}
			if err != nil {
				mon.add("write-error-api%d", api)
			}
			if !bytes.Equal(p, q) {
				mon.add("payload-modified-api%d", api)
			}
			scribble(p) // the call (or its callback) is over: the library must not look at p any more
			want = append(want, "msg:1:"+hx(q))
		}
		// ping with payload
		pp := r.Bytes(50)
		pq := append([]byte(nil), pp...)
		_ = sender.WritePing(pp)
		if !bytes.Equal(pp, pq) {
			mon.add("ping-payload-modified")
		}
		scribble(pp)
		want = append(want, "ping:"+hx(pq))
		// broadcaster: the payload must stay valid until Close and the pending sends are over
		bp := r.Text(900)
		bq := append([]byte(nil), bp...)
		b := gws.NewBroadcaster(gws.OpcodeText, bp)
		_ = b.Broadcast(sender)
		_ = b.Close()
		drainAsync(sender)
		if !bytes.Equal(bp, bq) {
			mon.add("broadcast-payload-modified")
		}
		scribble(bp)
		want = append(want, "msg:1:"+hx(bq))
		// WriteFile
		fp := r.Text(300000)
		_ = sender.WriteFile(gws.OpcodeText, bytes.NewReader(fp))
		want = append(want, "msg:1:"+hx(fp))
		if !waitEvents(recvH, 1+len(want), 5*time.Second) {
			mon.add("not-all-delivered(%d/%d)", len(recvH.Events())-1, len(want))
		}
		got := recvH.Events()
		for i, w := range want {
			if i+1 >= len(got) || got[i+1] != w {
				mon.add("delivery-%d-differs", i)
				break
			}
		}
		_ = s.WriteClose(1000, nil)
		sh.WaitClosed(time.Second)
		ch.WaitClosed(time.Second)
	case "hold-messages": // own hold-messages <receiver s|c> <pd> <parallel>: delivered payloads stay intact until Message.Close
		parallel := len(args) > 3 && args[3] == "1"
		type held struct {
			m    *gws.Message
			copy []byte
		}
		var hmu sync.Mutex
		var holds []held
		var pings [][2][]byte
		hr := newRecorder()
		hr.noAutoClose = true
		hr.onMsg = func(c *gws.Conn, m *gws.Message) {
			hmu.Lock()
			holds = append(holds, held{m, append([]byte(nil), m.Bytes()...)})
			hmu.Unlock()
		}
		hr.onPing = func(c *gws.Conn, p []byte) {
			hmu.Lock()
			pings = append(pings, [2][]byte{p, append([]byte(nil), p...)})
			hmu.Unlock()
		}
		other := newRecorder()
		sopt := &gws.ServerOption{PermessageDeflate: ownPD(pd), ParallelEnabled: parallel, ParallelGolimit: 3}
		copt := &gws.ClientOption{PermessageDeflate: ownPD(pd), ParallelEnabled: parallel, ParallelGolimit: 3}
		sh, ch := gws.Event(other), gws.Event(hr)
		if args[1] == "s" {
			sh, ch = hr, other
		}
		s, c, sc, cc, err := handshakePair(sopt, copt, sh, ch)
		if err != nil {
			return "handshake-failed"
		}
		go s.ReadLoop()
		go c.ReadLoop()
		sender := s
		recvRaw := cc
		if args[1] == "s" {
			sender, recvRaw = c, sc
		}
		_ = recvRaw
		total := 0
		for i := 0; i < 30; i++ {
			n := []int{0, 10, 125, 126, 1000, 5000, 70000}[i%7]
			_ = sender.WriteMessage(gws.OpcodeBinary, r.Bytes(n))
			total++
			if i%5 == 0 {
				_ = sender.WritePing(r.Bytes(1 + i%100))
			}
			if i%6 == 0 {
				_ = sender.WriteFile(gws.OpcodeBinary, bytes.NewReader(r.Text(200000))) // fragmented on the wire
				total++
			}
		}
		deadline := time.Now().Add(5 * time.Second)
		for {
			hmu.Lock()
			n := len(holds)
			hmu.Unlock()
			if n >= total || time.Now().After(deadline) {
				if n < total {
					mon.add("not-all-delivered(%d/%d)", n, total)
				}
				break
			}
			time.Sleep(200 * time.Microsecond)
		}
		// churn the pools with unrelated traffic on a second connection pair
		s2, c2, _, _, err := handshakePair(&gws.ServerOption{PermessageDeflate: ownPD(pd)}, &gws.ClientOption{PermessageDeflate: ownPD(pd)}, newRecorder(), newRecorder())
		if err == nil {
			go s2.ReadLoop()
			go c2.ReadLoop()
			for i := 0; i < 40; i++ {
				_ = c2.WriteMessage(gws.OpcodeBinary, r.Bytes([]int{10, 125, 1000, 5000, 70000}[i%5]))
				_ = s2.WriteMessage(gws.OpcodeBinary, r.Bytes([]int{10, 125, 1000, 5000, 70000}[i%5]))
			}
			time.Sleep(20 * time.Millisecond)
			_ = s2.WriteClose(1000, nil)
		}
		hmu.Lock()
		for i, h := range holds {
			if !bytes.Equal(h.m.Bytes(), h.copy) {
				mon.add("held-message-changed")
				_ = i
				break
			}
		}
		for _, p := range pings {
			if !bytes.Equal(p[0], p[1]) {
				mon.add("held-ping-payload-changed")
				break
			}
		}
		for _, h := range holds {
			_ = h.m.Close()
		}
		hmu.Unlock()
		_ = s.WriteClose(1000, nil)
		time.Sleep(10 * time.Millisecond)
	case "window-reuse": // own window-reuse <n>: pooled windows start empty on the next connection
		up := gws.NewUpgrader(newRecorder(), &gws.ServerOption{Logger: quietLogger{}, PermessageDeflate: ownPD(true)})
		for k := 0; k < 12; k++ {
			ch := newRecorder()
			s, c, err := connectTo(up, &gws.ClientOption{PermessageDeflate: ownPD(true)}, ch)
			if err != nil {
				return "handshake-failed"
			}
			go s.ReadLoop()
			go c.ReadLoop()
			base := r.Bytes(600)
			var want []string
			for i := 0; i < 6; i++ {
				p := append(append([]byte{byte(k), byte(i)}, base...), r.Bytes(50)...) // repeats earlier payloads: uses the dictionary
				_ = s.WriteMessage(gws.OpcodeBinary, p)
				want = append(want, "msg:2:"+hx(p))
			}
			if !waitEvents(ch, 1+len(want), 3*time.Second) {
				mon.add("conn%d-not-all-delivered", k)
			}
			got := ch.Events()
			for i, w := range want {
				if i+1 >= len(got) || got[i+1] != w {
					mon.add("conn%d-delivery-differs", k)
					break
				}
			}
			_ = c.WriteClose(1000, nil)
			ch.WaitClosed(time.Second)
			time.Sleep(2 * time.Millisecond)
		}
	case "broadcaster": // own broadcaster <closeEarly>: shared frames are released exactly once, after Close and the last pending send
		closeEarly := args[1] == "1"
		up := gws.NewUpgrader(newRecorder(), &gws.ServerOption{Logger: quietLogger{}, PermessageDeflate: ownPD(pd)})
		type pair struct {
			s  *gws.Conn
			ch *recorder
			sc *memConn
		}
		var ps []pair
		for k := 0; k < 4; k++ {
			ch := newRecorder()
			s, c, err := connectTo(up, &gws.ClientOption{PermessageDeflate: ownPD(pd && k%2 == 0)}, ch)
			if err != nil {
				return "handshake-failed"
			}
			go s.ReadLoop()
			go c.ReadLoop()
			ps = append(ps, pair{s: s, ch: ch})
		}
		var want []string
		for round := 0; round < 5; round++ {
			p := r.Text(100 + 400*round)
			b := gws.NewBroadcaster(gws.OpcodeText, p)
			if closeEarly {
				// keep the sends pending: block every connection's queue behind a gate task
				gate := make(chan struct{})
				for _, x := range ps {
					x.s.Async(func() { <-gate })
				}
				for _, x := range ps {
					_ = b.Broadcast(x.s)
				}
				_ = b.Close() // Close before any send has happened
				close(gate)
			} else {
				for _, x := range ps {
					_ = b.Broadcast(x.s)
				}
				for _, x := range ps {
					drainAsync(x.s)
				}
				_ = b.Close()
			}
			for _, x := range ps {
				drainAsync(x.s)
			}
			want = append(want, "msg:1:"+hx(p))
		}
		for k, x := range ps {
			if !waitEvents(x.ch, 1+len(want), 3*time.Second) {
				mon.add("conn%d-not-all-delivered", k)
				continue
			}
			got := x.ch.Events()
			for i, w := range want {
				if got[i+1] != w {
					mon.add("conn%d-broadcast-%d-corrupted", k, i)
					break
				}
			}
		}
		for _, x := range ps {
			_ = x.s.WriteClose(1000, nil)
		}
		time.Sleep(5 * time.Millisecond)
	default:
		return "bad-op"
	}
	return mon.verdict()
}

func genOwn(g *Gen) {
	for _, role := range []string{"s", "c"} {
		for _, pd := range []string{"0", "1"} {
			g.Emit("own write-apis %s %s", role, pd)
			g.Emit("own hold-messages %s %s 0", role, pd)
			g.Emit("own hold-messages %s %s 1", role, pd)
		}
	}
	g.Emit("own window-reuse 12 1")
	for _, early := range []string{"0", "1"} {
		for _, pd := range []string{"0", "1"} {
			g.Emit("own broadcaster %s %s", early, pd)
		}
	}
}
