package main

import (
	"bufio"
	"bytes"
	"fmt"
	"io"
	"sort"
	"strconv"
	"strings"
	"sync"
	"time"

	"github.com/lxzan/gws"
)

// Suite `own` (C14): buffer ownership observed on real connections. The pool hook (a) poisons every
// buffer at the moment the library releases it, so that any later use by the library or visibility to
// the application shows up as corrupted data, and (b) detects a buffer released twice.
func init() {
	register(&Suite{Name: "own", Gen: genOwn, Exec: execOwn, Isolated: true})
}

type poolMon struct {
	mu       sync.Mutex
	inPool   map[*bytes.Buffer]bool
	problems []string
	gets     int
	puts     int
	wins     [][]byte // windows released to their pools (poisoned by the hook)
}

func (m *poolMon) hook(kind string, obj any) {
	m.mu.Lock()
	defer m.mu.Unlock()
	switch v := obj.(type) {
	case *bytes.Buffer:
		if kind == "put" {
			m.puts++
			if m.inPool[v] {
				m.problems = append(m.problems, "double-put")
			}
			m.inPool[v] = true
			p := v.Bytes()
			p = p[:cap(p)]
			for i := range p {
				p[i] = 0xDB
			}
		} else {
			m.gets++
			delete(m.inPool, v)
		}
	case []byte:
		if kind == "put" {
			p := v[:cap(v)]
			for i := range p {
				p[i] = 0xDB
			}
			m.wins = append(m.wins, p)
		}
	}
}

// forgetWindows / windowsIntact: the windows released since forgetWindows are still exactly as the hook left them
// (only meaningful while nobody can have taken them out of their pool again)
func (m *poolMon) forgetWindows() {
	m.mu.Lock()
	m.wins = nil
	m.mu.Unlock()
}

func (m *poolMon) windowsIntact() (released int, intact bool) {
	m.mu.Lock()
	defer m.mu.Unlock()
	for _, w := range m.wins {
		for _, b := range w {
			if b != 0xDB {
				return len(m.wins), false
			}
		}
	}
	return len(m.wins), true
}

func (m *poolMon) add(format string, a ...any) {
	m.mu.Lock()
	m.problems = append(m.problems, fmt.Sprintf(format, a...))
	m.mu.Unlock()
}

func (m *poolMon) verdict() string {
	m.mu.Lock()
	defer m.mu.Unlock()
	if len(m.problems) == 0 {
		return "owned-ok"
	}
	seen := map[string]bool{}
	var out []string
	for _, p := range m.problems {
		if !seen[p] {
			seen[p] = true
			out = append(out, p)
		}
	}
	sort.Strings(out)
	if len(out) > 6 {
		out = out[:6]
	}
	return strings.Join(out, ",")
}

func ownPD(on bool) gws.PermessageDeflate {
	return gws.PermessageDeflate{Enabled: on, ServerContextTakeover: true, ClientContextTakeover: true, PoolSize: 1, Threshold: 1}
}

func waitEvents(h *recorder, n int, d time.Duration) bool {
	deadline := time.Now().Add(d)
	for len(h.Events()) < n {
		if time.Now().After(deadline) {
			return false
		}
		time.Sleep(100 * time.Microsecond)
	}
	return true
}

func execOwn(args []string) string {
	if len(args) >= 2 && args[0] == "trace" {
		return ownTrace(args[1])
	}
	mon := &poolMon{inPool: map[*bytes.Buffer]bool{}}
	gws.VerifSetPoolHook(mon.hook)
	defer gws.VerifSetPoolHook(nil)
	r := NewRand(hashString(strings.Join(args, " ")))
	pd := len(args) > 2 && args[2] == "1"
	switch args[0] {
	case "write-apis": // own write-apis <sender s|c> <pd>: caller payloads are neither modified nor read after the call
		sh, ch := newRecorder(), newRecorder()
		s, c, sraw, craw, err := handshakePair(&gws.ServerOption{PermessageDeflate: ownPD(pd)}, &gws.ClientOption{PermessageDeflate: ownPD(pd)}, sh, ch)
		if err != nil {
			return "handshake-failed"
		}
		go s.ReadLoop()
		go c.ReadLoop()
		sender, recvH, senderRaw := s, ch, sraw
		if args[1] == "c" {
			sender, recvH, senderRaw = c, sh, craw
		}
		// while a write call is in flight (observed at every transport write it causes) the caller's payload
		// must read as the caller left it: another goroutine may be sending the same slice elsewhere
		var watched, watchedCopy []byte
		var watchedAPI int
		senderRaw.SetOnWrite(func([]byte) {
			if watched != nil && !bytes.Equal(watched, watchedCopy) {
				mon.add("payload-modified-in-flight-api%d", watchedAPI)
			}
		})
		var want []string
		scribble := func(p []byte) {
			for i := range p {
				p[i] = 0xEE
			}
		}
		sizes := []int{0, 1, 125, 126, 700, 70000, 4096, 32768, 65536, 40000, 1 << 20, 33000}
		for i, n := range sizes {
			p := r.Text(n)
			q := append([]byte(nil), p...)
			var err error
			api := i % 5
			op := gws.OpcodeText
			if i >= 6 && api != 3 {
				op = gws.OpcodeBinary
			}
			done := make(chan error, 1)
			watched, watchedCopy, watchedAPI = p, q, api
			switch api {
			case 0:
				err = sender.WriteMessage(op, p)
			case 1:
				err = sender.Writev(op, p[:n/2], p[n/2:])
			case 2:
				sender.WriteAsync(op, p, func(e error) { done <- e })
				err = <-done
			case 3:
				err = sender.WriteString(string(p))
			case 4:
				sender.WritevAsync(op, [][]byte{p[:n/3], p[n/3:]}, func(e error) { done <- e })
				err = <-done
			}
			watched = nil
			if err != nil {
				mon.add("write-error-api%d", api)
			}
			if !bytes.Equal(p, q) {
				mon.add("payload-modified-api%d", api)
			}
			scribble(p) // the call (or its callback) is over: the library must not look at p any more
			want = append(want, fmt.Sprintf("msg:%d:%s", op, hx(q)))
		}
		// ping with payload
		pp := r.Bytes(50)
		pq := append([]byte(nil), pp...)
		_ = sender.WritePing(pp)
		if !bytes.Equal(pp, pq) {
			mon.add("ping-payload-modified")
		}
		scribble(pp)
		want = append(want, "ping:"+hx(pq))
		// broadcaster: the payload must stay valid until Close and the pending sends are over
		bp := r.Text(900)
		bq := append([]byte(nil), bp...)
		b := gws.NewBroadcaster(gws.OpcodeText, bp)
		_ = b.Broadcast(sender)
		_ = b.Close()
		drainAsync(sender)
		if !bytes.Equal(bp, bq) {
			mon.add("broadcast-payload-modified")
		}
		scribble(bp)
		want = append(want, "msg:1:"+hx(bq))
		// WriteFile
		fp := r.Text(300000)
		_ = sender.WriteFile(gws.OpcodeText, bytes.NewReader(fp))
		want = append(want, "msg:1:"+hx(fp))
		if !waitEvents(recvH, 1+len(want), 5*time.Second) {
			mon.add("not-all-delivered(%d/%d)", len(recvH.Events())-1, len(want))
		}
		got := recvH.Events()
		for i, w := range want {
			if i+1 >= len(got) || got[i+1] != w {
				mon.add("delivery-%d-differs", i)
				break
			}
		}
		// the connection is ended by a Close frame sent through a generic write API (which one depends on the case):
		// its payload — with a status the library replaces on the wire — is the caller's as well
		cp := []byte{0x03, 0xe7, 'b', 'y', 'e'}
		if len(args) > 2 && args[2] == "1" {
			cp = []byte{0x00, 0x00}
		}
		cq := append([]byte(nil), cp...)
		switch args[1] + args[2] {
		case "s0":
			_ = sender.WriteMessage(gws.OpcodeCloseConnection, cp)
		case "s1":
			done := make(chan error, 1)
			sender.WriteAsync(gws.OpcodeCloseConnection, cp, func(e error) { done <- e })
			<-done
		case "c0":
			_ = sender.Writev(gws.OpcodeCloseConnection, cp[:2], cp[2:])
		default:
			b := gws.NewBroadcaster(gws.OpcodeCloseConnection, cp)
			_ = b.Broadcast(sender)
			drainAsync(sender)
			_ = b.Close()
		}
		if !bytes.Equal(cp, cq) {
			mon.add("close-payload-modified")
		}
		_ = s.WriteClose(1000, nil)
		sh.WaitClosed(time.Second)
		ch.WaitClosed(time.Second)
	case "hold-messages": // own hold-messages <receiver s|c> <pd> <parallel>: delivered payloads stay intact until Message.Close
		parallel := len(args) > 3 && args[3] == "1"
		type held struct {
			m    *gws.Message
			copy []byte
		}
		var hmu sync.Mutex
		var holds []held
		var pings [][2][]byte
		hr := newRecorder()
		hr.noAutoClose = true
		hr.onMsg = func(c *gws.Conn, m *gws.Message) {
			hmu.Lock()
			holds = append(holds, held{m, append([]byte(nil), m.Bytes()...)})
			hmu.Unlock()
		}
		hr.onPing = func(c *gws.Conn, p []byte) {
			hmu.Lock()
			pings = append(pings, [2][]byte{p, append([]byte(nil), p...)})
			hmu.Unlock()
		}
		other := newRecorder()
		sopt := &gws.ServerOption{PermessageDeflate: ownPD(pd), ParallelEnabled: parallel, ParallelGolimit: 3}
		copt := &gws.ClientOption{PermessageDeflate: ownPD(pd), ParallelEnabled: parallel, ParallelGolimit: 3}
		sh, ch := gws.Event(other), gws.Event(hr)
		if args[1] == "s" {
			sh, ch = hr, other
		}
		s, c, sc, cc, err := handshakePair(sopt, copt, sh, ch)
		if err != nil {
			return "handshake-failed"
		}
		go s.ReadLoop()
		go c.ReadLoop()
		sender := s
		recvRaw := cc
		if args[1] == "s" {
			sender, recvRaw = c, sc
		}
		_ = recvRaw
		total := 0
		for i := 0; i < 30; i++ {
			n := []int{0, 10, 125, 126, 1000, 5000, 70000}[i%7]
			_ = sender.WriteMessage(gws.OpcodeBinary, r.Bytes(n))
			total++
			if i%5 == 0 {
				_ = sender.WritePing(r.Bytes(1 + i%100))
			}
			if i%6 == 0 {
				_ = sender.WriteFile(gws.OpcodeBinary, bytes.NewReader(r.Text(200000))) // fragmented on the wire
				total++
			}
		}
		deadline := time.Now().Add(5 * time.Second)
		for {
			hmu.Lock()
			n := len(holds)
			hmu.Unlock()
			if n >= total || time.Now().After(deadline) {
				if n < total {
					mon.add("not-all-delivered(%d/%d)", n, total)
				}
				break
			}
			time.Sleep(200 * time.Microsecond)
		}
		// churn the pools with unrelated traffic on a second connection pair
		s2, c2, _, _, err := handshakePair(&gws.ServerOption{PermessageDeflate: ownPD(pd)}, &gws.ClientOption{PermessageDeflate: ownPD(pd)}, newRecorder(), newRecorder())
		if err == nil {
			go s2.ReadLoop()
			go c2.ReadLoop()
			for i := 0; i < 40; i++ {
				_ = c2.WriteMessage(gws.OpcodeBinary, r.Bytes([]int{10, 125, 1000, 5000, 70000}[i%5]))
				_ = s2.WriteMessage(gws.OpcodeBinary, r.Bytes([]int{10, 125, 1000, 5000, 70000}[i%5]))
			}
			time.Sleep(20 * time.Millisecond)
			_ = s2.WriteClose(1000, nil)
		}
		hmu.Lock()
		for i, h := range holds {
			if !bytes.Equal(h.m.Bytes(), h.copy) {
				mon.add("held-message-changed")
				_ = i
				break
			}
		}
		for _, p := range pings {
			if !bytes.Equal(p[0], p[1]) {
				mon.add("held-ping-payload-changed")
				break
			}
		}
		for _, h := range holds {
			_ = h.m.Close()
		}
		hmu.Unlock()
		_ = s.WriteClose(1000, nil)
		time.Sleep(10 * time.Millisecond)
	case "window-reuse": // own window-reuse <n>: pooled windows start empty on the next connection
		up := gws.NewUpgrader(newRecorder(), &gws.ServerOption{Logger: quietLogger{}, PermessageDeflate: ownPD(true)})
		for k := 0; k < 12; k++ {
			ch := newRecorder()
			s, c, err := connectTo(up, &gws.ClientOption{PermessageDeflate: ownPD(true)}, ch)
			if err != nil {
				return "handshake-failed"
			}
			sLoop := make(chan struct{})
			go func() { s.ReadLoop(); close(sLoop) }()
			go c.ReadLoop()
			base := r.Bytes(600)
			var want []string
			for i := 0; i < 6; i++ {
				p := append(append([]byte{byte(k), byte(i)}, base...), r.Bytes(50)...) // repeats earlier payloads: uses the dictionary
				_ = s.WriteMessage(gws.OpcodeBinary, p)
				want = append(want, "msg:2:"+hx(p))
			}

			if !waitEvents(ch, 1+len(want), 3*time.Second) {
				mon.add("conn%d-not-all-delivered", k)
			}
			got := ch.Events()
			for i, w := range want {
				if i+1 >= len(got) || got[i+1] != w {
					mon.add("conn%d-delivery-differs", k)
					break
				}
			}
			mon.forgetWindows()
			_ = c.WriteClose(1000, nil)
			ch.WaitClosed(time.Second)
			select {
			case <-sLoop:
			case <-time.After(3 * time.Second):
				mon.add("conn%d-server-readloop-did-not-return", k)
			}
			// late calls on the finished connection: rejected, and what it has released to the pools is no longer its own
			// (nobody else can have taken it yet: no connection is being set up at this moment)
			if e := s.WriteFile(gws.OpcodeBinary, bytes.NewReader(r.Bytes(9000))); retClass(e) != "closed" {
				mon.add("late-writefile-on-finished-connection-not-rejected:%s", retClass(e))
			}
			_ = s.WriteMessage(gws.OpcodeBinary, r.Bytes(3000))
			lb := gws.NewBroadcaster(gws.OpcodeBinary, r.Bytes(3000))
			_ = lb.Broadcast(s)
			drainAsync(s)
			_ = lb.Close()
			if n, ok := mon.windowsIntact(); !ok {
				mon.add("released-window-modified-by-its-former-owner")
			} else if n == 0 {
				mon.add("no-window-was-released")
			}
			time.Sleep(2 * time.Millisecond)
		}
	case "broadcaster": // own broadcaster <closeEarly>: shared frames are released exactly once, after Close and the last pending send
		closeEarly := args[1] == "1"
		closeTwice := len(args) > 3 && args[3] == "1" // Close is called again (an explicit call plus a deferred one): still one release
		up := gws.NewUpgrader(newRecorder(), &gws.ServerOption{Logger: quietLogger{}, PermessageDeflate: ownPD(pd)})
		type pair struct {
			s  *gws.Conn
			ch *recorder
			sc *memConn
		}
		var ps []pair
		for k := 0; k < 4; k++ {
			ch := newRecorder()
			s, c, err := connectTo(up, &gws.ClientOption{PermessageDeflate: ownPD(pd && k%2 == 0)}, ch)
			if err != nil {
				return "handshake-failed"
			}
			go s.ReadLoop()
			go c.ReadLoop()
			ps = append(ps, pair{s: s, ch: ch})
		}
		var want []string
		for round := 0; round < 5; round++ {
			p := r.Text(100 + 400*round)
			b := gws.NewBroadcaster(gws.OpcodeText, p)
			if closeEarly {
				// keep the sends pending: block every connection's queue behind a gate task
				gate := make(chan struct{})
				for _, x := range ps {
					x.s.Async(func() { <-gate })
				}
				for _, x := range ps {
					_ = b.Broadcast(x.s)
				}
				_ = b.Close() // Close before any send has happened
				if closeTwice {
					_ = b.Close()
				}
				close(gate)
			} else {
				for _, x := range ps {
					_ = b.Broadcast(x.s)
				}
				for _, x := range ps {
					drainAsync(x.s)
				}
				_ = b.Close()
			}
			for _, x := range ps {
				drainAsync(x.s)
			}
			if closeTwice {
				_ = b.Close()
				// the released frames may be handed out again at once: whoever gets them must be their only owner
				for _, x := range ps {
					_ = x.s.WriteMessage(gws.OpcodeText, []byte("after-"+strconv.Itoa(round)))
				}
				want = append(want, "msg:1:"+hx(p))
				want = append(want, "msg:1:"+hx([]byte("after-"+strconv.Itoa(round))))
				continue
			}
			want = append(want, "msg:1:"+hx(p))
		}
		for k, x := range ps {
			if !waitEvents(x.ch, 1+len(want), 3*time.Second) {
				mon.add("conn%d-not-all-delivered", k)
				continue
			}
			got := x.ch.Events()
			for i, w := range want {
				if got[i+1] != w {
					mon.add("conn%d-broadcast-%d-corrupted", k, i)
					break
				}
			}
		}
		for _, x := range ps {
			_ = x.s.WriteClose(1000, nil)
		}
		time.Sleep(5 * time.Millisecond)
	default:
		return "bad-op"
	}
	return mon.verdict()
}

func genOwn(g *Gen) {
	for _, sc := range ownTraceScenarios {
		for i := 0; i < g.pick(1, 4); i++ { // the trace of a path does not depend on the run: repeat to show it
			g.Emit("own trace %s", sc)
		}
	}
	for _, role := range []string{"s", "c"} {
		for _, pd := range []string{"0", "1"} {
			g.Emit("own write-apis %s %s", role, pd)
			g.Emit("own hold-messages %s %s 0", role, pd)
			g.Emit("own hold-messages %s %s 1", role, pd)
		}
	}
	g.Emit("own window-reuse 12 1")
	for _, early := range []string{"0", "1"} {
		for _, pd := range []string{"0", "1"} {
			g.Emit("own broadcaster %s %s", early, pd)
			g.Emit("own broadcaster %s %s 1", early, pd)
		}
	}
}

// ---- trace tie: the pool events of one library path, alone on an idle connection ----------------
//
// `own trace <scenario>` runs exactly one path of the library on a fresh, otherwise idle gws endpoint
// whose peer is played by the harness at byte level (so that no second gws endpoint produces events),
// and records through the pool hook every Get/Put of binaryPool and every Put of the generic pools
// between two harness marks (handshake and teardown excluded).  Buffers are named by incarnation: the
// n-th Get in the window is b<n>; a Put names the incarnation it ends (physical reuse of a
// *bytes.Buffer by sync.Pool is therefore invisible, as it should be).  The Lean driver prints the
// get/put projection of the model's path (Gws/Model/Conc/Own.lean) for the same scenario.

var ownTraceScenarios = []string{
	"single-plain", "single-compressed", "fragments-3", "fragments-compressed", "ping",
	"write-server", "write-client", "write-compressed", "writefile-plain-3", "writefile-compressed", "broadcast-2",
	// further scenarios
	"single-plain-hold", "single-compressed-hold", "single-plain-client", "single-compressed-client",
	"fragments-pooled", "write-ping", "write-compressed-client", "writefile-plain-1", "writefile-compressed-client",
	"writefile-compressed-big", "write-close", "upgrade",
	"broadcast-2-early", "broadcast-2-mixed", "teardown-idle", "teardown-busy",
}

type poolTracer struct {
	mu   sync.Mutex
	on   bool
	side string
	next int
	live map[*bytes.Buffer]int
	evs  []string
}

func (t *poolTracer) hook(kind string, obj any) {
	t.mu.Lock()
	defer t.mu.Unlock()
	if !t.on {
		return
	}
	switch v := obj.(type) {
	case *bytes.Buffer:
		if kind == "get" {
			t.live[v] = t.next
			t.evs = append(t.evs, fmt.Sprintf("%s:get:b%d", t.side, t.next))
			t.next++
			return
		}
		id, ok := t.live[v]
		if !ok { // a Put that ends no incarnation of this window: a buffer the pool never handed out (or a second Put)
			id = t.next
			t.next++
		}
		delete(t.live, v)
		t.evs = append(t.evs, fmt.Sprintf("%s:put:b%d", t.side, id))
	case []byte:
		t.evs = append(t.evs, fmt.Sprintf("%s:put:win%d", t.side, cap(v)))
	case *bufio.Reader:
		t.evs = append(t.evs, t.side+":put:reader")
	default:
		t.evs = append(t.evs, t.side+":put:deflater")
	}
}

func (t *poolTracer) begin() { t.mu.Lock(); t.on = true; t.mu.Unlock() }
func (t *poolTracer) end() string {
	t.mu.Lock()
	defer t.mu.Unlock()
	t.on = false
	if len(t.evs) == 0 {
		return "-"
	}
	return strings.Join(t.evs, ",")
}

// chunkReader returns its chunks one Read at a time, the last one together with io.EOF.
type chunkReader struct{ chunks [][]byte }

func (r *chunkReader) Read(p []byte) (int, error) {
	if len(r.chunks) == 0 {
		return 0, io.EOF
	}
	n := copy(p, r.chunks[0])
	r.chunks = r.chunks[1:]
	if len(r.chunks) == 0 {
		return n, io.EOF
	}
	return n, nil
}

func ownTrace(scenario string) string {
	tr := &poolTracer{live: map[*bytes.Buffer]int{}, side: "s"}
	gws.VerifSetPoolHook(tr.hook)
	defer gws.VerifSetPoolHook(nil)
	r := NewRand(hashString(scenario))
	has := func(s string) bool { return strings.Contains(scenario, s) }
	pdOpt := gws.PermessageDeflate{Enabled: true, ServerContextTakeover: true, ClientContextTakeover: true, PoolSize: 1, Threshold: 1,
		ServerMaxWindowBits: 10, ClientMaxWindowBits: 12}
	const ext = "permessage-deflate; server_max_window_bits=10; client_max_window_bits=12"
	text := func(n int) []byte { // compressible
		return bytes.Repeat([]byte("the quick brown fox "), n/20+1)[:n]
	}

	// the endpoint under observation: a server (raw client peer) or a client (raw server peer)
	type endpoint struct {
		c     *gws.Conn
		local *memConn
		peer  *memConn
		h     *recorder
		end   chan struct{} // closed when the sentinel ping has been handled
		loop  chan struct{} // closed when ReadLoop has returned
	}
	open := func(client, pd bool) (*endpoint, error) {
		e := &endpoint{h: newRecorder(), end: make(chan struct{}), loop: make(chan struct{})}
		e.h.noAutoClose = has("hold")
		e.h.onPing = func(c *gws.Conn, p []byte) {
			if string(p) == "END" {
				close(e.end)
			}
		}
		x := ""
		var err error
		if client {
			copt := &gws.ClientOption{}
			if pd {
				copt.PermessageDeflate, x = pdOpt, ext
			}
			e.c, e.local, e.peer, err = clientConnRaw(copt, e.h, x, nil)
		} else {
			sopt := &gws.ServerOption{}
			if pd {
				sopt.PermessageDeflate, x = pdOpt, ext
			}
			e.c, e.local, e.peer, err = serverConnRaw(sopt, e.h, x)
		}
		if err != nil {
			return nil, err
		}
		opened := make(chan struct{})
		e.h.onOpen = func(*gws.Conn) { close(opened) }
		go func() { e.c.ReadLoop(); close(e.loop) }()
		<-opened
		return e, nil
	}
	// deliver raw frames to the endpoint's reader, followed by the sentinel; returns when the sentinel
	// has been handled, i.e. when the readMessage calls for the frames have returned
	feed := func(e *endpoint, client bool, frames ...frameSpec) bool {
		var b []byte
		for _, f := range append(frames, frameSpec{fin: true, opcode: 9, payload: []byte("END")}) {
			f.masked = !client
			if f.masked {
				copy(f.key[:], r.Bytes(4))
			}
			b = append(b, f.bytes()...)
		}
		_, _ = e.peer.Write(b)
		select {
		case <-e.end:
			return true
		case <-time.After(3 * time.Second):
			return false
		}
	}
	finish := func(e *endpoint) {
		_ = e.c.WriteClose(1000, nil)
		select {
		case <-e.loop:
		case <-time.After(time.Second):
		}
	}

	client := has("client")
	if client {
		tr.side = "c"
	}
	pd := has("compressed") || has("mixed") || has("teardown") || has("write-close")
	var out string
	switch {
	case strings.HasPrefix(scenario, "single-"), strings.HasPrefix(scenario, "fragments-"), scenario == "ping":
		e, err := open(client, pd)
		if err != nil {
			return "handshake-failed"
		}
		var frames []frameSpec
		switch {
		case strings.HasPrefix(scenario, "single-plain"):
			frames = []frameSpec{{fin: true, opcode: 2, payload: r.Bytes(20)}}
		case strings.HasPrefix(scenario, "single-compressed"):
			frames = []frameSpec{{fin: true, rsv1: true, opcode: 1, payload: deflateRaw(text(300), nil, 1)}}
		case scenario == "fragments-3":
			frames = []frameSpec{{opcode: 2, payload: r.Bytes(10)}, {opcode: 0, payload: r.Bytes(10)}, {fin: true, opcode: 0, payload: r.Bytes(10)}}
		case scenario == "fragments-pooled":
			// the reassembly buffer is make([]byte, 0, 128) grown to 256 by bytes.Buffer: a pool-sized capacity,
			// so the application's Message.Close donates a buffer that the pool never handed out
			frames = []frameSpec{{opcode: 2, payload: r.Bytes(128)}, {fin: true, opcode: 0, payload: r.Bytes(100)}}
		case scenario == "fragments-compressed":
			z := deflateRaw(text(300), nil, 1)
			a, b := len(z)/3, 2*len(z)/3
			frames = []frameSpec{{rsv1: true, opcode: 1, payload: z[:a]}, {opcode: 0, payload: z[a:b]}, {fin: true, opcode: 0, payload: z[b:]}}
		case scenario == "ping":
			frames = []frameSpec{{fin: true, opcode: 9, payload: r.Bytes(5)}}
		}
		var held []*gws.Message
		var hmu sync.Mutex
		e.h.onMsg = func(c *gws.Conn, m *gws.Message) {
			hmu.Lock()
			held = append(held, m)
			hmu.Unlock()
		}
		tr.begin()
		ok := feed(e, client, frames...)
		if has("hold") { // the application closes the message long after the handler (and readMessage) returned
			hmu.Lock()
			for _, m := range held {
				_ = m.Close()
			}
			hmu.Unlock()
		}
		out = tr.end()
		if !ok {
			out = "sentinel-timeout:" + out
		}
		finish(e)
	case scenario == "upgrade": // the server handshake itself: the 101 response is built in a pooled buffer
		tr.begin()
		e, err := open(false, true)
		out = tr.end()
		if err != nil {
			return "handshake-failed"
		}
		finish(e)
	case strings.HasPrefix(scenario, "write-"):
		e, err := open(client, pd)
		if err != nil {
			return "handshake-failed"
		}
		tr.begin()
		switch {
		case scenario == "write-close": // an active close, up to the end of the read loop (TryLock succeeds: no writer in flight)
			err = e.c.WriteClose(1001, []byte("bye"))
			select {
			case <-e.loop:
			case <-time.After(3 * time.Second):
				err = fmt.Errorf("loop did not end")
			}
		case scenario == "write-ping":
			err = e.c.WritePing(r.Bytes(10))
		case pd:
			err = e.c.WriteMessage(gws.OpcodeText, text(300))
		default:
			err = e.c.WriteMessage(gws.OpcodeBinary, r.Bytes(20))
		}
		out = tr.end()
		if err != nil {
			out = "write-error:" + out
		}
		finish(e)
	case strings.HasPrefix(scenario, "writefile-"):
		e, err := open(client, pd)
		if err != nil {
			return "handshake-failed"
		}
		rd := &chunkReader{chunks: [][]byte{text(100), text(100), text(50)}}
		if has("plain-1") {
			rd.chunks = rd.chunks[:1]
		}
		if has("big") { // incompressible: about 300 KB of output, i.e. three 128 KiB output buffers, two of them streamed
			rd.chunks = [][]byte{r.Bytes(100000), r.Bytes(100000), r.Bytes(100000)}
		}
		tr.begin()
		err = e.c.WriteFile(gws.OpcodeText, rd)
		out = tr.end()
		if err != nil {
			out = "write-error:" + out
		}
		finish(e)
	case strings.HasPrefix(scenario, "broadcast-2"):
		e1, err := open(false, false)
		if err != nil {
			return "handshake-failed"
		}
		e2, err := open(false, has("mixed"))
		if err != nil {
			return "handshake-failed"
		}
		tr.begin()
		b := gws.NewBroadcaster(gws.OpcodeText, text(300))
		if has("early") { // Close while both sends are still pending: the last send releases the frames
			gate := make(chan struct{})
			e1.c.Async(func() { <-gate })
			e2.c.Async(func() { <-gate })
			_ = b.Broadcast(e1.c)
			_ = b.Broadcast(e2.c)
			_ = b.Close()
			close(gate)
			drainAsync(e1.c)
			drainAsync(e2.c)
		} else {
			_ = b.Broadcast(e1.c)
			_ = b.Broadcast(e2.c)
			drainAsync(e1.c)
			drainAsync(e2.c)
			_ = b.Close()
		}
		out = tr.end()
		finish(e1)
		finish(e2)
	case strings.HasPrefix(scenario, "teardown-"):
		// only the generic pools are of interest here (reader, compression window, decompression window);
		// the binaryPool events of the concurrent writers are filtered out (their order is not determined)
		e, err := open(false, true)
		if err != nil {
			return "handshake-failed"
		}
		tr.begin()
		if scenario == "teardown-busy" {
			e.local.Stall()
			wdone := make(chan struct{})
			go func() { _ = e.c.WriteMessage(gws.OpcodeText, text(300)); close(wdone) }() // holds c.mu, parked in the transport
			e.local.WaitStalled(1, 2*time.Second)
			cdone := make(chan struct{})
			go func() { _ = e.c.WriteClose(1000, nil); close(cdone) }() // wins the CAS, waits for c.mu
			time.Sleep(20 * time.Millisecond)
			_, _ = e.peer.Write([]byte{0x89, 0x00}) // unmasked: the reader fails, loses the CAS, runs OnClose, reclaims
			select {
			case <-e.loop:
			case <-time.After(3 * time.Second):
				out = "loop-timeout:"
			}
			e.local.Unstall()
			<-wdone
			<-cdone
		} else {
			_, _ = e.peer.Write([]byte{0x89, 0x00})
			select {
			case <-e.loop:
			case <-time.After(3 * time.Second):
				out = "loop-timeout:"
			}
		}
		all := tr.end()
		var keep []string
		for _, ev := range strings.Split(all, ",") {
			if !strings.Contains(ev, ":b") && ev != "-" {
				keep = append(keep, ev)
			}
		}
		if len(keep) == 0 {
			out += "-"
		} else {
			out += strings.Join(keep, ",")
		}
	default:
		return "bad-op"
	}
	return out
}
