package main

import (
	"bufio"
	"bytes"
	"fmt"
	"io"
	"net"
	"net/http"
	"runtime"
	"strconv"
	"strings"
	"sync"
	"time"

	"github.com/lxzan/gws"
)

func init() {
	register(&Suite{Name: "faults", Gen: genFaults, Exec: execFaults, Isolated: true})
}

// gwsGoroutines returns the stacks of goroutines that are currently inside gws code (excluding the
// harness's own frames' callers is not possible in general, so callers pass a marker to ignore).
func gwsGoroutines() []string {
	buf := make([]byte, 1<<20)
	n := runtime.Stack(buf, true)
	var out []string
	for _, g := range strings.Split(string(buf[:n]), "\n\n") {
		if strings.Contains(g, "github.com/lxzan/gws.") && !strings.Contains(g, "gwsGoroutines") {
			out = append(out, g)
		}
	}
	return out
}

// settle waits until no goroutine is inside gws code any more (up to d) and returns how many remain.
func settle(d time.Duration) (int, string) {
	deadline := time.Now().Add(d)
	for {
		gs := gwsGoroutines()
		if len(gs) == 0 {
			return 0, ""
		}
		if time.Now().After(deadline) {
			first := strings.Join(strings.Fields(gs[0]), " ")
			if len(first) > 300 {
				first = first[:300]
			}
			return len(gs), first
		}
		time.Sleep(2 * time.Millisecond)
	}
}

func kindOf(s string) faultKind {
	switch s {
	case "short":
		return faultShort
	case "eof":
		return faultEOF
	case "timeout":
		return faultTimeout
	case "reset":
		return faultReset
	case "longerr":
		return faultLongErr
	}
	return faultErr
}

// planFor: fault at the k-th write (w) or read (r) of the endpoint.
func planFor(op string, k int, kind string) *faultPlan {
	p := &faultPlan{readAt: -1, writeAt: -1, kind: kindOf(kind), sticky: true}
	if op == "w" {
		p.writeAt = k
	} else {
		p.readAt = k
	}
	return p
}

// sessionScript: the traffic of the scripted session used for fault enumeration.
func sessionScript(s, c *gws.Conn) {
	_ = c.WriteMessage(gws.OpcodeText, []byte("hello from client"))
	_ = s.WriteMessage(gws.OpcodeBinary, bytes.Repeat([]byte{7}, 300))
	_ = c.WritePing([]byte("p"))
	_ = s.WriteFile(gws.OpcodeBinary, &scriptedReader{chunks: [][]byte{bytes.Repeat([]byte("a"), 1000), bytes.Repeat([]byte("b"), 500)}})
	_ = c.Writev(gws.OpcodeText, []byte("a"), []byte("b"))
	done := make(chan struct{})
	s.WriteAsync(gws.OpcodeText, []byte("async"), func(error) { close(done) })
	select {
	case <-done:
	case <-time.After(2 * time.Second):
	}
	_ = c.WriteClose(1000, []byte("bye"))
}

// runSession runs the scripted session with a fault plan on one endpoint and reports the teardown verdict.
func runSession(endpoint string, plan *faultPlan, compress bool) (verdict string, ops [2]int) {
	sh, ch := newRecorder(), newRecorder()
	pd := gws.PermessageDeflate{Enabled: compress, ServerContextTakeover: true, ClientContextTakeover: true}
	var panicked string
	var pmu sync.Mutex
	rec := func(where string) {
		if e := recover(); e != nil {
			pmu.Lock()
			panicked = where + ":" + strings.Join(strings.Fields(fmt.Sprint(e)), "_")
			pmu.Unlock()
		}
	}
	s, c, sc, cc, err := handshakePair(&gws.ServerOption{PermessageDeflate: pd}, &gws.ClientOption{PermessageDeflate: pd}, sh, ch)
	if err != nil {
		return "handshake-failed", ops
	}
	target, tconn := sc, s
	if endpoint == "c" {
		target, tconn = cc, c
	}
	if plan != nil {
		p := *plan
		target.SetPlan(&p)
		defer func() { ops = [2]int{p.reads, p.writes} }()
	} else {
		p := &faultPlan{readAt: -1, writeAt: -1}
		target.SetPlan(p)
		defer func() { ops = [2]int{p.reads, p.writes} }()
	}
	var wg sync.WaitGroup
	wg.Add(2)
	go func() { defer wg.Done(); defer rec("server-readloop"); s.ReadLoop() }()
	go func() { defer wg.Done(); defer rec("client-readloop"); c.ReadLoop() }()
	func() { defer rec("script"); sessionScript(s, c) }()
	// whatever happened, end the session from both sides so that both loops can finish
	_ = s.WriteClose(1001, nil)
	_ = c.WriteClose(1001, nil)
	loopsDone := make(chan struct{})
	go func() { wg.Wait(); close(loopsDone) }()
	select {
	case <-loopsDone:
	case <-time.After(5 * time.Second):
		return "readloop-did-not-return", ops
	}
	pmu.Lock()
	p := panicked
	pmu.Unlock()
	if p != "" {
		return "panic:" + p, ops
	}
	var problems []string
	check := func(name string, h *recorder, conn *gws.Conn, t *memConn) {
		evs := h.Events()
		closes, opens := 0, 0
		for _, e := range evs {
			if e == "open" {
				opens++
			}
			if strings.HasPrefix(e, "close:") {
				closes++
				if e == "close:nil" {
					problems = append(problems, name+"-onclose-nil")
				}
			}
		}
		if opens != 1 || closes != 1 || evs[0] != "open" || !strings.HasPrefix(evs[len(evs)-1], "close:") {
			problems = append(problems, name+"-lifecycle:"+strings.Join(evs, ";"))
		}
		if !t.IsClosed() {
			problems = append(problems, name+"-transport-open")
		}
		before := len(t.Tap())
		if err := conn.WriteMessage(gws.OpcodeText, []byte("late")); err == nil || retClass(err) != "closed" {
			problems = append(problems, name+"-late-write-not-rejected:"+retClass(err))
		}
		// every other write API on the finished connection: the closed-connection error, and nothing reaches the transport
		calls0 := t.WriteAttempts()
		lateDone := make(chan []string, 1)
		go func() { lateDone <- lateWrites(name, conn, t, before, calls0) }()
		select {
		case ps := <-lateDone:
			problems = append(problems, ps...)
		case <-time.After(5 * time.Second):
			problems = append(problems, name+"-late-write-blocks-forever")
		}
	}
	check("server", sh, s, sc)
	check("client", ch, c, cc)
	for name, t := range map[string]*memConn{"server": sc, "client": cc} {
		tap := t.Tap()
		hs := 0
		if i := bytes.Index(tap, []byte("\r\n\r\n")); i >= 0 {
			hs = i + 4
		}
		// gws hands every frame to the transport in one Write: the frames are decoded per Write call. The injected short write
		// delivers a PART of a frame; what follows it on the wire cannot be parsed as a stream any more (where the next frame
		// starts depends on the random mask key), so that call is skipped instead of letting it shift the decoding of the rest.
		var fs []decodedFrame
		off := 0
		for _, call := range t.WriteCalls() {
			start := off
			off += len(call)
			if start < hs {
				continue
			}
			if part, err := decodeFrames(call); err == nil {
				fs = append(fs, part...)
			}
		}
		closes := 0
		for _, f := range fs {
			if f.opcode >= 8 && (len(f.payload) > 125 || !f.fin || f.lenForm != 7) {
				problems = append(problems, fmt.Sprintf("%s-sent-malformed-control-frame(opcode=%d,len=%d)", name, f.opcode, len(f.payload)))
			}
			if f.opcode == 8 {
				closes++
			}
		}
		if closes > 1 {
			problems = append(problems, name+"-sent-two-close-frames")
		}
	}
	_ = tconn
	if n, first := settle(2 * time.Second); n > 0 {
		problems = append(problems, fmt.Sprintf("goroutines-left=%d[%s]", n, first))
	}
	if len(problems) > 0 {
		return strings.Join(problems, ","), ops
	}
	return "teardown-ok", ops
}

// lateWrites calls every write API on a finished connection: each must return the closed-connection error and
// nothing may reach the transport.
func lateWrites(name string, conn *gws.Conn, t *memConn, before, calls0 int) []string {
	var problems []string
	late := map[string]error{
		"ping":   conn.WritePing([]byte("p")),
		"pong":   conn.WritePong(nil),
		"string": conn.WriteString("late"),
		"v":      conn.Writev(gws.OpcodeBinary, []byte("la"), []byte("te")),
		"file":   conn.WriteFile(gws.OpcodeBinary, bytes.NewReader([]byte("late file"))),
		"close":  conn.WriteClose(1000, nil),
	}
	ad := make(chan error, 1)
	conn.WriteAsync(gws.OpcodeText, []byte("late"), func(e error) { ad <- e })
	select {
	case late["async"] = <-ad:
	case <-time.After(3 * time.Second):
		problems = append(problems, name+"-late-async-callback-missing")
	}
	for _, api := range []string{"async", "close", "file", "ping", "pong", "string", "v"} {
		if e, ok := late[api]; ok && retClass(e) != "closed" {
			problems = append(problems, name+"-late-"+api+"-not-rejected:"+retClass(e))
		}
	}
	b := gws.NewBroadcaster(gws.OpcodeText, []byte("late"))
	_ = b.Broadcast(conn)
	drainAsync(conn)
	_ = b.Close()
	if len(t.Tap()) != before || t.WriteAttempts() != calls0 {
		problems = append(problems, name+"-late-write-touched-wire")
	}
	return problems
}

func execFaults(args []string) string {
	switch args[0] {
	case "session": // faults session <s|c> <r|w> <k> <kind> <compress>
		k, _ := strconv.Atoi(args[3])
		v, _ := runSession(args[1], planFor(args[2], k, args[4]), args[5] == "1")
		return v
	case "session-clean":
		v, _ := runSession(args[1], nil, args[2] == "1")
		return v
	case "hs-client": // faults hs-client <r|w> <k> <kind>: fault during the client's handshake
		k, _ := strconv.Atoi(args[2])
		peer, cc := newPipe()
		cc.SetPlan(planFor(args[1], k, args[3]))
		go func() { // a correct raw server
			br := bufio.NewReader(peer)
			req, err := http.ReadRequest(br)
			if err != nil {
				return
			}
			_, _ = peer.Write([]byte("HTTP/1.1 101 Switching Protocols\r\nUpgrade: websocket\r\nConnection: Upgrade\r\nSec-WebSocket-Accept: " +
				acceptKey(req.Header.Get("Sec-WebSocket-Key")) + "\r\n\r\n"))
		}()
		conn, _, err := gws.NewClientFromConn(newRecorder(), &gws.ClientOption{Addr: "ws://verif.test/", HandshakeTimeout: 300 * time.Millisecond, Logger: quietLogger{}}, cc)
		return hsVerdict(conn, err, cc, peer)
	case "hs-client-stall": // the transport accepts no byte: the handshake must time out, close, and leave nothing behind
		peer, cc := newPipe()
		cc.Stall()
		t0 := time.Now()
		conn, _, err := gws.NewClientFromConn(newRecorder(), &gws.ClientOption{Addr: "ws://verif.test/", HandshakeTimeout: 100 * time.Millisecond, Logger: quietLogger{}}, cc)
		el := time.Since(t0)
		v := hsVerdict(conn, err, cc, peer)
		if el > 2*time.Second {
			v += ",late-return"
		}
		return v
	case "hs-client-silent": // faults hs-client-silent <n>: the server takes the request and sends only the first n bytes of its answer, then nothing
		n, _ := strconv.Atoi(args[1])
		peer, cc := newPipe()
		go func() {
			br := bufio.NewReader(peer)
			req, err := http.ReadRequest(br)
			if err != nil {
				return
			}
			resp := []byte("HTTP/1.1 101 Switching Protocols\r\nUpgrade: websocket\r\nConnection: Upgrade\r\nSec-WebSocket-Accept: " +
				acceptKey(req.Header.Get("Sec-WebSocket-Key")) + "\r\n\r\n")
			if n > len(resp)-1 {
				n = len(resp) - 1
			}
			if n > 0 {
				_, _ = peer.Write(resp[:n])
			}
		}()
		t0 := time.Now()
		conn, _, err := gws.NewClientFromConn(newRecorder(), &gws.ClientOption{Addr: "ws://verif.test/", HandshakeTimeout: 150 * time.Millisecond, Logger: quietLogger{}}, cc)
		el := time.Since(t0)
		if err == nil {
			_ = cc.Close()
			_ = peer.Close()
			return "silent-server-handshake-succeeded"
		}
		v := hsVerdict(conn, err, cc, peer)
		if el > 3*time.Second {
			v += ",late-return"
		}
		return v
	case "hs-client-tcp": // faults hs-client-tcp <ws|wss>: a real TCP server that accepts and never answers (for wss: not even the TLS handshake)
		ln, err := net.Listen("tcp", "127.0.0.1:0")
		if err != nil {
			return "handshake-clean\tno-loopback" // no loopback in this environment: nothing observed
		}
		defer ln.Close()
		accepted := make(chan net.Conn, 1)
		go func() {
			c, err := ln.Accept()
			if err == nil {
				accepted <- c
				_, _ = io.Copy(io.Discard, c)
			}
		}()
		type res struct {
			c   *gws.Conn
			err error
		}
		done := make(chan res, 1)
		go func() {
			c, _, err := gws.NewClient(newRecorder(), &gws.ClientOption{Addr: args[1] + "://" + ln.Addr().String() + "/", HandshakeTimeout: 200 * time.Millisecond, Logger: quietLogger{}})
			done <- res{c, err}
		}()
		v := "handshake-clean"
		select {
		case r := <-done:
			if r.err == nil {
				v = "silent-server-handshake-succeeded"
			} else if r.c != nil {
				v = "conn-returned-with-error"
			}
		case <-time.After(5 * time.Second):
			v = "client-handshake-not-bounded-by-its-timeout"
		}
		select {
		case c := <-accepted:
			_ = c.Close()
		default:
		}
		return v
	case "hs-server-stall": // the peer sends its request and stops reading: the 101 response hits the handshake time-out
		sc, peer := newPipe()
		_, _ = peer.Write(rawRequest(""))
		br := bufio.NewReaderSize(sc, 4096)
		req, err := http.ReadRequest(br)
		if err != nil {
			return "bad-op request"
		}
		sc.Stall()
		up := gws.NewUpgrader(newRecorder(), &gws.ServerOption{Logger: quietLogger{}, HandshakeTimeout: 100 * time.Millisecond})
		t0 := time.Now()
		conn, err := up.UpgradeFromConn(sc, br, req)
		el := time.Since(t0)
		if err == nil {
			_ = sc.Close()
			_ = peer.Close()
			sc.Unstall()
			return "stalled-handshake-succeeded"
		}
		v := hsVerdict(conn, err, sc, peer)
		if el > 2*time.Second {
			v += ",late-return"
		}
		return v
	case "hs-server": // faults hs-server <r|w> <k> <kind>: fault on the server's transport during the upgrade
		k, _ := strconv.Atoi(args[2])
		sc, peer := newPipe()
		_, _ = peer.Write(rawRequest(""))
		br := bufio.NewReaderSize(sc, 4096)
		req, err := http.ReadRequest(br)
		if err != nil {
			return "bad-op request"
		}
		sc.SetPlan(planFor(args[1], k, args[3]))
		up := gws.NewUpgrader(newRecorder(), &gws.ServerOption{Logger: quietLogger{}, HandshakeTimeout: 300 * time.Millisecond})
		conn, err := up.UpgradeFromConn(sc, br, req)
		return hsVerdict(conn, err, sc, peer)
	case "close-via-write": // a Close frame sent through the generic write API must close the connection like WriteClose
		sh := newRecorder()
		s, sc, _, err := serverConnRaw(&gws.ServerOption{}, sh, "")
		if err != nil {
			return "handshake-failed"
		}
		api := args[1]
		var e1 error
		switch api {
		case "msg":
			e1 = s.WriteMessage(gws.OpcodeCloseConnection, []byte{0x03, 0xe8, 'b', 'y', 'e'})
		case "v":
			e1 = s.Writev(gws.OpcodeCloseConnection, []byte{0x03, 0xe8}, []byte("bye"))
		case "async":
			done := make(chan error, 1)
			s.WriteAsync(gws.OpcodeCloseConnection, []byte{0x03, 0xe8}, func(e error) { done <- e })
			e1 = <-done
		case "vasync":
			done := make(chan error, 1)
			s.WritevAsync(gws.OpcodeCloseConnection, [][]byte{{0x03, 0xe8}, []byte("bye")}, func(e error) { done <- e })
			e1 = <-done
		case "bc":
			b := gws.NewBroadcaster(gws.OpcodeCloseConnection, []byte{0x03, 0xe8, 'b', 'y', 'e'})
			e1 = b.Broadcast(s)
			drainAsync(s)
			_ = b.Close()
		}
		e2 := s.WriteMessage(gws.OpcodeText, []byte("after"))
		e3 := s.WriteClose(1001, nil)
		fs, _ := decodeFrames(sc.Tap())
		var ops []string
		for _, f := range fs {
			ops = append(ops, strconv.Itoa(int(f.opcode)))
		}
		return fmt.Sprintf("first=%s later-write=%s later-close=%s frames=%s closed=%s transport-closed=%s", retClass(e1), retClass(e2), retClass(e3),
			strings.Join(ops, ","), b2s(gws.VerifIsClosed(s)), b2s(sc.IsClosed()))
	case "file-gap": // faults file-gap <s|c> <compress> <msg|v|async|bc> <readIndex>: a data writer arrives while WriteFile reads its source
		ext := ""
		pd := gws.PermessageDeflate{}
		if args[2] == "1" {
			ext = "permessage-deflate; server_no_context_takeover; client_no_context_takeover"
			pd = gws.PermessageDeflate{Enabled: true}
		}
		var conn *gws.Conn
		var local *memConn
		var err error
		if args[1] == "s" {
			conn, local, _, err = serverConnRaw(&gws.ServerOption{PermessageDeflate: pd}, newRecorder(), ext)
		} else {
			conn, local, _, err = clientConnRaw(&gws.ClientOption{PermessageDeflate: pd}, newRecorder(), ext, nil)
		}
		if err != nil {
			return "handshake-failed"
		}
		at, _ := strconv.Atoi(args[4])
		intruderDone := make(chan struct{})
		var bc *gws.Broadcaster
		intrude := func() {
			defer close(intruderDone)
			switch args[3] {
			case "msg":
				_ = conn.WriteMessage(gws.OpcodeText, []byte("intruder"))
			case "v":
				_ = conn.Writev(gws.OpcodeText, []byte("intr"), []byte("uder"))
			case "async":
				d := make(chan struct{})
				conn.WriteAsync(gws.OpcodeText, []byte("intruder"), func(error) { close(d) })
				<-d
			case "bc":
				bc = gws.NewBroadcaster(gws.OpcodeText, []byte("intruder"))
				_ = bc.Broadcast(conn)
				drainAsync(conn)
			}
		}
		rnd := NewRand(uint64(at)*77 + 5)
		var chunks [][]byte
		for i := 0; i < 6; i++ {
			b := make([]byte, 100*1024)
			for j := range b {
				b[j] = byte(rnd.Intn(256))
			}
			chunks = append(chunks, b)
		}
		src := &gapReader{chunks: chunks, at: at, hook: func() {
			go intrude()
			select { // with the write lock held for the whole streamed message the intruder cannot finish before we go on
			case <-intruderDone:
			case <-time.After(60 * time.Millisecond):
			}
		}}
		if err := conn.WriteFile(gws.OpcodeBinary, src); err != nil {
			return "writefile-failed:" + retClass(err)
		}
		select {
		case <-intruderDone:
		case <-time.After(3 * time.Second):
			return "intruder-did-not-return"
		}
		if bc != nil {
			_ = bc.Close()
		}
		fs, derr := decodeFrames(local.Tap())
		if derr != nil {
			return "wire-not-whole-frames:" + derr.Error()
		}
		open := false
		for i, f := range fs {
			switch {
			case f.opcode == 2 && !f.fin:
				open = true
			case f.opcode == 0 && f.fin:
				open = false
			case f.opcode == 1 || f.opcode == 2:
				if open {
					return fmt.Sprintf("data-frame-inside-streamed-message:frame-%d-of-%d", i, len(fs))
				}
			}
		}
		if open {
			return "streamed-message-not-finished"
		}
		return "contiguous"
	case "deadline-stall": // faults deadline-stall <s|c>: the application has set a write deadline, the peer stops reading: the failing write ends in a complete teardown
		sh := newRecorder()
		var conn *gws.Conn
		var local *memConn
		var err error
		if args[1] == "s" {
			conn, local, _, err = serverConnRaw(&gws.ServerOption{}, sh, "")
		} else {
			conn, local, _, err = clientConnRaw(&gws.ClientOption{}, sh, "", nil)
		}
		if err != nil {
			return "handshake-failed"
		}
		loopDone := make(chan struct{})
		go func() { conn.ReadLoop(); close(loopDone) }()
		local.Stall()
		late := len(args) > 2 && args[2] == "late"
		if !late {
			_ = conn.SetWriteDeadline(time.Now().Add(80 * time.Millisecond))
		}
		wdone := make(chan error, 1)
		go func() { wdone <- conn.WriteMessage(gws.OpcodeText, bytes.Repeat([]byte("x"), 2000)) }()
		v := ""
		if late {
			// the writer is already stalled (holding the write lock) when a watchdog goroutine bounds it with a deadline:
			// the deadline must reach the transport at once
			if !local.WaitStalled(1, 2*time.Second) {
				return "bad-op writer-did-not-stall"
			}
			sdone := make(chan struct{})
			go func() {
				if args[1] == "s" {
					_ = conn.SetWriteDeadline(time.Now().Add(60 * time.Millisecond))
				} else {
					_ = conn.SetDeadline(time.Now().Add(60 * time.Millisecond))
				}
				close(sdone)
			}()
			select {
			case <-sdone:
			case <-time.After(1500 * time.Millisecond):
				v = "deadline-call-blocked-behind-stalled-writer"
				local.Unstall()
				_ = local.Close()
				<-sdone
				<-wdone
				settle(2 * time.Second)
				return v
			}
		}
		select {
		case e := <-wdone:
			if e == nil {
				v = "write-into-a-stalled-peer-succeeded"
			}
		case <-time.After(3 * time.Second):
			v = "write-did-not-return-at-its-deadline"
		}
		if v == "" {
			select {
			case <-loopDone:
				if !local.IsClosed() {
					v = "transport-open"
				} else if !sh.WaitClosed(time.Second) {
					v = "close-callback-missing"
				} else {
					v = "teardown-ok"
				}
			case <-time.After(3 * time.Second):
				v = "readloop-did-not-return"
			}
		}
		local.Unstall()
		_ = local.Close()
		select {
		case <-loopDone:
		case <-time.After(3 * time.Second):
		}
		settle(2 * time.Second)
		return v
	case "file-fault": // faults file-fault <s|c> <compress> <k>: the k-th transport write of a streamed send fails; later writes of every kind are rejected, none blocks
		sh := newRecorder()
		pd := gws.PermessageDeflate{}
		ext := ""
		if args[2] == "1" {
			pd = gws.PermessageDeflate{Enabled: true, ServerContextTakeover: true, ClientContextTakeover: true}
			ext = "permessage-deflate"
		}
		var conn *gws.Conn
		var local *memConn
		var err error
		if args[1] == "s" {
			conn, local, _, err = serverConnRaw(&gws.ServerOption{PermessageDeflate: pd}, sh, ext)
		} else {
			conn, local, _, err = clientConnRaw(&gws.ClientOption{PermessageDeflate: pd}, sh, ext, nil)
		}
		if err != nil {
			return "handshake-failed"
		}
		k, _ := strconv.Atoi(args[3])
		loopDone := make(chan struct{})
		go func() { conn.ReadLoop(); close(loopDone) }()
		local.SetPlan(planFor("w", k, "err"))
		rnd := NewRand(uint64(k) + 11)
		var chunks [][]byte
		for i := 0; i < 5; i++ {
			chunks = append(chunks, rnd.Bytes(100*1024))
		}
		e1 := conn.WriteFile(gws.OpcodeBinary, &scriptedReader{chunks: chunks})
		if !local.PlanFired() {
			_ = local.Close()
			<-loopDone
			return "teardown-ok\tfault-not-reached"
		}
		if e1 == nil {
			return "streamed-send-reported-success-although-a-write-failed"
		}
		res := make(chan string, 1)
		go func() {
			var bad []string
			if e := conn.WriteFile(gws.OpcodeBinary, bytes.NewReader([]byte("again"))); retClass(e) != "closed" {
				bad = append(bad, "file:"+retClass(e))
			}
			if e := conn.WriteMessage(gws.OpcodeText, []byte("again")); retClass(e) != "closed" {
				bad = append(bad, "msg:"+retClass(e))
			}
			b := gws.NewBroadcaster(gws.OpcodeBinary, rnd.Bytes(900))
			_ = b.Broadcast(conn)
			drainAsync(conn)
			_ = b.Close()
			if len(bad) > 0 {
				res <- "later-writes-not-rejected:" + strings.Join(bad, ",")
			} else {
				res <- "teardown-ok"
			}
		}()
		v := ""
		select {
		case v = <-res:
		case <-time.After(4 * time.Second):
			return "later-write-blocks-forever"
		}
		select {
		case <-loopDone:
		case <-time.After(3 * time.Second):
			v = "readloop-did-not-return"
		}
		if v == "teardown-ok" && !local.IsClosed() {
			v = "transport-open"
		}
		settle(2 * time.Second)
		return v
	case "stall-readloop": // the Close frame of a local close is stalled in the transport (holding the write lock) and the read side fails: the read loop still returns
		sh := newRecorder()
		pd := gws.PermessageDeflate{Enabled: true, ServerContextTakeover: true, ClientContextTakeover: true}
		s, sc, peer, err := serverConnRaw(&gws.ServerOption{PermessageDeflate: pd}, sh, "permessage-deflate")
		if err != nil {
			return "handshake-failed"
		}
		loopDone := make(chan struct{})
		go func() { s.ReadLoop(); close(loopDone) }()
		sc.Stall()
		closeDone := make(chan struct{})
		go func() { _ = s.WriteClose(1000, nil); close(closeDone) }()
		if !sc.WaitStalled(1, 2*time.Second) {
			return "bad-op close-frame-did-not-stall"
		}
		_, _ = peer.Write([]byte{0x81, 0x01, 'x'}) // an unmasked frame: the server's read side fails
		v := "readloop-returned"
		select {
		case <-loopDone:
		case <-time.After(1500 * time.Millisecond):
			v = "readloop-blocked-behind-stalled-close-frame"
		}
		sc.Unstall()
		_ = sc.Close()
		<-closeDone
		<-loopDone
		settle(2 * time.Second)
		return v
	case "stall-close": // a local close while another writer is stalled on a peer that stopped reading
		sh := newRecorder()
		s, sc, _, err := serverConnRaw(&gws.ServerOption{}, sh, "")
		if err != nil {
			return "handshake-failed"
		}
		go s.ReadLoop()
		sc.Stall()
		go func() { _ = s.WriteMessage(gws.OpcodeText, []byte("stalled")) }()
		if !sc.WaitStalled(1, 2*time.Second) {
			return "bad-op writer-did-not-stall"
		}
		done := make(chan struct{})
		go func() { _ = s.WriteClose(1000, nil); close(done) }()
		v := "close-completed"
		select {
		case <-done:
		case <-time.After(1500 * time.Millisecond):
			v = "close-blocked-behind-stalled-writer"
		}
		sc.Unstall()
		_ = sc.Close()
		<-done
		settle(2 * time.Second)
		return v
	}
	return "bad-op"
}

// gapReader: a WriteFile source that calls hook at the start of its at-th Read (0-based)
type gapReader struct {
	chunks [][]byte
	i, at  int
	hook   func()
}

func (r *gapReader) Read(p []byte) (int, error) {
	if r.i == r.at && r.hook != nil {
		r.hook()
	}
	if r.i >= len(r.chunks) {
		return 0, io.EOF
	}
	n := copy(p, r.chunks[r.i])
	r.i++
	return n, nil
}

func hsVerdict(conn *gws.Conn, err error, local, peer *memConn) string {
	var problems []string
	if err == nil {
		// the fault did not hit the handshake (k beyond its operations): fine, clean up
		if conn == nil {
			return "nil-conn-nil-error"
		}
		if local.PlanFired() {
			// a transport operation of the handshake failed and the handshake function reported success
			_ = local.Close()
			_ = peer.Close()
			return "fault-swallowed"
		}
		_ = local.Close()
		_ = peer.Close()
		settle(2 * time.Second)
		return "handshake-clean"
	}
	if conn != nil {
		problems = append(problems, "conn-returned-with-error")
	}
	if !local.IsClosed() {
		problems = append(problems, "transport-open")
	}
	_ = peer.Close()
	local.Unstall()
	if n, first := settle(2 * time.Second); n > 0 {
		problems = append(problems, fmt.Sprintf("goroutines-left=%d[%s]", n, first))
	}
	if len(problems) > 0 {
		return strings.Join(problems, ",")
	}
	return "handshake-clean"
}

func genFaults(g *Gen) {
	for _, ep := range []string{"s", "c"} {
		for _, comp := range []string{"0", "1"} {
			g.Emit("faults session-clean %s %s", ep, comp)
			ops := [2]int{40, 40} // used if the counting run below does not come back (it runs in this process)
			cnt := make(chan [2]int, 1)
			go func() { _, o := runSession(ep, nil, comp == "1"); cnt <- o }()
			select {
			case ops = <-cnt:
			case <-time.After(20 * time.Second):
			}
			kinds := []string{"err", "short", "eof"}
			stepR, stepW := 1, 1
			if !g.Thorough() {
				stepR = 1 + ops[0]/12
			}
			for k, it := 0, 0; k < ops[0]; k, it = k+stepR, it+1 {
				for _, kind := range []string{"err", "eof", []string{"timeout", "reset", "longerr"}[it%3]} {
					g.Emit("faults session %s r %d %s %s", ep, k, kind, comp)
				}
			}
			for k := 0; k < 4 && k < ops[0]; k++ { // an error text too long for a control frame, at the first reads (always reached)
				g.Emit("faults session %s r %d longerr %s", ep, k, comp)
			}
			for k := 0; k < ops[1]; k += stepW {
				for _, kind := range append(kinds, []string{"timeout", "reset", "longerr"}[k%3]) {
					if kind == "eof" {
						continue
					}
					g.Emit("faults session %s w %d %s %s", ep, k, kind, comp)
				}
			}
		}
	}
	for k := 0; k < 6; k++ {
		for _, kind := range []string{"err", "short", "timeout", "reset"} {
			g.Emit("faults hs-client w %d %s", k, kind)
			g.Emit("faults hs-server w %d %s", k, kind)
		}
		for _, kind := range []string{"err", "eof", "timeout", "reset"} {
			g.Emit("faults hs-client r %d %s", k, kind)
		}
	}
	g.Emit("faults hs-server-stall")
	for _, n := range []int{0, 1, 12, 40, 1000} {
		g.Emit("faults hs-client-silent %d", n)
	}
	g.Emit("faults hs-client-tcp ws")
	g.Emit("faults hs-client-tcp wss")
	for _, api := range []string{"msg", "v", "async", "vasync", "bc"} {
		g.Emit("faults close-via-write %s", api)
	}
	for _, role := range []string{"s", "c"} {
		for _, comp := range []string{"0", "1"} {
			for i, api := range []string{"msg", "v", "async", "bc"} {
				g.Emit("faults file-gap %s %s %s %d", role, comp, api, 1+(i+len(role+comp))%4)
				if g.Thorough() {
					for at := 1; at <= 6; at++ {
						g.Emit("faults file-gap %s %s %s %d", role, comp, api, at)
					}
				}
			}
		}
	}
	g.Emit("faults hs-client-stall")
	g.Emit("faults stall-close")
	g.Emit("faults stall-readloop")
	for _, role := range []string{"s", "c"} {
		g.Emit("faults deadline-stall %s", role)
		g.Emit("faults deadline-stall %s late", role)
		for _, comp := range []string{"0", "1"} {
			for k := 0; k < 5; k++ {
				g.Emit("faults file-fault %s %s %d", role, comp, k)
			}
		}
	}
}
